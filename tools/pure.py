#!/usr/bin/env python3
"""Correspondence check for the PURE functions: the real crate (harness `epdh pure`) and the
extracted Coq model (`ocaml/driver pure`) answer the same query file; the answers are diffed.

CLI:   pure.py <group> [--tier quick|thorough] [--seed N] [--release] [-v]
       group in {rect, graphics, sizing, color, all}
Python: run(group, tier='quick', seed=1) -> dict(group, tier, seed, queries, evaluations,
        n_mismatches, mismatches=[dict(query, real, model, where)], distribution, seconds, errors)
Exit code 1 iff there are mismatches (2 = a build failed, 3 = no mismatch but a process wrote to
stderr / crashed or the alias table of this file is out of date).

Query language (one self-contained query per line, decimal numbers; both sides echo `? <query>` and
then print the answer line(s)):
  rect_i ax ay aw ah bx by bw bh     = x y w h <is_empty>  | = PANIC        a.intersect(b)
  rect_s ax ay aw ah dx dy           = x y w h             | = PANIC        a.sub_offset(dx,dy)
  rect_sweep R ax ay [off]           for all aw,ah in 0..=R, a=(off+ax,off+ay,aw,ah):
                                       I X Y aw ah h1 h2 n npanic nempty   (all b: x,y in off+0..=R, w,h in 0..=R)
                                       S X Y aw ah h1 h2 n npanic          (all dx,dy in off+0..=R)
  buflen w h                         = n                                   buffer_len
  buflen_sweep wlo whi H             B w h1 h2 n   per w, over h in 0..=H
  alias <module>                     = W H bwrbit bytes ct default_all_zero size_w size_h bw_len chr_len var_len
                                       (var_len: buffer().len() of VarDisplay::new(W,H,<bytes>-slice), or ERR)
  var_new ct w h slice_len [bwr]     = OK len [bw_len chr_len] | = ERR       VarDisplay::new + buffer().len()
  var_sweep ct wlo whi H             V ct w h1 h2 n nok   per w, over h in 0..=H and slice lengths
                                       [req-1 if req>0, req, req+1, 0], req = planes*h*ceil(w*bpp/8)
  setpix <target> <rot> <colour> <px> <py> [pats]
                                     = <changes pat1>|<changes pat2>|... size=<w>x<h>
                                       changes = `-` | idx:newbyte,idx:newbyte,... | PANIC
       target = alias:<module> | var:<ct>:<w>:<h>:<bwr>   (VarDisplay over a slice of exactly the
       length buffer() reports); pats (default z,f,r) = start images: z all 0x00, f all 0xFF,
       r PRNG gen_buf(len,'r',7), d<colour> = every pixel DRAWN with that colour under Rotate0
       through set_pixel (real API on one side, Graphics.set_pixel on the other).
  setpix_sweep <target> <rots|all> <ys> <pats>
                                     L rot colour py h1 h2 n nchanged npanic   per (rot, colour, py), over
                                       all px in pxs(): -3..=size_w+3 and 16 extreme values (i32 MIN/MAX..)
       ys = comma list of items `a` or `lo:hi:step`; a, lo, hi may be written H, H-k, H+k with
       H = size().height under the rotation.
  color_table                        T <table> <args> = <value>   every finite conversion table
  rgb888 <oct|color|tri> r g b       = colour
  rgb888_sweep <fn> rlo rhi step     C fn r h1 h2 n   per r (rlo, rlo+step, ..), over g,b in 0,step,..<=255
  rgb565 r g b / rgb555 r g b        = colour          Color::from only
  rgb565_sweep / rgb555_sweep        C rgb565 r h1 h2 n   all values

Hashes: h = (h*B + (v mod P) + 1) mod P over the sequence of answer numbers, for (P,B) =
(2147483647,257) and (2147483629,65599); PANIC = 1000000007, ERR = 1000000009.
A differing sweep line is expanded into its individual queries, which are re-run on both sides, so
the report always names concrete inputs.
"""
import os, sys, subprocess, time
from concurrent.futures import ThreadPoolExecutor
sys.path.insert(0, os.path.dirname(os.path.abspath(__file__)))
import gen, corr
from panels import PANELS, BY_NAME

WORK = corr.WORK
JOBS = 16
U32 = 1 << 32
IMIN, IMAX = -(1 << 31), (1 << 31) - 1
COLORS = {'color': ['black', 'white'], 'tri': ['black', 'white', 'chromatic'],
          'oct': ['black', 'white', 'green', 'blue', 'red', 'yellow', 'orange', 'hiz']}
# colour type of each module's Display alias (NOT the driver's DisplayColor: epd5in83b_v2 drives with
# Color but its Display5in83 alias is a TriColor buffer); cross-checked against the real crate's
# `alias` answers by the sizing group
ALIAS_CT = {p.name: 'color' for p in PANELS}
for _n in ('epd2in13b_v4', 'epd2in13bc', 'epd2in66b', 'epd2in9b_v4', 'epd5in83b_v2', 'epd7in5b_v2'):
    ALIAS_CT[_n] = 'tri'
for _n in ('epd5in65f', 'epd7in3f'):
    ALIAS_CT[_n] = 'oct'
BPP = {'color': (1, 1), 'tri': (1, 2), 'oct': (4, 1)}
OCT_RGB = [(0, 0, 0), (255, 255, 255), (0, 255, 0), (0, 0, 255), (255, 0, 0), (255, 255, 0), (255, 128, 0),
           (128, 128, 128)]

def doc_req(ct, w, h):
    bpp, planes = BPP[ct]
    return planes * h * ((w * bpp + 7) // 8)

# ------------------------------------------------------------------ targets
class Target:
    def __init__(self, spec):
        p = spec.split(':')
        self.spec = spec
        if p[0] == 'alias':
            pn = BY_NAME[p[1]]
            self.ct, self.w, self.h = ALIAS_CT[pn.name], pn.W, pn.H
        else:
            self.ct, self.w, self.h = p[1], int(p[2]), int(p[3])
        self.len = doc_req(self.ct, self.w, self.h) + (int(p[5]) if p[0] == 'var' and len(p) > 5 else 0)
        self.colors = COLORS[self.ct]
    def size(self, rot):
        return (self.w, self.h) if rot in ('0', '180') else (self.h, self.w)
    def pxs(self, rot):
        sw, w, h = self.size(rot)[0], self.w, self.h
        return list(range(-3, sw + 4)) + [IMIN, IMIN + 1, IMIN + w - 1, IMIN + w, IMIN + h - 1, IMIN + h, IMAX - h,
                                           IMAX - w, IMAX - 1, IMAX, w + h, 65535, 65536, -65536, -w, -h]
    def ys(self, spec, rot):
        H = self.size(rot)[1]
        def val(s):
            if s.startswith('H'):
                return H + (int(s[1:]) if len(s) > 1 else 0)
            return int(s)
        out = []
        for item in spec.split(','):
            p = item.split(':')
            if len(p) == 1:
                out.append(val(p[0]))
            else:
                out += list(range(val(p[0]), val(p[1]) + 1, int(p[2])))
        return out

ROTS = ['0', '90', '180', '270']
EXT_YS = "%d,%d,%d,%d" % (IMIN, IMIN + 1, IMAX - 1, IMAX)

class Q:
    """one query: text, estimated cost in seconds (max of both sides), tag for the distribution"""
    __slots__ = ('text', 'cost', 'tag')
    def __init__(self, text, cost=1e-5, tag=''):
        self.text, self.cost, self.tag = text, cost, tag

def sweep_cost(t, nrows_total, npx_avg, npat):
    """rows x colours x px probes; real side ~ len/24e9 s per pattern (full-buffer compare), model ~3.5us"""
    probes = nrows_total * len(t.colors) * npx_avg
    return probes * max(npat * (t.len / 24e9 + 0.1e-6), 3.5e-6)

# ------------------------------------------------------------------ generators
def rnd_u32(rng, hi=U32 - 1):
    """magnitude-uniform value in 0..=hi"""
    if hi <= 0:
        return 0
    bits = rng.below(hi.bit_length() + 1)
    v = rng.below(1 << bits) if bits else 0
    if rng.below(4) == 0:
        v = hi - v
    return max(0, min(hi, v))

BOUND = [0, 1, 2, 7, 8, 9, 255, 256, 65535, 65536, (1 << 31) - 1, 1 << 31, (1 << 31) + 1, U32 - 9, U32 - 8, U32 - 2, U32 - 1]

def gen_rect(tier, rng):
    qs = []
    R = 5 if tier == 'quick' else 12
    Rhi = 3 if tier == 'quick' else 5
    for ax in range(R + 1):
        for ay in range(R + 1):
            n = (R + 1) ** 6
            qs.append(Q("rect_sweep %d %d %d" % (R, ax, ay), n * 0.35e-6, 'sweep0..%d' % R))
    off = U32 - 1 - Rhi
    for ax in range(Rhi + 1):
        for ay in range(Rhi + 1):
            qs.append(Q("rect_sweep %d %d %d %d" % (Rhi, ax, ay, off), (Rhi + 1) ** 6 * 3e-6, 'sweep@2^32-1-%d' % Rhi))
    nfit, novf, nbnd, nsub = (3000, 1000, 2000, 2000) if tier == 'quick' else (100000, 30000, 50000, 50000)
    def fit():
        x = rnd_u32(rng)
        return x, rnd_u32(rng, U32 - 1 - x)
    def near(v, hi):
        d = rnd_u32(rng, 1 << rng.below(12))
        return max(0, min(hi, v + d if rng.below(2) else v - d))
    for k in range(nfit):
        ax, aw = fit(); ay, ah = fit()
        if rng.below(3):
            # b overlapping / touching a
            bx = near(ax + rng.below(aw + 1), U32 - 1); by = near(ay + rng.below(ah + 1), U32 - 1)
            bw = rnd_u32(rng, min(U32 - 1 - bx, 2 * aw + 16)); bh = rnd_u32(rng, min(U32 - 1 - by, 2 * ah + 16))
        else:
            bx, bw = fit(); by, bh = fit()
        if rng.below(2):
            ax, ay, aw, ah, bx, by, bw, bh = bx, by, bw, bh, ax, ay, aw, ah
        qs.append(Q("rect_i %d %d %d %d %d %d %d %d" % (ax, ay, aw, ah, bx, by, bw, bh), tag='prng x+w<2^32'))
    for k in range(novf):
        v = [0] * 8
        for j in (0, 1, 4, 5):
            v[j], v[j + 2] = fit()
        # at least one right/bottom edge beyond u32
        for j in set([rng.choice([0, 1, 4, 5])] + [rng.choice([0, 1, 4, 5]) for _ in range(rng.below(2))]):
            v[j] = rnd_u32(rng, U32 - 1)
            if v[j] == 0:
                v[j] = 1
            lo = U32 - v[j]
            v[j + 2] = min(U32 - 1, lo + rnd_u32(rng, U32 - 1 - lo))
        qs.append(Q("rect_i %d %d %d %d %d %d %d %d" % (v[0], v[1], v[2], v[3], v[4], v[5], v[6], v[7]), tag='prng overflowing'))
    def edge():
        # a boundary origin and a size that makes the far edge land on / next to 2^32-1 or 2^32
        x = rng.choice(BOUND)
        w = rng.choice([0, 1, 2, 8, U32 - 1 - x, U32 - 2 - x, U32 - 1 - x, rnd_u32(rng, U32 - 1 - x)])
        return x, max(0, min(U32 - 1, w))
    for k in range(nbnd):
        v = [0] * 8
        for j in (0, 1, 4, 5):
            v[j], v[j + 2] = edge()
        if rng.below(3) == 0:
            # one edge exactly one past the representable range, or any boundary size
            j = rng.choice([0, 1, 4, 5])
            v[j + 2] = min(U32 - 1, U32 - v[j]) if rng.below(2) else rng.choice(BOUND)
        qs.append(Q("rect_i %d %d %d %d %d %d %d %d" % tuple(v), tag='boundary values'))
    # sizes and origins with many factors of two (and their neighbours): products / sums that wrap exactly
    P2 = [0, 1, 2, 3]
    for e in (8, 12, 15, 16, 17, 20, 24, 30, 31):
        P2 += [(1 << e) - 1, 1 << e, (1 << e) + 1, 3 << (e - 1)]
    P2 = sorted(set(v for v in P2 if v < U32))
    for k in range(1500 if tier == 'quick' else 20000):
        def pw():
            x = rng.choice(P2)
            cand = [w for w in P2 if x + w < U32]
            return x, rng.choice(cand)
        ax, aw = pw(); ay, ah = pw(); bx, bw = pw(); by, bh = pw()
        if rng.below(2):
            bx, by = ax + rng.choice([0, 1, 5]) if ax + 5 + bw < U32 else bx, ay + rng.choice([0, 1, 7]) if ay + 7 + bh < U32 else by
        qs.append(Q("rect_i %d %d %d %d %d %d %d %d" % (ax, ay, aw, ah, bx, by, bw, bh), tag='powers of two'))
    for k in range(300 if tier == 'quick' else 3000):
        x = rng.choice(P2); y = rng.choice(P2)
        qs.append(Q("rect_s %d %d %d %d %d %d" % (x, y, rng.choice(P2), rng.choice(P2), rng.choice([0, x, x // 2]), rng.choice([0, y, y // 3])), tag='sub_offset powers of two'))
    for k in range(nsub):
        m = rng.below(4)
        if m == 0:
            v = [rng.choice(BOUND) for _ in range(6)]
        else:
            x, y = rnd_u32(rng), rnd_u32(rng)
            dx = rnd_u32(rng, x) if m < 3 or rng.below(2) else min(U32 - 1, x + 1 + rnd_u32(rng, U32 - 2 - x if x < U32 - 1 else 0))
            dy = rnd_u32(rng, y) if m < 3 or rng.below(2) else min(U32 - 1, y + 1 + rnd_u32(rng, U32 - 2 - y if y < U32 - 1 else 0))
            if rng.below(3) == 0:
                dx = x
            if rng.below(3) == 0:
                dy = y
            v = [x, y, rnd_u32(rng), rnd_u32(rng), dx, dy]
        qs.append(Q("rect_s %d %d %d %d %d %d" % tuple(v), tag='sub_offset'))
    return qs

def gen_sizing(tier, rng):
    qs = [Q("alias %s" % p.name, tag='alias') for p in PANELS]
    W = 256 if tier == 'quick' else 2048
    step = 32 if tier == 'quick' else 64
    for lo in range(0, W + 1, step):
        hi = min(W, lo + step - 1)
        qs.append(Q("buflen_sweep %d %d %d" % (lo, hi, W), (hi - lo + 1) * (W + 1) * 0.6e-6, 'buflen sweep'))
    for k in range(500 if tier == 'quick' else 20000):
        if rng.below(3) == 0:
            w, h = rng.choice(BOUND), rng.choice(BOUND)
        else:
            w, h = rnd_u32(rng), rnd_u32(rng)
        qs.append(Q("buflen %d %d" % (w, h), tag='buflen u32 prng/boundary'))
    V = 64 if tier == 'quick' else 512
    for ct in ('color', 'tri', 'oct'):
        for lo in range(0, V + 1, 16):
            hi = min(V, lo + 15)
            qs.append(Q("var_sweep %s %d %d %d" % (ct, lo, hi, V), (hi - lo + 1) * (V + 1) * 4 * 2e-6, 'var_new sweep'))
    for k in range(600 if tier == 'quick' else 6000):
        ct = rng.choice(['color', 'tri', 'oct'])
        w, h = rnd_u32(rng, 4000), rnd_u32(rng, 4000)
        req = doc_req(ct, w, h)
        m = rng.below(8)
        l = [req, req - 1, req + 1, 0, req // 2, 2 * req, req - rnd_u32(rng, req), req + rnd_u32(rng, 64)][m]
        l = max(0, l)
        qs.append(Q("var_new %s %d %d %d %d" % (ct, w, h, l, rng.below(2)), 2e-5 + l * 1e-10, 'var_new prng'))
    # degenerate and huge geometries with small slices
    for ct in ('color', 'tri', 'oct'):
        for (w, h) in [(0, 0), (0, 5), (5, 0), (1, 1), (U32 - 1, 0), (0, U32 - 1), (U32 - 1, 1), (1, U32 - 1),
                       (U32 - 1, U32 - 1), (65536, 65536), (7, U32 - 1), (8, 1 << 31), (9, 1 << 31)]:
            for l in (0, 1, 2, 64):
                qs.append(Q("var_new %s %d %d %d" % (ct, w, h, l), tag='var_new degenerate/huge'))
    return qs

def alias_sweeps(p, tier):
    """setpix_sweep queries of one Display alias"""
    t = Target("alias:" + p.name)
    qs = []
    if tier == 'quick':
        pats, npat = 'z,f', 2
        for rot in ROTS:
            sw, sh = t.size(rot)
            npx = sw + 23
            per_row = len(t.colors) * npx * max(npat * (t.len / 24e9 + 0.1e-6), 3.5e-6)
            # out-of-range rows -1, H, extremes; in-range rows 0, H-1 and as many interior rows as ~0.07 s per rotation allow (at least 2)
            k = max(2, min(sh - 2, int(0.07 / per_row) - 8))
            step = max(1, (sh - 2) // k)
            ys = "-2:-1:1,0,1:H-2:%d,H-1,H:H+1:1,%s" % (step, EXT_YS)
            nrows = len(t.ys(ys, rot))
            qs.append(Q("setpix_sweep %s %s %s %s" % (t.spec, rot, ys, pats), sweep_cost(t, nrows, npx, npat), 'alias sweep'))
        # one drawn start image per alias
        qs.append(Q("setpix_sweep %s all -1,0,7,H-1,H dwhite" % t.spec,
                    t.w * t.h * 3.5e-6 + sweep_cost(t, 20, max(t.w, t.h) + 23, 1), 'alias drawn start'))
    else:
        pats, npat = 'z,f,r', 3
        for rot in ROTS:
            sw, sh = t.size(rot)
            npx = sw + 23
            per_row = len(t.colors) * npx * max(npat * (t.len / 24e9 + 0.1e-6), 3.5e-6)
            chunk = max(1, int(4.0 / per_row))
            qs.append(Q("setpix_sweep %s %s -3:-1:1,H:H+3:1,%s %s" % (t.spec, rot, EXT_YS, pats), 11 * per_row, 'alias sweep'))
            for lo in range(0, sh, chunk):
                hi = min(sh - 1, lo + chunk - 1)
                qs.append(Q("setpix_sweep %s %s %d:%d:1 %s" % (t.spec, rot, lo, hi, pats), (hi - lo + 1) * per_row, 'alias sweep'))
        for c in t.colors:
            qs.append(Q("setpix_sweep %s all -1,0,1,7,H-2,H-1,H d%s" % (t.spec, c),
                        t.w * t.h * 3.5e-6 + sweep_cost(t, 28, max(t.w, t.h) + 23, 1), 'alias drawn start'))
    return qs

def gen_graphics(tier, rng):
    qs = []
    for p in PANELS:
        qs += alias_sweeps(p, tier)
    dims = [1, 2, 3, 4, 5, 7, 8, 9, 16, 17] if tier == 'quick' else list(range(1, 41))
    for w in dims:
        for h in dims:
            for ct in ('color', 'tri', 'oct'):
                for bwr in (0, 1):
                    if bwr and ct != 'tri' and not (tier == 'quick' and w == h):
                        continue
                    t = Target("var:%s:%d:%d:%d" % (ct, w, h, bwr))
                    ys = "-3:-1:1,0:H-1:1,H:H+3:1,%s" % EXT_YS
                    cost = sum(sweep_cost(t, len(t.ys(ys, r)), t.size(r)[0] + 23, 3) for r in ROTS)
                    qs.append(Q("setpix_sweep %s all %s z,f,r" % (t.spec, ys), cost, 'var sweep'))
    # degenerate and very wide / very tall run-time geometries ("any width and height"): zero width, zero height,
    # single row / column, row strides beyond 2^10 and 2^13 bytes
    for (w, h) in [(0, 0), (0, 1), (0, 5), (1, 0), (5, 0), (0, 9), (9, 0), (1, 1), (1, 9), (9, 1), (8193, 2), (2, 8193), (65537, 1)]:
        for ct in ('color', 'tri', 'oct'):
            t = Target("var:%s:%d:%d:%d" % (ct, w, h, 1 if ct == 'tri' and (w + h) % 2 else 0))
            ys = "-3:-1:1,0:H-1:%d,H:H+3:1,%s" % (1 if h < 64 else 1024, EXT_YS)
            cost = sum(sweep_cost(t, len(t.ys(ys, r)), t.size(r)[0] + 23, 3) for r in ROTS)
            qs.append(Q("setpix_sweep %s all %s z,f,r" % (t.spec, ys), cost, 'var sweep (degenerate / huge)'))
    # backing storage longer than the part buffer() exposes (VarDisplay::new accepts it): plane offsets must come from
    # the exposed length and the caller's tail bytes must never change
    for (w, h) in [(1, 1), (8, 8), (13, 5), (24, 3)]:
        for ct in ('color', 'tri', 'oct'):
            for slack in (1, 2, 12, 64):
                for bwr in ((0, 1) if ct == 'tri' else (0,)):
                    t = Target("var:%s:%d:%d:%d:%d" % (ct, w, h, bwr, slack))
                    ys = "-1,0:H-1:1,H"
                    cost = sum(sweep_cost(t, len(t.ys(ys, r)), t.size(r)[0] + 23, 3) for r in ROTS)
                    qs.append(Q("setpix_sweep %s all %s z,f,r" % (t.spec, ys), cost, 'var sweep (oversized backing slice)'))
    # explicit PRNG probes (all targets, all i32 magnitudes)
    nrand = 3000 if tier == 'quick' else 40000
    for k in range(nrand):
        if rng.below(2):
            p = rng.choice(PANELS)
            t = Target("alias:" + p.name)
        else:
            ct = rng.choice(['color', 'tri', 'oct'])
            t = Target("var:%s:%d:%d:%d" % (ct, 1 + rng.below(64), 1 + rng.below(64), rng.below(2)))
        rot = rng.choice(ROTS)
        sw, sh = t.size(rot)
        def coord(lim):
            m = rng.below(6)
            if m < 3:
                return rng.below(lim)
            if m == 3:
                return rng.choice([-1, lim, lim - 1, 0, -lim, lim + 1])
            v = rnd_u32(rng, IMAX)
            return -v - 1 if rng.below(2) else v
        qs.append(Q("setpix %s %s %s %d %d" % (t.spec, rot, rng.choice(t.colors), coord(sw), coord(sh)),
                    3 * t.len / 5e9 + 2e-5, 'setpix prng'))
    return qs

def gen_color(tier, rng):
    qs = [Q("color_table", 0.01, 'tables'), Q("rgb565_sweep", 0.1, 'rgb565 all'), Q("rgb555_sweep", 0.05, 'rgb555 all')]
    step = 5 if tier == 'quick' else 1
    per = {'oct': 13e-6, 'color': 0.3e-6, 'tri': 0.3e-6}
    chunk = 4 * step
    for f in ('oct', 'color', 'tri'):
        for lo in range(0, 256, chunk):
            hi = min(255, lo + chunk - 1)
            n = len(range(lo, hi + 1, step)) * len(range(0, 256, step)) ** 2
            qs.append(Q("rgb888_sweep %s %d %d %d" % (f, lo, hi, step), n * per[f], 'rgb888 sweep step %d' % step))
    def clamp(v):
        return max(0, min(255, v))
    pts = set()
    pal = OCT_RGB
    for (r, g, b) in pal:
        for dr in (-1, 0, 1):
            for dg in (-1, 0, 1):
                for db in (-1, 0, 1):
                    pts.add((clamp(r + dr), clamp(g + dg), clamp(b + db)))
    npal = len(pts)
    # midpoints between palette colours (nearest-colour ties) and their neighbours
    for i in range(len(pal)):
        for j in range(i + 1, len(pal)):
            m = [(pal[i][k] + pal[j][k]) // 2 for k in range(3)]
            for dr in (-1, 0, 1):
                for dg in (-1, 0, 1):
                    for db in (-1, 0, 1):
                        pts.add((clamp(m[0] + dr), clamp(m[1] + dg), clamp(m[2] + db)))
    # the neighbourhood of every bisector plane between two palette colours: for PRNG (a, b) in two channels, the value
    # of the third channel where the two squared distances are closest, and its neighbours (distance differences of 1,
    # 2, ... decide the nearest colour there)
    def d2(p, q):
        return sum((p[k] - q[k]) ** 2 for k in range(3))
    for i in range(len(pal)):
        for j in range(i + 1, len(pal)):
            for ch in range(3):
                for _ in range(14 if tier == 'quick' else 120):
                    a, b2 = rng.below(256), rng.below(256)
                    def pt(v):
                        c = [a, b2]; c.insert(ch, v); return tuple(c)
                    best = min(range(256), key=lambda v: abs(d2(pt(v), pal[i]) - d2(pt(v), pal[j])))
                    for dv in (-2, -1, 0, 1, 2):
                        pts.add(pt(clamp(best + dv)))
    # the black/white threshold of Color
    for k in range(400):
        s = 380 + rng.below(6)
        r = rng.below(256); g = rng.below(256); b = s - r - g
        if 0 <= b <= 255:
            pts.add((r, g, b))
    for k in range(1000 if tier == 'quick' else 20000):
        pts.add((rng.below(256), rng.below(256), rng.below(256)))
    for (r, g, b) in sorted(pts):
        for f in ('oct', 'color', 'tri'):
            qs.append(Q("rgb888 %s %d %d %d" % (f, r, g, b), 1.5e-5, 'rgb888 palette/midpoint/threshold/prng'))
    for k in range(300):
        qs.append(Q("rgb565 %d %d %d" % (rng.below(32), rng.below(64), rng.below(32)), tag='rgb565 prng'))
        qs.append(Q("rgb555 %d %d %d" % (rng.below(32), rng.below(32), rng.below(32)), tag='rgb555 prng'))
    return qs

GENS = {'rect': gen_rect, 'sizing': gen_sizing, 'graphics': gen_graphics, 'color': gen_color}
GROUPS = ['rect', 'graphics', 'sizing', 'color']

# ------------------------------------------------------------------ running
def run_side(exe, path, model):
    if model:
        cmd = "ulimit -s unlimited 2>/dev/null; exec %s pure %s" % (exe, path)
        r = subprocess.run(cmd, shell=True, stdout=subprocess.PIPE, stderr=subprocess.PIPE, text=True, env=corr.ENV)
    else:
        r = subprocess.run([exe, 'pure', path], stdout=subprocess.PIPE, stderr=subprocess.PIPE, text=True, env=corr.ENV)
    err = r.stderr.strip()
    if r.returncode != 0:
        err = "exit code %d %s" % (r.returncode, err)
    return r.stdout, err

def parse_blocks(text):
    """-> list of (query, [answer lines])"""
    blocks = []
    for line in text.split('\n'):
        if line.startswith('? '):
            blocks.append((line[2:], []))
        elif line and blocks:
            blocks[-1][1].append(line)
    return blocks

def shard(qs, nshards):
    """longest-processing-time-first packing"""
    nshards = max(1, min(nshards, len(qs)))
    bins = [[0.0, []] for _ in range(nshards)]
    for q in sorted(qs, key=lambda q: -q.cost):
        b = min(bins, key=lambda b: b[0])
        b[0] += q.cost
        b[1].append(q)
    return [b for b in bins if b[1]]

def run_queries(qs, hexe, mexe, tag, errors, times=None):
    """Runs all queries on both sides (sharded, up to JOBS processes at a time).
    -> {query text: (real lines, model lines)}"""
    os.makedirs(WORK, exist_ok=True)
    total = sum(q.cost for q in qs)
    nshards = 1 if total < 0.3 else min(64, max(JOBS, int(total / 2.0)))
    bins = shard(qs, nshards)
    tasks = []
    for k, (cost, part) in enumerate(bins):
        path = os.path.join(WORK, "pure-%s-%d.q" % (tag, k))
        with open(path, 'w') as f:
            f.write('\n'.join(q.text for q in part) + '\n')
        tasks.append((cost, k, path, False))
        tasks.append((cost, k, path, True))
    tasks.sort(key=lambda t: -t[0])
    outs = {}
    def work(t):
        cost, k, path, model = t
        t0 = time.time()
        out, err = run_side(mexe if model else hexe, path, model)
        return k, path, model, out, err, time.time() - t0
    with ThreadPoolExecutor(max_workers=JOBS) as ex:
        for (k, path, model, out, err, dt) in ex.map(work, tasks):
            outs[(k, model)] = out
            if times is not None:
                times['model' if model else 'real'] += dt
            if err:
                errors.append("%s stderr on %s: %s" % ('model' if model else 'harness', path, err[-400:]))
    res = {}
    for k, (cost, part) in enumerate(bins):
        rb = parse_blocks(outs[(k, False)])
        mb = parse_blocks(outs[(k, True)])
        rd = {}
        for q, lines in rb:
            rd.setdefault(q, lines)
        md = {}
        for q, lines in mb:
            md.setdefault(q, lines)
        for q in part:
            key = ' '.join(q.text.split())
            res[q.text] = (rd.get(key, ['<no answer>']), md.get(key, ['<no answer>']))
    return res

# ------------------------------------------------------------------ sweep lines
KEYLEN = {'I': 5, 'S': 5, 'B': 2, 'V': 3, 'L': 4, 'C': 3, 'T': None}
NPOS = {'I': 7, 'S': 7, 'B': 4, 'V': 5, 'L': 6, 'C': 5}

def line_key(line):
    t = line.split(' ')
    if t[0] == 'T':
        return line.split(' = ')[0]
    if t[0] in KEYLEN:
        return ' '.join(t[:KEYLEN[t[0]]])
    return line

def expand(query, key):
    """individual queries behind one sweep line"""
    q = query.split()
    k = key.split()
    if q[0] == 'rect_sweep':
        R = int(q[1]); off = int(q[4]) if len(q) > 4 else 0
        rg = range(R + 1)
        if k[0] == 'I':
            return ["rect_i %s %s %s %s %d %d %d %d" % (k[1], k[2], k[3], k[4], off + bx, off + by, bw, bh)
                    for bx in rg for by in rg for bw in rg for bh in rg]
        return ["rect_s %s %s %s %s %d %d" % (k[1], k[2], k[3], k[4], off + dx, off + dy) for dx in rg for dy in rg]
    if q[0] == 'buflen_sweep':
        return ["buflen %s %d" % (k[1], h) for h in range(int(q[3]) + 1)]
    if q[0] == 'var_sweep':
        out = []
        for h in range(int(q[4]) + 1):
            req = doc_req(k[1], int(k[2]), h)
            for l in ([req - 1] if req > 0 else []) + [req, req + 1, 0]:
                out.append("var_new %s %s %d %d" % (k[1], k[2], h, l))
        return out
    if q[0] == 'setpix_sweep':
        t = Target(q[1])
        return ["setpix %s %s %s %d %s %s" % (q[1], k[1], k[2], px, k[3], q[4]) for px in t.pxs(k[1])]
    if q[0] == 'rgb888_sweep':
        st = int(q[4])
        return ["rgb888 %s %s %d %d" % (k[1], k[2], g, b) for g in range(0, 256, st) for b in range(0, 256, st)]
    if q[0] in ('rgb565_sweep', 'rgb555_sweep'):
        gm = 64 if q[0] == 'rgb565_sweep' else 32
        return ["%s %s %d %d" % (k[1], k[2], g, b) for g in range(gm) for b in range(32)]
    return []

def pretty(query):
    q = query.split()
    if q[0] == 'setpix':
        return "setpix %s rot=%s color=%s p=(%s,%s)%s" % (q[1], q[2], q[3], q[4], q[5], ' start=' + q[6] if len(q) > 6 else '')
    if q[0] == 'rect_i':
        return "rect_i a=(%s,%s,%s,%s) b=(%s,%s,%s,%s)" % tuple(q[1:9])
    if q[0] == 'rect_s':
        return "rect_s a=(%s,%s,%s,%s) d=(%s,%s)" % tuple(q[1:7])
    return query

# ------------------------------------------------------------------ the check
MAX_DRILL_LINES = 8      # differing sweep lines expanded per run
MAX_PER_LINE = 5         # individual mismatches kept per expanded line

def run(group, tier='quick', seed=1, release=False, verbose=False, builds=None, oracle=None):
    t0 = time.time()
    if builds is None:
        builds = build(release if group != 'rect' else False)
    hexe, mexe = builds
    rng = gen.Rng(seed * 1000003 + corr.hash_name('pure-' + group + tier))
    qs = GENS[group](tier, rng)
    errors = []
    times = {'real': 0.0, 'model': 0.0}
    res = run_queries(qs, hexe, mexe, "%s-%s" % (group, tier), errors, times)
    mism = []
    dist = {}
    evals = 0
    def bump(k, n=1):
        dist[k] = dist.get(k, 0) + n
    drill = []
    drilled = []
    bad_lines = []
    nlines_bad = 0
    for q in qs:
        real, model = res[q.text]
        head = q.text.split()[0]
        bump('queries: ' + q.tag)
        # ---- statistics from the REAL answers
        for line in real:
            t = line.split(' ')
            if t[0] == '=':
                evals += 1
                if head == 'setpix':
                    evals += len(t[1].split('|')) - 1
                    a = t[1]
                    bump('setpix prng: ' + ('panic' if 'PANIC' in a else 'ignored (no byte changes)' if set(a) <= set('-|') else 'writes'))
                elif head in ('rect_i', 'rect_s'):
                    bump('%s %s: %s' % (head, q.tag, 'PANIC' if t[1] == 'PANIC' else
                                        ('empty' if head == 'rect_i' and t[5] == '1' else 'ok')))
                elif head == 'var_new':
                    bump('var_new explicit: ' + t[1])
                elif head in ('rgb888', 'rgb565', 'rgb555'):
                    bump('%s -> %s' % (' '.join(q.text.split()[:2]) if head == 'rgb888' else head, t[1]))
            elif t[0] in NPOS:
                n = int(t[NPOS[t[0]]])
                if t[0] == 'L':
                    npat = len(q.text.split()[4].split(','))
                    evals += n * npat
                    kind = q.tag
                    bump('%s: probes' % kind, n)
                    bump('%s: probes changing bytes' % kind, int(t[7]))
                    bump('%s: probes panicking' % kind, int(t[8]))
                else:
                    evals += n
                    if t[0] == 'I':
                        bump('rect_i %s: evaluations' % q.tag, n)
                        bump('rect_i %s: PANIC' % q.tag, int(t[8]))
                        bump('rect_i %s: empty' % q.tag, int(t[9]))
                    elif t[0] == 'S':
                        bump('rect_s %s: evaluations' % q.tag, n)
                        bump('rect_s %s: PANIC' % q.tag, int(t[8]))
                    elif t[0] == 'V':
                        bump('var_new sweep: evaluations', n)
                        bump('var_new sweep: OK', int(t[6]))
                    elif t[0] == 'B':
                        bump('buflen sweep: evaluations', n)
                    elif t[0] == 'C':
                        bump('%s: evaluations' % q.tag, n)
            elif t[0] == 'T':
                evals += 1
                bump('table entries')
                if line.endswith('= PANIC'):
                    bump('table entries: PANIC')
                if line.endswith('= ERR'):
                    bump('table entries: ERR')
        if head == 'alias' and real and real[0].startswith('= '):
            a = real[0].split()
            pn = BY_NAME[q.text.split()[1]]
            if [a[1], a[2], a[5]] != [str(pn.W), str(pn.H), ALIAS_CT[pn.name]]:
                errors.append("tools/pure.py's table for %s (%d x %d, %s) disagrees with the crate: %s" % (
                    pn.name, pn.W, pn.H, ALIAS_CT[pn.name], real[0]))
        # ---- comparison
        if real == model:
            continue
        if len(real) == 1 and real[0].startswith('=') or len(model) == 1 and model[0].startswith('=') or real == ['<no answer>'] or model == ['<no answer>']:
            mism.append(dict(query=q.text, where=pretty(q.text), real=' / '.join(real)[:300], model=' / '.join(model)[:300]))
            continue
        rk = [line_key(l) for l in real]
        mk = [line_key(l) for l in model]
        if rk != mk:
            d = corr.first_diff(rk, mk)
            mism.append(dict(query=q.text, where=q.text + " (answer lines differ in structure at line %d)" % d[0],
                             real=str(d[1])[:300], model=str(d[2])[:300]))
            continue
        for lr, lm, key in zip(real, model, rk):
            if lr != lm:
                nlines_bad += 1
                if lr.startswith('T '):
                    mism.append(dict(query=q.text, where=key[2:], real=lr.split(' = ')[1], model=lm.split(' = ')[1]))
                else:
                    bad_lines.append((q.text, key, lr, lm))
    # ---- drill down into differing sweep lines: at most 2 lines per query, MAX_DRILL_LINES in all
    per_query = {}
    rest = []
    # spread the expanded lines over the differing ones (first, last and evenly in between)
    if len(bad_lines) > MAX_DRILL_LINES:
        step = (len(bad_lines) - 1) / float(MAX_DRILL_LINES - 1)
        pick = sorted({int(round(i * step)) for i in range(MAX_DRILL_LINES)})
    else:
        pick = list(range(len(bad_lines)))
    for i, bl in enumerate(bad_lines):
        if i in pick:
            drill.append(bl)
        else:
            rest.append(bl)
    for (query, key, lr, lm) in drill:
        sub = [Q(s, 1e-4) for s in expand(query, key)]
        found = 0
        if sub:
            r2 = run_queries(sub, hexe, mexe, "%s-%s-drill" % (group, tier), errors)
            diffs = []
            for s in sub:
                a, b = r2[s.text]
                if a != b:
                    diffs.append((s, a, b))
            if oracle is not None:
                # inputs on which the REAL answer contradicts the property itself come first
                diffs.sort(key=lambda d: 0 if oracle(d[0].text, ' / '.join(d[1])) else 1)
            for (s, a, b) in diffs:
                    found += 1
                    if found <= MAX_PER_LINE:
                        drilled.append(dict(query=s.text, where=pretty(s.text) + "   [from `%s` line `%s`]" % (query if len(query) < 70 else query[:67] + '...', key),
                                         real=' / '.join(a)[:300], model=' / '.join(b)[:300]))
            if found > MAX_PER_LINE:
                drilled.append(dict(query=query, where="... and %d more differing inputs on line `%s`" % (found - MAX_PER_LINE, key),
                                 real='', model=''))
        if not found:
            drilled.append(dict(query=query, where="%s line `%s` differs but no individual query does" % (query, key), real=lr, model=lm))
    # concrete inputs first: drilled-down sweep lines, then explicit queries, then the rest
    mism = drilled + mism
    for (query, key, lr, lm) in rest[:10]:
        mism.append(dict(query=query, where="%s line `%s` (not expanded)" % (query, key), real=lr, model=lm))
    not_shown = max(0, len(rest) - 10)
    out = dict(group=group, tier=tier, seed=seed, queries=len(qs), evaluations=evals, n_mismatches=len(mism) + not_shown,
               differing_sweep_lines=nlines_bad, mismatches=mism, distribution=dist, seconds=time.time() - t0,
               cpu_seconds=times, errors=errors)
    return out

class BuildError(Exception):
    pass

def build(release=False):
    """(harness exe, model exe); raises BuildError"""
    hexe, err = corr.build_harness('v3', release=release)
    if not hexe:
        raise BuildError("HARNESS BUILD FAILED\n" + err)
    mexe, log = corr.build_model()
    if not mexe:
        raise BuildError("MODEL BUILD FAILED\n" + log)
    return hexe, mexe

def report(r, verbose=False):
    print("pure/%s tier=%s seed=%d: %d queries, %d evaluations, %d mismatches (%d differing sweep lines), %.1fs "
          "(process time: real %.1fs, model %.1fs)" % (
              r['group'], r['tier'], r['seed'], r['queries'], r['evaluations'], r['n_mismatches'],
              r['differing_sweep_lines'], r['seconds'], r['cpu_seconds']['real'], r['cpu_seconds']['model']))
    for k in sorted(r['distribution']):
        print("   %-58s %d" % (k, r['distribution'][k]))
    for e in r['errors'][:10]:
        print("   ERROR " + e)
    for m in r['mismatches'][: (1000 if verbose else 30)]:
        print("MISMATCH " + m['where'])
        if m['real'] or m['model']:
            print("     real : %s\n     model: %s" % (m['real'], m['model']))

def main():
    args = sys.argv[1:]
    tier, seed, release, verbose, groups = 'quick', int(os.environ.get('VERIF_SEED', '1')), False, False, []
    while args:
        a = args.pop(0)
        if a == '--tier':
            tier = args.pop(0)
        elif a == '--seed':
            seed = int(args.pop(0))
        elif a == '--release':
            release = True
        elif a == '-v':
            verbose = True
        elif a == 'all':
            groups += GROUPS
        elif a in GENS:
            groups.append(a)
        else:
            print(__doc__)
            sys.exit(2)
    if not groups or tier not in ('quick', 'thorough'):
        print(__doc__)
        sys.exit(2)
    try:
        dbg = build(False)
        rel = build(True) if release else dbg
    except BuildError as e:
        print(e)
        sys.exit(2)
    bad = nerr = 0
    for g in groups:
        r = run(g, tier, seed, verbose=verbose, builds=dbg if g == 'rect' else rel)
        report(r, verbose)
        bad += r['n_mismatches']
        nerr += len(r['errors'])
    # 1 iff model and code disagree; 3 = they agree but the run itself reported errors
    sys.exit(1 if bad else 3 if nerr else 0)

if __name__ == '__main__':
    main()

#!/usr/bin/env python3
"""seeded/*/meta.json -> seeded/README.md (which check catches which seeded change)"""
import os, json, glob
ROOT = os.path.dirname(os.path.dirname(os.path.abspath(__file__)))
rows = []
for f in sorted(glob.glob(os.path.join(ROOT, 'seeded', '*', 'meta.json'))):
    m = json.load(open(f))
    res = m.get('checks_on_changed_tree', {})
    tgt = res.get(m['property'], {})
    others = [p for p in m.get('caught_by', []) if p != m['property']]
    first = (tgt.get('detail') or [''])[0].strip()[:150]
    conf = m.get('confirmed', {})
    bs = m.get('before_strengthening')
    if bs is not None and not bs.get('caught_by_target_check'):
        first = '(MISSED by the target check before the strengthening described in DESIGN.md 13.6; other checks then: %s) ' % (', '.join(bs.get('caught_by') or []) or '-') + first
    rows.append("| %s | %s | %s | %s | %s | %s |" % (
        m['id'], m['property'], 'yes' if all(conf.values()) and conf else str(conf),
        ('VIOLATION, %d with a concrete failing input' % tgt.get('with_failing_input', 0)) if tgt.get('exit') else 'MISSED',
        ', '.join(others) or '-', first.replace('|', '/')))
out = ["# Seeded changes", "",
       "Each change was written by a sub-agent that saw only the property text and a scratch worktree; it compiles, passes the",
       "54 pinned tests, and comes with a demonstration that fails with it and passes without it (confirmed by `tools/seedtest.py`",
       "in the scratch worktree). `tools/seedtest.py <Cxx>` applies the patch to /repo, runs the registered quick checks and reverts.", "",
       "| id | property | confirmed | target check | other checks that alarm | first line reported by the target check |",
       "|---|---|---|---|---|---|"] + rows + [""]
open(os.path.join(ROOT, 'seeded', 'README.md'), 'w').write('\n'.join(out))
print('\n'.join(out))

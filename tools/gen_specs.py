#!/usr/bin/env python3
"""One-off helper that writes coq/Spec/Specs.v: the per-panel SPECIFICATION records (controller
parameters, documented full-frame entry points, operation alphabet for the history theorems).
The output is committed and reviewed by hand; it is a specification (trusted), not derived from
the code at run time."""
import os, sys
sys.path.insert(0, os.path.dirname(os.path.abspath(__file__)))
from panels import PANELS, BY_NAME
import gen

SSD_BASE = [0x01,0x03,0x04,0x0C,0x0F,0x10,0x11,0x12,0x18,0x1A,0x1B,0x20,0x21,0x22,0x24,0x26,0x2C,0x32,0x37,0x3A,0x3B,0x3C,0x3F,0x44,0x45,0x46,0x47,0x4E,0x4F,0x7F,0xFF]
UC_BASE = [0x00,0x01,0x02,0x03,0x04,0x06,0x07,0x10,0x11,0x12,0x13,0x20,0x21,0x22,0x23,0x24,0x25,0x30,0x40,0x41,0x50,0x60,0x61,0x65,0x71,0x82,0x90,0x91,0x92,0xE0,0xE3,0xE5]
# commands of the vendor's reference sequence for a panel beyond the family table (from its command.rs)
EXTRA = {
 'epd1in02': [0x2a,0x51,0x70,0x72,0x80,0x81,0xa0,0xa1,0xa2,0xa5],
 'epd1in54b': [0x26,0x27], 'epd2in13_v2': [0x00,0x14,0x15,0x1c,0x27,0x28,0x29,0x2a,0x2d,0x2f,0x30,0x31,0x36,0x41,0x74,0x7e],
 'epd2in13b_v4': [0x00,0x2f],
 'epd2in66b': [0x00,0x02,0x08,0x09,0x0a,0x14,0x15,0x1c,0x27,0x28,0x29,0x2a,0x2b,0x2d,0x2e,0x2f,0x30,0x31,0x34,0x35,0x36,0x38,0x39,0x41,0x74,0x7e,0x80],
 'epd2in7': [0x05,0x14,0x15,0x16,0x42,0x43,0x51,0x62,0x80,0x81,0xa0,0xa1,0xa2,0xa5,0xf8],
 'epd2in7b': [0x05,0x14,0x15,0x16,0x42,0x43,0x51,0x62,0x80,0x81,0xa0,0xa1,0xa2,0xa5,0xf8],
 'epd2in9d': [0x05,0x42,0x43,0x51,0x70,0x80,0x81,0xa0,0xa1,0xa2,0xa5],
 'epd3in7': [0x02,0x07,0x50],
 'epd4in2': [0x05,0x42,0x43,0x51,0x70,0x80,0x81,0xa0,0xa1,0xa2,0xa5],
 'epd5in65f': [0x26,0x27,0x28,0x29,0x42,0x43,0x51,0x70,0x80,0x81,0xa5],
 'epd5in83_v2': [0x15,0x42,0x43,0x51,0x70,0x80,0x81,0xa5], 'epd5in83b_v2': [0x15,0x42,0x43,0x51,0x70,0x80,0x81,0xa5],
 'epd7in3f': [0x05,0x08,0x84,0x86,0xaa,0xe6],
 'epd7in5': [0x26,0x27,0x28,0x29,0x42,0x43,0x51,0x70,0x80,0x81,0xa5],
 'epd7in5_hd': [0x14,0x15,0x1c,0x27,0x28,0x29,0x2a,0x2b,0x2d,0x34,0x35,0x36,0x38,0x41],
 'epd7in5_v2': [0x15,0x26,0x27,0x28,0x29,0x42,0x43,0x51,0x70,0x80,0x81,0xa5],
 'epd7in5b_v2': [0x15,0x26,0x27,0x28,0x29,0x2a,0x2b,0x42,0x43,0x51,0x70,0x80,0x81,0xa2,0xa5],
}
# SSD chips: POR RAM window end (byte column, row) - unverified recollection, only used before the
# driver programs the window itself
RAMMAX = {'epd1in54': (29, 319), 'epd2in9': (29, 319), 'epd1in54_v2': (24, 199), 'epd2in9_v2': (21, 295),
          'epd2in13_v2': (19, 295), 'epd2in13b_v4': (21, 295), 'epd2in66b': (21, 295), 'epd2in7_v2': (21, 295),
          'epd2in9b_v4': (21, 295), 'epd3in7': (59, 479), 'epd7in5_hd': (119, 679)}
RES_LEN = {'epd1in02': 2, 'epd1in54b': 3, 'epd1in54c': 3, 'epd2in13bc': 3, 'epd2in9bc': 3, 'epd2in9d': 3}
PTL_LEN = {'epd1in02': 5, 'epd2in9d': 7}

def rb(p):
    return (p.W + 7) // 8

# full-frame entry points: name -> (op ctor text with lengths, [(arg, cmd, enc, off, len)], refreshes)
def entries(p):
    F = p.frame
    R = rb(p)
    n = p.name
    E = []
    def upd(cmd, enc='BId', flen=F):
        E.append(('update_frame', 'OUpdateFrame %d' % flen, [(0, cmd, enc, 0, flen)], 0))
        E.append(('update_and_display_frame', 'OUpdateAndDisplay %d' % flen, [(0, cmd, enc, 0, flen)], 1))
    def triple(c1, c2, e1='BId', e2='BId'):
        E.append(('update_color_frame', 'OUpdateColor %d %d' % (F, F), [(0, c1, e1, 0, F), (1, c2, e2, 0, F)], 0))
        E.append(('update_achromatic_frame', 'OUpdateAchromatic %d' % F, [(0, c1, e1, 0, F)], 0))
        E.append(('update_chromatic_frame', 'OUpdateChromatic %d' % F, [(0, c2, e2, 0, F)], 0))
    if n in ('epd1in54', 'epd1in54_v2', 'epd2in9', 'epd2in7_v2', 'epd3in7', 'epd7in5_hd'):
        upd(0x24)
    elif n == 'epd2in9_v2':
        upd(0x24)
        E.append(('update_old_frame', 'OUpdateOld %d' % F, [(0, 0x26, 'BId', 0, F)], 0))
        E.append(('update_new_frame', 'OUpdateNew %d' % F, [(0, 0x24, 'BId', 0, F)], 0))
        E.append(('update_and_display_new_frame', 'OUpdateAndDisplayNew %d' % F, [(0, 0x24, 'BId', 0, F)], 1))
    elif n == 'epd2in13_v2':
        upd(0x24)
        E.append(('set_partial_base_buffer', 'OSetPartialBase %d' % F, [(0, 0x26, 'BId', 0, F)], 0))
    elif n in ('epd2in13b_v4', 'epd2in66b', 'epd2in9b_v4'):
        upd(0x24)
        triple(0x24, 0x26)
    elif n == 'epd1in02' or n == 'epd4in2':
        upd(0x13)
        E.append(('update_old_frame', 'OUpdateOld %d' % F, [(0, 0x10, 'BId', 0, F)], 0))
        E.append(('update_new_frame', 'OUpdateNew %d' % F, [(0, 0x13, 'BId', 0, F)], 0))
        if n == 'epd4in2':
            E.append(('update_and_display_new_frame', 'OUpdateAndDisplayNew %d' % F, [(0, 0x13, 'BId', 0, F)], 1))
    elif n == 'epd1in54b':
        upd(0x10, 'BExp2')
        triple(0x10, 0x13, 'BExp2', 'BId')
    elif n in ('epd1in54c', 'epd2in13bc', 'epd2in9bc', 'epd5in83b_v2'):
        upd(0x10)
        triple(0x10, 0x13)
    elif n in ('epd2in7', 'epd2in9d', 'epd5in83_v2', 'epd7in5_v2'):
        upd(0x13)
    elif n == 'epd2in7b':
        upd(0x10, 'BNot')
        triple(0x10, 0x13, 'BNot', 'BNot')
    elif n in ('epd5in65f', 'epd7in3f'):
        upd(0x10)
    elif n == 'epd7in5':
        upd(0x10, 'BExp4')
    elif n == 'epd7in5b_v2':
        E.append(('update_frame', 'OUpdateFrame %d' % (2 * F), [(0, 0x10, 'BId', 0, F), (0, 0x13, 'BId', F, F)], 0))
        E.append(('update_and_display_frame', 'OUpdateAndDisplay %d' % (2 * F), [(0, 0x10, 'BId', 0, F), (0, 0x13, 'BId', F, F)], 1))
        triple(0x10, 0x13)
    else:
        raise KeyError(n)
    return E

def planes(p):
    R = rb(p)
    n = p.name
    if p.family == 'ssd':
        return [(0x24, 'P1', R), (0x26, 'P2', R)]
    if n == 'epd1in54b':
        return [(0x10, 'P1', 2 * R), (0x13, 'P2', R)]
    if n == 'epd7in5':
        return [(0x10, 'P1', 4 * R)]
    if n in ('epd5in65f', 'epd7in3f'):
        return [(0x10, 'P1', p.W // 2)]
    pl = [(0x10, 'P1', R), (0x13, 'P2', R)]
    if n in ('epd2in7', 'epd2in7b'):
        pl += [(0x14, 'P1', R), (0x15, 'P2', R)]
    return pl

def colorcode(c):
    return {'black': 0, 'white': 1, 'chromatic': 2, 'green': 2, 'blue': 3, 'red': 4, 'yellow': 5, 'orange': 6, 'hiz': 7}[c]

def buflen(tok):
    return int(tok.split(':')[0])

def op_to_coq(t):
    """script op tokens -> Coq op term"""
    n = t[0]
    simple = {'sleep': 'OSleep', 'wake_up': 'OWakeUp', 'display_frame': 'ODisplay', 'clear_frame': 'OClear',
              'wait_until_idle': 'OWaitIdle', 'display_new_frame': 'ODisplayNew', 'display_frame_partial': 'ODisplayFramePartial',
              'show_7block': 'OShow7Block'}
    if n in simple:
        return simple[n]
    if n == 'set_background_color':
        return 'OSetBg %d' % colorcode(t[1])
    if n == 'set_lut':
        return 'OSetLut ' + {'none': 'None', 'full': '(Some 0)', 'quick': '(Some 1)'}[t[1]]
    one = {'update_frame': 'OUpdateFrame', 'update_and_display_frame': 'OUpdateAndDisplay', 'update_achromatic_frame': 'OUpdateAchromatic',
           'update_chromatic_frame': 'OUpdateChromatic', 'update_old_frame': 'OUpdateOld', 'update_new_frame': 'OUpdateNew',
           'update_and_display_new_frame': 'OUpdateAndDisplayNew', 'set_partial_base_buffer': 'OSetPartialBase'}
    if n in one:
        return '%s %d' % (one[n], buflen(t[1]))
    if n == 'update_color_frame':
        return 'OUpdateColor %d %d' % (buflen(t[1]), buflen(t[2]))
    win = {'update_partial_frame': 'OUpdatePartial', 'update_partial_old_frame': 'OUpdatePartialOld', 'update_partial_new_frame': 'OUpdatePartialNew',
           'update_partial_achromatic_frame': 'OUpdatePartialAchromatic', 'update_partial_chromatic_frame': 'OUpdatePartialChromatic',
           'update_partial_frame2': 'OUpdatePartial2'}
    if n in win:
        return '%s %d %s %s %s %s' % (win[n], buflen(t[1]), t[2], t[3], t[4], t[5])
    win2 = {'clear_partial_frame': 'OClearPartial', 'display_partial_frame': 'ODisplayPartial', 'shift_display': 'OShiftDisplay'}
    if n in win2:
        return '%s %s %s %s %s' % (win2[n], t[1], t[2], t[3], t[4])
    if n == 'set_refresh':
        return 'OSetRefresh %d' % {'full': 0, 'quick': 1}[t[1]]
    if n == 'set_border_color':
        return 'OSetBorder %d' % colorcode(t[1])
    if n == 'update_and_display_frame_base':
        return 'OUpdateAndDisplayBase %d %s' % (buflen(t[1]), 'None' if t[2] == 'none' else '(Some %d)' % buflen(t[2]))
    raise KeyError(n)

def alphabet(p):
    """macro steps (lists of Coq op terms) for the history theorems"""
    return [[op_to_coq(o) for o in m] for m in macros(p)]

NO_PARTIAL = ('epd2in13bc', 'epd2in9bc')   # update_partial_frame is a documented no-op there
# the vendor reference sequence waits for BUSY to go ACTIVE after PowerOff (wait_busy_low of epd5in65f)
POFF_WAIT = ('epd5in65f',)
# methods whose body is unimplemented!()/todo!(): outside the documented protocol, never in the alphabet
UNIMPL = {
 'epd1in02': ['update_partial_frame', 'display_new_frame', 'update_and_display_new_frame'],
 'epd1in54b': ['update_partial_frame'], 'epd1in54c': ['update_partial_frame'],
 'epd2in13b_v4': ['update_partial_frame', 'set_lut'],
 'epd2in9_v2': ['update_partial_old_frame', 'update_partial_new_frame', 'clear_partial_frame'],
 'epd3in7': ['update_partial_frame'],
 'epd5in65f': ['update_partial_frame', 'set_lut'], 'epd5in83_v2': ['update_partial_frame', 'set_lut'],
 'epd5in83b_v2': ['set_lut'], 'epd7in3f': ['update_partial_frame', 'set_lut'],
 'epd7in5': ['update_partial_frame', 'set_lut'], 'epd7in5_hd': ['update_partial_frame', 'set_lut'],
 'epd7in5_v2': ['update_partial_frame', 'set_lut'], 'epd7in5b_v2': ['update_partial_frame', 'set_lut'],
}
# panels whose controller keeps the partial window across calls: fewer windows in the alphabet keep
# the reachable set small (the windows left out are still run by the correspondence suites)
FEW_WINDOWS = ('epd2in9_v2', 'epd1in02', 'epd2in9d', 'epd2in9b_v4')

def macros(p):
    """macro steps as script token lists: the protocol-respecting history alphabet"""
    V = gen.op_variants(p, False)
    F = p.frame
    M = []
    def add(*ops):
        M.append([list(o) for o in ops])
    for c in V['set_background_color']:
        add(c)
    for r in V['set_lut']:
        add(r)
    flen = 2 * F if p.name == 'epd7in5b_v2' else F
    uf = ['update_frame', gen.buf(flen)]
    add(uf)
    add(['display_frame'])
    add(['update_and_display_frame', gen.buf(flen)])
    add(['clear_frame'])
    add(['wait_until_idle'])
    add(['sleep'], ['wake_up'])
    add(['wake_up'])
    wins = V['update_partial_frame'][:3] + V['update_partial_frame'][4:5]
    if p.name not in NO_PARTIAL:
        for w in wins:
            add(w)
    if p.three:
        add(V['update_color_frame'][0])
        add(V['update_achromatic_frame'][0], V['update_chromatic_frame'][0])
    if p.quick:
        add(V['update_old_frame'][0], V['update_new_frame'][0])
        add(['display_new_frame'])
        add(V['update_and_display_new_frame'][0])
        for i in (0, 1, 2, 4):
            add(V['update_partial_old_frame'][i], V['update_partial_new_frame'][i])
            add(V['clear_partial_frame'][i])
    for e in p.extras:
        if e == 'shift_display':
            continue
        vs = V[e]
        if e in ('update_partial_achromatic_frame', 'update_partial_chromatic_frame', 'update_partial_frame2', 'display_partial_frame'):
            vs = vs[:3]
        for v in vs:
            add(v)
    bad = UNIMPL.get(p.name, [])
    M = [m for m in M if not any(o[0] in bad for o in m)]
    if p.name in FEW_WINDOWS:
        # keep the canonical window and the bottom-right one of every windowed op
        keep = []
        seen = {}
        for m in M:
            if len(m[0]) >= 5 and m[0][0] in gen.WINDOWED:
                k = m[0][0]
                seen[k] = seen.get(k, 0) + 1
                if seen[k] in (1, 3):
                    keep.append(m)
            else:
                keep.append(m)
        M = keep
    return M

def nl(l):
    return '[' + '; '.join(str(x) for x in l) + ']'

def main():
    out = ["(** Per-panel SPECIFICATION records (tools/gen_specs.py; reviewed by hand).  Trusted: see DESIGN.md 9. *)",
           "From Coq Require Import List NArith Bool.",
           "From EPD Require Import Iface Ops Ctl.Ctl Spec.PSpec Panels.",
           "Import ListNotations.", "Open Scope N_scope.", ""]
    for p in PANELS:
        fam = 'Ssd' if p.family == 'ssd' else 'Uc'
        defined = sorted(set((SSD_BASE if p.family == 'ssd' else UC_BASE) + EXTRA.get(p.name, [])))
        x16 = p.name in ('epd3in7', 'epd7in5_hd')
        rx, ry = RAMMAX.get(p.name, (0, 0))
        deep07 = (p.family == 'uc') or p.name == 'epd3in7'
        power = p.family == 'uc'
        if p.family == 'ssd':
            blocks = [(0x01, [3]), (0x10, [1]), (0x11, [1]), (0x21, [1, 2]), (0x22, [1]), (0x44, [4] if x16 else [2]),
                      (0x45, [4]), (0x4E, [2] if x16 else [1]), (0x4F, [2])]
            if p.name == 'epd3in7':
                blocks.append((0x07, [1]))
            refresh = [0x20]
            busyc = [0x12, 0x20, 0x46, 0x47]
        else:
            blocks = [(0x61, [RES_LEN.get(p.name, 4)]), (0x90, [PTL_LEN.get(p.name, 9)]), (0x07, [1])]
            refresh = [0x12]
            busyc = [0x02, 0x04, 0x12]
        pls = planes(p)
        cp = "mkCP %s %d %d %d %s %d %d %s %s %s %s %s %s %d %d\n      %s\n      %s None %s" % (
            fam, p.W, p.H, rb(p), 'true' if x16 else 'false', rx, ry,
            '[' + '; '.join('(%d, %s)' % (c, pl) for c, pl, _ in pls) + ']',
            nl(refresh), 'true' if deep07 else 'false', 'true' if power else 'false', nl(busyc),
            'true' if p.busy_low else 'false', RES_LEN.get(p.name, 4), PTL_LEN.get(p.name, 9),
            nl(defined), '[' + '; '.join('(%d, %s)' % (c, nl(l)) for c, l in blocks) + ']',
            'true' if p.name in POFF_WAIT else 'false')
        ents = entries(p)
        ent_s = ';\n     '.join('mkEntry (%s) [%s] %d' % (o, '; '.join('mkTarget %d %d %s %d %d' % t for t in ts), r)
                                for (_, o, ts, r) in ents)
        alpha = alphabet(p)
        alpha_s = ';\n     '.join('[' + '; '.join(m) + ']' for m in alpha)
        rows = '[' + '; '.join('(%d, %d)' % (c, r) for c, _, r in pls) + ']'
        out.append("Definition spec_%s : pspec :=\n  mkPS P%s\n    (%s)\n    %d %s %s\n    [%s]\n    [%s]." % (
            p.name[3:], p.name[3:], cp, p.frame, rows, nl([colorcode(c) for c in p.colors]), ent_s, alpha_s))
        out.append("")
    out.append("Definition spec_of (p : panel) : pspec :=\n  match p with\n" +
               '\n'.join("  | P%s => spec_%s" % (p.name[3:], p.name[3:]) for p in PANELS) + "\n  end.")
    os.makedirs(os.path.join(os.path.dirname(__file__), '..', 'coq', 'Spec'), exist_ok=True)
    open(os.path.join(os.path.dirname(__file__), '..', 'coq', 'Spec', 'Specs.v'), 'w').write('\n'.join(out) + '\n')

if __name__ == '__main__':
    main()

"""Script generation for the correspondence check (driver scripts for harness + model)."""
import random
from panels import PANELS, BY_NAME

class Rng:
    """SplitMix64 so that every choice derives from VERIF_SEED."""
    def __init__(self, seed):
        self.s = seed & 0xFFFFFFFFFFFFFFFF
    def next(self):
        self.s = (self.s + 0x9E3779B97F4A7C15) & 0xFFFFFFFFFFFFFFFF
        z = self.s
        z = ((z ^ (z >> 30)) * 0xBF58476D1CE4E5B9) & 0xFFFFFFFFFFFFFFFF
        z = ((z ^ (z >> 27)) * 0x94D049BB133111EB) & 0xFFFFFFFFFFFFFFFF
        return z ^ (z >> 31)
    def below(self, n):
        return self.next() % n
    def choice(self, l):
        return l[self.below(len(l))]

WINDOWED = ('update_partial_frame', 'update_partial_old_frame', 'update_partial_new_frame', 'clear_partial_frame',
            'update_partial_frame2', 'update_partial_achromatic_frame', 'update_partial_chromatic_frame',
            'display_partial_frame', 'shift_display')

BLOCK_WRITE = ('epd2in9b_v4', 'epd7in5', 'epd7in5_hd', 'epd7in5_v2', 'epd7in5b_v2')   # SINGLE_BYTE_WRITE = false

def buf(n, kind='r', seed=1):
    return "%d:%s:%d" % (n, kind, seed)

def windows(p, malformed=False):
    """(x, y, w, h) windows: canonical first, then boundary ones."""
    W8 = (p.W // 8) * 8
    ws = [(8, 4, 64, 2), (0, 0, 8, 1), (W8 - 8, p.H - 1, 8, 1), (0, 0, W8, p.H), (16, p.H - 3, 8, 3),
          (W8 - 16, 0, 16, 5), (0, 255, 8, 2) if p.H > 257 else (0, 1, 8, 2)]
    if p.W > 264:
        ws.append((264, 10, 8, 8))
    # byte-boundary windows: ending exactly at / starting at / straddling 256, 512, 768 in y and in x; wider than 255
    # pixels, taller than 255 rows; exactly reaching the bottom and the right edge (appended: earlier indices are used
    # by the alphabet of the Coq specs and must not move)
    for B in (256, 512, 768):
        if p.H > B + 8:
            ws += [(8, B - 6, 16, 6), (8, B, 16, 4), (8, B - 3, 16, 8)]
        if W8 > B + 16:
            ws += [(B - 16, 6, 16, 3), (B, 6, 16, 3), (B - 8, 6, 24, 3)]
    if W8 >= 272:
        ws.append((0, 9, 264, 2))
    if p.H >= 264:
        ws.append((16, 3, 8, 258))
    ws += [(8, p.H - 4, 16, 4), (W8 - 24, 7, 24, 3)]
    if malformed:
        ws += [(3, 0, 8, 1), (0, 0, 0, 1), (0, 0, 8, 0), (p.W, 0, 8, 1), (0, p.H, 8, 1), (8, 8, 12, 3),
               (0, 0, p.W + 8, 1), (4294967288, 0, 16, 1), (0, 4294967295, 8, 2), (0, 256, 8, 1),
               (0, 0, 8, 257)]
    return ws

def wlen(w, h):
    return (w // 8) * h

def op_variants(p, malformed=False):
    """name -> list of token lists (first = canonical)."""
    F = p.frame
    V = {}
    frame_lens = [F]
    if p.color == 'tri' or p.three:
        frame_lens.append(2 * F)
    if malformed:
        frame_lens += [16, 0, F + 1, F - 1]
    simple = ['sleep', 'wake_up', 'display_frame', 'clear_frame', 'wait_until_idle', 'width', 'height',
              'background_color']
    for s in simple:
        V[s] = [[s]]
    V['set_background_color'] = [['set_background_color', c] for c in p.colors]
    V['set_lut'] = [['set_lut', r] for r in ('none', 'full', 'quick')]
    V['update_frame'] = [['update_frame', buf(n)] for n in frame_lens]
    V['update_and_display_frame'] = [['update_and_display_frame', buf(n, 'r', 2)] for n in frame_lens]
    def win_ops(name, with_buf=True, seed=3):
        out = []
        for (x, y, w, h) in windows(p, malformed):
            n = wlen(w, h) if w < 100000 and h < 100000 else 16
            if with_buf:
                out.append([name, buf(n, 'r', seed), str(x), str(y), str(w), str(h)])
                if malformed and (x, y, w, h) == (8, 4, 64, 2):
                    out.append([name, buf(n + 1, 'r', seed), str(x), str(y), str(w), str(h)])
                    out.append([name, buf(n - 1, 'r', seed), str(x), str(y), str(w), str(h)])
            else:
                out.append([name, str(x), str(y), str(w), str(h)])
        return out
    V['update_partial_frame'] = win_ops('update_partial_frame')
    if p.three:
        V['update_color_frame'] = [['update_color_frame', buf(F, 'r', 4), buf(F, 'r', 5)]]
        V['update_achromatic_frame'] = [['update_achromatic_frame', buf(F, 'r', 6)]]
        V['update_chromatic_frame'] = [['update_chromatic_frame', buf(F, 'r', 7)]]
        if malformed:
            V['update_color_frame'].append(['update_color_frame', buf(16, 'r', 4), buf(8, 'r', 5)])
            V['update_achromatic_frame'].append(['update_achromatic_frame', buf(16, 'r', 6)])
            V['update_chromatic_frame'].append(['update_chromatic_frame', buf(0, 'r', 7)])
    if p.quick:
        V['update_old_frame'] = [['update_old_frame', buf(n, 'r', 8)] for n in frame_lens]
        V['update_new_frame'] = [['update_new_frame', buf(n, 'r', 9)] for n in frame_lens]
        V['display_new_frame'] = [['display_new_frame']]
        V['update_and_display_new_frame'] = [['update_and_display_new_frame', buf(n, 'r', 10)] for n in frame_lens]
        V['update_partial_old_frame'] = win_ops('update_partial_old_frame', seed=11)
        V['update_partial_new_frame'] = win_ops('update_partial_new_frame', seed=12)
        V['clear_partial_frame'] = win_ops('clear_partial_frame', with_buf=False)
    for e in p.extras:
        if e == 'set_partial_base_buffer':
            V[e] = [[e, buf(n, 'r', 13)] for n in frame_lens]
        elif e == 'set_refresh':
            V[e] = [[e, 'quick'], [e, 'full']]
        elif e == 'set_border_color':
            V[e] = [[e, c] for c in ('black', 'white', 'chromatic')]
        elif e in ('display_partial_frame', 'shift_display'):
            V[e] = win_ops(e, with_buf=False)
        elif e in ('update_partial_achromatic_frame', 'update_partial_chromatic_frame', 'update_partial_frame2'):
            V[e] = win_ops(e, seed=14)
        elif e == 'update_and_display_frame_base':
            V[e] = [[e, buf(F, 'r', 15), buf(F, 'r', 16)], [e, buf(F, 'r', 15), 'none']]
        elif e in ('display_frame_partial', 'show_7block'):
            V[e] = [[e]]
    return V

def case(cid, p, ops, delay='none', busy='s:', fault='none', scribble=0):
    lines = ["case %s panel=%s delay=%s busy=%s fault=%s scribble=%d" % (cid, p.name, delay, busy, fault, scribble)]
    lines += [' '.join(o) for o in ops]
    lines.append('end')
    return '\n'.join(lines)

def suite_basic(p, malformed=True):
    """new; op  for every op variant (including malformed arguments)."""
    out = []
    V = op_variants(p, malformed)
    i = 0
    for name in V:
        for v in V[name]:
            out.append(case("b%d" % i, p, [['new'], v]))
            i += 1
    return out

def canon_ops(p):
    V = op_variants(p, False)
    ops = []
    for name in V:
        ops.append(V[name][0])
        if name in ('set_lut', 'set_background_color', 'set_refresh'):
            ops += V[name][1:]
    return ops

def suite_pairs(p):
    """new; A; B for every ordered pair of canonical ops (state-dependent behaviour)."""
    out = []
    ops = canon_ops(p)
    i = 0
    for a in ops:
        # one case per A, running every B after re-establishing A would change state; so per pair
        for b in ops:
            out.append(case("p%d" % i, p, [['new'], a, b]))
            i += 1
    return out

def suite_chain(p):
    """cheaper than pairs: for every A: new; A; then every canonical op once (in a fixed order)."""
    out = []
    ops = canon_ops(p)
    for i, a in enumerate(ops):
        out.append(case("c%d" % i, p, [['new'], a] + ops))
    return out

def suite_env(p, rng):
    """delay settings and busy streams."""
    out = []
    ops = [['new']] + [o for o in canon_ops(p) if o[0] in (
        'update_frame', 'display_frame', 'clear_frame', 'sleep', 'wake_up', 'wait_until_idle',
        'update_partial_frame', 'set_lut', 'update_and_display_frame', 'update_color_frame',
        'display_new_frame', 'update_new_frame', 'update_partial_frame2', 'show_7block',
        'display_frame_partial', 'update_and_display_frame_base')]
    i = 0
    for d in ('none', '0', '1', '250'):
        for b in ('s:', 's:0000011111', 's:1111100000', 's:0101010011'):
            out.append(case("e%d" % i, p, ops, delay=d, busy=b))
            i += 1
        for pol in ('low', 'high'):
            durs = ','.join(str(rng.below(8)) for _ in range(40))
            out.append(case("e%d" % i, p, ops, delay=d, busy="a:%s:%s:%s" % (pol, ','.join(p.busy_cmds), durs)))
            i += 1
    for _ in range(6):
        bits = ''.join(str(rng.below(2)) for _ in range(30 + rng.below(60)))
        out.append(case("e%d" % i, p, ops, delay=rng.choice(['none', '0', '3']), busy='s:' + bits))
        i += 1
    return out

def fault_points(n_cmdlike=40):
    return list(range(0, 48)) + [63, 64, 100, 255, 256, 257, 1000, 4095, 4096, 4097, 4999, 5000, 5001,
                                 9999, 12345, 20000, 33599, 33600, 48000, 100000, 134399, 134400, 192000]

def transfer_points(lines, cap=160):
    """fault points for one API call from its fault-free REAL trace (canonical harness lines): the transfer index of
    every command byte, the transfer after it, both ends and the middle of every data run, every change of chunk size
    inside a run, the last transfer of the call and one index beyond it."""
    k = 0
    must, nice = set(), set()
    for l in lines:
        t = l.split(' ')
        if t[0] in ('C', 'CL'):
            must.add(k)
            nice.add(k + 1)
            k += 1
        elif t[0] == 'Z' and len(t) >= 5:
            n = 0
            for g in t[4].split(','):
                try:
                    cnt = int(g.split('*')[1])
                except (IndexError, ValueError):
                    cnt = 0
                if cnt:
                    must.add(k + n)
                    nice.add(k + n + cnt - 1)
                n += cnt
            if n:
                must.add(k + n - 1)
                nice.add(k + n // 2)
                nice.add(k + 1)
            k += n
    if k:
        must.add(k - 1)
    must.add(k)
    pts = sorted(must)
    if len(pts) > cap:
        # keep both ends dense, thin the middle deterministically
        step = len(pts) / float(cap)
        pts = sorted(set(pts[:40] + pts[-40:] + [pts[int(i * step)] for i in range(cap)]))
    extra = [x for x in sorted(nice) if x not in must and x <= k]
    room = max(0, cap - len(pts))
    if len(extra) > room:
        step = len(extra) / float(max(1, room))
        extra = [extra[int(i * step)] for i in range(room)]
    return sorted(set(pts + extra))

def fault_ops(p):
    return [a for a in canon_ops(p) if a[0] not in ('width', 'height', 'background_color', 'set_background_color')]

def fault_prefixes(p):
    """mode-changing calls after which a call may take a different path (quick waveform / quick refresh / partial mode)"""
    V = op_variants(p, False)
    pre = []
    for name in ('set_lut', 'set_refresh'):
        for v in V.get(name, []):
            if v[-1] == 'quick':
                pre.append([v])
    for name in ('update_partial_frame', 'update_old_frame', 'update_partial_old_frame'):
        if name in V:
            pre.append([V[name][0]])
    return pre

def suite_faultprobe(p):
    """the fault-free calls whose real traces give the fault points (tools/vlib.py fault_plan): `new; op` and
    `new; prefix; op` for every mode-changing prefix"""
    out = [case("q%d" % i, p, [['new'], a]) for i, a in enumerate(fault_ops(p))]
    for j, pre in enumerate(fault_prefixes(p)):
        out += [case("r%d_%d" % (j, i), p, [['new']] + pre + [a]) for i, a in enumerate(fault_ops(p))]
    return out

def suite_fault(p, rng, dense=False, plan=None):
    """for every canonical op: new; op with the k-th transfer failing; then a recovery suffix.  With a plan (from the
    fault-free real traces) k ranges over every command transfer of the call, the ends / middle / chunk boundaries of
    every data run and the last transfer; without one (or additionally, in the dense suite) over a fixed list."""
    out = []
    ops = fault_ops(p)
    rec = [['wake_up'], ['update_frame', buf(p.frame, 'r', 20)], ['display_frame']]
    i = 0
    ks = fault_points()
    if not dense:
        ks = [k for k in ks if k < 12 or k in (17, 30, 47, 100, 4096, 5000, 33600)] + [rng.below(300) for _ in range(3)]
    plan = plan or {}
    k0 = (plan.get('new') or []) + (ks if (dense or 'new' not in plan) else [0, 1, 2])
    for k in sorted(set(k0)):
        out.append(case("f%d" % i, p, [['new']] + rec, fault="0:%d" % k))
        i += 1
    for a in ops:
        key = ' '.join(a)
        ka = (plan.get(key) or []) + (ks if (dense or key not in plan) else [0, 1, 2])
        for k in sorted(set(ka)):
            out.append(case("f%d" % i, p, [['new'], a] + rec, fault="1:%d" % k))
            i += 1
    # the same call after a mode-changing prefix, where its fault-free real trace differs from the one without prefix
    for j, pre in enumerate(fault_prefixes(p)):
        for a in ops:
            key = 'P%d|%s' % (j, ' '.join(a))
            for k in sorted(set(plan.get(key) or [])):
                out.append(case("f%d" % i, p, [['new']] + pre + [a] + rec, fault="%d:%d" % (1 + len(pre), k)))
                i += 1
    return out

def suite_rand(p, rng, n=40, maxlen=6):
    out = []
    V = op_variants(p, False)
    names = list(V.keys())
    for i in range(n):
        ops = [['new']]
        for _ in range(1 + rng.below(maxlen)):
            nm = rng.choice(names)
            ops.append(rng.choice(V[nm]))
        d = rng.choice(['none', 'none', '0', '250'])
        if rng.below(3) == 0:
            bits = ''.join(str(rng.below(2)) for _ in range(rng.below(40)))
            b = 's:' + bits
        elif rng.below(2) == 0:
            b = "a:%s:%s:%s" % ('low' if p.busy_low else 'high', ','.join(p.busy_cmds),
                                ','.join(str(rng.below(6)) for _ in range(30)))
        else:
            b = 's:'
        out.append(case("r%d" % i, p, ops, delay=d, busy=b, scribble=rng.below(2)))
    return out

def suite_chunk(p):
    """buffer lengths around the 4096-byte transfer limit, through every op that forwards a buffer"""
    out = []
    i = 0
    names = ['update_frame', 'update_and_display_frame']
    if p.three:
        names += ['update_achromatic_frame', 'update_chromatic_frame']
    if p.quick:
        names += ['update_old_frame', 'update_new_frame']
    lens = [1, 4095, 4096, 4097, 8191, 8192, 8193, 12288, 12289]
    if p.name in BLOCK_WRITE:
        # the panels that hand whole slices to DisplayInterface::write (chunked there): every length within 5 of a
        # multiple of 4096 up to five chunks
        lens = sorted(set(lens + [k * 4096 + d for k in range(1, 6) for d in (-5, -2, -1, 0, 1, 2, 5)]))
    for n in lens:
        for nm in names:
            out.append(case("k%d" % i, p, [['new'], [nm, buf(n, 'r', 30 + i)]]))
            i += 1
        out.append(case("k%d" % i, p, [['new'], ['update_partial_frame', buf(n, 'r', 50 + i), '0', '0', '8', str(n)]]))
        i += 1
    return out

def suite_hist(p, rng, depth=2, sample=None):
    """protocol-respecting histories: every sequence of <= depth macro steps of the panel's alphabet
    (the same alphabet the Coq history theorems quantify over), followed by a probe sequence that
    exercises every kind of check: full-frame update, display, clear in a colour, sleep/wake, update."""
    import gen_specs
    M = gen_specs.macros(p)
    F = 2 * p.frame if p.name == 'epd7in5b_v2' else p.frame
    colors = p.colors
    out = []
    seqs = [[]] + [[a] for a in M]
    if depth >= 2:
        seqs += [[a, b] for a in M for b in M]
    if depth >= 3:
        seqs += [[a, b, c] for a in M for b in M for c in M]
    if sample is not None and len(seqs) > sample:
        keep = seqs[:1 + len(M)]
        rest = seqs[1 + len(M):]
        step = max(1, len(rest) // (sample - len(keep)))
        off = rng.below(step)
        seqs = keep + rest[off::step]
    for i, sq in enumerate(seqs):
        ops = [['new']]
        for m in sq:
            ops += m
        c = colors[i % len(colors)]
        ops += [['update_frame', buf(F, 'r', 100 + i)], ['display_frame'],
                ['set_background_color', c], ['clear_frame'],
                ['sleep'], ['wake_up'], ['update_frame', buf(F, 'r', 200 + i)], ['display_frame']]
        out.append(case("h%d" % i, p, ops))
    return out

def suite_win(p, rng):
    """every partial entry point of the panel with every boundary window (and a few PRNG windows) that is 8-aligned
    and inside the panel, on a fresh driver and after one other partial update - for the run-time oracle"""
    import gen_specs
    bad = gen_specs.UNIMPL.get(p.name, [])
    V = op_variants(p, False)
    ws = [w for w in windows(p) if w[0] % 8 == 0 and w[2] % 8 == 0 and w[2] > 0 and w[3] > 0 and w[0] + w[2] <= p.W and w[1] + w[3] <= p.H]
    W8 = (p.W // 8) * 8
    for _ in range(6):
        w = 8 * (1 + rng.below(max(1, min(8, W8 // 8))))
        x = 8 * rng.below((W8 - w) // 8 + 1)
        h = 1 + rng.below(min(24, p.H))
        y = rng.below(p.H - h + 1)
        ws.append((x, y, w, h))
    if p.H > 300:
        ws.append((8, 500 if p.H > 520 else p.H - 20, 16, 12))
    out = []
    i = 0
    def win_op(name, w, seed):
        x, y, ww, h = w
        if name in ('clear_partial_frame', 'display_partial_frame'):
            return [name, str(x), str(y), str(ww), str(h)]
        return [name, buf(wlen(ww, h), 'r', seed), str(x), str(y), str(ww), str(h)]
    names = [n for n in WINDOWED if n in V and n not in bad and n != 'shift_display']
    if p.name in ('epd2in13bc', 'epd2in9bc'):
        names = []
    for n in names:
        for k, w in enumerate(ws):
            if n == 'update_partial_new_frame':
                continue
            ops = [['new']]
            if k % 2 == 1:
                ops.append(win_op(n, ws[0], 40) if n != 'update_partial_old_frame' else win_op('clear_partial_frame', ws[0], 40))
            if n == 'update_partial_old_frame':
                ops += [win_op(n, w, 41 + k), win_op('update_partial_new_frame', w, 141 + k)]
            else:
                ops.append(win_op(n, w, 41 + k))
            ops += [['display_frame']]
            out.append(case("w%d" % i, p, ops))
            i += 1
    return out

def suite_pair(p, rng, cap=450):
    """new; A; B for every ordered pair of macro steps of the panel's alphabet (no probe): the transitions the Coq
    verdict quantifies over at depth 1, on the real crate"""
    import gen_specs
    M = gen_specs.macros(p)
    pairs = [(a, b) for a in range(len(M)) for b in range(len(M))]
    if len(pairs) > cap:
        step = len(pairs) / float(cap)
        off = rng.below(max(1, int(step)))
        pairs = [pairs[min(len(pairs) - 1, int(i * step) + off)] for i in range(cap)]
    out = []
    for i, (a, b) in enumerate(pairs):
        # the idle-delay setting cycles through the four classes (it changes nothing for the observer except the
        # shape of a reset pulse whose settle time is derived from it)
        out.append(case("q%d" % i, p, [['new']] + M[a] + M[b], delay=['none', '0', '1', '250'][i % 4]))
    return out

def suite_sw(p, rng, cap=320):
    """new; A; sleep; wake_up; B for every ordered pair of macro steps (C08: any sequence of calls after sleep and
    wake-up behaves as after construction)"""
    import gen_specs
    M = [m for m in gen_specs.macros(p) if not any(o[0] in ('sleep', 'wake_up') for o in m)]
    pairs = [(a, b) for a in range(len(M)) for b in range(len(M))]
    if len(pairs) > cap:
        step = len(pairs) / float(cap)
        off = rng.below(max(1, int(step)))
        pairs = [pairs[min(len(pairs) - 1, int(i * step) + off)] for i in range(cap)]
    return [case("s%d" % i, p, [['new']] + M[a] + [['sleep'], ['wake_up']] + M[b]) for i, (a, b) in enumerate(pairs)]

def suite_tri(p, rng, cap=300):
    """new; A; B; C for ordered triples of macro steps of the panel's alphabet (sampled evenly, offset drawn from the
    seed): state set by one call, carried through a second, observed in a third"""
    import gen_specs
    M = gen_specs.macros(p)
    n = len(M)
    total = n * n * n
    idx = list(range(total))
    if total > cap:
        step = total / float(cap)
        off = rng.below(max(1, int(step)))
        idx = [min(total - 1, int(i * step) + off) for i in range(cap)]
    out = []
    for i, t in enumerate(idx):
        a, b, c = t // (n * n), (t // n) % n, t % n
        out.append(case("t%d" % i, p, [['new']] + M[a] + M[b] + M[c], delay=['none', '0', '1', '250'][i % 4]))
    return out

def suite(p, name, rng, plan=None):
    if name == 'sw':
        return suite_sw(p, rng)
    if name == 'tri':
        return suite_tri(p, rng)
    if name == 'win':
        return suite_win(p, rng)
    if name == 'pair':
        return suite_pair(p, rng)
    if name == 'hist1':
        return suite_hist(p, rng, depth=1)
    if name == 'hist2':
        return suite_hist(p, rng, depth=2, sample=400)
    if name == 'hist2full':
        return suite_hist(p, rng, depth=2)
    if name == 'hist3':
        return suite_hist(p, rng, depth=3, sample=3000)
    if name == 'chunk':
        return suite_chunk(p)
    if name == 'basic':
        return suite_basic(p)
    if name == 'pairs':
        return suite_pairs(p)
    if name == 'chain':
        return suite_chain(p)
    if name == 'env':
        return suite_env(p, rng)
    if name == 'fault':
        return suite_fault(p, rng, plan=plan)
    if name == 'faultdense':
        return suite_fault(p, rng, dense=True, plan=plan)
    if name == 'faultprobe':
        return suite_faultprobe(p)
    if name == 'rand':
        return suite_rand(p, rng)
    raise KeyError(name)

#!/usr/bin/env python3
"""One-off helper: copy the const byte tables of /repo/src into coq/Drv/Luts.v.
The output is committed; the correspondence check (not this script) ties it to the code."""
import re, glob, os, sys
out = ["(** Byte tables copied from /repo/src (tools/gen_luts.py).  Tied to the code by the",
       "    correspondence check only. *)",
       "From Coq Require Import List NArith.", "Import ListNotations.", "Open Scope N_scope.", ""]
files = sorted(glob.glob('/repo/src/*/constants.rs')) + ['/repo/src/epd2in9_v2/mod.rs']
for f in files:
    panel = f.split('/')[-2]
    src = open(f).read()
    # strip comments
    src_nc = re.sub(r'//[^\n]*', '', src)
    pos = 0
    # find cfg attributes preceding consts
    for m in re.finditer(r'((?:#\[cfg\([^\]]*\)\]\s*)*)(?:#\[rustfmt::skip\]\s*)?(?:pub\(crate\)\s+)?const\s+([A-Z0-9_]+)\s*:\s*(?:\[u8;\s*\d+\]|&\[u8\])\s*=\s*&?\[(.*?)\];', src_nc, re.S):
        cfg, name, body = m.group(1), m.group(2), m.group(3)
        suffix = ''
        if 'type_a_alternative_faster_lut' in cfg:
            suffix = '_alt' if 'not(' not in cfg else ''
        if 'epd2in13_v2' in cfg: suffix = '_v2'
        if 'epd2in13_v3' in cfg: suffix = '_v3'
        vals = [v.strip() for v in body.replace('\n', ' ').split(',') if v.strip()]
        nums = [str(int(v, 0)) for v in vals]
        out.append("Definition %s_%s%s : list N :=\n  [%s]." % (panel, name, suffix, '; '.join(nums)))
        out.append("")
open('/verif/coq/Drv/Luts.v', 'w').write('\n'.join(out))

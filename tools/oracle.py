#!/usr/bin/env python3
"""Oracle runs: protocol-respecting histories on the REAL crate, checked by the extracted Coq
observer (controller model + property checks).  Library + CLI:
   oracle.py [--suite hist1|hist2|hist3] [--feat v3] [panel ...]"""
import os, sys, subprocess, time, hashlib, json
from concurrent.futures import ThreadPoolExecutor
sys.path.insert(0, os.path.dirname(os.path.abspath(__file__)))
import gen, corr
from panels import PANELS, BY_NAME

ROOT = corr.ROOT
WORK = corr.WORK

def run_oracle(panels, feat, suite, seed, hexe, mexe, outdir, jobs=16):
    """-> (fails: list of dict(panel, feat, case, opidx, op, prop, clause, script_path), stats)"""
    os.makedirs(outdir, exist_ok=True)
    tasks = []
    for p in panels:
        rng = gen.Rng(seed * 1000003 + corr.hash_name(p.name + suite))
        cases = gen.suite(p, suite, rng)
        n = max(1, min(16, len(cases) // 40))
        for i in range(n):
            part = cases[i::n]
            if part:
                base = os.path.join(outdir, "or-%s-%s-%s-%d" % (p.name, feat, suite, i))
                open(base + '.script', 'w').write('\n'.join(part) + '\n')
                tasks.append((p.name, base, len(part)))
    env = dict(corr.ENV, EPD_FEAT=feat)
    def work(t):
        name, base, ncases = t
        r = subprocess.run([hexe, 'run', base + '.script'], stdout=subprocess.PIPE, stderr=subprocess.PIPE, text=True, env=env)
        open(base + '.real', 'w').write(r.stdout)
        o = subprocess.run("ulimit -s unlimited 2>/dev/null; exec %s oracle %s.script %s.real" % (mexe, base, base), shell=True,
                           stdout=subprocess.PIPE, stderr=subprocess.PIPE, text=True, env=env)
        fails = []
        for line in o.stdout.split('\n'):
            if line.startswith('F '):
                t = line.split(' ')
                fails.append(dict(panel=name, feat=feat, case=t[1], opidx=int(t[2]), op=t[3], prop=t[4],
                                  clause=' '.join(t[5:]), script_path=base + '.script'))
        nops = r.stdout.count('\nop ')
        return fails, ncases, nops, (o.stderr.strip()[-300:] if o.stderr.strip() else '')
    fails, ncases, nops, errs = [], 0, 0, []
    with ThreadPoolExecutor(max_workers=jobs) as ex:
        for f, c, o, e in ex.map(work, tasks):
            fails += f
            ncases += c
            nops += o
            if e:
                errs.append(e)
    return fails, dict(cases=ncases, ops=nops, errors=errs[:5])

def case_text(script_path, cid):
    out, on = [], False
    for line in open(script_path):
        if line.startswith('case '):
            on = line.split(' ')[1] == cid
        if on:
            out.append(line.rstrip('\n'))
            if line.strip() == 'end':
                break
    return '\n'.join(out)

def main():
    args = sys.argv[1:]
    feat, suite, names = 'v3', 'hist1', []
    while args:
        a = args.pop(0)
        if a == '--feat':
            feat = args.pop(0)
        elif a == '--suite':
            suite = args.pop(0)
        else:
            names.append(a)
    panels = [BY_NAME[n] for n in names] if names else PANELS
    hexe, err = corr.build_harness(feat)
    mexe, log = corr.build_model()
    if not hexe or not mexe:
        print(err, log)
        sys.exit(2)
    t0 = time.time()
    fails, st = run_oracle(panels, feat, suite, int(os.environ.get('VERIF_SEED', '1')), hexe, mexe, os.path.join(WORK, 'oracle'))
    agg = {}
    for f in fails:
        k = (f['panel'], f['prop'], f['op'], f['clause'])
        agg.setdefault(k, []).append(f)
    for k in sorted(agg):
        print("%-13s %s %-28s %-40s x%d  e.g. %s#%d" % (k[0], k[1], k[2], k[3], len(agg[k]), agg[k][0]['case'], agg[k][0]['opidx']))
    print(st, "%.1fs" % (time.time() - t0))

if __name__ == '__main__':
    main()

#!/usr/bin/env python3
"""Correspondence check: run the same scripts on the real crate (harness) and on the extracted Coq
model (ocaml/driver) and compare the canonical traces per API call and per projection.

CLI:  corr.py [--feat v3|v2|alt] [--suites basic,chain,env,fault,rand] [--seed N] [panel ...]
"""
import os, sys, subprocess, time, hashlib, json
from concurrent.futures import ThreadPoolExecutor
sys.path.insert(0, os.path.dirname(os.path.abspath(__file__)))
import gen, gen_big
from panels import PANELS, BY_NAME, ALL_PANELS

ROOT = os.path.dirname(os.path.dirname(os.path.abspath(__file__)))
WORK = os.path.join(ROOT, 'work')
P1, B1, P2, B2 = 2147483647, 257, 2147483629, 65599
ENV = dict(os.environ, CARGO_NET_OFFLINE='true')

def sh(cmd, **kw):
    return subprocess.run(cmd, shell=True, stdout=subprocess.PIPE, stderr=subprocess.STDOUT, text=True, env=ENV, **kw)

# ------------------------------------------------------------------ builds
def build_harness(feat='v3', release=False):
    """(Re)build the harness against /repo's current working tree. Returns (path, error text)."""
    tdir = os.path.join(ROOT, 'harness', 'target', feat)
    lock = os.path.join(ROOT, 'harness', 'Cargo.lock')
    if not os.path.exists(lock) or open(lock).read() != open('/repo/Cargo.lock').read():
        import shutil
        shutil.copy('/repo/Cargo.lock', lock)
    feats = {'v3': 'v3', 'v2': 'v2', 'alt': 'v3,alt'}[feat]
    cmd = "cd %s/harness && CARGO_TARGET_DIR=%s timeout 1200 cargo build --offline --features %s %s" % (
        ROOT, tdir, feats, '--release' if release else '')
    r = sh(cmd)
    exe = os.path.join(tdir, 'release' if release else 'debug', 'epdh')
    if r.returncode != 0 or not os.path.exists(exe):
        return None, r.stdout[-4000:]
    return exe, ''

def build_model():
    """make the Coq development and (re)extract + build the OCaml driver when anything changed."""
    r = sh("cd %s/coq && ( [ -f Makefile ] || coq_makefile -f _CoqProject -o Makefile ) && timeout 3000 make -j16 2>&1 | grep -v '^COQC\\|^COQDEP\\|^make' | tail -40" % ROOT)
    exe = os.path.join(ROOT, 'ocaml', 'driver')
    stamp = os.path.join(ROOT, 'ocaml', 'gen', '.stamp')
    # content hash of the model sources decides whether to re-extract
    h = hashlib.sha256()
    for d, _, fs in sorted(os.walk(os.path.join(ROOT, 'coq'))):
        for f in sorted(fs):
            if f.endswith('.v'):
                h.update(open(os.path.join(d, f), 'rb').read())
    for f in ('driver.ml', 'big.ml', 'util.ml', 'pure.ml', 'orc.ml', 'build.sh'):
        h.update(open(os.path.join(ROOT, 'ocaml', f), 'rb').read())
    dig = h.hexdigest()
    if not (os.path.exists(exe) and os.path.exists(stamp) and open(stamp).read() == dig):
        r2 = sh("%s/ocaml/build.sh" % ROOT)
        if r2.returncode != 0:
            return None, r.stdout + r2.stdout[-4000:]
        open(stamp, 'w').write(dig)
    return exe, r.stdout

# ------------------------------------------------------------------ parsing
def parse_out(text):
    """-> {case_id: [(opidx, opname, [lines], result)]}"""
    cases = {}
    cur = None
    op = None
    for line in text.split('\n'):
        if line.startswith('case '):
            cur = []
            cases[line[5:]] = cur
        elif line.startswith('op '):
            _, i, name = line.split(' ', 2)
            op = [int(i), name, [], None]
            cur.append(op)
        elif line.startswith('= '):
            op[3] = line[2:]
        elif line == 'end' or not line:
            pass
        else:
            op[2].append(line)
    return cases

KEEP = {
    'wire': None,
    'timing': ('C', 'CL', 'Z', 'X0', 'X1', 'Xu', 'U', 'S', 'R0', 'R1', 'P', 'T', 'N', 'PN', 'W', 'WX'),
    'frames+rst': ('C', 'CL', 'Z', 'X0', 'X1', 'Xu', 'U', 'S', 'R0', 'R1', 'N', 'W', 'WX'),
    'frames': ('C', 'CL', 'Z', 'X0', 'X1', 'Xu', 'U', 'S', 'W', 'WX'),
}

def project(lines, proj):
    if proj == 'wire':
        return list(lines)
    keep = KEEP[proj]
    out = []
    for l in lines:
        t = l.split(' ')
        if t[0] not in keep:
            continue
        if t[0] == 'Z':
            n, h1, h2 = int(t[1]), int(t[2]), int(t[3])
            if out and out[-1][0] == 'Z':
                _, n0, a1, a2 = out[-1]
                out[-1] = ('Z', n0 + n, (a1 * pow(B1, n, P1) + h1) % P1, (a2 * pow(B2, n, P2) + h2) % P2)
            else:
                out.append(('Z', n, h1, h2))
        else:
            out.append((l,))
    return [' '.join(str(x) for x in o) for o in out]

# ---- semantic projections: what each property's theorems depend on
FAM = {
 'ssd': dict(plane={0x24, 0x26}, refresh={0x20}, busy={0x12, 0x20, 0x46, 0x47}, addr={0x11, 0x44, 0x45, 0x4e, 0x4f, 0x12, 0x46, 0x47},
             sleep={0x10, 0x07}, lut={0x32}, geom={0x01, 0x44, 0x45}, ctl={0x22}),
 'uc': dict(plane={0x10, 0x13, 0x14, 0x15}, refresh={0x12, 0x16}, busy={0x02, 0x04, 0x12}, addr={0x90, 0x91, 0x92, 0x61},
            sleep={0x07}, lut=set(range(0x20, 0x2b)), geom={0x61, 0x90}, ctl={0x02, 0x04}),
}

def frames_of(lines):
    """frames projection lines -> list of events: ('F', cmd, [data lines]) | ('E', line)"""
    ev = []
    cur = None
    for l in project(lines, 'frames+rst') if True else []:
        t = l.split(' ')
        if t[0] in ('C', 'CL'):
            cur = ['F', int(t[1], 16), []]
            ev.append(cur)
        elif t[0] == 'Z':
            if cur is not None:
                cur[2].append(l)
            else:
                ev.append(['E', l])
        else:
            ev.append(['E', l])
            if t[0] in ('R0', 'R1', 'N'):
                cur = None
    return ev

def zlen(zs):
    return sum(int(z.split(' ')[1]) for z in zs)

def sem_project(lines, kind, fam):
    F = FAM[fam]
    out = []
    if kind == 'busy':
        # polls and delays verbatim, resets, and the commands the busy discipline is about
        for l in project(lines, 'timing'):
            t = l.split(' ')
            if t[0] in ('P', 'T', 'R0', 'R1', 'N', 'PN', 'X0', 'X1', 'Xu'):
                out.append(l)
            elif t[0] in ('C', 'CL'):
                c = int(t[1], 16)
                if c in F['plane'] or c in F['refresh'] or c in F['busy'] or c in F['ctl']:
                    out.append('C %02x' % c)
                    keep = c in F['ctl']
                else:
                    keep = False
            elif t[0] == 'Z':
                if out and out[-1].startswith('C ') and int(out[-1][2:], 16) in F['ctl']:
                    out.append(l)
        return out
    for e in frames_of(lines):
        if e[0] == 'E':
            t = e[1].split(' ')
            if t[0] in ('R0', 'R1', 'N') and kind in ('addr', 'power', 'image'):
                out.append(e[1])
            elif t[0] in ('X0', 'X1', 'Xu', 'U', 'S'):
                out.append(e[1])
            elif t[0] == 'Z' and kind in ('addr', 'cmdlen'):
                out.append('stray ' + t[1])
            continue
        _, c, zs = e
        if kind == 'addr':
            if c in F['addr']:
                out.append('C %02x' % c); out += zs
            elif c in F['plane']:
                out.append('RAM %02x %d' % (c, zlen(zs)))
        elif kind == 'power':
            if c in F['sleep'] or c in F['ctl']:
                out.append('C %02x' % c); out += zs
            elif c in F['plane']:
                pass
            else:
                out.append('C %02x' % c)
        elif kind == 'cmdlen':
            out.append('C %02x %d' % (c, zlen(zs)))
            if c in F['geom'] or c in F['sleep']:
                out += zs
        elif kind == 'image':
            # what reaches image memory and when it is shown: addressing frames, RAM frames with contents, refresh
            # triggers and the update-control value that qualifies them
            if c in F['addr'] or c in F['plane'] or (c in F['ctl'] and fam == 'ssd'):
                out.append('C %02x' % c); out += zs
            elif c in F['refresh']:
                out.append('C %02x' % c)
        elif kind == 'lut':
            if c in F['lut'] and not (c in F['refresh']):
                out.append('C %02x' % c); out += zs
    return out

def rst_project(lines):
    """RST edges, the delay that follows each edge, and where SPI traffic happens relative to them"""
    out = []
    for l in project(lines, 'timing'):
        t = l.split(' ')
        if t[0] in ('R0', 'R1', 'N'):
            out.append(l)
        elif t[0] == 'T':
            if out and out[-1].split(' ')[0] in ('R0', 'R1'):
                out.append(l)
        elif t[0] in ('C', 'CL', 'Z', 'X0', 'X1', 'Xu', 'U', 'S', 'W', 'WX'):
            if not out or out[-1] != 'SPI':
                out.append('SPI')
    return out

SEM = ('addr', 'busy', 'power', 'cmdlen', 'lut', 'rst', 'image')
PROJS = ('frames', 'frames+rst', 'timing', 'wire') + SEM

class Mismatch:
    def __init__(self, panel, feat, suite, cid, opidx, opname, projs, real, model, rres, mres, script):
        self.__dict__.update(locals())
        del self.__dict__['self']
    def brief(self):
        return "%s[%s] %s/%s op#%d %s: differs on %s (real %s, model %s)" % (
            self.panel, self.feat, self.suite, self.cid, self.opidx, self.opname, ','.join(self.projs),
            self.rres, self.mres)

def first_diff(a, b):
    for i, (x, y) in enumerate(zip(a, b)):
        if x != y:
            return i, x, y
    if len(a) != len(b):
        i = min(len(a), len(b))
        return i, a[i] if i < len(a) else '<end>', b[i] if i < len(b) else '<end>'
    return None

def compare(panel, feat, suite, script_text, real_txt, model_txt):
    """-> (n_ops, mismatches, stats)"""
    R = parse_out(real_txt)
    M = parse_out(model_txt)
    mism = []
    nops = 0
    scripts = {}
    cur = None
    for line in script_text.split('\n'):
        if line.startswith('case '):
            cur = [line]
            scripts[line.split(' ')[1]] = cur
        elif cur is not None:
            cur.append(line)
    for cid, rops in R.items():
        mops = M.get(cid, [])
        for k, rop in enumerate(rops):
            nops += 1
            mop = mops[k] if k < len(mops) else [rop[0], rop[1], ['<missing>'], None]
            if rop[2] == mop[2] and rop[3] == mop[3]:
                continue
            bad = []
            fam = BY_NAME[panel].family if panel in BY_NAME else 'uc'
            for pj in PROJS:
                if pj == 'rst':
                    differs = rst_project(rop[2]) != rst_project(mop[2])
                elif pj in SEM:
                    differs = sem_project(rop[2], pj, fam) != sem_project(mop[2], pj, fam)
                else:
                    differs = project(rop[2], pj) != project(mop[2], pj)
                if differs or rop[3] != mop[3]:
                    bad.append(pj)
            if not bad:
                continue
            mism.append(Mismatch(panel, feat, suite, cid, rop[0], rop[1], bad, rop[2], mop[2], rop[3], mop[3],
                                 '\n'.join(scripts.get(cid, []))))
    return nops, mism

# ------------------------------------------------------------------ running
def run_both(hexe, mexe, feat, script_path, shards=1):
    env = dict(ENV, EPD_FEAT=feat)
    r = subprocess.run([hexe, 'run', script_path], stdout=subprocess.PIPE, stderr=subprocess.PIPE, text=True, env=env)
    m = subprocess.run("ulimit -s unlimited 2>/dev/null; exec %s run %s" % (mexe, script_path), shell=True,
                       stdout=subprocess.PIPE, stderr=subprocess.PIPE, text=True, env=env)
    return r.stdout, m.stdout, r.stderr[-2000:], m.stderr[-2000:]

def run_suites(panels, feat, suites, seed, hexe, mexe, jobs=16, tag='corr'):
    """Runs all (panel, suite) scripts; returns (total ops, mismatches, per-suite counts)."""
    os.makedirs(WORK, exist_ok=True)
    tasks = []
    for p in panels:
        for s in suites:
            rng = gen.Rng(seed * 1000003 + hash_name(p.name + s))
            # the 12.48in driver (p.big) has its own generator; gen.py only knows the trait drivers
            cases = gen_big.suite(s, rng) if getattr(p, 'big', False) else gen.suite(p, s, rng)
            # shard big suites
            n = max(1, min(8, len(cases) // 60))
            for sh_i in range(n):
                part = cases[sh_i::n]
                if not part:
                    continue
                path = os.path.join(WORK, "%s-%s-%s-%s-%d.script" % (tag, p.name, feat, s, sh_i))
                text = '\n'.join(part) + '\n'
                open(path, 'w').write(text)
                tasks.append((p, s, path, text, len(part)))
    total = 0
    mism = []
    counts = {}
    errs = []
    def work(t):
        p, s, path, text, ncases = t
        rt, mt, re_, me = run_both(hexe, mexe, feat, path)
        nops, mm = compare(p.name, feat, s, text, rt, mt)
        if me.strip():
            errs.append("model stderr on %s: %s" % (path, me.strip()[-500:]))
        if re_.strip():
            errs.append("harness stderr on %s: %s" % (path, re_.strip()[-500:]))
        return p.name, s, ncases, nops, mm
    with ThreadPoolExecutor(max_workers=jobs) as ex:
        for (pn, s, ncases, nops, mm) in ex.map(work, tasks):
            total += nops
            mism += mm
            c = counts.setdefault((pn, s), [0, 0, 0])
            c[0] += ncases
            c[1] += nops
            c[2] += len(mm)
    return total, mism, counts, errs

def hash_name(s):
    return int(hashlib.sha256(s.encode()).hexdigest()[:8], 16)

def main():
    args = sys.argv[1:]
    feat = 'v3'
    suites = ['basic', 'chain', 'env', 'fault', 'rand']
    seed = int(os.environ.get('VERIF_SEED', '1'))
    names = []
    verbose = False
    while args:
        a = args.pop(0)
        if a == '--feat':
            feat = args.pop(0)
        elif a == '--suites':
            suites = args.pop(0).split(',')
        elif a == '--seed':
            seed = int(args.pop(0))
        elif a == '-v':
            verbose = True
        else:
            names.append(a)
    panels = [BY_NAME[n] for n in names] if names else ALL_PANELS
    t0 = time.time()
    hexe, err = build_harness(feat)
    if not hexe:
        print("HARNESS BUILD FAILED\n" + err)
        sys.exit(2)
    mexe, log = build_model()
    if not mexe:
        print("MODEL BUILD FAILED\n" + log)
        sys.exit(2)
    if log.strip():
        print(log)
    total, mism, counts, errs = run_suites(panels, feat, suites, seed, hexe, mexe)
    for e in errs[:10]:
        print(e)
    for (pn, s), (nc, no, nm) in sorted(counts.items()):
        print("%-14s %-6s cases=%-5d ops=%-6d mismatches=%d" % (pn, s, nc, no, nm))
    seen = set()
    shown = 0
    for m in mism:
        key = (m.panel, m.opname, tuple(m.projs))
        if key in seen and not verbose:
            continue
        seen.add(key)
        shown += 1
        if shown > 25 and not verbose:
            break
        print("MISMATCH " + m.brief())
        d = first_diff(m.real, m.model)
        if d:
            print("   first differing line %d:\n     real : %s\n     model: %s" % (d[0], d[1][:160], d[2][:160]))
        print("   script: " + ' | '.join(m.script.split('\n')[:8]))
    print("total ops %d, mismatching ops %d, %.1fs" % (total, len(mism), time.time() - t0))
    sys.exit(1 if mism else 0)

if __name__ == '__main__':
    main()

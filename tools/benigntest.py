#!/usr/bin/env python3
"""benigntest.py <dir with benign*.diff> [--checks C01,...]

Behaviour-preserving source changes (refactors written by a sub-agent that saw only the property texts): every check
must stay quiet on them.  Stores the patches under /verif/seeded/benign/, applies each to /repo, runs the quick
checks, records exit codes / VIOLATION lines in results.json, reverts /repo and restores the committed evidence."""
import os, sys, json, subprocess, shutil, glob, time
ROOT = os.path.dirname(os.path.dirname(os.path.abspath(__file__)))
ENV = dict(os.environ, CARGO_NET_OFFLINE='true')

def sh(cmd, cwd=None, timeout=5400):
    r = subprocess.run(cmd, shell=True, cwd=cwd, stdout=subprocess.PIPE, stderr=subprocess.STDOUT, text=True, env=ENV, timeout=timeout)
    return r.returncode, r.stdout

def main():
    src = sys.argv[1]
    checks = None
    if '--checks' in sys.argv:
        checks = sys.argv[sys.argv.index('--checks') + 1].split(',')
    only = None
    if '--only' in sys.argv:
        only = sys.argv[sys.argv.index('--only') + 1].split(',')
    dst = os.path.join(ROOT, 'seeded', 'benign')
    os.makedirs(dst, exist_ok=True)
    for f in glob.glob(os.path.join(src, '*.diff')) + glob.glob(os.path.join(src, 'README.txt')):
        shutil.copy(f, dst)
    man = json.load(open(os.path.join(ROOT, 'MANIFEST.json')))
    ids = checks or [c['property_id'] for c in man['checks']]
    resf = os.path.join(dst, 'results.json')
    results = json.load(open(resf)) if os.path.exists(resf) else {}
    for patch in sorted(glob.glob(os.path.join(dst, '*.diff'))):
        name = os.path.basename(patch)[:-5]
        if only and name not in only:
            continue
        rc, o = sh("git -C /repo status --porcelain")
        if o.strip():
            print("/repo is not clean:", o); sys.exit(2)
        rc, o = sh("git -C /repo apply %s" % patch)
        if rc != 0:
            print(name, "does not apply:", o); continue
        res = {}
        try:
            for pid in ids:
                t0 = time.time()
                rc, o = sh("./check %s quick" % pid, cwd=ROOT)
                v = [l for l in o.split('\n') if l.startswith('VIOLATION')]
                res[pid] = dict(exit=rc, violations=len(v), wall_s=round(time.time() - t0, 1))
                if rc != 0 or v:
                    res[pid]['detail'] = [l for l in o.split('\n') if l.startswith('  ')][:3]
                print(name, pid, rc, len(v), (res[pid].get('detail') or [''])[0][:170], flush=True)
        finally:
            sh("git -C /repo checkout -- .")
            sh("git checkout -- evidence", cwd=ROOT)
        results[name] = dict(checks=res, alarms=[p for p, r in res.items() if r['exit'] != 0])
        json.dump(results, open(resf, 'w'), indent=1)
    print({k: v['alarms'] for k, v in results.items()})

if __name__ == '__main__':
    main()

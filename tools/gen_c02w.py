#!/usr/bin/env python3
"""Generate coq/Properties/C02w.v (statements only) from the theorem statements of coq/Proof/Havoc.v."""
import re, sys, os
ROOT = os.path.dirname(os.path.dirname(os.path.abspath(__file__)))
FRAG = os.path.join(ROOT, "tools", "c02w")
src = open(os.path.join(ROOT, 'coq', 'Proof', 'Havoc.v')).read()

def stmt(name):
    m = re.search(r'^(Theorem|Lemma) ' + re.escape(name) + r'\b([^:]*?):(.*?)\nProof', src, re.S | re.M)
    assert m, name
    binders = m.group(2).strip()
    body = m.group(3).rstrip()
    assert body.endswith('.'), name
    body = body[:-1]
    if binders:
        return 'forall ' + binders + ',' + body
    return body.lstrip('\n')

out = []
names = []
def thm(name, comment=None):
    if comment:
        out.append('(** ' + comment + ' *)')
    s = stmt(name)
    out.append('Theorem C02w_%s : %s.\nProof. exact %s. Qed.' % (name, s, name))
    names.append('C02w_' + name)
def raw(t):
    out.append(t)

HEADER = open(os.path.join(FRAG, 'c02w_header.txt')).read()
raw(HEADER)

SSD = [('epd1in54', 'spec_1in54', 'mkGeom 3 1 9 4 6 8 5'),
       ('epd1in54_v2', 'spec_1in54_v2', 'mkGeom 3 1 9 4 6 8 5'),
       ('epd2in9', 'spec_2in9', 'mkGeom 3 1 9 4 6 8 5'),
       ('epd2in7_v2', 'spec_2in7_v2', 'mkGeom 3 1 9 4 6 6 6'),
       ('epd2in13_v2', 'spec_2in13_v2', 'mkGeom 3 1 9 4 6 8 5')]
raw('(** * 1. SSD-type panels that re-program window and counter: from EVERY state with [ssd_havoc] *)')
for pan, spec, g in SSD:
    raw('(** ** %s *)' % pan)
    for op in ['update_frame', 'update_and_display_frame', 'clear_frame']:
        thm('%s_%s_havoc' % (pan, op))
    raw('''(** non-vacuity: the state the documented update_partial_frame (16 bytes at (8,4), 64 x 2) leaves on a
    freshly constructed driver meets the hypotheses, and it is NOT a full-window state: window columns
    1..9, rows 4..6, counter inside it *)
Example C02w_%s_nonvacuous :
  let c := c_after %s [OUpdatePartial 16 8 4 64 2] in
  ssd_havoc c /\\ refresh_enum (d_after %s [OUpdatePartial 16 8 4 64 2]) /\\
  geom_of c = %s /\\ geom_of c <> full_geom %s.
Proof. vm_compute. repeat split; try (left; reflexivity); discriminate. Qed.''' % (pan, spec, spec, g, spec))
    for op in ['update_frame', 'update_and_display_frame', 'clear_frame']:
        thm('%s_sys_%s' % (pan, op))
    thm('%s_update_frame_same_as_fresh' % pan)
    raw('''Example C02w_%s_sys_nonvacuous :
  match after_ops %s [OUpdatePartial 16 8 4 64 2] with
  | Some s => ssd_havoc (y_c s) /\\ refresh_enum (y_d s) /\\ refresh (y_d s) = 0 /\\ geom_of (y_c s) = %s
  | None => False
  end.
Proof. vm_compute. repeat split. left. reflexivity. Qed.''' % (pan, spec, g))
thm('epd2in13_v2_update_frame_target_plane')
raw('''(** Quick mode of the epd2in13_v2 driver is reachable (set_refresh) and meets the hypotheses *)
Example C02w_epd2in13_v2_quick_nonvacuous :
  match after_ops spec_2in13_v2 [OSetRefresh 1] with
  | Some s => ssd_havoc (y_c s) /\\ refresh (y_d s) = 1
  | None => False
  end.
Proof. vm_compute. repeat split. Qed.''')
raw(open(os.path.join(FRAG, 'c02w_ssd_tail.txt')).read())

raw('(** * 3. UC-type panels *)')
for n in ['epd4in2_update_frame_havoc', 'epd4in2_update_and_display_frame_havoc', 'epd4in2_clear_frame_havoc',
          'epd4in2_sys_update_frame']:
    thm(n)
raw('''(** non-vacuity: the state update_partial_frame leaves (partial-window registers 1..8 x 4..5 left
    behind, partial mode off) *)
Example C02w_epd4in2_nonvacuous :
  let c := c_after spec_4in2 [OUpdatePartial 16 8 4 64 2] in
  uc_havoc spec_4in2 c /\\ (c_px0 c, c_px1 c, c_py0 c, c_py1 c) = (1, 8, 4, 5).
Proof. vm_compute. repeat split. left. reflexivity. Qed.''')
for n in ['epd1in02_update_frame_havoc', 'epd1in02_clear_frame_havoc', 'epd1in02_sys_update_frame']:
    thm(n)
raw('''(** non-vacuity: after the QuickRefresh pair the controller IS in partial mode (window 1..8 x 4..5)
    and the driver's refresh_mode field says Quick: the hypotheses hold and the state is non-trivial *)
Example C02w_epd1in02_nonvacuous :
  match after_ops spec_1in02 [OUpdatePartialOld 16 8 4 64 2; OUpdatePartialNew 16 8 4 64 2] with
  | Some s => idle (y_c s) /\\ uc_full_res spec_1in02 (y_c s) /\\ full_agrees (y_d s) (y_c s) /\\
              c_partial (y_c s) = true /\\ refresh (y_d s) = 1
  | None => False
  end.
Proof. vm_compute. repeat split; try (left; reflexivity); discriminate. Qed.''')
for n in ['epd2in7_update_frame_havoc', 'epd2in7_update_and_display_frame_havoc', 'epd2in7_clear_frame_havoc',
          'epd2in7_sys_update_frame']:
    thm(n)
raw('''Example C02w_epd2in7_nonvacuous :
  let c := c_after spec_2in7 [OUpdatePartial 16 8 4 64 2] in uc_havoc spec_2in7 c /\\ c_resh c = 0.
Proof. vm_compute. repeat split. right. reflexivity. Qed.''')

raw('''(** ** C06w + C02w: for ALL aligned windows, partial update(s) then the full-frame update *)''')
for n in ['epd4in2_partial_then_full', 'epd4in2_partial_pair_then_full', 'epd4in2_clear_partial_then_full',
          'epd4in2_sys_partial_then_full',
          'epd1in02_partial_pair_then_full', 'epd1in02_clear_partial_then_full', 'epd2in7_partial_then_full']:
    thm(n)
for n in ['epd4in2_update_partial_frame_keeps_res', 'epd4in2_update_partial_old_frame_keeps_res',
          'epd4in2_update_partial_new_frame_keeps_res', 'epd4in2_clear_partial_frame_sets_res',
          'epd1in02_update_partial_old_frame_keeps_res', 'epd1in02_update_partial_new_frame_keeps_res',
          'epd1in02_clear_partial_frame_keeps_res']:
    thm(n)
raw(open(os.path.join(FRAG, 'c02w_uc_tail.txt')).read())

raw('(** * 4. Refutations *)')
raw(open(os.path.join(FRAG, 'c02w_refuted.txt')).read())
for n in ['epd2in9b_v4_update_frame_havoc_refuted', 'epd2in9b_v4_update_frame_after_partial',
          'epd2in9_v2_update_frame_havoc_refuted', 'epd2in9_v2_update_frame_after_partial',
          'epd4in2_update_frame_any_partial_refuted', 'epd1in54_update_frame_any_entry_refuted']:
    thm(n)
raw(open(os.path.join(FRAG, 'c02w_reach.txt')).read())
names += ['C02w_ssd_runs_are_full_frame', 'C02w_ssd_havocb_ok', 'C02w_uc_havocb_ok', 'C02w_idleb_ok', 'C02w_uc_full_resb_ok', 'C02w_full_agreesb_ok', 'C02w_quick_agreesb_ok']
raw('\n'.join('Print Assumptions %s.' % n for n in names))
open(os.path.join(ROOT, 'coq', 'Properties', 'C02w.v'), 'w').write('\n\n'.join(out) + '\n')
print(len(names), 'theorems')

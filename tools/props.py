"""Per-property checks: proof status + correspondence on the property's projection + oracle on the
implementation's real traces."""
import os, sys, json, time
import vlib, corr, gen
from vlib import proof_status, corr_run, iter_real, case_script, finish, proof_violation, corr_violations

QUICK_SUITES = ['basic', 'chain', 'env', 'fault', 'rand', 'chunk', 'pair', 'tri']
THOROUGH_SUITES = QUICK_SUITES + ['pairs', 'faultdense']

def suites_for(tier):
    return THOROUGH_SUITES if tier == 'thorough' else QUICK_SUITES

def dist(run):
    """input distribution of a correspondence run"""
    d = {}
    for t in run['tasks']:
        k = t['suite']
        e = d.setdefault(k, dict(cases=0, ops=0))
        e['cases'] += t['cases']
        e['ops'] += t.get('ops', 0)
    return d

def sample_cases(run, n=3):
    out = []
    for t in run['tasks'][:: max(1, len(run['tasks']) // n)][:n]:
        txt = open(t['script']).read().split('\nend\n')[0]
        out.append(txt[:400])
    return out

def base_coverage(run):
    return dict(evaluations=sum(t.get('ops', 0) for t in run['tasks']),
                traces_validated_against_impl=sum(t.get('ops', 0) for t in run['tasks']),
                correspondence_mismatches=len(run['mismatches']),
                input_distribution=dist(run), samples=sample_cases(run),
                harness_or_model_errors=run['errors'][:5])

def replay(prop, path):
    v = json.load(open(path))
    print(json.dumps(v, indent=1)[:4000])
    r = v.get('replay', {})
    if 'script' in r:
        os.makedirs(vlib.WORK, exist_ok=True)
        sp = os.path.join(vlib.WORK, 'replay.script')
        open(sp, 'w').write(r['script'] + '\n')
        feat = r.get('feat', 'v3')
        hexe, err = corr.build_harness(feat)
        mexe, log = corr.build_model()
        if hexe and mexe:
            rt, mt, _, _ = corr.run_both(hexe, mexe, feat, sp)
            print("---- implementation\n" + rt[:6000])
            print("---- model\n" + mt[:6000])
    return 0

# ---------------------------------------------------------------------------------------------- C10
def oracle_c10(run):
    viol = []
    n = 0
    for t, cid, head, ops in iter_real(run):
        for (i, name, lines, res) in ops:
            n += 1
            for l in lines:
                tok = l.split(' ')
                clause = None
                if tok[0] == 'CL':
                    clause = 'multi-byte-transfer-with-dc-low'
                elif tok[0] == 'U' or tok[0] == 'Xu':
                    clause = 'transfer-before-dc-driven'
                elif tok[0] == 'S':
                    clause = 'non-write-spi-operation'
                elif tok[0] == 'Z':
                    for part in tok[4].split(','):
                        size = int(part.lstrip('d').split('*')[0])
                        if size > 4096:
                            clause = 'transfer-larger-than-4096'
                        if size == 0:
                            clause = 'empty-transfer'
                if clause:
                    viol.append(dict(panel=t['panel'], site=name, clause=clause, detail=l[:200],
                                     replay=dict(kind='trace', panel=t['panel'], feat=t['feat'], op_index=i,
                                                 line=l[:300], script=case_script(t, cid))))
    return viol, n

def check_C10(tier, seed, t0):
    proof = proof_status(['Properties/C10.v'], clean=(tier == 'thorough'))
    run = corr_run(suites_for(tier), seed, tier)
    viol, n = oracle_c10(run)
    flagged = {(v['panel'], v['site']) for v in viol}
    # framing differences only: same logical (D/C, byte) stream, different transfers / D/C events.  A different logical
    # stream is some other property's business (the theorems here are about how a given stream is framed)
    framing = [m for m in run['mismatches'] if 'wire' in m['projs'] and 'frames' not in m['projs'] and 'timing' not in m['projs']]
    for v in corr_violations('C10', framing, ['wire']):
        if (v['panel'], v['site']) not in flagged:
            viol.append(v)
    # (f) exact repeat counts: the same uniform fill, of a different length than the transcription of the code asks for
    for m in run['mismatches']:
        fd = m.get('first_diff')
        if 'frames' in m['projs'] and fd and isinstance(fd[1], str) and isinstance(fd[2], str) and fd[1].startswith('Z ') and fd[2].startswith('Z '):
            a, b = fd[1].split(' '), fd[2].split(' ')
            def uni(t):
                u = [x for x in t if x.startswith('u=')]
                if u:
                    return u[0][2:]
                hx = t[5] if len(t) > 5 else ''
                return hx[:2] if hx and hx == hx[:2] * (len(hx) // 2) else None
            if uni(a) is not None and uni(a) == uni(b) and a[1] != b[1]:
                viol.append(dict(panel=m['panel'], site=m['op'], clause='repeat-count',
                                 detail="a fill of %s x 0x%s is sent as %s bytes" % (b[1], uni(a), a[1]),
                                 replay=dict(kind='correspondence', panel=m['panel'], feat=m['feat'], suite=m['suite'], case=m['case'],
                                             op_index=m['opidx'], op=m['op'], first_diff=fd, script=m['script'])))
    bv, bn = big_property_check('C10', seed, tier)
    viol += bv
    viol.sort(key=lambda v: 1 if v.get('no_input') else 0)
    if not proof['ok']:
        viol.append(proof_violation('C10', proof))
    cov = base_coverage(run)
    cov['oracle_ops_scanned'] = n
    cov['big_ops_judged'] = bn
    cov['rule'] = "every op of every generated script (27 drivers x 3 feature sets) run on the real crate; wire projection (D/C events, transfer boundaries, bytes) compared with the model; every real transfer checked for D/C-low => 1 byte, D/C driven before, size <= 4096; the 12.48in driver (own bus / chip-select / D/C handling): the same three clauses on its real traces (windows up to a whole sub-display with full buffers) + framing projection (D/C level, transfer length per write) compared with Big/Model.v"
    cov['distinct_nontrivial'] = cov['evaluations']
    return finish('C10', tier, seed, t0, proof, viol, cov,
                  ["theorems are about Hal.expand (transcription of src/interface.rs); tie = wire-projection correspondence",
                   "Linux chunking branch only (cfg!(target_os = linux))", "12.48in driver: framing clauses judged on its real traces and compared with Big/Model.v on the framing projection (pin/select theorems: C15)"])

# ---------------------------------------------------------------------------------------------- pure properties
U32 = 1 << 32

def rect_oracle(query, real):
    """Does the REAL answer to a rect query contradict C16?  -> True (fails) / False (consistent) / None (outside the precondition)"""
    q = query.split()
    if q[0] == 'rect_i':
        ax, ay, aw, ah, bx, by, bw, bh = map(int, q[1:9])
        if ax + aw >= U32 or ay + ah >= U32 or bx + bw >= U32 or by + bh >= U32:
            return None
        if 'PANIC' in real or 'no answer' in real:
            return True
        t = real.replace('=', ' ').split()
        x, y, w, h, e = map(int, t[:5])
        ix0, ix1 = max(ax, bx), min(ax + aw, bx + bw)
        iy0, iy1 = max(ay, by), min(ay + ah, by + bh)
        empty = ix1 <= ix0 or iy1 <= iy0
        if empty:
            return not ((w == 0 or h == 0) and e == 1)
        return not ((x, y, w, h) == (ix0, iy0, ix1 - ix0, iy1 - iy0) and e == 0)
    if q[0] == 'rect_s':
        ax, ay, aw, ah, dx, dy = map(int, q[1:7])
        if dx > ax or dy > ay:
            return None
        if 'PANIC' in real or 'no answer' in real:
            return True
        t = real.replace('=', ' ').split()
        return tuple(map(int, t[:4])) != (ax - dx, ay - dy, aw, ah)
    return None

def pure_check(prop, group, prop_files, tier, seed, t0, assumptions, unique=True, release_too=False, extra_groups=(), extra_viol=()):
    import pure
    proof = proof_status(prop_files, clean=(tier == 'thorough'))
    viol = list(extra_viol)
    cov = dict(evaluations=0, queries=0, correspondence_mismatches=0, input_distribution={}, samples=[], harness_or_model_errors=[])
    try:
        builds = pure.build(False)
        runs = [(g, False) for g in (group,) + tuple(extra_groups)]
        if release_too and group != 'rect':
            runs.append((group, True))
        relb = None
        for g, rel in runs:
            if rel and relb is None:
                relb = pure.build(True)
            r = pure.run(g, tier, seed, release=rel, builds=(relb if rel else builds), oracle=(rect_oracle if g == 'rect' else None))
            cov['evaluations'] += r['evaluations']
            cov['queries'] += r['queries']
            cov['correspondence_mismatches'] += r['n_mismatches']
            cov['input_distribution'][g + ('-release' if rel else '')] = r['distribution']
            cov['harness_or_model_errors'] += r['errors'][:5]
            for m in r['mismatches'][:40]:
                fails = rect_oracle(m['query'], m['real']) if g == 'rect' else (True if unique else None)
                concrete = m['query'].split()[0] not in ('rect_sweep', 'buflen_sweep', 'var_sweep', 'setpix_sweep',
                                                         'rgb888_sweep', 'rgb565_sweep', 'rgb555_sweep', 'color_table') \
                    or m['where'].startswith('T ') or ' = ' not in m['where'] and m['query'].startswith('color_table')
                v = dict(panel='pure', site=m['query'].split()[0], clause='model-vs-code:' + m['where'][:80],
                         detail="real: %s | model (proved to satisfy %s): %s" % (m['real'], prop, m['model']),
                         replay=dict(kind='pure', group=g, release=rel, query=m['query'], where=m['where'], real=m['real'], model=m['model']))
                if not (fails and concrete):
                    v['no_input'] = True
                viol.append(v)
            viol.sort(key=lambda v: 1 if v.get('no_input') else 0)
            if r['errors'] and not r['mismatches']:
                viol.append(dict(panel='pure', site='harness', clause='run-error', no_input=True, detail='; '.join(r['errors'][:3])[:600],
                                 replay=dict(kind='pure', group=g, errors=r['errors'][:5])))
            if not cov['samples']:
                cov['samples'] = list(r['distribution'].keys())[:3]
    except Exception as e:
        viol.append(dict(panel='pure', site='build', clause='build-failed', no_input=True, detail=str(e)[-1500:],
                         replay=dict(kind='build', log=str(e)[-3000:])))
    if not proof['ok']:
        viol.append(proof_violation(prop, proof))
    cov['traces_validated_against_impl'] = cov['evaluations']
    cov['distinct_nontrivial'] = cov['queries']
    cov['rule'] = ("queries answered by the real crate (harness `epdh pure`) and by the extracted Coq model (proved to satisfy the property); "
                   "sweep queries cover whole ranges and are summarised by two rolling hashes; a differing sweep line is expanded into "
                   "its individual inputs; distinct_nontrivial counts distinct query lines")
    return finish(prop, tier, seed, t0, proof, viol, cov, assumptions)

def check_C16(tier, seed, t0):
    return pure_check('C16', 'rect', ['Properties/C16.v'], tier, seed, t0,
                      ["theorems are about Pure/Rect.v (transcription of src/rect.rs, u32 overflow = None); tie = pure correspondence (exhaustive 0..12 sweeps + boundary/random u32 rectangles)",
                       "debug-build overflow semantics (overflow panics); the property's precondition excludes overflow"])

def color_table_oracle():
    """C14 clauses evaluated directly on the REAL crate's finite conversion tables -> violations"""
    import pure, subprocess
    hexe, err = corr.build_harness('v3')
    if not hexe:
        return [], 0
    qp = os.path.join(vlib.WORK, 'c14-table.q')
    os.makedirs(vlib.WORK, exist_ok=True)
    open(qp, 'w').write('color_table\n')
    out = subprocess.run([hexe, 'pure', qp], stdout=subprocess.PIPE, stderr=subprocess.PIPE, text=True, env=corr.ENV).stdout
    T = {}
    for l in out.split('\n'):
        if l.startswith('T ') and ' = ' in l:
            k, v = l[2:].split(' = ', 1)
            T[k] = v
    viol = []
    def bad(clause, cls, detail, key):
        viol.append(dict(panel='pure', site='color_table', clause=clause, detail=detail, **{'class': cls},
                         replay=dict(kind='pure', group='color', query='color_table', line='T %s = %s' % (key, T.get(key)))))
    for k, v in T.items():
        t = k.split()
        if t[0] == 'color.raw_u1_roundtrip' and v != t[1]:
            bad('raw_u1_roundtrip', t[1], "Color::from(RawU1::from(%s)) = %s" % (t[1], v), k)
        elif t[0] == 'oct.from_raw_u4' and v == 'PANIC' and int(t[1]) < 16:
            bad('raw_u4_panic', 'v>=8', "OctColor::from(RawU4::new(%s)) panics" % t[1], k)
        elif v == 'PANIC' and not (t[0] == 'color.from_u8' and int(t[1]) >= 2) and t[0] != 'oct.from_raw_u4':
            bad('conversion_panics', t[0], "%s panics" % k, k)
        elif t[0].endswith('_roundtrip') and t[0] != 'color.raw_u1_roundtrip' and v != t[-1]:
            bad('roundtrip:' + t[0], t[-1], "%s = %s" % (k, v), k)
        elif t[0] == 'bitmask' and t[1] == 'tri' and int(t[4]) < 8:
            mask, bits = map(int, v.split())
            bit = 0x80 >> (int(t[4]) % 8)
            fill = int(T.get('tri.get_byte_value ' + t[2], '0'))
            if (255 - mask) != bit:
                bad('mask_selects_other_bits', 'tri', "%s = %s" % (k, v), k)
            elif ((bits & 0xff) & bit) != (fill & bit):
                bad('tri_mask_fill_disagree', 'chromatic bwrbit=' + t[3], "bitmask(%s,bwrbit=%s,pos=%s) B/W bit %d but get_byte_value fill %d" % (
                    t[2], t[3], t[4], 1 if bits & bit else 0, 1 if fill & bit else 0), k)
        elif t[0] == 'bitmask' and t[1] == 'color' and int(t[4]) < 8:
            mask, bits = map(int, v.split())
            bit = 0x80 >> (int(t[4]) % 8)
            fill = int(T.get('color.get_byte_value ' + t[2], '0'))
            if (255 - mask) != bit or (bits & bit) != (fill & bit) or (bits & ~bit & 0xffff):
                bad('color_mask_fill_disagree', t[2], "%s = %s" % (k, v), k)
    for c in ('black', 'white', 'green', 'blue', 'red', 'yellow', 'orange', 'hiz'):
        nib = T.get('oct.get_nibble ' + c)
        if nib is not None and T.get('oct.from_nibble ' + nib) != c:
            bad('nibble_roundtrip', c, "from_nibble(get_nibble(%s)) = %s" % (c, T.get('oct.from_nibble ' + nib)), 'oct.get_nibble ' + c)
    for c in ('black', 'white'):
        bit = T.get('color.get_bit_value ' + c)
        if bit is not None and T.get('color.from_u8 ' + bit) != c:
            bad('bit_roundtrip', c, "from_u8(get_bit_value(%s)) = %s" % (c, T.get('color.from_u8 ' + bit)), 'color.get_bit_value ' + c)
    return viol, len(T)

def check_C03(tier, seed, t0):
    return pure_check('C03', 'graphics', ['Properties/C03.v'], tier, seed, t0,
                      ["theorems are about Pure/Graphics.v set_pixel (transcription of src/graphics.rs) for ALL widths/heights <= i32::MAX, all i32 points, rotations, colour types, colours, bwrbit and buffer contents; tie = pure correspondence (exhaustive per alias row sweeps, VarDisplay geometries, i32 extremes; debug and release builds)",
                       "Display<..> aliases are instantiated through Pure/Aliases.v, itself compared with the crate's alias constants by the sizing group"],
                      release_too=(tier == 'thorough'))

def check_C13(tier, seed, t0):
    return pure_check('C13', 'sizing', ['Properties/C13.v'], tier, seed, t0,
                      ["theorems are about Pure/Graphics.v buffer_len / buffer_size / var_new_ok and Pure/Aliases.v; tie = pure correspondence (alias constants, VarDisplay::new sweeps 0..64 x slice lengths, buffer_len 0..2048^2)",
                       "'starts all-zero' and 'dimensions the driver reports' are decided by the correspondence (alias query compares default buffer, size(), WIDTH/HEIGHT), not by a theorem",
                       "64-bit usize"])

def check_C14(tier, seed, t0):
    extra, ntab = color_table_oracle()
    return pure_check('C14', 'color', ['Properties/C14.v'], tier, seed, t0,
                      ["theorems are about Pure/Color.v (transcription of src/color.rs); tie = pure correspondence (every finite table, all Rgb565/Rgb555 values, Rgb888 sweeps: step 5 quick / exhaustive thorough)",
                       "the property's clauses are also evaluated directly on the real crate's finite tables (%d entries) each run" % ntab],
                      extra_viol=extra)

# ---------------------------------------------------------------------------------------------- wire properties
import oracle as oracle_mod
ENTRY_OPS = ['update_frame', 'update_and_display_frame', 'update_color_frame', 'update_achromatic_frame', 'update_chromatic_frame',
             'update_old_frame', 'update_new_frame', 'update_and_display_new_frame', 'set_partial_base_buffer',
             'update_and_display_frame_base']
PARTIAL_OPS = ['update_partial_frame', 'update_partial_old_frame', 'update_partial_new_frame', 'clear_partial_frame',
               'update_partial_frame2', 'update_partial_achromatic_frame', 'update_partial_chromatic_frame',
               'display_partial_frame', 'shift_display', 'display_frame_partial']
WIRE = {
 # property: (projections of the correspondence it depends on, ops (None = all), description of the tie)
 'C01': (['image'], ENTRY_OPS + ['display_frame', 'display_new_frame', 'new', 'wake_up'], "image projection (addressing frames, RAM frames with their contents, refresh triggers, resets) of every full-frame entry point, the display calls, new and wake_up"),
 'C02': (['addr'], None, "addressing projection (window / counter / entry-mode / partial-window / resolution frames, RAM commands with their lengths, resets) of every operation"),
 'C05': (['busy'], None, "busy projection (every poll with its answer, every delay, resets, busy-raising / RAM / refresh commands) of every operation under generated busy streams and delay settings"),
 'C06': (['image'], PARTIAL_OPS, "frames projection of every partial entry point (boundary, malformed and canonical windows)"),
 'C07': (['image'], ['clear_frame', 'set_background_color', 'background_color'], "image projection (addressing frames, RAM frames with contents, refresh triggers) of clear_frame in every colour"),
 'C08': (['frames+rst'], ['sleep', 'wake_up', 'new'], "frames + RST projection of sleep, wake_up and new"),
 'C09': (['power'], None, "power projection (resets, every configuration / power / sleep command, refresh triggers) of every operation"),
 'C11': (['rst'], None, "reset projection (RST edges, the delays that follow them, position of SPI traffic) of every operation"),
 'C17': (['lut'], None, "waveform projection (every table upload with its bytes) of every operation"),
 'C18': (['cmdlen'], None, "protocol projection (every command with its parameter count, geometry / sleep blocks with their bytes) of every operation"),
}
PROPNUM = {'C%02d' % i: i for i in range(1, 19)}

_REAL_CACHE = {}
def refresh_origin(f):
    path = f['script_path'][:-len('.script')] + '.real'
    if path not in _REAL_CACHE:
        try:
            _REAL_CACHE[path] = corr.parse_out(open(path).read())
        except OSError:
            _REAL_CACHE[path] = {}
    ops = _REAL_CACHE[path].get(f['case'], [])
    trig = 'C 20' if corr.BY_NAME[f['panel']].family == 'ssd' else 'C 12'
    for (i, name, lines, res) in reversed([o for o in ops if o[0] < f['opidx']]):
        if any(l == trig or l.startswith(trig + ' ') for l in lines):
            return name
    return 'the same call'

def oracle_violations(prop, orc):
    viol = []
    for f in orc['fails']:
        if f['prop'] != prop:
            continue
        extra = {}
        if prop == 'C05':
            # the busy discipline is about PAIRS of calls: the class of a C05 failure is the earlier call that
            # started the refresh still pending (the last earlier call of the case that sent a refresh trigger)
            extra['class'] = 'refresh started by ' + refresh_origin(f)
        viol.append(dict(panel=f['panel'], site=f['op'], clause=f['clause'], **extra,
                         detail="real trace of %s (case %s, call #%d, features %s) judged by the extracted observer" % (f['op'], f['case'], f['opidx'], f['feat']),
                         replay=dict(kind='oracle', panel=f['panel'], feat=f['feat'], case=f['case'], op_index=f['opidx'], op=f['op'],
                                     clause=f['clause'], script=oracle_mod.case_text(f['script_path'], f['case']))))
    return viol

def escalate_oracle(panel_names, seed):
    """deeper search for a failing input on the implementation, for a few panels: all histories of two macro steps"""
    from panels import BY_NAME
    res = dict(fails=[], cases=0, ops=0, errors=[])
    mexe, log = corr.build_model()
    for feat in ('v3', 'v2', 'alt'):
        ps = [p for p in vlib.panels_for(feat) if p.name in panel_names]
        if not ps:
            continue
        hexe, err = corr.build_harness(feat)
        if not hexe or not mexe:
            continue
        fails, st = oracle_mod.run_oracle(ps, feat, 'hist2full', seed, hexe, mexe, os.path.join(vlib.WORK, 'escalate', feat))
        res['fails'] += fails
        res['cases'] += st['cases']
        res['ops'] += st['ops']
    return res

def wire_check(prop, tier, seed, t0, assumptions, extra_viol=(), extra_cov=None, suites=None, corr_filter=None, extra_files=()):
    projs, ops, tie = WIRE[prop]
    proof = proof_status(['Properties/%s.v' % prop] + list(extra_files), clean=(tier == 'thorough'))
    ks = vlib.known_sync_problem()
    if ks:
        proof['ok'] = False
        proof['problems'].append(ks)
    run = corr_run(suites or suites_for(tier), seed, tier)
    orc = vlib.oracle_run('hist2' if tier == 'thorough' else 'hist1', seed, tier)
    viol = list(extra_viol) + oracle_violations(prop, orc)
    flagged = {(v['panel'], v['site']) for v in viol}
    for v in corr_violations(prop, run['mismatches'], projs, ops=ops):
        if corr_filter and not corr_filter(v):
            continue
        viol.append(v)
    # a broken correspondence with no concrete failing input yet: search deeper on the implementation for the panels
    # concerned (every history of two macro steps + probe, judged by the observer) before reporting
    bad_panels = sorted({v['panel'] for v in viol if v.get('no_input') and v.get('clause', '').startswith('correspondence')}
                        - {v['panel'] for v in viol if not v.get('no_input')})
    if bad_panels:
        deep = escalate_oracle(bad_panels[:4], seed)
        found = oracle_violations(prop, deep)
        known = vlib.load_findings()
        found = [v for v in found if not any(f.get('property') == prop and vlib.sig_matches(f, dict(v, property=prop)) for f in known)]
        viol = found + viol
    if not proof['ok']:
        viol.append(proof_violation(prop, proof))
    for e in (run['errors'] + orc['errors'])[:3]:
        viol.append(dict(panel='*', site='harness', clause='run-error', no_input=True, detail=e[:600], replay=dict(kind='error', text=e[:2000])))
    cov = base_coverage(run)
    relevant = sum(1 for t, cid, head, opsl in iter_real(run) for o in opsl if ops is None or o[1] in ops) if ops else cov['evaluations']
    cov['ops_relevant_to_property'] = relevant
    st = vlib.reach_stats()
    if st:
        cov['states'] = sum(a for a, b in st)
        cov['transitions'] = sum(a * b for a, b in st)
        cov['closure_obligations'] = len(st)
        cov['closed_sets'] = "per configuration (reachable states, macro steps): " + ' '.join("%dx%d" % (a, b) for a, b in st)
    cov['oracle_histories'] = orc['cases']
    cov['oracle_ops_judged'] = orc['ops']
    cov['traces_validated_against_impl'] = cov['evaluations'] + orc['ops']
    cov['distinct_nontrivial'] = relevant
    cov['rule'] = ("correspondence: every op of every generated script (27 drivers x 3 feature sets) run on the real crate and on the extracted model, compared on the "
                   + tie + "; oracle: every history of <= %d macro steps of the panel alphabet followed by a probe sequence, run on the real crate and judged by the extracted Coq observer (the function the theorems are about); distinct_nontrivial = ops the property's projection applies to" % (2 if tier == 'thorough' else 1))
    if extra_cov:
        cov.update(extra_cov)
    return finish(prop, tier, seed, t0, proof, viol, cov, assumptions)

STD_ASSUME = ["theorems are about the driver models (Drv/*.v) run against the controller specification (Ctl/Ctl.v) under the observer of Spec/Oracle.v; tie = correspondence on the property's projection + the same observer run on real traces",
              "history alphabet = ps_alpha of Spec/Specs.v (canonical + boundary arguments); history LENGTH is unbounded (closed reachable set), argument values are those of the alphabet",
              "controller semantics, busy polarity, deep-sleep codes and command tables are specifications written from datasheet knowledge (DESIGN.md App. B)"]

def check_C02(tier, seed, t0):
    return wire_check('C02', tier, seed, t0, STD_ASSUME + [
        "Properties/C02w.v ('havoc'): for epd1in54, epd1in54_v2, epd2in9, epd2in7_v2, epd2in13_v2 (all feature variants) update_frame / update_and_display_frame / clear_frame are correct from EVERY controller state with entry mode 3 and no open frame - window and counter registers universally quantified -; for epd4in2 (x < 256), epd1in02, epd2in7: any aligned partial update followed by a full update is correct; the state hypotheses are checked on every state of the closed reachable sets; refuted for epd2in9b_v4 and epd2in9_v2 (the known findings)",
        "12.48in driver: full-frame writes after its histories (partial writes, mode changes, refreshes) judged on its real traces + correspondence with Big/Model.v (theorems: C15)"],
        extra_files=['Properties/C02w.v'], extra_viol=big_property_check('C02', seed, tier)[0])
def check_C07(tier, seed, t0):
    return wire_check('C07', tier, seed, t0, STD_ASSUME)
def check_C08(tier, seed, t0):
    # "any sequence of calls after sleep and wake-up has the same effect as after construction": new; A; sleep; wake_up; B
    # for every ordered pair of macro steps, model vs implementation on every call of the sandwich (not only on sleep /
    # wake_up): a call that behaves like the model everywhere else but not after a sleep / wake-up cycle
    sw = corr_run(['sw'], seed, tier)
    main = corr_run(suites_for(tier), seed, tier)
    plain = {(m['panel'], m['op']) for m in main['mismatches']}
    ev = []
    for v in corr_violations('C08', [m for m in sw['mismatches'] if (m['panel'], m['op']) not in plain], ['frames+rst'], ops=None):
        v['clause'] = 'correspondence-after-sleep-wake-up'
        ev.append(v)
    n_sw = sum(t.get('ops', 0) for t in sw['tasks'])
    bv, bn = big_property_check('C08', seed, tier)
    return wire_check('C08', tier, seed, t0, STD_ASSUME + ["sandwich suite: new; A; sleep; wake_up; B for every ordered pair of macro steps, compared with the model on every call",
                                                          "12.48in driver (sleep = hibernate, wake-up = reset + init): deep-sleep command + check code to all four controllers last, on its real traces; hibernate / reset / init compared with Big/Model.v (which controller receives which command and parameters), also after failed calls"],
                      extra_viol=ev + bv, extra_cov=dict(sandwich_ops_compared=n_sw, big_hibernates_judged=bn))
def check_C09(tier, seed, t0):
    bv, n = big_property_check('C09', seed, tier)
    return wire_check('C09', tier, seed, t0, STD_ASSUME + ["12.48in driver: per-controller reset / init / power tracking on its real traces + correspondence with Big/Model.v on the power projection (theorems: C15)"],
                      extra_viol=bv, extra_cov=dict(big_ops_judged=n))
def check_C17(tier, seed, t0):
    return wire_check('C17', tier, seed, t0, STD_ASSUME)
def check_C18(tier, seed, t0):
    bv, n = big_property_check('C18', seed, tier)
    return wire_check('C18', tier, seed, t0, STD_ASSUME + ["12.48in driver: defined commands, complete fixed-size blocks and per-sub-display resolution blocks judged on its real traces + correspondence with Big/Model.v on the command/block projection"],
                      extra_viol=bv, extra_cov=dict(big_ops_judged=n))
def check_C01(tier, seed, t0):
    bv, n = big_property_check('C01', seed, tier)
    return wire_check('C01', tier, seed, t0, STD_ASSUME + ["12.48in driver: full-frame writes judged on its real traces (each byte to the sub-display that owns it, in order, one chip selected) + correspondence with Big/Model.v on the pin/byte-stream projection (theorems: C15)"],
                      extra_viol=bv, extra_cov=dict(big_ops_judged=n))
def check_C06(tier, seed, t0):
    bv, n = big_property_check('C06', seed, tier)
    return wire_check('C06', tier, seed, t0, STD_ASSUME + ["12.48in partial writes: per-sub-display window blocks (intersection, mirrored) and window bytes judged on its real traces (seam-straddling, boundary and whole-sub-display windows; 1-row, k-row and full buffers) + correspondence with Big/Model.v (theorems: C15)",
                      "Properties/C06w.v: for epd4in2 (x < 256), epd1in02, epd2in7, epd2in7b the window theorems hold for ALL aligned in-panel windows, all buffers, every idle controller state (universally quantified x y w h), not only the alphabet's windows",
                      "Properties/C06x.v: for the partial entry points with listed findings (epd1in54, epd1in54_v2, epd2in9, epd2in13_v2, epd2in9_v2, epd2in7_v2, epd2in66b, epd5in83b_v2, epd4in2 x>=256, epd7in5b_v2, epd2in9d) the EXACT clause list chk_c06 reports and the geometry programmed are proved for ALL aligned in-panel windows, every buffer, every havoc'd controller state - the finding classes are theorems, not samples",
                      "Properties/C06h.v: the state hypotheses of C06w/C06x (ssd_havoc / idle) are checked on every state of the closed reachable sets, so the all-window statements hold after EVERY history: history and window both universally quantified"],
                      extra_files=['Properties/C06w.v', 'Properties/C06x.v', 'Properties/C06h.v'], extra_viol=bv, extra_cov=dict(big_ops_judged=n))
def check_C05(tier, seed, t0):
    bv, n = big_property_check('C05', seed, tier)
    return wire_check('C05', tier, seed, t0, STD_ASSUME + ["real time is abstracted to poll counts (virtual clock of the mocks)",
                      "12.48in driver: wait loops / per-controller busy tracking on its real traces + correspondence with Big/Model.v on the busy projection"],
                      extra_viol=bv, extra_cov=dict(big_ops_judged=n))

def check_C11(tier, seed, t0):
    bv, n = big_property_check('C11', seed, tier)
    return wire_check('C11', tier, seed, t0, STD_ASSUME + ["virtual clock: delays are the DelayNs calls the mocks record; real time is outside the model",
                                                          "12.48in reset(): pulse shape of both reset lines judged on its real traces + correspondence with Big/Model.v on the reset projection"],
                      extra_viol=bv, extra_cov=dict(big_resets_judged=n))

# ---------------------------------------------------------------------------------------------- C12
def scribble_violations(seed, tier):
    """hist histories on the REAL crate twice: buffers left intact / every buffer overwritten as soon as the call that
    borrowed it returns; compared transfer by transfer"""
    import subprocess
    from concurrent.futures import ThreadPoolExecutor
    hexe, err = corr.build_harness('v3')
    if not hexe:
        return [dict(panel='*', site='harness', clause='build-failed', no_input=True, detail=err[-800:], replay=dict(kind='build'))], 0, 0
    suite = 'hist2' if tier == 'thorough' else 'hist1'
    odir = os.path.join(vlib.WORK, 'scribble')
    os.makedirs(odir, exist_ok=True)
    def work(p):
        rng = gen.Rng(seed * 1000003 + corr.hash_name(p.name + suite))
        # histories + probe, every ordered pair of macro steps, and long chains (every op after every op)
        cases = gen.suite(p, suite, rng) + gen.suite(p, 'pair', rng) + gen.suite(p, 'chain', rng)
        # this experiment needs no model (real run vs real run), so it also takes every ordered pair of canonical calls
        # (e.g. update_new_frame twice without an old frame in between) and every ordered triple of buffer-taking calls
        # with a display call after each
        cases += [c.replace('case p', 'case sp') for c in gen.suite_pairs(p)]
        bufops = [a for a in gen.canon_ops(p) if any(':' in t for t in a[1:])]
        disp = ['display_new_frame'] if False else ['display_frame']
        k = 0
        for a in bufops:
            for b in bufops:
                for c in bufops:
                    cases.append(gen.case("st%d" % k, p, [['new'], a, disp, b, disp, c, disp]))
                    k += 1
        out = []
        for flag in (0, 1):
            path = os.path.join(odir, "%s-%d.script" % (p.name, flag))
            open(path, 'w').write('\n'.join(c.replace('scribble=0', 'scribble=%d' % flag) for c in cases) + '\n')
            r = subprocess.run([hexe, 'run', path], stdout=subprocess.PIPE, stderr=subprocess.PIPE, text=True, env=dict(corr.ENV, EPD_FEAT='v3'))
            out.append(corr.parse_out(r.stdout))
        viol = []
        nops = 0
        A, B = out
        for cid, ops in A.items():
            for k, op in enumerate(ops):
                nops += 1
                bop = B.get(cid, [])
                other = bop[k] if k < len(bop) else None
                if other is None or corr.project(op[2], 'frames') != corr.project(other[2], 'frames') or op[3] != other[3]:
                    viol.append(dict(panel=p.name, site=op[1], clause='scribble-changes-transfer',
                                     detail="call #%d of case %s transmits different bytes when earlier buffers are overwritten after their call returned" % (op[0], cid),
                                     replay=dict(kind='scribble', panel=p.name, case=cid, op_index=op[0], op=op[1],
                                                 script=vlib.case_script(dict(script=os.path.join(odir, "%s-1.script" % p.name)), cid))))
                    break
        return viol, nops, len(cases)
    viol, nops, ncases = [], 0, 0
    from panels import PANELS
    with ThreadPoolExecutor(max_workers=16) as ex:
        for v, n, c in ex.map(work, PANELS):
            viol += v
            nops += n
            ncases += c
    # the 12.48in driver (own harness): same experiment on its suites, compared bus write by bus write
    import gen_big
    cases = []
    for sname in ('basic', 'chain', 'rand'):
        cases += gen_big.suite(sname, gen.Rng(seed * 1000003 + corr.hash_name('epd12in48b_v2' + sname + 'scribble')))
    outs = []
    for flag in (0, 1):
        path = os.path.join(odir, "epd12in48b_v2-%d.script" % flag)
        open(path, 'w').write('\n'.join(c.replace('scribble=0', 'scribble=%d' % flag) for c in cases) + '\n')
        r = subprocess.run([hexe, 'run', path], stdout=subprocess.PIPE, stderr=subprocess.PIPE, text=True, env=dict(corr.ENV, EPD_FEAT='v3'))
        outs.append(corr.parse_out(r.stdout))
    def writes(ls):
        return [l for l in ls if l.split(' ')[0] in ('W', 'WX')]
    A, B = outs
    for cid, ops in A.items():
        for k, op in enumerate(ops):
            nops += 1
            bop = B.get(cid, [])
            other = bop[k] if k < len(bop) else None
            if other is None or writes(op[2]) != writes(other[2]) or op[3] != other[3]:
                viol.append(dict(panel='epd12in48b_v2', site=op[1], clause='scribble-changes-transfer',
                                 detail="call #%d of case %s transmits different bytes when earlier buffers are overwritten after their call returned" % (op[0], cid),
                                 replay=dict(kind='scribble', panel='epd12in48b_v2', case=cid, op_index=op[0], op=op[1],
                                             script=vlib.case_script(dict(script=os.path.join(odir, "epd12in48b_v2-1.script")), cid))))
                break
    ncases += len(cases)
    return viol, nops, ncases

def check_C12(tier, seed, t0):
    sv, nops, ncases = scribble_violations(seed, tier)
    WIRE['C12'] = (['frames'], None, "frames projection (contents included) of every operation, with and without scribbling")
    return wire_check('C12', tier, seed, t0, STD_ASSUME + ["a retained pointer is modelled as a reference to the earlier call's bytes; what freed memory really contains is outside the model",
                                                          "scribble runs: the harness overwrites every caller buffer as soon as the borrowing call returns (the arena keeps the allocation alive)"],
                      extra_viol=sv, extra_cov=dict(scribble_histories=ncases, scribble_ops_compared=nops),
                      corr_filter=lambda v: False)

# ---------------------------------------------------------------------------------------------- C04
def fault_oracle(run):
    """C04 on the REAL traces of the fault suites: the failing transfer is the last SPI activity of the call, the call
    returns the error (no panic), new returns Err."""
    viol, n = [], 0
    for t, cid, head, ops in iter_real(run, suites=('fault', 'faultdense')):
        for (i, name, lines, res) in ops:
            failed_at = None
            for j, l in enumerate(lines):
                if l.split(' ')[0] in ('X0', 'X1', 'Xu'):
                    failed_at = j
                    break
            if failed_at is None:
                continue
            n += 1
            clause = None
            later = [l for l in lines[failed_at + 1:] if l.split(' ')[0] in ('C', 'CL', 'Z', 'X0', 'X1', 'Xu', 'W', 'WX', 'S')]
            if res is None or not res.startswith('ERR'):
                clause = 'failure-not-returned:' + str(res).split(' ')[0]
            elif later:
                clause = 'transfer-after-failure'
            if clause:
                viol.append(dict(panel=t['panel'], site=name, clause=clause, detail="%s: %s (after the failed transfer: %s)" % (head, res, later[:2]),
                                 replay=dict(kind='trace', panel=t['panel'], feat=t['feat'], op_index=i, script=case_script(t, cid))))
    return viol, n

def recovery_oracle(run, seed):
    """after a failed call: wake_up; update_frame; display_frame must leave the controller in the same memory and power
    state as on a driver that never failed = the SAME case run without the injected fault (reference run)"""
    import subprocess
    viol, n = [], 0
    hexes, refs = {}, {}
    todo = []
    for t, cid, head, ops in iter_real(run, suites=('fault', 'faultdense')):
        if len(ops) < 4 or [o[1] for o in ops[-3:]] != ['wake_up', 'update_frame', 'display_frame']:
            continue
        if not any(l.split(' ')[0] in ('X0', 'X1', 'Xu') for o in ops[:-3] for l in o[2]):
            continue
        if ops[0][3] is None or not ops[0][3].startswith('OK'):
            continue        # the constructor failed: there is no driver to recover
        body = '\n'.join(case_script(t, cid).split('\n')[1:])
        todo.append((t, cid, head, ops, body))
    # one reference run per distinct (panel, feature set, case body)
    bykey = {}
    for (t, cid, head, ops, body) in todo:
        bykey.setdefault((t['panel'], t['feat'], body), None)
    by_feat = {}
    for k in bykey:
        by_feat.setdefault(k[1], []).append(k)
    for feat, keys in by_feat.items():
        if feat not in hexes:
            hexes[feat] = corr.build_harness(feat)[0]
        path = os.path.join(vlib.WORK, 'c04-ref-%s.script' % feat)
        with open(path, 'w') as f:
            for idx, k in enumerate(keys):
                f.write("case ref%d panel=%s delay=none busy=s: fault=none scribble=0\n%s\n" % (idx, k[0], k[2]))
        r = subprocess.run([hexes[feat], 'run', path], stdout=subprocess.PIPE, stderr=subprocess.PIPE, text=True, env=dict(corr.ENV, EPD_FEAT=feat))
        R = corr.parse_out(r.stdout)
        for idx, k in enumerate(keys):
            refs[k] = R.get('ref%d' % idx, [])
    for (t, cid, head, ops, body) in todo:
        ref = refs.get((t['panel'], t['feat'], body), [])
        n += 1
        fam = corr.BY_NAME[t['panel']].family
        def st(lines):
            # memory and power state: addressing + power/configuration commands + RAM frames with their contents
            ram = []
            for e in corr.frames_of(lines):
                if e[0] == 'F' and e[1] in corr.FAM[fam]['plane']:
                    ram += ['C %02x' % e[1]] + e[2]
            # GetStatus (0x71, UC family) is sent once per poll of a busy wait: how often depends on the busy line (the
            # world), not on what the driver remembers - it is not part of the recovered state
            def nostat(ls):
                return [l for l in ls if not (fam == 'uc' and l.strip() == 'C 71')]
            return nostat(corr.sem_project(lines, 'addr', fam)), nostat(corr.sem_project(lines, 'power', fam)), ram
        for k in range(3):
            a = ops[-3 + k]
            b = ref[len(ref) - 3 + k] if len(ref) >= 3 else None
            if b is None or st(a[2]) != st(b[2]) or a[3] != b[3]:
                fd = corr.first_diff(sum(st(a[2]), []), sum(st(b[2]), [])) if b else None
                viol.append(dict(panel=t['panel'], site=ops[-4][1] if len(ops) >= 4 else '?', clause='recovery-differs:' + a[1],
                                 detail="%s: after the failure, %s differs from the same calls on a driver that never failed: %s" % (head, a[1], fd),
                                 replay=dict(kind='trace', panel=t['panel'], feat=t['feat'], script=case_script(t, cid))))
                break
    return viol, n

def check_C04(tier, seed, t0):
    proof = proof_status(['Properties/C04.v'], clean=(tier == 'thorough'))
    suites = ['fault'] + (['faultdense'] if tier == 'thorough' else [])
    run = corr_run(suites_for(tier), seed, tier)
    v1, n1 = fault_oracle(run)
    v2, n2 = recovery_oracle(run, seed)
    bv, bn = big_property_check('C04', seed, tier)
    viol = v1 + v2 + bv
    flagged = {(v['panel'], v['site']) for v in viol}
    # failure handling differs: the op behaves like the model without faults but not under an injected fault
    plain = {(m['panel'], m['op']) for m in run['mismatches'] if m['suite'] not in ('fault', 'faultdense')}
    fault_mism = [m for m in run['mismatches'] if m['suite'] in ('fault', 'faultdense') and (m['panel'], m['op']) not in plain]
    for v in corr_violations('C04', fault_mism, ['frames']):
        viol.append(v)
    if not proof['ok']:
        viol.append(proof_violation('C04', proof))
    cov = base_coverage(run)
    cov['faulted_calls_checked'] = n1
    cov['big_faulted_calls_checked'] = bn
    cov['recovery_suffixes_checked'] = n2
    cov['distinct_nontrivial'] = n1
    cov['rule'] = ("fault suites: for every op of every panel, the k-th SPI transfer of the call (or of new) fails, for k at every command "
                   "transfer of the call, the transfer after it, both ends, the middle and every chunk-size change of every data run, the last "
                   "transfer and one beyond it - positions taken from the fault-free REAL trace of the same call (tools/vlib.py fault_plan), "
                   "plus a fixed dense list in the thorough tier; followed by wake_up; update_frame; display_frame. Compared with the "
                   "model (results + frames); on the real traces (failed command AND data transfers): the failed transfer is the last SPI "
                   "activity, the call returns Err, the recovery suffix equals that of a never-failed driver (GetStatus polls of busy waits "
                   "excluded: their number depends on the busy line). distinct_nontrivial = calls in which the injected failure was actually reached")
    return finish('C04', tier, seed, t0, proof, viol, cov,
                  ["theorems: fail-stop of Hal.expand for ALL traces and fault indices (HalProofs.expand_failstop) and the recovery theorem over every driver-field valuation the models can be left in (Proof/Recover.v)",
                   "12.48in: every bus write of every call fails in turn; on its real traces the failed write is the last bus activity and the error is returned; results and write sequences compared with Big/Model.v (theorem: C15_failstop); chip selects left asserted after a failed write are a known finding of C15 (C15_release_after_error_refuted)"])

# ---------------------------------------------------------------------------------------------- C15 (12.48in)
BIG_RECTS = {'s2': (0, 0, 648, 492), 'm2': (648, 0, 656, 492), 'm1': (0, 492, 648, 492), 's1': (648, 492, 656, 492)}
BIG_MIRROR = {'s2': True, 'm2': True, 'm1': False, 's1': False}

def big_expected_block(chip, win):
    x, y, w, h = win
    rx, ry, rw, rh = BIG_RECTS[chip]
    ix0, ix1 = max(x, rx), min(x + w, rx + rw)
    iy0, iy1 = max(y, ry), min(y + h, ry + rh)
    if ix1 <= ix0 or iy1 <= iy0:
        return [0, 0, 0xFF, 0xFF, 0, 0, 0xFF, 0xFF, 1]
    lx, ly, lw, lh = ix0 - rx, iy0 - ry, ix1 - ix0, iy1 - iy0
    sx = rw - lx - lw if BIG_MIRROR[chip] else lx
    ex, ey = sx + lw - 1, ly + lh - 1
    return [sx >> 8, sx & 255, ex >> 8, ex & 255, ly >> 8, ly & 255, ey >> 8, ey & 255, 1]

def big_gen_buf(n, kind, seed):
    out = bytearray(n)
    for i in range(n):
        if kind == 'z':
            b = 0
        elif kind == 'f':
            b = 0xff
        elif kind == 'c':
            b = seed & 0xff
        else:
            x = (i * 2654435761 + seed * 40503) & 0xffffffff
            x ^= x >> 15
            x = (x * 2246822519) & 0xffffffff
            x ^= x >> 13
            b = x & 0xff
        out[i] = b
    return bytes(out)

def big_hash(bs):
    h1 = h2 = 0
    for b in bs:
        h1 = (h1 * corr.B1 + b + 1) % corr.P1
        h2 = (h2 * corr.B2 + b + 1) % corr.P2
    return h1, h2

def big_expected_tiling(win, buf):
    """per chip: the row slices (bytes) the chip must receive, in order"""
    x, y, w, h = win
    rb = w // 8
    k = len(buf) // rb
    exp = {c: [] for c in BIG_RECTS}
    for r in range(h):
        Y = y + r
        for c, (rx, ry, rw, rh) in BIG_RECTS.items():
            if not (ry <= Y < ry + rh):
                continue
            c0, c1 = max(x // 8, rx // 8), min((x + w) // 8, (rx + rw) // 8)
            if c1 <= c0:
                continue
            j0 = c0 - x // 8
            off = (r % k) * rb + j0
            exp[c].append(buf[off: off + (c1 - c0)])
    return exp

def big_c15_project(lines):
    """what C15 is about, independent of how a byte stream is cut into transfers and of timing: for every SPI write the
    levels of all chip-select and D/C lines while it is on the bus, with consecutive data writes under unchanged levels
    concatenated (length + hash); bus reads; the levels all lines are left at."""
    pins, out = {}, []
    def snap():
        return tuple(pins.get(k) for k in ('m1_cs', 's1_cs', 'm2_cs', 's2_cs', 'm1s1_dc', 'm2s2_dc'))
    for l in lines:
        t = l.split(' ')
        if t[0] == 'N':
            pins[t[1]] = int(t[2])
            if t[1].endswith('_rst'):
                out.append(('rst', t[1], int(t[2])))
        elif t[0] in ('W', 'WX'):
            sn = snap()
            n, h1, h2 = int(t[1]), (int(t[2]) if len(t) > 2 else 0), (int(t[3]) if len(t) > 3 else 0)
            if t[0] == 'W' and out and out[-1][0] == 'W' and out[-1][1] == sn and sn[4] == 1 and sn[5] == 1:
                _, _, n0, a1, a2 = out[-1]
                out[-1] = ('W', sn, n0 + n, (a1 * pow(corr.B1, n, corr.P1) + h1) % corr.P1, (a2 * pow(corr.B2, n, corr.P2) + h2) % corr.P2)
            else:
                out.append((t[0], sn, n, h1, h2))
        elif t[0] == 'S' and t[1] != 'flush':
            out.append(('S', snap(), l))
    out.append(('end', snap()))
    return out

def big_oracle(script_text, real_text):
    """C15 clauses evaluated on the REAL traces of the 12.48in driver"""
    viol = []
    R = corr.parse_out(real_text)
    heads, opsrc = {}, {}
    cur = None
    for line in script_text.split('\n'):
        if line.startswith('case '):
            cur = line.split(' ')[1]
            heads[cur] = line
            opsrc[cur] = []
        elif cur and line and line != 'end':
            opsrc[cur].append(line.split(' '))
    nops = 0
    for cid, ops in R.items():
        pins = {}
        for (i, name, lines, res) in ops:
            nops += 1
            src = opsrc.get(cid, [])
            toks = src[i] if i < len(src) else [name]
            touched = False
            last_cmd = {}
            blocks = {}
            got = {c: [] for c in BIG_RECTS}
            def bad(clause, detail):
                viol.append(dict(panel='epd12in48b_v2', site=name, clause=clause, detail="%s: %s" % (heads.get(cid, cid), detail),
                                 replay=dict(kind='trace', panel='epd12in48b_v2', feat='v3', op_index=i,
                                             script='\n'.join([heads.get(cid, 'case x')] + [' '.join(t) for t in src] + ['end']))))
            for l in lines:
                t = l.split(' ')
                if t[0] == 'N':
                    pins[t[1]] = int(t[2])
                    touched = True
                elif t[0] in ('W', 'WX'):
                    cs = {c: pins.get(c + '_cs') for c in ('m1', 's1', 'm2', 's2')}
                    dcs = (pins.get('m1s1_dc'), pins.get('m2s2_dc'))
                    if name == 'get_status':
                        # drives one chip select and that pair's D/C by hand; the other lines keep whatever the
                        # previous call left (released, by the end-of-call clause)
                        if not any(v == 0 for v in cs.values()):
                            bad('transfer-with-no-chip-selected', l[:60])
                        continue
                    if None in cs.values() or None in dcs:
                        bad('transfer-before-lines-driven', l[:60])
                        continue
                    sel = [c for c in cs if cs[c] == 0]
                    if name != 'get_status':
                        if dcs[0] != dcs[1]:
                            bad('dc-lines-differ', l[:60])
                        if dcs[0] == 0 and int(t[1]) != 1:
                            bad('multi-byte-transfer-with-dc-low', l[:60])
                        if not sel:
                            bad('transfer-with-no-chip-selected', l[:60])
                    if t[0] == 'W' and dcs[0] == 0 and len(t) > 4:
                        for c in sel:
                            last_cmd[c] = int(t[4][:2], 16)
                    elif t[0] == 'W' and dcs[0] == 1:
                        if name.startswith('write_data') and all(last_cmd.get(c) in (0x10, 0x13) for c in sel) and len(sel) != 1:
                            bad('pixel-data-to-several-chips', "%s selected=%s" % (l[:40], sel))
                        if name.startswith('write_data') and len(sel) == 1 and last_cmd.get(sel[0]) in (0x10, 0x13):
                            got[sel[0]].append((int(t[1]), int(t[2]), int(t[3])))
                        for c in sel:
                            if last_cmd.get(c) == 0x90 and len(t) > 4:
                                blocks[c] = [int(t[4][k:k + 2], 16) for k in range(0, len(t[4]), 2)]
            okres = res is not None and res.startswith('OK')
            if touched and name != 'new':
                released = all(pins.get(c + '_cs') == 1 for c in ('m1', 's1', 'm2', 's2')) and pins.get('m1s1_dc') == 0 and pins.get('m2s2_dc') == 0
                if not released:
                    if okres:
                        bad('lines-not-released', str({k: v for k, v in pins.items() if 'rst' not in k}))
                    elif res is not None and res.startswith('ERR'):
                        bad('lines-not-released-after-error', str({k: v for k, v in pins.items() if 'rst' not in k}))
            if okres and name in ('write_data1', 'write_data2', 'write_data1_partial', 'write_data2_partial'):
                try:
                    n, kind, sd = toks[1].split(':')
                    wn = tuple(int(v) for v in toks[-4:]) if name.endswith('partial') else (0, 0, 1304, 984)
                except ValueError:
                    wn = None
                if wn and wn[0] % 8 == 0 and wn[2] % 8 == 0 and wn[2] > 0 and wn[3] > 0 and wn[0] + wn[2] <= 1304 and wn[1] + wn[3] <= 984 \
                        and int(n) > 0 and int(n) % (wn[2] // 8) == 0:
                    exp = big_expected_tiling(wn, big_gen_buf(int(n), kind, int(sd)))
                    def cat(parts):
                        # (length, hash) of the concatenation: how the stream is cut into transfers is C10's business, not C15's
                        n0, a1, a2 = 0, 0, 0
                        for (n1, h1, h2) in parts:
                            a1 = (a1 * pow(corr.B1, n1, corr.P1) + h1) % corr.P1
                            a2 = (a2 * pow(corr.B2, n1, corr.P2) + h2) % corr.P2
                            n0 += n1
                        return (n0, a1, a2)
                    for c in ('s2', 'm2', 'm1', 's1'):
                        want = [(len(b),) + big_hash(b) for b in exp[c]]
                        if cat(got[c]) != cat(want):
                            # locate the first differing row when the driver writes row by row (as the unmodified one does)
                            k = next((j for j, (a, b) in enumerate(zip(got[c], want)) if a != b), min(len(got[c]), len(want)))
                            bad('tiling', "chip %s window %s buffer %s: the %d bytes sent differ from the %d window bytes this chip owns, in order (first differing write: #%d of %d)" % (
                                c, wn, toks[1], cat(got[c])[0], cat(want)[0], k, len(got[c])))
                            break
            if okres and name in ('write_data1_partial', 'write_data2_partial', 'refresh_display_partial', 'begin_refresh_display_partial'):
                try:
                    wn = tuple(int(v) for v in toks[-4:])
                except ValueError:
                    wn = None
                if wn and wn[0] % 8 == 0 and wn[2] % 8 == 0 and wn[2] > 0 and wn[3] > 0 and wn[0] + wn[2] <= 1304 and wn[1] + wn[3] <= 984:
                    for c in ('s2', 'm2', 'm1', 's1'):
                        exp = big_expected_block(c, wn)
                        if blocks.get(c) != exp:
                            bad('partial-window-block', "chip %s window %s: sent %s, intersection needs %s" % (c, wn, blocks.get(c), exp))
    return viol, nops

# ---- the 12.48in driver under C05 / C09 (it is not one of the 27 trait drivers: its own harness, model and oracles)
BIG_CHIPS = ('m1', 's1', 'm2', 's2')

def big_events(lines):
    """trace lines of one op -> events with the chip selection resolved:
       ('cmd', chips, byte) ('data', chips, n) ('poll', chip, busy) ('sleep200',) ('rst', pair, level) ('other', line)"""
    pins = {}
    ev = []
    for l in lines:
        t = l.split(' ')
        if t[0] == 'N':
            pins[t[1]] = int(t[2])
            if t[1].endswith('_rst'):
                ev.append(('rst', t[1][:4], int(t[2])))
        elif t[0] == 'W':
            sel = tuple(c for c in BIG_CHIPS if pins.get(c + '_cs') == 0)
            if pins.get('m1s1_dc') == 0 and int(t[1]) == 1 and len(t) > 4:
                ev.append(('cmd', sel, int(t[4][:2], 16)))
            else:
                ev.append(('data', sel, int(t[1])))
        elif t[0] == 'PN':
            ev.append(('poll', t[1][:2], t[3] == '1'))
        elif t[0] == 'T' and t[1] == 'm' and t[2] == '200':
            ev.append(('sleep200',))
        else:
            ev.append(('other', l))
    return ev

def big_project(lines, kind):
    out = []
    for e in big_events(lines):
        if kind == 'busy':
            if e[0] in ('poll', 'sleep200'):
                out.append(e)
            elif e[0] == 'cmd' and e[2] in (0x02, 0x04, 0x12, 0x10, 0x13):
                out.append(e)
        elif kind == 'power':
            if e[0] == 'rst' or e[0] == 'cmd':
                out.append(e)
    return out

def big_frame_project(lines):
    """framing of the 12.48in bus traffic: (D/C level of the selected chips, transfer length) per SPI write"""
    pins, out = {}, []
    for l in lines:
        t = l.split(' ')
        if t[0] == 'N':
            pins[t[1]] = int(t[2])
        elif t[0] in ('W', 'WX'):
            need = {('m1s1_dc' if c in ('m1', 's1') else 'm2s2_dc') for c in BIG_CHIPS if pins.get(c + '_cs') == 0}
            out.append((tuple(pins.get(d) for d in sorted(need)), t[0], int(t[1])))
    return out

def big_frame_oracle(script_text, real_text):
    """C10 on the REAL traces of the 12.48in driver (it drives bus, chip selects and D/C lines itself): a transfer with
    the D/C lines low is one byte, both D/C lines were driven before the transfer they qualify and agree, no transfer
    exceeds 4096 bytes."""
    viol, nops = [], 0
    R = corr.parse_out(real_text)
    heads = {}
    for line in script_text.split('\n'):
        if line.startswith('case '):
            heads[line.split(' ')[1]] = line
    for cid, ops in R.items():
        pins = {}
        cidk = cid.split(' ')[0]
        for (i, name, lines, res) in ops:
            nops += 1
            clause = None
            for l in lines:
                t = l.split(' ')
                if t[0] == 'N':
                    pins[t[1]] = int(t[2])
                elif t[0] in ('W', 'WX'):
                    n = int(t[1])
                    # the D/C line(s) of the chips the transfer is addressed to (chip select low)
                    need = {('m1s1_dc' if c in ('m1', 's1') else 'm2s2_dc') for c in BIG_CHIPS if pins.get(c + '_cs') == 0}
                    lv = [pins.get(d) for d in sorted(need)]
                    a = lv[0] if lv else None
                    if not lv:
                        pass            # addressed to no chip: nothing is qualified (chip-select discipline: C15)
                    elif any(x is None for x in lv):
                        clause = 'dc-not-driven-before-transfer'
                    elif len(set(lv)) > 1:
                        clause = 'dc-lines-disagree'
                    elif a == 0 and n != 1:
                        clause = 'command-transfer-of-%d-bytes' % n
                    elif n > 4096:
                        clause = 'transfer-of-%d-bytes' % n
                    if clause:
                        break
            if res is not None and (res.startswith('PANIC') or res.startswith('ERR')):
                break       # the call died or failed half-way: lines are left as they were (C15's clause); later calls are not judged
            if clause:
                viol.append(dict(panel='epd12in48b_v2', site=name, clause=clause,
                                 detail="%s: call #%d %s: %s" % (heads.get(cidk, cid), i, name, clause),
                                 replay=dict(kind='trace', panel='epd12in48b_v2', feat='v3', op_index=i,
                                             script=case_script_text(script_text, cidk))))
    return viol, nops

def case_script_text(script_text, cid):
    out, on = [], False
    for line in script_text.split('\n'):
        if line.startswith('case '):
            on = line.split(' ')[1] == cid
        if on:
            out.append(line)
            if line.strip() == 'end':
                break
    return '\n'.join(out)

def big_state_oracle(script_text, real_text):
    """C05 / C09 clauses evaluated on the REAL traces of the 12.48in driver, per controller:
       C05: a wait loop ends only on a round in which every polled chip read idle (the begin_* calls are documented as
            non-blocking, so traffic after them is the caller's responsibility and is not judged);
       C09: every refresh trigger reaches a chip that was initialised (resolution programmed) since its last reset and
            powered on since its last reset / power-off / deep sleep."""
    v5, v9 = [], []
    R = corr.parse_out(real_text)
    heads, opsrc = {}, {}
    cur = None
    for line in script_text.split('\n'):
        if line.startswith('case '):
            cur = line.split(' ')[1]; heads[cur] = line; opsrc[cur] = []
        elif cur and line and line != 'end':
            opsrc[cur].append(line)
    nops = 0
    for cid, ops in R.items():
        busy = {c: False for c in BIG_CHIPS}
        inited = {c: False for c in BIG_CHIPS}
        powered = {c: False for c in BIG_CHIPS}
        api_init = False      # the caller followed the documented protocol: init since the last reset / hibernate
        for (i, name, lines, res) in ops:
            nops += 1
            if name in ('reset', 'hibernate'):
                api_init = False
            elif name == 'init' and res is not None and res.startswith('OK'):
                api_init = True
            def bad(lst, clause, detail):
                lst.append(dict(panel='epd12in48b_v2', site=name, clause=clause, detail="%s: %s" % (heads.get(cid, cid), detail),
                                replay=dict(kind='trace', panel='epd12in48b_v2', feat='v3', op_index=i,
                                            script='\n'.join([heads.get(cid, 'case x')] + opsrc.get(cid, []) + ['end']))))
            ev = big_events(lines)
            k = 0
            while k < len(ev):
                e = ev[k]
                if e[0] == 'rst' and e[2] == 0:
                    for c in (('m1', 's1') if e[1] == 'm1s1' else ('m2', 's2')):
                        inited[c] = powered[c] = busy[c] = False
                elif e[0] == 'poll':
                    # one round of polls
                    rnd = []
                    while k < len(ev) and ev[k][0] == 'poll':
                        rnd.append(ev[k]); busy[ev[k][1]] = ev[k][2]; k += 1
                    anybusy = any(b for (_, c, b) in rnd)
                    nxt = ev[k] if k < len(ev) else None
                    if anybusy and name not in ('get_busy', 'is_busy') and not (nxt and nxt[0] == 'sleep200'):
                        bad(v5, 'wait-returns-while-busy', "chips %s read busy in the last poll round of a wait" % [c for (_, c, b) in rnd if b])
                    continue
                elif e[0] == 'cmd':
                    sel, c0 = e[1], e[2]
                    for c in sel:
                        if c0 == 0x61:
                            inited[c] = True
                        elif c0 == 0x04:
                            powered[c] = True
                        elif c0 in (0x02, 0x07):
                            powered[c] = False
                        elif c0 == 0x12 and api_init:
                            if not powered[c]:
                                bad(v9, 'refresh-unpowered', "chip %s" % c)
                            if not inited[c]:
                                bad(v9, 'refresh-uninitialised', "chip %s" % c)
                k += 1
            if res is None or not res.startswith('OK'):
                break
    return v5, v9, nops

def big_fault_oracle(script_text, real_text):
    """C04 on the REAL traces of the 12.48in driver: the failed bus write is the last SPI activity of the call and the
    call returns the error (what the lines are left at after an error is C15's clause / known finding)."""
    viol, n = [], 0
    R = corr.parse_out(real_text)
    for cid, ops in R.items():
        cidk = cid.split(' ')[0]
        for (i, name, lines, res) in ops:
            fa = next((j for j, l in enumerate(lines) if l.split(' ')[0] == 'WX'), None)
            if fa is None:
                continue
            n += 1
            later = [l[:40] for l in lines[fa + 1:] if l.split(' ')[0] in ('W', 'WX') or (l.startswith('S ') and not l.startswith('S flush'))]
            clause = None
            if res is None or not res.startswith('ERR'):
                clause = 'failure-not-returned:' + str(res).split(' ')[0]
            elif later:
                clause = 'transfer-after-failure'
            if clause:
                viol.append(dict(panel='epd12in48b_v2', site=name, clause=clause,
                                 detail="%s call #%d %s: %s (after the failed write: %s)" % (cidk, i, name, res, later[:2]),
                                 replay=dict(kind='trace', panel='epd12in48b_v2', feat='v3', op_index=i, script=case_script_text(script_text, cidk))))
    return viol, n

def big_reset_oracle(script_text, real_text):
    """C11 on the REAL traces of the 12.48in driver's reset(): each reset line goes high, low for a non-zero time the
    driver waits out, high again, then a non-zero settling time; no SPI traffic in the call (so none while a line is
    low); both lines are left high."""
    viol, n = [], 0
    R = corr.parse_out(real_text)
    for cid, ops in R.items():
        cidk = cid.split(' ')[0]
        for (i, name, lines, res) in ops:
            if name != 'reset' or res is None or not res.startswith('OK'):
                continue
            n += 1
            clause = None
            st = {}
            for l in lines:
                t = l.split(' ')
                if t[0] == 'N' and t[1].endswith('_rst'):
                    q = st.setdefault(t[1], dict(seq=[], wait=0))
                    q['seq'].append([int(t[2]), 0])
                elif t[0] == 'T':
                    mult = {'n': 1, 'u': 1000, 'm': 1000000}[t[1]]
                    for q in st.values():
                        if q['seq']:
                            q['seq'][-1][1] += int(t[2]) * mult
                elif t[0] in ('W', 'WX') or (t[0] == 'S' and t[1] != 'flush'):
                    clause = 'spi-traffic-during-reset'
            for ln in ('m1s1_rst', 'm2s2_rst'):
                seq = st.get(ln, {}).get('seq', [])
                lv = [a for a, _ in seq]
                if lv[-3:] != [1, 0, 1] :
                    clause = clause or 'no-reset-pulse:' + ln
                elif seq[-2][1] <= 0:
                    clause = clause or 'reset-low-not-waited-out:' + ln
                elif seq[-1][1] <= 0:
                    clause = clause or 'no-settling-time:' + ln
            if clause:
                viol.append(dict(panel='epd12in48b_v2', site=name, clause=clause, detail="%s call #%d reset: %s" % (cidk, i, clause),
                                 replay=dict(kind='trace', panel='epd12in48b_v2', feat='v3', op_index=i, script=case_script_text(script_text, cidk))))
    return viol, n

def big_rst_project(lines):
    out = []
    for l in lines:
        t = l.split(' ')
        if (t[0] == 'N' and t[1].endswith('_rst')) or t[0] == 'T':
            out.append(l)
        elif t[0] in ('W', 'WX'):
            out.append('W')
    return out

BIG_FULL_OPS = ('write_data1', 'write_data2', 'refresh_display', 'begin_refresh_display')
BIG_PART_OPS = ('write_data1_partial', 'write_data2_partial', 'refresh_display_partial', 'begin_refresh_display_partial')

BIG_DEFINED_CMDS = {0x00, 0x01, 0x02, 0x04, 0x06, 0x07, 0x10, 0x12, 0x13, 0x15, 0x20, 0x21, 0x22, 0x23, 0x24, 0x25, 0x2B, 0x30, 0x40, 0x41,
                    0x50, 0x60, 0x61, 0x65, 0x71, 0x82, 0x90, 0x91, 0x92, 0xE0, 0xE3, 0xE5}
BIG_BLOCK_LEN = {0x61: (4,), 0x90: (9,), 0x07: (1,), 0x50: (2,), 0x60: (1,), 0x65: (4,), 0x00: (1, 2), 0x01: (4, 5), 0x06: (3, 4), 0x15: (1,), 0x30: (1,),
                 0x82: (1,), 0xE0: (1,), 0xE3: (1,), 0xE5: (1,)}

def big_cmd_runs(lines):
    """-> [(selected chips, cmd, data bytes or None when long, data length)] for one call"""
    pins, out = {}, []
    for l in lines:
        t = l.split(' ')
        if t[0] == 'N':
            pins[t[1]] = int(t[2])
        elif t[0] == 'W':
            sel = tuple(c for c in BIG_CHIPS if pins.get(c + '_cs') == 0)
            need = {('m1s1_dc' if c in ('m1', 's1') else 'm2s2_dc') for c in sel}
            low = bool(need) and all(pins.get(d) == 0 for d in need)
            n = int(t[1])
            hx = t[4] if len(t) > 4 else None
            if low and n == 1 and hx:
                out.append([sel, int(hx[:2], 16), [], 0])
            elif out and out[-1][0] == sel:
                out[-1][3] += n
                if hx is not None and out[-1][2] is not None and len(out[-1][2]) + n <= 32:
                    out[-1][2] += [int(hx[k:k + 2], 16) for k in range(0, len(hx), 2)]
                else:
                    out[-1][2] = None
    return [tuple(o) for o in out]

def big_cmdlen_project(lines):
    return [(sel, c, (tuple(d) if d is not None and c in BIG_BLOCK_LEN else None), n) for (sel, c, d, n) in big_cmd_runs(lines)]

def big_conformance_oracle(script_text, real_text):
    """C18 on the REAL traces of the 12.48in driver: every command byte is one the controller family defines, fixed-size
    blocks are complete, and a resolution block describes exactly the sub-display(s) it is sent to."""
    viol, nops = [], 0
    R = corr.parse_out(real_text)
    for cid, ops in R.items():
        cidk = cid.split(' ')[0]
        for (i, name, lines, res) in ops:
            nops += 1
            if res is None or not res.startswith('OK'):
                continue
            clause = None
            for (sel, c, d, n) in big_cmd_runs(lines):
                if c not in BIG_DEFINED_CMDS:
                    clause = 'undefined-command cmd=%02x' % c
                elif c in BIG_BLOCK_LEN and n not in BIG_BLOCK_LEN[c]:
                    clause = 'block-length cmd=%02x got=%d' % (c, n)
                elif c == 0x61 and d is not None and len(d) == 4:
                    for chip in sel:
                        rx, ry, rw, rh = BIG_RECTS[chip]
                        if d != [rw >> 8, rw & 0xFF, rh >> 8, rh & 0xFF]:
                            clause = 'geometry-register cmd=61 chip=%s got=%s' % (chip, d)
                if clause:
                    break
            if clause:
                viol.append(dict(panel='epd12in48b_v2', site=name, clause=clause, detail="%s call #%d %s: %s" % (cidk, i, name, clause),
                                 replay=dict(kind='trace', panel='epd12in48b_v2', feat='v3', op_index=i, script=case_script_text(script_text, cidk))))
    return viol, nops

def big_partial_oracle(script_text, real_text):
    """C01/C02 on the REAL traces of the 12.48in driver: a full-frame write (write_data1 / write_data2) must not reach a
    sub-display controller that an earlier call left in partial-window mode (PartialIn 0x91 without PartialOut 0x92 or
    reset since): the frame would be confined to the leftover window."""
    viol, nops = [], 0
    R = corr.parse_out(real_text)
    for cid, ops in R.items():
        cidk = cid.split(' ')[0]
        part = {c: False for c in BIG_CHIPS}
        for (i, name, lines, res) in ops:
            nops += 1
            clause = None
            for e in big_events(lines):
                if e[0] == 'rst' and e[2] == 0:
                    for c in (('m1', 's1') if e[1].startswith('m1') else ('m2', 's2')):
                        part[c] = False
                elif e[0] == 'cmd':
                    for c in e[1]:
                        if e[2] == 0x91:
                            part[c] = True
                        elif e[2] == 0x92:
                            part[c] = False
                        elif e[2] in (0x10, 0x13) and name in ('write_data1', 'write_data2') and part[c] and clause is None:
                            clause = 'full-frame-write-in-partial-mode chip=%s' % c
            if res is not None and (res.startswith('PANIC') or res.startswith('ERR')):
                break       # a call that died or failed half-way leaves the controllers wherever it stopped: what follows without a reset is not judged
            if clause:
                viol.append(dict(panel='epd12in48b_v2', site=name, clause=clause, detail="%s call #%d %s: %s" % (cidk, i, name, clause),
                                 replay=dict(kind='trace', panel='epd12in48b_v2', feat='v3', op_index=i, script=case_script_text(script_text, cidk))))
    return viol, nops

def big_addr_project(lines):
    """the commands that decide where later data lands: partial in / out / window, resolution (with the chips they reach)"""
    return [(sel, c, (tuple(d) if d is not None else None), n) for (sel, c, d, n) in big_cmd_runs(lines) if c in (0x90, 0x91, 0x92, 0x61)]

def big_recovery_oracle(script_text, real_text, hexe):
    """C04 (recovery) on the 12.48in driver: after a failed call, reset; init; write_data1; refresh_display put the same
    bytes on the bus under the same chip-select / D/C levels as the same calls on a driver that never failed (the same
    case run without the injected fault)."""
    import subprocess
    viol, n = [], 0
    R = corr.parse_out(real_text)
    todo = []
    for cid, ops in R.items():
        cidk = cid.split(' ')[0]
        if len(ops) < 5 or [o[1] for o in ops[-4:]] != ['reset', 'init', 'write_data1', 'refresh_display']:
            continue
        if not any(l.split(' ')[0] == 'WX' for o in ops[:-4] for l in o[2]):
            continue
        todo.append((cidk, ops))
    if not todo:
        return viol, 0
    path = os.path.join(vlib.WORK, 'bigc04-ref.script')
    with open(path, 'w') as f:
        for (cidk, ops) in todo:
            txt = case_script_text(script_text, cidk).split('\n')
            head = ' '.join(('fault=none' if t.startswith('fault=') else t) for t in txt[0].split(' '))
            f.write('\n'.join([head] + txt[1:]) + '\n')
    r = subprocess.run([hexe, 'run', path], stdout=subprocess.PIPE, stderr=subprocess.PIPE, text=True, env=dict(corr.ENV, EPD_FEAT='v3'))
    ref = {k.split(' ')[0]: v for k, v in corr.parse_out(r.stdout).items()}
    for (cidk, ops) in todo:
        rops = ref.get(cidk)
        if not rops or len(rops) != len(ops):
            continue
        n += 1
        for k in range(4):
            a, b = ops[-4 + k], rops[-4 + k]
            if big_c15_project(a[2]) != big_c15_project(b[2]) or a[3] != b[3]:
                viol.append(dict(panel='epd12in48b_v2', site=next((o[1] for o in ops[:-4] if any(l.split(' ')[0] == 'WX' for l in o[2])), '?'),
                                 clause='recovery-differs:' + a[1],
                                 detail="%s: after the failure, %s differs (bytes / chip-select / D/C levels) from the same call on a driver that never failed" % (cidk, a[1]),
                                 replay=dict(kind='trace', panel='epd12in48b_v2', feat='v3', script=case_script_text(script_text, cidk))))
                break
    return viol, n

def big_sleep_oracle(script_text, real_text):
    """C08 on the REAL traces of the 12.48in driver: hibernate() ends with the deep-sleep command and its check code sent
    to all four controllers, and nothing follows it in the call."""
    viol, n = [], 0
    R = corr.parse_out(real_text)
    for cid, ops in R.items():
        cidk = cid.split(' ')[0]
        for (i, name, lines, res) in ops:
            if res is not None and (res.startswith('PANIC') or res.startswith('ERR')):
                break
            if name != 'hibernate' or res is None or not res.startswith('OK'):
                continue
            n += 1
            runs = big_cmd_runs(lines)
            clause = None
            if not runs or runs[-1][1] != 0x07:
                clause = 'deep-sleep-not-last'
            elif set(runs[-1][0]) != set(BIG_CHIPS):
                clause = 'deep-sleep-not-sent-to-all-controllers'
            elif runs[-1][2] != [0xA5]:
                clause = 'deep-sleep-check-code'
            if clause:
                viol.append(dict(panel='epd12in48b_v2', site=name, clause=clause, detail="%s call #%d hibernate: %s" % (cidk, i, clause),
                                 replay=dict(kind='trace', panel='epd12in48b_v2', feat='v3', op_index=i, script=case_script_text(script_text, cidk))))
    return viol, n

def big_property_check(prop, seed, tier):
    """correspondence of the 12.48in driver on the property's projection + the state oracle -> violations, stats"""
    import subprocess, glob as _g
    from panels import BIG
    kind = {'C05': 'busy', 'C09': 'power', 'C10': 'frame', 'C01': 'full', 'C06': 'part', 'C04': 'fault', 'C11': 'rst', 'C02': 'full', 'C18': 'cmdlen', 'C08': 'sleep'}[prop]
    viol = []
    hexe, err = corr.build_harness('v3')
    mexe, log = corr.build_model()
    if not hexe or not mexe:
        return [dict(panel='epd12in48b_v2', site='build', clause='build-failed', no_input=True, detail=(err + log)[-800:], replay=dict(kind='build'))], 0
    suites = ['basic', 'chain', 'env', 'rand']
    if prop == 'C04':
        suites = ['fault'] + (['faultdense'] if tier == 'thorough' else [])
    elif prop in ('C01', 'C02', 'C06', 'C11', 'C18'):
        suites = ['basic', 'chain', 'rand']
    elif prop == 'C08':
        suites = ['basic', 'chain', 'rand', 'fault']
    tag = 'big' + prop.lower()
    total, mism, counts, errs = corr.run_suites([BIG], 'v3', suites, seed, hexe, mexe, tag=tag)
    nor = 0
    for sp in sorted(_g.glob(os.path.join(vlib.WORK, '%s-epd12in48b_v2-v3-*.script' % tag))):
        r = subprocess.run([hexe, 'run', sp], stdout=subprocess.PIPE, stderr=subprocess.PIPE, text=True, env=dict(corr.ENV, EPD_FEAT='v3'))
        if prop == 'C10':
            vf, n = big_frame_oracle(open(sp).read(), r.stdout)
            viol += vf
        elif prop == 'C04':
            vf, n = big_fault_oracle(open(sp).read(), r.stdout)
            viol += vf
            vr, _n = big_recovery_oracle(open(sp).read(), r.stdout, hexe)
            viol += vr
        elif prop == 'C11':
            vf, n = big_reset_oracle(open(sp).read(), r.stdout)
            viol += vf
        elif prop == 'C18':
            vf, n = big_conformance_oracle(open(sp).read(), r.stdout)
            viol += vf
        elif prop == 'C08':
            vf, n = big_sleep_oracle(open(sp).read(), r.stdout)
            viol += vf
        elif prop in ('C01', 'C02', 'C06'):
            vall, n = big_oracle(open(sp).read(), r.stdout)
            opsel = BIG_PART_OPS if prop == 'C06' else BIG_FULL_OPS
            if prop in ('C01', 'C02'):
                vp_, _n = big_partial_oracle(open(sp).read(), r.stdout)
                viol += vp_
            viol += [v for v in vall if v['site'] in opsel and v['clause'] in ('tiling', 'partial-window-block', 'pixel-data-to-several-chips')]
        else:
            v5, v9, n = big_state_oracle(open(sp).read(), r.stdout)
            viol += v5 if prop == 'C05' else v9
        nor += n
    flagged = {v['site'] for v in viol}
    for m in mism:
        if kind == 'frame':
            differs = big_frame_project(m.real) != big_frame_project(m.model) and m.opname not in flagged
        elif kind in ('full', 'part'):
            differs = m.opname in (BIG_FULL_OPS if kind == 'full' else BIG_PART_OPS) and m.opname not in flagged and \
                      (big_c15_project(m.real) != big_c15_project(m.model) or m.rres != m.mres)
            if kind == 'full' and not flagged and big_addr_project(m.real) != big_addr_project(m.model):
                differs = True      # a call leaves the partial / window / resolution state differently: decides where a later full frame lands
        elif kind == 'fault':
            differs = m.opname not in flagged and (m.rres != m.mres or big_c15_project(m.real) != big_c15_project(m.model))
        elif kind == 'sleep':
            # sleep = hibernate, wake-up = reset + init: which controller receives which command with which parameters
            differs = m.opname in ('hibernate', 'reset', 'init') and m.opname not in flagged and \
                      (big_cmdlen_project(m.real) != big_cmdlen_project(m.model) or big_rst_project(m.real) != big_rst_project(m.model))
        elif kind == 'cmdlen':
            differs = m.opname not in flagged and big_cmdlen_project(m.real) != big_cmdlen_project(m.model)
        elif kind == 'rst':
            differs = m.opname == 'reset' and m.opname not in flagged and big_rst_project(m.real) != big_rst_project(m.model)
        else:
            differs = big_project(m.real, kind) != big_project(m.model, kind)
        if differs:
            viol.append(dict(panel='epd12in48b_v2', site=m.opname, clause='correspondence-' + kind, no_input=True,
                             detail="12.48in model and implementation differ on the %s projection (real %s, model %s)" % (kind, m.rres, m.mres),
                             replay=dict(kind='correspondence', panel='epd12in48b_v2', case=m.cid, op_index=m.opidx, op=m.opname, script=m.script)))
    viol.sort(key=lambda v: 1 if v.get('no_input') else 0)
    return viol, nor

def check_C15(tier, seed, t0):
    import subprocess
    from panels import BIG
    proof = proof_status(['Properties/C15.v'], clean=(tier == 'thorough'))
    viol = []
    cov = dict(evaluations=0, correspondence_mismatches=0, input_distribution={}, samples=[], harness_or_model_errors=[])
    hexe, err = corr.build_harness('v3')
    mexe, log = corr.build_model()
    if not hexe or not mexe:
        viol.append(dict(panel='epd12in48b_v2', site='build', clause='build-failed', no_input=True, detail=(err + log)[-1200:], replay=dict(kind='build')))
    else:
        suites = ['basic', 'chain', 'env', 'fault', 'rand'] + (['pairs', 'faultdense'] if tier == 'thorough' else [])
        total, mism, counts, errs = corr.run_suites([BIG], 'v3', suites, seed, hexe, mexe, tag='c15')
        cov['evaluations'] = total
        cov['correspondence_mismatches'] = len(mism)
        cov['input_distribution'] = {"%s" % s: dict(cases=c[0], ops=c[1]) for (pn, s), c in counts.items()}
        cov['harness_or_model_errors'] = errs[:5]
        norc = 0
        import glob as _g
        for sp in sorted(_g.glob(os.path.join(vlib.WORK, 'c15-epd12in48b_v2-v3-*.script'))):
            txt = open(sp).read()
            r = subprocess.run([hexe, 'run', sp], stdout=subprocess.PIPE, stderr=subprocess.PIPE, text=True, env=dict(corr.ENV, EPD_FEAT='v3'))
            v, n = big_oracle(txt, r.stdout)
            viol += v
            norc += n
            if not cov['samples']:
                cov['samples'] = [txt.split('\nend\n')[0][:300]]
        cov['oracle_ops_scanned'] = norc
        flagged = {v['site'] for v in viol}
        for m in mism:
            if big_c15_project(m.real) == big_c15_project(m.model) and m.rres == m.mres:
                continue        # differs only in timing / in how a stream is cut into transfers: C05 / C10, not C15
            viol.append(dict(panel='epd12in48b_v2', site=m.opname, clause='correspondence-wire', no_input=True,
                             detail="model and implementation differ (real %s, model %s); first differing line: %s" % (m.rres, m.mres, corr.first_diff(m.real, m.model)),
                             replay=dict(kind='correspondence', panel='epd12in48b_v2', case=m.cid, op_index=m.opidx, op=m.opname, script=m.script)))
        for e in errs[:3]:
            viol.append(dict(panel='epd12in48b_v2', site='harness', clause='run-error', no_input=True, detail=e[:500], replay=dict(kind='error')))
    if not proof['ok']:
        viol.append(proof_violation('C15', proof))
    cov['traces_validated_against_impl'] = cov['evaluations']
    cov['distinct_nontrivial'] = cov['evaluations']
    cov['rule'] = ("every op of every generated 12.48in script (all 16+ mode configurations, full frames of 1..984 rows, good/bad/seam-straddling windows with 1-row, k-row and "
                   "full buffers, LUT uploads, refresh/power ops, busy streams on the four inputs, write faults at every command and sampled data writes) run on the real "
                   "driver (recording SpiBus + 8 output pins + 4 inputs) and on the extracted model, compared event by event; the pin/selection/window-block clauses are also "
                   "evaluated directly on the real traces")
    return finish('C15', tier, seed, t0, proof, viol, cov,
                  ["theorems are about Big/Model.v (transcription of src/epd12in48b_v2/mod.rs) for ALL aligned windows inside the panel, all row counts, all entry control states; tie = event-level correspondence",
                   "sub-display rectangles and the mirrored X scan of the upper pair are taken from the driver's own constants (vendor-derived), not from a datasheet"])

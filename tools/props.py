"""Per-property checks: proof status + correspondence on the property's projection + oracle on the
implementation's real traces."""
import os, sys, json, time
import vlib, corr
from vlib import proof_status, corr_run, iter_real, case_script, finish, proof_violation, corr_violations

QUICK_SUITES = ['basic', 'chain', 'env', 'fault', 'rand', 'chunk']
THOROUGH_SUITES = QUICK_SUITES + ['pairs', 'faultdense']

def suites_for(tier):
    return THOROUGH_SUITES if tier == 'thorough' else QUICK_SUITES

def dist(run):
    """input distribution of a correspondence run"""
    d = {}
    for t in run['tasks']:
        k = t['suite']
        e = d.setdefault(k, dict(cases=0, ops=0))
        e['cases'] += t['cases']
        e['ops'] += t.get('ops', 0)
    return d

def sample_cases(run, n=3):
    out = []
    for t in run['tasks'][:: max(1, len(run['tasks']) // n)][:n]:
        txt = open(t['script']).read().split('\nend\n')[0]
        out.append(txt[:400])
    return out

def base_coverage(run):
    return dict(evaluations=sum(t.get('ops', 0) for t in run['tasks']),
                traces_validated_against_impl=sum(t.get('ops', 0) for t in run['tasks']),
                correspondence_mismatches=len(run['mismatches']),
                input_distribution=dist(run), samples=sample_cases(run),
                harness_or_model_errors=run['errors'][:5])

def replay(prop, path):
    v = json.load(open(path))
    print(json.dumps(v, indent=1)[:4000])
    r = v.get('replay', {})
    if 'script' in r:
        os.makedirs(vlib.WORK, exist_ok=True)
        sp = os.path.join(vlib.WORK, 'replay.script')
        open(sp, 'w').write(r['script'] + '\n')
        feat = r.get('feat', 'v3')
        hexe, err = corr.build_harness(feat)
        mexe, log = corr.build_model()
        if hexe and mexe:
            rt, mt, _, _ = corr.run_both(hexe, mexe, feat, sp)
            print("---- implementation\n" + rt[:6000])
            print("---- model\n" + mt[:6000])
    return 0

# ---------------------------------------------------------------------------------------------- C10
def oracle_c10(run):
    viol = []
    n = 0
    for t, cid, head, ops in iter_real(run):
        for (i, name, lines, res) in ops:
            n += 1
            for l in lines:
                tok = l.split(' ')
                clause = None
                if tok[0] == 'CL':
                    clause = 'multi-byte-transfer-with-dc-low'
                elif tok[0] == 'U' or tok[0] == 'Xu':
                    clause = 'transfer-before-dc-driven'
                elif tok[0] == 'S':
                    clause = 'non-write-spi-operation'
                elif tok[0] == 'Z':
                    for part in tok[4].split(','):
                        size = int(part.lstrip('d').split('*')[0])
                        if size > 4096:
                            clause = 'transfer-larger-than-4096'
                        if size == 0:
                            clause = 'empty-transfer'
                if clause:
                    viol.append(dict(panel=t['panel'], site=name, clause=clause, detail=l[:200],
                                     replay=dict(kind='trace', panel=t['panel'], feat=t['feat'], op_index=i,
                                                 line=l[:300], script=case_script(t, cid))))
    return viol, n

def check_C10(tier, seed, t0):
    proof = proof_status(['Properties/C10.v'], clean=(tier == 'thorough'))
    run = corr_run(suites_for(tier), seed, tier)
    viol, n = oracle_c10(run)
    flagged = {(v['panel'], v['site']) for v in viol}
    for v in corr_violations('C10', run['mismatches'], ['wire', 'frames']):
        if (v['panel'], v['site']) not in flagged:
            viol.append(v)
    if not proof['ok']:
        viol.append(proof_violation('C10', proof))
    cov = base_coverage(run)
    cov['oracle_ops_scanned'] = n
    cov['rule'] = "every op of every generated script (27 drivers x 3 feature sets) run on the real crate; wire projection (D/C events, transfer boundaries, bytes) compared with the model; every real transfer checked for D/C-low => 1 byte, D/C driven before, size <= 4096"
    cov['distinct_nontrivial'] = cov['evaluations']
    return finish('C10', tier, seed, t0, proof, viol, cov,
                  ["theorems are about Hal.expand (transcription of src/interface.rs); tie = wire-projection correspondence",
                   "Linux chunking branch only (cfg!(target_os = linux))", "12.48in driver: see C15"])

# ---------------------------------------------------------------------------------------------- pure properties
U32 = 1 << 32

def rect_oracle(query, real):
    """Does the REAL answer to a rect query contradict C16?  -> True (fails) / False (consistent) / None (outside the precondition)"""
    q = query.split()
    if q[0] == 'rect_i':
        ax, ay, aw, ah, bx, by, bw, bh = map(int, q[1:9])
        if ax + aw >= U32 or ay + ah >= U32 or bx + bw >= U32 or by + bh >= U32:
            return None
        if 'PANIC' in real or 'no answer' in real:
            return True
        t = real.replace('=', ' ').split()
        x, y, w, h, e = map(int, t[:5])
        ix0, ix1 = max(ax, bx), min(ax + aw, bx + bw)
        iy0, iy1 = max(ay, by), min(ay + ah, by + bh)
        empty = ix1 <= ix0 or iy1 <= iy0
        if empty:
            return not ((w == 0 or h == 0) and e == 1)
        return not ((x, y, w, h) == (ix0, iy0, ix1 - ix0, iy1 - iy0) and e == 0)
    if q[0] == 'rect_s':
        ax, ay, aw, ah, dx, dy = map(int, q[1:7])
        if dx > ax or dy > ay:
            return None
        if 'PANIC' in real or 'no answer' in real:
            return True
        t = real.replace('=', ' ').split()
        return tuple(map(int, t[:4])) != (ax - dx, ay - dy, aw, ah)
    return None

def pure_check(prop, group, prop_files, tier, seed, t0, assumptions, unique=True, release_too=False, extra_groups=()):
    import pure
    proof = proof_status(prop_files, clean=(tier == 'thorough'))
    viol = []
    cov = dict(evaluations=0, queries=0, correspondence_mismatches=0, input_distribution={}, samples=[], harness_or_model_errors=[])
    try:
        builds = pure.build(False)
        runs = [(g, False) for g in (group,) + tuple(extra_groups)]
        if release_too and group != 'rect':
            runs.append((group, True))
        relb = None
        for g, rel in runs:
            if rel and relb is None:
                relb = pure.build(True)
            r = pure.run(g, tier, seed, release=rel, builds=(relb if rel else builds), oracle=(rect_oracle if g == 'rect' else None))
            cov['evaluations'] += r['evaluations']
            cov['queries'] += r['queries']
            cov['correspondence_mismatches'] += r['n_mismatches']
            cov['input_distribution'][g + ('-release' if rel else '')] = r['distribution']
            cov['harness_or_model_errors'] += r['errors'][:5]
            for m in r['mismatches'][:40]:
                fails = rect_oracle(m['query'], m['real']) if g == 'rect' else (True if unique else None)
                concrete = m['query'].split()[0] not in ('rect_sweep', 'buflen_sweep', 'var_sweep', 'setpix_sweep',
                                                         'rgb888_sweep', 'rgb565_sweep', 'rgb555_sweep', 'color_table') \
                    or m['where'].startswith('T ') or ' = ' not in m['where'] and m['query'].startswith('color_table')
                v = dict(panel='pure', site=m['query'].split()[0], clause='model-vs-code:' + m['where'][:80],
                         detail="real: %s | model (proved to satisfy %s): %s" % (m['real'], prop, m['model']),
                         replay=dict(kind='pure', group=g, release=rel, query=m['query'], where=m['where'], real=m['real'], model=m['model']))
                if not (fails and concrete):
                    v['no_input'] = True
                viol.append(v)
            viol.sort(key=lambda v: 1 if v.get('no_input') else 0)
            if r['errors'] and not r['mismatches']:
                viol.append(dict(panel='pure', site='harness', clause='run-error', no_input=True, detail='; '.join(r['errors'][:3])[:600],
                                 replay=dict(kind='pure', group=g, errors=r['errors'][:5])))
            if not cov['samples']:
                cov['samples'] = list(r['distribution'].keys())[:3]
    except Exception as e:
        viol.append(dict(panel='pure', site='build', clause='build-failed', no_input=True, detail=str(e)[-1500:],
                         replay=dict(kind='build', log=str(e)[-3000:])))
    if not proof['ok']:
        viol.append(proof_violation(prop, proof))
    cov['traces_validated_against_impl'] = cov['evaluations']
    cov['distinct_nontrivial'] = cov['queries']
    cov['rule'] = ("queries answered by the real crate (harness `epdh pure`) and by the extracted Coq model (proved to satisfy the property); "
                   "sweep queries cover whole ranges and are summarised by two rolling hashes; a differing sweep line is expanded into "
                   "its individual inputs; distinct_nontrivial counts distinct query lines")
    return finish(prop, tier, seed, t0, proof, viol, cov, assumptions)

def check_C16(tier, seed, t0):
    return pure_check('C16', 'rect', ['Properties/C16.v'], tier, seed, t0,
                      ["theorems are about Pure/Rect.v (transcription of src/rect.rs, u32 overflow = None); tie = pure correspondence (exhaustive 0..12 sweeps + boundary/random u32 rectangles)",
                       "debug-build overflow semantics (overflow panics); the property's precondition excludes overflow"])

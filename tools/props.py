"""Per-property checks: proof status + correspondence on the property's projection + oracle on the
implementation's real traces."""
import os, sys, json, time
import vlib, corr
from vlib import proof_status, corr_run, iter_real, case_script, finish, proof_violation, corr_violations

QUICK_SUITES = ['basic', 'chain', 'env', 'fault', 'rand', 'chunk']
THOROUGH_SUITES = QUICK_SUITES + ['pairs', 'faultdense']

def suites_for(tier):
    return THOROUGH_SUITES if tier == 'thorough' else QUICK_SUITES

def dist(run):
    """input distribution of a correspondence run"""
    d = {}
    for t in run['tasks']:
        k = t['suite']
        e = d.setdefault(k, dict(cases=0, ops=0))
        e['cases'] += t['cases']
        e['ops'] += t.get('ops', 0)
    return d

def sample_cases(run, n=3):
    out = []
    for t in run['tasks'][:: max(1, len(run['tasks']) // n)][:n]:
        txt = open(t['script']).read().split('\nend\n')[0]
        out.append(txt[:400])
    return out

def base_coverage(run):
    return dict(evaluations=sum(t.get('ops', 0) for t in run['tasks']),
                traces_validated_against_impl=sum(t.get('ops', 0) for t in run['tasks']),
                correspondence_mismatches=len(run['mismatches']),
                input_distribution=dist(run), samples=sample_cases(run),
                harness_or_model_errors=run['errors'][:5])

def replay(prop, path):
    v = json.load(open(path))
    print(json.dumps(v, indent=1)[:4000])
    r = v.get('replay', {})
    if 'script' in r:
        os.makedirs(vlib.WORK, exist_ok=True)
        sp = os.path.join(vlib.WORK, 'replay.script')
        open(sp, 'w').write(r['script'] + '\n')
        feat = r.get('feat', 'v3')
        hexe, err = corr.build_harness(feat)
        mexe, log = corr.build_model()
        if hexe and mexe:
            rt, mt, _, _ = corr.run_both(hexe, mexe, feat, sp)
            print("---- implementation\n" + rt[:6000])
            print("---- model\n" + mt[:6000])
    return 0

# ---------------------------------------------------------------------------------------------- C10
def oracle_c10(run):
    viol = []
    n = 0
    for t, cid, head, ops in iter_real(run):
        for (i, name, lines, res) in ops:
            n += 1
            for l in lines:
                tok = l.split(' ')
                clause = None
                if tok[0] == 'CL':
                    clause = 'multi-byte-transfer-with-dc-low'
                elif tok[0] == 'U' or tok[0] == 'Xu':
                    clause = 'transfer-before-dc-driven'
                elif tok[0] == 'S':
                    clause = 'non-write-spi-operation'
                elif tok[0] == 'Z':
                    for part in tok[4].split(','):
                        size = int(part.lstrip('d').split('*')[0])
                        if size > 4096:
                            clause = 'transfer-larger-than-4096'
                        if size == 0:
                            clause = 'empty-transfer'
                if clause:
                    viol.append(dict(panel=t['panel'], site=name, clause=clause, detail=l[:200],
                                     replay=dict(kind='trace', panel=t['panel'], feat=t['feat'], op_index=i,
                                                 line=l[:300], script=case_script(t, cid))))
    return viol, n

def check_C10(tier, seed, t0):
    proof = proof_status(['Properties/C10.v'], clean=(tier == 'thorough'))
    run = corr_run(suites_for(tier), seed, tier)
    viol, n = oracle_c10(run)
    flagged = {(v['panel'], v['site']) for v in viol}
    for v in corr_violations('C10', run['mismatches'], ['wire', 'frames']):
        if (v['panel'], v['site']) not in flagged:
            viol.append(v)
    if not proof['ok']:
        viol.append(proof_violation('C10', proof))
    cov = base_coverage(run)
    cov['oracle_ops_scanned'] = n
    cov['rule'] = "every op of every generated script (27 drivers x 3 feature sets) run on the real crate; wire projection (D/C events, transfer boundaries, bytes) compared with the model; every real transfer checked for D/C-low => 1 byte, D/C driven before, size <= 4096"
    cov['distinct_nontrivial'] = cov['evaluations']
    return finish('C10', tier, seed, t0, proof, viol, cov,
                  ["theorems are about Hal.expand (transcription of src/interface.rs); tie = wire-projection correspondence",
                   "Linux chunking branch only (cfg!(target_os = linux))", "12.48in driver: see C15"])

# ---------------------------------------------------------------------------------------------- pure properties
U32 = 1 << 32

def rect_oracle(query, real):
    """Does the REAL answer to a rect query contradict C16?  -> True (fails) / False (consistent) / None (outside the precondition)"""
    q = query.split()
    if q[0] == 'rect_i':
        ax, ay, aw, ah, bx, by, bw, bh = map(int, q[1:9])
        if ax + aw >= U32 or ay + ah >= U32 or bx + bw >= U32 or by + bh >= U32:
            return None
        if 'PANIC' in real or 'no answer' in real:
            return True
        t = real.replace('=', ' ').split()
        x, y, w, h, e = map(int, t[:5])
        ix0, ix1 = max(ax, bx), min(ax + aw, bx + bw)
        iy0, iy1 = max(ay, by), min(ay + ah, by + bh)
        empty = ix1 <= ix0 or iy1 <= iy0
        if empty:
            return not ((w == 0 or h == 0) and e == 1)
        return not ((x, y, w, h) == (ix0, iy0, ix1 - ix0, iy1 - iy0) and e == 0)
    if q[0] == 'rect_s':
        ax, ay, aw, ah, dx, dy = map(int, q[1:7])
        if dx > ax or dy > ay:
            return None
        if 'PANIC' in real or 'no answer' in real:
            return True
        t = real.replace('=', ' ').split()
        return tuple(map(int, t[:4])) != (ax - dx, ay - dy, aw, ah)
    return None

def pure_check(prop, group, prop_files, tier, seed, t0, assumptions, unique=True, release_too=False, extra_groups=(), extra_viol=()):
    import pure
    proof = proof_status(prop_files, clean=(tier == 'thorough'))
    viol = list(extra_viol)
    cov = dict(evaluations=0, queries=0, correspondence_mismatches=0, input_distribution={}, samples=[], harness_or_model_errors=[])
    try:
        builds = pure.build(False)
        runs = [(g, False) for g in (group,) + tuple(extra_groups)]
        if release_too and group != 'rect':
            runs.append((group, True))
        relb = None
        for g, rel in runs:
            if rel and relb is None:
                relb = pure.build(True)
            r = pure.run(g, tier, seed, release=rel, builds=(relb if rel else builds), oracle=(rect_oracle if g == 'rect' else None))
            cov['evaluations'] += r['evaluations']
            cov['queries'] += r['queries']
            cov['correspondence_mismatches'] += r['n_mismatches']
            cov['input_distribution'][g + ('-release' if rel else '')] = r['distribution']
            cov['harness_or_model_errors'] += r['errors'][:5]
            for m in r['mismatches'][:40]:
                fails = rect_oracle(m['query'], m['real']) if g == 'rect' else (True if unique else None)
                concrete = m['query'].split()[0] not in ('rect_sweep', 'buflen_sweep', 'var_sweep', 'setpix_sweep',
                                                         'rgb888_sweep', 'rgb565_sweep', 'rgb555_sweep', 'color_table') \
                    or m['where'].startswith('T ') or ' = ' not in m['where'] and m['query'].startswith('color_table')
                v = dict(panel='pure', site=m['query'].split()[0], clause='model-vs-code:' + m['where'][:80],
                         detail="real: %s | model (proved to satisfy %s): %s" % (m['real'], prop, m['model']),
                         replay=dict(kind='pure', group=g, release=rel, query=m['query'], where=m['where'], real=m['real'], model=m['model']))
                if not (fails and concrete):
                    v['no_input'] = True
                viol.append(v)
            viol.sort(key=lambda v: 1 if v.get('no_input') else 0)
            if r['errors'] and not r['mismatches']:
                viol.append(dict(panel='pure', site='harness', clause='run-error', no_input=True, detail='; '.join(r['errors'][:3])[:600],
                                 replay=dict(kind='pure', group=g, errors=r['errors'][:5])))
            if not cov['samples']:
                cov['samples'] = list(r['distribution'].keys())[:3]
    except Exception as e:
        viol.append(dict(panel='pure', site='build', clause='build-failed', no_input=True, detail=str(e)[-1500:],
                         replay=dict(kind='build', log=str(e)[-3000:])))
    if not proof['ok']:
        viol.append(proof_violation(prop, proof))
    cov['traces_validated_against_impl'] = cov['evaluations']
    cov['distinct_nontrivial'] = cov['queries']
    cov['rule'] = ("queries answered by the real crate (harness `epdh pure`) and by the extracted Coq model (proved to satisfy the property); "
                   "sweep queries cover whole ranges and are summarised by two rolling hashes; a differing sweep line is expanded into "
                   "its individual inputs; distinct_nontrivial counts distinct query lines")
    return finish(prop, tier, seed, t0, proof, viol, cov, assumptions)

def check_C16(tier, seed, t0):
    return pure_check('C16', 'rect', ['Properties/C16.v'], tier, seed, t0,
                      ["theorems are about Pure/Rect.v (transcription of src/rect.rs, u32 overflow = None); tie = pure correspondence (exhaustive 0..12 sweeps + boundary/random u32 rectangles)",
                       "debug-build overflow semantics (overflow panics); the property's precondition excludes overflow"])

def color_table_oracle():
    """C14 clauses evaluated directly on the REAL crate's finite conversion tables -> violations"""
    import pure, subprocess
    hexe, err = corr.build_harness('v3')
    if not hexe:
        return [], 0
    qp = os.path.join(vlib.WORK, 'c14-table.q')
    os.makedirs(vlib.WORK, exist_ok=True)
    open(qp, 'w').write('color_table\n')
    out = subprocess.run([hexe, 'pure', qp], stdout=subprocess.PIPE, stderr=subprocess.PIPE, text=True, env=corr.ENV).stdout
    T = {}
    for l in out.split('\n'):
        if l.startswith('T ') and ' = ' in l:
            k, v = l[2:].split(' = ', 1)
            T[k] = v
    viol = []
    def bad(clause, cls, detail, key):
        viol.append(dict(panel='pure', site='color_table', clause=clause, detail=detail, **{'class': cls},
                         replay=dict(kind='pure', group='color', query='color_table', line='T %s = %s' % (key, T.get(key)))))
    for k, v in T.items():
        t = k.split()
        if t[0] == 'color.raw_u1_roundtrip' and v != t[1]:
            bad('raw_u1_roundtrip', t[1], "Color::from(RawU1::from(%s)) = %s" % (t[1], v), k)
        elif t[0] == 'oct.from_raw_u4' and v == 'PANIC' and int(t[1]) < 16:
            bad('raw_u4_panic', 'v>=8', "OctColor::from(RawU4::new(%s)) panics" % t[1], k)
        elif v == 'PANIC' and not (t[0] == 'color.from_u8' and int(t[1]) >= 2) and t[0] != 'oct.from_raw_u4':
            bad('conversion_panics', t[0], "%s panics" % k, k)
        elif t[0].endswith('_roundtrip') and t[0] != 'color.raw_u1_roundtrip' and v != t[-1]:
            bad('roundtrip:' + t[0], t[-1], "%s = %s" % (k, v), k)
        elif t[0] == 'bitmask' and t[1] == 'tri' and int(t[4]) < 8:
            mask, bits = map(int, v.split())
            bit = 0x80 >> (int(t[4]) % 8)
            fill = int(T.get('tri.get_byte_value ' + t[2], '0'))
            if (255 - mask) != bit:
                bad('mask_selects_other_bits', 'tri', "%s = %s" % (k, v), k)
            elif ((bits & 0xff) & bit) != (fill & bit):
                bad('tri_mask_fill_disagree', 'chromatic bwrbit=' + t[3], "bitmask(%s,bwrbit=%s,pos=%s) B/W bit %d but get_byte_value fill %d" % (
                    t[2], t[3], t[4], 1 if bits & bit else 0, 1 if fill & bit else 0), k)
        elif t[0] == 'bitmask' and t[1] == 'color' and int(t[4]) < 8:
            mask, bits = map(int, v.split())
            bit = 0x80 >> (int(t[4]) % 8)
            fill = int(T.get('color.get_byte_value ' + t[2], '0'))
            if (255 - mask) != bit or (bits & bit) != (fill & bit) or (bits & ~bit & 0xffff):
                bad('color_mask_fill_disagree', t[2], "%s = %s" % (k, v), k)
    for c in ('black', 'white', 'green', 'blue', 'red', 'yellow', 'orange', 'hiz'):
        nib = T.get('oct.get_nibble ' + c)
        if nib is not None and T.get('oct.from_nibble ' + nib) != c:
            bad('nibble_roundtrip', c, "from_nibble(get_nibble(%s)) = %s" % (c, T.get('oct.from_nibble ' + nib)), 'oct.get_nibble ' + c)
    for c in ('black', 'white'):
        bit = T.get('color.get_bit_value ' + c)
        if bit is not None and T.get('color.from_u8 ' + bit) != c:
            bad('bit_roundtrip', c, "from_u8(get_bit_value(%s)) = %s" % (c, T.get('color.from_u8 ' + bit)), 'color.get_bit_value ' + c)
    return viol, len(T)

def check_C03(tier, seed, t0):
    return pure_check('C03', 'graphics', ['Properties/C03.v'], tier, seed, t0,
                      ["theorems are about Pure/Graphics.v set_pixel (transcription of src/graphics.rs) for ALL widths/heights <= i32::MAX, all i32 points, rotations, colour types, colours, bwrbit and buffer contents; tie = pure correspondence (exhaustive per alias row sweeps, VarDisplay geometries, i32 extremes; debug and release builds)",
                       "Display<..> aliases are instantiated through Pure/Aliases.v, itself compared with the crate's alias constants by the sizing group"],
                      release_too=(tier == 'thorough'))

def check_C13(tier, seed, t0):
    return pure_check('C13', 'sizing', ['Properties/C13.v'], tier, seed, t0,
                      ["theorems are about Pure/Graphics.v buffer_len / buffer_size / var_new_ok and Pure/Aliases.v; tie = pure correspondence (alias constants, VarDisplay::new sweeps 0..64 x slice lengths, buffer_len 0..2048^2)",
                       "'starts all-zero' and 'dimensions the driver reports' are decided by the correspondence (alias query compares default buffer, size(), WIDTH/HEIGHT), not by a theorem",
                       "64-bit usize"])

def check_C14(tier, seed, t0):
    extra, ntab = color_table_oracle()
    return pure_check('C14', 'color', ['Properties/C14.v'], tier, seed, t0,
                      ["theorems are about Pure/Color.v (transcription of src/color.rs); tie = pure correspondence (every finite table, all Rgb565/Rgb555 values, Rgb888 sweeps: step 5 quick / exhaustive thorough)",
                       "the property's clauses are also evaluated directly on the real crate's finite tables (%d entries) each run" % ntab],
                      extra_viol=extra)

"""Per-property checks: proof status + correspondence on the property's projection + oracle on the
implementation's real traces."""
import os, sys, json, time
import vlib, corr
from vlib import proof_status, corr_run, iter_real, case_script, finish, proof_violation, corr_violations

QUICK_SUITES = ['basic', 'chain', 'env', 'fault', 'rand', 'chunk']
THOROUGH_SUITES = QUICK_SUITES + ['pairs', 'faultdense']

def suites_for(tier):
    return THOROUGH_SUITES if tier == 'thorough' else QUICK_SUITES

def dist(run):
    """input distribution of a correspondence run"""
    d = {}
    for t in run['tasks']:
        k = t['suite']
        e = d.setdefault(k, dict(cases=0, ops=0))
        e['cases'] += t['cases']
        e['ops'] += t.get('ops', 0)
    return d

def sample_cases(run, n=3):
    out = []
    for t in run['tasks'][:: max(1, len(run['tasks']) // n)][:n]:
        txt = open(t['script']).read().split('\nend\n')[0]
        out.append(txt[:400])
    return out

def base_coverage(run):
    return dict(evaluations=sum(t.get('ops', 0) for t in run['tasks']),
                traces_validated_against_impl=sum(t.get('ops', 0) for t in run['tasks']),
                correspondence_mismatches=len(run['mismatches']),
                input_distribution=dist(run), samples=sample_cases(run),
                harness_or_model_errors=run['errors'][:5])

def replay(prop, path):
    v = json.load(open(path))
    print(json.dumps(v, indent=1)[:4000])
    r = v.get('replay', {})
    if 'script' in r:
        os.makedirs(vlib.WORK, exist_ok=True)
        sp = os.path.join(vlib.WORK, 'replay.script')
        open(sp, 'w').write(r['script'] + '\n')
        feat = r.get('feat', 'v3')
        hexe, err = corr.build_harness(feat)
        mexe, log = corr.build_model()
        if hexe and mexe:
            rt, mt, _, _ = corr.run_both(hexe, mexe, feat, sp)
            print("---- implementation\n" + rt[:6000])
            print("---- model\n" + mt[:6000])
    return 0

# ---------------------------------------------------------------------------------------------- C10
def oracle_c10(run):
    viol = []
    n = 0
    for t, cid, head, ops in iter_real(run):
        for (i, name, lines, res) in ops:
            n += 1
            for l in lines:
                tok = l.split(' ')
                clause = None
                if tok[0] == 'CL':
                    clause = 'multi-byte-transfer-with-dc-low'
                elif tok[0] == 'U' or tok[0] == 'Xu':
                    clause = 'transfer-before-dc-driven'
                elif tok[0] == 'S':
                    clause = 'non-write-spi-operation'
                elif tok[0] == 'Z':
                    for part in tok[4].split(','):
                        size = int(part.lstrip('d').split('*')[0])
                        if size > 4096:
                            clause = 'transfer-larger-than-4096'
                        if size == 0:
                            clause = 'empty-transfer'
                if clause:
                    viol.append(dict(panel=t['panel'], site=name, clause=clause, detail=l[:200],
                                     replay=dict(kind='trace', panel=t['panel'], feat=t['feat'], op_index=i,
                                                 line=l[:300], script=case_script(t, cid))))
    return viol, n

def check_C10(tier, seed, t0):
    proof = proof_status(['Properties/C10.v'], clean=(tier == 'thorough'))
    run = corr_run(suites_for(tier), seed, tier)
    viol, n = oracle_c10(run)
    flagged = {(v['panel'], v['site']) for v in viol}
    for v in corr_violations('C10', run['mismatches'], ['wire', 'frames']):
        if (v['panel'], v['site']) not in flagged:
            viol.append(v)
    if not proof['ok']:
        viol.append(proof_violation('C10', proof))
    cov = base_coverage(run)
    cov['oracle_ops_scanned'] = n
    cov['rule'] = "every op of every generated script (27 drivers x 3 feature sets) run on the real crate; wire projection (D/C events, transfer boundaries, bytes) compared with the model; every real transfer checked for D/C-low => 1 byte, D/C driven before, size <= 4096"
    cov['distinct_nontrivial'] = cov['evaluations']
    return finish('C10', tier, seed, t0, proof, viol, cov,
                  ["theorems are about Hal.expand (transcription of src/interface.rs); tie = wire-projection correspondence",
                   "Linux chunking branch only (cfg!(target_os = linux))", "12.48in driver: see C15"])

#!/usr/bin/env python3
"""Writes coq/Properties/Cxx.v for the wire-level properties from one template (statements only;
every proof is `exact <lemma>`), plus the per-property extra theorems given below.  One-off
generator; its output is committed.  Re-run after known_findings.txt changes (the explicit list of
configurations on which a property holds without exception is part of each file)."""
import os, sys, re
sys.path.insert(0, os.path.dirname(os.path.abspath(__file__)))
import gen_known, gen_vfiles, codes
ROOT = os.path.dirname(os.path.dirname(os.path.abspath(__file__)))

TITLE = {
 1: "Pixel-exact full-frame delivery",
 2: "A full-frame update is independent of the call history that preceded it",
 5: "Busy handshake: no image traffic into a refreshing panel, and waits terminate",
 6: "Partial updates program exactly the requested window and fill it exactly once",
 7: "clear_frame fills every image plane once, uniformly, with the background",
 8: "sleep enters the controller's deep-sleep state; wake_up resets and restores it",
 9: "A refresh only ever reaches an initialised, powered controller",
 11: "Construction and wake-up begin with a well-formed hardware reset pulse",
 12: "Drivers never retain or re-read a caller's buffer after the call returns",
 17: "The selected refresh waveform is sticky across reload and wake-up",
 18: "Controller protocol conformance: defined commands, complete blocks, geometry",
}
WHAT = {
 1: """a failure tagged 1 is a clause of [Checks.chk_c01] / [Checks.chk_display] violated by a call on a driver that has
    made no other call since construction: the documented plane is not written by exactly one data run, the run
    is not addressed from the panel origin over the full panel, its length is not the plane size, its payload is
    not [DArg k arg off len] under the panel's encoding - i.e., for EVERY buffer content, not the caller's bytes
    each once and in order -, another plane written by the call is not a complete uniform fill / complete copy,
    the number of refresh triggers is not the documented one (0 for update, 1 for update-and-display and for
    display after an update), or display sends image data""",
 2: """a failure tagged 2 is the same clause set as C01 ([Checks.chk_c01]) violated by a full-frame entry point
    issued AFTER a history: geometry inherited from an earlier call (window, counter, partial mode), wrong
    length, wrong payload, secondary plane not complete""",
 5: """a failure tagged 5 is [Checks.chk_c05]: image data ([ClRamWhileBusy]) or a further refresh trigger
    ([ClRefreshWhileBusy]) sent while the refresh the driver started has not been waited out with the panel's
    polarity, or a wait with the wrong polarity ([ClWaitPolarity]).  By [HalProofs.if_wait_matching] a wait with
    the panel's polarity ends a busy episode of ANY duration, which is what makes the "pending" flag of the
    controller model a sound abstraction of "signalled busy" for every finite duration""",
 6: """a failure tagged 6 is [Checks.chk_c06] on a partial entry point called with an aligned in-panel window and a
    window-sized buffer: the window / counter registers (fields 0..6) differ from the requested origin and extent,
    a data run does not have the window's size, no run carries the caller's buffer, window bytes travel outside a
    window command ([ClStray]), or a pattern fill touches other memory""",
 7: """a failure tagged 7 is [Checks.chk_c07] on clear_frame: a plane written more than once or not over the full
    panel, with the wrong length, not uniform, or the primary plane filled with a byte that is not the encoding
    of the background colour last set""",
 8: """a failure tagged 8 is: sleep does not end with a valid deep-sleep command ([ClNoDeepSleep] /
    [ClSleepNotLast]); wake_up does not start with a reset pulse of non-zero low and settle times ([ClNoReset] /
    [ClResetTiming]); or the geometry / power / data-path registers after wake_up differ from those after
    construction for the current settings ([ClRegisters])""",
 9: """a failure tagged 9 is [Checks.chk_c09]: a refresh trigger reaches the controller model while it is powered
    off ([ClRefreshUnpowered]) or while a command of the driver's own init signature has not been sent since the
    last hardware reset ([ClRefreshUninit])""",
 11: """a failure tagged 11 is: construction does not start with a hardware reset ([ClNoReset]) or some reset of a
    call has a zero low time or zero preceding high time ([ClResetTiming])""",
 12: """a failure tagged 12 is [Checks.chk_c12]: a call (index 1) transmits bytes [DArg k ..] of a buffer borrowed by
    an earlier call (index k = 0, the whole history)""",
 17: """a failure tagged 17 is: set_lut(Some r) does not upload the reference tables of mode r, set_lut(None) or
    wake_up (for drivers whose init uploads tables) uploads tables other than those of the mode last selected
    ([ClLutTable] / [ClNoLut])""",
 18: """a failure tagged 18 is [Checks.chk_c18]: a command byte outside the family / vendor table ([ClUndefined]), a
    block-carrying command closed with a wrong byte count ([ClBlock]), a non-literal register parameter, or a
    resolution / driver-output block that does not decode to the panel's width and height ([ClGeomReg])""",
}

EXTRA_HEAD = {
 1: "From EPD Require Import Hal HalSat HalProofs Ctl.Ctl Pure.Graphics Pure.GraphicsProofs Proof.Pixel.\n",
 5: "From EPD Require Import Hal HalSat HalProofs.\n",
 11: "From EPD Require Import Hal HalSat HalProofs.\n",
 8: "From EPD Require Import Ctl.Ctl Spec.Recover Proof.Wake.\n",
 9: "From EPD Require Import Ctl.Ctl Spec.Oracle Proof.Book.\n",
 12: "From EPD Require Import Hal Ctl.Ctl Spec.Checks Spec.Oracle Proof.Book.\n",
 17: "From EPD Require Import Ctl.Ctl Spec.Oracle Proof.Book.\n",
}
EXTRA = {
 1: '''
(** The per-byte encodings used by the three panels that transform the buffer: the complement
    (2.7in B) flips every pixel bit, the 2-bpp expansion (1.54in B) doubles every pixel bit in place, the
    4-bpp expansion (7.5in) turns every pixel bit into the nibble 0b0011 / 0b0000 - for all 256 byte
    values, MSB first ([Enc.bits8] = the 8 bits of a byte, most significant first). *)
Theorem C01_encodings_faithful : forall b, b < 256 ->
  Enc.bits_of (bapply BNot b) = map negb (Enc.bits8 b) /\\
  Enc.bits_of (bapply BExp2 b) = flat_map (fun x => [x; x]) (Enc.bits8 b) /\\
  Enc.bits_of (bapply BExp4 b) = flat_map (fun x => [false; false; x; x]) (Enc.bits8 b) /\\
  Enc.bits_of (bapply BId b) = Enc.bits8 b.
Proof. exact Enc.encodings_faithful. Qed.

(** End to end with C03: the controller specification stores the i-th byte of a data run at the address
    its counter has after i bytes; for a run addressed from the origin over the full panel ([full_geom],
    which is what the clauses above demand) that is byte column [i mod R], row [i / R].  The frame buffer
    keeps pixel (x,y) in bit [7 - x mod 8] of byte [byte_of W x y] (C03).  Hence, for EVERY width and
    height (any row padding): the byte holding pixel (x,y) is stored at byte column x/8 of row y - pixel
    (x,y) of the drawing is column x, row y of the plane. *)
Theorem C01_pixel_lands_at_its_place : forall W H x y, x < W -> y < H ->
  let R := line_bytes W 1 in
  byte_of W x y < R * H /\\ advance (full_geom R H) (byte_of W x y) = Some (x / 8, y).
Proof. exact pixel_lands_at_its_place. Qed.

(** After a complete plane the address counter is back at the origin: a second plane written in the
    same call without re-programming the counter (secondary-plane fills and copies) lands on the same
    addresses. *)
Theorem C01_counter_wraps_after_full_plane : forall R H, 0 < R -> 0 < H -> advance (full_geom R H) (R * H) = Some (0, 0).
Proof. exact full_run_wraps. Qed.

(** The logical byte stream that reaches the controller is the concatenation of what each transport
    call is meant to send, whatever the chunking (C10): so "the payload is [DArg k arg off len]" above
    means the controller receives exactly those buffer bytes, each once and in order. *)
Theorem C01_payload_reaches_controller : forall cfg rho t d w, ff w ->
  match expand cfg rho t d w with
  | (OOk, _, _, evs) => exists ss, Forall2 (stream_ok rho) (calls t) ss /\\ forall dc, lstream dc evs = concat ss
  | _ => True
  end.
Proof. exact expand_stream. Qed.
''',
 5: '''
(** (c, d) The wait loop, for EVERY busy duration d and every idle-delay setting: with the panel's
    polarity the call makes d busy polls, each followed by exactly one delay of delay_us microseconds
    (none at all when delay_us = 0), one idle poll, and returns with the line idle. *)
Theorem C05_wait_terminates_and_sleeps_exactly : forall cfg bl cmds durs f r d acc,
  if_wait cfg bl (mkW (BAuto bl cmds durs (N.of_nat d)) f r) acc =
  (OOk, mkW (BAuto bl cmds durs 0) f r, rev (wait_events cfg bl d) ++ acc).
Proof. exact if_wait_matching. Qed.

(** the default idle delay is 10 ms *)
Theorem C05_default_delay : forall sb, cfg_delay_us (mk_cfg sb None) = 10000 /\\
  forall v, cfg_delay_us (mk_cfg sb (Some v)) = v.
Proof. intros sb. split; [reflexivity|]. intros v. reflexivity. Qed.

(** With the WRONG polarity the wait returns after one poll while the episode is still running, and
    spins for ever on an idle line: polarity matters, hence clause [ClWaitPolarity]. *)
Theorem C05_wrong_polarity_returns_early : forall cfg bl cmds durs f r d acc, 0 < d ->
  if_wait cfg bl (mkW (BAuto (negb bl) cmds durs d) f r) acc =
  (OOk, mkW (BAuto (negb bl) cmds durs (d - 1)) f r, HPoll bl false :: acc).
Proof. exact if_wait_wrong_polarity_busy. Qed.
Theorem C05_wrong_polarity_spins_when_idle : forall cfg bl cmds durs f r acc,
  fst (fst (if_wait cfg bl (mkW (BAuto (negb bl) cmds durs 0) f r) acc)) = ODiverged.
Proof. exact if_wait_wrong_polarity_idle. Qed.
''',
 11: '''
(** The transport's reset, for ALL timings: exactly high, wait a, low, wait b, high, wait 200 ms; it
    is world-independent and contains no SPI transfer. *)
Theorem C11_reset_pulse_shape : forall a b,
  hsat (if_reset a b) (fun w o w' e => o = OOk /\\ w_fault w' = w_fault w /\\ w_rst w' = Some true /\\
     e = [HRst true; HDelay Dus a; HRst false; HDelay Dus b; HRst true; HDelay Dus 200000]).
Proof. exact if_reset_exact. Qed.

(** In EVERY call of every driver model, whatever the world (busy behaviour, faults): only delays
    happen while RST is low, and RST is high when the call ends. *)
Theorem C11_no_traffic_while_reset_low : forall cfg rho t d w,
  match expand cfg rho t d w with (_, _, _, evs) => rst_scan false evs = (true, false) end.
Proof. exact expand_rst. Qed.
''',
 8: '''
(** wake_up forgets whatever state the controller was in: after EVERY history, on every configuration,
    the transport calls of wake_up begin with a hardware reset (busy polls / delays may precede it), and the
    controller state it leaves is the same from EVERY prior controller state [c1], [c2] - deep sleep, a
    half-received frame, a shrunken window - i.e. a function of the driver's fields alone.  Together with
    the register comparison above (which compares with construction) this is "wake-up re-establishes the
    configuration exactly as construction does". *)
Theorem C08_wake_up_forgets_controller_state : forall c, In c cfgs ->
  exists s0, fst (p_new (fst c) (spec_of (snd c))) = Some s0 /\\
  forall h, valid_history (snd c) h ->
  exists ic, wake_calls (fst c) (snd c) (v_d (p_run (fst c) (spec_of (snd c)) s0 h)) = Some ic /\\
             starts_with_reset ic = true /\\
             forall cp c1 c2, fst (ccall cp c1 ic) = fst (ccall cp c2 ic).
Proof. exact wake_up_forgets. Qed.
''',
 9: '''
(** "The driver's own bookkeeping of the panel's power state never diverges from the controller's": the
    1.02in driver caches the booster state in [is_turned_on]; after EVERY history the cached flag equals
    the controller model's power state (checked on every state of the closed set, lifted by
    [Book.invariant_after_every_history]).  No other trait driver keeps such a flag. *)
Theorem C09_power_flag_never_diverges :
  exists s0, fst (p_new (fst c1in02) (spec_of (snd c1in02))) = Some s0 /\\
  forall h, valid_history (snd c1in02) h ->
    is_on (v_d (p_run (fst c1in02) (spec_of (snd c1in02)) s0 h)) = c_on (o_c (v_o (p_run (fst c1in02) (spec_of (snd c1in02)) s0 h))).
Proof. exact power_flag_never_diverges. Qed.
''',
 17: '''
(** On the drivers that persist the selection (type A 1.54in / 2.9in with both LUT features, 1.54in V2, 4.2in)
    the driver's [refresh] field equals the mode last selected with set_lut(Some _) after EVERY history:
    the selection survives reloads, displays, sleep and wake-up. *)
Theorem C17_selected_mode_is_sticky : forall c, In c sticky_cfgs ->
  In c cfgs /\\
  exists s0, fst (p_new (fst c) (spec_of (snd c))) = Some s0 /\\
  forall h, valid_history (snd c) h -> forall r,
    o_sel (v_o (p_run (fst c) (spec_of (snd c)) s0 h)) = Some r -> refresh (v_d (p_run (fst c) (spec_of (snd c)) s0 h)) = r.
Proof. exact selected_mode_is_sticky. Qed.
''',
 12: '''
(** No driver but the 2.9in D keeps a reference to a caller's buffer between calls: after EVERY history the
    driver state holds none. *)
Theorem C12_no_buffer_reference_kept : forall c, In c cfgs -> snd c <> P2in9d ->
  exists s0, fst (p_new (fst c) (spec_of (snd c))) = Some s0 /\\
  forall h, valid_history (snd c) h -> old (v_d (p_run (fst c) (spec_of (snd c)) s0 h)) = None.
Proof. exact no_buffer_reference_kept. Qed.

(** What the clause means for the bytes on the wire: the denotation of a data expression depends on
    the environment only at the (call, argument) pairs it names; so a call whose transport calls name
    only its own call index transmits the same bytes under any two environments that agree on that
    call's buffers - overwriting an earlier call's buffer changes nothing. *)
Theorem C12_own_buffers_only : forall rho1 rho2 k e,
  (forall a i, rho1 k a i = rho2 k a i) -> dexp_calls e = [] \\/ dexp_calls e = [k] -> den rho1 e = den rho2 e.
Proof. exact Enc.den_own. Qed.
''',
}

def clean_list(prop):
    F = gen_known.load()
    bad = {f['panel'] for f in F if f.get('property') == 'C%02d' % prop}
    return [(name, f, ft) for (name, f, ft) in gen_vfiles.configs() if name not in bad], sorted(bad)

def render(prop):
    clean, bad = clean_list(prop)
    P = "C%02d" % prop
    clean_term = "[" + ";\n   ".join("(%s, P%s)" % (ft, name[3:]) for (name, f, ft) in clean) + "]"
    s = """(** %s %s.
    GENERATED by tools/gen_props.py.  Statements only; every proof is [exact <lemma>].

    Reading guide.  [cfgs] are the 30 configurations (27 trait drivers, both 2.13in variants, the
    alternative type-A LUT feature).  A history is any finite list of macro steps of the panel's
    alphabet [ps_alpha] (Spec/Specs.v): length unbounded.  [fails_after ft p s0 h m] are the failures
    the observer of Spec/Oracle.v (controller specification + per-call checks) reports for the calls
    of macro step [m] issued after history [h]; buffer contents are symbolic, so a statement about a
    payload holds for EVERY buffer content.  Here %s.
    [known_for %d] are the known findings of this property (Spec/Known.v, generated from
    /verif/known_findings.txt); every one of them is witnessed (no stale entry). *)
From Coq Require Import List NArith Bool.
From EPD Require Import Iface Ops Panels Spec.PSpec Spec.Specs Spec.Verdict Spec.Known Proof.AllPanels Proof.History Proof.Enc.
%sImport ListNotations.
Open Scope N_scope.

(** After EVERY protocol-respecting history, of any length, on every configuration: a macro step
    violates a clause of this property only in the listed ways (and construction likewise). *)
Theorem %s_all_histories : forall c, In c cfgs ->
  exists s0, fst (p_new (fst c) (spec_of (snd c))) = Some s0 /\\
  (forall f, In f (snd (p_new (fst c) (spec_of (snd c)))) -> fprop f = %d -> In f (known_for %d (fst c) (snd c))) /\\
  (forall h, valid_history (snd c) h -> forall m, In m (ps_alpha (spec_of (snd c))) ->
     forall f, In f (fails_after (fst c) (snd c) s0 h m) -> fprop f = %d -> In f (known_for %d (fst c) (snd c))).
Proof. exact (property_histories %d). Qed.

(** The configurations without any listed finding for this property ... *)
Theorem %s_clean_configurations : clean %d =
  %s.
Proof. vm_compute. reflexivity. Qed.

(** ... on which (and on any other configuration with no listed finding) the property holds without
    exception after every history. *)
Theorem %s_holds : forall c, In c cfgs -> known_for %d (fst c) (snd c) = [] ->
  exists s0, fst (p_new (fst c) (spec_of (snd c))) = Some s0 /\\
  (forall f, In f (snd (p_new (fst c) (spec_of (snd c)))) -> fprop f <> %d) /\\
  (forall h, valid_history (snd c) h -> forall m, In m (ps_alpha (spec_of (snd c))) ->
     forall f, In f (fails_after (fst c) (snd c) s0 h m) -> fprop f <> %d).
Proof. exact (property_holds %d). Qed.

(** Every listed finding of this property is observed on the model (at construction or by some macro
    step from some state of the closed reachable set): the refutation witnesses. *)
Theorem %s_findings_witnessed : forall c, In c cfgs -> forall f, In f (known_for %d (fst c) (snd c)) ->
  In f (snd (p_new (fst c) (spec_of (snd c)))) \\/
  exists s m, In s (Rof c) /\\ In m (ps_alpha (spec_of (snd c))) /\\
              In f (snd (p_macro (fst c) (spec_of (snd c)) 1 s m)).
Proof. exact (Enc.findings_for_witnessed %d). Qed.

(** non-vacuity: the alphabets are not empty and the constructor of every configuration succeeds *)
Example %s_nonvacuous : Forall (fun c => ps_alpha (spec_of (snd c)) <> [] /\\
                                   exists s0, fst (p_new (fst c) (spec_of (snd c))) = Some s0) cfgs.
Proof. exact Enc.cfgs_nonvacuous. Qed.
%s
Print Assumptions %s_all_histories.
Print Assumptions %s_clean_configurations.
Print Assumptions %s_holds.
Print Assumptions %s_findings_witnessed.
""" % (P, TITLE[prop], ' '.join(WHAT[prop].split('\n')[0:1]) + ('\n' + '\n'.join(WHAT[prop].split('\n')[1:]) if '\n' in WHAT[prop] else ''),
       prop, EXTRA_HEAD.get(prop, ''), P, prop, prop, prop, prop, prop, P, prop, clean_term, P, prop, prop, prop, prop, P, prop, prop, P,
       EXTRA.get(prop, ''), P, P, P, P)
    for m in re.findall(r'^Theorem (\w+)', EXTRA.get(prop, ''), re.M):
        s += "Print Assumptions %s.\n" % m
    return s

def main():
    for prop in TITLE:
        open(os.path.join(ROOT, 'coq', 'Properties', 'C%02d.v' % prop), 'w').write(render(prop))
    print("wrote", ' '.join('C%02d.v' % p for p in TITLE))

if __name__ == '__main__':
    main()

"""Names of the numeric codes used by coq/Spec/Verdict.v (op_code, clause_code) and their textual
form as printed by the run-time oracle (ocaml/orc.ml clause_str).  Keep in sync with both."""

OPS = {0: 'new', 1: 'sleep', 2: 'wake_up', 3: 'set_background_color', 4: 'background_color', 5: 'width', 6: 'height',
       7: 'update_frame', 8: 'update_partial_frame', 9: 'display_frame', 10: 'update_and_display_frame',
       11: 'clear_frame', 12: 'set_lut', 13: 'wait_until_idle', 14: 'update_color_frame',
       15: 'update_achromatic_frame', 16: 'update_chromatic_frame', 17: 'update_old_frame', 18: 'update_new_frame',
       19: 'display_new_frame', 20: 'update_and_display_new_frame', 21: 'update_partial_old_frame',
       22: 'update_partial_new_frame', 23: 'clear_partial_frame', 24: 'set_partial_base_buffer', 25: 'set_refresh',
       26: 'set_border_color', 27: 'display_partial_frame', 28: 'update_partial_achromatic_frame',
       29: 'update_partial_chromatic_frame', 30: 'update_and_display_frame_base', 31: 'display_frame_partial',
       32: 'shift_display', 33: 'show_7block', 34: 'update_partial_frame2'}
OP_CODE = {v: k for k, v in OPS.items()}

# code -> (format, number of args); formats as in orc.ml clause_str
CLAUSES = {
    0: ('panic', 0),
    1: ('no-data-run cmd=%02x', 1),
    2: ('plane-written-more-than-once cmd=%02x', 1),
    3: ('not-full-panel-geometry cmd=%02x', 1),
    4: ('wrong-length cmd=%02x got=%d', 2),
    5: ('payload-not-buffer cmd=%02x', 1),
    6: ('other-plane-bad cmd=%02x', 1),
    7: ('refresh-count got=%d', 1),
    8: ('fill-value cmd=%02x got=%02x', 2),
    9: ('not-uniform cmd=%02x', 1),
    10: ('stray-data bytes=%d', 1),
    11: ('undefined-command cmd=%02x', 1),
    12: ('block-length cmd=%02x got=%d', 2),
    13: ('non-literal-parameter cmd=%02x', 1),
    14: ('tainted', 0),
    15: ('ram-write-while-busy cmd=%02x', 1),
    16: ('refresh-while-busy', 0),
    17: ('wait-polarity', 0),
    18: ('refresh-unpowered', 0),
    19: ('refresh-uninitialised missing=%02x', 1),
    20: ('refresh-asleep', 0),
    21: ('no-deep-sleep', 0),
    22: ('deep-sleep-not-last', 0),
    23: ('no-reset-first', 0),
    24: ('reset-timing', 0),
    25: ('registers-differ field=%d', 1),
    26: ('geometry-register cmd=%02x', 1),
    27: ('retained-buffer call=%d', 1),
    28: ('window field=%d', 1),
    29: ('lut-table cmd=%02x', 1),
    30: ('no-lut-upload', 0),
    31: ('no-reset-pulse', 0),
}

def clause_str(code, a, b):
    fmt, n = CLAUSES[code]
    return fmt % ((a, b)[:n]) if n else fmt

def parse_clause(text):
    """inverse of clause_str -> (code, a, b)"""
    import re
    for code, (fmt, n) in CLAUSES.items():
        pat = re.escape(fmt)
        pat = pat.replace(re.escape('%02x'), '([0-9a-f]+)').replace(re.escape('%d'), '([0-9]+)')
        m = re.fullmatch(pat, text.strip())
        if m:
            vals = []
            spec = re.findall(r'%02x|%d', fmt)
            for g, s in zip(m.groups(), spec):
                vals.append(int(g, 16) if s == '%02x' else int(g))
            vals += [0, 0]
            return code, vals[0], vals[1]
    raise ValueError("unknown clause text: " + text)

def fail_str(f):
    p, o, k, a, b = f
    return "C%02d %-30s %s" % (p, OPS.get(o, str(o)), clause_str(k, a, b))

#!/usr/bin/env python3
"""seedtest.py <Cxx> [--id NAME] [--checks C01,C02,...] [--skip-confirm]

Takes a seeded change produced by a sub-agent in the scratch worktree /tmp/mut-<Cxx> (out/patch.diff,
out/demo_*.rs, out/README.txt), CONFIRMS it there (existing tests pass with the change, the
demonstration fails with it and passes without it), stores it as /verif/seeded/<id>/, then applies it
to /repo, runs the registered quick checks, records which ones raise a VIOLATION, and reverts /repo."""
import os, sys, json, subprocess, shutil, time, glob
ROOT = os.path.dirname(os.path.dirname(os.path.abspath(__file__)))
ENV = dict(os.environ, CARGO_NET_OFFLINE='true')

def sh(cmd, cwd=None, timeout=3600):
    r = subprocess.run(cmd, shell=True, cwd=cwd, stdout=subprocess.PIPE, stderr=subprocess.STDOUT, text=True, env=ENV, timeout=timeout)
    return r.returncode, r.stdout

def main():
    a = sys.argv[1:]
    prop = a[0]
    sid = prop.lower()
    checks = None
    confirm = True
    wt_arg = None
    confirm_only = False
    i = 1
    while i < len(a):
        if a[i] == '--id':
            sid = a[i + 1]; i += 1
        elif a[i] == '--checks':
            checks = a[i + 1].split(','); i += 1
        elif a[i] == '--skip-confirm':
            confirm = False
        elif a[i] == '--confirm-only':
            confirm_only = True
        elif a[i] == '--wt':
            wt_arg = a[i + 1]; i += 1
        i += 1
    wt = wt_arg or '/tmp/mut-' + prop
    out = os.path.join(wt, 'out')
    dst = os.path.join(ROOT, 'seeded', sid)
    os.makedirs(dst, exist_ok=True)
    for f in glob.glob(os.path.join(out, '*')):
        if os.path.isfile(f) and os.path.getsize(f) < 400000:
            shutil.copy(f, dst)
    patch = os.path.join(dst, 'patch.diff')
    demos = [os.path.basename(f) for f in glob.glob(os.path.join(wt, 'tests', 'demo_*.rs'))]
    meta = dict(id=sid, property=prop, demo=demos, ran=[])
    readme = os.path.join(dst, 'README.txt')
    if os.path.exists(readme):
        meta['needs_to_manifest'] = open(readme).read()[:1500]
    tgt = "CARGO_TARGET_DIR=%s/target " % wt
    if confirm:
        # state of the worktree: change applied?
        rc, o = sh("git diff --quiet -- src", cwd=wt)
        if rc == 0:
            sh("git apply %s" % patch, cwd=wt)
        demo_args = ' '.join('--test ' + d[:-3] for d in demos)
        rc1, o1 = sh(tgt + "cargo test --offline --lib 2>&1 | tail -8; " + tgt + "cargo test --offline --doc 2>&1 | tail -8", cwd=wt)
        ok_existing = o1.count('test result: ok') >= 2 and 'FAILED' not in o1
        rc2, o2 = sh(tgt + "cargo test --offline %s 2>&1 | tail -25" % demo_args, cwd=wt)
        demo_fails_with = 'FAILED' in o2 or 'panicked' in o2 or 'error' in o2.lower() and 'test result: ok' not in o2
        sh("git apply -R %s" % patch, cwd=wt)
        rc3, o3 = sh(tgt + "cargo test --offline %s 2>&1 | tail -15" % demo_args, cwd=wt)
        demo_passes_without = 'test result: ok' in o3 and 'FAILED' not in o3
        sh("git apply %s" % patch, cwd=wt)
        meta['confirmed'] = dict(existing_tests_pass_with_change=ok_existing, demo_fails_with_change=demo_fails_with,
                                 demo_passes_without_change=demo_passes_without)
        meta['ran'] += ["cargo test --offline --lib --doc (with change) in scratch worktree", "cargo test --offline %s (with / without change)" % demo_args]
        print("confirm:", meta['confirmed'])
        if not (ok_existing and demo_fails_with and demo_passes_without):
            print(o1[-600:], o2[-900:], o3[-600:])
    if confirm_only:
        json.dump(meta, open(os.path.join(dst, 'meta.json'), 'w'), indent=1)
        return
    if not confirm and os.path.exists(os.path.join(dst, 'meta.json')):
        old = json.load(open(os.path.join(dst, 'meta.json')))
        for k in ('confirmed', 'ran'):
            if k in old:
                meta[k] = old[k]
    # apply to /repo, run checks, revert
    rc, o = sh("git -C /repo status --porcelain")
    if o.strip():
        print("/repo is not clean:", o); sys.exit(2)
    rc, o = sh("git -C /repo apply %s" % patch)
    if rc != 0:
        print("patch does not apply to /repo:", o); sys.exit(2)
    results = {}
    try:
        man = json.load(open(os.path.join(ROOT, 'MANIFEST.json')))
        ids = checks or [c['property_id'] for c in man['checks']]
        # the target property first
        ids = [prop] + [x for x in ids if x != prop]
        for pid in ids:
            t0 = time.time()
            rc, o = sh("./check %s quick" % pid, cwd=ROOT, timeout=5400)
            v = [l for l in o.split('\n') if l.startswith('VIOLATION')]
            results[pid] = dict(exit=rc, violations=len(v), first=(v[0] if v else ''), with_failing_input=sum(1 for l in v if 'no-failing-input-found' not in l),
                                wall_s=round(time.time() - t0, 1))
            detail = [l for l in o.split('\n') if l.startswith('  ')][:2]
            if detail:
                results[pid]['detail'] = detail
            print(pid, results[pid]['exit'], results[pid]['violations'], results[pid]['with_failing_input'], results[pid].get('detail', [''])[0][:160])
    finally:
        sh("git -C /repo checkout -- .")
        # evidence files were rewritten by the runs on the modified tree: restore the committed ones
        sh("git checkout -- evidence", cwd=ROOT)
    meta['checks_on_changed_tree'] = results
    meta['caught_by'] = [p for p, r in results.items() if r['exit'] != 0]
    meta['caught_by_target_check'] = results.get(prop, {}).get('exit', 0) != 0
    meta['ran'].append("git -C /repo apply patch.diff; ./check <id> quick for the ids listed; git -C /repo checkout -- .")
    json.dump(meta, open(os.path.join(dst, 'meta.json'), 'w'), indent=1)
    print("caught by:", meta['caught_by'])

if __name__ == '__main__':
    main()

"""Script generation for the 12.48in driver (epd12in48b_v2): the counterpart of gen.py for the one
driver that does not implement the WaveshareDisplay traits.

Case header:  case <id> panel=epd12in48b_v2 delay=none busy=m:<M1>/<S1>/<M2>/<S2> fault=<none|op:k> scribble=<0|1>
  busy: one raw level stream per busy input (1 = high = ready); once exhausted a line alternates
        high, low, high, ...  All four lines are always polled together, so a wait loop terminates
        iff the four stream lengths end up with the same parity (otherwise: DIVERGED).
  fault op:k: the k-th SpiBus::write (0-based) of op number `op` returns Err.
"""
import gen
from gen import Rng, buf

PANEL = 'epd12in48b_v2'
W, H = 1304, 984
SX, SY = 648, 492          # the seams
ROW = W // 8               # 163 bytes per full row
FULL = ROW * H             # 160392
U32 = 4294967296

def case(cid, ops, busy='m:///', fault='none', scribble=0):
    lines = ["case %s panel=%s delay=none busy=%s fault=%s scribble=%d" % (cid, PANEL, busy, fault, scribble)]
    lines += [' '.join(str(x) for x in o) for o in ops]
    lines.append('end')
    return '\n'.join(lines)

# ---------------------------------------------------------------- arguments
CONFIGS = [(kw, r, bd, ext) for kw in '01' for r in '01' for bd in ('bd', 'k', 'w', 'r') for ext in '01']

GOOD_WINDOWS = [
    (640, 490, 16, 4),        # straddles both seams (canonical)
    (8, 4, 64, 2),            # inside S2
    (0, 0, 8, 1), (640, 491, 8, 1),
    (648, 0, 8, 1), (1296, 0, 8, 3), (656, 10, 64, 5),          # inside M2
    (0, 492, 8, 1), (16, 980, 8, 4),                            # inside M1
    (1296, 983, 8, 1), (648, 492, 656, 492),                    # inside S1 (whole S1)
    (640, 10, 16, 3), (0, 100, 1304, 2),                        # straddle x = 648
    (8, 490, 8, 4), (656, 491, 16, 2),                          # straddle y = 492
    (0, 0, 1304, 984),                                          # everything
    (0, 255, 8, 2), (248, 0, 16, 1),                            # byte boundaries of the window registers
    (8, 250, 16, 6), (8, 256, 16, 4), (8, 506, 16, 6), (8, 512, 16, 4), (8, 762, 16, 6), (8, 768, 16, 4),   # ending at / starting at 256, 512, 768 (y)
    (240, 6, 16, 3), (256, 6, 16, 3), (496, 6, 16, 3), (512, 6, 16, 3), (752, 6, 24, 3), (1016, 6, 16, 3), (1024, 6, 16, 3), (1272, 6, 24, 3),  # (x)
    (16, 3, 8, 258), (0, 9, 264, 2),                            # taller / wider than 255
]
BAD_WINDOWS = [
    (3, 0, 8, 1), (8, 8, 12, 3), (4, 4, 4, 4),                  # not 8-aligned
    (0, 0, 0, 1), (0, 0, 8, 0), (0, 0, 0, 0), (648, 492, 0, 0), # zero size
    (1304, 0, 8, 1), (0, 984, 8, 1), (2000, 2000, 8, 8),        # outside
    (1296, 0, 16, 2), (0, 980, 8, 8), (1200, 900, 208, 168),    # partly outside
    (0, 0, 1312, 1), (0, 0, 2608, 2),                           # wider than the panel
    (U32 - 8, 0, 8, 1), (U32 - 8, 0, 16, 1), (0, U32 - 1, 8, 2), (0, U32 - 1, 8, 1),   # x+w / y+h overflow
    (U32 - 16, 0, 8, 1), (0, U32 - 2, 8, 1), (8, 8, U32 - 8, 1), (8, 8, 8, U32 - 8),   # just below / at overflow
    (0, 0, U32 - 8, U32 - 1),
]
UNALIGNED_REFRESH = [(3, 5, 10, 7), (645, 489, 7, 7), (1, 1, 1, 1), (647, 491, 2, 2), (1303, 983, 1, 1)]

def clip(x, y, w, h):
    """(top_rows, bottom_rows, left_bytes, right_bytes) as write_window_data computes them
    (None when x+w or y+h overflows u32)."""
    if x + w >= U32 or y + h >= U32:
        return None
    def ov(a, n, lo, hi):
        return max(0, min(a + n, hi) - max(a, lo))
    return ov(y, h, 0, SY), ov(y, h, SY, H), ov(x, w, 0, SX) // 8, ov(x, w, SX, W) // 8

def window_bufs(win, thorough):
    """buffer lengths to try for a window"""
    x, y, w, h = win
    c = clip(*win)
    nominal = (w // 8) * h if w < 100000 and h < 100000 else 16
    if nominal > 2 * FULL:
        nominal = 16
    out = [nominal]
    if c is None:
        return out + ([0] if thorough else [])
    top, bot, lb, rb = c
    stride, rows = lb + rb, top + bot
    if stride * rows != nominal and stride * rows > 0:
        out.append(stride * rows)
    if thorough:
        out += [0, 1]
        if stride > 0 and rows > 0:
            out += [stride, stride * 3, stride * rows + 5, stride + 1, stride * 2 - 1, stride * rows - 1,
                    max(1, stride // 2), max(1, lb), max(1, rb)]
    seen, res = set(), []
    for n in out:
        if n not in seen and n >= 0:
            seen.add(n)
            res.append(n)
    return res

FRAME_BUFS = [FULL, ROW * 4, ROW, ROW * 7, ROW * SY, FULL + 5, 0, 1, 100, 200, ROW * 2 + 1, 81, 82, 162, 164,
              ROW * 983, FULL - 1]
LUTS = [('set_lutc', 60), ('set_lutww', 42), ('set_lutkw_lutr', 60), ('set_lutwk_lutw', 60),
        ('set_lutkk_lutk', 60), ('set_lutbd', 42)]

def win(t):
    return [str(v) for v in t]

def op_variants(malformed=True):
    """name -> list of op token lists (first = canonical)"""
    V = {}
    V['reset'] = [['reset']]
    cfgs = CONFIGS if malformed else [CONFIGS[0], CONFIGS[13], CONFIGS[22], CONFIGS[31]]
    V['init'] = [['init'] + list(c) for c in cfgs]
    V['set_mode'] = [['set_mode'] + list(c) for c in ([CONFIGS[21]] + list(cfgs))]
    fb = FRAME_BUFS if malformed else FRAME_BUFS[:4]
    V['write_data1'] = [['write_data1', buf(n, 'r', 1)] for n in fb]
    V['write_data2'] = [['write_data2', buf(n, 'r', 2)] for n in fb]
    wins = GOOD_WINDOWS + (BAD_WINDOWS if malformed else [])
    thorough = {GOOD_WINDOWS[0], GOOD_WINDOWS[1], (656, 10, 64, 5), (16, 980, 8, 4), (1296, 0, 16, 2),
                (1200, 900, 208, 168), (0, 100, 1304, 2)}
    for name, seed in (('write_data1_partial', 3), ('write_data2_partial', 4)):
        V[name] = []
        for wn in wins:
            for n in window_bufs(wn, malformed and wn in thorough):
                V[name].append([name, buf(n, 'r', seed)] + win(wn))
    for name, reqd in LUTS:
        lens = [reqd, 10, 0, 1, reqd - 1, reqd + 1, 100, 300] if malformed else [reqd, 10]
        V[name] = [[name, buf(n, 'r', 5)] for n in lens]
    for s in ('refresh_display', 'begin_refresh_display', 'power_off', 'hibernate', 'get_busy', 'is_busy',
              'get_status'):
        V[s] = [[s]]
    rw = [(640, 490, 16, 4)] + [w for w in wins if w != (640, 490, 16, 4)] + (UNALIGNED_REFRESH if malformed else [])
    V['refresh_display_partial'] = [['refresh_display_partial'] + win(w) for w in rw]
    V['begin_refresh_display_partial'] = [['begin_refresh_display_partial'] + win(w) for w in rw]
    return V

def canon_ops():
    V = op_variants(False)
    ops = [V[name][0] for name in V]
    # the first write_data1 is the full frame; keep write_data2 cheap to generate but still complete
    ops = [(['write_data2', buf(ROW * 4, 'r', 2)] if o[0] == 'write_data2' else o) for o in ops]
    return ops

INIT = ['init', '0', '0', 'bd', '0']
RECOVERY = [['reset'], INIT, ['write_data1', buf(ROW * 2, 'r', 20)], ['refresh_display']]

# ---------------------------------------------------------------- suites
def suite_basic():
    """new; op for every variant (malformed arguments included); ops on a missing driver; and every
    canonical op on a reset + initialised driver."""
    out = []
    V = op_variants(True)
    i = 0
    for name in V:
        for v in V[name]:
            out.append(case("b%d" % i, [['new'], v]))
            i += 1
    out.append(case("b%d" % i, [['reset'], INIT, ['get_busy'], ['new'], ['get_busy']]))
    i += 1
    for o in canon_ops():
        out.append(case("b%d" % i, [['new'], ['reset'], INIT, o]))
        i += 1
    return out

# calls that panic part-way: what they leave behind is visible in the calls that follow
PANICKING = [
    ['write_data1', buf(200, 'r', 1)],                                   # second row of S2 out of range
    ['write_data1', buf(0, 'r', 1)],                                     # assert, nothing sent
    ['write_data2', buf(ROW * 2 + 1, 'r', 2)],                           # wraps to an odd offset late
    ['write_data1_partial', buf(8, 'r', 3), '3', '0', '8', '1'],         # alignment check, nothing sent
    ['write_data1_partial', buf(8, 'r', 3), str(U32 - 8), '0', '16', '1'],  # overflow after PartialIn
    ['write_data2_partial', buf(7, 'r', 4)] + win((640, 490, 16, 4)),    # last row of S1 out of range
    ['write_data2_partial', buf(0, 'r', 4)] + win((640, 490, 16, 4)),    # assert after the window setup
    ['write_data1_partial', buf(5, 'r', 3)] + win((8, 4, 64, 2)),        # first row out of range
    ['refresh_display_partial'] + win((0, U32 - 1, 8, 2)),               # overflow, nothing sent
]
FOLLOW = [['get_status'], INIT, ['set_lutc', buf(60, 'r', 5)], ['reset'], ['refresh_display'],
          ['write_data1_partial', buf(8, 'r', 3)] + win((640, 490, 16, 4)), ['power_off'],
          ['set_mode', '1', '1', 'r', '1'], ['get_busy'], ['hibernate']]

def suite_chain():
    """for every canonical A: new; A; every canonical op.  Plus: a panicking call followed by each
    of a set of next calls (the control_state / pins it leaves behind)."""
    out = []
    ops = canon_ops()
    for i, a in enumerate(ops):
        out.append(case("c%d" % i, [['new'], a] + ops))
    i = len(ops)
    for p in PANICKING:
        for f in FOLLOW:
            out.append(case("c%d" % i, [['new'], INIT, p, f, ['get_status'], ['refresh_display']]))
            i += 1
        out.append(case("c%d" % i, [['new'], p] + FOLLOW))
        i += 1
        # a second driver constructed over the same pins: control_state restarts at 0 while the pins
        # stay where the first one left them
        out.append(case("c%d" % i, [['new'], INIT, p, ['new'], FOLLOW[i % len(FOLLOW)], ['get_status'], INIT]))
        i += 1
    return out

# number of SpiBus::write calls of the canonical ops
def n_writes(o):
    name = o[0]
    if name in ('reset', 'get_busy', 'is_busy'):
        return 0
    if name == 'init':
        return 30
    if name == 'set_mode':
        return 10
    if name.startswith('set_lut'):
        return 3
    if name in ('refresh_display', 'begin_refresh_display'):
        return 2
    if name in ('refresh_display_partial', 'begin_refresh_display_partial'):
        return 12
    if name == 'power_off':
        return 1
    if name == 'hibernate':
        return 3
    if name == 'get_status':
        return 4
    if name in ('write_data1', 'write_data2'):
        return 4 + 2 * H
    if name in ('write_data1_partial', 'write_data2_partial'):
        c = clip(*[int(v) for v in o[2:6]])
        top, bot, lb, rb = c
        n = 1 + 8 + 1
        for rows in (top, bot):
            for b in (lb, rb):
                if rows > 0 and b > 0:
                    n += 1 + rows
        return n
    raise KeyError(name)

def fault_points(o, rng):
    n = n_writes(o)
    if n <= 40:
        return list(range(n + 1))            # every write, and one past the end (no fault)
    if o[0] in ('write_data1', 'write_data2'):
        # cmd S2 = 0, rows 1..492, cmd M2 = 493, rows 494..985, cmd M1 = 986, rows .., cmd S1 = 1479, rows ..1971
        ks = [0, 1, 2, SY, SY + 1, SY + 2, 2 * SY + 1, 2 * SY + 2, 2 * SY + 3, 3 * SY + 2, 3 * SY + 3, 3 * SY + 4,
              n - 2, n - 1, n, n + 7]
        ks += [rng.below(n) for _ in range(4)]
        return sorted(set(ks))
    return sorted(set([0, 1, 2, 9, 10, 11, n - 2, n - 1, n] + [rng.below(n) for _ in range(4)]))

def suite_fault(rng):
    """for every canonical op: the k-th SPI write fails (every command/parameter write; first, last and
    sampled row writes), followed by the recovery suffix; and followed directly by calls that do
    not reset first."""
    out = []
    i = 0
    ops = canon_ops()
    ops.append(['write_data2_partial', buf(ROW * 3, 'r', 4)] + win((0, 490, 1304, 4)))
    for a in ops:
        if n_writes(a) == 0:
            continue
        for k in fault_points(a, rng):
            out.append(case("f%d" % i, [['new'], a] + RECOVERY, fault="1:%d" % k))
            i += 1
            if k % 3 == 0 or n_writes(a) <= 12:
                nxt = FOLLOW[(i + k) % len(FOLLOW)]
                out.append(case("f%d" % i, [['new'], ['reset'], INIT, a, nxt, ['get_status'], ['get_busy']] + RECOVERY,
                                fault="3:%d" % k))
                i += 1
    # a failing call after a failing... only one fault per case: fail inside the recovery itself
    for k in (0, 1, 5, 29):
        out.append(case("f%d" % i, [['new'], ['reset'], INIT, ['refresh_display']] + RECOVERY, fault="2:%d" % k))
        i += 1
    return out

def busy_spec(rng, same_parity=True, maxlen=12):
    par = rng.below(2)
    parts = []
    for _ in range(4):
        n = rng.below(maxlen)
        if same_parity and n % 2 != par:
            n += 1
        parts.append(''.join(str(rng.below(2)) for _ in range(n)))
    return 'm:' + '/'.join(parts)

ENV_OPS = [['new'], ['get_busy'], ['reset'], INIT, ['write_data1_partial', buf(8, 'r', 3)] + win((640, 490, 16, 4)),
           ['is_busy'], ['refresh_display'], ['get_busy'], ['is_busy'], ['refresh_display_partial'] + win((8, 4, 64, 2)),
           ['get_busy'], ['begin_refresh_display'], ['is_busy'], ['get_busy'], ['power_off'], ['get_busy'],
           ['begin_refresh_display_partial'] + win((640, 490, 16, 4)), ['is_busy'], ['hibernate'], ['is_busy'],
           ['get_busy'], ['get_status']]

def suite_env(rng):
    out = []
    fixed = ['m:///', 'm:0/0/0/0', 'm:1/1/1/1', 'm:0000/0000/0000/0000', 'm:01/10/11/00', 'm:0011/1100/1010/0101',
             'm:00000000/11/0101/1100', 'm:1/011/1/110', 'm:11111111/11111111/11111111/11111111',
             'm:000000000000000000000000000000/00/0000/000000',
             # lengths of different parity: the four lines are never all high again -> DIVERGED
             'm:0///', 'm:/0//', 'm://0/', 'm:///0', 'm:00/0/00/00', 'm:1111/111/1111/1111', 'm:1/1/1/',
             'm:010/01/0/']
    i = 0
    for b in fixed:
        out.append(case("e%d" % i, ENV_OPS, busy=b))
        i += 1
    for _ in range(16):
        out.append(case("e%d" % i, ENV_OPS, busy=busy_spec(rng, True, 2 + rng.below(40))))
        i += 1
    for _ in range(6):
        out.append(case("e%d" % i, ENV_OPS, busy=busy_spec(rng, False, 10)))
        i += 1
    return out

def suite_rand(rng, n=60, maxlen=8):
    out = []
    V = op_variants(True)
    names = list(V.keys())
    cheap = op_variants(False)
    for i in range(n):
        ops = [['new']]
        if rng.below(3) > 0:
            ops += [['reset'], INIT]
        for _ in range(1 + rng.below(maxlen)):
            nm = rng.choice(names)
            # the 160 kB frames are expensive: mostly draw them from the short list
            if nm in ('write_data1', 'write_data2') and rng.below(4) > 0:
                ops.append(rng.choice(cheap[nm][1:]))
            else:
                ops.append(rng.choice(V[nm]))
        b = busy_spec(rng, rng.below(8) > 0, 1 + rng.below(20)) if rng.below(3) > 0 else 'm:///'
        fault = 'none'
        if rng.below(2) == 0:
            oi = 1 + rng.below(len(ops) - 1)
            nw = 0
            try:
                nw = n_writes(ops[oi])
            except Exception:
                nw = 12
            fault = "%d:%d" % (oi, rng.below(max(1, min(nw, 40)) + 1))
        out.append(case("r%d" % i, ops, busy=b, fault=fault, scribble=rng.below(2)))
    return out

def suite(name, rng):
    if name == 'basic':
        return suite_basic()
    if name == 'chain':
        return suite_chain()
    if name == 'env':
        return suite_env(rng)
    if name in ('fault', 'faultdense'):
        return suite_fault(rng)
    if name == 'rand':
        return suite_rand(rng)
    if name == 'pairs':
        ops = canon_ops()
        return [case("p%d" % (i * len(ops) + j), [['new'], a, b]) for i, a in enumerate(ops) for j, b in enumerate(ops)]
    raise KeyError(name)

if __name__ == '__main__':
    import sys
    nm = sys.argv[1] if len(sys.argv) > 1 else 'basic'
    print('\n'.join(suite(nm, Rng(int(sys.argv[2]) if len(sys.argv) > 2 else 1))))

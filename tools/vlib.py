"""Shared machinery of ./check: proof status, cached correspondence runs, findings, evidence."""
import os, sys, re, json, time, hashlib, subprocess, fcntl, glob
sys.path.insert(0, os.path.dirname(os.path.abspath(__file__)))
import corr, gen
from panels import PANELS, BY_NAME

ROOT = corr.ROOT
WORK = corr.WORK
COQ = os.path.join(ROOT, 'coq')

TRUSTED_BASE = [
    "Coq 8.16.1 kernel incl. its vm_compute machine (native_compute not used)",
    "axioms: none (every Print Assumptions must say 'Closed under the global context')",
    "hand-written Gallina models of the drivers / interface.rs / graphics.rs / color.rs / rect.rs: tied to /repo only by the correspondence check (differential, sampled)",
    "controller specifications (SSD-type / UC-type command semantics, busy-raising commands, deep-sleep codes): written from datasheet knowledge, assumptions",
    "extraction (ExtrOcamlBasic only; no Extract Constant / custom Extract Inductive), OCaml 4.13.1, ocaml/driver.ml + util.ml glue",
    "Rust harness with recording embedded-hal mocks (defines what 'the wire' is), rustc/cargo",
    "tools/*.py (script generation, projections, oracles on traces)",
]

def sh(cmd, timeout=None):
    return subprocess.run(cmd, shell=True, stdout=subprocess.PIPE, stderr=subprocess.STDOUT, text=True,
                          env=corr.ENV, timeout=timeout)

class Lock:
    def __init__(self, name):
        os.makedirs(WORK, exist_ok=True)
        self.path = os.path.join(WORK, name + '.lock')
    def __enter__(self):
        self.f = open(self.path, 'w')
        fcntl.flock(self.f, fcntl.LOCK_EX)
        return self
    def __exit__(self, *a):
        fcntl.flock(self.f, fcntl.LOCK_UN)
        self.f.close()

# ------------------------------------------------------------------ proofs
FORBIDDEN = re.compile(r'\b(Admitted|admit|Axiom|Axioms|Parameter|Parameters|Conjecture|Conjectures)\b|Unset\s+Guard|bypass_check|type-in-type|impredicative-set|Admit\s+Obligations')

def strip_comments(src):
    out = []
    depth = 0
    i = 0
    while i < len(src):
        if src.startswith('(*', i):
            depth += 1
            i += 2
        elif src.startswith('*)', i) and depth > 0:
            depth -= 1
            i += 2
        else:
            if depth == 0:
                out.append(src[i])
            i += 1
    return ''.join(out)

def forbidden_scan():
    bad = []
    for path in glob.glob(os.path.join(COQ, '**', '*.v'), recursive=True):
        code = strip_comments(open(path).read())
        # "Print Assumptions" output words never appear in sources; strings are not used for these words
        for m in FORBIDDEN.finditer(code):
            line = code[:m.start()].count('\n') + 1
            bad.append("%s:%d: %s" % (os.path.relpath(path, ROOT), line, m.group(0)))
    return bad

def proof_status(prop_files, clean=False):
    """Build the given Properties files (and what they depend on) and inspect them.
    -> dict(ok, obligations, discharged, theorems, problems, checker_cmd, wall_s)"""
    t0 = time.time()
    problems = []
    with Lock('coq'):
        if not os.path.exists(os.path.join(COQ, 'Makefile')):
            sh("cd %s && coq_makefile -f _CoqProject -o Makefile" % COQ)
        if clean:
            # thorough tier: rebuild the whole development from clean - once per state of the sources (the stamp is keyed
            # by the content hash of coq/), not once per property
            stamp = os.path.join(WORK, 'clean-' + tree_hash([COQ]) + '.stamp')
            if not os.path.exists(stamp):
                sh("cd %s && make clean" % COQ)
                r0 = sh("cd %s && timeout 5400 make -j16" % COQ)
                if r0.returncode == 0:
                    open(stamp, 'w').write(str(time.time()))
                else:
                    problems.append("clean rebuild of the whole development failed: " + r0.stdout[-600:])
        targets = ' '.join(f[:-2] + '.vo' for f in prop_files)
        r = sh("cd %s && timeout 3000 make -j16 %s" % (COQ, targets))
        if r.returncode != 0:
            err = [l for l in r.stdout.split('\n') if l.strip() and not l.startswith(('COQC', 'COQDEP', 'make'))]
            problems.append("coq build failed: " + ' | '.join(err[-12:]))
        theorems = []
        closed = 0
        open_ax = []
        for f in prop_files:
            src = strip_comments(open(os.path.join(COQ, f)).read())
            ths = re.findall(r'^\s*Theorem\s+([A-Za-z0-9_\']+)', src, re.M)
            theorems += ths
            pa = re.findall(r'Print Assumptions\s+([A-Za-z0-9_\']+)', src)
            missing = [t for t in ths if t not in pa]
            if missing:
                problems.append("%s: no Print Assumptions for %s" % (f, ','.join(missing)))
            if r.returncode == 0:
                r2 = sh("cd %s && timeout 3000 coqc -Q . EPD %s" % (COQ, f))
                if r2.returncode != 0:
                    problems.append("%s does not compile: %s" % (f, r2.stdout[-600:]))
                else:
                    c = r2.stdout.count('Closed under the global context')
                    closed += c
                    if c != len(pa):
                        ax = re.findall(r'Axioms:\n((?:.+\n)+)', r2.stdout)
                        open_ax.append("%s: %d of %d theorems closed; %s" % (f, c, len(pa), ' '.join(a.strip() for a in ax)[:600]))
        if open_ax:
            problems += open_ax
    if clean and not problems:
        # independent re-check (coqchk -o) of every Properties module and, recursively, everything they depend on
        # (all 30 panel verdicts: ~30 min), with the axioms relied upon - once per state of the sources
        mods = ' '.join('EPD.Properties.' + os.path.basename(f)[:-2] for f in sorted(glob.glob(os.path.join(COQ, 'Properties', '*.v'))))
        stamp = os.path.join(WORK, 'coqchk-' + tree_hash([COQ]) + '.txt')
        with Lock('coqchk'):
            if not os.path.exists(stamp):
                r3 = sh("cd %s && timeout 9000 coqchk -silent -o -Q . EPD %s 2>&1 | tail -15" % (COQ, mods))
                out = r3.stdout
                ok = 'Axioms: <none>' in out and 'type-in-type: <none>' in out and 'unsafe (co)fixpoints: <none>' in out and 'positivity is assumed: <none>' in out
                open(stamp, 'w').write(('OK\n' if ok else 'FAILED\n') + out)
        if not open(stamp).read().startswith('OK'):
            problems.append("coqchk over all Properties modules did not report a clean context: " + open(stamp).read()[-500:])
    bad = forbidden_scan()
    if bad:
        problems.append("forbidden vernacular: " + '; '.join(bad[:10]))
    n = len(theorems)
    return dict(ok=not problems, obligations=n, discharged=(n if not problems else min(closed, n)),
                theorems=theorems, problems=problems,
                checker_cmd="make -C coq %s && coqc -Q coq EPD <Properties file> (Print Assumptions) + forbidden-vernacular scan" % targets,
                wall_s=time.time() - t0)

# ------------------------------------------------------------------ tree hashes
def tree_hash(paths):
    h = hashlib.sha256()
    for base in paths:
        if os.path.isfile(base):
            files = [base]
        else:
            files = []
            for d, dn, fs in os.walk(base):
                dn[:] = sorted(x for x in dn if x not in ('target', 'gen', '.git', '__pycache__', 'work'))
                for f in sorted(fs):
                    if f.endswith(('.vo', '.vok', '.vos', '.glob', '.aux', '.o', '.cmx', '.cmi', '.cmo', '.lock')) or f in ('driver', 'Makefile', 'Makefile.conf', '.Makefile.d', '.lia.cache', '.nia.cache'):
                        continue
                    files.append(os.path.join(d, f))
        for f in files:
            h.update(f.encode())
            try:
                h.update(open(f, 'rb').read())
            except OSError:
                pass
    return h.hexdigest()[:24]

def repo_hash():
    return tree_hash(['/repo/src', '/repo/Cargo.toml', '/repo/Cargo.lock'])

def verif_hash():
    return tree_hash([os.path.join(ROOT, x) for x in ('coq', 'ocaml', 'harness/src', 'harness/Cargo.toml', 'tools')])

# ------------------------------------------------------------------ cached correspondence runs
FEAT_PANELS = {'v3': None, 'v2': ['epd2in13_v2'], 'alt': ['epd1in54', 'epd2in9']}

def panels_for(feat):
    names = FEAT_PANELS[feat]
    ps = [p for p in PANELS if not getattr(p, 'big', False)]
    return ps if names is None else [p for p in ps if p.name in names]

class Run:
    """Result of running suites for all panels under one feature set."""
    def __init__(self, d):
        self.__dict__.update(d)

def corr_run(suites, seed, tier, feats=('v3', 'v2', 'alt')):
    """Runs (or loads) the correspondence for the given suites.  Returns dict with
       tasks: [{panel, feat, suite, script, real, model, cases, ops}], mismatches: [...], errors"""
    key = hashlib.sha256(('|'.join([repo_hash(), verif_hash(), ','.join(suites), str(seed), tier, ','.join(feats)])).encode()).hexdigest()[:20]
    cdir = os.path.join(WORK, 'corr-' + key)
    idx = os.path.join(cdir, 'index.json')
    with Lock('corr'):
        if os.path.exists(idx):
            return json.load(open(idx))
        os.makedirs(cdir, exist_ok=True)
        t0 = time.time()
        mexe, log = corr.build_model()
        result = dict(tasks=[], mismatches=[], errors=[], key=key, dir=cdir)
        if not mexe:
            result['errors'].append("model build failed: " + log[-1500:])
            json.dump(result, open(idx, 'w'))
            return result
        for feat in feats:
            hexe, err = corr.build_harness(feat)
            if not hexe:
                result['errors'].append("harness build failed (%s): %s" % (feat, err[-1500:]))
                continue
            tasks, mism, errs = run_tasks(panels_for(feat), feat, suites, seed, hexe, mexe, cdir)
            result['tasks'] += tasks
            result['mismatches'] += mism
            result['errors'] += errs
        result['wall_s'] = time.time() - t0
        json.dump(result, open(idx, 'w'))
        # prune old cache dirs (keep the 6 most recent)
        dirs = sorted(glob.glob(os.path.join(WORK, 'corr-*')), key=os.path.getmtime)
        for d in dirs[:-6]:
            sh("rm -rf %s" % d)
        return result

_PLANS = {}
def fault_plan(p, feat, hexe, cdir):
    """fault points per call from the fault-free REAL traces of `new; op` (every canonical op): {op text: [k..], 'new': [k..]}"""
    key = (p.name, feat, hexe)
    if key in _PLANS:
        return _PLANS[key]
    cases = gen.suite_faultprobe(p)
    path = os.path.join(cdir, "%s-%s-faultprobe.script" % (p.name, feat))
    open(path, 'w').write('\n'.join(cases) + '\n')
    r = subprocess.run([hexe, 'run', path], stdout=subprocess.PIPE, stderr=subprocess.PIPE, text=True, env=dict(os.environ, EPD_FEAT=feat))
    plan = {}
    try:
        out = corr.parse_out(r.stdout)
        ops = gen.fault_ops(p)
        def get(cid):
            for k2, v2 in out.items():
                if k2.split(' ')[0] == cid:
                    return v2
            return None
        def ok(o):
            return o[3] is not None and o[3].startswith('OK')
        base = {}
        for i, a in enumerate(ops):
            c = get("q%d" % i)
            if not c:
                continue
            if 'new' not in plan and ok(c[0]):
                plan['new'] = gen.transfer_points(c[0][2])
            if len(c) > 1 and ok(c[1]):
                plan[' '.join(a)] = gen.transfer_points(c[1][2])
                base[i] = c[1][2]
        for j, pre in enumerate(gen.fault_prefixes(p)):
            for i, a in enumerate(ops):
                c = get("r%d_%d" % (j, i))
                if not c or len(c) != 2 + len(pre) or not all(ok(o) for o in c):
                    continue
                if c[-1][2] != base.get(i):
                    plan['P%d|%s' % (j, ' '.join(a))] = gen.transfer_points(c[-1][2], cap=60)
    except Exception as e:          # a broken probe must not hide faults: fall back to the fixed list
        plan = {}
    _PLANS[key] = plan
    return plan

def suite_cases(p, s, seed, feat=None, hexe=None, cdir=None):
    rng = gen.Rng(seed * 1000003 + corr.hash_name(p.name + s))
    if getattr(p, 'big', False):
        import gen_big
        return gen_big.suite(s, rng)
    plan = None
    if s in ('fault', 'faultdense') and hexe:
        plan = fault_plan(p, feat, hexe, cdir)
    return gen.suite(p, s, rng, plan=plan)

def run_tasks(panels, feat, suites, seed, hexe, mexe, cdir, jobs=16):
    from concurrent.futures import ThreadPoolExecutor
    tasks = []
    for p in panels:
        for s in suites:
            cases = suite_cases(p, s, seed, feat, hexe, cdir)
            n = max(1, min(8, len(cases) // 60))
            for i in range(n):
                part = cases[i::n]
                if not part:
                    continue
                base = os.path.join(cdir, "%s-%s-%s-%d" % (p.name, feat, s, i))
                text = '\n'.join(part) + '\n'
                open(base + '.script', 'w').write(text)
                tasks.append(dict(panel=p.name, feat=feat, suite=s, script=base + '.script', real=base + '.real',
                                  model=base + '.model', cases=len(part)))
    errs = []
    mism = []
    def work(t):
        rt, mt, re_, me = corr.run_both(hexe, mexe, feat, t['script'])
        open(t['real'], 'w').write(rt)
        open(t['model'], 'w').write(mt)
        nops, mm = corr.compare(t['panel'], feat, t['suite'], open(t['script']).read(), rt, mt)
        t['ops'] = nops
        out = []
        for m in mm:
            fd = corr.first_diff(m.real, m.model)
            out.append(dict(panel=m.panel, feat=m.feat, suite=m.suite, case=m.cid, opidx=m.opidx, op=m.opname,
                            projs=m.projs, rres=m.rres, mres=m.mres, script=m.script,
                            first_diff=(list(fd) if fd else None)))
        e = []
        if me.strip():
            e.append("model stderr %s: %s" % (t['script'], me.strip()[-300:]))
        if re_.strip():
            e.append("harness stderr %s: %s" % (t['script'], re_.strip()[-300:]))
        return out, e
    with ThreadPoolExecutor(max_workers=jobs) as ex:
        for out, e in ex.map(work, tasks):
            mism += out
            errs += e
    return tasks, mism, errs

def iter_real(run, suites=None, panels=None):
    """yield (task, case_id, header_line, ops) over the REAL traces of a run"""
    for t in run['tasks']:
        if suites and t['suite'] not in suites:
            continue
        if panels and t['panel'] not in panels:
            continue
        heads = {}
        for line in open(t['script']):
            if line.startswith('case '):
                heads[line.split(' ')[1]] = line.strip()
        R = corr.parse_out(open(t['real']).read())
        for cid, ops in R.items():
            yield t, cid, heads.get(cid, ''), ops

def case_script(t, cid):
    out = []
    on = False
    for line in open(t['script']):
        if line.startswith('case '):
            on = line.split(' ')[1] == cid
        if on:
            out.append(line.rstrip('\n'))
            if line.strip() == 'end':
                break
    return '\n'.join(out)

# ------------------------------------------------------------------ findings
def load_findings():
    path = os.path.join(ROOT, 'known_findings.txt')
    out = []
    if not os.path.exists(path):
        return out
    for line in open(path):
        line = line.strip()
        if not line.startswith('finding:'):
            continue
        body, _, text = line[len('finding:'):].partition('::')
        kv = dict(re.findall(r'(\w+)=("[^"]*"|\S+)', body))
        kv = {k: v.strip('"') for k, v in kv.items()}
        kv['text'] = text.strip()
        out.append(kv)
    return out

def sig_matches(f, v):
    import fnmatch
    for k in ('property', 'panel', 'site', 'clause'):
        if f.get(k, '*') == '*':
            continue
        if k == 'clause' and '*' in f[k]:
            if not fnmatch.fnmatchcase(str(v.get(k, '')), f[k]):
                return False
        elif f.get(k) != v.get(k):
            return False
    if 'class' in f and f['class'] not in ('*', v.get('class', '')):
        return False
    return True

# ------------------------------------------------------------------ verdicts + evidence
def finish(prop, tier, seed, t0, proof, violations, coverage, assumptions, level='proof', notes=None):
    """violations: list of dict(property, panel, site, clause, class, detail, replay(dict))
       Prints KNOWN-FINDING / VIOLATION lines, writes evidence, returns exit code."""
    findings = load_findings()
    known, new = {}, []
    for v in violations:
        v['property'] = prop
        f = next((f for f in findings if f.get('property') == prop and sig_matches(f, v)), None)
        if f is not None:
            known.setdefault((f.get('panel'), f.get('site'), f.get('clause'), f.get('class', '')), (f, []))[1].append(v)
        else:
            new.append(v)
    for (panel, site, clause, cls), (f, vs) in sorted(known.items(), key=lambda x: str(x[0])):
        print("KNOWN-FINDING: property=%s panel=%s site=%s clause=%s %s (%d occurrence(s) this run)" % (
            prop, panel, site, clause, f['text'], len(vs)))
    # listed findings that were not observed this run
    # listed findings not re-observed on the implementation by this run's sample of histories: each is
    # witnessed on the model by the theorem <prop>_findings_witnessed / a _refuted theorem, and the model
    # is tied to the implementation by the correspondence (a repaired implementation would break it)
    not_seen = 0
    for f in findings:
        if f.get('property') == prop and not any(sig_matches(f, v) for v in violations):
            not_seen += 1
            print("KNOWN-FINDING: property=%s panel=%s site=%s clause=%s %s (witnessed on the model by theorem %s_findings_witnessed; not re-observed on the implementation by this run's history sample)" % (
                prop, f.get('panel'), f.get('site'), f.get('clause'), f['text'], prop))
    os.makedirs(os.path.join(ROOT, 'replay'), exist_ok=True)
    code = 0
    seen = set()
    n = 0
    for v in new:
        key = (v.get('panel'), v.get('site'), v.get('clause'), v.get('class'))
        if key in seen:
            continue
        seen.add(key)
        n += 1
        if n > 12:
            break
        path = os.path.join(ROOT, 'replay', '%s-%d.json' % (prop, n))
        json.dump(v, open(path, 'w'), indent=1)
        tail = ' no-failing-input-found' if v.get('no_input') else ''
        print("VIOLATION property=%s replay=%s%s" % (prop, path, tail))
        print("  %s %s %s: %s" % (v.get('panel'), v.get('site'), v.get('clause'), str(v.get('detail'))[:300]))
        code = 1
    cov = dict(coverage)
    cov.setdefault('obligations', proof['obligations'])
    cov.setdefault('discharged', proof['discharged'])
    cov.setdefault('checker_cmd', proof['checker_cmd'])
    cov.setdefault('trusted_base', TRUSTED_BASE)
    cov['theorems'] = proof['theorems']
    cov['proof_problems'] = proof['problems']
    cov['known_findings_observed'] = len(known)
    cov['known_findings_listed_not_reobserved'] = not_seen
    if notes:
        cov['notes'] = notes
    ev = dict(property_id=prop, tier=tier, seed=seed, level=level, coverage=cov, assumptions=assumptions,
              wall_s=round(time.time() - t0, 2), violations=len(seen))
    os.makedirs(os.path.join(ROOT, 'evidence'), exist_ok=True)
    json.dump(ev, open(os.path.join(ROOT, 'evidence', prop + '.json'), 'w'), indent=1)
    return code

def proof_violation(prop, proof):
    """a broken proof obligation, to be reported when no concrete failing input is found"""
    return dict(panel='*', site='proof', clause='theorem-does-not-check', no_input=True,
                detail='; '.join(proof['problems'])[:1500],
                replay=dict(kind='proof', theorems=proof['theorems'], problems=proof['problems']))

def corr_violations(prop, mism, projs, ops=None, panels=None):
    """mismatches of the correspondence on the property's projections -> violations without failing input"""
    out = []
    for m in mism:
        if not (set(m['projs']) & set(projs)):
            continue
        if ops and m['op'] not in ops:
            continue
        if panels and m['panel'] not in panels:
            continue
        out.append(dict(panel=m['panel'], site=m['op'], clause='correspondence-' + '+'.join(sorted(set(m['projs']) & set(projs))),
                        no_input=True,
                        detail="model and implementation differ (real %s, model %s); first differing line: %s" % (
                            m['rres'], m['mres'], m['first_diff']),
                        replay=dict(kind='correspondence', panel=m['panel'], feat=m['feat'], suite=m['suite'],
                                    case=m['case'], op_index=m['opidx'], op=m['op'], projections=m['projs'],
                                    first_diff=m['first_diff'], script=m['script'])))
    return out

# ------------------------------------------------------------------ cached oracle runs (real traces -> extracted observer)
def oracle_run(suite, seed, tier, feats=('v3', 'v2', 'alt')):
    """Protocol-respecting histories on the REAL crate, judged by the extracted Coq observer.
    -> dict(fails=[{panel, feat, case, opidx, op, prop, clause, script_path}], stats, errors)"""
    import oracle
    key = hashlib.sha256(('|'.join(['oracle', repo_hash(), verif_hash(), suite, str(seed), tier, ','.join(feats)])).encode()).hexdigest()[:20]
    odir = os.path.join(WORK, 'orc-' + key)
    idx = os.path.join(odir, 'index.json')
    with Lock('corr'):
        if os.path.exists(idx):
            return json.load(open(idx))
        os.makedirs(odir, exist_ok=True)
        t0 = time.time()
        res = dict(fails=[], cases=0, ops=0, errors=[], dir=odir)
        mexe, log = corr.build_model()
        if not mexe:
            res['errors'].append("model build failed: " + log[-1500:])
        else:
            for feat in feats:
                hexe, err = corr.build_harness(feat)
                if not hexe:
                    res['errors'].append("harness build failed (%s): %s" % (feat, err[-1500:]))
                    continue
                for su in (suite, 'win', 'pair', 'tri'):
                    fails, st = oracle.run_oracle(panels_for(feat), feat, su, seed, hexe, mexe, os.path.join(odir, feat))
                    res['fails'] += fails
                    res['cases'] += st['cases']
                    res['ops'] += st['ops']
                    res['errors'] += st['errors']
        res['wall_s'] = time.time() - t0
        json.dump(res, open(idx, 'w'))
        dirs = sorted(glob.glob(os.path.join(WORK, 'orc-*')), key=os.path.getmtime)
        for d in dirs[:-4]:
            sh("rm -rf %s" % d)
        return res

def reach_stats():
    """sizes of the closed reachable sets: [(states, macro steps)] per configuration, printed by Proof/Stats.v"""
    key = os.path.join(WORK, 'stats-' + tree_hash([os.path.join(COQ, 'Proof'), os.path.join(COQ, 'Spec')]) + '.json')
    if os.path.exists(key):
        return json.load(open(key))
    r = sh("cd %s && timeout 600 coqc -Q . EPD Proof/Stats.v" % COQ)
    st = [(int(a), int(b)) for a, b in re.findall(r'\(\s*(\d+),\s*(\d+)\)', r.stdout)]
    if st:
        json.dump(st, open(key, 'w'))
    return st

def known_sync_problem():
    r = sh("cd %s && python3 tools/gen_known.py --check" % ROOT)
    return None if r.returncode == 0 else "coq/Spec/Known.v is out of sync with known_findings.txt (run tools/gen_known.py)"

"""Static description of the 27 trait drivers (+ the 12.48in one) used by the script generators."""

def ceil8(w):
    return (w + 7) // 8

class P:
    def __init__(self, name, W, H, color='bw', three=False, quick=False, extras=(), family='ssd',
                 busy_low=None, frame=None, partial=True, feats=('v3',), big=False):
        self.name, self.W, self.H, self.color = name, W, H, color
        self.three, self.quick, self.extras = three, quick, list(extras)
        self.family = family
        # the PANEL's busy polarity by controller family
        self.busy_low = (family == 'uc') if busy_low is None else busy_low
        self.frame = frame if frame is not None else ceil8(W) * H
        self.partial = partial
        self.feats = feats
        # big: not a WaveshareDisplay trait driver; its scripts come from gen_big.py, never from gen.py
        self.big = big
    @property
    def colors(self):
        return {'bw': ['black', 'white'], 'tri': ['black', 'white', 'chromatic'],
                'oct': ['black', 'white', 'green', 'blue', 'red', 'yellow', 'orange', 'hiz']}[self.color]
    @property
    def busy_cmds(self):
        return ['12', '20', '46', '47'] if self.family == 'ssd' else ['02', '04', '12']

PANELS = [
    P('epd1in02', 80, 128, quick=True, family='uc'),
    P('epd1in54', 200, 200, feats=('v3', 'alt')),
    P('epd1in54_v2', 200, 200),
    P('epd1in54b', 200, 200, three=True, family='uc'),
    P('epd1in54c', 152, 152, three=True, family='uc'),
    P('epd2in13_v2', 122, 250, extras=['set_partial_base_buffer', 'set_refresh'], feats=('v3', 'v2')),
    P('epd2in13b_v4', 122, 250, color='tri', three=True),
    P('epd2in13bc', 104, 212, color='tri', three=True, extras=['set_border_color'], family='uc'),
    P('epd2in66b', 152, 296, color='tri', three=True),
    P('epd2in7', 176, 264, family='uc'),
    P('epd2in7_v2', 176, 264),
    P('epd2in7b', 176, 264, three=True, family='uc',
      extras=['display_partial_frame', 'update_partial_achromatic_frame', 'update_partial_chromatic_frame']),
    P('epd2in9', 128, 296, feats=('v3', 'alt')),
    P('epd2in9_v2', 128, 296, quick=True),
    P('epd2in9b_v4', 128, 296, color='tri', three=True,
      extras=['update_and_display_frame_base', 'display_frame_partial']),
    P('epd2in9bc', 128, 296, three=True, extras=['set_border_color'], family='uc'),
    # busy polarity of the 2.9in D: UNVERIFIED (vendor code and family say busy-low, the driver - presumably
    # tested on hardware, and unable to initialise if wrong - says busy-high): the driver's constant is taken
    P('epd2in9d', 128, 296, family='uc', busy_low=False),
    P('epd3in7', 280, 480),
    P('epd4in2', 400, 300, quick=True, extras=['shift_display'], family='uc'),
    P('epd5in65f', 600, 448, color='oct', family='uc', frame=600 * 448 // 2),
    P('epd5in83_v2', 648, 480, family='uc'),
    P('epd5in83b_v2', 648, 480, three=True, family='uc'),
    P('epd7in3f', 800, 480, color='oct', extras=['show_7block'], family='uc', frame=800 * 480 // 2),
    P('epd7in5', 640, 384, family='uc'),
    P('epd7in5_hd', 880, 528),
    P('epd7in5_v2', 800, 480, family='uc'),
    P('epd7in5b_v2', 800, 480, color='tri', three=True, extras=['update_partial_frame2'], family='uc'),
]
# The 12.48in driver has its own API (tools/gen_big.py, harness/src/big.rs, coq/Big/Model.v).  It is
# deliberately NOT in PANELS, so that code iterating over PANELS keeps seeing the 27 trait drivers only.
BIG = P('epd12in48b_v2', 1304, 984, family='uc', big=True)
ALL_PANELS = PANELS + [BIG]
BY_NAME = {p.name: p for p in ALL_PANELS}

#!/usr/bin/env python3
"""Writes /verif/MANIFEST.json from the table below (run by hand after registering a check)."""
import json, os
ROOT = os.path.dirname(os.path.dirname(os.path.abspath(__file__)))
ALL = ['C%02d' % i for i in range(1, 19)]

TECH = "machine-checked proof in Coq 8.16 (%s) + model/implementation correspondence check (extracted model vs real crate on the same inputs)"

CHECKS = {
 'C10': dict(
    text="Theorems about the model of src/interface.rs (Hal.expand) for ALL transport-call lists, buffer contents and lengths, both write modes, all busy behaviours and injected faults: D/C is driven before every transfer, D/C-low transfers carry one byte, D/C-high transfers 1..4096 bytes, chunks are contiguous, the logical stream equals the intended one, a repeated fill sends exactly n bytes. Tied to the code by the wire-projection correspondence over all 27 trait drivers and by an oracle on every real transfer.",
    ref="DESIGN.md 7 (C10), 5, 13",
    note="Trusted: Coq kernel; hand-written model Hal.v of interface.rs (correspondence is differential testing); Rust harness mocks; Linux chunking branch only.",
    tech=TECH % "induction over item lists with a small program logic for the HAL monad"),
 'C03': dict(
    text="Theorems about the model of graphics.rs set_pixel for ALL widths and heights up to i32::MAX (any padding), all four rotations, all three colour types and every colour, both bwrbit values, every i32 point and every buffer content: in-bounds points change exactly the bits of the one physical pixel the rotation maps them to (to the colour's encoding in every plane) and nothing else, out-of-bounds points change nothing, no panic and no write outside buffer(), size() swaps for 90/270; the rotation is a bijection. Instantiated for the 27 shipped aliases. Tied to the code by exhaustive per-alias sweeps, VarDisplay geometry sweeps and i32 extremes answered by the real crate and the extracted model.",
    ref="DESIGN.md 7 (C03), 5.4, 13",
    note="Trusted: Coq kernel; hand-written model Pure/Graphics.v + Pure/Color.v bitmask (pure correspondence is differential testing); widths >= 2^31 are outside the model.",
    tech=TECH % "bit-level lemmas + linear arithmetic, no enumeration over geometries"),
 'C13': dict(
    text="Theorems for ALL widths/heights: buffer_len and buffer_size are exactly planes x rows x least padded row bytes, tricolour buffers split in two equal halves, VarDisplay::new accepts iff the slice holds every plane, every pixel of an accepted buffer is drawable in-slice and the last pixel touches the last byte (tightness); the 27 alias BYTECOUNT expressions evaluate to that size. Tied to the code by alias-constant queries (size, default all-zero, halves), VarDisplay::new sweeps and buffer_len sweeps on the real crate vs the extracted model.",
    ref="DESIGN.md 7 (C13), 5.4, 13",
    note="Trusted: Coq kernel; hand-written models Pure/Graphics.v, Pure/Aliases.v; 'starts all-zero' / 'dimensions the driver reports' are decided by the correspondence queries, not by a theorem; 64-bit usize.",
    tech=TECH % "linear arithmetic over N; closed computation for the 27 aliases"),
 'C14': dict(
    text="Theorems about the model of color.rs: every bit/byte/nibble/nibble-pair/raw round trip, mask/fill agreement at every position (unbounded pos), exact characterisation of which conversions can fail, for ALL r,g,b: OctColor::from(Rgb888) returns a palette colour at minimal squared distance (exact when present, first on ties) and Color::from(Rgb888/565/555) is White iff nearer to white (ties impossible). Three statements are false of the faithful model and carry _refuted theorems (known findings). Tied to the code by all finite tables, all 2^16/2^15 Rgb565/555 values and Rgb888 sweeps (exhaustive in the thorough tier) plus direct evaluation of the clauses on the real tables.",
    ref="DESIGN.md 7 (C14), 5.5, 13",
    note="Trusted: Coq kernel; hand-written model Pure/Color.v (pure correspondence is differential testing); embedded-graphics RawU*/Rgb* types are taken as specified by their docs.",
    tech=TECH % "finite sweeps lifted by forallb_forall, structural min_by_key lemma, lia"),
 'C16': dict(
    text="Theorems about the model of src/rect.rs for ALL rectangles whose right/bottom edges are representable (no bound): intersect is total, commutative, idempotent, covers exactly the common pixels (hence empty iff disjoint), lies inside both operands; sub_offset moves the origin and keeps the size. Tied to the code by exhaustive 0..12 sweeps plus boundary/random u32 rectangles answered by the real Rect and the extracted model; a differing answer is judged against the pixel-set semantics itself.",
    ref="DESIGN.md 7 (C16), 5.4, 13",
    note="Trusted: Coq kernel; hand-written model Pure/Rect.v (u32 +/- overflow = None); pure correspondence is differential testing; debug-build overflow semantics.",
    tech=TECH % "linear arithmetic (lia) over N, no enumeration"),
}

NA_REASON = "check under construction in this session (model and theorems exist or are being written; not yet registered) - the technique applies, see DESIGN.md"

def main():
    checks = []
    for pid in ALL:
        if pid not in CHECKS:
            continue
        c = CHECKS[pid]
        checks.append(dict(property_id=pid, quick_cmd="./check %s quick" % pid, thorough_cmd="./check %s thorough" % pid,
                           evidence_file="evidence/%s.json" % pid, replay_cmd_template="./check %s --replay {path}" % pid,
                           engine="coq", level_claimed=dict(category="proof", text=c['text'], design_ref=c['ref']),
                           level_note=c['note'], technique=c['tech']))
    claimed = [c['property_id'] for c in checks]
    m = dict(version=1, setup_cmd="./setup.sh",
             hooks=dict(guard="epd_waveshare_verif",
                        enable="none needed: every driver, Display, VarDisplay, colour and Rect is reachable through the public API from the external harness crate (harness/, path dependency on /repo)",
                        baseline_off_cmd="cd /repo && cargo test --workspace --no-fail-fast --offline",
                        source_commits=[], add_only=True),
             engines=[dict(name="coq", path="coq/", serves_properties=claimed,
                           kind_free_text="Coq 8.16.1 development: hand-written executable model + theorems (Properties/Cxx.v)"),
                      dict(name="correspondence", path="tools/corr.py", serves_properties=claimed,
                           kind_free_text="differential run of the extracted model (ocaml/driver) and the real crate (harness/) on generated scripts / queries")],
             checks=checks,
             not_applicable=[dict(property_id=p, reason=NA_REASON) for p in ALL if p not in CHECKS],
             notes="See DESIGN.md 13 for status; known findings in known_findings.txt.")
    json.dump(m, open(os.path.join(ROOT, 'MANIFEST.json'), 'w'), indent=1)
    print("claimed:", ' '.join(claimed))

if __name__ == '__main__':
    main()

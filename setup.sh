#!/bin/sh
# Build the framework from files on disk only (offline): Coq development (full .vo build),
# extraction + OCaml driver, Rust harness (three feature sets).
set -e
cd "$(dirname "$0")"
export CARGO_NET_OFFLINE=true
mkdir -p work evidence replay
( cd coq && coq_makefile -f _CoqProject -o Makefile && timeout 3000 make -j16 > ../work/coq-build.log 2>&1 ) || { tail -30 work/coq-build.log; exit 1; }
./ocaml/build.sh
cp /repo/Cargo.lock harness/Cargo.lock
for f in v3 v2 alt; do
  case $f in v3) ff=v3;; v2) ff=v2;; alt) ff=v3,alt;; esac
  ( cd harness && CARGO_TARGET_DIR=$PWD/target/$f timeout 1200 cargo build --offline --features $ff > ../work/cargo-$f.log 2>&1 ) || { tail -30 work/cargo-$f.log; exit 1; }
done
echo setup ok

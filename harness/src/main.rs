//! epdh: run scripts against the real epd-waveshare crate through recording mocks and print
//! canonical traces.  Usage:
//!   epdh run   [--full] <script>     driver scripts (see DESIGN.md / tools/gen.py)
//!   epdh pure  <queryfile>           pure-function queries (src/pure.rs, tools/pure.py)
mod big;
mod pure;
mod world;

use epd_waveshare::color::{Color, OctColor, TriColor};
use epd_waveshare::prelude::*;
use std::cell::RefCell;
use std::io::{BufRead, Write};
use std::panic::{catch_unwind, AssertUnwindSafe};
use std::rc::Rc;
use world::*;

// ------------------------------------------------------------------ script parsing
pub struct Case {
    pub id: String,
    pub panel: String,
    pub delay: Option<u32>,
    pub busy: String,
    pub fault: Option<(usize, u64)>,
    pub scribble: bool,
    pub ops: Vec<Vec<String>>,
}

fn parse_cases(path: &str) -> Vec<Case> {
    let f = std::fs::File::open(path).expect("script");
    let mut cases = Vec::new();
    let mut cur: Option<Case> = None;
    for line in std::io::BufReader::new(f).lines() {
        let line = line.unwrap();
        let t: Vec<String> = line.split_whitespace().map(|s| s.to_string()).collect();
        if t.is_empty() || t[0].starts_with('#') {
            continue;
        }
        if t[0] == "case" {
            let mut c = Case {
                id: t[1].clone(),
                panel: String::new(),
                delay: None,
                busy: "s:".to_string(),
                fault: None,
                scribble: false,
                ops: Vec::new(),
            };
            for kv in &t[2..] {
                let (k, v) = kv.split_once('=').expect("k=v");
                match k {
                    "panel" => c.panel = v.to_string(),
                    "delay" => c.delay = if v == "none" { None } else { Some(v.parse().unwrap()) },
                    "busy" => c.busy = v.to_string(),
                    "fault" => {
                        c.fault = if v == "none" {
                            None
                        } else {
                            let (a, b) = v.split_once(':').unwrap();
                            Some((a.parse().unwrap(), b.parse().unwrap()))
                        }
                    }
                    "scribble" => c.scribble = v == "1",
                    _ => panic!("unknown case key {}", k),
                }
            }
            cur = Some(c);
        } else if t[0] == "end" {
            cases.push(cur.take().unwrap());
        } else {
            cur.as_mut().unwrap().ops.push(t);
        }
    }
    cases
}

pub fn parse_busy(s: &str) -> Busy {
    let parts: Vec<&str> = s.split(':').collect();
    match parts[0] {
        "s" => Busy::Stream {
            levels: parts.get(1).unwrap_or(&"").chars().map(|c| c == '1').collect(),
            pos: 0,
        },
        "a" => Busy::Auto {
            busy_low: parts[1] == "low",
            cmds: parts[2]
                .split(',')
                .filter(|x| !x.is_empty())
                .map(|x| u8::from_str_radix(x, 16).unwrap())
                .collect(),
            durs: parts
                .get(3)
                .unwrap_or(&"")
                .split(',')
                .filter(|x| !x.is_empty())
                .map(|x| x.parse().unwrap())
                .collect(),
            next: 0,
            rem: 0,
        },
        _ => panic!("busy spec"),
    }
}

// ------------------------------------------------------------------ buffers
/// Arena of caller buffers.  Buffers stay allocated for the whole case (so a driver that keeps a
/// pointer never dangles inside the harness); in scribble mode they are overwritten as soon as the
/// call that borrowed them returns.
pub struct Arena {
    bufs: Vec<Box<[u8]>>,
    live_from: usize,
}
impl Arena {
    pub fn new() -> Self {
        Arena { bufs: Vec::new(), live_from: 0 }
    }
    /// spec = len:kind:seed
    pub fn get(&mut self, spec: &str) -> &'static [u8] {
        let p: Vec<&str> = spec.split(':').collect();
        let len: usize = p[0].parse().unwrap();
        let kind = p[1].chars().next().unwrap();
        let seed: u32 = p.get(2).map(|s| s.parse().unwrap()).unwrap_or(0);
        let v = gen_buf(len, kind, seed).into_boxed_slice();
        self.bufs.push(v);
        let b = self.bufs.last().unwrap();
        // the arena outlives every driver of the case; lifetime erased on purpose
        unsafe { std::slice::from_raw_parts(b.as_ptr(), b.len()) }
    }
    pub fn end_call(&mut self, scribble: bool) {
        if scribble {
            for b in self.bufs[self.live_from..].iter_mut() {
                let p = b.as_mut_ptr();
                for i in 0..b.len() {
                    unsafe { p.add(i).write_volatile(0xA5u8 ^ (i as u8).wrapping_mul(31)) };
                }
            }
        }
        self.live_from = self.bufs.len();
    }
}

// ------------------------------------------------------------------ colours
pub trait ScriptColor: Sized + core::fmt::Debug {
    fn parse(s: &str) -> Self;
}
impl ScriptColor for Color {
    fn parse(s: &str) -> Self {
        match s {
            "black" => Color::Black,
            "white" => Color::White,
            _ => panic!("colour {}", s),
        }
    }
}
impl ScriptColor for TriColor {
    fn parse(s: &str) -> Self {
        match s {
            "black" => TriColor::Black,
            "white" => TriColor::White,
            "chromatic" => TriColor::Chromatic,
            _ => panic!("colour {}", s),
        }
    }
}
impl ScriptColor for OctColor {
    fn parse(s: &str) -> Self {
        match s {
            "black" => OctColor::Black,
            "white" => OctColor::White,
            "green" => OctColor::Green,
            "blue" => OctColor::Blue,
            "red" => OctColor::Red,
            "yellow" => OctColor::Yellow,
            "orange" => OctColor::Orange,
            "hiz" => OctColor::HiZ,
            _ => panic!("colour {}", s),
        }
    }
}

fn lut(s: &str) -> Option<RefreshLut> {
    match s {
        "none" => None,
        "full" => Some(RefreshLut::Full),
        "quick" => Some(RefreshLut::Quick),
        _ => panic!("lut {}", s),
    }
}
fn n(s: &str) -> u32 {
    s.parse().unwrap()
}

pub enum R {
    Ok(String),
    Err,
    Unsupported,
}
fn r(x: Result<(), embedded_hal::spi::ErrorKind>) -> R {
    match x {
        Ok(()) => R::Ok(String::new()),
        Err(_) => R::Err,
    }
}

type S = Spi;
type D = Delay;

/// One driver instance behind a uniform op interface.
pub trait Drv {
    fn op(&mut self, spi: &mut S, delay: &mut D, a: &mut Arena, t: &[String]) -> R;
}

macro_rules! base_ops {
    ($self:ident, $spi:ident, $delay:ident, $a:ident, $t:ident, $color:ty) => {
        match $t[0].as_str() {
            "sleep" => return r($self.0.sleep($spi, $delay)),
            "wake_up" => return r($self.0.wake_up($spi, $delay)),
            "set_background_color" => {
                $self.0.set_background_color(<$color as ScriptColor>::parse(&$t[1]));
                return R::Ok(String::new());
            }
            "background_color" => {
                return R::Ok(format!("{:?}", $self.0.background_color()).to_lowercase())
            }
            "width" => return R::Ok(format!("{}", $self.0.width())),
            "height" => return R::Ok(format!("{}", $self.0.height())),
            "update_frame" => {
                let b = $a.get(&$t[1]);
                return r($self.0.update_frame($spi, b, $delay));
            }
            "update_partial_frame" => {
                let b = $a.get(&$t[1]);
                return r($self.0.update_partial_frame(
                    $spi, $delay, b, n(&$t[2]), n(&$t[3]), n(&$t[4]), n(&$t[5]),
                ));
            }
            "display_frame" => return r($self.0.display_frame($spi, $delay)),
            "update_and_display_frame" => {
                let b = $a.get(&$t[1]);
                return r($self.0.update_and_display_frame($spi, b, $delay));
            }
            "clear_frame" => return r($self.0.clear_frame($spi, $delay)),
            "set_lut" => return r($self.0.set_lut($spi, $delay, lut(&$t[1]))),
            "wait_until_idle" => return r($self.0.wait_until_idle($spi, $delay)),
            _ => {}
        }
    };
}
macro_rules! three_ops {
    ($self:ident, $spi:ident, $delay:ident, $a:ident, $t:ident) => {
        match $t[0].as_str() {
            "update_color_frame" => {
                let b = $a.get(&$t[1]);
                let c = $a.get(&$t[2]);
                return r($self.0.update_color_frame($spi, $delay, b, c));
            }
            "update_achromatic_frame" => {
                let b = $a.get(&$t[1]);
                return r($self.0.update_achromatic_frame($spi, $delay, b));
            }
            "update_chromatic_frame" => {
                let b = $a.get(&$t[1]);
                return r($self.0.update_chromatic_frame($spi, $delay, b));
            }
            _ => {}
        }
    };
}
macro_rules! quick_ops {
    ($self:ident, $spi:ident, $delay:ident, $a:ident, $t:ident) => {
        match $t[0].as_str() {
            "update_old_frame" => {
                let b = $a.get(&$t[1]);
                return r($self.0.update_old_frame($spi, b, $delay));
            }
            "update_new_frame" => {
                let b = $a.get(&$t[1]);
                return r($self.0.update_new_frame($spi, b, $delay));
            }
            "display_new_frame" => return r($self.0.display_new_frame($spi, $delay)),
            "update_and_display_new_frame" => {
                let b = $a.get(&$t[1]);
                return r($self.0.update_and_display_new_frame($spi, b, $delay));
            }
            "update_partial_old_frame" => {
                let b = $a.get(&$t[1]);
                return r($self.0.update_partial_old_frame(
                    $spi, $delay, b, n(&$t[2]), n(&$t[3]), n(&$t[4]), n(&$t[5]),
                ));
            }
            "update_partial_new_frame" => {
                let b = $a.get(&$t[1]);
                return r($self.0.update_partial_new_frame(
                    $spi, $delay, b, n(&$t[2]), n(&$t[3]), n(&$t[4]), n(&$t[5]),
                ));
            }
            "clear_partial_frame" => {
                return r($self.0.clear_partial_frame(
                    $spi, $delay, n(&$t[1]), n(&$t[2]), n(&$t[3]), n(&$t[4]),
                ))
            }
            _ => {}
        }
    };
}

macro_rules! driver {
    ($wrap:ident, $ty:ty, $color:ty, [$($kind:ident),*], |$s:ident, $spi:ident, $delay:ident, $a:ident, $t:ident| $extra:block) => {
        pub struct $wrap(pub $ty);
        impl Drv for $wrap {
            #[allow(unused_variables, unreachable_code)]
            fn op(&mut self, $spi: &mut S, $delay: &mut D, $a: &mut Arena, $t: &[String]) -> R {
                let $s = self;
                base_ops!($s, $spi, $delay, $a, $t, $color);
                $( $kind!($s, $spi, $delay, $a, $t); )*
                $extra
                R::Unsupported
            }
        }
        impl $wrap {
            pub fn make(spi: &mut S, w: &W, delay: &mut D, delay_us: Option<u32>) -> Result<Box<dyn Drv>, ()> {
                match <$ty>::new(spi, In(w.clone(), "BUSY"), Out(w.clone(), "DC"), Out(w.clone(), "RST"), delay, delay_us) {
                    Ok(d) => Ok(Box::new($wrap(d))),
                    Err(_) => Err(()),
                }
            }
        }
    };
}

type E<T> = T;
use epd_waveshare as ew;

driver!(D1in02, E<ew::epd1in02::Epd1in02<S, In, Out, Out, D>>, Color, [quick_ops], |s, spi, delay, a, t| {});
driver!(D1in54, E<ew::epd1in54::Epd1in54<S, In, Out, Out, D>>, Color, [], |s, spi, delay, a, t| {});
driver!(D1in54v2, E<ew::epd1in54_v2::Epd1in54<S, In, Out, Out, D>>, Color, [], |s, spi, delay, a, t| {});
driver!(D1in54b, E<ew::epd1in54b::Epd1in54b<S, In, Out, Out, D>>, Color, [three_ops], |s, spi, delay, a, t| {});
driver!(D1in54c, E<ew::epd1in54c::Epd1in54c<S, In, Out, Out, D>>, Color, [three_ops], |s, spi, delay, a, t| {});
driver!(D2in13v2, E<ew::epd2in13_v2::Epd2in13<S, In, Out, Out, D>>, Color, [], |s, spi, delay, a, t| {
    match t[0].as_str() {
        "set_partial_base_buffer" => {
            let b = a.get(&t[1]);
            return r(s.0.set_partial_base_buffer(spi, delay, b));
        }
        "set_refresh" => return r(s.0.set_refresh(spi, delay, lut(&t[1]).unwrap())),
        _ => {}
    }
});
driver!(D2in13bv4, E<ew::epd2in13b_v4::Epd2in13b<S, In, Out, Out, D>>, TriColor, [three_ops], |s, spi, delay, a, t| {});
driver!(D2in13bc, E<ew::epd2in13bc::Epd2in13bc<S, In, Out, Out, D>>, TriColor, [three_ops], |s, spi, delay, a, t| {
    if t[0] == "set_border_color" {
        return r(s.0.set_border_color(spi, TriColor::parse(&t[1])));
    }
});
driver!(D2in66b, E<ew::epd2in66b::Epd2in66b<S, In, Out, Out, D>>, TriColor, [three_ops], |s, spi, delay, a, t| {});
driver!(D2in7, E<ew::epd2in7::Epd2in7<S, In, Out, Out, D>>, Color, [], |s, spi, delay, a, t| {});
driver!(D2in7v2, E<ew::epd2in7_v2::Epd2in7<S, In, Out, Out, D>>, Color, [], |s, spi, delay, a, t| {});
driver!(D2in7b, E<ew::epd2in7b::Epd2in7b<S, In, Out, Out, D>>, Color, [three_ops], |s, spi, delay, a, t| {
    match t[0].as_str() {
        "display_partial_frame" => {
            return r(s.0.display_partial_frame(spi, delay, n(&t[1]), n(&t[2]), n(&t[3]), n(&t[4])))
        }
        "update_partial_achromatic_frame" => {
            let b = a.get(&t[1]);
            return r(s.0.update_partial_achromatic_frame(spi, delay, b, n(&t[2]), n(&t[3]), n(&t[4]), n(&t[5])));
        }
        "update_partial_chromatic_frame" => {
            let b = a.get(&t[1]);
            return r(s.0.update_partial_chromatic_frame(spi, delay, b, n(&t[2]), n(&t[3]), n(&t[4]), n(&t[5])));
        }
        _ => {}
    }
});
driver!(D2in9, E<ew::epd2in9::Epd2in9<S, In, Out, Out, D>>, Color, [], |s, spi, delay, a, t| {});
driver!(D2in9v2, E<ew::epd2in9_v2::Epd2in9<S, In, Out, Out, D>>, Color, [quick_ops], |s, spi, delay, a, t| {});
driver!(D2in9bv4, E<ew::epd2in9b_v4::Epd2in9b<S, In, Out, Out, D>>, TriColor, [three_ops], |s, spi, delay, a, t| {
    match t[0].as_str() {
        "update_and_display_frame_base" => {
            let b = a.get(&t[1]);
            let c = if t[2] == "none" { None } else { Some(a.get(&t[2])) };
            return r(s.0.update_and_display_frame_base(spi, b, c, delay));
        }
        "display_frame_partial" => return r(s.0.display_frame_partial(spi, delay)),
        _ => {}
    }
});
driver!(D2in9bc, E<ew::epd2in9bc::Epd2in9bc<S, In, Out, Out, D>>, Color, [three_ops], |s, spi, delay, a, t| {
    if t[0] == "set_border_color" {
        return r(s.0.set_border_color(spi, TriColor::parse(&t[1])));
    }
});
driver!(D2in9d, E<ew::epd2in9d::Epd2in9d<'static, S, In, Out, Out, D>>, Color, [], |s, spi, delay, a, t| {});
driver!(D3in7, E<ew::epd3in7::EPD3in7<S, In, Out, Out, D>>, Color, [], |s, spi, delay, a, t| {});
driver!(D4in2, E<ew::epd4in2::Epd4in2<S, In, Out, Out, D>>, Color, [quick_ops], |s, spi, delay, a, t| {
    if t[0] == "shift_display" {
        return r(s.0.shift_display(spi, n(&t[1]), n(&t[2]), n(&t[3]), n(&t[4])));
    }
});
driver!(D5in65f, E<ew::epd5in65f::Epd5in65f<S, In, Out, Out, D>>, OctColor, [], |s, spi, delay, a, t| {});
driver!(D5in83v2, E<ew::epd5in83_v2::Epd5in83<S, In, Out, Out, D>>, Color, [], |s, spi, delay, a, t| {});
driver!(D5in83bv2, E<ew::epd5in83b_v2::Epd5in83<S, In, Out, Out, D>>, Color, [three_ops], |s, spi, delay, a, t| {});
driver!(D7in3f, E<ew::epd7in3f::Epd7in3f<S, In, Out, Out, D>>, OctColor, [], |s, spi, delay, a, t| {
    if t[0] == "show_7block" {
        return r(s.0.show_7block(spi, delay));
    }
});
driver!(D7in5, E<ew::epd7in5::Epd7in5<S, In, Out, Out, D>>, Color, [], |s, spi, delay, a, t| {});
driver!(D7in5hd, E<ew::epd7in5_hd::Epd7in5<S, In, Out, Out, D>>, Color, [], |s, spi, delay, a, t| {});
driver!(D7in5v2, E<ew::epd7in5_v2::Epd7in5<S, In, Out, Out, D>>, Color, [], |s, spi, delay, a, t| {});
driver!(D7in5bv2, E<ew::epd7in5b_v2::Epd7in5<S, In, Out, Out, D>>, TriColor, [three_ops], |s, spi, delay, a, t| {
    if t[0] == "update_partial_frame2" {
        let b = a.get(&t[1]);
        return r(s.0.update_partial_frame2(spi, b, n(&t[2]), n(&t[3]), n(&t[4]), n(&t[5]), delay));
    }
});

fn make(panel: &str, spi: &mut S, w: &W, delay: &mut D, du: Option<u32>) -> Result<Box<dyn Drv>, ()> {
    match panel {
        "epd1in02" => D1in02::make(spi, w, delay, du),
        "epd1in54" => D1in54::make(spi, w, delay, du),
        "epd1in54_v2" => D1in54v2::make(spi, w, delay, du),
        "epd1in54b" => D1in54b::make(spi, w, delay, du),
        "epd1in54c" => D1in54c::make(spi, w, delay, du),
        "epd2in13_v2" => D2in13v2::make(spi, w, delay, du),
        "epd2in13b_v4" => D2in13bv4::make(spi, w, delay, du),
        "epd2in13bc" => D2in13bc::make(spi, w, delay, du),
        "epd2in66b" => D2in66b::make(spi, w, delay, du),
        "epd2in7" => D2in7::make(spi, w, delay, du),
        "epd2in7_v2" => D2in7v2::make(spi, w, delay, du),
        "epd2in7b" => D2in7b::make(spi, w, delay, du),
        "epd2in9" => D2in9::make(spi, w, delay, du),
        "epd2in9_v2" => D2in9v2::make(spi, w, delay, du),
        "epd2in9b_v4" => D2in9bv4::make(spi, w, delay, du),
        "epd2in9bc" => D2in9bc::make(spi, w, delay, du),
        "epd2in9d" => D2in9d::make(spi, w, delay, du),
        "epd3in7" => D3in7::make(spi, w, delay, du),
        "epd4in2" => D4in2::make(spi, w, delay, du),
        "epd5in65f" => D5in65f::make(spi, w, delay, du),
        "epd5in83_v2" => D5in83v2::make(spi, w, delay, du),
        "epd5in83b_v2" => D5in83bv2::make(spi, w, delay, du),
        "epd7in3f" => D7in3f::make(spi, w, delay, du),
        "epd7in5" => D7in5::make(spi, w, delay, du),
        "epd7in5_hd" => D7in5hd::make(spi, w, delay, du),
        "epd7in5_v2" => D7in5v2::make(spi, w, delay, du),
        "epd7in5b_v2" => D7in5bv2::make(spi, w, delay, du),
        _ => panic!("unknown panel {}", panel),
    }
}

fn run_case(c: &Case, full: bool, out: &mut String) {
    if c.panel == "epd12in48b_v2" {
        big::run_case(c, full, out);
        return;
    }
    let w: W = Rc::new(RefCell::new(World::new(parse_busy(&c.busy))));
    let mut spi = Spi(w.clone());
    let mut delay = Delay(w.clone());
    let mut arena = Arena::new();
    let mut drv: Option<Box<dyn Drv>> = None;
    out.push_str(&format!("case {}\n", c.id));
    for (i, t) in c.ops.iter().enumerate() {
        {
            let mut wb = w.borrow_mut();
            wb.ev.clear();
            wb.xfers_in_op = 0;
            wb.polls = 0;
            wb.fault_at = match c.fault {
                Some((oi, k)) if oi == i => Some(k),
                _ => None,
            };
        }
        let dc0 = w.borrow().dc;
        let mut spun = false;
        let res: Result<R, ()> = if t[0] == "new" {
            let rr = catch_unwind(AssertUnwindSafe(|| make(&c.panel, &mut spi, &w, &mut delay, c.delay)));
            match rr {
                Ok(Ok(d)) => {
                    drv = Some(d);
                    Ok(R::Ok(String::new()))
                }
                Ok(Err(())) => {
                    drv = None;
                    Ok(R::Err)
                }
                Err(e) => {
                    drv = None;
                    spun = e.is::<Spin>();
                    Err(())
                }
            }
        } else if let Some(d) = drv.as_mut() {
            catch_unwind(AssertUnwindSafe(|| d.op(&mut spi, &mut delay, &mut arena, t))).map_err(|e| {
                spun = e.is::<Spin>();
            })
        } else {
            Ok(R::Unsupported)
        };
        arena.end_call(c.scribble);
        out.push_str(&format!("op {} {}\n", i, t[0]));
        if spun {
            out.push_str("= DIVERGED\n");
            break;
        }
        {
            // dc at op start is needed to classify transfers; recompute from saved value
            let wb = w.borrow();
            print_events(out, &wb.ev, dc0, full);
        }
        match res {
            Ok(R::Ok(v)) => {
                if v.is_empty() {
                    out.push_str("= OK\n")
                } else {
                    out.push_str(&format!("= OK {}\n", v))
                }
            }
            Ok(R::Err) => out.push_str("= ERR\n"),
            Ok(R::Unsupported) => out.push_str("= UNSUPPORTED\n"),
            Err(()) => out.push_str("= PANIC\n"),
        }
    }
    out.push_str("end\n");
}

fn main() {
    std::panic::set_hook(Box::new(|_| {}));
    let args: Vec<String> = std::env::args().collect();
    let stdout = std::io::stdout();
    let mut lock = stdout.lock();
    match args.get(1).map(|s| s.as_str()) {
        Some("run") => {
            let full = args.iter().any(|a| a == "--full");
            let path = args.last().unwrap();
            let cases = parse_cases(path);
            for c in &cases {
                let mut out = String::new();
                run_case(c, full, &mut out);
                lock.write_all(out.as_bytes()).unwrap();
            }
        }
        Some("pure") => {
            pure::main(&args[2..], &mut lock);
        }
        _ => {
            eprintln!("usage: epdh run [--full] <script> | epdh pure <queryfile>");
            std::process::exit(2);
        }
    }
}

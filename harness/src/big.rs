//! 12.48in driver runs (own SPI bus, four chip selects).
use crate::Case;
pub fn run_case(c: &Case, _full: bool, out: &mut String) {
    out.push_str(&format!("case {}\nend\n", c.id));
}

//! 12.48in driver runs (own SPI bus, four chip selects, two D/C, two resets, four busy inputs).
//!
//! Case header: `case <id> panel=epd12in48b_v2 delay=none busy=m:<M1>/<S1>/<M2>/<S2> fault=<none|op:k>
//! scribble=<0|1>`; k counts the SpiBus::write calls of that op (0-based).
//! Trace lines: `N <pin> <0|1>` output pin, `PN <pin> L|H <ans>` input poll, `W <n> <h1> <h2> [hex]`
//! one successful SpiBus::write, `WX <n>` a failed one, `S flush 0`, `S read <n>`, `T n|u|m <x>`.
use crate::world::*;
use crate::{Arena, Case};
use epd_waveshare::epd12in48b_v2::{BorderLUT, Config, EpdDriver, Peripherals, Rect};
use std::cell::RefCell;
use std::panic::{catch_unwind, AssertUnwindSafe};
use std::rc::Rc;

type Drv = EpdDriver<In, Out, Bus, Delay>;

fn make(w: &W) -> Drv {
    EpdDriver::new(
        Peripherals {
            spi: Bus(w.clone()),
            m1_cs: Out(w.clone(), "m1_cs"),
            s1_cs: Out(w.clone(), "s1_cs"),
            m2_cs: Out(w.clone(), "m2_cs"),
            s2_cs: Out(w.clone(), "s2_cs"),
            m1s1_dc: Out(w.clone(), "m1s1_dc"),
            m2s2_dc: Out(w.clone(), "m2s2_dc"),
            m1s1_rst: Out(w.clone(), "m1s1_rst"),
            m2s2_rst: Out(w.clone(), "m2s2_rst"),
            m1_busy: In(w.clone(), "m1_busy"),
            s1_busy: In(w.clone(), "s1_busy"),
            m2_busy: In(w.clone(), "m2_busy"),
            s2_busy: In(w.clone(), "s2_busy"),
        },
        Delay(w.clone()),
    )
}

/// `m:<bitsM1>/<bitsS1>/<bitsM2>/<bitsS2>` (1 = high = ready)
fn parse_busy(s: &str) -> Busy {
    let rest = s.strip_prefix("m:").expect("busy spec m:a/b/c/d");
    let parts: Vec<&str> = rest.split('/').collect();
    assert!(parts.len() == 4, "busy spec m:a/b/c/d");
    let names = ["m1_busy", "s1_busy", "m2_busy", "s2_busy"];
    Busy::Multi(
        names
            .iter()
            .zip(parts.iter())
            .map(|(n, bits)| (*n, bits.chars().map(|c| c == '1').collect(), 0usize))
            .collect(),
    )
}

fn print_events(out: &mut String, evs: &[Ev], full: bool) {
    for e in evs {
        match e {
            Ev::Pin(name, lvl) => out.push_str(&format!("N {} {}\n", name, if *lvl { 1 } else { 0 })),
            Ev::Xfer(bytes, true) => {
                let (h1, h2) = hash2(bytes);
                out.push_str(&format!("W {} {} {}", bytes.len(), h1, h2));
                if !bytes.is_empty() && (full || bytes.len() <= HEXMAX) {
                    out.push(' ');
                    out.push_str(&hex(bytes));
                }
                out.push('\n');
            }
            Ev::Xfer(bytes, false) => out.push_str(&format!("WX {}\n", bytes.len())),
            Ev::SpiOther(what, n) => out.push_str(&format!("S {} {}\n", what, n)),
            Ev::Poll(pin, low, ans) => out.push_str(&format!(
                "PN {} {} {}\n",
                pin,
                if *low { "L" } else { "H" },
                if *ans { 1 } else { 0 }
            )),
            Ev::Delay(u, n) => {
                let c = match u {
                    0 => "n",
                    1 => "u",
                    _ => "m",
                };
                out.push_str(&format!("T {} {}\n", c, n));
            }
        }
    }
}

enum Res {
    Ok(String),
    Err,
}

fn r(x: Result<(), embedded_hal::spi::ErrorKind>) -> Res {
    match x {
        Ok(()) => Res::Ok(String::new()),
        Err(_) => Res::Err,
    }
}

fn n(s: &str) -> u32 {
    s.parse().unwrap()
}

fn rect(t: &[String]) -> Rect {
    Rect::new(n(&t[0]), n(&t[1]), n(&t[2]), n(&t[3]))
}

fn config(t: &[String]) -> Config {
    Config {
        inverted_kw: t[0] == "1",
        inverted_r: t[1] == "1",
        border_lut: match t[2].as_str() {
            "bd" => BorderLUT::LUTBD,
            "k" => BorderLUT::LUTK,
            "w" => BorderLUT::LUTW,
            "r" => BorderLUT::LUTR,
            x => panic!("border {}", x),
        },
        external_lut: t[3] == "1",
    }
}

fn op(d: &mut Drv, a: &mut Arena, t: &[String]) -> Res {
    match t[0].as_str() {
        "reset" => match d.reset() {
            Ok(()) => Res::Ok(String::new()),
            Err(_) => Res::Err,
        },
        "init" => r(d.init(&config(&t[1..5]))),
        "set_mode" => r(d.set_mode(&config(&t[1..5]))),
        "write_data1" => {
            let b = a.get(&t[1]);
            r(d.write_data1(b))
        }
        "write_data2" => {
            let b = a.get(&t[1]);
            r(d.write_data2(b))
        }
        "write_data1_partial" => {
            let b = a.get(&t[1]);
            r(d.write_data1_partial(rect(&t[2..6]), b))
        }
        "write_data2_partial" => {
            let b = a.get(&t[1]);
            r(d.write_data2_partial(rect(&t[2..6]), b))
        }
        "set_lutc" => {
            let b = a.get(&t[1]);
            r(d.set_lutc(b))
        }
        "set_lutww" => {
            let b = a.get(&t[1]);
            r(d.set_lutww(b))
        }
        "set_lutkw_lutr" => {
            let b = a.get(&t[1]);
            r(d.set_lutkw_lutr(b))
        }
        "set_lutwk_lutw" => {
            let b = a.get(&t[1]);
            r(d.set_lutwk_lutw(b))
        }
        "set_lutkk_lutk" => {
            let b = a.get(&t[1]);
            r(d.set_lutkk_lutk(b))
        }
        "set_lutbd" => {
            let b = a.get(&t[1]);
            r(d.set_lutbd(b))
        }
        "refresh_display" => r(d.refresh_display()),
        "begin_refresh_display" => r(d.begin_refresh_display()),
        "refresh_display_partial" => r(d.refresh_display_partial(rect(&t[1..5]))),
        "begin_refresh_display_partial" => r(d.begin_refresh_display_partial(rect(&t[1..5]))),
        "power_off" => r(d.power_off()),
        "hibernate" => r(d.hibernate()),
        "get_busy" => Res::Ok(format!("{}", d.get_busy())),
        "is_busy" => Res::Ok(format!("{}", d.is_busy())),
        "get_status" => match d.get_status() {
            Ok(s) => Res::Ok(hex(&s)),
            Err(_) => Res::Err,
        },
        x => panic!("unknown op {}", x),
    }
}

pub fn run_case(c: &Case, full: bool, out: &mut String) {
    let w: W = Rc::new(RefCell::new(World::new(parse_busy(&c.busy))));
    let mut arena = Arena::new();
    let mut drv: Option<Drv> = None;
    out.push_str(&format!("case {}\n", c.id));
    for (i, t) in c.ops.iter().enumerate() {
        {
            let mut wb = w.borrow_mut();
            wb.ev.clear();
            wb.xfers_in_op = 0;
            wb.polls = 0;
            wb.fault_at = match c.fault {
                Some((oi, k)) if oi == i => Some(k),
                _ => None,
            };
        }
        let mut spun = false;
        // Ok(None) = no driver constructed yet
        let res: Result<Option<Res>, ()> = if t[0] == "new" {
            drv = Some(make(&w));
            Ok(Some(Res::Ok(String::new())))
        } else if let Some(d) = drv.as_mut() {
            catch_unwind(AssertUnwindSafe(|| op(d, &mut arena, t)))
                .map(Some)
                .map_err(|e| {
                    spun = e.is::<Spin>();
                })
        } else {
            Ok(None)
        };
        arena.end_call(c.scribble);
        out.push_str(&format!("op {} {}\n", i, t[0]));
        if spun {
            out.push_str("= DIVERGED\n");
            break;
        }
        print_events(out, &w.borrow().ev, full);
        match res {
            Ok(Some(Res::Ok(v))) => {
                if v.is_empty() {
                    out.push_str("= OK\n")
                } else {
                    out.push_str(&format!("= OK {}\n", v))
                }
            }
            Ok(Some(Res::Err)) => out.push_str("= ERR\n"),
            Ok(None) => out.push_str("= UNSUPPORTED\n"),
            Err(()) => out.push_str("= PANIC\n"),
        }
    }
    out.push_str("end\n");
}

//! Recording HAL mocks shared by every driver run.
use embedded_hal::delay::DelayNs;
use embedded_hal::digital::{ErrorKind as PinErrorKind, ErrorType as PinErrorType, InputPin, OutputPin};
use embedded_hal::spi::{ErrorKind, ErrorType, Operation, SpiBus, SpiDevice};
use std::cell::RefCell;
use std::rc::Rc;

#[derive(Clone, Debug)]
pub enum Ev {
    /// named output pin driven to a level
    Pin(&'static str, bool),
    /// one SPI write transfer (bytes, ok)
    Xfer(Vec<u8>, bool),
    /// SPI operation other than write (read/transfer/flush...)
    SpiOther(&'static str, usize),
    /// poll of a named input pin: (pin, asked is_low?, answer)
    Poll(&'static str, bool, bool),
    /// delay: unit 0=ns 1=us 2=ms
    Delay(u8, u32),
}

pub enum Busy {
    /// raw pin levels (true = high); afterwards alternate high, low, high, ...
    Stream { levels: Vec<bool>, pos: usize },
    /// reactive automaton
    Auto {
        busy_low: bool,
        cmds: Vec<u8>,
        durs: Vec<u32>,
        next: usize,
        rem: u32,
    },
    /// one raw level stream per named input pin (12.48in: four busy lines); each alternates
    /// high, low, high, ... once exhausted
    Multi(Vec<(&'static str, Vec<bool>, usize)>),
}

pub struct World {
    pub ev: Vec<Ev>,
    pub busy: Busy,
    /// fail the k-th transfer (0-based) of the current op
    pub fault_at: Option<u64>,
    pub xfers_in_op: u64,
    pub dc: Option<bool>,
    pub rst: Option<bool>,
    /// DC pin name that qualifies transfers (27 trait drivers: "DC")
    pub polls: u64,
}

impl World {
    pub fn new(busy: Busy) -> Self {
        World {
            ev: Vec::new(),
            busy,
            fault_at: None,
            xfers_in_op: 0,
            dc: None,
            rst: None,
            polls: 0,
        }
    }
    fn level(&mut self, pin: &str) -> bool {
        self.polls += 1;
        if self.polls > POLL_LIMIT {
            // a wait loop that never sees the idle level: report divergence instead of spinning
            std::panic::panic_any(Spin);
        }
        match &mut self.busy {
            Busy::Stream { levels, pos } => {
                let l = if *pos < levels.len() {
                    levels[*pos]
                } else {
                    (*pos - levels.len()) % 2 == 0
                };
                *pos += 1;
                l
            }
            Busy::Auto { busy_low, rem, .. } => {
                if *rem > 0 {
                    *rem -= 1;
                    !*busy_low
                } else {
                    *busy_low
                }
            }
            Busy::Multi(streams) => {
                let s = streams.iter_mut().find(|s| s.0 == pin).expect("busy stream for pin");
                let l = if s.2 < s.1.len() {
                    s.1[s.2]
                } else {
                    (s.2 - s.1.len()) % 2 == 0
                };
                s.2 += 1;
                l
            }
        }
    }
    fn episode(&mut self) {
        if let Busy::Auto { durs, next, rem, .. } = &mut self.busy {
            *rem = if *next < durs.len() { durs[*next] } else { 0 };
            *next += 1;
        }
    }
    fn on_cmd(&mut self, c: u8) {
        let hit = match &self.busy {
            Busy::Auto { cmds, .. } => cmds.contains(&c),
            _ => false,
        };
        if hit {
            self.episode();
        }
    }
    fn xfer(&mut self, data: &[u8]) -> Result<(), ErrorKind> {
        let k = self.xfers_in_op;
        self.xfers_in_op += 1;
        let ok = self.fault_at != Some(k);
        self.ev.push(Ev::Xfer(data.to_vec(), ok));
        if ok && self.dc == Some(false) && data.len() == 1 {
            self.on_cmd(data[0]);
        }
        if ok {
            Ok(())
        } else {
            Err(ErrorKind::Other)
        }
    }
}

pub type W = Rc<RefCell<World>>;
/// polls allowed in one API call before the harness declares the call divergent
pub const POLL_LIMIT: u64 = 20_000;
pub struct Spin;

// ---------------------------------------------------------------- SPI device
pub struct Spi(pub W);
impl ErrorType for Spi {
    type Error = ErrorKind;
}
impl SpiDevice for Spi {
    fn transaction(&mut self, ops: &mut [Operation<'_, u8>]) -> Result<(), ErrorKind> {
        for op in ops.iter_mut() {
            match op {
                Operation::Write(d) => self.0.borrow_mut().xfer(d)?,
                Operation::Read(d) => {
                    for b in d.iter_mut() {
                        *b = 0;
                    }
                    self.0.borrow_mut().ev.push(Ev::SpiOther("read", d.len()));
                }
                Operation::Transfer(r, w) => {
                    for b in r.iter_mut() {
                        *b = 0;
                    }
                    self.0.borrow_mut().ev.push(Ev::SpiOther("transfer", w.len()));
                }
                Operation::TransferInPlace(d) => {
                    self.0.borrow_mut().ev.push(Ev::SpiOther("transfer_in_place", d.len()));
                }
                Operation::DelayNs(n) => {
                    self.0.borrow_mut().ev.push(Ev::Delay(0, *n));
                }
            }
        }
        Ok(())
    }
}

// ---------------------------------------------------------------- SPI bus (12.48in)
pub struct Bus(pub W);
impl ErrorType for Bus {
    type Error = ErrorKind;
}
impl SpiBus for Bus {
    fn read(&mut self, words: &mut [u8]) -> Result<(), ErrorKind> {
        for b in words.iter_mut() {
            *b = 0;
        }
        self.0.borrow_mut().ev.push(Ev::SpiOther("read", words.len()));
        Ok(())
    }
    fn write(&mut self, words: &[u8]) -> Result<(), ErrorKind> {
        self.0.borrow_mut().xfer(words)
    }
    fn transfer(&mut self, read: &mut [u8], write: &[u8]) -> Result<(), ErrorKind> {
        for b in read.iter_mut() {
            *b = 0;
        }
        self.0.borrow_mut().ev.push(Ev::SpiOther("transfer", write.len()));
        Ok(())
    }
    fn transfer_in_place(&mut self, words: &mut [u8]) -> Result<(), ErrorKind> {
        self.0.borrow_mut().ev.push(Ev::SpiOther("transfer_in_place", words.len()));
        Ok(())
    }
    fn flush(&mut self) -> Result<(), ErrorKind> {
        self.0.borrow_mut().ev.push(Ev::SpiOther("flush", 0));
        Ok(())
    }
}

// ---------------------------------------------------------------- pins
pub struct Out(pub W, pub &'static str);
impl PinErrorType for Out {
    type Error = PinErrorKind;
}
impl OutputPin for Out {
    fn set_low(&mut self) -> Result<(), PinErrorKind> {
        self.set(false);
        Ok(())
    }
    fn set_high(&mut self) -> Result<(), PinErrorKind> {
        self.set(true);
        Ok(())
    }
}
impl Out {
    fn set(&mut self, lvl: bool) {
        let mut w = self.0.borrow_mut();
        w.ev.push(Ev::Pin(self.1, lvl));
        if self.1 == "DC" {
            w.dc = Some(lvl);
        }
        if self.1 == "RST" {
            let prev = w.rst;
            w.rst = Some(lvl);
            if lvl && prev == Some(false) {
                w.episode();
            }
        }
    }
}

pub struct In(pub W, pub &'static str);
impl PinErrorType for In {
    type Error = PinErrorKind;
}
impl InputPin for In {
    fn is_high(&mut self) -> Result<bool, PinErrorKind> {
        let mut w = self.0.borrow_mut();
        let l = w.level(self.1);
        w.ev.push(Ev::Poll(self.1, false, l));
        Ok(l)
    }
    fn is_low(&mut self) -> Result<bool, PinErrorKind> {
        let mut w = self.0.borrow_mut();
        let l = w.level(self.1);
        w.ev.push(Ev::Poll(self.1, true, !l));
        Ok(!l)
    }
}

// ---------------------------------------------------------------- delay
pub struct Delay(pub W);
impl DelayNs for Delay {
    fn delay_ns(&mut self, ns: u32) {
        self.0.borrow_mut().ev.push(Ev::Delay(0, ns));
    }
    fn delay_us(&mut self, us: u32) {
        self.0.borrow_mut().ev.push(Ev::Delay(1, us));
    }
    fn delay_ms(&mut self, ms: u32) {
        self.0.borrow_mut().ev.push(Ev::Delay(2, ms));
    }
}

// ---------------------------------------------------------------- canonical printing
pub const P1: u64 = 2147483647;
pub const B1: u64 = 257;
pub const P2: u64 = 2147483629;
pub const B2: u64 = 65599;
pub const HEXMAX: usize = 256;

pub fn hash2(bytes: &[u8]) -> (u64, u64) {
    let mut h1 = 0u64;
    let mut h2 = 0u64;
    for &b in bytes {
        h1 = (h1 * B1 + (b as u64 + 1)) % P1;
        h2 = (h2 * B2 + (b as u64 + 1)) % P2;
    }
    (h1, h2)
}

pub fn hex(bytes: &[u8]) -> String {
    let mut s = String::with_capacity(bytes.len() * 2);
    for b in bytes {
        s.push_str(&format!("{:02x}", b));
    }
    s
}

/// Print the canonical lines for a list of events (27 trait drivers: pins DC/RST, input BUSY).
/// `full`: always print data bytes in hex.
pub fn print_events(out: &mut String, evs: &[Ev], dc0: Option<bool>, full: bool) {
    let mut dc = dc0;
    // pending data run
    let mut run: Vec<u8> = Vec::new();
    let mut sig: Vec<(bool, usize, usize)> = Vec::new();
    let mut pend_d = false; // a redundant D1 seen, waiting for its transfer
    fn flush(
        out: &mut String,
        run: &mut Vec<u8>,
        sig: &mut Vec<(bool, usize, usize)>,
        pend_d: &mut bool,
        full: bool,
    ) {
        if !sig.is_empty() {
            let (h1, h2) = hash2(run);
            let s: Vec<String> = sig
                .iter()
                .map(|(d, a, b)| format!("{}{}*{}", if *d { "d" } else { "" }, a, b))
                .collect();
            out.push_str(&format!("Z {} {} {} {}", run.len(), h1, h2, s.join(",")));
            if run.len() > HEXMAX && run.iter().all(|b| *b == run[0]) {
                out.push_str(&format!(" u={:02x}", run[0]));
            }
            if full || run.len() <= HEXMAX {
                out.push(' ');
                out.push_str(&hex(run));
            }
            out.push('\n');
            run.clear();
            sig.clear();
        }
        if *pend_d {
            out.push_str("D1\n");
            *pend_d = false;
        }
    }
    for e in evs {
        match e {
            Ev::Xfer(bytes, true) if dc == Some(true) => {
                run.extend_from_slice(bytes);
                let d = pend_d;
                pend_d = false;
                match sig.last_mut() {
                    Some((dd, a, b)) if *a == bytes.len() && *dd == d => *b += 1,
                    _ => sig.push((d, bytes.len(), 1)),
                }
                continue;
            }
            Ev::Pin("DC", true) if dc == Some(true) && !pend_d => {
                pend_d = true;
                continue;
            }
            _ => {}
        }
        flush(out, &mut run, &mut sig, &mut pend_d, full);
        match e {
            Ev::Pin(name, lvl) => {
                let l = if *lvl { 1 } else { 0 };
                match *name {
                    "DC" => {
                        dc = Some(*lvl);
                        out.push_str(&format!("D{}\n", l));
                    }
                    "RST" => out.push_str(&format!("R{}\n", l)),
                    n => out.push_str(&format!("N {} {}\n", n, l)),
                }
            }
            Ev::Xfer(bytes, ok) => {
                if !*ok {
                    let d = match dc {
                        Some(true) => "1",
                        Some(false) => "0",
                        None => "u",
                    };
                    out.push_str(&format!("X{} {}\n", d, bytes.len()));
                } else if dc == Some(false) {
                    if bytes.len() == 1 {
                        out.push_str(&format!("C {:02x}\n", bytes[0]));
                    } else {
                        out.push_str(&format!("CL {} {}\n", bytes.len(), hex(bytes)));
                    }
                } else {
                    out.push_str(&format!("U {} {}\n", bytes.len(), hex(bytes)));
                }
            }
            Ev::SpiOther(what, n) => out.push_str(&format!("S {} {}\n", what, n)),
            Ev::Poll(pin, low, ans) => {
                let a = if *ans { 1 } else { 0 };
                if *pin == "BUSY" {
                    out.push_str(&format!("P {} {}\n", if *low { "L" } else { "H" }, a));
                } else {
                    out.push_str(&format!("PN {} {} {}\n", pin, if *low { "L" } else { "H" }, a));
                }
            }
            Ev::Delay(u, n) => {
                let c = match u {
                    0 => "n",
                    1 => "u",
                    _ => "m",
                };
                out.push_str(&format!("T {} {}\n", c, n));
            }
        }
    }
    flush(out, &mut run, &mut sig, &mut pend_d, full);
}

pub fn gen_buf(len: usize, kind: char, seed: u32) -> Vec<u8> {
    let mut v = Vec::with_capacity(len);
    for i in 0..len {
        let b = match kind {
            'z' => 0u8,
            'f' => 0xffu8,
            'c' => (seed & 0xff) as u8,
            _ => {
                let mut x = (i as u32)
                    .wrapping_mul(2654435761)
                    .wrapping_add(seed.wrapping_mul(40503));
                x ^= x >> 15;
                x = x.wrapping_mul(2246822519);
                x ^= x >> 13;
                (x & 0xff) as u8
            }
        };
        v.push(b);
    }
    v
}

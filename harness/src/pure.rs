//! Pure-function probes.
use std::io::Write;
pub fn main(_args: &[String], out: &mut impl Write) {
    writeln!(out, "todo").unwrap();
}

//! Pure-function probes: `epdh pure <queryfile>`.
//!
//! Reads one query per line and prints, for every query, the line `? <query>` followed by its
//! answer line(s), computed by calling the REAL crate.  ocaml/pure.ml answers the same queries from
//! the extracted Coq model (coq/Pure/*.v); tools/pure.py generates the queries and diffs the two
//! outputs.  The query language is documented in tools/pure.py.
//!
//! Conventions shared with ocaml/pure.ml (hand-written glue on both sides, nothing model-derived):
//!  * a panic of the crate (caught with catch_unwind) is answered `PANIC`;
//!  * sweeps print one line per group of evaluations with two polynomial hashes over the sequence of
//!    answer numbers (`Hs::push`), the number of evaluations and a few counters;
//!  * colours are named black/white/chromatic/green/blue/red/yellow/orange/hiz, colour types
//!    color/tri/oct, rotations 0/90/180/270.
//!
//! Buffer access for `setpix`: a `VarDisplay` works on a slice the harness owns.  `Display` has no
//! public mutable accessor for its buffer; the harness locates the `buffer` field inside the struct
//! at run time (address of `buffer()` minus address of the struct, bounds-checked) and writes
//! bytes through a raw pointer derived from `&mut Display`.  Every byte of that field is a plain
//! `u8`, so this is sound, and it never touches /repo.  It is used (a) to pre-fill the start
//! patterns `z`/`f`/`r` and (b) to undo the bytes a probe changed.  Start images `d<colour>` are
//! instead DRAWN through the public `set_pixel` (every pixel, Rotate0) on both sides.
use embedded_graphics_core::pixelcolor::raw::{RawU1, RawU2, RawU4};
use embedded_graphics_core::pixelcolor::{BinaryColor, PixelColor, Rgb555, Rgb565, Rgb888, RgbColor};
use embedded_graphics_core::prelude::{OriginDimensions, Point, RawData};
use embedded_graphics_core::Pixel;
use epd_waveshare as ew;
use ew::color::{Color, ColorType, OctColor, TriColor};
use ew::graphics::{Display, DisplayRotation, VarDisplay};
use ew::rect::Rect;
use std::io::{BufRead, Write};
use std::marker::PhantomData;
use std::panic::{catch_unwind, AssertUnwindSafe};

const P1: u64 = 2147483647;
const B1: u64 = 257;
const P2: u64 = 2147483629;
const B2: u64 = 65599;
/// numbers standing for PANIC / ERR inside hashed sequences
const PANICV: u64 = 1000000007;
const ERRV: u64 = 1000000009;

#[derive(Default)]
struct Hs {
    h1: u64,
    h2: u64,
}
impl Hs {
    #[inline]
    fn push(&mut self, v: u64) {
        self.h1 = (self.h1 * B1 + v % P1 + 1) % P1;
        self.h2 = (self.h2 * B2 + v % P2 + 1) % P2;
    }
}

fn guard<T>(f: impl FnOnce() -> T) -> Option<T> {
    catch_unwind(AssertUnwindSafe(f)).ok()
}

// ------------------------------------------------------------------ colours
pub trait Col: ColorType + PixelColor + Copy + 'static {
    const CT: &'static str;
    fn all() -> &'static [Self];
    fn names() -> &'static [&'static str];
    fn idx(self) -> usize;
    fn planes_d<const W: u32, const H: u32, const B: bool, const N: usize>(
        _d: &Display<W, H, B, N, Self>,
    ) -> Option<(usize, usize)> {
        None
    }
    fn planes_v(_d: &VarDisplay<Self>) -> Option<(usize, usize)> {
        None
    }
}
impl Col for Color {
    const CT: &'static str = "color";
    fn all() -> &'static [Self] {
        &[Color::Black, Color::White]
    }
    fn names() -> &'static [&'static str] {
        &["black", "white"]
    }
    fn idx(self) -> usize {
        match self {
            Color::Black => 0,
            Color::White => 1,
        }
    }
}
impl Col for TriColor {
    const CT: &'static str = "tri";
    fn all() -> &'static [Self] {
        &[TriColor::Black, TriColor::White, TriColor::Chromatic]
    }
    fn names() -> &'static [&'static str] {
        &["black", "white", "chromatic"]
    }
    fn idx(self) -> usize {
        match self {
            TriColor::Black => 0,
            TriColor::White => 1,
            TriColor::Chromatic => 2,
        }
    }
    fn planes_d<const W: u32, const H: u32, const B: bool, const N: usize>(
        d: &Display<W, H, B, N, Self>,
    ) -> Option<(usize, usize)> {
        Some((d.bw_buffer().len(), d.chromatic_buffer().len()))
    }
    fn planes_v(d: &VarDisplay<Self>) -> Option<(usize, usize)> {
        Some((d.bw_buffer().len(), d.chromatic_buffer().len()))
    }
}
impl Col for OctColor {
    const CT: &'static str = "oct";
    fn all() -> &'static [Self] {
        &[
            OctColor::Black,
            OctColor::White,
            OctColor::Green,
            OctColor::Blue,
            OctColor::Red,
            OctColor::Yellow,
            OctColor::Orange,
            OctColor::HiZ,
        ]
    }
    fn names() -> &'static [&'static str] {
        &["black", "white", "green", "blue", "red", "yellow", "orange", "hiz"]
    }
    fn idx(self) -> usize {
        match self {
            OctColor::Black => 0,
            OctColor::White => 1,
            OctColor::Green => 2,
            OctColor::Blue => 3,
            OctColor::Red => 4,
            OctColor::Yellow => 5,
            OctColor::Orange => 6,
            OctColor::HiZ => 7,
        }
    }
}
fn cname<C: Col>(c: C) -> &'static str {
    C::names()[c.idx()]
}

fn rot_of(s: &str) -> DisplayRotation {
    match s {
        "0" => DisplayRotation::Rotate0,
        "90" => DisplayRotation::Rotate90,
        "180" => DisplayRotation::Rotate180,
        "270" => DisplayRotation::Rotate270,
        _ => panic!("rotation {}", s),
    }
}
const ROTS: [&str; 4] = ["0", "90", "180", "270"];

/// bits per pixel per plane / planes of a colour type name: the DOCUMENTED formula, used only to
/// choose slice lengths in `var_sweep` (same constants in ocaml/pure.ml)
fn doc_req(ct: &str, w: u64, h: u64) -> u64 {
    let (bpp, planes) = match ct {
        "color" => (1, 1),
        "tri" => (1, 2),
        "oct" => (4, 1),
        _ => panic!("ct {}", ct),
    };
    planes * h * ((w * bpp + 7) / 8)
}

// ------------------------------------------------------------------ set_pixel targets
trait Tgt {
    fn ncol(&self) -> usize;
    fn col_name(&self, i: usize) -> &'static str;
    fn dims(&self) -> (u32, u32);
    fn buf(&self) -> &[u8];
    fn poke(&mut self, i: usize, v: u8);
    /// set rotation, then set_pixel; false = panicked
    fn set(&mut self, rot: DisplayRotation, ci: usize, px: i32, py: i32) -> bool;
    fn size(&mut self, rot: DisplayRotation) -> (u32, u32);
    fn info(&mut self) -> String;
    fn fresh(&self) -> Box<dyn Tgt>;
}

struct DT<const W: u32, const H: u32, const B: bool, const N: usize, C: Col>(Box<Display<W, H, B, N, C>>);

fn mk<const W: u32, const H: u32, const B: bool, const N: usize, C: Col>(
    d: Box<Display<W, H, B, N, C>>,
) -> Box<dyn Tgt> {
    Box::new(DT(d))
}

impl<const W: u32, const H: u32, const B: bool, const N: usize, C: Col> Tgt for DT<W, H, B, N, C> {
    fn ncol(&self) -> usize {
        C::all().len()
    }
    fn col_name(&self, i: usize) -> &'static str {
        C::names()[i]
    }
    fn dims(&self) -> (u32, u32) {
        (W, H)
    }
    fn buf(&self) -> &[u8] {
        self.0.buffer()
    }
    fn poke(&mut self, i: usize, v: u8) {
        let len = self.0.buffer().len();
        let base = &*self.0 as *const Display<W, H, B, N, C> as usize;
        let bp = self.0.buffer().as_ptr() as usize;
        let sz = std::mem::size_of::<Display<W, H, B, N, C>>();
        assert!(bp >= base && bp + len <= base + sz && i < len, "buffer not inside the Display struct");
        let off = bp - base;
        let p = &mut *self.0 as *mut Display<W, H, B, N, C> as *mut u8;
        // SAFETY: in-bounds byte of the `[u8; N]` field of a struct we hold exclusively.
        unsafe { p.add(off + i).write(v) };
    }
    fn set(&mut self, rot: DisplayRotation, ci: usize, px: i32, py: i32) -> bool {
        let c = C::all()[ci];
        let d = &mut self.0;
        guard(|| {
            d.set_rotation(rot);
            d.set_pixel(Pixel(Point::new(px, py), c));
        })
        .is_some()
    }
    fn size(&mut self, rot: DisplayRotation) -> (u32, u32) {
        self.0.set_rotation(rot);
        let s = self.0.size();
        (s.width, s.height)
    }
    fn info(&mut self) -> String {
        let d = Box::<Display<W, H, B, N, C>>::default();
        let zero = d.buffer().iter().all(|&b| b == 0);
        let s = d.size();
        let planes = match C::planes_d(&d) {
            Some((a, b)) => format!("{} {}", a, b),
            None => "- -".to_string(),
        };
        // the VarDisplay of the same geometry over a slice of BYTECOUNT bytes
        let mut v = vec![0u8; d.buffer().len()];
        let var = match VarDisplay::<C>::new(W, H, &mut v, B) {
            Ok(vd) => format!("{}", vd.buffer().len()),
            Err(_) => "ERR".to_string(),
        };
        format!(
            "{} {} {} {} {} {} {} {} {} {}",
            W,
            H,
            B as u8,
            d.buffer().len(),
            C::CT,
            zero as u8,
            s.width,
            s.height,
            planes,
            var
        )
    }
    fn fresh(&self) -> Box<dyn Tgt> {
        mk(Box::<Display<W, H, B, N, C>>::default())
    }
}

struct VT<C: Col> {
    w: u32,
    h: u32,
    bwr: bool,
    data: Vec<u8>,
    _c: PhantomData<C>,
}
impl<C: Col> VT<C> {
    /// slice of exactly the length `buffer()` reports; None if the crate then rejects it
    /// `slack` further bytes of backing storage follow the part `buffer()` exposes (VarDisplay::new accepts a longer
    /// slice): they belong to the caller and must never change
    fn make(w: u32, h: u32, bwr: bool, slack: usize) -> Option<Box<dyn Tgt>> {
        let mut big = vec![0u8; (doc_req(C::CT, w as u64, h as u64) * 2 + 64) as usize];
        let len = VarDisplay::<C>::new(w, h, &mut big, bwr).ok()?.buffer().len();
        let mut data = vec![0u8; len + slack];
        VarDisplay::<C>::new(w, h, &mut data, bwr).ok()?;
        Some(Box::new(VT::<C> { w, h, bwr, data, _c: PhantomData }))
    }
}
impl<C: Col> Tgt for VT<C> {
    fn ncol(&self) -> usize {
        C::all().len()
    }
    fn col_name(&self, i: usize) -> &'static str {
        C::names()[i]
    }
    fn dims(&self) -> (u32, u32) {
        (self.w, self.h)
    }
    fn buf(&self) -> &[u8] {
        &self.data
    }
    fn poke(&mut self, i: usize, v: u8) {
        self.data[i] = v;
    }
    fn set(&mut self, rot: DisplayRotation, ci: usize, px: i32, py: i32) -> bool {
        let c = C::all()[ci];
        let (w, h, bwr) = (self.w, self.h, self.bwr);
        let data = &mut self.data;
        guard(|| {
            let mut d = VarDisplay::<C>::new(w, h, &mut data[..], bwr).unwrap();
            d.set_rotation(rot);
            d.set_pixel(Pixel(Point::new(px, py), c));
        })
        .is_some()
    }
    fn size(&mut self, rot: DisplayRotation) -> (u32, u32) {
        let mut d = VarDisplay::<C>::new(self.w, self.h, &mut self.data[..], self.bwr).unwrap();
        d.set_rotation(rot);
        let s = d.size();
        (s.width, s.height)
    }
    fn info(&mut self) -> String {
        String::new()
    }
    fn fresh(&self) -> Box<dyn Tgt> {
        Box::new(VT::<C> { w: self.w, h: self.h, bwr: self.bwr, data: vec![0u8; self.data.len()], _c: PhantomData })
    }
}

fn make_alias(name: &str) -> Option<Box<dyn Tgt>> {
    Some(match name {
        "epd1in02" => mk(Box::<ew::epd1in02::Display1in02>::default()),
        "epd1in54" => mk(Box::<ew::epd1in54::Display1in54>::default()),
        "epd1in54_v2" => mk(Box::<ew::epd1in54_v2::Display1in54>::default()),
        "epd1in54b" => mk(Box::<ew::epd1in54b::Display1in54b>::default()),
        "epd1in54c" => mk(Box::<ew::epd1in54c::Display1in54c>::default()),
        "epd2in13_v2" => mk(Box::<ew::epd2in13_v2::Display2in13>::default()),
        "epd2in13b_v4" => mk(Box::<ew::epd2in13b_v4::Display2in13b>::default()),
        "epd2in13bc" => mk(Box::<ew::epd2in13bc::Display2in13bc>::default()),
        "epd2in66b" => mk(Box::<ew::epd2in66b::Display2in66b>::default()),
        "epd2in7" => mk(Box::<ew::epd2in7::Display2in7>::default()),
        "epd2in7_v2" => mk(Box::<ew::epd2in7_v2::Display2in7>::default()),
        "epd2in7b" => mk(Box::<ew::epd2in7b::Display2in7b>::default()),
        "epd2in9" => mk(Box::<ew::epd2in9::Display2in9>::default()),
        "epd2in9_v2" => mk(Box::<ew::epd2in9_v2::Display2in9>::default()),
        "epd2in9b_v4" => mk(Box::<ew::epd2in9b_v4::Display2in9b>::default()),
        "epd2in9bc" => mk(Box::<ew::epd2in9bc::Display2in9bc>::default()),
        "epd2in9d" => mk(Box::<ew::epd2in9d::Display2in9d>::default()),
        "epd3in7" => mk(Box::<ew::epd3in7::Display3in7>::default()),
        "epd4in2" => mk(Box::<ew::epd4in2::Display4in2>::default()),
        "epd5in65f" => mk(Box::<ew::epd5in65f::Display5in65f>::default()),
        "epd5in83_v2" => mk(Box::<ew::epd5in83_v2::Display5in83>::default()),
        "epd5in83b_v2" => mk(Box::<ew::epd5in83b_v2::Display5in83>::default()),
        "epd7in3f" => mk(Box::<ew::epd7in3f::Display7in3f>::default()),
        "epd7in5" => mk(Box::<ew::epd7in5::Display7in5>::default()),
        "epd7in5_hd" => mk(Box::<ew::epd7in5_hd::Display7in5>::default()),
        "epd7in5_v2" => mk(Box::<ew::epd7in5_v2::Display7in5>::default()),
        "epd7in5b_v2" => mk(Box::<ew::epd7in5b_v2::Display7in5>::default()),
        _ => return None,
    })
}

/// `alias:<name>` | `var:<ct>:<w>:<h>:<bwr>[:<slack>]`
fn make_target(spec: &str) -> Option<Box<dyn Tgt>> {
    let p: Vec<&str> = spec.split(':').collect();
    match p[0] {
        "alias" => make_alias(p[1]),
        "var" => {
            let (w, h, bwr): (u32, u32, bool) = (p[2].parse().unwrap(), p[3].parse().unwrap(), p[4] == "1");
            let slack: usize = if p.len() > 5 { p[5].parse().unwrap() } else { 0 };
            match p[1] {
                "color" => VT::<Color>::make(w, h, bwr, slack),
                "tri" => VT::<TriColor>::make(w, h, bwr, slack),
                "oct" => VT::<OctColor>::make(w, h, bwr, slack),
                _ => panic!("ct {}", p[1]),
            }
        }
        _ => panic!("target {}", spec),
    }
}

/// One instance of the target per start pattern, plus the pristine copy of its buffer.
struct Probe {
    ts: Vec<(Box<dyn Tgt>, Vec<u8>)>,
    changes: Vec<(usize, u8)>,
}
const CHUNK: usize = 2048;
impl Probe {
    fn new(spec: &str, pats: &str) -> Option<Probe> {
        let first = make_target(spec)?;
        let mut ts = Vec::new();
        for p in pats.split(',') {
            let mut t = first.fresh();
            let len = t.buf().len();
            match p.as_bytes()[0] {
                b'z' | b'f' | b'r' => {
                    let v = crate::world::gen_buf(len, p.as_bytes()[0] as char, 7);
                    for (i, &b) in v.iter().enumerate() {
                        if b != 0 {
                            t.poke(i, b);
                        }
                    }
                    assert!(t.buf() == &v[..], "pattern did not read back");
                }
                b'd' => {
                    let ci = (0..t.ncol()).find(|&i| t.col_name(i) == &p[1..]).expect("drawn colour");
                    let (w, h) = t.dims();
                    for y in 0..h as i32 {
                        for x in 0..w as i32 {
                            if !t.set(DisplayRotation::Rotate0, ci, x, y) {
                                return None;
                            }
                        }
                    }
                }
                _ => panic!("pattern {}", p),
            }
            let pristine = t.buf().to_vec();
            ts.push((t, pristine));
        }
        Some(Probe { ts, changes: Vec::new() })
    }
    /// Runs set_pixel on every start image; `f(pattern index, None = panic | Some(changed bytes))`.
    /// Every image is restored afterwards.
    fn run(&mut self, rot: DisplayRotation, ci: usize, px: i32, py: i32, mut f: impl FnMut(usize, Option<&[(usize, u8)]>)) {
        for (k, (t, pristine)) in self.ts.iter_mut().enumerate() {
            let ok = t.set(rot, ci, px, py);
            self.changes.clear();
            {
                let b = t.buf();
                assert!(b.len() == pristine.len());
                for (j, (cb, cp)) in b.chunks(CHUNK).zip(pristine.chunks(CHUNK)).enumerate() {
                    if cb != cp {
                        for i in 0..cb.len() {
                            if cb[i] != cp[i] {
                                self.changes.push((j * CHUNK + i, cb[i]));
                            }
                        }
                    }
                }
            }
            for &(i, _) in self.changes.iter() {
                t.poke(i, pristine[i]);
            }
            if ok {
                f(k, Some(&self.changes));
            } else {
                f(k, None);
            }
        }
    }
}

/// logical x coordinates probed on every row of a sweep (same list in ocaml/pure.ml)
fn pxs(sw: i64, w: i64, h: i64) -> Vec<i32> {
    let mut v: Vec<i64> = (-3..=sw + 3).collect();
    let (mn, mx) = (i32::MIN as i64, i32::MAX as i64);
    v.extend_from_slice(&[
        mn, mn + 1, mn + w - 1, mn + w, mn + h - 1, mn + h, mx - h, mx - w, mx - 1, mx, w + h, 65535, 65536, -65536, -w, -h,
    ]);
    v.into_iter().map(|x| x as i32).collect()
}

/// `a,b,lo:hi:step,...`; a, lo, hi may be written `H`, `H-k`, `H+k` (H = height under the rotation)
fn parse_ys(s: &str, hh: i64) -> Vec<i32> {
    fn val(s: &str, hh: i64) -> i64 {
        match s.strip_prefix('H') {
            Some("") => hh,
            Some(rest) => hh + rest.parse::<i64>().unwrap(),
            None => s.parse().unwrap(),
        }
    }
    let mut v = Vec::new();
    for item in s.split(',') {
        let p: Vec<&str> = item.split(':').collect();
        if p.len() == 1 {
            v.push(val(p[0], hh) as i32);
        } else {
            let (mut y, hi, step) = (val(p[0], hh), val(p[1], hh), val(p[2], hh));
            while y <= hi {
                v.push(y as i32);
                y += step;
            }
        }
    }
    v
}

fn fmt_changes(r: Option<&[(usize, u8)]>) -> String {
    match r {
        None => "PANIC".to_string(),
        Some(l) if l.is_empty() => "-".to_string(),
        Some(l) => l.iter().map(|(i, b)| format!("{}:{}", i, b)).collect::<Vec<_>>().join(","),
    }
}

fn q_setpix(t: &[&str], out: &mut impl Write) {
    let pats = if t.len() > 6 { t[6] } else { "z,f,r" };
    let mut pr = match Probe::new(t[1], pats) {
        Some(p) => p,
        None => {
            writeln!(out, "= ERR").unwrap();
            return;
        }
    };
    let rot = rot_of(t[2]);
    let ci = match (0..pr.ts[0].0.ncol()).find(|&i| pr.ts[0].0.col_name(i) == t[3]) {
        Some(i) => i,
        None => panic!("colour {}", t[3]),
    };
    let (px, py): (i32, i32) = (t[4].parse().unwrap(), t[5].parse().unwrap());
    let mut parts = Vec::new();
    pr.run(rot, ci, px, py, |_, r| parts.push(fmt_changes(r)));
    let (sw, sh) = pr.ts[0].0.size(rot);
    writeln!(out, "= {} size={}x{}", parts.join("|"), sw, sh).unwrap();
}

fn q_setpix_sweep(t: &[&str], out: &mut impl Write) {
    let mut pr = match Probe::new(t[1], t[4]) {
        Some(p) => p,
        None => {
            writeln!(out, "= ERR").unwrap();
            return;
        }
    };
    let rots: Vec<&str> = if t[2] == "all" { ROTS.to_vec() } else { t[2].split(',').collect() };
    let (w, h) = pr.ts[0].0.dims();
    let ncol = pr.ts[0].0.ncol();
    for r in rots {
        let rot = rot_of(r);
        let (sw, sh) = pr.ts[0].0.size(rot);
        let xs = pxs(sw as i64, w as i64, h as i64);
        let ys = parse_ys(t[3], sh as i64);
        for ci in 0..ncol {
            let cn = pr.ts[0].0.col_name(ci);
            for &py in &ys {
                let mut hs = Hs::default();
                let (mut nchg, mut npanic) = (0u64, 0u64);
                for &px in &xs {
                    let mut chg = false;
                    let mut pan = false;
                    pr.run(rot, ci, px, py, |_, r| match r {
                        None => {
                            hs.push(PANICV);
                            pan = true;
                        }
                        Some(l) => {
                            hs.push(l.len() as u64);
                            for &(i, b) in l {
                                hs.push(i as u64);
                                hs.push(b as u64);
                            }
                            chg |= !l.is_empty();
                        }
                    });
                    nchg += chg as u64;
                    npanic += pan as u64;
                }
                hs.push(sw as u64);
                hs.push(sh as u64);
                writeln!(out, "L {} {} {} {} {} {} {} {}", r, cn, py, hs.h1, hs.h2, xs.len(), nchg, npanic).unwrap();
            }
        }
    }
}

// ------------------------------------------------------------------ rect
fn u(s: &str) -> u32 {
    s.parse().unwrap()
}
fn rect_i(a: Rect, b: Rect) -> Option<(u32, u32, u32, u32, bool)> {
    guard(|| {
        let r = a.intersect(b);
        (r.x, r.y, r.w, r.h, r.is_empty())
    })
}
fn rect_s(a: Rect, dx: u32, dy: u32) -> Option<(u32, u32, u32, u32)> {
    guard(|| {
        let r = a.sub_offset(dx, dy);
        (r.x, r.y, r.w, r.h)
    })
}

/// `rect_sweep R ax ay [off]`: a = (off+ax, off+ay, aw, ah) for all aw, ah in 0..=R
fn q_rect_sweep(t: &[&str], out: &mut impl Write) {
    let r: u32 = u(t[1]);
    let off: u32 = if t.len() > 4 { u(t[4]) } else { 0 };
    let (ax, ay) = (off + u(t[2]), off + u(t[3]));
    for aw in 0..=r {
        for ah in 0..=r {
            let a = Rect::new(ax, ay, aw, ah);
            let mut hs = Hs::default();
            let (mut n, mut npanic, mut nempty) = (0u64, 0u64, 0u64);
            for bx in 0..=r {
                for by in 0..=r {
                    for bw in 0..=r {
                        for bh in 0..=r {
                            n += 1;
                            match rect_i(a, Rect::new(off + bx, off + by, bw, bh)) {
                                None => {
                                    hs.push(PANICV);
                                    npanic += 1;
                                }
                                Some((x, y, w, h, e)) => {
                                    hs.push(x as u64);
                                    hs.push(y as u64);
                                    hs.push(w as u64);
                                    hs.push(h as u64);
                                    hs.push(e as u64);
                                    nempty += e as u64;
                                }
                            }
                        }
                    }
                }
            }
            writeln!(out, "I {} {} {} {} {} {} {} {} {}", ax, ay, aw, ah, hs.h1, hs.h2, n, npanic, nempty).unwrap();
            let mut hs = Hs::default();
            let (mut n, mut npanic) = (0u64, 0u64);
            for dx in 0..=r {
                for dy in 0..=r {
                    n += 1;
                    match rect_s(a, off + dx, off + dy) {
                        None => {
                            hs.push(PANICV);
                            npanic += 1;
                        }
                        Some((x, y, w, h)) => {
                            hs.push(x as u64);
                            hs.push(y as u64);
                            hs.push(w as u64);
                            hs.push(h as u64);
                        }
                    }
                }
            }
            writeln!(out, "S {} {} {} {} {} {} {} {}", ax, ay, aw, ah, hs.h1, hs.h2, n, npanic).unwrap();
        }
    }
}

// ------------------------------------------------------------------ sizing
fn us(s: &str) -> usize {
    s.parse().unwrap()
}
type VarNew = Option<Result<(usize, Option<(usize, usize)>), ()>>;
fn var_new(ct: &str, w: u32, h: u32, slice: &mut [u8], bwr: bool) -> VarNew {
    fn go<C: Col>(w: u32, h: u32, slice: &mut [u8], bwr: bool) -> VarNew {
        guard(|| match VarDisplay::<C>::new(w, h, slice, bwr) {
            Ok(d) => Ok((d.buffer().len(), C::planes_v(&d))),
            Err(_) => Err(()),
        })
    }
    match ct {
        "color" => go::<Color>(w, h, slice, bwr),
        "tri" => go::<TriColor>(w, h, slice, bwr),
        "oct" => go::<OctColor>(w, h, slice, bwr),
        _ => panic!("ct {}", ct),
    }
}

fn q_var_sweep(t: &[&str], out: &mut impl Write) {
    let ct = t[1];
    let (wlo, whi, hmax): (u32, u32, u32) = (u(t[2]), u(t[3]), u(t[4]));
    let mut store = vec![0u8; doc_req(ct, whi as u64, hmax as u64) as usize + 2];
    for w in wlo..=whi {
        let mut hs = Hs::default();
        let (mut n, mut nok) = (0u64, 0u64);
        for h in 0..=hmax {
            let req = doc_req(ct, w as u64, h as u64) as usize;
            let mut lens = vec![req, req + 1, 0];
            if req > 0 {
                lens.insert(0, req - 1);
            }
            for l in lens {
                n += 1;
                match var_new(ct, w, h, &mut store[..l], false) {
                    None => hs.push(PANICV),
                    Some(Err(())) => hs.push(ERRV),
                    Some(Ok((len, planes))) => {
                        hs.push(1);
                        hs.push(len as u64);
                        if let Some((a, b)) = planes {
                            hs.push(a as u64);
                            hs.push(b as u64);
                        }
                        nok += 1;
                    }
                }
            }
        }
        writeln!(out, "V {} {} {} {} {} {}", ct, w, hs.h1, hs.h2, n, nok).unwrap();
    }
}

// ------------------------------------------------------------------ colour
fn rgb3<C: RgbColor>(c: C) -> String {
    format!("{} {} {}", c.r(), c.g(), c.b())
}
fn onoff(b: BinaryColor) -> &'static str {
    match b {
        BinaryColor::On => "on",
        BinaryColor::Off => "off",
    }
}

fn color_table(out: &mut impl Write) {
    let mut line = |name: String, v: Option<String>| {
        writeln!(out, "T {} = {}", name, v.unwrap_or_else(|| "PANIC".to_string())).unwrap();
    };
    for &c in Color::all() {
        let n = cname(c);
        line(format!("color.get_bit_value {}", n), guard(|| c.get_bit_value().to_string()));
        line(format!("color.get_byte_value {}", n), guard(|| c.get_byte_value().to_string()));
        line(format!("color.inverse {}", n), guard(|| cname(c.inverse()).to_string()));
        line(format!("raw_u1.from_color {}", n), guard(|| RawU1::from(c).into_inner().to_string()));
        line(format!("color.raw_u1_roundtrip {}", n), guard(|| cname(Color::from(RawU1::from(c))).to_string()));
        line(format!("rgb888.from_color {}", n), guard(|| rgb3(Rgb888::from(c))));
        line(format!("rgb565.from_color {}", n), guard(|| rgb3(Rgb565::from(c))));
        line(format!("rgb555.from_color {}", n), guard(|| rgb3(Rgb555::from(c))));
        line(format!("color.rgb888_roundtrip {}", n), guard(|| cname(Color::from(Rgb888::from(c))).to_string()));
        line(format!("color.rgb565_roundtrip {}", n), guard(|| cname(Color::from(Rgb565::from(c))).to_string()));
        line(format!("color.rgb555_roundtrip {}", n), guard(|| cname(Color::from(Rgb555::from(c))).to_string()));
    }
    for v in 0..=255u8 {
        line(format!("color.from_u8 {}", v), guard(|| cname(Color::from(v)).to_string()));
    }
    for v in 0..=255u8 {
        line(format!("color.from_raw_u1 {}", v), guard(|| cname(Color::from(RawU1::new(v))).to_string()));
    }
    for b in [BinaryColor::On, BinaryColor::Off] {
        line(format!("color.from_binary {}", onoff(b)), guard(|| cname(Color::from(b)).to_string()));
        line(format!("tri.from_binary {}", onoff(b)), guard(|| cname(TriColor::from(b)).to_string()));
        line(format!("oct.from_binary {}", onoff(b)), guard(|| cname(OctColor::from(b)).to_string()));
    }
    for &c in TriColor::all() {
        let n = cname(c);
        line(format!("tri.get_bit_value {}", n), guard(|| c.get_bit_value().to_string()));
        line(format!("tri.get_byte_value {}", n), guard(|| c.get_byte_value().to_string()));
        line(format!("rgb888.from_tri {}", n), guard(|| rgb3(Rgb888::from(c))));
        line(format!("tri.rgb888_roundtrip {}", n), guard(|| cname(TriColor::from(Rgb888::from(c))).to_string()));
    }
    for v in 0..=255u8 {
        line(format!("tri.from_raw_u2 {}", v), guard(|| cname(TriColor::from(RawU2::new(v))).to_string()));
    }
    for &c in OctColor::all() {
        let n = cname(c);
        line(format!("oct.get_nibble {}", n), guard(|| c.get_nibble().to_string()));
        line(format!("oct.rgb {}", n), guard(|| {
            let (r, g, b) = c.rgb();
            format!("{} {} {}", r, g, b)
        }));
        line(format!("rgb888.from_oct {}", n), guard(|| rgb3(Rgb888::from(c))));
        line(format!("oct.rgb888_roundtrip {}", n), guard(|| cname(OctColor::from(Rgb888::from(c))).to_string()));
    }
    for &a in OctColor::all() {
        for &b in OctColor::all() {
            line(
                format!("oct.colors_byte {} {}", cname(a), cname(b)),
                guard(|| OctColor::colors_byte(a, b).to_string()),
            );
        }
    }
    for v in 0..=255u8 {
        line(format!("oct.from_nibble {}", v), guard(|| match OctColor::from_nibble(v) {
            Ok(c) => cname(c).to_string(),
            Err(_) => "ERR".to_string(),
        }));
    }
    for v in 0..=255u8 {
        line(format!("oct.split_byte {}", v), guard(|| match OctColor::split_byte(v) {
            Ok((hi, lo)) => format!("{} {}", cname(hi), cname(lo)),
            Err(_) => "ERR".to_string(),
        }));
    }
    for v in 0..=255u8 {
        line(format!("oct.from_raw_u4 {}", v), guard(|| cname(OctColor::from(RawU4::new(v))).to_string()));
    }
    line("ctype.bpp color".into(), guard(|| <Color as ColorType>::BITS_PER_PIXEL_PER_BUFFER.to_string()));
    line("ctype.nbuf color".into(), guard(|| <Color as ColorType>::BUFFER_COUNT.to_string()));
    line("ctype.bpp tri".into(), guard(|| <TriColor as ColorType>::BITS_PER_PIXEL_PER_BUFFER.to_string()));
    line("ctype.nbuf tri".into(), guard(|| <TriColor as ColorType>::BUFFER_COUNT.to_string()));
    line("ctype.bpp oct".into(), guard(|| <OctColor as ColorType>::BITS_PER_PIXEL_PER_BUFFER.to_string()));
    line("ctype.nbuf oct".into(), guard(|| <OctColor as ColorType>::BUFFER_COUNT.to_string()));
    fn bm<C: Col>(line: &mut impl FnMut(String, Option<String>)) {
        for &c in C::all() {
            for bwr in [false, true] {
                for pos in bitmask_positions() {
                    line(
                        format!("bitmask {} {} {} {}", C::CT, cname(c), bwr as u8, pos),
                        guard(|| {
                            let (m, b) = c.bitmask(bwr, pos);
                            format!("{} {}", m, b)
                        }),
                    );
                }
            }
        }
    }
    bm::<Color>(&mut line);
    bm::<TriColor>(&mut line);
    bm::<OctColor>(&mut line);
}
fn bitmask_positions() -> Vec<u32> {
    let mut v: Vec<u32> = (0..=15).collect();
    v.extend_from_slice(&[121, 122, 127, 128, 879, 65535, 65536, 2147483647, 2147483648, 4294967294, 4294967295]);
    v
}

fn from888(f: &str, r: u8, g: u8, b: u8) -> Option<usize> {
    let p = Rgb888::new(r, g, b);
    match f {
        "color" => guard(|| Color::from(p).idx()),
        "tri" => guard(|| TriColor::from(p).idx()),
        "oct" => guard(|| OctColor::from(p).idx()),
        _ => panic!("fn {}", f),
    }
}
fn name_of(f: &str, i: Option<usize>) -> &'static str {
    match i {
        None => "PANIC",
        Some(i) => match f {
            "color" | "rgb565" | "rgb555" => Color::names()[i],
            "tri" => TriColor::names()[i],
            _ => OctColor::names()[i],
        },
    }
}
fn from565(r: u8, g: u8, b: u8) -> Option<usize> {
    guard(|| Color::from(Rgb565::new(r, g, b)).idx())
}
fn from555(r: u8, g: u8, b: u8) -> Option<usize> {
    guard(|| Color::from(Rgb555::new(r, g, b)).idx())
}

// ------------------------------------------------------------------ dispatcher
fn answer(t: &[&str], out: &mut impl Write) {
    match t[0] {
        "rect_i" => {
            let a = Rect::new(u(t[1]), u(t[2]), u(t[3]), u(t[4]));
            let b = Rect::new(u(t[5]), u(t[6]), u(t[7]), u(t[8]));
            match rect_i(a, b) {
                Some((x, y, w, h, e)) => writeln!(out, "= {} {} {} {} {}", x, y, w, h, e as u8).unwrap(),
                None => writeln!(out, "= PANIC").unwrap(),
            }
        }
        "rect_s" => {
            let a = Rect::new(u(t[1]), u(t[2]), u(t[3]), u(t[4]));
            match rect_s(a, u(t[5]), u(t[6])) {
                Some((x, y, w, h)) => writeln!(out, "= {} {} {} {}", x, y, w, h).unwrap(),
                None => writeln!(out, "= PANIC").unwrap(),
            }
        }
        "rect_sweep" => q_rect_sweep(t, out),
        "buflen" => {
            let (w, h) = (us(t[1]), us(t[2]));
            match guard(|| ew::buffer_len(w, h)) {
                Some(n) => writeln!(out, "= {}", n).unwrap(),
                None => writeln!(out, "= PANIC").unwrap(),
            }
        }
        "buflen_sweep" => {
            let (wlo, whi, hmax) = (us(t[1]), us(t[2]), us(t[3]));
            for w in wlo..=whi {
                let mut hs = Hs::default();
                for h in 0..=hmax {
                    match guard(|| ew::buffer_len(w, h)) {
                        Some(n) => hs.push(n as u64),
                        None => hs.push(PANICV),
                    }
                }
                writeln!(out, "B {} {} {} {}", w, hs.h1, hs.h2, hmax + 1).unwrap();
            }
        }
        "alias" => match make_alias(t[1]) {
            Some(mut a) => writeln!(out, "= {}", a.info()).unwrap(),
            None => writeln!(out, "= UNKNOWN").unwrap(),
        },
        "var_new" => {
            let (w, h, l) = (u(t[2]), u(t[3]), us(t[4]));
            let bwr = t.len() > 5 && t[5] == "1";
            let mut store = vec![0u8; l];
            match var_new(t[1], w, h, &mut store, bwr) {
                None => writeln!(out, "= PANIC").unwrap(),
                Some(Err(())) => writeln!(out, "= ERR").unwrap(),
                Some(Ok((n, None))) => writeln!(out, "= OK {}", n).unwrap(),
                Some(Ok((n, Some((a, b))))) => writeln!(out, "= OK {} {} {}", n, a, b).unwrap(),
            }
        }
        "var_sweep" => q_var_sweep(t, out),
        "setpix" => q_setpix(t, out),
        "setpix_sweep" => q_setpix_sweep(t, out),
        "color_table" => color_table(out),
        "rgb888" => {
            let (r, g, b): (u8, u8, u8) = (t[2].parse().unwrap(), t[3].parse().unwrap(), t[4].parse().unwrap());
            writeln!(out, "= {}", name_of(t[1], from888(t[1], r, g, b))).unwrap();
        }
        "rgb888_sweep" => {
            let f = t[1];
            let (rlo, rhi, step): (u32, u32, u32) = (u(t[2]), u(t[3]), u(t[4]));
            let mut r = rlo;
            while r <= rhi {
                let mut hs = Hs::default();
                let mut n = 0u64;
                let mut g = 0;
                while g <= 255 {
                    let mut b = 0;
                    while b <= 255 {
                        n += 1;
                        match from888(f, r as u8, g as u8, b as u8) {
                            Some(i) => hs.push(i as u64),
                            None => hs.push(PANICV),
                        }
                        b += step;
                    }
                    g += step;
                }
                writeln!(out, "C {} {} {} {} {}", f, r, hs.h1, hs.h2, n).unwrap();
                r += step;
            }
        }
        "rgb565" | "rgb555" => {
            let (r, g, b): (u8, u8, u8) = (t[1].parse().unwrap(), t[2].parse().unwrap(), t[3].parse().unwrap());
            let i = if t[0] == "rgb565" { from565(r, g, b) } else { from555(r, g, b) };
            writeln!(out, "= {}", name_of(t[0], i)).unwrap();
        }
        "rgb565_sweep" | "rgb555_sweep" => {
            let is565 = t[0] == "rgb565_sweep";
            let gmax = if is565 { 63 } else { 31 };
            for r in 0..=31u8 {
                let mut hs = Hs::default();
                let mut n = 0u64;
                for g in 0..=gmax {
                    for b in 0..=31u8 {
                        n += 1;
                        let i = if is565 { from565(r, g, b) } else { from555(r, g, b) };
                        match i {
                            Some(i) => hs.push(i as u64),
                            None => hs.push(PANICV),
                        }
                    }
                }
                writeln!(out, "C {} {} {} {} {}", &t[0][..6], r, hs.h1, hs.h2, n).unwrap();
            }
        }
        _ => writeln!(out, "= UNKNOWN-QUERY").unwrap(),
    }
}

pub fn main(args: &[String], out: &mut impl Write) {
    let path = args.last().expect("usage: epdh pure <queryfile>");
    let f = std::fs::File::open(path).expect("query file");
    let mut out = std::io::BufWriter::new(out);
    for line in std::io::BufReader::new(f).lines() {
        let line = line.unwrap();
        let t: Vec<&str> = line.split_whitespace().collect();
        if t.is_empty() || t[0].starts_with('#') {
            continue;
        }
        writeln!(out, "? {}", t.join(" ")).unwrap();
        answer(&t, &mut out);
    }
    out.flush().unwrap();
}

(** * Ctl: controller models (the "simulated hardware" the properties refer to).

    SPECIFICATIONS written from datasheet knowledge / vendor reference code (DESIGN.md App. B):
    trusted assumptions, not verified artefacts.  Two families share one state record:
    SSD-type (RAM window + address counters) and UC-type (data-start streams + partial window).

    The controller consumes the transport calls of the driver ([icall]s: command bytes, data
    segments, waits, resets) and produces [effect]s: RAM bursts with the geometry they were
    written under, refresh triggers with the power/initialisation state they met, protocol
    anomalies.  Data segments stay symbolic ([dexp]); register parameters must be literal. *)
From Coq Require Import List NArith Bool.
From EPD Require Import Iface.
Import ListNotations.
Open Scope N_scope.

Inductive family := Ssd | Uc.
Inductive plane := P1 | P2.   (* SSD: 0x24 (B/W) / 0x26 (RED);  UC: 0x10 (DTM1: old, black) / 0x13 (DTM2: new, chromatic) *)

(** data segments of a frame *)
Inductive seg :=
| SData (e : dexp)
| SEach (g : bytefn) (e : dexp)
| SFill (v n : N).

Definition seglen (s : seg) : N :=
  match s with
  | SData e => dlen e
  | SEach g e => bwidth g * dlen e
  | SFill _ n => n
  end.
Definition segslen (l : list seg) : N := fold_left (fun a s => a + seglen s) l 0.

(** literal bytes of a segment, if it is literal *)
Definition seg_lit (s : seg) : option (list N) :=
  match s with
  | SData (DLit l) => Some l
  | SData (DRep v n) => Some (repeat v (N.to_nat n))
  | SFill v n => if n <=? 512 then Some (repeat v (N.to_nat n)) else None
  | _ => None
  end.

Record cparams := mkCP {
  cp_fam : family;
  cp_W : N; cp_H : N;                 (* panel size in pixels *)
  cp_rowbytes : N;                    (* bytes per RAM row on the wire for plane data (1 bpp: ceil(W/8)) *)
  cp_x16 : bool;                      (* SSD: X window/counter are 16-bit values in pixel units *)
  cp_ramxe : N; cp_ramye : N;         (* SSD: POR window end (byte column, row) = chip maximum *)
  cp_planes : list (N * plane);       (* RAM / data-start commands and the plane each fills *)
  cp_refresh : list N;                (* refresh trigger commands *)
  cp_deep07 : bool;                   (* deep sleep = 0x07 [0xA5] (UC, and the 3.7in) instead of 0x10 [mode] *)
  cp_power : bool;                    (* explicit power on (0x04) / off (0x02) commands *)
  cp_busy_cmds : list N;              (* commands after which BUSY is asserted for a while *)
  cp_busy_low : bool;                 (* BUSY is active low *)
  cp_res_len : N;                     (* UC: number of bytes of the resolution block (0x61) *)
  cp_ptl_len : N;                     (* UC: number of bytes of the partial-window block (0x90) *)
  cp_defined : list N;                (* command bytes the family / vendor sequence defines *)
  cp_blocks : list (N * list N);      (* commands with a fixed-size block: allowed byte counts *)
  cp_track : option (list N);         (* commands recorded in [c_seen]; None = all *)
  cp_poff_wait : bool                 (* vendor sequence waits for BUSY to go to its active level after PowerOff (0x02) *)
}.

Definition with_track (p : cparams) (t : option (list N)) : cparams :=
  mkCP (cp_fam p) (cp_W p) (cp_H p) (cp_rowbytes p) (cp_x16 p) (cp_ramxe p) (cp_ramye p) (cp_planes p) (cp_refresh p)
       (cp_deep07 p) (cp_power p) (cp_busy_cmds p) (cp_busy_low p) (cp_res_len p) (cp_ptl_len p) (cp_defined p) (cp_blocks p) t (cp_poff_wait p).

(** geometry an SSD burst is written under *)
Record geom := mkGeom { g_entry : N; g_xs : N; g_xe : N; g_ys : N; g_ye : N; g_xc : N; g_yc : N }.
(** active area of a UC data-start stream: full resolution or the partial window (byte columns) *)
Record area := mkArea { a_partial : bool; a_x0 : N; a_x1 : N; a_y0 : N; a_y1 : N }.

Inductive effect :=
| EBurstSsd (c : N) (pl : plane) (g : geom) (segs : list seg)      (* complete data run after an SSD RAM command *)
| EBurstUc (c : N) (pl : plane) (a : area) (segs : list seg)       (* complete data run after a UC data-start command *)
| EPattern (c : N) (pl : plane) (g : geom) (v : N)                 (* SSD 0x46/0x47 pattern fill over the window *)
| ERefresh (c : N) (seen : list N) (powered pending : bool)        (* refresh trigger: config commands seen since reset, power, busy *)
| ERamWhileBusy (c : N)                                            (* RAM data while a refresh is signalled busy *)
| EDeepSleep (ok : bool)                                           (* deep-sleep command; ok = check code / mode bits right *)
| EIgnored (c : N)                                                 (* command received while in deep sleep *)
| EUndefined (c : N)
| EBlock (c : N) (got : N)                                         (* block-carrying command closed with a wrong byte count *)
| EStray (last : option N) (n : N)                                 (* data bytes with no frame open: they go to [last] *)
| ENonLiteral (c : N)                                              (* register parameter not literal: model gives up *)
| EWaitPolarity (bl : bool)                                        (* wait with the wrong polarity *)
| ELut (c : N) (bytes : list N)                                    (* waveform table upload *)
| EReg (c : N) (bytes : list N)                                    (* any other closed register frame *)
| EReset.

Record cstate := mkC {
  c_cur : option N;          (* command whose data is being received *)
  c_np : N;                  (* data bytes received for it *)
  c_par : list N;            (* its literal parameter bytes so far (registers only) *)
  c_segs : list seg;         (* its data segments so far (RAM commands only), reversed *)
  c_snap : geom;             (* SSD geometry at the time the RAM command arrived *)
  c_entry : N; c_xs : N; c_xe : N; c_ys : N; c_ye : N; c_xc : N; c_yc : N;     (* SSD *)
  c_upd2 : N;                (* SSD display update control 2 *)
  c_partial : bool; c_px0 : N; c_px1 : N; c_py0 : N; c_py1 : N;                (* UC partial mode / window *)
  c_resw : N; c_resh : N;    (* UC resolution register *)
  c_deep : bool;
  c_on : bool;               (* powered (UC); SSD: always true *)
  c_pending : bool;          (* a refresh was triggered and no matching wait has ended it *)
  c_seen : list N;           (* configuration commands received since the last hardware reset *)
  c_last : option N;         (* the last command received (data arriving with no open frame belongs to it) *)
  c_tainted : bool
}.

Definition por (p : cparams) : cstate :=
  mkC None 0 [] [] (mkGeom 3 0 (cp_ramxe p) 0 (cp_ramye p) 0 0)
      3 0 (cp_ramxe p) 0 (cp_ramye p) 0 0 255
      false 0 0 0 0 0 0 false (negb (cp_power p)) false [] None false.

Definition mem (x : N) (l : list N) : bool := existsb (N.eqb x) l.
Fixpoint insert (x : N) (l : list N) : list N :=
  match l with
  | [] => [x]
  | y :: r => if x <? y then x :: l else if x =? y then l else y :: insert x r
  end.

Definition plane_of (p : cparams) (c : N) : option plane :=
  match find (fun e => fst e =? c) (cp_planes p) with Some (_, pl) => Some pl | None => None end.

Definition is_lut_cmd (p : cparams) (c : N) : bool :=
  match cp_fam p with
  | Ssd => c =? 0x32
  | Uc => ((0x20 <=? c) && (c <=? 0x2A)) && negb (mem c (cp_refresh p))
  end.

Definition le16 (lo hi : N) : N := lo + 256 * hi.
Definition be16 (hi lo : N) : N := 256 * hi + lo.

Definition geom_of (s : cstate) : geom :=
  mkGeom (c_entry s) (c_xs s) (c_xe s) (c_ys s) (c_ye s) (c_xc s) (c_yc s).

(** record update helpers (every transition builds the record explicitly) *)
Definition upd_frame (s : cstate) cur np par segs snap : cstate :=
  mkC cur np par segs snap (c_entry s) (c_xs s) (c_xe s) (c_ys s) (c_ye s) (c_xc s) (c_yc s) (c_upd2 s)
      (c_partial s) (c_px0 s) (c_px1 s) (c_py0 s) (c_py1 s) (c_resw s) (c_resh s)
      (c_deep s) (c_on s) (c_pending s) (c_seen s) (c_last s) (c_tainted s).
Definition upd_ssd (s : cstate) entry xs xe ys ye xc yc upd2 : cstate :=
  mkC (c_cur s) (c_np s) (c_par s) (c_segs s) (c_snap s) entry xs xe ys ye xc yc upd2
      (c_partial s) (c_px0 s) (c_px1 s) (c_py0 s) (c_py1 s) (c_resw s) (c_resh s)
      (c_deep s) (c_on s) (c_pending s) (c_seen s) (c_last s) (c_tainted s).
Definition upd_uc (s : cstate) partial px0 px1 py0 py1 resw resh : cstate :=
  mkC (c_cur s) (c_np s) (c_par s) (c_segs s) (c_snap s) (c_entry s) (c_xs s) (c_xe s) (c_ys s) (c_ye s) (c_xc s) (c_yc s) (c_upd2 s)
      partial px0 px1 py0 py1 resw resh
      (c_deep s) (c_on s) (c_pending s) (c_seen s) (c_last s) (c_tainted s).
Definition upd_flags (s : cstate) deep on pending seen last tainted : cstate :=
  mkC (c_cur s) (c_np s) (c_par s) (c_segs s) (c_snap s) (c_entry s) (c_xs s) (c_xe s) (c_ys s) (c_ye s) (c_xc s) (c_yc s) (c_upd2 s)
      (c_partial s) (c_px0 s) (c_px1 s) (c_py0 s) (c_py1 s) (c_resw s) (c_resh s)
      deep on pending seen last tainted.

(** *** SSD: where the counter is after [n] bytes written from geometry [g] (entry mode 3, X+ Y+,
    counter inside the window); other situations taint the state *)
Definition advance3 (g : geom) (n : N) : option (N * N) :=
  if (g_entry g =? 3) && (g_xs g <=? g_xc g) && (g_xc g <=? g_xe g) && (g_ys g <=? g_yc g) && (g_yc g <=? g_ye g) then
    let w := g_xe g - g_xs g + 1 in
    let h := g_ye g - g_ys g + 1 in
    let i := ((g_yc g - g_ys g) * w + (g_xc g - g_xs g) + n) mod (w * h) in
    Some (g_xs g + i mod w, g_ys g + i / w)
  else None.
(** entry mode 1 (X+ Y-), as used by the 7.5in HD: rows counted downwards from ys (the window is given
    with ys >= ye) *)
Definition advance1 (g : geom) (n : N) : option (N * N) :=
  if (g_entry g =? 1) && (g_xs g <=? g_xc g) && (g_xc g <=? g_xe g) && (g_ye g <=? g_yc g) && (g_yc g <=? g_ys g) then
    let w := g_xe g - g_xs g + 1 in
    let h := g_ys g - g_ye g + 1 in
    let i := ((g_ys g - g_yc g) * w + (g_xc g - g_xs g) + n) mod (w * h) in
    Some (g_xs g + i mod w, g_ys g - i / w)
  else None.
Definition advance (g : geom) (n : N) : option (N * N) :=
  if g_entry g =? 3 then advance3 g n else if g_entry g =? 1 then advance1 g n else None.

(** closing the open frame: register latch / burst effect / block-length check *)
Definition block_ok (p : cparams) (c n : N) : bool :=
  match find (fun e => fst e =? c) (cp_blocks p) with
  | Some (_, lens) => mem n lens
  | None => true
  end.

Definition uc_area (s : cstate) (p : cparams) : area :=
  if c_partial s then mkArea true (c_px0 s) (c_px1 s) (c_py0 s) (c_py1 s)
  else mkArea false 0 (cp_rowbytes p - 1) 0 ((if c_resh s =? 0 then cp_H p else c_resh s) - 1).

Definition nth0 (l : list N) (i : nat) : N := nth i l 0.

(** split [n] leading literal bytes off a segment list (they must come in literal segments, in any
    grouping: one [data] call per byte or several bytes per call) *)
Fixpoint lit_prefix (segs : list seg) : list N * list seg :=
  match segs with
  | SData (DLit l) :: r => let '(h, rest) := lit_prefix r in (l ++ h, rest)
  | _ => ([], segs)
  end.
Definition take_lits (n : nat) (segs : list seg) : option (list N * list seg) :=
  let '(h, rest) := lit_prefix segs in
  if Nat.leb n (length h)
  then Some (firstn n h, match skipn n h with [] => rest | tl => SData (DLit tl) :: rest end)
  else None.

(** latch the registers of a closed literal frame *)
Definition latch (p : cparams) (s : cstate) (c : N) (par : list N) : cstate :=
  let b := nth0 par in
  match cp_fam p with
  | Ssd =>
      if c =? 0x11 then upd_ssd s (b 0%nat mod 8) (c_xs s) (c_xe s) (c_ys s) (c_ye s) (c_xc s) (c_yc s) (c_upd2 s)
      else if c =? 0x44 then
        (if cp_x16 p then upd_ssd s (c_entry s) (le16 (b 0%nat) (b 1%nat) / 8) (le16 (b 2%nat) (b 3%nat) / 8) (c_ys s) (c_ye s) (c_xc s) (c_yc s) (c_upd2 s)
         else upd_ssd s (c_entry s) (b 0%nat) (b 1%nat) (c_ys s) (c_ye s) (c_xc s) (c_yc s) (c_upd2 s))
      else if c =? 0x45 then upd_ssd s (c_entry s) (c_xs s) (c_xe s) (le16 (b 0%nat) (b 1%nat)) (le16 (b 2%nat) (b 3%nat)) (c_xc s) (c_yc s) (c_upd2 s)
      else if c =? 0x4E then
        (if cp_x16 p then upd_ssd s (c_entry s) (c_xs s) (c_xe s) (c_ys s) (c_ye s) (le16 (b 0%nat) (b 1%nat) / 8) (c_yc s) (c_upd2 s)
         else upd_ssd s (c_entry s) (c_xs s) (c_xe s) (c_ys s) (c_ye s) (b 0%nat) (c_yc s) (c_upd2 s))
      else if c =? 0x4F then upd_ssd s (c_entry s) (c_xs s) (c_xe s) (c_ys s) (c_ye s) (c_xc s) (le16 (b 0%nat) (b 1%nat)) (c_upd2 s)
      else if c =? 0x22 then upd_ssd s (c_entry s) (c_xs s) (c_xe s) (c_ys s) (c_ye s) (c_xc s) (c_yc s) (b 0%nat)
      else s
  | Uc =>
      if c =? 0x61 then
        (if cp_res_len p =? 4 then upd_uc s (c_partial s) (c_px0 s) (c_px1 s) (c_py0 s) (c_py1 s) (be16 (b 0%nat) (b 1%nat)) (be16 (b 2%nat) (b 3%nat))
         else if cp_res_len p =? 3 then upd_uc s (c_partial s) (c_px0 s) (c_px1 s) (c_py0 s) (c_py1 s) (b 0%nat) (be16 (b 1%nat) (b 2%nat))
         else (* 1.02in: two one-byte fields, sent by the driver as [HEIGHT, WIDTH]; the order is
                 UNVERIFIED against the datasheet (siblings put the horizontal field first) and is
                 taken from the driver, so no finding can rest on it *)
              upd_uc s (c_partial s) (c_px0 s) (c_px1 s) (c_py0 s) (c_py1 s) (b 1%nat) (b 0%nat))
      else if c =? 0x90 then
        (if cp_ptl_len p =? 9 then
           upd_uc s (c_partial s) (be16 (b 0%nat) (b 1%nat) / 8) (be16 (b 2%nat) (b 3%nat) / 8)
                  (be16 (b 4%nat) (b 5%nat)) (be16 (b 6%nat) (b 7%nat)) (c_resw s) (c_resh s)
         else if cp_ptl_len p =? 7 then
           upd_uc s (c_partial s) (b 0%nat / 8) (b 1%nat / 8) (be16 (b 2%nat) (b 3%nat)) (be16 (b 4%nat) (b 5%nat)) (c_resw s) (c_resh s)
         else
           upd_uc s (c_partial s) (b 0%nat / 8) (b 1%nat / 8) (b 2%nat) (b 3%nat) (c_resw s) (c_resh s))
      else s
  end.

Definition close (p : cparams) (s : cstate) : cstate * list effect :=
  match c_cur s with
  | None => (s, [])
  | Some c =>
      let s0 := upd_frame s None 0 [] [] (mkGeom 0 0 0 0 0 0 0) in
      match plane_of p c with
      | Some pl =>
          let segs := rev (c_segs s) in
          match cp_fam p with
          | Ssd =>
              let n := segslen segs in
              let s1 := match advance (c_snap s) n with
                        | Some (x, y) => upd_ssd s0 (c_entry s) (c_xs s) (c_xe s) (c_ys s) (c_ye s) x y (c_upd2 s)
                        | None =>
                            (* counter outside the window / unmodelled entry mode: where the bytes went is
                               unknown; the counters become unknown (an impossible value) until the driver
                               programs them again *)
                            if n =? 0 then s0
                            else upd_flags (upd_ssd s0 (c_entry s) (c_xs s) (c_xe s) (c_ys s) (c_ye s) 65535 65535 (c_upd2 s))
                                           (c_deep s) (c_on s) (c_pending s) (c_seen s) (c_last s) true
                        end in
              (s1, [EBurstSsd c pl (c_snap s) segs])
          | Uc =>
              if (c =? 0x14) || (c =? 0x15) then
                (* 2.7in partial data: 8 literal bytes x,y,w,l (big endian) then the pixel data *)
                match take_lits 8 segs with
                | Some (h, rest) =>
                    let b := nth0 h in
                    let x := be16 (b 0%nat) (b 1%nat) in let y := be16 (b 2%nat) (b 3%nat) in
                    let w := be16 (b 4%nat) (b 5%nat) in let l := be16 (b 6%nat) (b 7%nat) in
                    (s0, [EBurstUc c pl (mkArea true (x / 8) ((x + w) / 8 - 1) y (y + l - 1)) rest])
                | None => (s0, [EBlock c (segslen segs)])
                end
              else (s0, [EBurstUc c pl (uc_area s p) segs])
          end
      | None =>
          let par := c_par s in
          if match cp_fam p with Ssd => (c =? 0x46) || (c =? 0x47) | Uc => false end then
            (s0, (if block_ok p c (c_np s) then [] else [EBlock c (c_np s)]) ++
                 [EPattern c (if c =? 0x47 then P1 else P2) (geom_of s) (nth0 par 0%nat)])
          else
          let s1 := latch p s0 c par in
          let e1 := if block_ok p c (c_np s) then [] else [EBlock c (c_np s)] in
          let e2 := if is_lut_cmd p c then [ELut c par] else [EReg c par] in
          let s2 := s1 in
          (* deep sleep takes effect when its block is complete *)
          let ds := if cp_deep07 p then (c =? 0x07) else (c =? 0x10) in
          if ds then
            let ok := if cp_deep07 p then (match par with [165] => true | _ => false end)
                      else (match par with [m] => negb (m mod 4 =? 0) | _ => false end) in
            (upd_flags s2 ok (if ok && cp_power p then false else c_on s2) (c_pending s2) (c_seen s2) (c_last s2) (c_tainted s2),
             e1 ++ e2 ++ [EDeepSleep ok])
          else (s2, e1 ++ e2)
      end
  end.

(** a hardware reset *)
Definition hw_reset (p : cparams) (s : cstate) : cstate :=
  (* RAM contents and resident tables are not modelled as reset; registers return to POR *)
  por p.

(** one transport call arriving at the controller *)
Definition cstep (p : cparams) (s : cstate) (i : icall) : cstate * list effect :=
  match i with
  | IReset _ _ =>
      let '(s1, e1) := close p s in (hw_reset p s1, e1 ++ [EReset])
  | IDelay _ _ => (s, [])
  | IWait bl =>
      if Bool.eqb bl (cp_busy_low p)
      then (upd_flags s (c_deep s) (c_on s) false (c_seen s) (c_last s) (c_tainted s), [])
      else if cp_poff_wait p && match c_last s with Some 2 => true | _ => false end
      then (s, [])      (* the vendor's reference sequence waits for the line to go active after PowerOff *)
      else (s, [EWaitPolarity bl])
  | IWaitCmd bl c =>
      (* status command(s) then polling; the status command closes the open frame *)
      let '(s1, e1) := close p s in
      if Bool.eqb bl (cp_busy_low p)
      then (upd_flags s1 (c_deep s1) (c_on s1) false (c_seen s1) (c_last s1) (c_tainted s1), e1)
      else (s1, e1 ++ [EWaitPolarity bl])
  | ICmd c =>
      let '(s1, e1) := close p s in
      if c_deep s1 then (s1, e1 ++ [EIgnored c])
      else
        let eu := if mem c (cp_defined p) then [] else [EUndefined c] in
        let s2 := upd_frame s1 (Some c) 0 [] [] (geom_of s1) in
        let s3 := upd_flags s2 (c_deep s2) (c_on s2) (c_pending s2)
                            (if plane_of p c then c_seen s2
                             else match cp_track p with
                                  | None => insert c (c_seen s2)
                                  | Some t => if mem c t then insert c (c_seen s2) else c_seen s2
                                  end) (Some c) (c_tainted s2) in
        (* immediate commands *)
        if mem c (cp_refresh p) then
          let trig := match cp_fam p with Ssd => N.testbit (c_upd2 s3) 2 | Uc => true end in
          if trig then
            (upd_flags s3 (c_deep s3) (c_on s3) true (c_seen s3) (c_last s3) (c_tainted s3),
             e1 ++ eu ++ [ERefresh c (c_seen s3) (c_on s3) (c_pending s3)])
          else (s3, e1 ++ eu)
        else if (cp_power p) && (c =? 0x04) then
          (upd_flags s3 (c_deep s3) true (c_pending s3) (c_seen s3) (c_last s3) (c_tainted s3), e1 ++ eu)
        else if (cp_power p) && (c =? 0x02) then
          (upd_flags s3 (c_deep s3) false (c_pending s3) (c_seen s3) (c_last s3) (c_tainted s3), e1 ++ eu)
        else if match cp_fam p with Ssd => c =? 0x12 | Uc => false end then
          (* SSD software reset: registers to POR, RAM and power state kept *)
          let r := por p in
          (upd_flags (upd_frame (upd_ssd (upd_uc s3 false 0 0 0 0 0 0) 3 0 (cp_ramxe p) 0 (cp_ramye p) 0 0 255)
                                (Some c) 0 [] [] (c_snap r))
                     (c_deep s3) (c_on s3) (c_pending s3)
                     (match cp_track p with None => [c] | Some t => if mem c t then [c] else [] end)
                     (c_last s3) (c_tainted s3), e1 ++ eu)
        else if match cp_fam p with Uc => c =? 0x91 | Ssd => false end then
          (upd_uc s3 true (c_px0 s3) (c_px1 s3) (c_py0 s3) (c_py1 s3) (c_resw s3) (c_resh s3), e1 ++ eu)
        else if match cp_fam p with Uc => c =? 0x92 | Ssd => false end then
          (upd_uc s3 false (c_px0 s3) (c_px1 s3) (c_py0 s3) (c_py1 s3) (c_resw s3) (c_resh s3), e1 ++ eu)
        else (s3, e1 ++ eu)
  | IData _ | IDataEach _ _ _ | IDataX _ _ =>
      let sg := match i with
                | IData e => SData e
                | IDataEach g _ e => SEach g e
                | IDataX v n => SFill v n
                | _ => SFill 0 0
                end in
      let n := seglen sg in
      match c_cur s with
      | None => if n =? 0 then (s, []) else (s, [EStray (c_last s) n])
      | Some c =>
          if c_deep s then (s, [])
          else
          match plane_of p c with
          | Some _ =>
              (upd_frame s (Some c) (c_np s + n) (c_par s) (sg :: c_segs s) (c_snap s),
               if c_pending s && negb (n =? 0) then [ERamWhileBusy c] else [])
          | None =>
              match seg_lit sg with
              | Some l => (upd_frame s (Some c) (c_np s + n) (c_par s ++ l) [] (c_snap s), [])
              | None =>
                  (upd_flags (upd_frame s (Some c) (c_np s + n) (c_par s) [] (c_snap s))
                             (c_deep s) (c_on s) (c_pending s) (c_seen s) (c_last s) true, [ENonLiteral c])
              end
          end
      end
  end.

Fixpoint crun (p : cparams) (s : cstate) (l : list icall) : cstate * list effect :=
  match l with
  | [] => (s, [])
  | i :: r => let '(s1, e1) := cstep p s i in let '(s2, e2) := crun p s1 r in (s2, e1 ++ e2)
  end.

(** One API call: feed its transport calls, then close the open frame (its registers latch, its
    burst is observed).  Data a later call sends without a command is reported as [EStray]. *)
Definition ccall (p : cparams) (s : cstate) (l : list icall) : cstate * list effect :=
  let '(s1, e1) := crun p s l in
  let '(s2, e2) := close p s1 in (s2, e1 ++ e2).

(** * Model of src/rect.rs *)
From Coq Require Import NArith Bool.
Open Scope N_scope.

Definition u32max : N := 4294967296.

Record rect := mkRect { rx : N; ry : N; rw : N; rh : N }.

(** [u32 + u32]: [None] = overflow (a panic in debug builds) *)
Definition add32 (a b : N) : option N := if a + b <? u32max then Some (a + b) else None.
(** [u32 - u32]: [None] = underflow (a panic in debug builds) *)
Definition sub32 (a b : N) : option N := if b <=? a then Some (a - b) else None.

(** [Rect::intersect]; [saturating_sub] is N's truncated subtraction *)
Definition intersect (a b : rect) : option rect :=
  let x := N.max (rx a) (rx b) in
  let y := N.max (ry a) (ry b) in
  match add32 (rx a) (rw a), add32 (rx b) (rw b) with
  | Some ax, Some bx =>
      let w := N.min ax bx - x in
      match add32 (ry a) (rh a), add32 (ry b) (rh b) with
      | Some ay, Some by_ => Some (mkRect x y w (N.min ay by_ - y))
      | _, _ => None
      end
  | _, _ => None
  end.

(** [Rect::sub_offset] *)
Definition sub_offset (a : rect) (dx dy : N) : option rect :=
  match sub32 (rx a) dx, sub32 (ry a) dy with
  | Some x, Some y => Some (mkRect x y (rw a) (rh a))
  | _, _ => None
  end.

Definition is_empty (a : rect) : bool := (rw a =? 0) || (rh a =? 0).

(** a value of the Rust type: four u32 *)
Definition wf (a : rect) : Prop := rx a < u32max /\ ry a < u32max /\ rw a < u32max /\ rh a < u32max.
(** the property's precondition: right and bottom edges representable *)
Definition edges_ok (a : rect) : Prop := rx a + rw a < u32max /\ ry a + rh a < u32max.
(** pixel-set semantics *)
Definition inside (a : rect) (px py : N) : Prop :=
  rx a <= px /\ px < rx a + rw a /\ ry a <= py /\ py < ry a + rh a.

(** * The 27 shipped [Display*] aliases (one per driver module, in the order of tools/panels.py)

    Each entry repeats the const-generic arguments of the Rust alias
    [pub type DisplayX = crate::graphics::Display<WIDTH, HEIGHT, BWRBIT, { BYTECOUNT }, COLOR>]
    with BYTECOUNT written as the same EXPRESSION the Rust source uses, so that the
    correspondence check ([alias <name>] query of tools/pure.py) compares the evaluated number with
    the real [buffer().len()].  epd1in54_v2 re-exports epd1in54's alias. *)
From Coq Require Import List NArith Bool.
From EPD Require Import Pure.Color Pure.Graphics.
Import ListNotations.
Open Scope N_scope.

Definition aliases : list alias := [
  (* epd1in02     *) mkAlias  80 128 false (buffer_len 80 128)        CtColor;
  (* epd1in54     *) mkAlias 200 200 false (buffer_len 200 200)       CtColor;
  (* epd1in54_v2  *) mkAlias 200 200 false (buffer_len 200 200)       CtColor;
  (* epd1in54b    *) mkAlias 200 200 false (buffer_len 200 200)       CtColor;
  (* epd1in54c    *) mkAlias 152 152 false (buffer_len 152 152)       CtColor;
  (* epd2in13_v2  *) mkAlias 122 250 false (buffer_len 122 250)       CtColor;
  (* epd2in13b_v4 *) mkAlias 122 250 false (buffer_len 122 250 * 2)   CtTri;
  (* epd2in13bc   *) mkAlias 104 212 true  (buffer_len 104 (212 * 2)) CtTri;
  (* epd2in66b    *) mkAlias 152 296 false (buffer_len 152 296 * 2)   CtTri;
  (* epd2in7      *) mkAlias 176 264 false (buffer_len 176 264)       CtColor;
  (* epd2in7_v2   *) mkAlias 176 264 false (buffer_len 176 264)       CtColor;
  (* epd2in7b     *) mkAlias 176 264 false (buffer_len 176 264)       CtColor;
  (* epd2in9      *) mkAlias 128 296 false (buffer_len 128 296)       CtColor;
  (* epd2in9_v2   *) mkAlias 128 296 false (buffer_len 128 296)       CtColor;
  (* epd2in9b_v4  *) mkAlias 128 296 true  (buffer_len 128 (296 * 2)) CtTri;
  (* epd2in9bc    *) mkAlias 128 296 false (buffer_len 128 296)       CtColor;
  (* epd2in9d     *) mkAlias 128 296 false (buffer_len 128 296)       CtColor;
  (* epd3in7      *) mkAlias 280 480 false (buffer_len 280 480)       CtColor;
  (* epd4in2      *) mkAlias 400 300 false (buffer_len 400 300)       CtColor;
  (* epd5in65f    *) mkAlias 600 448 false (buffer_len 600 (448 * 4)) CtOct;
  (* epd5in83_v2  *) mkAlias 648 480 false (buffer_len 648 480)       CtColor;
  (* epd5in83b_v2 *) mkAlias 648 480 false (buffer_len 648 (480 * 2)) CtTri;
  (* epd7in3f     *) mkAlias 800 480 false (buffer_len 800 (480 * 4)) CtOct;
  (* epd7in5      *) mkAlias 640 384 false (buffer_len 640 384)       CtColor;
  (* epd7in5_hd   *) mkAlias 880 528 false (buffer_len 880 528)       CtColor;
  (* epd7in5_v2   *) mkAlias 800 480 false (buffer_len 800 480)       CtColor;
  (* epd7in5b_v2  *) mkAlias 800 480 false (buffer_len 800 (480 * 2)) CtTri
].

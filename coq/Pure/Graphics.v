(** * Model of src/graphics.rs (set_pixel, line_bytes, buffer sizes) and lib.rs::buffer_len *)
From Coq Require Import List NArith ZArith Bool.
From EPD Require Import Pure.Color.
Import ListNotations.
Open Scope N_scope.

Inductive rotation := Rot0 | Rot90 | Rot180 | Rot270.
Definition all_rot := [Rot0; Rot90; Rot180; Rot270].

(** the three [ColorType] implementations *)
Inductive ctype := CtColor | CtTri | CtOct.
Definition bpp (t : ctype) : N := match t with CtOct => 4 | _ => 1 end.        (* BITS_PER_PIXEL_PER_BUFFER *)
Definition nbuf (t : ctype) : N := match t with CtTri => 2 | _ => 1 end.       (* BUFFER_COUNT *)

(** a colour of some colour type *)
Inductive anycolor := AColor (c : color) | ATri (c : tricolor) | AOct (c : octcolor).
Definition ctype_of (c : anycolor) : ctype :=
  match c with AColor _ => CtColor | ATri _ => CtTri | AOct _ => CtOct end.
Definition bitmask (c : anycolor) (bwrbit : bool) (pos : N) : N * N :=
  match c with
  | AColor c => bitmask_color c pos
  | ATri c => bitmask_tri c bwrbit pos
  | AOct c => bitmask_oct c pos
  end.

(** [buffer_len] (lib.rs) and [line_bytes] (graphics.rs); usize arithmetic, no overflow for u32 widths *)
Definition buffer_len (w h : N) : N := (w + 7) / 8 * h.
Definition line_bytes (w bits : N) : N := (w * bits + 7) / 8.

(** [VarDisplay::buffer_size] *)
Definition buffer_size (t : ctype) (w h : N) : N := h * line_bytes w (bpp t) * nbuf t.
(** [VarDisplay::new]: accepted iff the slice is long enough *)
Definition var_new_ok (t : ctype) (w h slice_len : N) : bool := buffer_size t w h <=? slice_len.

(** ** i32 arithmetic *)
Open Scope Z_scope.
Definition i32min : Z := -2147483648.
Definition i32max : Z := 2147483647.
Definition wrap32 (z : Z) : Z := ((z + 2147483648) mod 4294967296) - 2147483648.
Definition in_i32 (z : Z) : Prop := i32min <= z <= i32max.

(** final (physical) coordinates, as computed by [set_pixel]:
    [(width as i32 - 1).wrapping_sub(p)] — widths are < 2^31 so [width as i32 - 1] is exact *)
Definition rotate (rot : rotation) (w h : N) (px py : Z) : Z * Z :=
  match rot with
  | Rot0 => (px, py)
  | Rot90 => (wrap32 (Z.of_N w - 1 - py), px)
  | Rot180 => (wrap32 (Z.of_N w - 1 - px), wrap32 (Z.of_N h - 1 - py))
  | Rot270 => (py, wrap32 (Z.of_N h - 1 - px))
  end.
Close Scope Z_scope.

(** One byte update: [buffer[idx] = buffer[idx] & mask | bits] *)
Record write := mkWrite { w_idx : N; w_mask : N; w_bits : N }.

Inductive sp_result :=
| SpIgnored                      (* out of range: nothing happens *)
| SpWrites (l : list write)      (* the byte updates, in order *)
| SpPanic.                       (* index out of bounds *)

(** [set_pixel] on a slice of [blen] bytes *)
Definition set_pixel (blen w h : N) (rot : rotation) (bwrbit : bool) (c : anycolor) (px py : Z)
  : sp_result :=
  let '(x, y) := rotate rot w h px py in
  if ((x <? 0) || (x >=? Z.of_N w) || (y <? 0) || (y >=? Z.of_N h))%Z then SpIgnored
  else
    let x := Z.to_N x in let y := Z.to_N y in
    let t := ctype_of c in
    let index := x * bpp t / 8 + y * line_bytes w (bpp t) in
    let '(mask, bits) := bitmask c bwrbit x in
    if nbuf t =? 2 then
      if index <? blen then
        let index2 := index + blen / 2 in
        if index2 <? blen then
          SpWrites [mkWrite index mask (bits mod 256); mkWrite index2 mask (bits / 256)]
        else SpPanic
      else SpPanic
    else
      if index <? blen then SpWrites [mkWrite index mask (bits mod 256)] else SpPanic.

(** buffers as total functions on indices; only indices below the length matter *)
Definition buf := N -> N.
Definition apply_write (b : buf) (wr : write) : buf :=
  fun i => if i =? w_idx wr then N.lor (N.land (b i) (w_mask wr)) (w_bits wr) else b i.
Definition apply_writes (b : buf) (l : list write) : buf := fold_left apply_write l b.

(** [size()] *)
Definition size (rot : rotation) (w h : N) : N * N :=
  match rot with Rot0 | Rot180 => (w, h) | Rot90 | Rot270 => (h, w) end.

(** ** Reading pixels back (the specification side) *)
(** bit [7 - x mod 8] of byte [x/8 + y*line_bytes] of the plane starting at [base] *)
Definition get_bit (b : buf) (base w x y : N) : bool :=
  N.testbit (b (base + x / 8 + y * line_bytes w 1)) (7 - x mod 8).
(** nibble of a 4-bpp buffer: high nibble for even x *)
Definition get_nib (b : buf) (w x y : N) : N :=
  let byte := b (x / 2 + y * line_bytes w 4) in
  if x mod 2 =? 0 then byte / 16 else byte mod 16.

(** ** The 27 shipped Display aliases: (name, WIDTH, HEIGHT, BWRBIT, BYTECOUNT, colour type) *)
Record alias := mkAlias { a_w : N; a_h : N; a_bwr : bool; a_bytes : N; a_ct : ctype }.

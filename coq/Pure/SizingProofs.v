(** Proofs about buffer sizes (C13): [buffer_len], [buffer_size], [VarDisplay::new] acceptance,
    drawability of every pixel of an accepted geometry, tightness, and the 27 shipped aliases. *)
From Coq Require Import List NArith ZArith Bool Lia.
From EPD Require Import Pure.Color Pure.Graphics Pure.GraphicsProofs Pure.GraphicsProofs2 Pure.Aliases.
Import ListNotations.
Open Scope N_scope.

Ltac Zify.zify_post_hook ::= Z.to_euclidean_division_equations.

(** ** Rounding up to whole bytes *)
Definition ceil8 (n : N) : N := (n + 7) / 8.

(** [ceil8 n] is the least number of bytes holding [n] bits *)
Lemma ceil8_least n : n <= 8 * ceil8 n /\ forall k, n <= 8 * k -> ceil8 n <= k.
Proof. unfold ceil8. split; [lia|]. intros k Hk. lia. Qed.

Lemma ceil8_padding n : 8 * ceil8 n < n + 8.
Proof. unfold ceil8. lia. Qed.

Lemma ceil8_exact n : n mod 8 = 0 -> 8 * ceil8 n = n.
Proof. unfold ceil8. lia. Qed.

(** ** buffer_len *)
Lemma buffer_len_spec w h : buffer_len w h = h * ceil8 w.
Proof. unfold buffer_len, ceil8. apply N.mul_comm. Qed.

Lemma buffer_len_holds w h : w * h <= 8 * buffer_len w h.
Proof.
  rewrite buffer_len_spec. destruct (ceil8_least w) as [Hc _].
  rewrite (N.mul_comm h), N.mul_assoc. apply N.mul_le_mono_r. exact Hc.
Qed.

Lemma buffer_len_padding w h : 8 * buffer_len w h < (w + 8) * h \/ h = 0.
Proof.
  rewrite buffer_len_spec. pose proof (ceil8_padding w) as Hp.
  destruct (N.eq_dec h 0) as [->|Hh]; [now right|left].
  rewrite (N.mul_comm h), N.mul_assoc. apply N.mul_lt_mono_pos_r; lia.
Qed.

(** ** buffer_size *)
Lemma line_bytes_spec w bits : line_bytes w bits = ceil8 (w * bits).
Proof. reflexivity. Qed.

Lemma buffer_size_spec t w h : buffer_size t w h = nbuf t * h * ceil8 (w * bpp t).
Proof.
  unfold buffer_size. rewrite line_bytes_spec.
  rewrite (N.mul_comm (h * _)). apply N.mul_assoc.
Qed.

Lemma row_padding_minimal t w :
  w * bpp t <= 8 * line_bytes w (bpp t) /\ 8 * line_bytes w (bpp t) < w * bpp t + 8 /\
  forall k, w * bpp t <= 8 * k -> line_bytes w (bpp t) <= k.
Proof.
  rewrite line_bytes_spec. destruct (ceil8_least (w * bpp t)) as [H1 H2].
  split; [exact H1|]. split; [apply ceil8_padding|exact H2].
Qed.

Lemma buffer_size_color_len w h : buffer_size CtColor w h = buffer_len w h.
Proof. rewrite buffer_size_color, line_bytes_1. unfold buffer_len. apply N.mul_comm. Qed.

Lemma tri_halves w h :
  buffer_size CtTri w h / 2 = buffer_size CtColor w h /\
  2 * (buffer_size CtTri w h / 2) = buffer_size CtTri w h /\
  buffer_size CtTri w h / 2 = buffer_len w h.
Proof.
  rewrite buffer_size_tri_half, <- buffer_size_color_len, buffer_size_color, buffer_size_tri.
  repeat split. apply N.mul_comm.
Qed.

(** ** VarDisplay::new *)
Lemma var_new_ok_iff t w h n : var_new_ok t w h n = true <-> buffer_size t w h <= n.
Proof. unfold var_new_ok. apply N.leb_le. Qed.

Lemma var_new_rejects_iff t w h n : var_new_ok t w h n = false <-> n < buffer_size t w h.
Proof. unfold var_new_ok. apply N.leb_gt. Qed.

(** ** every pixel of the geometry can be drawn, inside the exposed bytes *)
Lemma every_pixel_drawable w h bwr c x y :
  (Z.of_N w <= i32max)%Z -> (Z.of_N h <= i32max)%Z -> x < w -> y < h ->
  exists l, set_pixel (buffer_size (ctype_of c) w h) w h Rot0 bwr c (Z.of_N x) (Z.of_N y) = SpWrites l /\
            l <> [] /\ Forall (fun wr => w_idx wr < buffer_size (ctype_of c) w h) l.
Proof.
  intros Hw Hh Hx Hy.
  assert (Hr : rotate Rot0 w h (Z.of_N x) (Z.of_N y) = (Z.of_N x, Z.of_N y)) by reflexivity.
  assert (Hin : logical_in Rot0 w h (Z.of_N x) (Z.of_N y)) by (unfold logical_in; cbn [size]; lia).
  destruct (set_pixel_in_writes w h Rot0 bwr c _ _ Hw Hh Hin) as [l [E F]].
  exists l. split; [exact E|]. split; [|exact F].
  intros ->. revert E. destruct c as [c|c|c]; cbn [ctype_of].
  - rewrite (set_pixel_color_in' w h Rot0 bwr c _ _ x y Hr Hx Hy). discriminate.
  - rewrite (set_pixel_tri_in w h Rot0 bwr c _ _ x y Hr Hx Hy). discriminate.
  - rewrite (set_pixel_oct_in w h Rot0 bwr c _ _ x y Hr Hx Hy). discriminate.
Qed.

Lemma accepted_drawable t w h n bwr c x y :
  (Z.of_N w <= i32max)%Z -> (Z.of_N h <= i32max)%Z ->
  var_new_ok t w h n = true -> ctype_of c = t -> x < w -> y < h ->
  exists l, set_pixel (buffer_size t w h) w h Rot0 bwr c (Z.of_N x) (Z.of_N y) = SpWrites l /\
            l <> [] /\ Forall (fun wr => w_idx wr < buffer_size t w h /\ w_idx wr < n) l.
Proof.
  intros Hw Hh Hok Hc Hx Hy. apply var_new_ok_iff in Hok. subst t.
  destruct (every_pixel_drawable w h bwr c x y Hw Hh Hx Hy) as [l [E [Hne F]]].
  exists l. split; [exact E|]. split; [exact Hne|].
  apply (Forall_impl _ (P := fun wr => w_idx wr < buffer_size (ctype_of c) w h)); [|exact F].
  intros wr Hwr. cbv beta in Hwr. lia.
Qed.

(** ** tightness: the last pixel writes the last byte *)
Lemma last_byte_of w h : 0 < w -> 0 < h -> byte_of w (w - 1) (h - 1) = h * line_bytes w 1 - 1.
Proof.
  intros Hw Hh. unfold byte_of. rewrite line_bytes_1.
  assert (E : (w - 1) / 8 = (w + 7) / 8 - 1) by lia.
  assert (Hpos : 0 < (w + 7) / 8) by lia.
  rewrite E. nia.
Qed.

Lemma last_nib_of w h : 0 < w -> 0 < h -> nib_of w (w - 1) (h - 1) = h * line_bytes w 4 - 1.
Proof.
  intros Hw Hh. unfold nib_of. rewrite line_bytes_4.
  assert (E : (w - 1) / 2 = (w + 1) / 2 - 1) by lia.
  assert (Hpos : 0 < (w + 1) / 2) by lia.
  rewrite E. nia.
Qed.

Lemma last_pixel_last_byte w h bwr c :
  (Z.of_N w <= i32max)%Z -> (Z.of_N h <= i32max)%Z -> 0 < w -> 0 < h ->
  exists l wr, set_pixel (buffer_size (ctype_of c) w h) w h Rot0 bwr c (Z.of_N (w - 1)) (Z.of_N (h - 1)) = SpWrites l /\
               In wr l /\ w_idx wr = buffer_size (ctype_of c) w h - 1.
Proof.
  intros Hw Hh Hw0 Hh0.
  assert (Hr : rotate Rot0 w h (Z.of_N (w - 1)) (Z.of_N (h - 1)) = (Z.of_N (w - 1), Z.of_N (h - 1)))
    by reflexivity.
  assert (Hx : w - 1 < w) by lia. assert (Hy : h - 1 < h) by lia.
  pose proof (last_byte_of w h Hw0 Hh0) as Eb.
  pose proof (byte_of_lt w h _ _ Hx Hy) as Hlt.
  destruct c as [c|c|c]; cbn [ctype_of]; eexists; eexists.
  - split; [exact (set_pixel_color_in' w h Rot0 bwr c _ _ _ _ Hr Hx Hy)|].
    split; [left; reflexivity|]. unfold upd1; cbn [w_idx]. now rewrite buffer_size_color.
  - split; [exact (set_pixel_tri_in w h Rot0 bwr c _ _ _ _ Hr Hx Hy)|].
    split; [right; left; reflexivity|]. unfold upd1; cbn [w_idx].
    rewrite buffer_size_tri_half, buffer_size_tri. lia.
  - split; [exact (set_pixel_oct_in w h Rot0 bwr c _ _ _ _ Hr Hx Hy)|].
    split; [left; reflexivity|]. unfold upd4; cbn [w_idx].
    rewrite buffer_size_oct. now apply last_nib_of.
Qed.

(** an empty geometry needs no bytes *)
Lemma buffer_size_zero t w h : buffer_size t w h = 0 <-> w = 0 \/ h = 0.
Proof.
  rewrite buffer_size_spec. unfold ceil8. destruct t; cbn [nbuf bpp]; nia.
Qed.

(** ** the shipped aliases *)
Definition alias_size_ok (a : alias) : Prop :=
  a_bytes a = nbuf (a_ct a) * a_h a * ceil8 (a_w a * bpp (a_ct a)) /\
  a_bytes a = buffer_size (a_ct a) (a_w a) (a_h a) /\
  (a_ct a = CtTri -> a_bytes a / 2 = buffer_len (a_w a) (a_h a) /\ 2 * (a_bytes a / 2) = a_bytes a).

Lemma aliases_size_ok : Forall alias_size_ok aliases.
Proof.
  unfold aliases.
  repeat (apply Forall_cons;
          [unfold alias_size_ok; cbn [a_bytes a_ct a_w a_h];
           split; [vm_compute; reflexivity|]; split; [vm_compute; reflexivity|];
           first [intros _; split; vm_compute; reflexivity | intros Hc; discriminate Hc]|]).
  apply Forall_nil.
Qed.

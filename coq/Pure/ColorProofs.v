(** * Proofs about the model of src/color.rs (property C14) *)
From Coq Require Import List NArith ZArith Bool Lia ZifyBool ZifyN.
From EPD Require Import Pure.Color.
Import ListNotations.
Open Scope N_scope.

Ltac Zify.zify_post_hook ::= Z.div_mod_to_equations.
Arguments N.add : simpl never.
Arguments N.sub : simpl never.
Arguments N.mul : simpl never.
Arguments N.div : simpl never.
Arguments N.modulo : simpl never.
Arguments N.ltb : simpl never.
Arguments N.eqb : simpl never.
Arguments N.leb : simpl never.
Arguments N.shiftr : simpl never.
Arguments N.pow : simpl never.

(** ** Finite case analysis on small residues *)

Lemma lt2_cases m : m < 2 -> m = 0 \/ m = 1.
Proof. lia. Qed.
Lemma lt4_cases m : m < 4 -> m = 0 \/ m = 1 \/ m = 2 \/ m = 3.
Proof. lia. Qed.
Lemma lt8_cases m : m < 8 ->
  m = 0 \/ m = 1 \/ m = 2 \/ m = 3 \/ m = 4 \/ m = 5 \/ m = 6 \/ m = 7.
Proof. lia. Qed.
Lemma lt16_cases m : m < 16 ->
  m = 0 \/ m = 1 \/ m = 2 \/ m = 3 \/ m = 4 \/ m = 5 \/ m = 6 \/ m = 7 \/
  m = 8 \/ m = 9 \/ m = 10 \/ m = 11 \/ m = 12 \/ m = 13 \/ m = 14 \/ m = 15.
Proof. lia. Qed.

Ltac split_cases H := repeat (destruct H as [H|H]); subst.
Ltac cases2 H := apply lt2_cases in H; split_cases H.
Ltac cases4 H := apply lt4_cases in H; split_cases H.
Ltac cases8 H := apply lt8_cases in H; split_cases H.
Ltac cases16 H := apply lt16_cases in H; split_cases H.

Definition range (k : N) : list N := map N.of_nat (seq 0 (N.to_nat k)).
Lemma range_in k m : m < k -> In m (range k).
Proof.
  intros H. unfold range. apply in_map_iff. exists (N.to_nat m).
  split; [apply N2Nat.id|]. apply in_seq. lia.
Qed.
Lemma forall_below (f : N -> bool) k :
  forallb f (range k) = true -> forall m, m < k -> f m = true.
Proof. intros H m Hm. rewrite forallb_forall in H. apply H, range_in, Hm. Qed.

Lemma testbit_high a n k : a < 2 ^ n -> n <= k -> N.testbit a k = false.
Proof.
  intros Ha Hk. rewrite <- (N.mod_small a (2 ^ n)) by assumption.
  apply N.mod_pow2_bits_high. assumption.
Qed.

Lemma mod8_lt pos : pos mod 8 < 8.  Proof. apply N.mod_lt. lia. Qed.
Lemma mod2_lt pos : pos mod 2 < 2.  Proof. apply N.mod_lt. lia. Qed.
Lemma mod4_lt pos : pos mod 4 < 4.  Proof. apply N.mod_lt. lia. Qed.
Lemma mod16_lt pos : pos mod 16 < 16.  Proof. apply N.mod_lt. lia. Qed.

(** ** 1. Round trips *)

Lemma from_u8_bit c : from_u8 (get_bit_value c) = Some c.
Proof. destruct c; reflexivity. Qed.

Lemma from_u8_some_iff v c : from_u8 v = Some c <-> v = get_bit_value c.
Proof.
  split.
  - destruct v as [|[p|p|]]; destruct c; cbn [from_u8 get_bit_value]; congruence.
  - intros ->. apply from_u8_bit.
Qed.

Lemma from_u8_none_iff v : from_u8 v = None <-> 2 <= v.
Proof.
  destruct v as [|[p|p|]]; cbn [from_u8]; split; intros H; try congruence; try lia.
Qed.

Lemma byte_is_bit_times_255 c : get_byte_value c = 255 * get_bit_value c.
Proof. destruct c; reflexivity. Qed.

Lemma from_nibble_get c : from_nibble (get_nibble c) = Some c.
Proof. destruct c; reflexivity. Qed.

Lemma from_nibble_mod n : from_nibble (n mod 16) = from_nibble n.
Proof. unfold from_nibble. rewrite N.mod_mod by lia. reflexivity. Qed.

Lemma from_nibble_none_iff n : from_nibble n = None <-> 8 <= n mod 16.
Proof.
  rewrite <- from_nibble_mod. pose proof (mod16_lt n) as H.
  generalize dependent (n mod 16). intros m H.
  cases16 H; vm_compute; split; intros H; congruence.
Qed.

Lemma from_nibble_some n : n mod 16 < 8 ->
  exists c, from_nibble n = Some c /\ get_nibble c = n mod 16.
Proof.
  rewrite <- from_nibble_mod. generalize (n mod 16). intros m H.
  cases8 H; eexists; split; reflexivity.
Qed.

Lemma from_nibble_some_iff n c : from_nibble n = Some c <-> n mod 16 = get_nibble c.
Proof.
  split.
  - intros H. destruct (N.lt_ge_cases (n mod 16) 8) as [L|G].
    + destruct (from_nibble_some n L) as (c' & H1 & H2). congruence.
    + apply from_nibble_none_iff in G. congruence.
  - intros H. rewrite <- from_nibble_mod, H. apply from_nibble_get.
Qed.

Lemma split_colors_byte a b : split_byte (colors_byte a b) = Some (a, b).
Proof. destruct a, b; reflexivity. Qed.

Lemma split_byte_none_iff b :
  split_byte b = None <-> 8 <= b mod 16 \/ 8 <= (b / 16) mod 16.
Proof.
  unfold split_byte.
  pose proof (from_nibble_none_iff (b mod 16)) as H1.
  pose proof (from_nibble_none_iff ((b / 16) mod 16)) as H2.
  rewrite N.mod_mod in H1, H2 by lia.
  destruct (from_nibble (b mod 16)), (from_nibble ((b / 16) mod 16)); split; intros H;
    try reflexivity; try discriminate.
  - destruct H as [H|H]; [apply H1 in H|apply H2 in H]; discriminate.
  - right. apply H2. reflexivity.
  - left. apply H1. reflexivity.
  - left. apply H1. reflexivity.
Qed.

(** the decoder is also injective on bytes: decode-then-encode gives the byte back *)
Lemma colors_byte_split b h l : b < 256 -> split_byte b = Some (h, l) -> colors_byte h l = b.
Proof.
  intros Hb H.
  assert (G : (match split_byte b with
               | Some (h, l) => colors_byte h l =? b | None => true end) = true).
  { revert b Hb H. intros b Hb _. revert b Hb.
    apply (forall_below (fun b => match split_byte b with
               | Some (h, l) => colors_byte h l =? b | None => true end) 256).
    vm_compute. reflexivity. }
  rewrite H in G. apply N.eqb_eq. exact G.
Qed.

Lemma oct_raw_u4_get c : oct_from_raw_u4 (get_nibble c) = Some c.
Proof. destruct c; reflexivity. Qed.

Lemma oct_raw_u4_none_iff v : oct_from_raw_u4 v = None <-> 8 <= v mod 16.
Proof.
  unfold oct_from_raw_u4. rewrite from_nibble_none_iff, N.mod_mod by lia. reflexivity.
Qed.

Lemma oct_raw_u4_some v : v mod 16 < 8 ->
  exists c, oct_from_raw_u4 v = Some c /\ get_nibble c = v mod 16.
Proof.
  intros H. unfold oct_from_raw_u4.
  destruct (from_nibble_some (v mod 16)) as (c & H1 & H2).
  - rewrite N.mod_mod by lia. exact H.
  - exists c. rewrite N.mod_mod in H2 by lia. split; assumption.
Qed.

Lemma tri_raw_u2_spec v :
  tri_from_raw_u2 v =
  match v mod 4 with 0 => TWhite | 1 => TBlack | _ => TChromatic end.
Proof.
  unfold tri_from_raw_u2. pose proof (mod4_lt v) as H.
  generalize dependent (v mod 4). intros m H. cases4 H; reflexivity.
Qed.

Lemma tri_raw_u2_values :
  tri_from_raw_u2 0 = TWhite /\ tri_from_raw_u2 1 = TBlack /\
  tri_from_raw_u2 2 = TChromatic /\ tri_from_raw_u2 3 = TChromatic.
Proof. repeat split; reflexivity. Qed.

Lemma tri_raw_u2_onto c : exists v, v < 4 /\ tri_from_raw_u2 v = c.
Proof.
  destruct c; [exists 1|exists 0|exists 2]; split; try reflexivity; lia.
Qed.

Lemma binary_black_white :
  color_from_binary true = Black /\ color_from_binary false = White /\
  tri_from_binary true = TBlack /\ tri_from_binary false = TWhite /\
  oct_from_binary true = OBlack /\ oct_from_binary false = OWhite.
Proof. repeat split; reflexivity. Qed.

Lemma inverse_involutive c : inverse (inverse c) = c.
Proof. destruct c; reflexivity. Qed.
Lemma inverse_neq c : inverse c <> c.
Proof. destruct c; discriminate. Qed.
Lemma inverse_bit c : get_bit_value (inverse c) = 1 - get_bit_value c.
Proof. destruct c; reflexivity. Qed.

(** ** 2. RawU1 *)

Lemma raw_u1_roundtrip_actual c : color_from_raw_u1 (color_to_raw_u1 c) = inverse c.
Proof. destruct c; reflexivity. Qed.

Lemma raw_u1_roundtrip_false : ~ (forall c, color_from_raw_u1 (color_to_raw_u1 c) = c).
Proof. intros H. specialize (H White). vm_compute in H. discriminate. Qed.

Lemma raw_u1_never_roundtrips c : color_from_raw_u1 (color_to_raw_u1 c) <> c.
Proof. rewrite raw_u1_roundtrip_actual. apply inverse_neq. Qed.

Lemma raw_u1_decode_spec v :
  color_from_raw_u1 v = match v mod 2 with 0 => White | _ => Black end.
Proof.
  unfold color_from_raw_u1. pose proof (mod2_lt v) as H.
  generalize dependent (v mod 2). intros m H. cases2 H; reflexivity.
Qed.

Lemma raw_u1_other_direction v : color_to_raw_u1 (color_from_raw_u1 v) = 1 - v mod 2.
Proof.
  rewrite raw_u1_decode_spec. pose proof (mod2_lt v) as H.
  generalize dependent (v mod 2). intros m H. cases2 H; reflexivity.
Qed.

Lemma oct_raw_u4_total_false : ~ (forall v, v < 16 -> exists c, oct_from_raw_u4 v = Some c).
Proof. intros H. destruct (H 8) as [c Hc]; [lia|]. vm_compute in Hc. discriminate. Qed.

(** ** 3. Bit masks *)

Lemma bitpos_pow pos : bitpos pos = 2 ^ (7 - pos mod 8).
Proof.
  unfold bitpos. pose proof (mod8_lt pos) as H.
  generalize dependent (pos mod 8). intros m H. cases8 H; reflexivity.
Qed.

Lemma bit_lt_256 pos : 2 ^ (7 - pos mod 8) < 256.
Proof.
  pose proof (mod8_lt pos) as H.
  generalize dependent (pos mod 8). intros m H. cases8 H; reflexivity.
Qed.

Lemma bitmask_color_mod c pos : bitmask_color c pos = bitmask_color c (pos mod 8).
Proof. unfold bitmask_color, bitpos. rewrite N.mod_mod by lia. reflexivity. Qed.
Lemma bitmask_tri_mod c w pos : bitmask_tri c w pos = bitmask_tri c w (pos mod 8).
Proof. unfold bitmask_tri, bitpos. rewrite N.mod_mod by lia. reflexivity. Qed.
Lemma bitmask_oct_mod c pos : bitmask_oct c pos = bitmask_oct c (pos mod 2).
Proof. unfold bitmask_oct. rewrite N.mod_mod by lia. reflexivity. Qed.

Lemma bitmask_color_spec c pos :
  bitmask_color c pos =
  (255 - 2 ^ (7 - pos mod 8), match c with White => 2 ^ (7 - pos mod 8) | Black => 0 end).
Proof. unfold bitmask_color, not8. rewrite bitpos_pow. destruct c; reflexivity. Qed.

(** the mask has every bit of the byte set except the pixel's bit *)
Lemma pixel_mask_bits pos k :
  N.testbit (255 - 2 ^ (7 - pos mod 8)) k = (k <? 8) && negb (k =? 7 - pos mod 8).
Proof.
  pose proof (mod8_lt pos) as H. generalize dependent (pos mod 8). intros m H.
  destruct (k <? 8) eqn:E.
  - apply N.ltb_lt in E. cases8 H; cases8 E; reflexivity.
  - apply N.ltb_ge in E. cbn [andb]. apply (testbit_high _ 8); [|exact E].
    change (2 ^ 8) with 256. lia.
Qed.

(** the set bit is exactly the pixel's bit *)
Lemma pixel_bit_bits pos k : N.testbit (2 ^ (7 - pos mod 8)) k = (k =? 7 - pos mod 8).
Proof. rewrite N.pow2_bits_eqb. apply N.eqb_sym. Qed.

Lemma bitmask_color_mask_bits c pos k :
  N.testbit (fst (bitmask_color c pos)) k = (k <? 8) && negb (k =? 7 - pos mod 8).
Proof. rewrite bitmask_color_spec. cbn [fst]. apply pixel_mask_bits. Qed.

Lemma bitmask_color_bits_bits c pos k :
  N.testbit (snd (bitmask_color c pos)) k =
  (k =? 7 - pos mod 8) && match c with White => true | Black => false end.
Proof.
  rewrite bitmask_color_spec. cbn [snd]. destruct c.
  - rewrite N.bits_0, andb_false_r. reflexivity.
  - rewrite pixel_bit_bits, andb_true_r. reflexivity.
Qed.

Lemma byte_value_bits c k : k < 8 ->
  N.testbit (get_byte_value c) k = match c with White => true | Black => false end.
Proof. intros H. destruct c; cases8 H; reflexivity. Qed.

Lemma bitmask_color_fill_agree c pos :
  N.testbit (snd (bitmask_color c pos)) (7 - pos mod 8) =
  N.testbit (get_byte_value c) (7 - pos mod 8).
Proof.
  rewrite bitmask_color_bits_bits, byte_value_bits by lia.
  rewrite N.eqb_refl. reflexivity.
Qed.

Lemma bitmask_color_fill_land c pos :
  snd (bitmask_color c pos) = N.land (get_byte_value c) (2 ^ (7 - pos mod 8)) /\
  N.land (fst (bitmask_color c pos)) (snd (bitmask_color c pos)) = 0 /\
  N.lor (fst (bitmask_color c pos)) (2 ^ (7 - pos mod 8)) = 255.
Proof.
  rewrite bitmask_color_spec. cbn [fst snd].
  pose proof (mod8_lt pos) as H. generalize dependent (pos mod 8). intros m H.
  destruct c; cases8 H; repeat split; reflexivity.
Qed.

(** TriColor: low byte = black/white plane, high byte = chromatic plane *)
Lemma bitmask_tri_spec c w pos :
  bitmask_tri c w pos =
  (255 - 2 ^ (7 - pos mod 8),
   match c with
   | TBlack => 0
   | TWhite => 2 ^ (7 - pos mod 8)
   | TChromatic => if w then 2 ^ (7 - pos mod 8) * 256
                   else 2 ^ (7 - pos mod 8) * 256 + 2 ^ (7 - pos mod 8)
   end).
Proof. unfold bitmask_tri, not8. rewrite bitpos_pow. destruct c; reflexivity. Qed.

Lemma bitmask_tri_planes c w pos :
  fst (bitmask_tri c w pos) = 255 - 2 ^ (7 - pos mod 8) /\
  snd (bitmask_tri c w pos) mod 256 =
    match c with
    | TBlack => 0
    | TWhite => 2 ^ (7 - pos mod 8)
    | TChromatic => if w then 0 else 2 ^ (7 - pos mod 8)
    end /\
  snd (bitmask_tri c w pos) / 256 =
    match c with TChromatic => 2 ^ (7 - pos mod 8) | _ => 0 end.
Proof.
  rewrite bitmask_tri_spec. cbn [fst snd]. pose proof (bit_lt_256 pos) as H.
  generalize dependent (2 ^ (7 - pos mod 8)). intros B H.
  destruct c, w; repeat split; lia.
Qed.

Lemma bitmask_tri_mask_bits c w pos k :
  N.testbit (fst (bitmask_tri c w pos)) k = (k <? 8) && negb (k =? 7 - pos mod 8).
Proof. rewrite bitmask_tri_spec. cbn [fst]. apply pixel_mask_bits. Qed.

Lemma tri_byte_value_bits c k : k < 8 ->
  N.testbit (tri_byte_value c) k = match c with TWhite => true | _ => false end.
Proof. intros H. destruct c; cases8 H; reflexivity. Qed.

(** black/white plane agrees with the whole-byte fill value, except that a chromatic pixel
    gets the B/W bit [negb bwrbit] *)
Lemma bitmask_tri_bw_bit c w pos :
  N.testbit (snd (bitmask_tri c w pos) mod 256) (7 - pos mod 8) =
  match c with TBlack => false | TWhite => true | TChromatic => negb w end.
Proof.
  destruct (bitmask_tri_planes c w pos) as (_ & -> & _).
  destruct c; [apply N.bits_0| |destruct w; [apply N.bits_0|]];
    rewrite pixel_bit_bits; apply N.eqb_refl.
Qed.

Lemma bitmask_tri_chroma_bit c w pos :
  N.testbit (snd (bitmask_tri c w pos) / 256) (7 - pos mod 8) =
  match c with TChromatic => true | _ => false end.
Proof.
  destruct (bitmask_tri_planes c w pos) as (_ & _ & ->).
  destruct c; try apply N.bits_0. rewrite pixel_bit_bits; apply N.eqb_refl.
Qed.

Lemma bitmask_tri_fill_agree c w pos : (c = TChromatic -> w = true) ->
  N.testbit (snd (bitmask_tri c w pos) mod 256) (7 - pos mod 8) =
  N.testbit (tri_byte_value c) (7 - pos mod 8).
Proof.
  intros H. rewrite bitmask_tri_bw_bit, tri_byte_value_bits by lia.
  destruct c; try reflexivity. rewrite H; reflexivity.
Qed.

Lemma bitmask_tri_fill_disagree pos :
  N.testbit (snd (bitmask_tri TChromatic false pos) mod 256) (7 - pos mod 8) <>
  N.testbit (tri_byte_value TChromatic) (7 - pos mod 8).
Proof.
  rewrite bitmask_tri_bw_bit, tri_byte_value_bits by lia. discriminate.
Qed.

(** both planes only ever touch the pixel's bit *)
Lemma bitmask_tri_other_bits c w pos k : k <> 7 - pos mod 8 ->
  N.testbit (snd (bitmask_tri c w pos) mod 256) k = false /\
  N.testbit (snd (bitmask_tri c w pos) / 256) k = false.
Proof.
  intros Hk. destruct (bitmask_tri_planes c w pos) as (_ & -> & ->).
  assert (E : N.testbit (2 ^ (7 - pos mod 8)) k = false).
  { rewrite pixel_bit_bits. apply N.eqb_neq. exact Hk. }
  destruct c, w; split; try apply N.bits_0; exact E.
Qed.

(** OctColor *)
Lemma bitmask_oct_spec c pos :
  bitmask_oct c pos =
  if pos mod 2 =? 0 then (15, get_nibble c * 16) else (240, get_nibble c).
Proof.
  rewrite bitmask_oct_mod. pose proof (mod2_lt pos) as H.
  generalize dependent (pos mod 2). intros m H. cases2 H; reflexivity.
Qed.

(** bit [k] of the mask is set iff it lies in the other pixel's nibble
    (even positions live in the high nibble, bits 4..7) *)
Lemma bitmask_oct_mask_bits c pos k :
  N.testbit (fst (bitmask_oct c pos)) k = (k <? 8) && negb (k / 4 =? 1 - pos mod 2).
Proof.
  rewrite bitmask_oct_mod. pose proof (mod2_lt pos) as H.
  generalize dependent (pos mod 2). intros m H.
  destruct (k <? 8) eqn:E.
  - apply N.ltb_lt in E. cases2 H; cases8 E; reflexivity.
  - apply N.ltb_ge in E. cbn [andb]. apply (testbit_high _ 8); [|exact E].
    cases2 H; reflexivity.
Qed.

Lemma bitmask_oct_fill_agree c pos :
  snd (bitmask_oct c pos) = N.land (colors_byte c c) (255 - fst (bitmask_oct c pos)) /\
  N.land (fst (bitmask_oct c pos)) (snd (bitmask_oct c pos)) = 0 /\
  snd (bitmask_oct c pos) < 256.
Proof.
  rewrite bitmask_oct_mod. pose proof (mod2_lt pos) as H.
  generalize dependent (pos mod 2). intros m H.
  destruct c; cases2 H; repeat split; reflexivity.
Qed.

(** the pixel's nibble of [bits] is the colour's nibble *)
Lemma bitmask_oct_nibble c pos :
  (snd (bitmask_oct c pos) / (if pos mod 2 =? 0 then 16 else 1)) mod 16 = get_nibble c.
Proof.
  rewrite bitmask_oct_spec. pose proof (mod2_lt pos) as H.
  generalize dependent (pos mod 2). intros m H.
  destruct c; cases2 H; reflexivity.
Qed.

(** ** 4. RGB -> two-level colour *)

Lemma color_from_rgb_white_iff mr mg mb r g b : (mr + mg + mb) mod 2 = 1 ->
  (color_from_rgb mr mg mb ((mr + mg + mb) / 2) r g b = White <->
   mr + mg + mb < 2 * (r + g + b)).
Proof.
  intros Hodd. unfold color_from_rgb.
  destruct ((r =? 0) && (g =? 0) && (b =? 0)) eqn:E0;
    [|destruct ((r =? mr) && (g =? mg) && (b =? mb)) eqn:E1;
      [|destruct ((mr + mg + mb) / 2 <? r + g + b) eqn:E2]];
    split; intros H; try reflexivity; try discriminate; lia.
Qed.

Lemma color_cases c : c = Black <-> c <> White.
Proof. destruct c; split; intros; congruence. Qed.

Lemma color_from_rgb_black_iff mr mg mb r g b : (mr + mg + mb) mod 2 = 1 ->
  (color_from_rgb mr mg mb ((mr + mg + mb) / 2) r g b = Black <->
   2 * (r + g + b) < mr + mg + mb).
Proof.
  intros Hodd. rewrite color_cases, (color_from_rgb_white_iff _ _ _ _ _ _ Hodd). lia.
Qed.

Lemma rgb888_white_iff r g b : color_from_rgb888 r g b = White <-> 765 < 2 * (r + g + b).
Proof. apply (color_from_rgb_white_iff 255 255 255). reflexivity. Qed.
Lemma rgb565_white_iff r g b : color_from_rgb565 r g b = White <-> 125 < 2 * (r + g + b).
Proof. apply (color_from_rgb_white_iff 31 63 31). reflexivity. Qed.
Lemma rgb555_white_iff r g b : color_from_rgb555 r g b = White <-> 93 < 2 * (r + g + b).
Proof. apply (color_from_rgb_white_iff 31 31 31). reflexivity. Qed.
Lemma rgb888_black_iff r g b : color_from_rgb888 r g b = Black <-> 2 * (r + g + b) < 765.
Proof. apply (color_from_rgb_black_iff 255 255 255). reflexivity. Qed.
Lemma rgb565_black_iff r g b : color_from_rgb565 r g b = Black <-> 2 * (r + g + b) < 125.
Proof. apply (color_from_rgb_black_iff 31 63 31). reflexivity. Qed.
Lemma rgb555_black_iff r g b : color_from_rgb555 r g b = Black <-> 2 * (r + g + b) < 93.
Proof. apply (color_from_rgb_black_iff 31 31 31). reflexivity. Qed.

(** brightness-nearest: [s] is the brightness of the pixel, [0] that of black, [M] that of
    white.  Ties cannot occur because [M] is odd for all three depths. *)
Definition nearest_spec (M : N) (c : color) (s : N) : Prop :=
  (c = White <-> M - s < s - 0) /\ (c = Black <-> s - 0 < M - s) /\ s - 0 <> M - s.

Lemma rgb888_nearest r g b : r <= 255 -> g <= 255 -> b <= 255 ->
  nearest_spec 765 (color_from_rgb888 r g b) (r + g + b).
Proof.
  intros Hr Hg Hb. unfold nearest_spec. rewrite rgb888_white_iff, rgb888_black_iff. lia.
Qed.
Lemma rgb565_nearest r g b : r <= 31 -> g <= 63 -> b <= 31 ->
  nearest_spec 125 (color_from_rgb565 r g b) (r + g + b).
Proof.
  intros Hr Hg Hb. unfold nearest_spec. rewrite rgb565_white_iff, rgb565_black_iff. lia.
Qed.
Lemma rgb555_nearest r g b : r <= 31 -> g <= 31 -> b <= 31 ->
  nearest_spec 93 (color_from_rgb555 r g b) (r + g + b).
Proof.
  intros Hr Hg Hb. unfold nearest_spec. rewrite rgb555_white_iff, rgb555_black_iff. lia.
Qed.

Lemma color_rgb_fixpoints :
  color_from_rgb888 0 0 0 = Black /\ color_from_rgb888 255 255 255 = White /\
  color_from_rgb565 0 0 0 = Black /\ color_from_rgb565 31 63 31 = White /\
  color_from_rgb555 0 0 0 = Black /\ color_from_rgb555 31 31 31 = White.
Proof. repeat split; reflexivity. Qed.

Lemma color_rgb_roundtrip c :
  (let '(r, g, b) := color_to_rgb 255 255 255 c in color_from_rgb888 r g b = c) /\
  (let '(r, g, b) := color_to_rgb 31 63 31 c in color_from_rgb565 r g b = c) /\
  (let '(r, g, b) := color_to_rgb 31 31 31 c in color_from_rgb555 r g b = c).
Proof. destruct c; repeat split; reflexivity. Qed.

Lemma rgb888_two_level r g b :
  (color_from_rgb888 r g b = White <-> 765 < 2 * (r + g + b)) /\
  (color_from_rgb888 r g b = Black <-> 2 * (r + g + b) < 765).
Proof. split; [apply rgb888_white_iff|apply rgb888_black_iff]. Qed.
Lemma rgb565_two_level r g b :
  (color_from_rgb565 r g b = White <-> 125 < 2 * (r + g + b)) /\
  (color_from_rgb565 r g b = Black <-> 2 * (r + g + b) < 125).
Proof. split; [apply rgb565_white_iff|apply rgb565_black_iff]. Qed.
Lemma rgb555_two_level r g b :
  (color_from_rgb555 r g b = White <-> 93 < 2 * (r + g + b)) /\
  (color_from_rgb555 r g b = Black <-> 2 * (r + g + b) < 93).
Proof. split; [apply rgb555_white_iff|apply rgb555_black_iff]. Qed.

(** the thresholds of the model are half the brightness of white, rounded down *)
Lemma thresholds_are_half_white :
  thr888 = (255 + 255 + 255) / 2 /\ thr565 = (31 + 63 + 31) / 2 /\ thr555 = (31 + 31 + 31) / 2.
Proof. repeat split; reflexivity. Qed.

(** ** 5. RGB -> seven colours *)

Lemma min_by_key_in {A} (key : A -> N) l : forall best, In (min_by_key key best l) (best :: l).
Proof.
  induction l as [|a r IH]; intros best; cbn [min_by_key].
  - left; reflexivity.
  - destruct (key a <? key best).
    + right. apply IH.
    + destruct (IH best) as [H|H]; [left; exact H|right; right; exact H].
Qed.

Lemma min_by_key_le {A} (key : A -> N) l :
  forall best x, In x (best :: l) -> key (min_by_key key best l) <= key x.
Proof.
  induction l as [|a r IH]; intros best x Hx; cbn [min_by_key].
  - destruct Hx as [<-|[]]. apply N.le_refl.
  - destruct (key a <? key best) eqn:E.
    + apply N.ltb_lt in E. destruct Hx as [<-|Hx].
      * pose proof (IH a a (or_introl eq_refl)). lia.
      * apply IH. exact Hx.
    + apply N.ltb_ge in E. destruct Hx as [<-|[<-|Hx]].
      * apply IH. left; reflexivity.
      * pose proof (IH best best (or_introl eq_refl)). lia.
      * apply IH. right; exact Hx.
Qed.

(** [min_by_key] returns the FIRST minimal element: everything in front of it is strictly
    farther away *)
Lemma min_by_key_split {A} (key : A -> N) l :
  forall best, exists pre post,
    best :: l = pre ++ min_by_key key best l :: post /\
    (forall x, In x pre -> key (min_by_key key best l) < key x) /\
    (forall x, In x post -> key (min_by_key key best l) <= key x).
Proof.
  induction l as [|a r IH]; intros best; cbn [min_by_key].
  - exists [], []. repeat split; intros x [].
  - destruct (key a <? key best) eqn:E.
    + apply N.ltb_lt in E. destruct (IH a) as (pre & post & Heq & Hpre & Hpost).
      exists (best :: pre), post. split; [cbn [app]; rewrite <- Heq; reflexivity|].
      split; [|exact Hpost]. intros x [<-|Hx]; [|apply Hpre; exact Hx].
      pose proof (min_by_key_le key r a a (or_introl eq_refl)). lia.
    + apply N.ltb_ge in E. destruct (IH best) as (pre & post & Heq & Hpre & Hpost).
      destruct pre as [|p pre]; cbn [app] in Heq.
      * injection Heq as Hb Hr. exists [], (a :: post). split; [|split].
        -- cbn [app]. rewrite <- Hb at 1. rewrite Hr. reflexivity.
        -- intros x [].
        -- intros x [<-|Hx]; [rewrite <- Hb; exact E|apply Hpost; exact Hx].
      * injection Heq as Hb Hr. subst p. exists (best :: a :: pre), post. split; [|split].
        -- cbn [app]. f_equal. f_equal. exact Hr.
        -- intros x [<-|[<-|Hx]].
           ++ apply Hpre. left; reflexivity.
           ++ pose proof (Hpre best (or_introl eq_refl)). lia.
           ++ apply Hpre. right; exact Hx.
        -- exact Hpost.
Qed.

Lemma first_occurrence_unique {A} (x : A) pre :
  forall post pre2 post2, pre ++ x :: post = pre2 ++ x :: post2 ->
  ~ In x pre -> ~ In x pre2 -> pre = pre2.
Proof.
  induction pre as [|p pre IH]; intros post pre2 post2 Heq H1 H2.
  - destruct pre2 as [|q pre2]; [reflexivity|]. cbn [app] in Heq. injection Heq as <- _.
    exfalso. apply H2. left; reflexivity.
  - destruct pre2 as [|q pre2]; cbn [app] in Heq.
    + injection Heq as -> _. exfalso. apply H1. left; reflexivity.
    + injection Heq as <- Heq. f_equal. apply (IH post pre2 post2 Heq).
      * intros C. apply H1. right; exact C.
      * intros C. apply H2. right; exact C.
Qed.

Lemma min_by_key_first {A} (key : A -> N) l best pre post :
  best :: l = pre ++ min_by_key key best l :: post ->
  ~ In (min_by_key key best l) pre ->
  forall x, In x pre -> key (min_by_key key best l) < key x.
Proof.
  intros Heq Hnin. destruct (min_by_key_split key l best) as (pre2 & post2 & Heq2 & Hpre & _).
  rewrite Heq in Heq2.
  assert (pre = pre2) as ->; [|exact Hpre].
  apply (first_occurrence_unique _ _ _ _ _ Heq2 Hnin).
  intros C. apply Hpre in C. lia.
Qed.

Lemma all_oct_complete c : In c all_oct.
Proof. destruct c; cbn; tauto. Qed.

Lemma all_oct_head_tail : OBlack :: tl all_oct = all_oct.
Proof. reflexivity. Qed.

Lemma sqdist_refl p : sqdist p p = 0.
Proof.
  destruct p as [[r g] b]. unfold sqdist. rewrite !N.ltb_irrefl, !N.sub_diag. reflexivity.
Qed.

Lemma rgb_eqb_eq p q : rgb_eqb p q = true <-> p = q.
Proof.
  destruct p as [[r1 g1] b1], q as [[r2 g2] b2]. unfold rgb_eqb.
  rewrite !andb_true_iff, !N.eqb_eq. split.
  - intros [[-> ->] ->]. reflexivity.
  - intros H. injection H as -> -> ->. auto.
Qed.

Lemma sqdist_zero_iff p q : sqdist p q = 0 <-> p = q.
Proof.
  split; [|intros ->; apply sqdist_refl].
  destruct p as [[r1 g1] b1], q as [[r2 g2] b2]. unfold sqdist. intros H.
  assert (Hd : forall a b, (if a <? b then b - a else a - b) = 0 -> a = b).
  { intros a b. destruct (a <? b) eqn:E; lia. }
  apply N.eq_add_0 in H. destruct H as [H H3]. apply N.eq_add_0 in H. destruct H as [H1 H2].
  apply N.eq_mul_0 in H1, H2, H3.
  f_equal; [f_equal|]; apply Hd; tauto.
Qed.

Lemma oct_rgb_cases r g b :
  (exists c, find (fun c => rgb_eqb (rgb c) (r, g, b)) all_oct = Some c /\
             rgb c = (r, g, b) /\ oct_from_rgb888 r g b = c) \/
  (find (fun c => rgb_eqb (rgb c) (r, g, b)) all_oct = None /\
   oct_from_rgb888 r g b = min_by_key (fun c => sqdist (rgb c) (r, g, b)) OBlack (tl all_oct)).
Proof.
  unfold oct_from_rgb888.
  destruct (find (fun c => rgb_eqb (rgb c) (r, g, b)) all_oct) as [c|] eqn:E.
  - left. exists c. apply find_some in E. destruct E as [_ E]. apply rgb_eqb_eq in E. auto.
  - right. auto.
Qed.

Lemma oct_rgb_minimal r g b c' :
  sqdist (rgb (oct_from_rgb888 r g b)) (r, g, b) <= sqdist (rgb c') (r, g, b).
Proof.
  destruct (oct_rgb_cases r g b) as [(c & _ & Hc & ->)|[_ ->]].
  - rewrite Hc, sqdist_refl. apply N.le_0_l.
  - apply (min_by_key_le (fun c => sqdist (rgb c) (r, g, b))).
    rewrite all_oct_head_tail. apply all_oct_complete.
Qed.

Lemma rgb_injective a b : rgb a = rgb b -> a = b.
Proof. destruct a, b; cbn [rgb]; intros H; try reflexivity; discriminate. Qed.

(** ties are broken towards the colour listed first (smaller nibble); an exact match is
    strictly closer than every other colour *)
Lemma oct_rgb_first r g b c' :
  get_nibble c' < get_nibble (oct_from_rgb888 r g b) ->
  sqdist (rgb (oct_from_rgb888 r g b)) (r, g, b) < sqdist (rgb c') (r, g, b).
Proof.
  intros Hlt. destruct (oct_rgb_cases r g b) as [(c & _ & Hc & E)|[_ E]]; rewrite E in *.
  - rewrite <- Hc, sqdist_refl. apply N.neq_0_lt_0. intros Z.
    apply sqdist_zero_iff, rgb_injective in Z. subst c'. lia.
  - set (key := fun c => sqdist (rgb c) (r, g, b)) in *.
    change (key (min_by_key key OBlack (tl all_oct)) < key c').
    remember (min_by_key key OBlack (tl all_oct)) as res eqn:R.
    pose proof (min_by_key_first key (tl all_oct) OBlack
                  (firstn (N.to_nat (get_nibble res)) all_oct)
                  (skipn (S (N.to_nat (get_nibble res))) all_oct)) as F.
    rewrite <- R in F. apply F.
    + destruct res; reflexivity.
    + destruct res; cbn; intros C; repeat (destruct C as [C|C]; [discriminate C|]); exact C.
    + destruct res, c'; vm_compute in Hlt; try discriminate Hlt; vm_compute; auto 10.
Qed.

Lemma oct_rgb_exact c r g b : rgb c = (r, g, b) -> oct_from_rgb888 r g b = c.
Proof. destruct c; cbn [rgb]; intros H; injection H as <- <- <-; reflexivity. Qed.

Lemma oct_rgb_roundtrip c : let '(r, g, b) := rgb c in oct_from_rgb888 r g b = c.
Proof. destruct c; reflexivity. Qed.

(** the squared distance the Rust code computes in [i32] cannot overflow *)
Lemma sqdist_bound p q :
  (let '(r1, g1, b1) := p in r1 <= 255 /\ g1 <= 255 /\ b1 <= 255) ->
  (let '(r2, g2, b2) := q in r2 <= 255 /\ g2 <= 255 /\ b2 <= 255) ->
  sqdist p q <= 195075.
Proof.
  destruct p as [[r1 g1] b1], q as [[r2 g2] b2]. intros (H1 & H2 & H3) (H4 & H5 & H6).
  unfold sqdist.
  assert (Hd : forall a b, a <= 255 -> b <= 255 -> (if a <? b then b - a else a - b) <= 255).
  { intros a b Ha Hb. destruct (a <? b); lia. }
  pose proof (Hd r1 r2 H1 H4) as D1. pose proof (Hd g1 g2 H2 H5) as D2.
  pose proof (Hd b1 b2 H3 H6) as D3.
  pose proof (N.mul_le_mono _ _ _ _ D1 D1). pose proof (N.mul_le_mono _ _ _ _ D2 D2).
  pose proof (N.mul_le_mono _ _ _ _ D3 D3).
  change (255 * 255) with 65025 in *. lia.
Qed.

Lemma rgb_channels_le c : let '(r, g, b) := rgb c in r <= 255 /\ g <= 255 /\ b <= 255.
Proof. destruct c; cbn [rgb]; lia. Qed.

(** TriColor *)
Lemma tri_rgb_fixpoints :
  tri_from_rgb888 0 0 0 = TBlack /\ tri_from_rgb888 255 255 255 = TWhite.
Proof. split; reflexivity. Qed.
Lemma tri_rgb_roundtrip c : let '(r, g, b) := tri_to_rgb888 c in tri_from_rgb888 r g b = c.
Proof. destruct c; reflexivity. Qed.
Lemma tri_rgb_spec r g b :
  (tri_from_rgb888 r g b = TBlack <-> (r, g, b) = (0, 0, 0)) /\
  (tri_from_rgb888 r g b = TWhite <-> (r, g, b) = (255, 255, 255)).
Proof.
  unfold tri_from_rgb888.
  destruct ((r =? 0) && (g =? 0) && (b =? 0)) eqn:E0;
    [|destruct ((r =? 255) && (g =? 255) && (b =? 255)) eqn:E1].
  - assert (r = 0 /\ g = 0 /\ b = 0) as (-> & -> & ->) by lia.
    split; split; intros H; try reflexivity; discriminate.
  - assert (r = 255 /\ g = 255 /\ b = 255) as (-> & -> & ->) by lia.
    split; split; intros H; try reflexivity; discriminate.
  - split; split; intros H; try discriminate; injection H as -> -> ->; discriminate.
Qed.

(** ** Packaged statements used by Properties/C14.v *)

Lemma min_by_key_minimal {A} (key : A -> N) l best :
  In (min_by_key key best l) (best :: l) /\
  forall x, In x (best :: l) -> key (min_by_key key best l) <= key x.
Proof. split; [apply min_by_key_in|apply min_by_key_le]. Qed.

Lemma inverse_involution c : inverse (inverse c) = c /\ inverse c <> c.
Proof. split; [apply inverse_involutive|apply inverse_neq]. Qed.

Lemma byte_value_all_bits c k : k < 8 ->
  N.testbit (get_byte_value c) k = (get_bit_value c =? 1).
Proof. intros H. rewrite byte_value_bits by exact H. destruct c; reflexivity. Qed.

Lemma tri_byte_value_all_bits c k : k < 8 ->
  N.testbit (tri_byte_value c) k = (tri_bit_value c =? 1).
Proof. intros H. rewrite tri_byte_value_bits by exact H. destruct c; reflexivity. Qed.

Lemma tri_bwrbit_doc_false :
  ~ (forall w pos, N.testbit (snd (bitmask_tri TChromatic w pos) mod 256) (7 - pos mod 8) = w).
Proof. intros H. specialize (H true 0). rewrite bitmask_tri_bw_bit in H. discriminate. Qed.

Lemma tri_fill_agree_false :
  ~ (forall c w pos, N.testbit (snd (bitmask_tri c w pos) mod 256) (7 - pos mod 8) =
                     N.testbit (tri_byte_value c) (7 - pos mod 8)).
Proof. intros H. exact (bitmask_tri_fill_disagree 0 (H TChromatic false 0)). Qed.

Lemma oct_rgb_minimal' r g b c c' : oct_from_rgb888 r g b = c ->
  sqdist (rgb c) (r, g, b) <= sqdist (rgb c') (r, g, b).
Proof. intros <-. apply oct_rgb_minimal. Qed.

Lemma oct_rgb_first' r g b c c' : oct_from_rgb888 r g b = c ->
  get_nibble c' < get_nibble c -> sqdist (rgb c) (r, g, b) < sqdist (rgb c') (r, g, b).
Proof. intros <-. apply oct_rgb_first. Qed.

Lemma oct_rgb_no_overflow c r g b : r <= 255 -> g <= 255 -> b <= 255 ->
  sqdist (rgb c) (r, g, b) <= 195075 /\ 195075 < 2 ^ 31.
Proof.
  intros Hr Hg Hb. split; [|reflexivity].
  apply sqdist_bound; [apply rgb_channels_le|auto].
Qed.

Lemma oct_search_covers_all : OBlack :: tl all_oct = all_oct /\ forall c, In c all_oct.
Proof. split; [reflexivity|apply all_oct_complete]. Qed.

Lemma oct_black_white_fixpoints :
  oct_from_rgb888 0 0 0 = OBlack /\ oct_from_rgb888 255 255 255 = OWhite /\
  rgb OBlack = (0, 0, 0) /\ rgb OWhite = (255, 255, 255).
Proof. repeat split; reflexivity. Qed.

Lemma totality_summary :
  (forall v, from_u8 v = None <-> 2 <= v) /\
  (forall n, from_nibble n = None <-> 8 <= n mod 16) /\
  (forall b, split_byte b = None <-> 8 <= b mod 16 \/ 8 <= (b / 16) mod 16) /\
  (forall v, oct_from_raw_u4 v = None <-> 8 <= v mod 16).
Proof.
  repeat split; try apply from_u8_none_iff; try apply from_nibble_none_iff;
    try apply split_byte_none_iff; try apply oct_raw_u4_none_iff.
Qed.

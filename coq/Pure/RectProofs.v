From Coq Require Import NArith Bool Lia.
From EPD Require Import Pure.Rect.
Open Scope N_scope.

Lemma add32_ok a b : a + b < u32max -> add32 a b = Some (a + b).
Proof. intros H. unfold add32. apply N.ltb_lt in H. now rewrite H. Qed.

Lemma intersect_defined a b : edges_ok a -> edges_ok b ->
  intersect a b = Some (mkRect (N.max (rx a) (rx b)) (N.max (ry a) (ry b))
                               (N.min (rx a + rw a) (rx b + rw b) - N.max (rx a) (rx b))
                               (N.min (ry a + rh a) (ry b + rh b) - N.max (ry a) (ry b))).
Proof.
  intros [Ha1 Ha2] [Hb1 Hb2]. unfold intersect.
  rewrite !add32_ok by assumption. reflexivity.
Qed.

Lemma intersect_comm a b : edges_ok a -> edges_ok b -> intersect a b = intersect b a.
Proof.
  intros Ha Hb. rewrite (intersect_defined a b Ha Hb), (intersect_defined b a Hb Ha).
  f_equal. f_equal; lia.
Qed.

Lemma intersect_idem a : edges_ok a -> intersect a a = Some a.
Proof.
  intros Ha. rewrite (intersect_defined a a Ha Ha). destruct a as [x y w h]; cbn.
  f_equal. f_equal; lia.
Qed.

Lemma intersect_pixels a b i px py : edges_ok a -> edges_ok b -> intersect a b = Some i ->
  (inside i px py <-> inside a px py /\ inside b px py).
Proof.
  intros Ha Hb H. rewrite (intersect_defined a b Ha Hb) in H. injection H as <-.
  unfold inside; cbn. lia.
Qed.

Lemma intersect_empty_iff a b i : edges_ok a -> edges_ok b -> intersect a b = Some i ->
  (is_empty i = true <-> forall px py, ~ (inside a px py /\ inside b px py)).
Proof.
  intros Ha Hb H. split.
  - intros He px py Hin. apply (intersect_pixels a b i px py Ha Hb H) in Hin.
    unfold is_empty in He. apply orb_true_iff in He. unfold inside in Hin.
    destruct He as [He|He]; apply N.eqb_eq in He; lia.
  - intros Hno. destruct (is_empty i) eqn:E; [reflexivity|exfalso].
    unfold is_empty in E. apply orb_false_iff in E. destruct E as [E1 E2].
    apply N.eqb_neq in E1, E2.
    apply (Hno (rx i) (ry i)). apply (intersect_pixels a b i _ _ Ha Hb H).
    unfold inside. lia.
Qed.

Lemma intersect_contained a b i : edges_ok a -> edges_ok b -> intersect a b = Some i ->
  is_empty i = false ->
  (rx a <= rx i /\ rx i + rw i <= rx a + rw a /\ ry a <= ry i /\ ry i + rh i <= ry a + rh a) /\
  (rx b <= rx i /\ rx i + rw i <= rx b + rw b /\ ry b <= ry i /\ ry i + rh i <= ry b + rh b).
Proof.
  intros Ha Hb H E. rewrite (intersect_defined a b Ha Hb) in H. injection H as <-.
  unfold is_empty in E. apply orb_false_iff in E. destruct E as [E1 E2].
  apply N.eqb_neq in E1, E2. cbn in *. lia.
Qed.

Lemma intersect_wf a b i : edges_ok a -> edges_ok b -> intersect a b = Some i -> wf i /\ edges_ok i.
Proof.
  intros Ha Hb H. rewrite (intersect_defined a b Ha Hb) in H. injection H as <-.
  unfold wf, edges_ok in *; cbn. lia.
Qed.

Lemma sub_offset_ok a dx dy : dx <= rx a -> dy <= ry a ->
  sub_offset a dx dy = Some (mkRect (rx a - dx) (ry a - dy) (rw a) (rh a)).
Proof.
  intros Hx Hy. unfold sub_offset, sub32.
  apply N.leb_le in Hx, Hy. now rewrite Hx, Hy.
Qed.

Lemma sub_offset_pixels a dx dy r px py : dx <= rx a -> dy <= ry a -> sub_offset a dx dy = Some r ->
  (inside r px py <-> inside a (px + dx) (py + dy)).
Proof.
  intros Hx Hy H. rewrite (sub_offset_ok a dx dy Hx Hy) in H. injection H as <-.
  unfold inside; cbn. lia.
Qed.

(** the guard is exact: outside the precondition the debug build panics *)
Lemma sub_offset_underflow a dx dy : rx a < dx \/ ry a < dy -> sub_offset a dx dy = None.
Proof.
  intros H. unfold sub_offset, sub32.
  destruct (dx <=? rx a) eqn:E1; [|reflexivity].
  destruct (dy <=? ry a) eqn:E2; [|reflexivity].
  apply N.leb_le in E1, E2. lia.
Qed.

Lemma intersect_overflow a b : u32max <= rx a + rw a -> intersect a b = None.
Proof.
  intros H. unfold intersect, add32. apply N.ltb_ge in H. now rewrite H.
Qed.

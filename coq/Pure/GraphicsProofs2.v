(** Proofs about the set_pixel model, part 2 (C03): the physical pixel of a logical point, the exact
    effect of [set_pixel] on an arbitrary buffer for the three colour types, absence of panics,
    and the instantiation to the 27 shipped aliases. *)
From Coq Require Import List NArith ZArith Bool Lia.
From EPD Require Import Pure.Color Pure.Graphics Pure.GraphicsProofs Pure.Aliases.
Import ListNotations.
Open Scope N_scope.

Ltac Zify.zify_post_hook ::= Z.to_euclidean_division_equations.

(** ** The physical pixel a logical point is mapped to (specification side: no wrap-around) *)
Definition phys (rot : rotation) (w h : N) (px py : Z) : N * N :=
  match rot with
  | Rot0 => (Z.to_N px, Z.to_N py)
  | Rot90 => (Z.to_N (Z.of_N w - 1 - py), Z.to_N px)
  | Rot180 => (Z.to_N (Z.of_N w - 1 - px), Z.to_N (Z.of_N h - 1 - py))
  | Rot270 => (Z.to_N py, Z.to_N (Z.of_N h - 1 - px))
  end.

Lemma size_spec rot w h :
  size rot w h = match rot with Rot0 | Rot180 => (w, h) | Rot90 | Rot270 => (h, w) end.
Proof. destruct rot; reflexivity. Qed.

Lemma logical_in_size rot w h px py :
  logical_in rot w h px py <->
  (0 <= px < Z.of_N (fst (size rot w h)) /\ 0 <= py < Z.of_N (snd (size rot w h)))%Z.
Proof. unfold logical_in. destruct (size rot w h) as [sw sh]. cbn [fst snd]. tauto. Qed.

Lemma logical_in_i32 rot w h px py : (Z.of_N w <= i32max)%Z -> (Z.of_N h <= i32max)%Z ->
  logical_in rot w h px py -> in_i32 px /\ in_i32 py.
Proof.
  intros Hw Hh Hp. unfold logical_in in Hp. unfold in_i32, i32min, i32max in *.
  destruct rot; cbn [size] in Hp; lia.
Qed.

Lemma logical_in_dec rot w h px py : logical_in rot w h px py \/ ~ logical_in rot w h px py.
Proof. unfold logical_in. destruct (size rot w h) as [sw sh]. lia. Qed.

Lemma phys_rotate rot w h px py x y : (Z.of_N w <= i32max)%Z -> (Z.of_N h <= i32max)%Z ->
  logical_in rot w h px py -> phys rot w h px py = (x, y) ->
  rotate rot w h px py = (Z.of_N x, Z.of_N y) /\ x < w /\ y < h.
Proof.
  intros Hw Hh Hp Hxy. rewrite (rotate_logical rot w h px py Hw Hh Hp).
  unfold logical_in in Hp.
  destruct rot; cbn [size phys] in *; injection Hxy as <- <-; (split; [f_equal|]); lia.
Qed.

Lemma phys_in_range rot w h px py : logical_in rot w h px py ->
  fst (phys rot w h px py) < w /\ snd (phys rot w h px py) < h.
Proof.
  intros Hp. unfold logical_in in Hp. destruct rot; cbn [size phys fst snd] in *; lia.
Qed.

Lemma phys_inj rot w h px py qx qy :
  logical_in rot w h px py -> logical_in rot w h qx qy ->
  phys rot w h px py = phys rot w h qx qy -> px = qx /\ py = qy.
Proof.
  intros Hp Hq E. unfold logical_in in Hp, Hq.
  destruct rot; cbn [size phys] in *; injection E as E1 E2; lia.
Qed.

(** the inverse map: the logical point drawn at physical pixel (x, y) *)
Definition logical_of (rot : rotation) (w h : N) (x y : N) : Z * Z :=
  match rot with
  | Rot0 => (Z.of_N x, Z.of_N y)
  | Rot90 => (Z.of_N y, Z.of_N w - 1 - Z.of_N x)
  | Rot180 => (Z.of_N w - 1 - Z.of_N x, Z.of_N h - 1 - Z.of_N y)
  | Rot270 => (Z.of_N h - 1 - Z.of_N y, Z.of_N x)
  end%Z.

Lemma phys_surj rot w h x y : x < w -> y < h ->
  exists px py, logical_in rot w h px py /\ phys rot w h px py = (x, y) /\
    forall qx qy, logical_in rot w h qx qy -> phys rot w h qx qy = (x, y) -> qx = px /\ qy = py.
Proof.
  intros Hx Hy.
  exists (fst (logical_of rot w h x y)), (snd (logical_of rot w h x y)).
  assert (Hin : logical_in rot w h (fst (logical_of rot w h x y)) (snd (logical_of rot w h x y))).
  { unfold logical_in. destruct rot; cbn [size logical_of fst snd]; lia. }
  assert (Hph : phys rot w h (fst (logical_of rot w h x y)) (snd (logical_of rot w h x y)) = (x, y)).
  { destruct rot; cbn [phys logical_of fst snd]; f_equal; lia. }
  split; [exact Hin|]. split; [exact Hph|].
  intros qx qy Hq Eq. apply (phys_inj rot w h qx qy _ _ Hq Hin). now rewrite Eq, Hph.
Qed.

(** ** Byte updates *)
Lemma apply_write_same b wr :
  apply_write b wr (w_idx wr) = N.lor (N.land (b (w_idx wr)) (w_mask wr)) (w_bits wr).
Proof. unfold apply_write. now rewrite N.eqb_refl. Qed.

Lemma apply_write_other b wr i : i <> w_idx wr -> apply_write b wr i = b i.
Proof. intros Hi. unfold apply_write. apply N.eqb_neq in Hi. now rewrite Hi. Qed.

(** set or clear bit [j] of byte [idx] *)
Definition upd1 (idx j : N) (v : bool) : write :=
  mkWrite idx (not8 (2 ^ j)) (if v then 2 ^ j else 0).

Lemma upd1_same_bits b idx j v k : j < 8 -> b idx < 256 ->
  N.testbit (apply_write b (upd1 idx j v) idx) k = if k =? j then v else N.testbit (b idx) k.
Proof.
  intros Hj Hb. unfold upd1. rewrite (apply_write_same b (mkWrite idx _ _)). cbn [w_idx w_mask w_bits].
  rewrite update_bit_spec by assumption.
  destruct (k =? j); [reflexivity|].
  destruct (N.ltb_spec k 8) as [Hk|Hk]; [reflexivity|].
  cbn [andb]. symmetry. now apply byte_bits_above.
Qed.

Lemma upd1_small b idx j v i : j < 8 -> (forall i, b i < 256) -> apply_write b (upd1 idx j v) i < 256.
Proof.
  intros Hj Hb. destruct (N.eq_dec i idx) as [->|Hi].
  - unfold upd1. rewrite (apply_write_same b (mkWrite idx _ _)). cbn [w_idx w_mask w_bits].
    apply update_bit_small; [assumption|apply Hb].
  - rewrite apply_write_other by exact Hi. apply Hb.
Qed.

Lemma get_bit_byte_of b base w x y :
  get_bit b base w x y = N.testbit (b (base + byte_of w x y)) (bitidx x).
Proof. unfold get_bit, byte_of, bitidx. now rewrite N.add_assoc. Qed.

Lemma get_bit_other b wr base w x y : w_idx wr <> base + byte_of w x y ->
  get_bit (apply_write b wr) base w x y = get_bit b base w x y.
Proof.
  intros Hi. rewrite !get_bit_byte_of. rewrite apply_write_other; [reflexivity|].
  intros E. apply Hi. now symmetry.
Qed.

(** reading back a 1-bpp plane after one pixel update *)
Lemma plane_update b base w x y v x' y' : x < w -> x' < w -> (forall i, b i < 256) ->
  get_bit (apply_write b (upd1 (base + byte_of w x y) (bitidx x) v)) base w x' y' =
  if (x' =? x) && (y' =? y) then v else get_bit b base w x' y'.
Proof.
  intros Hx Hx' Hb. rewrite !get_bit_byte_of.
  destruct (N.eq_dec (byte_of w x' y') (byte_of w x y)) as [Ei|Ei].
  - rewrite Ei. rewrite upd1_same_bits by (try apply bitidx_lt; apply Hb).
    destruct (N.eqb_spec (bitidx x') (bitidx x)) as [Ej|Ej].
    + destruct (byte_of_inj w x' y' x y Hx' Hx Ei Ej) as [-> ->].
      now rewrite !N.eqb_refl.
    + replace ((x' =? x) && (y' =? y)) with false; [reflexivity|].
      symmetry. apply andb_false_iff. left. apply N.eqb_neq. intros ->. now apply Ej.
  - rewrite apply_write_other by (unfold upd1; cbn [w_idx]; lia).
    replace ((x' =? x) && (y' =? y)) with false; [reflexivity|].
    symmetry. apply andb_false_iff.
    destruct (N.eqb_spec x' x) as [->|Nx]; [right|now left].
    apply N.eqb_neq. intros ->. now apply Ei.
Qed.

(** ** Index arithmetic for the 4-bpp buffer *)
Definition nib_of (w x y : N) : N := x / 2 + y * line_bytes w 4.
Definition upd4 (idx x n : N) : write :=
  mkWrite idx (if x mod 2 =? 0 then 15 else 240) (if x mod 2 =? 0 then n * 16 else n).

Lemma get_nibble_lt c : get_nibble c < 8.
Proof. destruct c; reflexivity. Qed.

Lemma line_bytes_4 w : line_bytes w 4 = (w + 1) / 2.
Proof. unfold line_bytes. lia. Qed.

Lemma nib_of_lt w h x y : x < w -> y < h -> nib_of w x y < h * line_bytes w 4.
Proof.
  intros Hx Hy. unfold nib_of. rewrite line_bytes_4.
  assert (Hq : x / 2 < (w + 1) / 2) by lia. nia.
Qed.

Lemma nib_of_inj w x y x' y' : x < w -> x' < w ->
  nib_of w x y = nib_of w x' y' -> x mod 2 = x' mod 2 -> x = x' /\ y = y'.
Proof.
  unfold nib_of. rewrite line_bytes_4. intros Hx Hx' Hb Hi.
  assert (Hq : x / 2 < (w + 1) / 2) by lia.
  assert (Hq' : x' / 2 < (w + 1) / 2) by lia.
  assert (Ey : y = y') by nia. subst y'.
  assert (Eq : x / 2 = x' / 2) by nia.
  split; [|reflexivity]. lia.
Qed.

(** ** set_pixel *)
Lemma in_range_false w h x y : x < w -> y < h ->
  ((Z.of_N x <? 0) || (Z.of_N x >=? Z.of_N w) || (Z.of_N y <? 0) || (Z.of_N y >=? Z.of_N h))%Z = false.
Proof. intros Hx Hy. lia. Qed.

Lemma pow_bitidx_small x : 2 ^ bitidx x < 256.
Proof. change 256 with (2 ^ 8). apply N.pow_lt_mono_r; [lia|apply bitidx_lt]. Qed.

(** *** two-level colour *)
Lemma set_pixel_color_in' w h rot bwr c px py x y :
  rotate rot w h px py = (Z.of_N x, Z.of_N y) -> x < w -> y < h ->
  set_pixel (buffer_size CtColor w h) w h rot bwr (AColor c) px py =
  SpWrites [upd1 (byte_of w x y) (bitidx x) (enc_color c)].
Proof. exact (set_pixel_color_in w h rot bwr c px py x y). Qed.

Lemma buffer_size_color w h : buffer_size CtColor w h = h * line_bytes w 1.
Proof. unfold buffer_size. cbn [bpp nbuf]. apply N.mul_1_r. Qed.

Lemma buffer_size_tri w h : buffer_size CtTri w h = h * line_bytes w 1 * 2.
Proof. reflexivity. Qed.

Lemma buffer_size_tri_half w h : buffer_size CtTri w h / 2 = h * line_bytes w 1.
Proof. rewrite buffer_size_tri. apply N.div_mul. discriminate. Qed.

Lemma buffer_size_oct w h : buffer_size CtOct w h = h * line_bytes w 4.
Proof. unfold buffer_size. cbn [bpp nbuf]. apply N.mul_1_r. Qed.

(** *** tricolour: (black/white plane bit, chromatic plane bit) *)
Definition enc_tri (c : tricolor) (bwrbit : bool) : bool * bool :=
  match c with
  | TBlack => (false, false)
  | TWhite => (true, false)
  | TChromatic => (negb bwrbit, true)
  end.

Lemma enc_tri_table :
  (forall bwr, enc_tri TBlack bwr = (false, false)) /\
  (forall bwr, enc_tri TWhite bwr = (true, false)) /\
  enc_tri TChromatic true = (false, true) /\
  enc_tri TChromatic false = (true, true).
Proof. repeat split. Qed.

(** [enc_tri] is exactly what [bitmask_tri] encodes: the low byte of [bits] carries the
    black/white plane bit, the high byte the chromatic plane bit *)
Lemma bitmask_tri_enc c bwr pos :
  bitmask_tri c bwr pos =
  (not8 (bitpos pos),
   (if fst (enc_tri c bwr) then bitpos pos else 0) + 256 * (if snd (enc_tri c bwr) then bitpos pos else 0)).
Proof.
  unfold bitmask_tri. destruct c; [| |destruct bwr]; cbn [enc_tri fst snd negb]; f_equal; lia.
Qed.

Lemma set_pixel_tri_in w h rot bwr c px py x y :
  rotate rot w h px py = (Z.of_N x, Z.of_N y) -> x < w -> y < h ->
  set_pixel (buffer_size CtTri w h) w h rot bwr (ATri c) px py =
  SpWrites [upd1 (byte_of w x y) (bitidx x) (fst (enc_tri c bwr));
            upd1 (buffer_size CtTri w h / 2 + byte_of w x y) (bitidx x) (snd (enc_tri c bwr))].
Proof.
  intros Hr Hx Hy. unfold set_pixel. rewrite Hr, (in_range_false w h x y Hx Hy).
  rewrite !N2Z.id. cbn [ctype_of bpp nbuf bitmask].
  replace (2 =? 2) with true by reflexivity.
  assert (Hidx : x * 1 / 8 + y * line_bytes w 1 = byte_of w x y) by (unfold byte_of; now rewrite N.mul_1_r).
  rewrite Hidx.
  pose proof (byte_of_lt w h x y Hx Hy) as Hlt.
  rewrite buffer_size_tri_half.
  assert (H1 : byte_of w x y <? buffer_size CtTri w h = true)
    by (apply N.ltb_lt; rewrite buffer_size_tri; lia).
  assert (H2 : byte_of w x y + h * line_bytes w 1 <? buffer_size CtTri w h = true)
    by (apply N.ltb_lt; rewrite buffer_size_tri; lia).
  unfold bitmask_tri. rewrite bitpos_pow.
  pose proof (pow_bitidx_small x) as Hp. unfold upd1.
  rewrite (N.add_comm (h * line_bytes w 1) (byte_of w x y)).
  set (p := 2 ^ bitidx x) in *.
  destruct c; [| |destruct bwr]; cbn [enc_tri fst snd negb]; rewrite H1, H2.
  - reflexivity.
  - replace (p mod 256) with p by lia. replace (p / 256) with 0 by lia. reflexivity.
  - replace (p * 256 mod 256) with 0 by lia. replace (p * 256 / 256) with p by lia. reflexivity.
  - replace ((p * 256 + p) mod 256) with p by lia. replace ((p * 256 + p) / 256) with p by lia.
    reflexivity.
Qed.

(** *** seven-colour, 4 bits per pixel *)
Lemma set_pixel_oct_in w h rot bwr c px py x y :
  rotate rot w h px py = (Z.of_N x, Z.of_N y) -> x < w -> y < h ->
  set_pixel (buffer_size CtOct w h) w h rot bwr (AOct c) px py =
  SpWrites [upd4 (nib_of w x y) x (get_nibble c)].
Proof.
  intros Hr Hx Hy. unfold set_pixel. rewrite Hr, (in_range_false w h x y Hx Hy).
  rewrite !N2Z.id. cbn [ctype_of bpp nbuf bitmask].
  replace (1 =? 2) with false by reflexivity.
  assert (Hidx : x * 4 / 8 + y * line_bytes w 4 = nib_of w x y) by (unfold nib_of; f_equal; lia).
  rewrite Hidx.
  assert (H1 : nib_of w x y <? buffer_size CtOct w h = true)
    by (apply N.ltb_lt; rewrite buffer_size_oct; now apply nib_of_lt).
  unfold bitmask_oct, upd4. rewrite H1.
  pose proof (get_nibble_lt c) as Hn.
  assert (Hm : x mod 2 = 0 \/ x mod 2 = 1) by lia.
  destruct Hm as [Hm|Hm]; rewrite Hm; cbn [N.eqb Pos.eqb]; change (N.shiftr 240 (0 * 4)) with 240;
    change (N.shiftr 240 (1 * 4)) with 15; change (not8 240) with 15; change (not8 15) with 240.
  - replace (get_nibble c * 16 mod 256) with (get_nibble c * 16) by lia. reflexivity.
  - replace (get_nibble c mod 256) with (get_nibble c) by lia. reflexivity.
Qed.

(** the nibble update, checked for all 256 byte values and the 8 nibble values *)
Definition nib_check (old n : N) : bool :=
  let e := N.lor (N.land old 15) (n * 16) in
  let o := N.lor (N.land old 240) n in
  (e / 16 =? n) && (e mod 16 =? old mod 16) && (e <? 256) &&
  (o mod 16 =? n) && (o / 16 =? old / 16) && (o <? 256).

Definition upto (k : nat) : list N := map N.of_nat (seq 0 k).

Lemma upto_in k n : n < N.of_nat k -> In n (upto k).
Proof.
  intros Hn. unfold upto. rewrite <- (N2Nat.id n). apply in_map. apply in_seq. lia.
Qed.

Lemma nib_check_all : forallb (fun old => forallb (nib_check old) (upto 8)) (upto 256) = true.
Proof. vm_compute. reflexivity. Qed.

Lemma nib_update old n : old < 256 -> n < 8 ->
  let e := N.lor (N.land old 15) (n * 16) in
  let o := N.lor (N.land old 240) n in
  (e / 16 = n /\ e mod 16 = old mod 16 /\ e < 256) /\
  (o mod 16 = n /\ o / 16 = old / 16 /\ o < 256).
Proof.
  intros Ho Hn. pose proof nib_check_all as HA.
  rewrite forallb_forall in HA. specialize (HA old (upto_in 256 old Ho)).
  rewrite forallb_forall in HA. specialize (HA n (upto_in 8 n Hn)).
  unfold nib_check in HA. cbv zeta in HA |- *.
  rewrite !andb_true_iff in HA. destruct HA as [[[[[H1 H2] H3] H4] H5] H6].
  rewrite N.eqb_eq in H1, H2, H4, H5. rewrite N.ltb_lt in H3, H6.
  repeat split; assumption.
Qed.

Lemma get_nib_nib_of b w x y :
  get_nib b w x y = if x mod 2 =? 0 then b (nib_of w x y) / 16 else b (nib_of w x y) mod 16.
Proof. reflexivity. Qed.

(** reading back the 4-bpp buffer after one pixel update *)
Lemma nib_plane_update b w x y n x' y' : x < w -> x' < w -> n < 8 -> (forall i, b i < 256) ->
  get_nib (apply_write b (upd4 (nib_of w x y) x n)) w x' y' =
  if (x' =? x) && (y' =? y) then n else get_nib b w x' y'.
Proof.
  intros Hx Hx' Hn Hb. rewrite !get_nib_nib_of.
  destruct (nib_update (b (nib_of w x y)) n (Hb _) Hn) as [[E1 [E2 _]] [O1 [O2 _]]].
  destruct (N.eq_dec (nib_of w x' y') (nib_of w x y)) as [Ei|Ei].
  - rewrite Ei. unfold upd4. rewrite (apply_write_same b (mkWrite (nib_of w x y) _ _)).
    cbn [w_idx w_mask w_bits].
    destruct (N.eq_dec (x' mod 2) (x mod 2)) as [Ej|Ej].
    + destruct (nib_of_inj w x' y' x y Hx' Hx Ei Ej) as [-> ->].
      rewrite !N.eqb_refl. cbn [andb].
      destruct (x mod 2 =? 0); assumption.
    + replace ((x' =? x) && (y' =? y)) with false
        by (symmetry; apply andb_false_iff; left; apply N.eqb_neq; intros ->; now apply Ej).
      assert (Hm : (x mod 2 = 0 /\ x' mod 2 = 1) \/ (x mod 2 = 1 /\ x' mod 2 = 0)) by lia.
      destruct Hm as [[Hm Hm']|[Hm Hm']]; rewrite Hm, Hm'; cbn [N.eqb Pos.eqb]; assumption.
  - rewrite apply_write_other by (unfold upd4; cbn [w_idx]; exact Ei).
    replace ((x' =? x) && (y' =? y)) with false; [reflexivity|].
    symmetry. apply andb_false_iff.
    destruct (N.eqb_spec x' x) as [->|Nx]; [right|now left].
    apply N.eqb_neq. intros ->. now apply Ei.
Qed.

Lemma upd4_small b idx x n i : n < 8 -> (forall i, b i < 256) -> apply_write b (upd4 idx x n) i < 256.
Proof.
  intros Hn Hb. destruct (N.eq_dec i idx) as [->|Hi].
  - unfold upd4. rewrite (apply_write_same b (mkWrite idx _ _)). cbn [w_idx w_mask w_bits].
    destruct (nib_update (b idx) n (Hb _) Hn) as [[_ [_ E3]] [_ [_ O3]]].
    destruct (x mod 2 =? 0); assumption.
  - rewrite apply_write_other by exact Hi. apply Hb.
Qed.

(** the other nibble of the written byte keeps its value *)
Lemma upd4_other_nibble b idx x n : n < 8 -> b idx < 256 ->
  if x mod 2 =? 0 then apply_write b (upd4 idx x n) idx mod 16 = b idx mod 16
  else apply_write b (upd4 idx x n) idx / 16 = b idx / 16.
Proof.
  intros Hn Hb. unfold upd4. rewrite (apply_write_same b (mkWrite idx _ _)). cbn [w_idx w_mask w_bits].
  destruct (nib_update (b idx) n Hb Hn) as [[_ [E2 _]] [_ [O2 _]]].
  destruct (x mod 2 =? 0); assumption.
Qed.

(** ** The exact effect of drawing an in-bounds point *)
Theorem color_exact w h rot bwr c px py x y (b : buf) :
  (Z.of_N w <= i32max)%Z -> (Z.of_N h <= i32max)%Z ->
  logical_in rot w h px py -> phys rot w h px py = (x, y) -> (forall i, b i < 256) ->
  exists l, set_pixel (buffer_size CtColor w h) w h rot bwr (AColor c) px py = SpWrites l /\
    let b' := apply_writes b l in
    (forall x' y', x' < w -> y' < h ->
       get_bit b' 0 w x' y' = if (x' =? x) && (y' =? y) then enc_color c else get_bit b 0 w x' y') /\
    (forall i, i <> byte_of w x y -> b' i = b i) /\
    (forall k, k <> 7 - x mod 8 ->
       N.testbit (b' (byte_of w x y)) k = N.testbit (b (byte_of w x y)) k) /\
    (forall i, b' i < 256).
Proof.
  intros Hw Hh Hp Hxy Hb. destruct (phys_rotate rot w h px py x y Hw Hh Hp Hxy) as [Hr [Hx Hy]].
  eexists. split; [exact (set_pixel_color_in' w h rot bwr c px py x y Hr Hx Hy)|].
  cbv zeta. unfold apply_writes. cbn [fold_left]. split; [|split; [|split]].
  - intros x' y' Hx' Hy'.
    exact (plane_update b 0 w x y (enc_color c) x' y' Hx Hx' Hb).
  - intros i Hi. now apply apply_write_other.
  - intros k Hk. rewrite upd1_same_bits by (try apply bitidx_lt; apply Hb).
    fold (bitidx x) in Hk. apply N.eqb_neq in Hk. now rewrite Hk.
  - intros i. apply upd1_small; [apply bitidx_lt|exact Hb].
Qed.

Theorem tri_exact w h rot bwr c px py x y (b : buf) :
  (Z.of_N w <= i32max)%Z -> (Z.of_N h <= i32max)%Z ->
  logical_in rot w h px py -> phys rot w h px py = (x, y) -> (forall i, b i < 256) ->
  let blen := buffer_size CtTri w h in
  exists l, set_pixel blen w h rot bwr (ATri c) px py = SpWrites l /\
    let b' := apply_writes b l in
    (forall x' y', x' < w -> y' < h ->
       get_bit b' 0 w x' y' =
         (if (x' =? x) && (y' =? y) then fst (enc_tri c bwr) else get_bit b 0 w x' y') /\
       get_bit b' (blen / 2) w x' y' =
         (if (x' =? x) && (y' =? y) then snd (enc_tri c bwr) else get_bit b (blen / 2) w x' y')) /\
    (forall i, i <> byte_of w x y -> i <> blen / 2 + byte_of w x y -> b' i = b i) /\
    (forall k, k <> 7 - x mod 8 ->
       N.testbit (b' (byte_of w x y)) k = N.testbit (b (byte_of w x y)) k /\
       N.testbit (b' (blen / 2 + byte_of w x y)) k = N.testbit (b (blen / 2 + byte_of w x y)) k) /\
    (forall i, b' i < 256).
Proof.
  intros Hw Hh Hp Hxy Hb blen. destruct (phys_rotate rot w h px py x y Hw Hh Hp Hxy) as [Hr [Hx Hy]].
  eexists. split; [exact (set_pixel_tri_in w h rot bwr c px py x y Hr Hx Hy)|].
  cbv zeta. unfold apply_writes. cbn [fold_left]. fold blen.
  assert (Hhalf : blen / 2 = h * line_bytes w 1) by apply buffer_size_tri_half.
  pose proof (byte_of_lt w h x y Hx Hy) as Hlt.
  set (b1 := apply_write b (upd1 (byte_of w x y) (bitidx x) (fst (enc_tri c bwr)))).
  assert (Hb1 : forall i, b1 i < 256) by (intros i; apply upd1_small; [apply bitidx_lt|exact Hb]).
  split; [|split; [|split]].
  - intros x' y' Hx' Hy'. split.
    + rewrite get_bit_other.
      * exact (plane_update b 0 w x y _ x' y' Hx Hx' Hb).
      * unfold upd1; cbn [w_idx]. pose proof (byte_of_lt w h x' y' Hx' Hy') as Hlt'. lia.
    + rewrite (plane_update b1 (blen / 2) w x y _ x' y' Hx Hx' Hb1).
      destruct ((x' =? x) && (y' =? y)); [reflexivity|].
      unfold b1. apply get_bit_other. unfold upd1; cbn [w_idx]. lia.
  - intros i Hi1 Hi2. rewrite apply_write_other by (unfold upd1; cbn [w_idx]; exact Hi2).
    unfold b1. now apply apply_write_other.
  - intros k Hk. fold (bitidx x) in Hk. apply N.eqb_neq in Hk. split.
    + rewrite apply_write_other by (unfold upd1; cbn [w_idx]; lia).
      unfold b1. rewrite upd1_same_bits by (try apply bitidx_lt; apply Hb).
      now rewrite Hk.
    + rewrite upd1_same_bits by (try apply bitidx_lt; apply Hb1).
      rewrite Hk.
      unfold b1. rewrite apply_write_other; [reflexivity|]. unfold upd1; cbn [w_idx]. lia.
  - intros i. apply upd1_small; [apply bitidx_lt|exact Hb1].
Qed.

Theorem oct_exact w h rot bwr c px py x y (b : buf) :
  (Z.of_N w <= i32max)%Z -> (Z.of_N h <= i32max)%Z ->
  logical_in rot w h px py -> phys rot w h px py = (x, y) -> (forall i, b i < 256) ->
  exists l, set_pixel (buffer_size CtOct w h) w h rot bwr (AOct c) px py = SpWrites l /\
    let b' := apply_writes b l in
    (forall x' y', x' < w -> y' < h ->
       get_nib b' w x' y' = if (x' =? x) && (y' =? y) then get_nibble c else get_nib b w x' y') /\
    (forall i, i <> nib_of w x y -> b' i = b i) /\
    (if x mod 2 =? 0 then b' (nib_of w x y) mod 16 = b (nib_of w x y) mod 16
     else b' (nib_of w x y) / 16 = b (nib_of w x y) / 16) /\
    (forall i, b' i < 256).
Proof.
  intros Hw Hh Hp Hxy Hb. destruct (phys_rotate rot w h px py x y Hw Hh Hp Hxy) as [Hr [Hx Hy]].
  eexists. split; [exact (set_pixel_oct_in w h rot bwr c px py x y Hr Hx Hy)|].
  cbv zeta. unfold apply_writes. cbn [fold_left].
  pose proof (get_nibble_lt c) as Hn.
  split; [|split; [|split]].
  - intros x' y' Hx' Hy'. exact (nib_plane_update b w x y _ x' y' Hx Hx' Hn Hb).
  - intros i Hi. now apply apply_write_other.
  - apply upd4_other_nibble; [exact Hn|apply Hb].
  - intros i. apply upd4_small; [exact Hn|exact Hb].
Qed.

(** *** no panic, all writes inside the slice *)
Theorem set_pixel_in_writes w h rot bwr c px py :
  (Z.of_N w <= i32max)%Z -> (Z.of_N h <= i32max)%Z ->
  logical_in rot w h px py ->
  exists l, set_pixel (buffer_size (ctype_of c) w h) w h rot bwr c px py = SpWrites l /\
            Forall (fun wr => w_idx wr < buffer_size (ctype_of c) w h) l.
Proof.
  intros Hw Hh Hp. destruct (phys rot w h px py) as [x y] eqn:Hxy.
  destruct (phys_rotate rot w h px py x y Hw Hh Hp Hxy) as [Hr [Hx Hy]].
  pose proof (byte_of_lt w h x y Hx Hy) as Hlt.
  destruct c as [c|c|c]; cbn [ctype_of]; eexists.
  - split; [exact (set_pixel_color_in' w h rot bwr c px py x y Hr Hx Hy)|].
    apply Forall_cons; [|apply Forall_nil].
    unfold upd1; cbn [w_idx]. rewrite buffer_size_color. exact Hlt.
  - split; [exact (set_pixel_tri_in w h rot bwr c px py x y Hr Hx Hy)|].
    apply Forall_cons; [|apply Forall_cons; [|apply Forall_nil]];
      unfold upd1; cbn [w_idx]; rewrite ?buffer_size_tri_half, buffer_size_tri; lia.
  - split; [exact (set_pixel_oct_in w h rot bwr c px py x y Hr Hx Hy)|].
    apply Forall_cons; [|apply Forall_nil].
    unfold upd4; cbn [w_idx]. rewrite buffer_size_oct. now apply nib_of_lt.
Qed.

Theorem set_pixel_total w h rot bwr c px py :
  (Z.of_N w <= i32max)%Z -> (Z.of_N h <= i32max)%Z -> in_i32 px -> in_i32 py ->
  set_pixel (buffer_size (ctype_of c) w h) w h rot bwr c px py = SpIgnored \/
  exists l, set_pixel (buffer_size (ctype_of c) w h) w h rot bwr c px py = SpWrites l /\
            Forall (fun wr => w_idx wr < buffer_size (ctype_of c) w h) l.
Proof.
  intros Hw Hh Hpx Hpy. destruct (logical_in_dec rot w h px py) as [Hin|Hout].
  - right. now apply set_pixel_in_writes.
  - left. now apply set_pixel_out.
Qed.

Theorem set_pixel_no_panic w h rot bwr c px py :
  (Z.of_N w <= i32max)%Z -> (Z.of_N h <= i32max)%Z -> in_i32 px -> in_i32 py ->
  set_pixel (buffer_size (ctype_of c) w h) w h rot bwr c px py <> SpPanic.
Proof.
  intros Hw Hh Hpx Hpy. destruct (set_pixel_total w h rot bwr c px py Hw Hh Hpx Hpy) as [E|[l [E _]]];
    rewrite E; discriminate.
Qed.

(** ** The shipped aliases satisfy the hypotheses of the general theorems *)
Definition alias_ok (a : alias) : Prop :=
  a_bytes a = buffer_size (a_ct a) (a_w a) (a_h a) /\
  (Z.of_N (a_w a) <= i32max)%Z /\ (Z.of_N (a_h a) <= i32max)%Z /\
  0 < a_w a /\ 0 < a_h a.

Lemma aliases_ok : Forall alias_ok aliases.
Proof.
  unfold aliases.
  repeat (apply Forall_cons; [unfold alias_ok; cbn [a_bytes a_ct a_w a_h]; repeat split;
                              solve [vm_compute; reflexivity | vm_compute; discriminate]|]).
  apply Forall_nil.
Qed.

Lemma aliases_count : length aliases = 27%nat.
Proof. reflexivity. Qed.

Theorem alias_set_pixel_total a : In a aliases ->
  forall rot c px py, ctype_of c = a_ct a -> in_i32 px -> in_i32 py ->
  (~ logical_in rot (a_w a) (a_h a) px py ->
     set_pixel (a_bytes a) (a_w a) (a_h a) rot (a_bwr a) c px py = SpIgnored) /\
  (logical_in rot (a_w a) (a_h a) px py ->
     exists l, set_pixel (a_bytes a) (a_w a) (a_h a) rot (a_bwr a) c px py = SpWrites l /\
               Forall (fun wr => w_idx wr < a_bytes a) l).
Proof.
  intros Ha rot c px py Hc Hpx Hpy.
  pose proof aliases_ok as HA. rewrite Forall_forall in HA.
  destruct (HA a Ha) as [Hb [Hw [Hh _]]]. rewrite Hb, <- Hc. split.
  - intros Hout. now apply set_pixel_out.
  - intros Hin. now apply set_pixel_in_writes.
Qed.

(** * Model of src/color.rs *)
From Coq Require Import List NArith ZArith Bool.
Import ListNotations.
Open Scope N_scope.

Inductive color := Black | White.                       (* Color *)
Inductive tricolor := TBlack | TWhite | TChromatic.     (* TriColor *)
Inductive octcolor := OBlack | OWhite | OGreen | OBlue | ORed | OYellow | OOrange | OHiZ.

Definition all_color := [Black; White].
Definition all_tri := [TBlack; TWhite; TChromatic].
Definition all_oct := [OBlack; OWhite; OGreen; OBlue; ORed; OYellow; OOrange; OHiZ].

(** [None] models a panic, [Error] values are modelled as [inl] *)

(** ** Color *)
Definition get_bit_value (c : color) : N := match c with White => 1 | Black => 0 end.
Definition get_byte_value (c : color) : N := match c with White => 255 | Black => 0 end.
Definition from_u8 (v : N) : option color :=        (* panics for anything but 0 and 1 *)
  match v with 0 => Some Black | 1 => Some White | _ => None end.
Definition inverse (c : color) : color := match c with White => Black | Black => White end.

(** embedded-graphics raw storage *)
Definition color_from_raw_u1 (v : N) : color := if (v mod 2) =? 0 then White else Black.
    (* RawU1::into_inner masks to one bit *)
Definition color_to_raw_u1 (c : color) : N := get_bit_value c.
Definition color_from_binary (on : bool) : color := if on then Black else White.

(** RGB -> Color; [mr mg mb] are the channel maxima of the RGB type, [thr] the threshold the
    code compares the channel sum with *)
Definition color_from_rgb (mr mg mb thr : N) (r g b : N) : color :=
  if (r =? 0) && (g =? 0) && (b =? 0) then Black
  else if (r =? mr) && (g =? mg) && (b =? mb) then White
  else if thr <? r + g + b then White else Black.
Definition thr888 : N := 255 * 3 / 2.
Definition thr565 : N := (31 + 63 + 31) / 2.
Definition thr555 : N := (31 + 31 + 31) / 2.
Definition color_from_rgb888 := color_from_rgb 255 255 255 thr888.
Definition color_from_rgb565 := color_from_rgb 31 63 31 thr565.
Definition color_from_rgb555 := color_from_rgb 31 31 31 thr555.
Definition color_to_rgb (mr mg mb : N) (c : color) : N * N * N :=
  match c with Black => (0, 0, 0) | White => (mr, mg, mb) end.

(** ** TriColor *)
Definition tri_bit_value (c : tricolor) : N := match c with TWhite => 1 | _ => 0 end.
Definition tri_byte_value (c : tricolor) : N := match c with TWhite => 255 | _ => 0 end.
Definition tri_from_raw_u2 (v : N) : tricolor :=
  let v := v mod 4 in if v =? 0 then TWhite else if v =? 1 then TBlack else TChromatic.
Definition tri_from_binary (on : bool) : tricolor := if on then TBlack else TWhite.
Definition tri_from_rgb888 (r g b : N) : tricolor :=
  if (r =? 0) && (g =? 0) && (b =? 0) then TBlack
  else if (r =? 255) && (g =? 255) && (b =? 255) then TWhite else TChromatic.
Definition tri_to_rgb888 (c : tricolor) : N * N * N :=
  match c with TBlack => (0, 0, 0) | TWhite => (255, 255, 255) | TChromatic => (255, 0, 0) end.

(** ** OctColor *)
Definition get_nibble (c : octcolor) : N :=
  match c with OBlack => 0 | OWhite => 1 | OGreen => 2 | OBlue => 3 | ORed => 4 | OYellow => 5
             | OOrange => 6 | OHiZ => 7 end.
Definition colors_byte (a b : octcolor) : N := get_nibble a * 16 + get_nibble b.
Definition from_nibble (n : N) : option octcolor :=      (* None = Err(OutOfColorRangeParseError) *)
  match n mod 16 with
  | 0 => Some OBlack | 1 => Some OWhite | 2 => Some OGreen | 3 => Some OBlue | 4 => Some ORed
  | 5 => Some OYellow | 6 => Some OOrange | 7 => Some OHiZ | _ => None
  end.
Definition split_byte (b : N) : option (octcolor * octcolor) :=
  match from_nibble (b mod 16) with
  | None => None
  | Some low => match from_nibble ((b / 16) mod 16) with
                | None => None
                | Some high => Some (high, low)
                end
  end.
Definition rgb (c : octcolor) : N * N * N :=
  match c with
  | OWhite => (255, 255, 255) | OBlack => (0, 0, 0) | OGreen => (0, 255, 0) | OBlue => (0, 0, 255)
  | ORed => (255, 0, 0) | OYellow => (255, 255, 0) | OOrange => (255, 128, 0) | OHiZ => (128, 128, 128)
  end.
Definition oct_from_binary (on : bool) : octcolor := if on then OBlack else OWhite.
(** [From<RawU4>]: [from_nibble(..).unwrap()] — None = panic *)
Definition oct_from_raw_u4 (v : N) : option octcolor := from_nibble (v mod 16).

Definition sqdist (p q : N * N * N) : N :=
  let '(r1, g1, b1) := p in let '(r2, g2, b2) := q in
  let d a b := if a <? b then b - a else a - b in
  d r1 r2 * d r1 r2 + d g1 g2 * d g1 g2 + d b1 b2 * d b1 b2.

Definition rgb_eqb (p q : N * N * N) : bool :=
  let '(r1, g1, b1) := p in let '(r2, g2, b2) := q in (r1 =? r2) && (g1 =? g2) && (b1 =? b2).

(** [Iterator::min_by_key]: the FIRST minimal element *)
Fixpoint min_by_key {A} (key : A -> N) (best : A) (l : list A) : A :=
  match l with
  | [] => best
  | a :: r => if key a <? key best then min_by_key key a r else min_by_key key best r
  end.

Definition oct_from_rgb888 (r g b : N) : octcolor :=
  let p := (r, g, b) in
  match find (fun c => rgb_eqb (rgb c) p) all_oct with
  | Some c => c
  | None => min_by_key (fun c => sqdist (rgb c) p) OBlack (tl all_oct)
  end.

(** ** ColorType::bitmask — (mask : u8, bits : u16) *)
Definition bitpos (pos : N) : N := N.shiftr 128 (pos mod 8).      (* 0x80 >> (pos % 8) *)
Definition not8 (b : N) : N := 255 - b.

Definition bitmask_color (c : color) (pos : N) : N * N :=
  let bit := bitpos pos in
  match c with Black => (not8 bit, 0) | White => (not8 bit, bit) end.

Definition bitmask_tri (c : tricolor) (bwrbit : bool) (pos : N) : N * N :=
  let bit := bitpos pos in
  match c with
  | TBlack => (not8 bit, 0)
  | TWhite => (not8 bit, bit)
  | TChromatic => (not8 bit, if bwrbit then bit * 256 else bit * 256 + bit)
  end.

Definition bitmask_oct (c : octcolor) (pos : N) : N * N :=
  let mask := not8 (N.shiftr 240 ((pos mod 2) * 4)) in      (* !(0xF0 >> ((pos % 2) * 4)) *)
  let bits := get_nibble c in
  (mask, if pos mod 2 =? 1 then bits else bits * 16).

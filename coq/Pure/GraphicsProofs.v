(** Proofs about the set_pixel model (C03) and buffer sizes (C13). *)
From Coq Require Import List NArith ZArith Bool Lia.
From EPD Require Import Pure.Color Pure.Graphics.
Import ListNotations.
Open Scope N_scope.

Ltac Zify.zify_post_hook ::= Z.to_euclidean_division_equations.

(** ** Bit lemmas *)
Definition bitidx (x : N) : N := 7 - x mod 8.

Lemma mod8_cases x : x mod 8 = 0 \/ x mod 8 = 1 \/ x mod 8 = 2 \/ x mod 8 = 3 \/
                     x mod 8 = 4 \/ x mod 8 = 5 \/ x mod 8 = 6 \/ x mod 8 = 7.
Proof. assert (x mod 8 < 8) by (apply N.mod_lt; discriminate). lia. Qed.

Lemma bitpos_pow x : bitpos x = 2 ^ bitidx x.
Proof.
  unfold bitpos, bitidx.
  destruct (mod8_cases x) as [H|[H|[H|[H|[H|[H|[H|H]]]]]]]; rewrite H; reflexivity.
Qed.

Lemma bitidx_lt x : bitidx x < 8.
Proof. unfold bitidx. lia. Qed.

Lemma lt8_cases k : k < 8 -> k = 0 \/ k = 1 \/ k = 2 \/ k = 3 \/ k = 4 \/ k = 5 \/ k = 6 \/ k = 7.
Proof. lia. Qed.

(** [255 - 2^j] has exactly the bits below 8 other than j *)
Lemma mask_testbit j k : j < 8 ->
  N.testbit (not8 (2 ^ j)) k = (k <? 8) && negb (k =? j).
Proof.
  intros Hj. destruct (N.ltb_spec k 8) as [Hk|Hk].
  - destruct (lt8_cases j Hj) as [H|[H|[H|[H|[H|[H|[H|H]]]]]]]; subst j;
    destruct (lt8_cases k Hk) as [H|[H|[H|[H|[H|[H|[H|H]]]]]]]; subst k; reflexivity.
  - cbn [andb]. apply N.bits_above_log2.
    assert (not8 (2 ^ j) < 2 ^ 8).
    { unfold not8. assert (0 < 2 ^ j) by (apply N.neq_0_lt_0, N.pow_nonzero; discriminate). change (2^8) with 256. lia. }
    destruct (N.eq_dec (not8 (2 ^ j)) 0) as [E|E]; [rewrite E; cbn; lia|].
    apply N.log2_lt_pow2 in H; lia.
Qed.

Lemma pow_testbit j k : N.testbit (2 ^ j) k = (k =? j).
Proof. rewrite N.pow2_bits_eqb. apply N.eqb_sym. Qed.

(** the byte update of one pixel in a 1-bpp plane *)
Lemma update_bit_spec old j (v : bool) k : j < 8 ->
  N.testbit (N.lor (N.land old (not8 (2 ^ j))) (if v then 2 ^ j else 0)) k =
  if k =? j then v else (k <? 8) && N.testbit old k.
Proof.
  intros Hj. rewrite N.lor_spec, N.land_spec, mask_testbit by assumption.
  destruct v.
  - rewrite pow_testbit. destruct (k =? j) eqn:E; cbn.
    + now rewrite orb_true_r.
    + rewrite orb_false_r, andb_true_r. apply andb_comm.
  - rewrite N.bits_0, orb_false_r. destruct (k =? j) eqn:E; cbn.
    + now rewrite andb_false_r, andb_false_r.
    + rewrite andb_true_r. apply andb_comm.
Qed.

Lemma byte_bits_above b k : b < 256 -> 8 <= k -> N.testbit b k = false.
Proof.
  intros Hb Hk. destruct (N.eq_dec b 0) as [->|E]; [apply N.bits_0|].
  apply N.bits_above_log2. apply N.log2_lt_pow2; [lia|].
  apply N.lt_le_trans with (2 ^ 8); [exact Hb|]. apply N.pow_le_mono_r; lia.
Qed.

Lemma update_bit_small old j (v : bool) : j < 8 -> old < 256 ->
  N.lor (N.land old (not8 (2 ^ j))) (if v then 2 ^ j else 0) < 256.
Proof.
  intros Hj Ho. change 256 with (2 ^ 8).
  set (r := N.lor (N.land old (not8 (2 ^ j))) (if v then 2 ^ j else 0)).
  destruct (N.eq_dec r 0) as [->|E]; [reflexivity|].
  apply N.log2_lt_pow2; [lia|].
  destruct (N.lt_ge_cases (N.log2 r) 8) as [L|L]; [exact L|exfalso].
  pose proof (N.bit_log2 r E) as Hb. unfold r in Hb.
  rewrite update_bit_spec in Hb by assumption.
  fold r in Hb. destruct (N.log2 r =? j) eqn:E2.
  - apply N.eqb_eq in E2. lia.
  - apply andb_true_iff in Hb. destruct Hb as [Hb _]. apply N.ltb_lt in Hb. lia.
Qed.

(** ** Index arithmetic for 1-bpp planes *)
Definition byte_of (w x y : N) : N := x / 8 + y * line_bytes w 1.

Lemma line_bytes_1 w : line_bytes w 1 = (w + 7) / 8.
Proof. unfold line_bytes. now rewrite N.mul_1_r. Qed.

Lemma byte_of_lt w h x y : x < w -> y < h -> byte_of w x y < h * line_bytes w 1.
Proof.
  intros Hx Hy. unfold byte_of. rewrite line_bytes_1.
  assert (x / 8 < (w + 7) / 8) by lia.
  nia.
Qed.

Lemma byte_of_inj w x y x' y' : x < w -> x' < w ->
  byte_of w x y = byte_of w x' y' -> bitidx x = bitidx x' -> x = x' /\ y = y'.
Proof.
  unfold byte_of, bitidx. rewrite line_bytes_1. intros Hx Hx' Hb Hi.
  assert (x / 8 < (w + 7) / 8) by lia.
  assert (x' / 8 < (w + 7) / 8) by lia.
  assert (y = y') by nia. subst y'.
  assert (x / 8 = x' / 8) by nia.
  split; [|reflexivity]. lia.
Qed.

(** ** Rotation: a bijection between logical and physical in-bounds points *)
Open Scope Z_scope.

Definition phys_in (w h : N) (x y : Z) : Prop := 0 <= x < Z.of_N w /\ 0 <= y < Z.of_N h.
Definition logical_in (rot : rotation) (w h : N) (px py : Z) : Prop :=
  let '(sw, sh) := size rot w h in 0 <= px < Z.of_N sw /\ 0 <= py < Z.of_N sh.

Lemma wrap32_id z : in_i32 z -> wrap32 z = z.
Proof. unfold in_i32, wrap32, i32min, i32max. lia. Qed.

Lemma wrap32_range z : in_i32 (wrap32 z).
Proof. unfold in_i32, wrap32, i32min, i32max. lia. Qed.

(** a wrapped difference [d - p] with [0 <= d <= i32max] and [p] an i32 that overflowed is negative *)
Lemma wrap32_sub d p : 0 <= d <= i32max -> in_i32 p ->
  (in_i32 (d - p) /\ wrap32 (d - p) = d - p) \/ (i32max < d - p /\ wrap32 (d - p) < 0).
Proof. unfold in_i32, wrap32, i32min, i32max. lia. Qed.

(** The physical point is in range exactly when the logical point is inside the rotated size,
    for EVERY i32 point, and then the rotation formulas hold without wrap-around. *)
Lemma rotate_in_iff rot w h px py : (Z.of_N w <= i32max) -> (Z.of_N h <= i32max) ->
  in_i32 px -> in_i32 py ->
  let '(x, y) := rotate rot w h px py in
  (phys_in w h x y <-> logical_in rot w h px py) /\
  (logical_in rot w h px py ->
     (x, y) = match rot with
              | Rot0 => (px, py)
              | Rot90 => (Z.of_N w - 1 - py, px)
              | Rot180 => (Z.of_N w - 1 - px, Z.of_N h - 1 - py)
              | Rot270 => (py, Z.of_N h - 1 - px)
              end).
Proof.
  intros Hw Hh Hpx Hpy. unfold phys_in, logical_in.
  destruct rot; cbn [rotate size].
  - split; [tauto|reflexivity].
  - unfold in_i32, wrap32, i32min, i32max in *. split; [lia|]. intros. f_equal. lia.
  - unfold in_i32, wrap32, i32min, i32max in *. split; [lia|]. intros. f_equal; lia.
  - unfold in_i32, wrap32, i32min, i32max in *. split; [lia|]. intros. f_equal. lia.
Qed.
Close Scope Z_scope.

(** for logical in-bounds points the rotation formulas hold without wrap-around *)
Lemma rotate_logical rot w h px py : (Z.of_N w <= i32max)%Z -> (Z.of_N h <= i32max)%Z ->
  logical_in rot w h px py ->
  rotate rot w h px py = match rot with
                         | Rot0 => (px, py)
                         | Rot90 => (Z.of_N w - 1 - py, px)
                         | Rot180 => (Z.of_N w - 1 - px, Z.of_N h - 1 - py)
                         | Rot270 => (py, Z.of_N h - 1 - px)
                         end%Z.
Proof.
  intros Hw Hh Hp. unfold logical_in in Hp.
  destruct rot; cbn [rotate size] in *; try reflexivity;
    rewrite ?wrap32_id; try reflexivity; unfold in_i32, i32min, i32max in *; lia.
Qed.

(** the logical-to-physical map is injective on in-bounds points (so distinct logical pixels are
    distinct physical pixels) *)
Lemma rotate_inj rot w h px py qx qy : (Z.of_N w <= i32max)%Z -> (Z.of_N h <= i32max)%Z ->
  logical_in rot w h px py -> logical_in rot w h qx qy ->
  rotate rot w h px py = rotate rot w h qx qy -> px = qx /\ py = qy.
Proof.
  intros Hw Hh Hp Hq. rewrite (rotate_logical rot w h px py Hw Hh Hp), (rotate_logical rot w h qx qy Hw Hh Hq).
  destruct rot; intros E; injection E; lia.
Qed.

(** ** set_pixel, two-level colour *)
Section SetPixel.
Variables (w h : N).
Hypothesis Hw : (Z.of_N w <= i32max)%Z.
Hypothesis Hh : (Z.of_N h <= i32max)%Z.

Definition enc_color (c : color) : bool := match c with White => true | Black => false end.

Lemma set_pixel_color_in rot bwr c px py x y :
  rotate rot w h px py = (Z.of_N x, Z.of_N y) -> x < w -> y < h ->
  set_pixel (buffer_size CtColor w h) w h rot bwr (AColor c) px py =
  SpWrites [mkWrite (byte_of w x y) (not8 (2 ^ bitidx x)) (if enc_color c then 2 ^ bitidx x else 0)].
Proof.
  intros Hr Hx Hy. unfold set_pixel. rewrite Hr.
  replace ((Z.of_N x <? 0) || (Z.of_N x >=? Z.of_N w) || (Z.of_N y <? 0) || (Z.of_N y >=? Z.of_N h))%Z
    with false by (symmetry; lia).
  rewrite !N2Z.id. cbn [ctype_of bpp nbuf bitmask].
  replace (1 =? 2) with false by reflexivity.
  unfold bitmask_color. rewrite bitpos_pow.
  assert (Hidx : x * 1 / 8 + y * line_bytes w 1 = byte_of w x y) by (unfold byte_of; now rewrite N.mul_1_r).
  rewrite Hidx.
  assert (Hlt : byte_of w x y <? buffer_size CtColor w h = true).
  { apply N.ltb_lt. unfold buffer_size. cbn [bpp nbuf]. rewrite N.mul_1_r. now apply byte_of_lt. }
  assert (Hs : forall j, j < 8 -> 2 ^ j mod 256 = 2 ^ j).
  { intros j Hj. apply N.mod_small. change 256 with (2 ^ 8). apply N.pow_lt_mono_r; lia. }
  destruct c; cbn [enc_color]; rewrite Hlt; [reflexivity|].
  rewrite Hs by apply bitidx_lt. reflexivity.
Qed.

Lemma set_pixel_out rot bwr c blen px py : in_i32 px -> in_i32 py ->
  ~ logical_in rot w h px py ->
  set_pixel blen w h rot bwr c px py = SpIgnored.
Proof.
  intros Hpx Hpy Hout. pose proof (rotate_in_iff rot w h px py Hw Hh Hpx Hpy) as R.
  unfold set_pixel. destruct (rotate rot w h px py) as [x y]. destruct R as [R _].
  destruct ((x <? 0) || (x >=? Z.of_N w) || (y <? 0) || (y >=? Z.of_N h))%Z eqn:E; [reflexivity|].
  exfalso. apply Hout, R. unfold phys_in. lia.
Qed.
End SetPixel.

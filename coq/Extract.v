(** Extraction of the executable model (ExtrOcamlBasic only; N/Z/positive stay Coq's binary
    datatypes; no Extract Constant). *)
Require Extraction.
Require Import ExtrOcamlBasic.
From EPD Require Import Iface Ops Hal Run Panels.
From EPD Require Big.Model.
From EPD Require Pure.Rect Pure.Color Pure.Graphics Pure.Aliases.
From EPD Require Ctl.Ctl Spec.PSpec Spec.Checks Spec.Sys Spec.Hist Spec.Specs Spec.Oracle.
Extraction Language OCaml.
Separate Extraction
  Iface.bapply Iface.calls Ops.op Ops.mkFeat Hal.expand Hal.mk_cfg Hal.den Run.call Run.construct Run.icalls_of
  Panels.driver_of Panels.all_panels
  Iface.dlen Big.Model.exec Big.Model.bexpand Big.Model.call Big.Model.new_control_state
  (* pure functions (ocaml/pure.ml) *)
  Rect.intersect Rect.sub_offset Rect.is_empty
  Color.all_color Color.all_tri Color.all_oct
  Color.get_bit_value Color.get_byte_value Color.from_u8 Color.inverse
  Color.color_from_raw_u1 Color.color_to_raw_u1 Color.color_from_binary
  Color.color_from_rgb888 Color.color_from_rgb565 Color.color_from_rgb555 Color.color_to_rgb
  Color.tri_bit_value Color.tri_byte_value Color.tri_from_raw_u2 Color.tri_from_binary
  Color.tri_from_rgb888 Color.tri_to_rgb888
  Color.get_nibble Color.colors_byte Color.from_nibble Color.split_byte Color.rgb
  Color.oct_from_binary Color.oct_from_raw_u4 Color.oct_from_rgb888
  Graphics.bitmask Graphics.buffer_len Graphics.line_bytes Graphics.buffer_size Graphics.var_new_ok
  Graphics.set_pixel Graphics.apply_write Graphics.size Graphics.all_rot
  Aliases.aliases
  (* controller models, checks and the per-call oracle (ocaml/oracle.ml) *)
  Oracle.observe Oracle.observe_new Oracle.lut_ref Oracle.clear_ref Hist.init_sig Hist.P Specs.spec_of Sys.sym Sys.sys_new.

(** Extraction of the executable model (ExtrOcamlBasic only; N/Z/positive stay Coq's binary
    datatypes; no Extract Constant). *)
Require Extraction.
Require Import ExtrOcamlBasic.
From EPD Require Import Iface Ops Hal Run Panels.
From EPD Require Big.Model.
Extraction Language OCaml.
Separate Extraction
  Iface.bapply Iface.calls Ops.op Ops.mkFeat Hal.expand Hal.mk_cfg Hal.den Run.call Run.construct Run.icalls_of
  Panels.driver_of Panels.all_panels
  Iface.dlen Big.Model.exec Big.Model.bexpand Big.Model.call Big.Model.new_control_state.

(** Model of src/epd2in13b_v4/mod.rs — STUB, not yet transcribed. *)
From Coq Require Import List NArith Bool.
From EPD Require Import Iface Ops Drv.Luts.
Import ListNotations.
Open Scope N_scope.
Open Scope m_scope.

Module Epd2in13b_v4.
Definition WIDTH : N := 122.
Definition HEIGHT : N := 250.

Definition init : M unit := ret tt.

Definition exec (k : N) (o : op) : option (M rval) := None.

Definition drv (ft : feat) : driver :=
  mkDriver WIDTH HEIGHT true d0 init exec.
End Epd2in13b_v4.

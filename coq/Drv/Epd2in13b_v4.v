(** Model of src/epd2in13b_v4/mod.rs (+ the value helpers of src/epd2in13b_v4/command.rs). *)
From Coq Require Import List NArith Bool.
From EPD Require Import Iface Ops Drv.Luts.
Import ListNotations.
Open Scope N_scope.
Open Scope m_scope.

Module Epd2in13b_v4.
Definition WIDTH : N := 122.
Definition HEIGHT : N := 250.
Definition IS_BUSY_LOW := false.

(** crate::buffer_len *)
Definition buffer_len (width height : N) : N := (width + 7) / 8 * height.

(** ** command.rs: value types *)

(** bit_field::BitField on u8 *)
Definition set_bit (x k : N) (b : bool) : N := if b then N.setbit x k else N.clearbit x k.
(** [set_bits x lo hi v] = x.set_bits(lo..hi, v)  (v fits in every use) *)
Definition set_bits (x lo hi v : N) : N :=
  bor (N.ldiff x (shl (N.ones (hi - lo)) lo)) (shl v lo).

(** DriverOutput::to_bytes *)
Record DriverOutput := mkDriverOutput {
  scan_is_linear : bool; scan_g0_is_first : bool; scan_dir_incr : bool; do_width : N (* u16 *) }.
Definition DriverOutput_to_bytes (o : DriverOutput) : list N :=
  [ u8 (do_width o); u8 (shr (do_width o) 8);
    set_bit (set_bit (set_bit 0 0 (negb (scan_dir_incr o))) 1 (negb (scan_g0_is_first o)))
            2 (negb (scan_is_linear o)) ].

(** enum discriminants *)
Definition RamOption_Normal : N := 0x0.
Definition XIncrYIncr : N := 0x3.      (* DataEntryModeIncr *)
Definition XDir : N := 0x0.            (* DataEntryModeDir *)
Definition Vbd_Gs : N := 0x0.          (* BorderWaveFormVbd *)
Definition Fix_Vss : N := 0x0.         (* BorderWaveFormFixLevel *)
Definition Gs_Lut3 : N := 0x3.         (* BorderWaveFormGs *)
Definition DeepSleep_Normal : N := 0x00. (* DeepSleepMode *)

(** DisplayUpdateControl::to_bytes *)
Record DisplayUpdateControl := mkDisplayUpdateControl {
  red_ram_option : N; bw_ram_option : N; source_output_mode : bool }.
Definition DisplayUpdateControl_to_bytes (d : DisplayUpdateControl) : list N :=
  [ bor (u8 (shl (red_ram_option d) 4)) (bw_ram_option d);
    if source_output_mode d then 128 else 0 ].

(** BorderWaveForm::to_u8 *)
Record BorderWaveForm := mkBorderWaveForm { vbd : N; fix_level : N; gs_trans : N }.
Definition BorderWaveForm_to_u8 (b : BorderWaveForm) : N :=
  set_bits (set_bits (set_bits 0 6 8 (vbd b)) 4 6 (fix_level b)) 0 2 (gs_trans b).

(** TriColor::get_byte_value *)
Definition get_byte_value (c : N) : N := if c =? cWhite then 0xff else 0x00.

(** ** mod.rs *)
Definition wait_until_idle : M unit := wait_idle IS_BUSY_LOW.

Definition command (c : N) : M unit := cmd c.

Definition set_display_update_control (display_update_control : DisplayUpdateControl) : M unit :=
  cmd_with_data 0x21 (DisplayUpdateControl_to_bytes display_update_control).

Definition set_border_waveform (borderwaveform : BorderWaveForm) : M unit :=
  cmd_with_data 0x3C [BorderWaveForm_to_u8 borderwaveform].

Definition set_sleep_mode (mode : N) : M unit :=
  cmd_with_data 0x10 [mode].

Definition set_driver_output (output : DriverOutput) : M unit :=
  cmd_with_data 0x01 (DriverOutput_to_bytes output).

Definition set_data_entry_mode (counter_incr_mode counter_direction : N) : M unit :=
  let mode := bor counter_incr_mode counter_direction in
  cmd_with_data 0x11 [mode].

Definition set_ram_area (start_x start_y end_x end_y : N) : M unit :=
  cmd_with_data 0x44 [u8 (shr start_x 3); u8 (shr end_x 3)] ;;
  cmd_with_data 0x45 [u8 start_y; u8 (shr start_y 8); u8 end_y; u8 (shr end_y 8)].

Definition set_ram_address_counters (x y : N) : M unit :=
  wait_until_idle ;;
  cmd_with_data 0x4E [u8 (shr x 3)] ;;
  cmd_with_data 0x4F [u8 y; u8 (shr y 8)].

Definition init : M unit :=
  reset 10000 10000 ;;
  wait_until_idle ;;
  cmd 0x12 ;;
  wait_until_idle ;;
  set_driver_output (mkDriverOutput true true true (HEIGHT - 1)) ;;
  set_data_entry_mode XIncrYIncr XDir ;;
  set_ram_area 0 0 (WIDTH - 1) (HEIGHT - 1) ;;
  set_ram_address_counters 0 0 ;;
  set_border_waveform (mkBorderWaveForm Vbd_Gs Fix_Vss Gs_Lut3) ;;
  cmd_with_data 0x2C [0x36] ;;
  cmd_with_data 0x03 [0x17] ;;
  cmd_with_data 0x04 [0x41; 0x00; 0x32] ;;
  set_display_update_control (mkDisplayUpdateControl RamOption_Normal RamOption_Normal true) ;;
  wait_until_idle.

(** WaveshareThreeColorDisplay *)
Definition update_achromatic_frame (black : dexp) : M unit :=
  cmd 0x24 ;;
  data_e black.

Definition update_chromatic_frame (chromatic : dexp) : M unit :=
  cmd 0x26 ;;
  data_e chromatic.

Definition update_color_frame (black chromatic : dexp) : M unit :=
  update_achromatic_frame black ;;
  update_chromatic_frame chromatic.

(** WaveshareDisplay *)
Definition sleep : M unit :=
  set_sleep_mode DeepSleep_Normal.

Definition update_frame (k len : N) : M unit :=
  assert (len =? buffer_len WIDTH HEIGHT) ;;
  cmd_with_data_e 0x24 (DArg k 0 0 len) ;;
  command 0x26 ;;
  data_x_times (get_byte_value cBlack) (buffer_len WIDTH HEIGHT).

Definition update_partial_frame : M unit := panic.   (* unimplemented!() *)

Definition display_frame : M unit :=
  command 0x20 ;;
  wait_until_idle.

Definition update_and_display_frame (k len : N) : M unit :=
  update_frame k len ;;
  display_frame.

(** every arm sends Command::WriteRam *)
Definition clear_achromatic_frame : M unit :=
  s <- get ;;
  if bg s =? cWhite then
    command 0x24 ;;
    data_x_times 0xFF (buffer_len WIDTH HEIGHT)
  else if bg s =? cChromatic then
    command 0x24 ;;
    data_x_times 0xFF (buffer_len WIDTH HEIGHT)
  else
    command 0x24 ;;
    data_x_times 0x00 (buffer_len WIDTH HEIGHT).

(** every arm sends Command::WriteRam here too (not WriteRamRed) *)
Definition clear_chromatic_frame : M unit :=
  s <- get ;;
  if bg s =? cWhite then
    command 0x26 ;;
    data_x_times 0x00 (buffer_len WIDTH HEIGHT)
  else if bg s =? cChromatic then
    command 0x26 ;;
    data_x_times 0xFF (buffer_len WIDTH HEIGHT)
  else
    command 0x26 ;;
    data_x_times 0x00 (buffer_len WIDTH HEIGHT).

Definition clear_frame : M unit :=
  clear_achromatic_frame ;;
  clear_chromatic_frame.

Definition set_lut : M unit := panic.   (* unimplemented!() *)

Definition exec (k : N) (o : op) : option (M rval) :=
  match o with
  | OSleep => unit_ sleep
  | OWakeUp => unit_ init
  | OSetBg c => unit_ (modify (set_bg c))
  | OGetBg => Some (s <- get ;; ret (RColor (bg s)))
  | OWidth => Some (ret (RNum WIDTH))
  | OHeight => Some (ret (RNum HEIGHT))
  | OUpdateFrame len => unit_ (update_frame k len)
  | OUpdatePartial _ _ _ _ _ => unit_ update_partial_frame
  | ODisplay => unit_ display_frame
  | OUpdateAndDisplay len => unit_ (update_and_display_frame k len)
  | OClear => unit_ clear_frame
  | OSetLut _ => unit_ set_lut
  | OWaitIdle => unit_ wait_until_idle
  | OUpdateColor l1 l2 => unit_ (update_color_frame (DArg k 0 0 l1) (DArg k 1 0 l2))
  | OUpdateAchromatic len => unit_ (update_achromatic_frame (DArg k 0 0 len))
  | OUpdateChromatic len => unit_ (update_chromatic_frame (DArg k 0 0 len))
  | _ => None
  end.

Definition drv (ft : feat) : driver :=
  mkDriver WIDTH HEIGHT true (mkD cWhite 0 false false 0 None) init exec.
End Epd2in13b_v4.

(** Model of src/epd2in9d/mod.rs.
    Fields: is_partial_refresh -> is_partial, old_data -> old.  The driver keeps a raw pointer
    ([from_raw_parts]) to the buffer of the caller's previous update call; [old s = Some (call, arg,
    len)] names that buffer and its bytes are [DArg call arg 0 len]; [None] is the empty slice
    [&[]] installed by [new]. *)
From Coq Require Import List NArith Bool.
From EPD Require Import Iface Ops Drv.Luts.
Import ListNotations.
Open Scope N_scope.
Open Scope m_scope.

Module Epd2in9d.
Definition WIDTH : N := 128.
Definition HEIGHT : N := 296.
Definition EPD_ARRAY : N := 4736.
Definition IS_BUSY_LOW := false.

Definition wait_until_idle : M unit := wait_idle IS_BUSY_LOW.

(** the bytes behind [self.old_data] *)
Definition old_data (s : dstate) : dexp :=
  match old s with
  | Some (c, a, len) => DArg c a 0 len
  | None => DLit []
  end.

Definition init : M unit :=
  reset 10000 2000 ;;
  cmd_with_data 0x00 [0x1f; 0x0D] ;;
  cmd_with_data 0x61 [0x80; 0x01; 0x28] ;;
  cmd 0x04 ;;
  wait_until_idle ;;
  cmd_with_data 0x50 [0x97].

Definition set_lut_helper (lut_vcom lut_ww lut_bw lut_wb lut_bb : list N) : M unit :=
  cmd_with_data 0x20 lut_vcom ;;
  cmd_with_data 0x21 lut_ww ;;
  cmd_with_data 0x22 lut_bw ;;
  cmd_with_data 0x23 lut_wb ;;
  cmd_with_data 0x24 lut_bb.

Definition set_lut (r : option N) : M unit :=
  (match r with Some v => modify (set_refresh v) | None => ret tt end) ;;
  set_lut_helper epd2in9d_LUT_VCOM1 epd2in9d_LUT_WW1 epd2in9d_LUT_BW1 epd2in9d_LUT_WB1
                 epd2in9d_LUT_BB1.

Definition set_part_reg : M unit :=
  reset 10000 2000 ;;
  cmd_with_data 0x01 [0x03; 0x00; 0x2b; 0x2b; 0x03] ;;
  cmd_with_data 0x06 [0x17; 0x17; 0x17] ;;
  cmd_with_data 0x00 [0xbf; 0x0D] ;;
  cmd_with_data 0x30 [0x3C] ;;
  cmd_with_data 0x61 [0x80; 0x01; 0x28] ;;
  cmd_with_data 0x82 [0x12] ;;
  set_lut None ;;
  cmd 0x04 ;;
  wait_until_idle.

Definition sleep : M unit :=
  modify (set_partial false) ;;
  cmd_with_data 0x50 [0xf7] ;;
  cmd 0x02 ;;
  wait_until_idle ;;
  delay_us 100000 ;;
  cmd_with_data 0x07 [0xA5].

Definition wake_up : M unit := init.

Definition update_frame (k len : N) : M unit :=
  s <- get ;;
  when_ (is_partial s) (modify (set_partial false)) ;;
  wait_until_idle ;;
  cmd 0x10 ;;
  data_x_times 0xFF EPD_ARRAY ;;
  cmd_with_data_e 0x13 (DArg k 0 0 len) ;;
  modify (set_old (Some (k, 0, len))).

Definition update_partial_frame (k len x y w h : N) : M unit :=
  s <- get ;;
  when_ (negb (is_partial s))
    (set_part_reg ;;
     modify (set_partial true)) ;;
  cmd 0x91 ;;
  cmd 0x90 ;;
  data [u8 (x - x mod 8)] ;;
  a <- add32 (x - x mod 8) w ;;
  a <- sub32 a 1 ;;
  a <- sub32 a 1 ;;
  data [u8 a] ;;
  data [u8 (y / 256)] ;;
  data [u8 (y mod 256)] ;;
  b <- add32 y h ;;
  b <- sub32 b 1 ;;
  data [u8 (b / 256)] ;;
  c <- add32 y h ;;
  c <- sub32 c 1 ;;
  c <- sub32 (c mod 256) 1 ;;
  data [u8 c] ;;
  data [0x28] ;;
  s <- get ;;
  cmd_with_data_e 0x10 (old_data s) ;;
  cmd_with_data_e 0x13 (DArg k 0 0 len) ;;
  modify (set_old (Some (k, 0, len))).

Definition display_frame : M unit :=
  cmd 0x12 ;;
  delay_us 1000 ;;
  wait_until_idle.

Definition update_and_display_frame (k len : N) : M unit :=
  update_frame k len ;;
  display_frame.

Definition clear_frame : M unit :=
  cmd 0x10 ;;
  data_x_times 0x00 EPD_ARRAY ;;
  cmd 0x13 ;;
  data_x_times 0xFF EPD_ARRAY ;;
  display_frame.

Definition exec (k : N) (o : op) : option (M rval) :=
  match o with
  | OSleep => unit_ sleep
  | OWakeUp => unit_ wake_up
  | OSetBg c => unit_ (modify (set_bg c))
  | OGetBg => Some (s <- get ;; ret (RColor (bg s)))
  | OWidth => Some (ret (RNum WIDTH))
  | OHeight => Some (ret (RNum HEIGHT))
  | OUpdateFrame len => unit_ (update_frame k len)
  | OUpdatePartial len x y w h => unit_ (update_partial_frame k len x y w h)
  | ODisplay => unit_ display_frame
  | OUpdateAndDisplay len => unit_ (update_and_display_frame k len)
  | OClear => unit_ clear_frame
  | OSetLut r => unit_ (set_lut r)
  | OWaitIdle => unit_ wait_until_idle
  | _ => None
  end.

Definition drv (ft : feat) : driver :=
  mkDriver WIDTH HEIGHT true (mkD cBlack 0 false false 0 None) init exec.
End Epd2in9d.

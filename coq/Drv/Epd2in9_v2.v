(** Model of src/epd2in9_v2/mod.rs (type-A command set, WaveshareDisplay + QuickRefresh). *)
From Coq Require Import List NArith Bool.
From EPD Require Import Iface Ops Drv.Luts.
Import ListNotations.
Open Scope N_scope.
Open Scope m_scope.

Module Epd2in9_v2.
Definition WIDTH : N := 128.
Definition HEIGHT : N := 296.
Definition IS_BUSY_LOW := false.

Definition LUT_PARTIAL_2IN9 := epd2in9_v2_LUT_PARTIAL_2IN9.
Definition WS_20_30 := epd2in9_v2_WS_20_30.

(** [&TABLE[a..b]] on a constant table of 159 bytes (always in range) *)
Definition slice (l : list N) (a b : nat) : list N := firstn (b - a) (skipn a l).

Definition wait_until_idle : M unit := wait_idle IS_BUSY_LOW.

Definition set_ram_area (sx sy ex ey : N) : M unit :=
  assert (sx <? ex) ;;
  assert (sy <? ey) ;;
  cmd_with_data 0x44 [u8 (shr sx 3); u8 (shr ex 3)] ;;
  cmd_with_data 0x45 [u8 sy; u8 (shr sy 8); u8 ey; u8 (shr ey 8)].

Definition set_ram_counter (x y : N) : M unit :=
  wait_until_idle ;;
  cmd_with_data 0x4E [u8 x] ;;
  cmd_with_data 0x4F [u8 y; u8 (shr y 8)].

Definition use_full_frame : M unit :=
  set_ram_area 0 0 (WIDTH - 1) (HEIGHT - 1) ;;
  set_ram_counter 0 0.

Definition set_lut_helper (buffer : list N) : M unit :=
  wait_until_idle ;;
  cmd_with_data 0x32 buffer ;;
  wait_until_idle.

Definition init : M unit :=
  reset 10000 2000 ;;
  wait_until_idle ;;
  cmd 0x12 ;;
  wait_until_idle ;;
  cmd_with_data 0x01 [0x27; 0x01; 0x00] ;;
  cmd_with_data 0x11 [0x03] ;;
  set_ram_area 0 0 (WIDTH - 1) (HEIGHT - 1) ;;
  cmd_with_data 0x21 [0x00; 0x80] ;;
  set_ram_counter 0 0 ;;
  wait_until_idle ;;
  set_lut_helper (slice WS_20_30 0 153) ;;
  cmd_with_data 0x3F (slice WS_20_30 153 154) ;;
  cmd_with_data 0x03 (slice WS_20_30 154 155) ;;
  cmd_with_data 0x04 (slice WS_20_30 155 158) ;;
  cmd_with_data 0x2C (slice WS_20_30 158 159).

Definition sleep : M unit :=
  wait_until_idle ;;
  cmd_with_data 0x10 [0x01].

Definition wake_up : M unit := init.

Definition update_frame (k len : N) : M unit :=
  wait_until_idle ;;
  cmd_with_data_e 0x24 (DArg k 0 0 len).

Definition update_partial_frame (k len x y w h : N) : M unit :=
  wait_until_idle ;;
  ex <- add32 x w ;;
  ey <- add32 y h ;;
  set_ram_area x y ex ey ;;
  set_ram_counter x y ;;
  cmd_with_data_e 0x24 (DArg k 0 0 len).

Definition display_frame : M unit :=
  wait_until_idle ;;
  cmd_with_data 0x22 [0xC7] ;;
  cmd 0x20 ;;
  wait_until_idle.

Definition update_and_display_frame (k len : N) : M unit :=
  update_frame k len ;;
  display_frame.

Definition clear_frame : M unit :=
  wait_until_idle ;;
  s <- get ;;
  let color := if bg s =? cWhite then 0xff else 0x00 in
  cmd 0x24 ;;
  data_x_times color (WIDTH / 8 * HEIGHT) ;;
  cmd 0x26 ;;
  data_x_times color (WIDTH / 8 * HEIGHT).

Definition set_lut (r : option N) : M unit :=
  match r with Some v => modify (set_refresh v) | None => ret tt end.

(** QuickRefresh *)
Definition update_old_frame (k len : N) : M unit :=
  wait_until_idle ;;
  cmd_with_data_e 0x24 (DArg k 0 0 len) ;;
  cmd_with_data_e 0x26 (DArg k 0 0 len).

Definition update_new_frame (k len : N) : M unit :=
  wait_until_idle ;;
  reset 10000 2000 ;;
  set_lut_helper LUT_PARTIAL_2IN9 ;;
  cmd_with_data 0x37 [0x00; 0x00; 0x00; 0x00; 0x00; 0x40; 0x00; 0x00; 0x00; 0x00] ;;
  cmd_with_data 0x3C [0x80] ;;
  cmd_with_data 0x22 [0xC0] ;;
  cmd 0x20 ;;
  wait_until_idle ;;
  use_full_frame ;;
  cmd_with_data_e 0x24 (DArg k 0 0 len).

Definition display_new_frame : M unit :=
  wait_until_idle ;;
  cmd_with_data 0x22 [0x0F] ;;
  cmd 0x20 ;;
  wait_until_idle.

Definition update_and_display_new_frame (k len : N) : M unit :=
  update_new_frame k len ;;
  display_new_frame.

Definition update_partial_old_frame (k len x y w h : N) : M unit := panic.
Definition update_partial_new_frame (k len x y w h : N) : M unit := panic.
Definition clear_partial_frame (x y w h : N) : M unit := panic.

Definition exec (k : N) (o : op) : option (M rval) :=
  match o with
  | OSleep => unit_ sleep
  | OWakeUp => unit_ wake_up
  | OSetBg c => unit_ (modify (set_bg c))
  | OGetBg => Some (s <- get ;; ret (RColor (bg s)))
  | OWidth => Some (ret (RNum WIDTH))
  | OHeight => Some (ret (RNum HEIGHT))
  | OUpdateFrame len => unit_ (update_frame k len)
  | OUpdatePartial len x y w h => unit_ (update_partial_frame k len x y w h)
  | ODisplay => unit_ display_frame
  | OUpdateAndDisplay len => unit_ (update_and_display_frame k len)
  | OClear => unit_ clear_frame
  | OSetLut r => unit_ (set_lut r)
  | OWaitIdle => unit_ wait_until_idle
  | OUpdateOld len => unit_ (update_old_frame k len)
  | OUpdateNew len => unit_ (update_new_frame k len)
  | ODisplayNew => unit_ display_new_frame
  | OUpdateAndDisplayNew len => unit_ (update_and_display_new_frame k len)
  | OUpdatePartialOld len x y w h => unit_ (update_partial_old_frame k len x y w h)
  | OUpdatePartialNew len x y w h => unit_ (update_partial_new_frame k len x y w h)
  | OClearPartial x y w h => unit_ (clear_partial_frame x y w h)
  | _ => None
  end.

Definition drv (ft : feat) : driver :=
  mkDriver WIDTH HEIGHT true (mkD cWhite 0 false false 0 None) init exec.
End Epd2in9_v2.

(** Model of src/epd7in5b_v2/mod.rs (7.5 inch B v2/v3: black, white, red). *)
From Coq Require Import List NArith Bool.
From EPD Require Import Iface Ops Drv.Luts.
Import ListNotations.
Open Scope N_scope.
Open Scope m_scope.

Module Epd7in5b_v2.
Definition WIDTH : N := 800.
Definition HEIGHT : N := 480.
Definition NUM_DISPLAY_BITS : N := WIDTH / 8 * HEIGHT.
Definition IS_BUSY_LOW := true.

(** interface.wait_until_idle_with_cmd(spi, delay, IS_BUSY_LOW, Command::GetStatus) *)
Definition wait_until_idle : M unit := wait_idle_cmd IS_BUSY_LOW 0x71.

Definition send_resolution : M unit :=
  let w := WIDTH in
  let h := HEIGHT in
  cmd 0x61 ;;
  data [u8 (shr w 8)] ;;
  data [u8 w] ;;
  data [u8 (shr h 8)] ;;
  data [u8 h].

Definition init : M unit :=
  reset 200000 2000 ;;
  cmd_with_data 0x01 [0x07; 0x07; 0x3F; 0x3F] ;;
  cmd 0x04 ;;
  wait_until_idle ;;
  cmd_with_data 0x00 [0x0F] ;;
  cmd_with_data 0x61 [0x03; 0x20; 0x01; 0xE0] ;;
  cmd_with_data 0x15 [0x00] ;;
  cmd_with_data 0x50 [0x11; 0x07] ;;
  cmd_with_data 0x60 [0x22] ;;
  cmd_with_data 0x65 [0x00; 0x00; 0x00; 0x00] ;;
  wait_until_idle.

(** the three-colour methods take the buffer as a data expression: [update_color_frame] passes
    them one of its two buffers each *)
Definition update_achromatic_frame (black : dexp) : M unit :=
  cmd 0x10 ;;
  data_e black ;;
  cmd 0x11.

Definition update_chromatic_frame (chromatic : dexp) : M unit :=
  cmd 0x13 ;;
  data_e chromatic ;;
  cmd 0x11 ;;
  wait_until_idle.

Definition update_color_frame (black chromatic : dexp) : M unit :=
  update_achromatic_frame black ;;
  update_chromatic_frame chromatic.

Definition sleep : M unit :=
  wait_until_idle ;;
  cmd 0x02 ;;
  wait_until_idle ;;
  cmd_with_data 0x07 [0xA5].

Definition update_frame (k len : N) : M unit :=
  wait_until_idle ;;
  (* &buffer[..NUM_DISPLAY_BITS] is evaluated (and may panic) before the command goes out *)
  assert (NUM_DISPLAY_BITS <=? len) ;;
  cmd_with_data_e 0x10 (DArg k 0 0 NUM_DISPLAY_BITS) ;;
  (* &buffer[NUM_DISPLAY_BITS..] cannot panic any more *)
  cmd_with_data_e 0x13 (DArg k 0 NUM_DISPLAY_BITS (len - NUM_DISPLAY_BITS)) ;;
  cmd 0x11.

Definition update_partial_frame (k len x y width height : N) : M unit := panic.

Definition display_frame : M unit :=
  wait_until_idle ;;
  cmd 0x12.

Definition update_and_display_frame (k len : N) : M unit :=
  update_frame k len ;;
  cmd 0x12.

Definition clear_frame : M unit :=
  wait_until_idle ;;
  send_resolution ;;
  cmd 0x10 ;;
  data_x_times 0xFF (WIDTH / 8 * HEIGHT) ;;
  cmd 0x13 ;;
  data_x_times 0x00 (WIDTH / 8 * HEIGHT) ;;
  cmd 0x11 ;;
  cmd 0x12.

Definition set_lut (r : option N) : M unit := panic.

Definition update_partial_frame2 (k len x y width height : N) : M unit :=
  wait_until_idle ;;
  (* if buffer.len() as u32 != width / 8 * height { }  -- empty body, but the product is checked *)
  _ <- mul32 (width / 8) height ;;
  let hrst_upper := shr (u8 (x / 8)) 5 in
  let hrst_lower := u8 (shl (x / 8) 3) in
  xw <- add32 x width ;;
  xe <- sub32 (xw / 8) 1 ;;
  let hred_upper := shr (u8 xe) 5 in
  let hred_lower := bor (u8 (shl xe 3)) 7 in
  let vrst_upper := u8 (shr y 8) in
  let vrst_lower := u8 y in
  yh <- add32 y height ;;
  ye <- sub32 yh 1 ;;
  let vred_upper := u8 (shr ye 8) in
  let vred_lower := u8 ye in
  let pt_scan := 0x01 in
  cmd 0x91 ;;
  cmd_with_data 0x90 [hrst_upper; hrst_lower; hred_upper; hred_lower; vrst_upper; vrst_lower;
                      vred_upper; vred_lower; pt_scan] ;;
  let half := len / 2 in
  cmd_with_data_e 0x10 (DArg k 0 0 half) ;;
  cmd_with_data_e 0x13 (DArg k 0 half (len - half)) ;;
  cmd 0x12 ;;
  wait_until_idle ;;
  cmd 0x92.

Definition exec (k : N) (o : op) : option (M rval) :=
  match o with
  | OSleep => unit_ sleep
  | OWakeUp => unit_ init
  | OSetBg c => unit_ (modify (set_bg c))
  | OGetBg => Some (s <- get ;; ret (RColor (bg s)))
  | OWidth => Some (ret (RNum WIDTH))
  | OHeight => Some (ret (RNum HEIGHT))
  | OUpdateFrame len => unit_ (update_frame k len)
  | OUpdatePartial len x y w h => unit_ (update_partial_frame k len x y w h)
  | ODisplay => unit_ display_frame
  | OUpdateAndDisplay len => unit_ (update_and_display_frame k len)
  | OClear => unit_ clear_frame
  | OSetLut r => unit_ (set_lut r)
  | OWaitIdle => unit_ wait_until_idle
  | OUpdateColor l1 l2 => unit_ (update_color_frame (DArg k 0 0 l1) (DArg k 1 0 l2))
  | OUpdateAchromatic len => unit_ (update_achromatic_frame (DArg k 0 0 len))
  | OUpdateChromatic len => unit_ (update_chromatic_frame (DArg k 0 0 len))
  | OUpdatePartial2 len x y w h => unit_ (update_partial_frame2 k len x y w h)
  | _ => None
  end.

Definition drv (ft : feat) : driver :=
  mkDriver WIDTH HEIGHT false (mkD cWhite 0 false false 0 None) init exec.
End Epd7in5b_v2.

(** Model of src/epd2in7_v2/mod.rs (type-A command set). *)
From Coq Require Import List NArith Bool.
From EPD Require Import Iface Ops Drv.Luts.
Import ListNotations.
Open Scope N_scope.
Open Scope m_scope.

Module Epd2in7_v2.
Definition WIDTH : N := 176.
Definition HEIGHT : N := 264.
Definition IS_BUSY_LOW := false.

Definition wait_until_idle : M unit := wait_idle IS_BUSY_LOW.

Definition command (c : N) : M unit := cmd c.

Definition set_ram_area (sx sy ex ey : N) : M unit :=
  assert (sx <? ex) ;;
  assert (sy <? ey) ;;
  cmd_with_data 0x44 [u8 (shr sx 3); u8 (shr ex 3)] ;;
  cmd_with_data 0x45 [u8 (band sy 0xFF); u8 (band (shr sy 8) 0x01);
                      u8 (band ey 0xFF); u8 (band (shr ey 8) 0x01)].

Definition set_ram_counter (x y : N) : M unit :=
  wait_until_idle ;;
  cmd_with_data 0x4E [u8 (band x 0xFF)] ;;
  cmd_with_data 0x4F [u8 (band y 0xFF); u8 (band (shr y 8) 0x01)].

Definition use_full_frame : M unit :=
  set_ram_area 0 0 (WIDTH - 1) (HEIGHT - 1) ;;
  set_ram_counter 0 0.

Definition init : M unit :=
  reset 200000 2000 ;;
  wait_until_idle ;;
  command 0x12 ;;
  wait_until_idle ;;
  use_full_frame ;;
  cmd_with_data 0x11 [0x03].

Definition sleep : M unit :=
  wait_until_idle ;;
  cmd_with_data 0x10 [0x01].

Definition update_frame (k len : N) : M unit :=
  wait_until_idle ;;
  use_full_frame ;;
  cmd_with_data_e 0x24 (DArg k 0 0 len).

Definition update_partial_frame (k len x y w h : N) : M unit :=
  wait_until_idle ;;
  ex <- add32 x w ;;
  ey <- add32 y h ;;
  set_ram_area x y ex ey ;;
  set_ram_counter x y ;;
  cmd_with_data_e 0x24 (DArg k 0 0 len).

Definition display_frame : M unit :=
  wait_until_idle ;;
  s <- get ;;
  (if refresh s =? 0 then cmd_with_data 0x22 [0xF7]
   else if refresh s =? 1 then cmd_with_data 0x22 [0xC7]
   else ret tt) ;;
  cmd 0x20 ;;
  wait_until_idle.

Definition update_and_display_frame (k len : N) : M unit :=
  update_frame k len ;;
  display_frame.

Definition clear_frame : M unit :=
  wait_until_idle ;;
  use_full_frame ;;
  s <- get ;;
  let color := if bg s =? cWhite then 0xff else 0x00 in
  cmd 0x24 ;;
  data_x_times color (WIDTH / 8 * HEIGHT).

Definition set_lut (r : option N) : M unit :=
  match r with Some v => modify (set_refresh v) | None => ret tt end.

Definition exec (k : N) (o : op) : option (M rval) :=
  match o with
  | OSleep => unit_ sleep
  | OWakeUp => unit_ init
  | OSetBg c => unit_ (modify (set_bg c))
  | OGetBg => Some (s <- get ;; ret (RColor (bg s)))
  | OWidth => Some (ret (RNum WIDTH))
  | OHeight => Some (ret (RNum HEIGHT))
  | OUpdateFrame len => unit_ (update_frame k len)
  | OUpdatePartial len x y w h => unit_ (update_partial_frame k len x y w h)
  | ODisplay => unit_ display_frame
  | OUpdateAndDisplay len => unit_ (update_and_display_frame k len)
  | OClear => unit_ clear_frame
  | OSetLut r => unit_ (set_lut r)
  | OWaitIdle => unit_ wait_until_idle
  | _ => None
  end.

Definition drv (ft : feat) : driver :=
  mkDriver WIDTH HEIGHT true (mkD cWhite 0 false false 0 None) init exec.
End Epd2in7_v2.

(** Model of src/epd5in83b_v2/mod.rs (5.83 inch B v2: black, white, red). *)
From Coq Require Import List NArith Bool.
From EPD Require Import Iface Ops Drv.Luts.
Import ListNotations.
Open Scope N_scope.
Open Scope m_scope.

Module Epd5in83b_v2.
Definition WIDTH : N := 648.
Definition HEIGHT : N := 480.
Definition IS_BUSY_LOW := true.
Definition NUM_DISPLAY_BITS : N := WIDTH / 8 * HEIGHT.

(** Color::get_byte_value / TriColor::get_byte_value *)
Definition get_byte_value (c : N) : N := if c =? cWhite then 0xff else 0x00.

Definition wait_until_idle : M unit := wait_idle IS_BUSY_LOW.

Definition send_resolution : M unit :=
  let w := WIDTH in
  let h := HEIGHT in
  cmd 0x61 ;;
  data [u8 (shr w 8)] ;;
  data [u8 w] ;;
  data [u8 (shr h 8)] ;;
  data [u8 h].

Definition init : M unit :=
  reset 10000 10000 ;;
  cmd_with_data 0x06 [0x17; 0x17; 0x1e; 0x17] ;;
  cmd_with_data 0x01 [0x07; 0x07; 0x3F; 0x3F] ;;
  cmd 0x04 ;;
  delay_us 5000 ;;
  wait_until_idle ;;
  cmd_with_data 0x00 [0x0F] ;;
  send_resolution ;;
  cmd_with_data 0x15 [0x00] ;;
  cmd_with_data 0x50 [0x11; 0x07] ;;
  cmd_with_data 0x60 [0x22] ;;
  wait_until_idle.

(** the three-colour methods take the buffer as a data expression: they are also called from
    [update_frame] / [update_color_frame] with one of the caller's buffers *)
Definition update_achromatic_frame (black : dexp) : M unit :=
  wait_until_idle ;;
  cmd_with_data_e 0x10 black.

Definition update_chromatic_frame (chromatic : dexp) : M unit :=
  wait_until_idle ;;
  cmd_with_data_e 0x13 chromatic.

Definition update_color_frame (black chromatic : dexp) : M unit :=
  update_achromatic_frame black ;;
  update_chromatic_frame chromatic.

Definition sleep : M unit :=
  wait_until_idle ;;
  cmd 0x02 ;;
  wait_until_idle ;;
  cmd_with_data 0x07 [0xA5].

Definition update_frame (k len : N) : M unit :=
  wait_until_idle ;;
  update_achromatic_frame (DArg k 0 0 len) ;;
  s <- get ;;
  let color := get_byte_value (bg s) in
  cmd 0x13 ;;
  data_x_times color NUM_DISPLAY_BITS.

Definition update_partial_frame (k len x y width height : N) : M unit :=
  wait_until_idle ;;
  (* if buffer.len() as u32 != width / 8 * height { }  -- empty body, but the product is checked *)
  _ <- mul32 (width / 8) height ;;
  let hrst_upper := shr (u8 (x / 8)) 6 in
  let hrst_lower := u8 (shl (x / 8) 3) in
  xw <- add32 x width ;;
  let hred_upper := shr (u8 (xw / 8)) 6 in
  let hred_lower := band (u8 (shl (xw / 8) 3)) 7 in
  let vrst_upper := u8 (shr y 8) in
  let vrst_lower := u8 y in
  yh <- add32 y height ;;
  let vred_upper := u8 (shr yh 8) in
  let vred_lower := u8 yh in
  let pt_scan := 0x01 in
  cmd 0x91 ;;
  cmd 0x90 ;;
  data [hrst_upper; hrst_lower; hred_upper; hred_lower; vrst_upper; vrst_lower; vred_upper;
        vred_lower; pt_scan] ;;
  cmd 0x10 ;;
  data_e (DArg k 0 0 len) ;;
  let color := get_byte_value cBlack in
  cmd 0x13 ;;
  wh <- mul32 width height ;;
  data_x_times color (wh / 8) ;;
  cmd 0x12 ;;
  wait_until_idle ;;
  cmd 0x92.

Definition display_frame : M unit :=
  cmd 0x12 ;;
  wait_until_idle.

Definition update_and_display_frame (k len : N) : M unit :=
  update_frame k len ;;
  display_frame.

Definition clear_frame : M unit :=
  wait_until_idle ;;
  cmd 0x10 ;;
  data_x_times 0xFF NUM_DISPLAY_BITS ;;
  cmd 0x13 ;;
  data_x_times 0x00 NUM_DISPLAY_BITS.

Definition set_lut (r : option N) : M unit := panic.

Definition exec (k : N) (o : op) : option (M rval) :=
  match o with
  | OSleep => unit_ sleep
  | OWakeUp => unit_ init
  | OSetBg c => unit_ (modify (set_bg c))
  | OGetBg => Some (s <- get ;; ret (RColor (bg s)))
  | OWidth => Some (ret (RNum WIDTH))
  | OHeight => Some (ret (RNum HEIGHT))
  | OUpdateFrame len => unit_ (update_frame k len)
  | OUpdatePartial len x y w h => unit_ (update_partial_frame k len x y w h)
  | ODisplay => unit_ display_frame
  | OUpdateAndDisplay len => unit_ (update_and_display_frame k len)
  | OClear => unit_ clear_frame
  | OSetLut r => unit_ (set_lut r)
  | OWaitIdle => unit_ wait_until_idle
  | OUpdateColor l1 l2 => unit_ (update_color_frame (DArg k 0 0 l1) (DArg k 1 0 l2))
  | OUpdateAchromatic len => unit_ (update_achromatic_frame (DArg k 0 0 len))
  | OUpdateChromatic len => unit_ (update_chromatic_frame (DArg k 0 0 len))
  | _ => None
  end.

Definition drv (ft : feat) : driver :=
  mkDriver WIDTH HEIGHT true (mkD cWhite 0 false false 0 None) init exec.
End Epd5in83b_v2.

(** Model of src/epd3in7/mod.rs. *)
From Coq Require Import List NArith Bool.
From EPD Require Import Iface Ops Drv.Luts.
Import ListNotations.
Open Scope N_scope.
Open Scope m_scope.

Module Epd3in7.
Definition WIDTH : N := 280.
Definition HEIGHT : N := 480.
Definition IS_BUSY_LOW := false.

(** crate::buffer_len *)
Definition buffer_len (w h : N) : N := (w + 7) / 8 * h.

Definition set_lut (r : option N) : M unit :=
  let buffer := match r with
                | Some 1 => epd3in7_LUT_1GRAY_DU
                | _ => epd3in7_LUT_1GRAY_GC
                end in
  cmd_with_data 0x32 buffer.

Definition init : M unit :=
  reset 30 10 ;;
  cmd 0x12 ;;
  delay_us 300000 ;;
  cmd_with_data 0x46 [0xF7] ;;
  wait_idle IS_BUSY_LOW ;;
  cmd_with_data 0x47 [0xF7] ;;
  wait_idle IS_BUSY_LOW ;;
  cmd_with_data 0x01 [0xDF; 0x01; 0x00] ;;
  cmd_with_data 0x03 [0x00] ;;
  cmd_with_data 0x04 [0x41; 0xA8; 0x32] ;;
  cmd_with_data 0x11 [0x03] ;;
  cmd_with_data 0x3C [0x03] ;;
  cmd_with_data 0x0C [0xAE; 0xC7; 0xC3; 0xC0; 0xC0] ;;
  cmd_with_data 0x18 [0x80] ;;
  cmd_with_data 0x2C [0x44] ;;
  cmd_with_data 0x37 [0x00; 0xFF; 0xFF; 0xFF; 0xFF; 0x4F; 0xFF; 0xFF; 0xFF; 0xFF] ;;
  cmd_with_data 0x44 [0x00; 0x00; 0x17; 0x01] ;;
  cmd_with_data 0x45 [0x00; 0x00; 0xDF; 0x01] ;;
  cmd_with_data 0x22 [0xCF] ;;
  set_lut (Some 0).

Definition sleep : M unit :=
  cmd_with_data 0x50 [0xF7] ;;
  cmd 0x02 ;;
  cmd_with_data 0x07 [0xA5].

Definition update_frame (k len : N) : M unit :=
  assert (len =? buffer_len WIDTH HEIGHT) ;;
  cmd_with_data 0x4E [0x00; 0x00] ;;
  cmd_with_data 0x4F [0x00; 0x00] ;;
  cmd_with_data_e 0x24 (DArg k 0 0 len).

Definition update_partial_frame (k len x y w h : N) : M unit := panic.

Definition display_frame : M unit :=
  cmd 0x20 ;;
  wait_idle IS_BUSY_LOW.

Definition update_and_display_frame (k len : N) : M unit :=
  update_frame k len ;;
  display_frame.

Definition clear_frame : M unit :=
  cmd_with_data 0x4E [0x00; 0x00] ;;
  cmd_with_data 0x4F [0x00; 0x00] ;;
  s <- get ;;
  let color := if bg s =? cWhite then 0xff else 0x00 in
  cmd 0x24 ;;
  data_x_times color (WIDTH / 8 * HEIGHT).

Definition wait_until_idle : M unit := wait_idle IS_BUSY_LOW.

Definition exec (k : N) (o : op) : option (M rval) :=
  match o with
  | OSleep => unit_ sleep
  | OWakeUp => unit_ init
  | OSetBg c => unit_ (modify (set_bg c))
  | OGetBg => Some (s <- get ;; ret (RColor (bg s)))
  | OWidth => Some (ret (RNum WIDTH))
  | OHeight => Some (ret (RNum HEIGHT))
  | OUpdateFrame len => unit_ (update_frame k len)
  | OUpdatePartial len x y w h => unit_ (update_partial_frame k len x y w h)
  | ODisplay => unit_ display_frame
  | OUpdateAndDisplay len => unit_ (update_and_display_frame k len)
  | OClear => unit_ clear_frame
  | OSetLut r => unit_ (set_lut r)
  | OWaitIdle => unit_ wait_until_idle
  | _ => None
  end.

Definition drv (ft : feat) : driver :=
  mkDriver WIDTH HEIGHT true (mkD cWhite 0 false false 0 None) init exec.
End Epd3in7.

(** Model of src/epd2in13_v2/mod.rs (+ the value helpers of src/epd2in13_v2/command.rs).
    One driver for two panels: cargo feature epd2in13_v2 ([f_v2 ft = true]) or epd2in13_v3; the
    feature only selects the two LUT tables (70 vs 159 bytes). *)
From Coq Require Import List NArith ZArith Bool.
From EPD Require Import Iface Ops Drv.Luts.
Import ListNotations.
Open Scope N_scope.
Open Scope m_scope.

Module Epd2in13_v2.
Definition WIDTH : N := 122.
Definition HEIGHT : N := 250.
Definition IS_BUSY_LOW := false.

(** crate::buffer_len *)
Definition buffer_len (width height : N) : N := (width + 7) / 8 * height.

(** ** command.rs: value types *)

(** bit_field::BitField on u8 *)
Definition set_bit (x k : N) (b : bool) : N := if b then N.setbit x k else N.clearbit x k.
(** [set_bits x lo hi v] = x.set_bits(lo..hi, v)  (v fits in every use) *)
Definition set_bits (x lo hi v : N) : N :=
  bor (N.ldiff x (shl (N.ones (hi - lo)) lo)) (shl v lo).

(** DriverOutput::to_bytes *)
Record DriverOutput := mkDriverOutput {
  scan_is_linear : bool; scan_g0_is_first : bool; scan_dir_incr : bool; do_width : N (* u16 *) }.
Definition DriverOutput_to_bytes (o : DriverOutput) : list N :=
  [ u8 (do_width o); u8 (shr (do_width o) 8);
    set_bit (set_bit (set_bit 0 0 (negb (scan_dir_incr o))) 1 (negb (scan_g0_is_first o)))
            2 (negb (scan_is_linear o)) ].

(** DisplayUpdateControl2 (a u8 newtype with builder methods) *)
Definition DisplayUpdateControl2_new : N := 0x00.
Definition disable_clock (v : N) : N := set_bit v 0 true.
Definition disable_analog (v : N) : N := set_bit v 1 true.
Definition display (v : N) : N := set_bit v 2 true.
Definition load_lut (v : N) : N := set_bit v 4 true.
Definition load_temp (v : N) : N := set_bit v 5 true.
Definition enable_clock (v : N) : N := set_bit v 6 true.
Definition enable_analog (v : N) : N := set_bit v 7 true.

(** enum discriminants *)
Definition XIncrYIncr : N := 0x3.      (* DataEntryModeIncr *)
Definition XDir : N := 0x0.            (* DataEntryModeDir *)
Definition Vbd_Gs : N := 0x0.          (* BorderWaveFormVbd *)
Definition Fix_Vss : N := 0x0.         (* BorderWaveFormFixLevel *)
Definition Gs_Lut1 : N := 0x1.         (* BorderWaveFormGs *)
Definition Gs_Lut3 : N := 0x3.
Definition DeepSleep_Mode1 : N := 0x01. (* DeepSleepMode *)

(** BorderWaveForm::to_u8 *)
Record BorderWaveForm := mkBorderWaveForm { vbd : N; fix_level : N; gs_trans : N }.
Definition BorderWaveForm_to_u8 (b : BorderWaveForm) : N :=
  set_bits (set_bits (set_bits 0 6 8 (vbd b)) 4 6 (fix_level b)) 0 2 (gs_trans b).

(** trait I32Ext for i32 *)
Definition zin (lo hi x : Z) : bool := (Z.leb lo x && Z.leb x hi)%bool.
Definition zu8 (x : Z) : N := Z.to_N (Z.modulo x 256).       (* i32 as u8 *)

Definition vcom (self : Z) : M N :=
  assert (zin (-30) (-2) self) ;;
  let u := match Z.opp self with
           | 2%Z => 0x08 | 3%Z => 0x0B | 4%Z => 0x10 | 5%Z => 0x14 | 6%Z => 0x17
           | 7%Z => 0x1B | 8%Z => 0x20 | 9%Z => 0x24 | 10%Z => 0x28 | 11%Z => 0x2C
           | 12%Z => 0x2F | 13%Z => 0x34 | 14%Z => 0x37 | 15%Z => 0x3C | 16%Z => 0x40
           | 17%Z => 0x44 | 18%Z => 0x48 | 19%Z => 0x4B | 20%Z => 0x50 | 21%Z => 0x54
           | 22%Z => 0x58 | 23%Z => 0x5B | 24%Z => 0x5F | 25%Z => 0x64 | 26%Z => 0x68
           | 27%Z => 0x6C | 28%Z => 0x6F | 29%Z => 0x73 | 30%Z => 0x78
           | _ => 0
           end in
  ret u.

Definition gate_driving_decivolt (self : Z) : M N :=
  assert (zin 100 210 self && Z.eqb (Z.rem self 5) 0) ;;
  ret (zu8 (Z.quot (self - 100) 5 + 0x03)).

Definition source_driving_decivolt (self : Z) : M N :=
  assert (zin 24 88 self || (Z.eqb (Z.rem self 5) 0 && zin 90 180 (Z.abs self))) ;;
  if zin 24 88 self then ret (zu8 ((self - 24) + 0x8E))
  else if zin 90 180 self then ret (zu8 (Z.quot (self - 90) 2 + 0x23))
  else ret (zu8 (Z.quot (- self - 90) 5 * 2 + 0x1A)).

(** ** mod.rs *)
Section F.
Variable ft : feat.

(** constants.rs, selected by the cargo feature *)
Definition LUT_FULL_UPDATE :=
  if f_v2 ft then epd2in13_v2_LUT_FULL_UPDATE_v2 else epd2in13_v2_LUT_FULL_UPDATE_v3.
Definition LUT_PARTIAL_UPDATE :=
  if f_v2 ft then epd2in13_v2_LUT_PARTIAL_UPDATE_v2 else epd2in13_v2_LUT_PARTIAL_UPDATE_v3.

Definition wait_until_idle : M unit := wait_idle IS_BUSY_LOW.

Definition command (c : N) : M unit := cmd c.

Definition set_gate_scan_start_position (start : N) : M unit :=
  assert (start <=? 295) ;;
  cmd_with_data 0x0F [u8 (band start 0xFF); u8 (band (shr start 8) 0x1)].

Definition set_border_waveform (borderwaveform : BorderWaveForm) : M unit :=
  cmd_with_data 0x3C [BorderWaveForm_to_u8 borderwaveform].

Definition set_vcom_register (vcom : N) : M unit :=
  cmd_with_data 0x2C [vcom].

Definition set_gate_driving_voltage (voltage : N) : M unit :=
  cmd_with_data 0x03 [voltage].

Definition set_dummy_line_period (number_of_lines : N) : M unit :=
  assert (number_of_lines <=? 127) ;;
  cmd_with_data 0x3A [number_of_lines].

Definition set_gate_line_width (width : N) : M unit :=
  cmd_with_data 0x3B [band width 0x0F].

Definition set_source_driving_voltage (vsh1 vsh2 vsl : N) : M unit :=
  cmd_with_data 0x04 [vsh1; vsh2; vsl].

Definition set_display_update_control_2 (value : N) : M unit :=
  cmd_with_data 0x22 [value].

Definition set_sleep_mode (mode : N) : M unit :=
  cmd_with_data 0x10 [mode].

Definition set_driver_output (output : DriverOutput) : M unit :=
  cmd_with_data 0x01 (DriverOutput_to_bytes output).

Definition set_data_entry_mode (counter_incr_mode counter_direction : N) : M unit :=
  let mode := bor counter_incr_mode counter_direction in
  cmd_with_data 0x11 [mode].

Definition set_ram_area (start_x start_y end_x end_y : N) : M unit :=
  cmd_with_data 0x44 [u8 (shr start_x 3); u8 (shr end_x 3)] ;;
  cmd_with_data 0x45 [u8 start_y; u8 (shr start_y 8); u8 end_y; u8 (shr end_y 8)].

Definition set_ram_address_counters (x y : N) : M unit :=
  wait_until_idle ;;
  cmd_with_data 0x4E [u8 (shr x 3)] ;;
  cmd_with_data 0x4F [u8 y; u8 (shr y 8)].

(** the [refresh] field is NOT updated by set_lut *)
Definition set_lut (refresh_rate : option N) : M unit :=
  let buffer := match refresh_rate with
                | Some 1 => LUT_PARTIAL_UPDATE
                | _ => LUT_FULL_UPDATE
                end in
  cmd_with_data 0x32 buffer.

Definition init : M unit :=
  reset 10000 10000 ;;
  s <- get ;;
  (if refresh s =? 1 then
     v <- vcom (-9) ;;
     set_vcom_register v ;;
     wait_until_idle ;;
     set_lut (Some (refresh s)) ;;
     set_display_update_control_2 (enable_clock (enable_analog DisplayUpdateControl2_new)) ;;
     command 0x20 ;;
     wait_until_idle ;;
     set_border_waveform (mkBorderWaveForm Vbd_Gs Fix_Vss Gs_Lut1)
   else
     wait_until_idle ;;
     command 0x12 ;;
     wait_until_idle ;;
     set_driver_output (mkDriverOutput true true true (HEIGHT - 1)) ;;
     set_dummy_line_period 0x30 ;;
     set_gate_scan_start_position 0 ;;
     set_data_entry_mode XIncrYIncr XDir ;;
     set_ram_area 0 0 (WIDTH - 1) (HEIGHT - 1) ;;
     set_ram_address_counters 0 0 ;;
     set_border_waveform (mkBorderWaveForm Vbd_Gs Fix_Vss Gs_Lut3) ;;
     v <- vcom (-21) ;;
     set_vcom_register v ;;
     g <- gate_driving_decivolt 190 ;;
     set_gate_driving_voltage g ;;
     vsh1 <- source_driving_decivolt 150 ;;
     vsh2 <- source_driving_decivolt 50 ;;
     vsl <- source_driving_decivolt (-150) ;;
     set_source_driving_voltage vsh1 vsh2 vsl ;;
     set_gate_line_width 10 ;;
     set_lut (Some (refresh s))) ;;
  wait_until_idle.

Definition sleep : M unit :=
  wait_until_idle ;;
  set_display_update_control_2
    (disable_clock (disable_analog (enable_clock (enable_analog DisplayUpdateControl2_new)))) ;;
  command 0x20 ;;
  s <- get ;;
  set_sleep_mode (sleep_mode s).

Definition update_frame (k len : N) : M unit :=
  assert (len =? buffer_len WIDTH HEIGHT) ;;
  set_ram_area 0 0 (WIDTH - 1) (HEIGHT - 1) ;;
  set_ram_address_counters 0 0 ;;
  cmd_with_data_e 0x24 (DArg k 0 0 len) ;;
  s <- get ;;
  when_ (refresh s =? 0)
    (set_ram_area 0 0 (WIDTH - 1) (HEIGHT - 1) ;;
     set_ram_address_counters 0 0 ;;
     cmd_with_data_e 0x26 (DArg k 0 0 len)).

Definition update_partial_frame (k len x y width height : N) : M unit :=
  wh <- mul32 width height ;;
  assert (wh / 8 =? len) ;;
  s <- get ;;
  assert (refresh s =? 0) ;;
  ex <- add32 x width ;;
  ey <- add32 y height ;;
  set_ram_area x y ex ey ;;
  set_ram_address_counters x y ;;
  cmd_with_data_e 0x24 (DArg k 0 0 len) ;;
  s <- get ;;
  when_ (refresh s =? 0)
    (ex <- add32 x width ;;
     ey <- add32 y height ;;
     set_ram_area x y ex ey ;;
     set_ram_address_counters x y ;;
     cmd_with_data_e 0x26 (DArg k 0 0 len)).

Definition display_frame : M unit :=
  s <- get ;;
  (if refresh s =? 0 then
     set_display_update_control_2
       (disable_clock (disable_analog (display (enable_analog (enable_clock DisplayUpdateControl2_new)))))
   else
     set_display_update_control_2 (display DisplayUpdateControl2_new)) ;;
  command 0x20 ;;
  wait_until_idle.

Definition set_partial_base_buffer (k len : N) : M unit :=
  assert (buffer_len WIDTH HEIGHT =? len) ;;
  set_ram_area 0 0 (WIDTH - 1) (HEIGHT - 1) ;;
  set_ram_address_counters 0 0 ;;
  cmd_with_data_e 0x26 (DArg k 0 0 len).

Definition update_and_display_frame (k len : N) : M unit :=
  update_frame k len ;;
  display_frame ;;
  s <- get ;;
  when_ (refresh s =? 1) (set_partial_base_buffer k len).

Definition clear_frame : M unit :=
  s <- get ;;
  let color := if bg s =? cWhite then 0xff else 0x00 in
  set_ram_area 0 0 (WIDTH - 1) (HEIGHT - 1) ;;
  set_ram_address_counters 0 0 ;;
  command 0x24 ;;
  data_x_times color (buffer_len WIDTH HEIGHT) ;;
  s <- get ;;
  when_ (refresh s =? 0)
    (set_ram_area 0 0 (WIDTH - 1) (HEIGHT - 1) ;;
     set_ram_address_counters 0 0 ;;
     command 0x26 ;;
     data_x_times color (buffer_len WIDTH HEIGHT)).

Definition set_refresh (r : N) : M unit :=
  s <- get ;;
  when_ (negb (refresh s =? r))
    (modify (Iface.set_refresh r) ;;
     init).

Definition exec (k : N) (o : op) : option (M rval) :=
  match o with
  | OSleep => unit_ sleep
  | OWakeUp => unit_ init
  | OSetBg c => unit_ (modify (set_bg c))
  | OGetBg => Some (s <- get ;; ret (RColor (bg s)))
  | OWidth => Some (ret (RNum WIDTH))
  | OHeight => Some (ret (RNum HEIGHT))
  | OUpdateFrame len => unit_ (update_frame k len)
  | OUpdatePartial len x y w h => unit_ (update_partial_frame k len x y w h)
  | ODisplay => unit_ display_frame
  | OUpdateAndDisplay len => unit_ (update_and_display_frame k len)
  | OClear => unit_ clear_frame
  | OSetLut r => unit_ (set_lut r)
  | OWaitIdle => unit_ wait_until_idle
  | OSetPartialBase len => unit_ (set_partial_base_buffer k len)
  | OSetRefresh r => unit_ (set_refresh r)
  | _ => None
  end.

(** new: sleep_mode = DeepSleepMode::Mode1, background White, refresh Full; then init *)
Definition drv : driver :=
  mkDriver WIDTH HEIGHT true (mkD cWhite 0 false false DeepSleep_Mode1 None) init exec.
End F.
End Epd2in13_v2.

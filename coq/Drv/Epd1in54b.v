(** Model of src/epd1in54b/mod.rs. *)
From Coq Require Import List NArith Bool.
From EPD Require Import Iface Ops Drv.Luts.
Import ListNotations.
Open Scope N_scope.
Open Scope m_scope.

Module Epd1in54b.
Definition WIDTH : N := 200.
Definition HEIGHT : N := 200.
Definition DEFAULT_BACKGROUND_COLOR : N := cWhite.
Definition IS_BUSY_LOW := true.

(** Color::get_byte_value *)
Definition get_byte_value (c : N) : N := if c =? cWhite then 0xff else 0x00.

Definition wait_until_idle : M unit := wait_idle IS_BUSY_LOW.

(** the private wrappers of the driver *)
Definition command (c : N) : M unit := cmd c.
Definition send_data (l : list N) : M unit := data l.
Definition cmd_with_data' (c : N) (l : list N) : M unit := cmd_with_data c l.

Definition send_resolution : M unit :=
  let w := WIDTH in
  let h := HEIGHT in
  command 0x61 ;;
  send_data [u8 w] ;;
  send_data [u8 (shr h 8)] ;;
  send_data [u8 h].

Definition set_lut (r : option N) : M unit :=
  cmd_with_data 0x20 epd1in54b_LUT_VCOM0 ;;
  cmd_with_data 0x21 epd1in54b_LUT_WHITE_TO_WHITE ;;
  cmd_with_data 0x22 epd1in54b_LUT_BLACK_TO_WHITE ;;
  cmd_with_data 0x23 epd1in54b_LUT_G1 ;;
  cmd_with_data 0x24 epd1in54b_LUT_G2 ;;
  cmd_with_data 0x25 epd1in54b_LUT_RED_VCOM ;;
  cmd_with_data 0x26 epd1in54b_LUT_RED0 ;;
  cmd_with_data 0x27 epd1in54b_LUT_RED1.

Definition init : M unit :=
  reset 10000 10000 ;;
  cmd_with_data 0x01 [0x07; 0x00; 0x08; 0x00] ;;
  cmd_with_data 0x06 [0x07; 0x07; 0x07] ;;
  command 0x04 ;;
  delay_us 5000 ;;
  wait_until_idle ;;
  cmd_with_data' 0x00 [0xCF] ;;
  cmd_with_data' 0x50 [0x37] ;;
  cmd_with_data' 0x30 [0x39] ;;
  send_resolution ;;
  cmd_with_data' 0x82 [0x0E] ;;
  set_lut None ;;
  wait_until_idle.

(** [black] is buffer argument [a] of call [k] *)
Definition update_achromatic_frame (k a len : N) : M unit :=
  wait_until_idle ;;
  send_resolution ;;
  cmd 0x10 ;;
  (* for b in black: one data call with the two bytes of expand_bits b *)
  data_each BExp2 2 (DArg k a 0 len).

Definition update_chromatic_frame (k a len : N) : M unit :=
  cmd 0x13 ;;
  data_e (DArg k a 0 len).

Definition update_color_frame (k l1 l2 : N) : M unit :=
  update_achromatic_frame k 0 l1 ;;
  update_chromatic_frame k 1 l2.

Definition sleep : M unit :=
  wait_until_idle ;;
  cmd_with_data 0x50 [0x17] ;;
  cmd_with_data 0x82 [0x00] ;;
  cmd_with_data 0x01 [0x02; 0x00; 0x00; 0x00] ;;
  wait_until_idle ;;
  command 0x02.

Definition update_frame (k len : N) : M unit :=
  wait_until_idle ;;
  send_resolution ;;
  cmd 0x10 ;;
  data_each BExp2 2 (DArg k 0 0 len) ;;
  s <- get ;;
  let color := get_byte_value (bg s) in
  let nbits := WIDTH * (HEIGHT / 8) in
  cmd 0x13 ;;
  data_x_times color nbits.

Definition update_partial_frame (k len x y w h : N) : M unit := panic.

Definition display_frame : M unit :=
  wait_until_idle ;;
  command 0x12.

Definition update_and_display_frame (k len : N) : M unit :=
  update_frame k len ;;
  display_frame.

Definition clear_frame : M unit :=
  wait_until_idle ;;
  send_resolution ;;
  let color := get_byte_value DEFAULT_BACKGROUND_COLOR in
  cmd 0x10 ;;
  data_x_times color (2 * (WIDTH / 8 * HEIGHT)) ;;
  cmd 0x13 ;;
  data_x_times color (WIDTH / 8 * HEIGHT).

Definition exec (k : N) (o : op) : option (M rval) :=
  match o with
  | OSleep => unit_ sleep
  | OWakeUp => unit_ init
  | OSetBg c => unit_ (modify (set_bg c))
  | OGetBg => Some (s <- get ;; ret (RColor (bg s)))
  | OWidth => Some (ret (RNum WIDTH))
  | OHeight => Some (ret (RNum HEIGHT))
  | OUpdateFrame len => unit_ (update_frame k len)
  | OUpdatePartial len x y w h => unit_ (update_partial_frame k len x y w h)
  | ODisplay => unit_ display_frame
  | OUpdateAndDisplay len => unit_ (update_and_display_frame k len)
  | OClear => unit_ clear_frame
  | OSetLut r => unit_ (set_lut r)
  | OWaitIdle => unit_ wait_until_idle
  | OUpdateColor l1 l2 => unit_ (update_color_frame k l1 l2)
  | OUpdateAchromatic len => unit_ (update_achromatic_frame k 0 len)
  | OUpdateChromatic len => unit_ (update_chromatic_frame k 0 len)
  | _ => None
  end.

Definition drv (ft : feat) : driver :=
  mkDriver WIDTH HEIGHT true (mkD DEFAULT_BACKGROUND_COLOR 0 false false 0 None) init exec.
End Epd1in54b.

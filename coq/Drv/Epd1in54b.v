(** Model of src/epd1in54b/mod.rs — STUB, not yet transcribed. *)
From Coq Require Import List NArith Bool.
From EPD Require Import Iface Ops Drv.Luts.
Import ListNotations.
Open Scope N_scope.
Open Scope m_scope.

Module Epd1in54b.
Definition WIDTH : N := 200.
Definition HEIGHT : N := 200.

Definition init : M unit := ret tt.

Definition exec (k : N) (o : op) : option (M rval) := None.

Definition drv (ft : feat) : driver :=
  mkDriver WIDTH HEIGHT true d0 init exec.
End Epd1in54b.

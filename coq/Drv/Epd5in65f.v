(** Model of src/epd5in65f/mod.rs — STUB, not yet transcribed. *)
From Coq Require Import List NArith Bool.
From EPD Require Import Iface Ops Drv.Luts.
Import ListNotations.
Open Scope N_scope.
Open Scope m_scope.

Module Epd5in65f.
Definition WIDTH : N := 600.
Definition HEIGHT : N := 448.

Definition init : M unit := ret tt.

Definition exec (k : N) (o : op) : option (M rval) := None.

Definition drv (ft : feat) : driver :=
  mkDriver WIDTH HEIGHT true d0 init exec.
End Epd5in65f.

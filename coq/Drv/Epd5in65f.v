(** Model of src/epd5in65f/mod.rs (7-colour ACeP, OctColor). *)
From Coq Require Import List NArith Bool.
From EPD Require Import Iface Ops Drv.Luts.
Import ListNotations.
Open Scope N_scope.
Open Scope m_scope.

Module Epd5in65f.
Definition WIDTH : N := 600.
Definition HEIGHT : N := 448.

(** OctColor::get_nibble = the colour code; OctColor::colors_byte (u8 arithmetic) *)
Definition get_nibble (c : N) : N := c.
Definition colors_byte (a b : N) : N := bor (u8 (shl (get_nibble a) 4)) (get_nibble b).

Definition wait_until_idle : M unit := wait_idle true.
Definition wait_busy_low : M unit := wait_idle false.

(** private helpers [command], [send_data] of the driver *)
Definition command (c : N) : M unit := cmd c.
Definition send_data (l : list N) : M unit := data l.

Definition send_resolution : M unit :=
  let w := WIDTH in
  let h := HEIGHT in
  command 0x61 ;;
  send_data [u8 (shr w 8)] ;;
  send_data [u8 w] ;;
  send_data [u8 (shr h 8)] ;;
  send_data [u8 h].

Definition update_vcom : M unit :=
  s <- get ;;
  let bg_color := u8 (shl (band (get_nibble (bg s)) 7) 5) in
  cmd_with_data 0x50 [bor 0x17 bg_color].

Definition init : M unit :=
  reset 10000 2000 ;;
  cmd_with_data 0x00 [0xEF; 0x08] ;;
  cmd_with_data 0x01 [0x37; 0x00; 0x23; 0x23] ;;
  cmd_with_data 0x03 [0x00] ;;
  cmd_with_data 0x06 [0xC7; 0xC7; 0x1D] ;;
  cmd_with_data 0x30 [0x3C] ;;
  cmd_with_data 0x40 [0x00] ;;
  update_vcom ;;
  cmd_with_data 0x60 [0x22] ;;
  send_resolution ;;
  cmd_with_data 0xE3 [0xAA] ;;
  delay_us 100000 ;;
  update_vcom.

Definition sleep : M unit :=
  cmd_with_data 0x07 [0xA5].

Definition update_frame (k len : N) : M unit :=
  wait_until_idle ;;
  update_vcom ;;
  send_resolution ;;
  cmd_with_data_e 0x10 (DArg k 0 0 len).

Definition update_partial_frame (k len x y w h : N) : M unit := panic.

Definition display_frame : M unit :=
  wait_until_idle ;;
  command 0x04 ;;
  wait_until_idle ;;
  command 0x12 ;;
  wait_until_idle ;;
  command 0x02 ;;
  wait_busy_low.

Definition update_and_display_frame (k len : N) : M unit :=
  update_frame k len ;;
  display_frame.

Definition clear_frame : M unit :=
  s <- get ;;
  let bg_ := colors_byte (bg s) (bg s) in
  wait_until_idle ;;
  update_vcom ;;
  send_resolution ;;
  command 0x10 ;;
  data_x_times bg_ (WIDTH * HEIGHT / 2) ;;
  display_frame.

Definition set_lut (r : option N) : M unit := panic.

Definition exec (k : N) (o : op) : option (M rval) :=
  match o with
  | OSleep => unit_ sleep
  | OWakeUp => unit_ init
  | OSetBg c => unit_ (modify (set_bg c))
  | OGetBg => Some (s <- get ;; ret (RColor (bg s)))
  | OWidth => Some (ret (RNum WIDTH))
  | OHeight => Some (ret (RNum HEIGHT))
  | OUpdateFrame len => unit_ (update_frame k len)
  | OUpdatePartial len x y w h => unit_ (update_partial_frame k len x y w h)
  | ODisplay => unit_ display_frame
  | OUpdateAndDisplay len => unit_ (update_and_display_frame k len)
  | OClear => unit_ clear_frame
  | OSetLut r => unit_ (set_lut r)
  | OWaitIdle => unit_ wait_until_idle
  | _ => None
  end.

Definition drv (ft : feat) : driver :=
  mkDriver WIDTH HEIGHT true (mkD cWhite 0 false false 0 None) init exec.
End Epd5in65f.

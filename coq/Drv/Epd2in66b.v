(** Model of src/epd2in66b/mod.rs (SSD1675B; enum values from src/epd2in66b/command.rs). *)
From Coq Require Import List NArith Bool.
From EPD Require Import Iface Ops Drv.Luts.
Import ListNotations.
Open Scope N_scope.
Open Scope m_scope.

Module Epd2in66b.
Definition WIDTH : N := 152.
Definition HEIGHT : N := 296.

(** ** command.rs: enum discriminants *)
Definition DataEntrySign_IncYIncX : N := 0x3.   (* 0b11 *)
Definition DataEntryRow_XMinor : N := 0x0.      (* 0b000 *)
Definition WriteMode_Normal : N := 0x0.         (* 0b0000 *)
Definition OutputSource_S8ToS167 : N := 0x80.
Definition DeepSleep_SleepLosingRAM : N := 0x3. (* 0b11 *)
Definition PatH_H296 : N := 0x60.               (* 0b110_0000 *)
Definition PatW_W160 : N := 0x5.                (* 0b101 *)
Definition StartWith_Zero : N := 0x00.
Definition StartWith_One : N := 0x80.

(** ** mod.rs: helper functions *)
Definition wait_until_idle : M unit := wait_idle false.

Definition hw_reset : M unit :=
  reset 20000 2000 ;;
  wait_until_idle.

Definition sw_reset : M unit :=
  cmd 0x12 ;;
  wait_until_idle.

Definition data_entry_mode (row sign : N) : M unit :=
  cmd_with_data 0x11 [bor row sign].

Definition set_display_window (xstart ystart xend yend : N) : M unit :=
  cmd_with_data 0x44 [u8 (band (shr xstart 3) 0x1f); u8 (band (shr xend 3) 0x1f)] ;;
  cmd_with_data 0x45 [u8 (band ystart 0xff); u8 (band (shr ystart 8) 0x01);
                      u8 (band yend 0xff); u8 (band (shr yend 8) 0x01)].

Definition update_control1 (red_mode bw_mode source : N) : M unit :=
  cmd_with_data 0x21 [bor (u8 (shl red_mode 4)) bw_mode; source].

Definition set_cursor (x y : N) : M unit :=
  cmd_with_data 0x4e [u8 (band (shr x 3) 0x1f)] ;;
  cmd_with_data 0x4f [u8 (band y 0xff); u8 (band (shr y 8) 0x01)].

Definition black_white_pattern (w h phase : N) : M unit :=
  cmd_with_data 0x47 [bor (bor phase h) w] ;;
  wait_until_idle.

Definition red_pattern (w h phase : N) : M unit :=
  cmd_with_data 0x46 [bor (bor phase h) w] ;;
  wait_until_idle.

(** InternalWiAdditions *)
Definition init : M unit :=
  hw_reset ;;
  sw_reset ;;
  data_entry_mode DataEntryRow_XMinor DataEntrySign_IncYIncX ;;
  set_display_window 0 0 (WIDTH - 1) (HEIGHT - 1) ;;
  update_control1 WriteMode_Normal WriteMode_Normal OutputSource_S8ToS167 ;;
  set_cursor 0 0.

(** WaveshareThreeColorDisplay *)
Definition update_achromatic_frame (black : dexp) : M unit :=
  set_cursor 0 0 ;;
  cmd 0x24 ;;
  data_e black.

Definition update_chromatic_frame (chromatic : dexp) : M unit :=
  set_cursor 0 0 ;;
  cmd 0x26 ;;
  data_e chromatic.

Definition update_color_frame (black chromatic : dexp) : M unit :=
  update_achromatic_frame black ;;
  update_chromatic_frame chromatic.

(** WaveshareDisplay *)
Definition sleep : M unit :=
  cmd_with_data 0x10 [DeepSleep_SleepLosingRAM].

Definition wake_up : M unit := init.

Definition update_frame (k len : N) : M unit :=
  set_cursor 0 0 ;;
  update_achromatic_frame (DArg k 0 0 len) ;;
  red_pattern PatW_W160 PatH_H296 StartWith_Zero.

(** update_achromatic_frame moves the cursor back to (0, 0) after set_cursor x y *)
Definition update_partial_frame (k len x y width height : N) : M unit :=
  xend <- add32 x width ;;
  yend <- add32 y height ;;
  set_display_window x y xend yend ;;
  set_cursor x y ;;
  update_achromatic_frame (DArg k 0 0 len) ;;
  set_display_window 0 0 WIDTH HEIGHT.

Definition display_frame : M unit :=
  cmd 0x20 ;;
  wait_until_idle.

Definition update_and_display_frame (k len : N) : M unit :=
  update_frame k len ;;
  display_frame.

Definition clear_frame : M unit :=
  s <- get ;;
  let '(white, red) :=
    if bg s =? cBlack then (StartWith_Zero, StartWith_Zero)
    else if bg s =? cWhite then (StartWith_One, StartWith_Zero)
    else (StartWith_Zero, StartWith_One) in
  black_white_pattern PatW_W160 PatH_H296 white ;;
  red_pattern PatW_W160 PatH_H296 red.

Definition set_lut : M unit := ret tt.

Definition exec (k : N) (o : op) : option (M rval) :=
  match o with
  | OSleep => unit_ sleep
  | OWakeUp => unit_ wake_up
  | OSetBg c => unit_ (modify (set_bg c))
  | OGetBg => Some (s <- get ;; ret (RColor (bg s)))
  | OWidth => Some (ret (RNum WIDTH))
  | OHeight => Some (ret (RNum HEIGHT))
  | OUpdateFrame len => unit_ (update_frame k len)
  | OUpdatePartial len x y w h => unit_ (update_partial_frame k len x y w h)
  | ODisplay => unit_ display_frame
  | OUpdateAndDisplay len => unit_ (update_and_display_frame k len)
  | OClear => unit_ clear_frame
  | OSetLut _ => unit_ set_lut
  | OWaitIdle => unit_ wait_until_idle
  | OUpdateColor l1 l2 => unit_ (update_color_frame (DArg k 0 0 l1) (DArg k 1 0 l2))
  | OUpdateAchromatic len => unit_ (update_achromatic_frame (DArg k 0 0 len))
  | OUpdateChromatic len => unit_ (update_chromatic_frame (DArg k 0 0 len))
  | _ => None
  end.

Definition drv (ft : feat) : driver :=
  mkDriver WIDTH HEIGHT true (mkD cWhite 0 false false 0 None) init exec.
End Epd2in66b.

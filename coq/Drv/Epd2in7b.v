(** Model of src/epd2in7b/mod.rs — STUB, not yet transcribed. *)
From Coq Require Import List NArith Bool.
From EPD Require Import Iface Ops Drv.Luts.
Import ListNotations.
Open Scope N_scope.
Open Scope m_scope.

Module Epd2in7b.
Definition WIDTH : N := 176.
Definition HEIGHT : N := 264.

Definition init : M unit := ret tt.

Definition exec (k : N) (o : op) : option (M rval) := None.

Definition drv (ft : feat) : driver :=
  mkDriver WIDTH HEIGHT true d0 init exec.
End Epd2in7b.

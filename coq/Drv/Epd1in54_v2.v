(** Model of src/epd1in54_v2/mod.rs (GDEH0154D67, type-A command set). *)
From Coq Require Import List NArith Bool.
From EPD Require Import Iface Ops Drv.Luts.
Import ListNotations.
Open Scope N_scope.
Open Scope m_scope.

Module Epd1in54_v2.
Definition WIDTH : N := 200.
Definition HEIGHT : N := 200.
Definition IS_BUSY_LOW := false.

Definition LUT_FULL_UPDATE := epd1in54_v2_LUT_FULL_UPDATE.
Definition LUT_PARTIAL_UPDATE := epd1in54_v2_LUT_PARTIAL_UPDATE.

(** [&buffer[a..b]] and [buffer[i]] on a table (callers check the length first) *)
Definition slice (l : list N) (a b : nat) : list N := firstn (b - a) (skipn a l).
Definition idx (l : list N) (i : nat) : N := nth i l 0.

Definition wait_until_idle : M unit := wait_idle IS_BUSY_LOW.

Definition set_ram_area (sx sy ex ey : N) : M unit :=
  wait_until_idle ;;
  assert (sx <? ex) ;;
  assert (sy <? ey) ;;
  cmd_with_data 0x44 [u8 (shr sx 3); u8 (shr ex 3)] ;;
  cmd_with_data 0x45 [u8 sy; u8 (shr sy 8); u8 ey; u8 (shr ey 8)].

Definition set_ram_counter (x y : N) : M unit :=
  wait_until_idle ;;
  cmd_with_data 0x4E [u8 (shr x 3)] ;;
  cmd_with_data 0x4F [u8 y; u8 (shr y 8)].

Definition use_full_frame : M unit :=
  set_ram_area 0 0 (WIDTH - 1) (HEIGHT - 1) ;;
  set_ram_counter 0 0.

Definition set_lut_helper (buffer : list N) : M unit :=
  wait_until_idle ;;
  assert (N.of_nat (length buffer) =? 159) ;;
  cmd_with_data 0x32 (slice buffer 0 153) ;;
  cmd_with_data 0x3F [idx buffer 153] ;;
  wait_until_idle ;;
  cmd_with_data 0x03 [idx buffer 154] ;;
  cmd_with_data 0x04 [idx buffer 155; idx buffer 156; idx buffer 157] ;;
  cmd_with_data 0x2C [idx buffer 158].

Definition set_lut (r : option N) : M unit :=
  (match r with Some v => modify (set_refresh v) | None => ret tt end) ;;
  s <- get ;;
  (if refresh s =? 0 then set_lut_helper LUT_FULL_UPDATE else set_lut_helper LUT_PARTIAL_UPDATE) ;;
  s <- get ;;
  when_ (refresh s =? 1)
    (cmd_with_data 0x37 [0x0; 0x0; 0x0; 0x0; 0x0; 0x40; 0x0; 0x0; 0x0; 0x0] ;;
     cmd_with_data 0x3C [0x80] ;;
     cmd_with_data 0x22 [0xc0] ;;
     cmd 0x20 ;;
     cmd 0xFF).

Definition init : M unit :=
  reset 10000 10000 ;;
  wait_until_idle ;;
  cmd 0x12 ;;
  wait_until_idle ;;
  cmd_with_data 0x01 [u8 (HEIGHT - 1); 0x0; 0x00] ;;
  cmd_with_data 0x11 [0x3] ;;
  set_ram_area 0 0 (WIDTH - 1) (HEIGHT - 1) ;;
  cmd_with_data 0x18 [0x80] ;;
  cmd_with_data 0x1A [0xB1; 0x20] ;;
  set_ram_counter 0 0 ;;
  set_lut None ;;
  wait_until_idle.

Definition sleep : M unit :=
  wait_until_idle ;;
  cmd_with_data 0x10 [0x01].

Definition update_frame (k len : N) : M unit :=
  wait_until_idle ;;
  use_full_frame ;;
  cmd_with_data_e 0x24 (DArg k 0 0 len).

Definition update_partial_frame (k len x y w h : N) : M unit :=
  wait_until_idle ;;
  ex <- add32 x w ;;
  ey <- add32 y h ;;
  set_ram_area x y ex ey ;;
  set_ram_counter x y ;;
  cmd_with_data_e 0x24 (DArg k 0 0 len).

Definition display_frame : M unit :=
  wait_until_idle ;;
  s <- get ;;
  (if refresh s =? 0 then cmd_with_data 0x22 [0xC7]
   else if refresh s =? 1 then cmd_with_data 0x22 [0xCF]
   else ret tt) ;;
  cmd 0x20 ;;
  cmd 0xFF.

Definition update_and_display_frame (k len : N) : M unit :=
  update_frame k len ;;
  display_frame.

Definition clear_frame : M unit :=
  wait_until_idle ;;
  use_full_frame ;;
  s <- get ;;
  let color := if bg s =? cWhite then 0xff else 0x00 in
  cmd 0x24 ;;
  data_x_times color (WIDTH / 8 * HEIGHT) ;;
  cmd 0x26 ;;
  data_x_times color (WIDTH / 8 * HEIGHT).

Definition exec (k : N) (o : op) : option (M rval) :=
  match o with
  | OSleep => unit_ sleep
  | OWakeUp => unit_ init
  | OSetBg c => unit_ (modify (set_bg c))
  | OGetBg => Some (s <- get ;; ret (RColor (bg s)))
  | OWidth => Some (ret (RNum WIDTH))
  | OHeight => Some (ret (RNum HEIGHT))
  | OUpdateFrame len => unit_ (update_frame k len)
  | OUpdatePartial len x y w h => unit_ (update_partial_frame k len x y w h)
  | ODisplay => unit_ display_frame
  | OUpdateAndDisplay len => unit_ (update_and_display_frame k len)
  | OClear => unit_ clear_frame
  | OSetLut r => unit_ (set_lut r)
  | OWaitIdle => unit_ wait_until_idle
  | _ => None
  end.

Definition drv (ft : feat) : driver :=
  mkDriver WIDTH HEIGHT true (mkD cWhite 0 false false 0 None) init exec.
End Epd1in54_v2.

(** Model of src/epd1in54c/mod.rs. *)
From Coq Require Import List NArith Bool.
From EPD Require Import Iface Ops Drv.Luts.
Import ListNotations.
Open Scope N_scope.
Open Scope m_scope.

Module Epd1in54c.
Definition WIDTH : N := 152.
Definition HEIGHT : N := 152.
Definition DEFAULT_BACKGROUND_COLOR : N := cWhite.
Definition IS_BUSY_LOW := true.
Definition NUM_DISPLAY_BITS : N := WIDTH / 8 * HEIGHT.

(** Color::get_byte_value *)
Definition get_byte_value (c : N) : N := if c =? cWhite then 0xff else 0x00.

Definition wait_until_idle : M unit := wait_idle IS_BUSY_LOW.

(** the private wrappers of the driver *)
Definition command (c : N) : M unit := cmd c.
Definition send_data (l : list N) : M unit := data l.
Definition cmd_with_data' (c : N) (l : list N) : M unit := cmd_with_data c l.

Definition send_resolution : M unit :=
  let w := WIDTH in
  let h := HEIGHT in
  command 0x61 ;;
  send_data [band (u8 w) 0xF8] ;;
  send_data [u8 (shr w 8)] ;;      (* sic: w, not h *)
  send_data [u8 h].

Definition init : M unit :=
  reset 10000 2000 ;;
  cmd_with_data' 0x06 [0x17; 0x17; 0x17] ;;
  command 0x04 ;;
  delay_us 5000 ;;
  wait_until_idle ;;
  cmd_with_data' 0x00 [0x0f; 0x0d] ;;
  send_resolution ;;
  cmd_with_data' 0x50 [0x77].

(** [black] / [chromatic] is buffer argument [a] of call [k] *)
Definition update_achromatic_frame (k a len : N) : M unit :=
  wait_until_idle ;;
  cmd_with_data_e 0x10 (DArg k a 0 len).

Definition update_chromatic_frame (k a len : N) : M unit :=
  wait_until_idle ;;
  cmd_with_data_e 0x13 (DArg k a 0 len).

Definition update_color_frame (k l1 l2 : N) : M unit :=
  update_achromatic_frame k 0 l1 ;;
  update_chromatic_frame k 1 l2.

Definition sleep : M unit :=
  wait_until_idle ;;
  command 0x02 ;;
  wait_until_idle ;;
  cmd_with_data' 0x07 [0xa5].

Definition update_frame (k len : N) : M unit :=
  update_achromatic_frame k 0 len ;;
  s <- get ;;
  let color := get_byte_value (bg s) in
  command 0x13 ;;
  data_x_times color NUM_DISPLAY_BITS.

Definition update_partial_frame (k len x y w h : N) : M unit := panic.

Definition display_frame : M unit :=
  command 0x12 ;;
  wait_until_idle.

Definition update_and_display_frame (k len : N) : M unit :=
  update_frame k len ;;
  display_frame.

Definition clear_frame : M unit :=
  wait_until_idle ;;
  let color := get_byte_value DEFAULT_BACKGROUND_COLOR in
  command 0x10 ;;
  data_x_times color NUM_DISPLAY_BITS ;;
  command 0x13 ;;
  data_x_times color NUM_DISPLAY_BITS.

Definition set_lut (r : option N) : M unit := ret tt.

Definition exec (k : N) (o : op) : option (M rval) :=
  match o with
  | OSleep => unit_ sleep
  | OWakeUp => unit_ init
  | OSetBg c => unit_ (modify (set_bg c))
  | OGetBg => Some (s <- get ;; ret (RColor (bg s)))
  | OWidth => Some (ret (RNum WIDTH))
  | OHeight => Some (ret (RNum HEIGHT))
  | OUpdateFrame len => unit_ (update_frame k len)
  | OUpdatePartial len x y w h => unit_ (update_partial_frame k len x y w h)
  | ODisplay => unit_ display_frame
  | OUpdateAndDisplay len => unit_ (update_and_display_frame k len)
  | OClear => unit_ clear_frame
  | OSetLut r => unit_ (set_lut r)
  | OWaitIdle => unit_ wait_until_idle
  | OUpdateColor l1 l2 => unit_ (update_color_frame k l1 l2)
  | OUpdateAchromatic len => unit_ (update_achromatic_frame k 0 len)
  | OUpdateChromatic len => unit_ (update_chromatic_frame k 0 len)
  | _ => None
  end.

Definition drv (ft : feat) : driver :=
  mkDriver WIDTH HEIGHT true (mkD DEFAULT_BACKGROUND_COLOR 0 false false 0 None) init exec.
End Epd1in54c.

(** Model of src/epd2in13bc/mod.rs — STUB, not yet transcribed. *)
From Coq Require Import List NArith Bool.
From EPD Require Import Iface Ops Drv.Luts.
Import ListNotations.
Open Scope N_scope.
Open Scope m_scope.

Module Epd2in13bc.
Definition WIDTH : N := 104.
Definition HEIGHT : N := 212.

Definition init : M unit := ret tt.

Definition exec (k : N) (o : op) : option (M rval) := None.

Definition drv (ft : feat) : driver :=
  mkDriver WIDTH HEIGHT true d0 init exec.
End Epd2in13bc.

(** Model of src/epd2in13bc/mod.rs. *)
From Coq Require Import List NArith Bool.
From EPD Require Import Iface Ops Drv.Luts.
Import ListNotations.
Open Scope N_scope.
Open Scope m_scope.

Module Epd2in13bc.
Definition WIDTH : N := 104.
Definition HEIGHT : N := 212.
Definition DEFAULT_BACKGROUND_COLOR : N := cWhite.
Definition NUM_DISPLAY_BITS : N := WIDTH / 8 * HEIGHT.
Definition IS_BUSY_LOW := true.
Definition VCOM_DATA_INTERVAL : N := 0x07.
Definition WHITE_BORDER : N := 0x70.
Definition BLACK_BORDER : N := 0x30.
Definition CHROMATIC_BORDER : N := 0xb0.
Definition FLOATING_BORDER : N := 0xF0.

(** TriColor::get_byte_value *)
Definition get_byte_value (c : N) : N := if c =? cWhite then 0xff else 0x00.

Definition wait_until_idle : M unit := wait_idle IS_BUSY_LOW.

(** the private wrappers of the driver *)
Definition command (c : N) : M unit := cmd c.
Definition send_data (l : list N) : M unit := data l.
Definition cmd_with_data' (c : N) (l : list N) : M unit := cmd_with_data c l.

Definition send_resolution : M unit :=
  let w := WIDTH in
  let h := HEIGHT in
  command 0x61 ;;
  send_data [u8 w] ;;
  send_data [u8 (shr h 8)] ;;
  send_data [u8 h].

Definition init : M unit :=
  reset 10000 10000 ;;
  cmd_with_data 0x06 [0x17; 0x17; 0x17] ;;
  command 0x04 ;;
  delay_us 5000 ;;
  wait_until_idle ;;
  cmd_with_data' 0x00 [0x8F] ;;
  cmd_with_data' 0x50 [bor WHITE_BORDER VCOM_DATA_INTERVAL] ;;
  send_resolution ;;
  cmd_with_data' 0x82 [0x0A] ;;
  wait_until_idle.

(** [black] / [chromatic] is buffer argument [a] of call [k] *)
Definition update_achromatic_frame (k a len : N) : M unit :=
  cmd 0x10 ;;
  data_e (DArg k a 0 len).

Definition update_chromatic_frame (k a len : N) : M unit :=
  cmd 0x13 ;;
  data_e (DArg k a 0 len) ;;
  wait_until_idle.

Definition update_color_frame (k l1 l2 : N) : M unit :=
  update_achromatic_frame k 0 l1 ;;
  update_chromatic_frame k 1 l2.

Definition sleep : M unit :=
  cmd_with_data 0x50 [bor FLOATING_BORDER VCOM_DATA_INTERVAL] ;;
  command 0x02 ;;
  wait_until_idle ;;
  cmd_with_data' 0x07 [0xA5].

Definition update_frame (k len : N) : M unit :=
  cmd 0x10 ;;
  data_e (DArg k 0 0 len) ;;
  s <- get ;;
  let color := get_byte_value (bg s) in
  cmd 0x13 ;;
  data_x_times color NUM_DISPLAY_BITS ;;
  wait_until_idle.

(** body is just [Ok(())] *)
Definition update_partial_frame (k len x y w h : N) : M unit := ret tt.

Definition display_frame : M unit :=
  command 0x12 ;;
  wait_until_idle.

Definition update_and_display_frame (k len : N) : M unit :=
  update_frame k len ;;
  display_frame.

Definition clear_frame : M unit :=
  send_resolution ;;
  let color := get_byte_value DEFAULT_BACKGROUND_COLOR in
  cmd 0x10 ;;
  data_x_times color NUM_DISPLAY_BITS ;;
  cmd 0x13 ;;
  data_x_times color NUM_DISPLAY_BITS ;;
  wait_until_idle.

Definition set_lut (r : option N) : M unit := ret tt.

Definition set_border_color (color : N) : M unit :=
  let border := if color =? cBlack then BLACK_BORDER
                else if color =? cWhite then WHITE_BORDER
                else CHROMATIC_BORDER in
  cmd_with_data' 0x50 [bor border VCOM_DATA_INTERVAL].

Definition exec (k : N) (o : op) : option (M rval) :=
  match o with
  | OSleep => unit_ sleep
  | OWakeUp => unit_ init
  | OSetBg c => unit_ (modify (set_bg c))
  | OGetBg => Some (s <- get ;; ret (RColor (bg s)))
  | OWidth => Some (ret (RNum WIDTH))
  | OHeight => Some (ret (RNum HEIGHT))
  | OUpdateFrame len => unit_ (update_frame k len)
  | OUpdatePartial len x y w h => unit_ (update_partial_frame k len x y w h)
  | ODisplay => unit_ display_frame
  | OUpdateAndDisplay len => unit_ (update_and_display_frame k len)
  | OClear => unit_ clear_frame
  | OSetLut r => unit_ (set_lut r)
  | OWaitIdle => unit_ wait_until_idle
  | OUpdateColor l1 l2 => unit_ (update_color_frame k l1 l2)
  | OUpdateAchromatic len => unit_ (update_achromatic_frame k 0 len)
  | OUpdateChromatic len => unit_ (update_chromatic_frame k 0 len)
  | OSetBorder c => unit_ (set_border_color c)
  | _ => None
  end.

Definition drv (ft : feat) : driver :=
  mkDriver WIDTH HEIGHT true (mkD DEFAULT_BACKGROUND_COLOR 0 false false 0 None) init exec.
End Epd2in13bc.

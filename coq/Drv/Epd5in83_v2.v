(** Model of src/epd5in83_v2/mod.rs. *)
From Coq Require Import List NArith Bool.
From EPD Require Import Iface Ops Drv.Luts.
Import ListNotations.
Open Scope N_scope.
Open Scope m_scope.

Module Epd5in83_v2.
Definition WIDTH : N := 648.
Definition HEIGHT : N := 480.
Definition IS_BUSY_LOW := true.
Definition NUM_DISPLAY_BITS : N := WIDTH * HEIGHT / 8.

(** Color::get_byte_value *)
Definition get_byte_value (c : N) : N := if c =? cWhite then 0xff else 0x00.

Definition wait_until_idle : M unit := wait_idle IS_BUSY_LOW.

(** private helpers [command], [send_data] of the driver *)
Definition command (c : N) : M unit := cmd c.
Definition send_data (l : list N) : M unit := data l.

Definition send_resolution : M unit :=
  let w := WIDTH in
  let h := HEIGHT in
  command 0x61 ;;
  send_data [u8 (shr w 8)] ;;
  send_data [u8 w] ;;
  send_data [u8 (shr h 8)] ;;
  send_data [u8 h].

Definition init : M unit :=
  reset 2000 50 ;;
  cmd_with_data 0x01 [0x07; 0x07; 0x3F; 0x3F] ;;
  command 0x04 ;;
  delay_us 5000 ;;
  wait_until_idle ;;
  cmd_with_data 0x00 [0x1F] ;;
  send_resolution ;;
  cmd_with_data 0x15 [0x00] ;;
  cmd_with_data 0x50 [0x10; 0x07] ;;
  cmd_with_data 0x60 [0x22] ;;
  wait_until_idle.

Definition sleep : M unit :=
  wait_until_idle ;;
  command 0x02 ;;
  wait_until_idle ;;
  cmd_with_data 0x07 [0xA5].

Definition update_frame (k len : N) : M unit :=
  wait_until_idle ;;
  s <- get ;;
  let color_value := get_byte_value (bg s) in
  cmd 0x10 ;;
  data_x_times color_value (WIDTH / 8 * HEIGHT) ;;
  cmd_with_data_e 0x13 (DArg k 0 0 len).

Definition update_partial_frame (k len x y w h : N) : M unit := panic.

Definition display_frame : M unit :=
  command 0x12 ;;
  wait_until_idle.

Definition update_and_display_frame (k len : N) : M unit :=
  update_frame k len ;;
  display_frame.

Definition clear_frame : M unit :=
  wait_until_idle ;;
  command 0x10 ;;
  data_x_times 0xFF NUM_DISPLAY_BITS ;;
  command 0x13 ;;
  data_x_times 0x00 NUM_DISPLAY_BITS.

Definition set_lut (r : option N) : M unit := panic.

Definition exec (k : N) (o : op) : option (M rval) :=
  match o with
  | OSleep => unit_ sleep
  | OWakeUp => unit_ init
  | OSetBg c => unit_ (modify (set_bg c))
  | OGetBg => Some (s <- get ;; ret (RColor (bg s)))
  | OWidth => Some (ret (RNum WIDTH))
  | OHeight => Some (ret (RNum HEIGHT))
  | OUpdateFrame len => unit_ (update_frame k len)
  | OUpdatePartial len x y w h => unit_ (update_partial_frame k len x y w h)
  | ODisplay => unit_ display_frame
  | OUpdateAndDisplay len => unit_ (update_and_display_frame k len)
  | OClear => unit_ clear_frame
  | OSetLut r => unit_ (set_lut r)
  | OWaitIdle => unit_ wait_until_idle
  | _ => None
  end.

Definition drv (ft : feat) : driver :=
  mkDriver WIDTH HEIGHT true (mkD cWhite 0 false false 0 None) init exec.
End Epd5in83_v2.

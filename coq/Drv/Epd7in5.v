(** Model of src/epd7in5/mod.rs (7.5 inch v1, 4 bits per pixel on the wire). *)
From Coq Require Import List NArith Bool.
From EPD Require Import Iface Ops Drv.Luts.
Import ListNotations.
Open Scope N_scope.
Open Scope m_scope.

Module Epd7in5.
Definition WIDTH : N := 640.
Definition HEIGHT : N := 384.
Definition IS_BUSY_LOW := true.

Definition wait_until_idle : M unit := wait_idle IS_BUSY_LOW.

Definition send_resolution : M unit :=
  let w := WIDTH in
  let h := HEIGHT in
  cmd 0x61 ;;
  data [u8 (shr w 8)] ;;
  data [u8 w] ;;
  data [u8 (shr h 8)] ;;
  data [u8 h].

Definition init : M unit :=
  reset 10000 10000 ;;
  cmd_with_data 0x01 [0x37; 0x00] ;;
  cmd_with_data 0x00 [0xCF; 0x08] ;;
  cmd_with_data 0x06 [0xC7; 0xCC; 0x28] ;;
  cmd 0x04 ;;
  delay_us 5000 ;;
  wait_until_idle ;;
  cmd_with_data 0x30 [0x3C] ;;
  cmd_with_data 0x41 [0x00] ;;
  cmd_with_data 0x50 [0x77] ;;
  cmd_with_data 0x60 [0x22] ;;
  send_resolution ;;
  cmd_with_data 0x82 [0x1E] ;;
  cmd_with_data 0xE5 [0x03] ;;
  wait_until_idle.

Definition sleep : M unit :=
  wait_until_idle ;;
  cmd 0x02 ;;
  wait_until_idle ;;
  cmd_with_data 0x07 [0xA5].

(** every buffer byte is expanded to four bytes (two pixels each, 0x3 per set bit), each sent
    through its own [data(&[data])] call *)
Definition update_frame (k len : N) : M unit :=
  wait_until_idle ;;
  cmd 0x10 ;;
  data_each BExp4 1 (DArg k 0 0 len).

Definition update_partial_frame (k len x y width height : N) : M unit := panic.

Definition display_frame : M unit :=
  wait_until_idle ;;
  cmd 0x12.

Definition update_and_display_frame (k len : N) : M unit :=
  update_frame k len ;;
  cmd 0x12.

Definition clear_frame : M unit :=
  wait_until_idle ;;
  send_resolution ;;
  cmd 0x10 ;;
  data_x_times 0x33 (WIDTH / 8 * HEIGHT * 4).

Definition set_lut (r : option N) : M unit := panic.

Definition exec (k : N) (o : op) : option (M rval) :=
  match o with
  | OSleep => unit_ sleep
  | OWakeUp => unit_ init
  | OSetBg c => unit_ (modify (set_bg c))
  | OGetBg => Some (s <- get ;; ret (RColor (bg s)))
  | OWidth => Some (ret (RNum WIDTH))
  | OHeight => Some (ret (RNum HEIGHT))
  | OUpdateFrame len => unit_ (update_frame k len)
  | OUpdatePartial len x y w h => unit_ (update_partial_frame k len x y w h)
  | ODisplay => unit_ display_frame
  | OUpdateAndDisplay len => unit_ (update_and_display_frame k len)
  | OClear => unit_ clear_frame
  | OSetLut r => unit_ (set_lut r)
  | OWaitIdle => unit_ wait_until_idle
  | _ => None
  end.

Definition drv (ft : feat) : driver :=
  mkDriver WIDTH HEIGHT false (mkD cWhite 0 false false 0 None) init exec.
End Epd7in5.

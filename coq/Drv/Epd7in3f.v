(** Model of src/epd7in3f/mod.rs (7-colour ACeP, OctColor). *)
From Coq Require Import List NArith Bool.
From EPD Require Import Iface Ops Drv.Luts.
Import ListNotations.
Open Scope N_scope.
Open Scope m_scope.

Module Epd7in3f.
Definition WIDTH : N := 800.
Definition HEIGHT : N := 480.

(** OctColor::get_nibble = the colour code; OctColor::colors_byte (u8 arithmetic) *)
Definition get_nibble (c : N) : N := c.
Definition colors_byte (a b : N) : N := bor (u8 (shl (get_nibble a) 4)) (get_nibble b).

(** OctColor codes used by show_7block *)
Definition oBlack : N := 0.
Definition oWhite : N := 1.
Definition oGreen : N := 2.
Definition oBlue : N := 3.
Definition oRed : N := 4.
Definition oYellow : N := 5.
Definition oOrange : N := 6.

(** private helpers [command], [wait_busy_low] of the driver *)
Definition command (c : N) : M unit := cmd c.
Definition wait_busy_low : M unit := wait_idle true.

Definition wait_until_idle : M unit := wait_busy_low.

Definition init : M unit :=
  reset 20000 2000 ;;
  wait_busy_low ;;
  delay_ms 30 ;;
  cmd_with_data 0xAA [0x49; 0x55; 0x20; 0x08; 0x09; 0x18] ;;
  cmd_with_data 0x01 [0x3F; 0x00; 0x32; 0x2A; 0x0E; 0x2A] ;;
  cmd_with_data 0x00 [0x5F; 0x69] ;;
  cmd_with_data 0x03 [0x00; 0x54; 0x00; 0x44] ;;
  cmd_with_data 0x05 [0x40; 0x1F; 0x1F; 0x2C] ;;
  cmd_with_data 0x06 [0x6F; 0x1F; 0x1F; 0x22] ;;
  cmd_with_data 0x08 [0x6F; 0x1F; 0x1F; 0x22] ;;
  cmd_with_data 0x13 [0x00; 0x04] ;;
  cmd_with_data 0x30 [0x3C] ;;
  cmd_with_data 0x41 [0x00] ;;
  cmd_with_data 0x50 [0x3F] ;;
  cmd_with_data 0x60 [0x02; 0x00] ;;
  cmd_with_data 0x61 [0x03; 0x20; 0x01; 0xE0] ;;
  cmd_with_data 0x82 [0x1E] ;;
  cmd_with_data 0x84 [0x00] ;;
  cmd_with_data 0x86 [0x00] ;;
  cmd_with_data 0xE3 [0x2F] ;;
  cmd_with_data 0xE0 [0x00] ;;
  cmd_with_data 0xE6 [0x00].

Definition sleep : M unit :=
  cmd_with_data 0x07 [0xA5].

Definition update_frame (k len : N) : M unit :=
  wait_until_idle ;;
  cmd_with_data_e 0x10 (DArg k 0 0 len).

Definition update_partial_frame (k len x y w h : N) : M unit := panic.

Definition display_frame : M unit :=
  command 0x04 ;;
  wait_busy_low ;;
  cmd_with_data 0x12 [0x00] ;;
  wait_busy_low ;;
  cmd_with_data 0x02 [0x00] ;;
  wait_busy_low.

Definition update_and_display_frame (k len : N) : M unit :=
  update_frame k len ;;
  display_frame.

Definition clear_frame : M unit :=
  s <- get ;;
  let bg_ := colors_byte (bg s) (bg s) in
  wait_busy_low ;;
  command 0x10 ;;
  data_x_times bg_ (WIDTH * HEIGHT / 2) ;;
  display_frame.

Definition set_lut (r : option N) : M unit := panic.

Definition show_7block : M unit :=
  let color_7 := [oBlack; oWhite; oGreen; oBlue; oRed; oYellow; oOrange; oWhite] in
  command 0x10 ;;
  repeatM 240
    (forM (firstn 4 color_7) (fun color =>
       data_each BId 1 (DRep (colors_byte color color) 100))) ;;
  repeatM 240
    (forM (skipn 4 color_7) (fun color =>
       data_each BId 1 (DRep (colors_byte color color) 100))) ;;
  display_frame.

Definition exec (k : N) (o : op) : option (M rval) :=
  match o with
  | OSleep => unit_ sleep
  | OWakeUp => unit_ init
  | OSetBg c => unit_ (modify (set_bg c))
  | OGetBg => Some (s <- get ;; ret (RColor (bg s)))
  | OWidth => Some (ret (RNum WIDTH))
  | OHeight => Some (ret (RNum HEIGHT))
  | OUpdateFrame len => unit_ (update_frame k len)
  | OUpdatePartial len x y w h => unit_ (update_partial_frame k len x y w h)
  | ODisplay => unit_ display_frame
  | OUpdateAndDisplay len => unit_ (update_and_display_frame k len)
  | OClear => unit_ clear_frame
  | OSetLut r => unit_ (set_lut r)
  | OWaitIdle => unit_ wait_until_idle
  | OShow7Block => unit_ show_7block
  | _ => None
  end.

Definition drv (ft : feat) : driver :=
  mkDriver WIDTH HEIGHT true (mkD cWhite 0 false false 0 None) init exec.
End Epd7in3f.

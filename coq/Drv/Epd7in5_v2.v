(** Model of src/epd7in5_v2/mod.rs (7.5 inch v2/v3, black and white). *)
From Coq Require Import List NArith Bool.
From EPD Require Import Iface Ops Drv.Luts.
Import ListNotations.
Open Scope N_scope.
Open Scope m_scope.

Module Epd7in5_v2.
Definition WIDTH : N := 800.
Definition HEIGHT : N := 480.
Definition IS_BUSY_LOW := true.

(** interface.wait_until_idle_with_cmd(spi, delay, IS_BUSY_LOW, Command::GetStatus) *)
Definition wait_until_idle : M unit := wait_idle_cmd IS_BUSY_LOW 0x71.

Definition send_resolution : M unit :=
  let w := WIDTH in
  let h := HEIGHT in
  cmd 0x61 ;;
  data [u8 (shr w 8)] ;;
  data [u8 w] ;;
  data [u8 (shr h 8)] ;;
  data [u8 h].

Definition init : M unit :=
  reset 10000 2000 ;;
  cmd_with_data 0x01 [0x07; 0x07; 0x3f; 0x3f] ;;
  cmd_with_data 0x06 [0x17; 0x17; 0x28; 0x17] ;;
  cmd 0x04 ;;
  delay_ms 100 ;;
  wait_until_idle ;;
  cmd_with_data 0x00 [0x1F] ;;
  cmd_with_data 0x61 [0x03; 0x20; 0x01; 0xE0] ;;
  cmd_with_data 0x15 [0x00] ;;
  cmd_with_data 0x50 [0x10; 0x07] ;;
  cmd_with_data 0x60 [0x22].

Definition sleep : M unit :=
  wait_until_idle ;;
  cmd 0x02 ;;
  wait_until_idle ;;
  cmd_with_data 0x07 [0xA5].

Definition update_frame (k len : N) : M unit :=
  wait_until_idle ;;
  cmd_with_data_e 0x13 (DArg k 0 0 len).

Definition update_partial_frame (k len x y width height : N) : M unit := panic.

Definition display_frame : M unit :=
  wait_until_idle ;;
  cmd 0x12.

Definition update_and_display_frame (k len : N) : M unit :=
  update_frame k len ;;
  cmd 0x12.

Definition clear_frame : M unit :=
  wait_until_idle ;;
  send_resolution ;;
  cmd 0x10 ;;
  data_x_times 0x00 (WIDTH / 8 * HEIGHT) ;;
  cmd 0x13 ;;
  data_x_times 0x00 (WIDTH / 8 * HEIGHT) ;;
  cmd 0x12.

Definition set_lut (r : option N) : M unit := panic.

Definition exec (k : N) (o : op) : option (M rval) :=
  match o with
  | OSleep => unit_ sleep
  | OWakeUp => unit_ init
  | OSetBg c => unit_ (modify (set_bg c))
  | OGetBg => Some (s <- get ;; ret (RColor (bg s)))
  | OWidth => Some (ret (RNum WIDTH))
  | OHeight => Some (ret (RNum HEIGHT))
  | OUpdateFrame len => unit_ (update_frame k len)
  | OUpdatePartial len x y w h => unit_ (update_partial_frame k len x y w h)
  | ODisplay => unit_ display_frame
  | OUpdateAndDisplay len => unit_ (update_and_display_frame k len)
  | OClear => unit_ clear_frame
  | OSetLut r => unit_ (set_lut r)
  | OWaitIdle => unit_ wait_until_idle
  | _ => None
  end.

Definition drv (ft : feat) : driver :=
  mkDriver WIDTH HEIGHT false (mkD cWhite 0 false false 0 None) init exec.
End Epd7in5_v2.

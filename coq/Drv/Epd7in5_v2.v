(** Model of src/epd7in5_v2/mod.rs — STUB, not yet transcribed. *)
From Coq Require Import List NArith Bool.
From EPD Require Import Iface Ops Drv.Luts.
Import ListNotations.
Open Scope N_scope.
Open Scope m_scope.

Module Epd7in5_v2.
Definition WIDTH : N := 800.
Definition HEIGHT : N := 480.

Definition init : M unit := ret tt.

Definition exec (k : N) (o : op) : option (M rval) := None.

Definition drv (ft : feat) : driver :=
  mkDriver WIDTH HEIGHT false d0 init exec.
End Epd7in5_v2.

(** Model of src/epd2in7/mod.rs. *)
From Coq Require Import List NArith Bool.
From EPD Require Import Iface Ops Drv.Luts.
Import ListNotations.
Open Scope N_scope.
Open Scope m_scope.

Module Epd2in7.
Definition WIDTH : N := 176.
Definition HEIGHT : N := 264.
Definition IS_BUSY_LOW := true.

(** Color::get_byte_value *)
Definition get_byte_value (c : N) : N := if c =? cWhite then 0xff else 0x00.

Definition wait_until_idle : M unit := wait_idle IS_BUSY_LOW.

(** private helpers [command], [send_data], [cmd_with_data] of the driver *)
Definition command (c : N) : M unit := cmd c.
Definition send_data (l : list N) : M unit := data l.
Definition send_data_e (e : dexp) : M unit := data_e e.

Definition set_lut (r : option N) : M unit :=
  wait_until_idle ;;
  cmd_with_data 0x20 epd2in7_LUT_VCOM_DC ;;
  cmd_with_data 0x21 epd2in7_LUT_WW ;;
  cmd_with_data 0x22 epd2in7_LUT_BW ;;
  cmd_with_data 0x23 epd2in7_LUT_WB ;;
  cmd_with_data 0x24 epd2in7_LUT_BB.

Definition init : M unit :=
  reset 10000 2000 ;;
  cmd_with_data 0x01 [0x03; 0x00; 0x2b; 0x2b; 0x09] ;;
  cmd_with_data 0x06 [0x07; 0x07; 0x17] ;;
  cmd_with_data 0xf8 [0x60; 0xa5] ;;
  cmd_with_data 0xf8 [0x89; 0xa5] ;;
  cmd_with_data 0xf8 [0x90; 0x00] ;;
  cmd_with_data 0xf8 [0x93; 0x2a] ;;
  cmd_with_data 0xf8 [0xa0; 0xa5] ;;
  cmd_with_data 0xf8 [0xa1; 0x00] ;;
  cmd_with_data 0xf8 [0x73; 0x41] ;;
  cmd_with_data 0x16 [0x00] ;;
  command 0x04 ;;
  delay_us 5000 ;;
  wait_until_idle ;;
  cmd_with_data 0x00 [0xaf] ;;
  cmd_with_data 0x30 [0x3a] ;;
  cmd_with_data 0x50 [0x57] ;;
  cmd_with_data 0x82 [0x12] ;;
  set_lut None ;;
  wait_until_idle.

Definition sleep : M unit :=
  wait_until_idle ;;
  cmd_with_data 0x50 [0xf7] ;;
  command 0x02 ;;
  wait_until_idle ;;
  cmd_with_data 0x07 [0xA5].

Definition update_frame (k len : N) : M unit :=
  cmd 0x10 ;;
  s <- get ;;
  data_x_times (get_byte_value (bg s)) (WIDTH * HEIGHT / 8) ;;
  cmd 0x13 ;;
  send_data_e (DArg k 0 0 len).

Definition update_partial_frame (k len x y width height : N) : M unit :=
  cmd 0x14 ;;
  send_data [u8 (shr x 8)] ;;
  send_data [u8 (band x 0xf8)] ;;
  send_data [u8 (shr y 8)] ;;
  send_data [u8 (band y 0xff)] ;;
  send_data [u8 (shr width 8)] ;;
  send_data [u8 (band width 0xf8)] ;;
  send_data [u8 (shr height 8)] ;;
  send_data [u8 (band height 0xff)] ;;
  wait_until_idle ;;
  send_data_e (DArg k 0 0 len).

Definition display_frame : M unit :=
  command 0x12 ;;
  wait_until_idle.

Definition update_and_display_frame (k len : N) : M unit :=
  update_frame k len ;;
  command 0x12.

Definition clear_frame : M unit :=
  wait_until_idle ;;
  s <- get ;;
  let color_value := get_byte_value (bg s) in
  cmd 0x10 ;;
  data_x_times color_value (WIDTH * HEIGHT / 8) ;;
  cmd 0x13 ;;
  data_x_times color_value (WIDTH * HEIGHT / 8).

Definition exec (k : N) (o : op) : option (M rval) :=
  match o with
  | OSleep => unit_ sleep
  | OWakeUp => unit_ init
  | OSetBg c => unit_ (modify (set_bg c))
  | OGetBg => Some (s <- get ;; ret (RColor (bg s)))
  | OWidth => Some (ret (RNum WIDTH))
  | OHeight => Some (ret (RNum HEIGHT))
  | OUpdateFrame len => unit_ (update_frame k len)
  | OUpdatePartial len x y w h => unit_ (update_partial_frame k len x y w h)
  | ODisplay => unit_ display_frame
  | OUpdateAndDisplay len => unit_ (update_and_display_frame k len)
  | OClear => unit_ clear_frame
  | OSetLut r => unit_ (set_lut r)
  | OWaitIdle => unit_ wait_until_idle
  | _ => None
  end.

Definition drv (ft : feat) : driver :=
  mkDriver WIDTH HEIGHT true (mkD cWhite 0 false false 0 None) init exec.
End Epd2in7.

(** Model of src/epd2in9/mod.rs (type A, IL3820-style). *)
From Coq Require Import List NArith Bool.
From EPD Require Import Iface Ops Drv.Luts.
Import ListNotations.
Open Scope N_scope.
Open Scope m_scope.

Module Epd2in9.
Definition WIDTH : N := 128.
Definition HEIGHT : N := 296.
Definition IS_BUSY_LOW := false.

Section F.
Variable ft : feat.

(* src/type_a/constants.rs: LUT_FULL_UPDATE depends on type_a_alternative_faster_lut *)
Definition LUT_FULL_UPDATE := if f_alt ft then type_a_LUT_FULL_UPDATE_alt else type_a_LUT_FULL_UPDATE.
Definition LUT_PARTIAL_UPDATE := type_a_LUT_PARTIAL_UPDATE.

Definition wait_until_idle : M unit := wait_idle IS_BUSY_LOW.

Definition set_lut_helper (buffer : list N) : M unit :=
  wait_until_idle ;;
  assert (N.of_nat (length buffer) =? 30) ;;
  cmd_with_data 0x32 buffer.

Definition set_lut (r : option N) : M unit :=
  (match r with Some v => modify (set_refresh v) | None => ret tt end) ;;
  s <- get ;;
  if refresh s =? 0 then set_lut_helper LUT_FULL_UPDATE else set_lut_helper LUT_PARTIAL_UPDATE.

Definition init : M unit :=
  reset 10000 10000 ;;
  wait_until_idle ;;
  cmd_with_data 0x01 [0x27; 0x01; 0x00] ;;
  cmd_with_data 0x0C [0xD7; 0xD6; 0x9D] ;;
  cmd_with_data 0x2C [0xA8] ;;
  cmd_with_data 0x3A [0x1A] ;;
  cmd_with_data 0x3B [0x08] ;;
  cmd_with_data 0x11 [0x03] ;;
  set_lut None.

Definition set_ram_area (sx sy ex ey : N) : M unit :=
  assert (sx <? ex) ;;
  assert (sy <? ey) ;;
  cmd_with_data 0x44 [u8 (shr sx 3); u8 (shr ex 3)] ;;
  cmd_with_data 0x45 [u8 sy; u8 (shr sy 8); u8 ey; u8 (shr ey 8)].

Definition set_ram_counter (x y : N) : M unit :=
  wait_until_idle ;;
  cmd_with_data 0x4E [u8 (shr x 3)] ;;
  cmd_with_data 0x4F [u8 y; u8 (shr y 8)].

Definition use_full_frame : M unit :=
  set_ram_area 0 0 (WIDTH - 1) (HEIGHT - 1) ;;
  set_ram_counter 0 0.

Definition sleep : M unit :=
  wait_until_idle ;;
  cmd_with_data 0x10 [0x00].

Definition wake_up : M unit :=
  wait_until_idle ;;
  init.

Definition update_frame (k len : N) : M unit :=
  wait_until_idle ;;
  use_full_frame ;;
  cmd_with_data_e 0x24 (DArg k 0 0 len).

Definition update_partial_frame (k len x y w h : N) : M unit :=
  wait_until_idle ;;
  ex <- add32 x w ;;
  ey <- add32 y h ;;
  set_ram_area x y ex ey ;;
  set_ram_counter x y ;;
  cmd_with_data_e 0x24 (DArg k 0 0 len).

Definition display_frame : M unit :=
  wait_until_idle ;;
  cmd_with_data 0x22 [0xC4] ;;
  cmd 0x20 ;;
  cmd 0xFF.

Definition update_and_display_frame (k len : N) : M unit :=
  update_frame k len ;;
  display_frame.

Definition clear_frame : M unit :=
  wait_until_idle ;;
  use_full_frame ;;
  s <- get ;;
  let color := if bg s =? cWhite then 0xff else 0x00 in
  cmd 0x24 ;;
  data_x_times color (WIDTH / 8 * HEIGHT).

Definition exec (k : N) (o : op) : option (M rval) :=
  match o with
  | OSleep => unit_ sleep
  | OWakeUp => unit_ wake_up
  | OSetBg c => unit_ (modify (set_bg c))
  | OGetBg => Some (s <- get ;; ret (RColor (bg s)))
  | OWidth => Some (ret (RNum WIDTH))
  | OHeight => Some (ret (RNum HEIGHT))
  | OUpdateFrame len => unit_ (update_frame k len)
  | OUpdatePartial len x y w h => unit_ (update_partial_frame k len x y w h)
  | ODisplay => unit_ display_frame
  | OUpdateAndDisplay len => unit_ (update_and_display_frame k len)
  | OClear => unit_ clear_frame
  | OSetLut r => unit_ (set_lut r)
  | OWaitIdle => unit_ wait_until_idle
  | _ => None
  end.

Definition drv : driver :=
  mkDriver WIDTH HEIGHT true (mkD cWhite 0 false false 0 None) init exec.
End F.
End Epd2in9.

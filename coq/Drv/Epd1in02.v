(** Model of src/epd1in02/mod.rs (UC8175, QuickRefresh).
    Fields: is_turned_on -> is_on, refresh_mode -> refresh. *)
From Coq Require Import List NArith Bool.
From EPD Require Import Iface Ops Drv.Luts.
Import ListNotations.
Open Scope N_scope.
Open Scope m_scope.

Module Epd1in02.
Definition WIDTH : N := 80.
Definition HEIGHT : N := 128.
Definition IS_BUSY_LOW := true.
Definition NUMBER_OF_BYTES : N := WIDTH * HEIGHT / 8.

(** Color::get_byte_value and u8 [!] *)
Definition get_byte_value (c : N) : N := if c =? cWhite then 0xff else 0x00.
Definition not8 (b : N) : N := 255 - u8 b.

(** crate::buffer_len (usize arithmetic; cannot overflow for u32 inputs on a 64-bit target) *)
Definition buffer_len (w h : N) : N := (w + 7) / 8 * h.

Definition wait_until_idle : M unit := wait_idle IS_BUSY_LOW.

(** thin wrappers of the inherent impl *)
Definition command (c : N) : M unit := cmd c.
Definition send_data (l : list N) : M unit := data l.

Definition send_resolution : M unit :=
  let w := WIDTH in
  let h := HEIGHT in
  command 0x61 ;;
  send_data [u8 h] ;;
  send_data [u8 w].

Definition set_lut (r : option N) : M unit :=
  match r with
  | None => ret tt
  | Some v =>
      let white_lut := if v =? 0 then epd1in02_LUT_FULL_UPDATE_WHITE else epd1in02_LUT_PARTIAL_UPDATE_WHITE in
      let black_lut := if v =? 0 then epd1in02_LUT_FULL_UPDATE_BLACK else epd1in02_LUT_PARTIAL_UPDATE_BLACK in
      cmd_with_data 0x23 white_lut ;;
      cmd_with_data 0x24 black_lut
  end.

Definition turn_on_if_turned_off : M unit :=
  s <- get ;;
  when_ (negb (is_on s))
    (command 0x04 ;;
     wait_until_idle ;;
     modify (set_on true)).

Definition turn_off : M unit :=
  command 0x02 ;;
  wait_until_idle ;;
  modify (set_on false).

Definition set_full_mode : M unit :=
  s <- get ;;
  when_ (negb (refresh s =? 0))
    (command 0x92 ;;
     set_lut (Some 0) ;;
     modify (set_refresh 0)).

Definition set_partial_mode : M unit :=
  s <- get ;;
  when_ (negb (refresh s =? 1))
    (command 0x91 ;;
     set_lut (Some 1) ;;
     modify (set_refresh 1)).

(** [x + width <= WIDTH && y + height <= HEIGHT && x % 8 == 0 && width % 8 == 0]: short-circuit,
    checked additions *)
Definition is_window_size_ok (x y w h : N) : M bool :=
  xw <- add32 x w ;;
  if xw <=? WIDTH then
    yh <- add32 y h ;;
    ret ((yh <=? HEIGHT) && (x mod 8 =? 0) && (w mod 8 =? 0))%bool
  else ret false.

Definition is_buffer_size_ok (len w h : N) : bool := buffer_len w h =? len.

Definition set_partial_window (x y w h : N) : M unit :=
  ok <- is_window_size_ok x y w h ;;
  (if ok then ret tt else panic) ;;
  (* the array literal is built before the call *)
  a <- add32 x w ;;
  xe <- sub32 a 1 ;;
  b <- add32 y h ;;
  ye <- sub32 b 1 ;;
  cmd_with_data 0x90 [u8 x; u8 xe; u8 y; u8 ye; 0x00].

Definition init : M unit :=
  reset 20000 2000 ;;
  modify (set_on false) ;;
  modify (set_refresh 0) ;;
  cmd_with_data 0x00 [0x6F] ;;
  cmd_with_data 0x01 [0x03; 0x00; 0x2b; 0x2b] ;;
  cmd_with_data 0x06 [0x3F] ;;
  cmd_with_data 0x2A [0x00; 0x00] ;;
  cmd_with_data 0x30 [0x17] ;;
  s <- get ;;
  let value := if bg s =? cBlack then 0x57 else 0x97 in
  cmd_with_data 0x50 [value] ;;
  cmd_with_data 0x60 [0x22] ;;
  send_resolution ;;
  cmd_with_data 0x82 [0x12] ;;
  cmd_with_data 0xE3 [0x33] ;;
  s <- get ;;
  set_lut (Some (refresh s)) ;;
  wait_until_idle.

Definition sleep : M unit :=
  wait_until_idle ;;
  turn_off ;;
  cmd_with_data 0x07 [0xA5] ;;
  modify (set_refresh 0).

Definition update_frame (k len : N) : M unit :=
  wait_until_idle ;;
  set_full_mode ;;
  s <- get ;;
  let color_value := get_byte_value (bg s) in
  command 0x10 ;;
  data_x_times color_value NUMBER_OF_BYTES ;;
  cmd_with_data_e 0x13 (DArg k 0 0 len).

Definition update_partial_frame : M unit := panic.   (* unimplemented!() *)

Definition display_frame : M unit :=
  wait_until_idle ;;
  turn_on_if_turned_off ;;
  command 0x12 ;;
  wait_until_idle.

Definition update_and_display_frame (k len : N) : M unit :=
  update_frame k len ;;
  display_frame.

Definition clear_frame : M unit :=
  wait_until_idle ;;
  set_full_mode ;;
  s <- get ;;
  let color_value := get_byte_value (bg s) in
  command 0x10 ;;
  data_x_times (not8 color_value) NUMBER_OF_BYTES ;;
  command 0x13 ;;
  data_x_times color_value NUMBER_OF_BYTES.

(** QuickRefresh *)
Definition update_old_frame (k len : N) : M unit :=
  set_partial_mode ;;
  set_partial_window 0 0 WIDTH HEIGHT ;;
  cmd_with_data_e 0x10 (DArg k 0 0 len).

Definition update_new_frame (k len : N) : M unit :=
  cmd_with_data_e 0x13 (DArg k 0 0 len).

Definition display_new_frame : M unit := panic.              (* unimplemented!() *)
Definition update_and_display_new_frame : M unit := panic.   (* unimplemented!() *)

Definition update_partial_old_frame (k len x y w h : N) : M unit :=
  (if is_buffer_size_ok len w h then ret tt else panic) ;;
  set_partial_mode ;;
  set_partial_window x y w h ;;
  cmd_with_data_e 0x10 (DArg k 0 0 len).

Definition update_partial_new_frame (k len x y w h : N) : M unit :=
  (if is_buffer_size_ok len w h then ret tt else panic) ;;
  cmd_with_data_e 0x13 (DArg k 0 0 len).

Definition clear_partial_frame (x y w h : N) : M unit :=
  wait_until_idle ;;
  set_full_mode ;;
  command 0x91 ;;
  set_partial_window x y w h ;;
  s <- get ;;
  let color_value := get_byte_value (bg s) in
  let number_of_bytes := buffer_len w h mod u32max in   (* as u32 *)
  command 0x10 ;;
  data_x_times (not8 color_value) number_of_bytes ;;
  command 0x13 ;;
  data_x_times color_value number_of_bytes ;;
  command 0x92.

Definition exec (k : N) (o : op) : option (M rval) :=
  match o with
  | OSleep => unit_ sleep
  | OWakeUp => unit_ init
  | OSetBg c => unit_ (modify (set_bg c))
  | OGetBg => Some (s <- get ;; ret (RColor (bg s)))
  | OWidth => Some (ret (RNum WIDTH))
  | OHeight => Some (ret (RNum HEIGHT))
  | OUpdateFrame len => unit_ (update_frame k len)
  | OUpdatePartial len x y w h => unit_ update_partial_frame
  | ODisplay => unit_ display_frame
  | OUpdateAndDisplay len => unit_ (update_and_display_frame k len)
  | OClear => unit_ clear_frame
  | OSetLut r => unit_ (set_lut r)
  | OWaitIdle => unit_ wait_until_idle
  | OUpdateOld len => unit_ (update_old_frame k len)
  | OUpdateNew len => unit_ (update_new_frame k len)
  | ODisplayNew => unit_ display_new_frame
  | OUpdateAndDisplayNew len => unit_ update_and_display_new_frame
  | OUpdatePartialOld len x y w h => unit_ (update_partial_old_frame k len x y w h)
  | OUpdatePartialNew len x y w h => unit_ (update_partial_new_frame k len x y w h)
  | OClearPartial x y w h => unit_ (clear_partial_frame x y w h)
  | _ => None
  end.

Definition drv (ft : feat) : driver :=
  mkDriver WIDTH HEIGHT true (mkD cWhite 0 false false 0 None) init exec.
End Epd1in02.

(** Model of src/epd2in9b_v4/mod.rs (opcodes from src/epd2in9b_v4/command.rs). *)
From Coq Require Import List NArith Bool.
From EPD Require Import Iface Ops Drv.Luts.
Import ListNotations.
Open Scope N_scope.
Open Scope m_scope.

Module Epd2in9b_v4.
Definition WIDTH : N := 128.
Definition HEIGHT : N := 296.
Definition IS_BUSY_LOW := false.

(** enum DisplayMode *)
Inductive DisplayMode := Default | Partial | Fast | Base.

Definition width : N := WIDTH.
Definition height : N := HEIGHT.

Definition wait_until_idle : M unit := wait_idle IS_BUSY_LOW.

Definition command (c : N) : M unit := cmd c.

Definition send_data (l : list N) : M unit := data l.
Definition send_data_e (e : dexp) : M unit := data_e e.    (* send_data on a caller buffer *)

Definition turn_on_display (mode : DisplayMode) : M unit :=
  command 0x22 ;;
  let data := match mode with
              | Default => 0xf7
              | Partial => 0x1c
              | Fast => 0xc7
              | Base => 0xf4
              end in
  send_data [data] ;;
  command 0x20 ;;
  wait_until_idle.

(** InternalWiAdditions *)
Definition init : M unit :=
  let w := width in
  let h := height in
  reset 200000 2000 ;;
  wait_until_idle ;;
  command 0x12 ;;
  wait_until_idle ;;
  command 0x01 ;;
  send_data [u8 ((h - 1) mod 256)] ;;
  send_data [u8 ((h - 1) / 256)] ;;
  send_data [0] ;;
  command 0x11 ;;
  send_data [0x03] ;;
  command 0x44 ;;
  send_data [0] ;;
  send_data [u8 (w / 8 - 1)] ;;
  command 0x45 ;;
  send_data [0] ;;
  send_data [0] ;;
  send_data [u8 ((h - 1) mod 256)] ;;
  send_data [u8 ((h - 1) / 256)] ;;
  command 0x3c ;;
  send_data [0x05] ;;
  command 0x21 ;;
  send_data [0x00] ;;
  send_data [0x80] ;;
  command 0x18 ;;
  send_data [0x80] ;;
  command 0x4e ;;
  send_data [0x00] ;;
  command 0x4f ;;
  send_data [0x00] ;;
  send_data [0x00] ;;
  wait_until_idle.

(** WaveshareThreeColorDisplay *)
Definition update_achromatic_frame (black : dexp) : M unit :=
  command 0x24 ;;
  send_data_e black.

Definition update_chromatic_frame (chromatic : dexp) : M unit :=
  command 0x26 ;;
  send_data_e chromatic.

Definition update_color_frame (black chromatic : dexp) : M unit :=
  update_achromatic_frame black ;;
  update_chromatic_frame chromatic.

(** WaveshareDisplay *)
Definition sleep : M unit :=
  command 0x10 ;;
  send_data [1] ;;
  delay_ms 100.

Definition wake_up : M unit := init.

Definition update_frame (buffer : dexp) : M unit :=
  command 0x24 ;;
  send_data_e buffer ;;
  command 0x26 ;;
  data_x_times 0x00 (WIDTH / 8 * HEIGHT).

Definition update_partial_frame (k len x y width height : N) : M unit :=
  assert (width mod 8 =? 0) ;;
  let x_start := x in
  x_end <- add32 x width ;;
  let y_start := y in
  y_end <- add32 y height ;;
  let '(x_start, x_end) :=
    if ((x_start mod 8 + x_end mod 8 =? 8) && (x_end mod 8 <? x_start mod 8))
       || (x_start mod 8 + x_end mod 8 =? 0)
       || ((x_end - x_start) mod 8 =? 0)     (* x_end >= x_start: cannot underflow *)
    then (x_start / 8, x_end / 8)
    else (x_start / 8, if x_end mod 8 =? 0 then x_end / 8 else x_end / 8 + 1) in
  x_end <- sub32 x_end 1 ;;
  y_end <- sub32 y_end 1 ;;
  let x_start := u8 x_start in
  let x_end := u8 x_end in
  let y_start_1 := u8 y_start in
  let y_start_2 := u8 (shr y_start 8) in
  let y_end_1 := u8 y_end in
  let y_end_2 := u8 (shr y_end 8) in
  command 0x44 ;;
  send_data [x_start; x_end] ;;
  command 0x45 ;;
  send_data [y_start_1; y_start_2] ;;
  send_data [y_end_1; y_end_2] ;;
  command 0x4e ;;
  send_data [x_start] ;;
  command 0x4f ;;
  send_data [y_start_1; y_start_2] ;;
  command 0x24 ;;
  send_data_e (DArg k 0 0 len).

Definition display_frame : M unit :=
  turn_on_display Default.

Definition update_and_display_frame (buffer : dexp) : M unit :=
  update_frame buffer ;;
  display_frame.

Definition clear_frame : M unit :=
  let SIZE := WIDTH / 8 * HEIGHT in
  command 0x24 ;;
  data_x_times 0xff SIZE ;;
  command 0x26 ;;
  data_x_times 0 SIZE ;;
  display_frame.

Definition set_lut : M unit := ret tt.

(** inherent public methods *)
Definition update_and_display_frame_base (black : dexp) (chromatic : option dexp) : M unit :=
  update_frame black ;;
  (match chromatic with
   | Some chromatic => update_chromatic_frame chromatic
   | None => ret tt
   end) ;;
  turn_on_display Base ;;
  command 0x26 ;;
  send_data_e black.

Definition display_frame_partial : M unit :=
  turn_on_display Partial.

Definition exec (k : N) (o : op) : option (M rval) :=
  match o with
  | OSleep => unit_ sleep
  | OWakeUp => unit_ wake_up
  | OSetBg c => unit_ (modify (set_bg c))
  | OGetBg => Some (s <- get ;; ret (RColor (bg s)))
  | OWidth => Some (ret (RNum WIDTH))
  | OHeight => Some (ret (RNum HEIGHT))
  | OUpdateFrame len => unit_ (update_frame (DArg k 0 0 len))
  | OUpdatePartial len x y w h => unit_ (update_partial_frame k len x y w h)
  | ODisplay => unit_ display_frame
  | OUpdateAndDisplay len => unit_ (update_and_display_frame (DArg k 0 0 len))
  | OClear => unit_ clear_frame
  | OSetLut _ => unit_ set_lut
  | OWaitIdle => unit_ wait_until_idle
  | OUpdateColor l1 l2 => unit_ (update_color_frame (DArg k 0 0 l1) (DArg k 1 0 l2))
  | OUpdateAchromatic len => unit_ (update_achromatic_frame (DArg k 0 0 len))
  | OUpdateChromatic len => unit_ (update_chromatic_frame (DArg k 0 0 len))
  | OUpdateAndDisplayBase l1 l2 =>
      unit_ (update_and_display_frame_base (DArg k 0 0 l1)
               (match l2 with Some n => Some (DArg k 1 0 n) | None => None end))
  | ODisplayFramePartial => unit_ display_frame_partial
  | _ => None
  end.

Definition drv (ft : feat) : driver :=
  mkDriver WIDTH HEIGHT false (mkD cWhite 0 false false 0 None) init exec.
End Epd2in9b_v4.

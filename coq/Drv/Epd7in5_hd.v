(** Model of src/epd7in5_hd/mod.rs. *)
From Coq Require Import List NArith Bool.
From EPD Require Import Iface Ops Drv.Luts.
Import ListNotations.
Open Scope N_scope.
Open Scope m_scope.

Module Epd7in5_hd.
Definition WIDTH : N := 880.
Definition HEIGHT : N := 528.
Definition IS_BUSY_LOW := false.

Definition wait_until_idle : M unit := wait_idle IS_BUSY_LOW.

(** the private wrappers [command] and [cmd_with_data] of the driver *)
Definition command (c : N) : M unit := cmd c.
Definition cmd_with_data' (c : N) (l : list N) : M unit := cmd_with_data c l.

Definition init : M unit :=
  reset 10000 2000 ;;
  wait_until_idle ;;
  command 0x12 ;;
  wait_until_idle ;;
  cmd_with_data' 0x46 [0xF7] ;;
  wait_until_idle ;;
  cmd_with_data' 0x47 [0xF7] ;;
  wait_until_idle ;;
  cmd_with_data' 0x0C [0xAE; 0xC7; 0xC3; 0xC0; 0x40] ;;
  cmd_with_data' 0x01 [0xAF; 0x02; 0x01] ;;
  cmd_with_data' 0x11 [0x01] ;;
  cmd_with_data' 0x44 [0x00; 0x00; 0x6F; 0x03] ;;
  cmd_with_data' 0x45 [0xAF; 0x02; 0x00; 0x00] ;;
  cmd_with_data' 0x3C [0x05] ;;
  cmd_with_data' 0x18 [0x80] ;;
  cmd_with_data' 0x22 [0xB1] ;;
  command 0x20 ;;
  wait_until_idle ;;
  cmd_with_data' 0x4E [0x00; 0x00] ;;
  cmd_with_data' 0x4F [0x00; 0x00].

Definition sleep : M unit :=
  wait_until_idle ;;
  cmd_with_data' 0x10 [0x01].

Definition update_frame (k len : N) : M unit :=
  wait_until_idle ;;
  cmd_with_data' 0x4F [0x00; 0x00] ;;
  cmd_with_data_e 0x24 (DArg k 0 0 len) ;;
  cmd_with_data' 0x22 [0xF7].

Definition update_partial_frame (k len x y w h : N) : M unit := panic.

Definition display_frame : M unit :=
  command 0x20 ;;
  wait_until_idle.

Definition update_and_display_frame (k len : N) : M unit :=
  update_frame k len ;;
  display_frame.

Definition clear_frame : M unit :=
  let pixel_count := WIDTH / 8 * HEIGHT in
  s <- get ;;
  let background_color_byte := if bg s =? cWhite then 0xff else 0x00 in
  wait_until_idle ;;
  cmd_with_data' 0x4F [0x00; 0x00] ;;
  forM [0x24; 0x26] (fun c =>
    command c ;;
    data_x_times background_color_byte pixel_count) ;;
  cmd_with_data' 0x22 [0xF7] ;;
  command 0x20 ;;
  wait_until_idle.

Definition set_lut (r : option N) : M unit := panic.

Definition exec (k : N) (o : op) : option (M rval) :=
  match o with
  | OSleep => unit_ sleep
  | OWakeUp => unit_ init
  | OSetBg c => unit_ (modify (set_bg c))
  | OGetBg => Some (s <- get ;; ret (RColor (bg s)))
  | OWidth => Some (ret (RNum WIDTH))
  | OHeight => Some (ret (RNum HEIGHT))
  | OUpdateFrame len => unit_ (update_frame k len)
  | OUpdatePartial len x y w h => unit_ (update_partial_frame k len x y w h)
  | ODisplay => unit_ display_frame
  | OUpdateAndDisplay len => unit_ (update_and_display_frame k len)
  | OClear => unit_ clear_frame
  | OSetLut r => unit_ (set_lut r)
  | OWaitIdle => unit_ wait_until_idle
  | _ => None
  end.

Definition drv (ft : feat) : driver :=
  mkDriver WIDTH HEIGHT false (mkD cWhite 0 false false 0 None) init exec.
End Epd7in5_hd.

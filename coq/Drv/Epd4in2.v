(** Model of src/epd4in2/mod.rs (IL0398-style, QuickRefresh + shift_display). *)
From Coq Require Import List NArith Bool.
From EPD Require Import Iface Ops Drv.Luts.
Import ListNotations.
Open Scope N_scope.
Open Scope m_scope.

Module Epd4in2.
Definition WIDTH : N := 400.
Definition HEIGHT : N := 300.
Definition IS_BUSY_LOW := true.

(** Color::get_byte_value *)
Definition get_byte_value (c : N) : N := if c =? cWhite then 0xff else 0x00.

Definition wait_until_idle : M unit := wait_idle IS_BUSY_LOW.

(** thin wrappers of the inherent impl *)
Definition command (c : N) : M unit := cmd c.
Definition send_data (l : list N) : M unit := data l.

Definition send_resolution : M unit :=
  let w := WIDTH in
  let h := HEIGHT in
  command 0x61 ;;
  send_data [u8 (shr w 8)] ;;
  send_data [u8 w] ;;
  send_data [u8 (shr h 8)] ;;
  send_data [u8 h].

Definition set_lut_helper (lut_vcom lut_ww lut_bw lut_wb lut_bb : list N) : M unit :=
  wait_until_idle ;;
  cmd_with_data 0x20 lut_vcom ;;
  cmd_with_data 0x21 lut_ww ;;
  cmd_with_data 0x22 lut_bw ;;
  cmd_with_data 0x23 lut_wb ;;
  cmd_with_data 0x24 lut_bb.

Definition set_lut (r : option N) : M unit :=
  (match r with Some v => modify (set_refresh v) | None => ret tt end) ;;
  s <- get ;;
  if refresh s =? 0
  then set_lut_helper epd4in2_LUT_VCOM0 epd4in2_LUT_WW epd4in2_LUT_BW epd4in2_LUT_WB epd4in2_LUT_BB
  else set_lut_helper epd4in2_LUT_VCOM0_QUICK epd4in2_LUT_WW_QUICK epd4in2_LUT_BW_QUICK
                      epd4in2_LUT_WB_QUICK epd4in2_LUT_BB_QUICK.

Definition init : M unit :=
  reset 10000 10000 ;;
  cmd_with_data 0x01 [0x03; 0x00; 0x2b; 0x2b; 0xff] ;;
  cmd_with_data 0x06 [0x17; 0x17; 0x17] ;;
  command 0x04 ;;
  delay_us 5000 ;;
  wait_until_idle ;;
  cmd_with_data 0x00 [0x3F] ;;
  cmd_with_data 0x30 [0x3A] ;;
  send_resolution ;;
  cmd_with_data 0x82 [0x12] ;;
  cmd_with_data 0x50 [0x97] ;;
  set_lut None ;;
  wait_until_idle.

Definition sleep : M unit :=
  wait_until_idle ;;
  cmd_with_data 0x50 [0x17] ;;
  command 0x82 ;;
  command 0x00 ;;
  command 0x01 ;;
  repeatM 4 (send_data [0x00]) ;;
  command 0x02 ;;
  wait_until_idle ;;
  cmd_with_data 0x07 [0xA5].

Definition update_frame (k len : N) : M unit :=
  wait_until_idle ;;
  s <- get ;;
  let color_value := get_byte_value (bg s) in
  cmd 0x10 ;;
  data_x_times color_value (WIDTH / 8 * HEIGHT) ;;
  cmd_with_data_e 0x13 (DArg k 0 0 len).

(** [if buffer.len() as u32 != width / 8 * height { /* TODO */ }]: the body is empty, but the
    condition is evaluated and its multiplication is overflow-checked *)
Definition buffer_size_check (len w h : N) : M bool :=
  n <- mul32 (w / 8) h ;;
  ret (negb (len mod u32max =? n)).

(** the nine window bytes; written out twice in the Rust (update_partial_frame, shift_display) *)
Definition shift_display (x y w h : N) : M unit :=
  send_data [u8 (shr x 8)] ;;
  let tmp := band x 0xf8 in
  send_data [u8 tmp] ;;
  t1 <- add32 tmp w ;;
  tmp <- sub32 t1 1 ;;
  send_data [u8 (shr tmp 8)] ;;
  send_data [u8 (bor tmp 0x07)] ;;
  send_data [u8 (shr y 8)] ;;
  send_data [u8 y] ;;
  a <- add32 y h ;;
  a <- sub32 a 1 ;;
  send_data [u8 (shr a 8)] ;;
  b <- add32 y h ;;
  b <- sub32 b 1 ;;
  send_data [u8 b] ;;
  send_data [0x01].

Definition update_partial_frame (k len x y w h : N) : M unit :=
  wait_until_idle ;;
  _ <- buffer_size_check len w h ;;
  command 0x91 ;;
  command 0x90 ;;
  send_data [u8 (shr x 8)] ;;
  let tmp := band x 0xf8 in
  send_data [u8 tmp] ;;
  t1 <- add32 tmp w ;;
  tmp <- sub32 t1 1 ;;
  send_data [u8 (shr tmp 8)] ;;
  send_data [u8 (bor tmp 0x07)] ;;
  send_data [u8 (shr y 8)] ;;
  send_data [u8 y] ;;
  a <- add32 y h ;;
  a <- sub32 a 1 ;;
  send_data [u8 (shr a 8)] ;;
  b <- add32 y h ;;
  b <- sub32 b 1 ;;
  send_data [u8 b] ;;
  send_data [0x01] ;;
  (* is_dtm1 = false *)
  command 0x13 ;;
  data_e (DArg k 0 0 len) ;;
  command 0x92.

Definition display_frame : M unit :=
  wait_until_idle ;;
  command 0x12.

Definition update_and_display_frame (k len : N) : M unit :=
  update_frame k len ;;
  command 0x12.

Definition clear_frame : M unit :=
  wait_until_idle ;;
  send_resolution ;;
  s <- get ;;
  let color_value := get_byte_value (bg s) in
  cmd 0x10 ;;
  data_x_times color_value (WIDTH / 8 * HEIGHT) ;;
  cmd 0x13 ;;
  data_x_times color_value (WIDTH / 8 * HEIGHT).

(** QuickRefresh *)
Definition update_old_frame (k len : N) : M unit :=
  wait_until_idle ;;
  cmd 0x10 ;;
  data_e (DArg k 0 0 len).

Definition update_new_frame (k len : N) : M unit :=
  wait_until_idle ;;
  cmd 0x13 ;;
  data_e (DArg k 0 0 len).

Definition display_new_frame : M unit := display_frame.

Definition update_and_display_new_frame (k len : N) : M unit :=
  update_new_frame k len ;;
  display_frame.

Definition update_partial_old_frame (k len x y w h : N) : M unit :=
  wait_until_idle ;;
  _ <- buffer_size_check len w h ;;
  cmd 0x91 ;;
  cmd 0x90 ;;
  shift_display x y w h ;;
  cmd 0x10 ;;
  data_e (DArg k 0 0 len).

Definition update_partial_new_frame (k len x y w h : N) : M unit :=
  wait_until_idle ;;
  _ <- buffer_size_check len w h ;;
  cmd 0x90 ;;
  shift_display x y w h ;;
  cmd 0x13 ;;
  data_e (DArg k 0 0 len) ;;
  cmd 0x92.

Definition clear_partial_frame (x y w h : N) : M unit :=
  wait_until_idle ;;
  send_resolution ;;
  s <- get ;;
  let color_value := get_byte_value (bg s) in
  cmd 0x91 ;;
  cmd 0x90 ;;
  shift_display x y w h ;;
  cmd 0x10 ;;
  n1 <- mul32 (w / 8) h ;;
  data_x_times color_value n1 ;;
  cmd 0x13 ;;
  n2 <- mul32 (w / 8) h ;;
  data_x_times color_value n2 ;;
  cmd 0x92.

Definition exec (k : N) (o : op) : option (M rval) :=
  match o with
  | OSleep => unit_ sleep
  | OWakeUp => unit_ init
  | OSetBg c => unit_ (modify (set_bg c))
  | OGetBg => Some (s <- get ;; ret (RColor (bg s)))
  | OWidth => Some (ret (RNum WIDTH))
  | OHeight => Some (ret (RNum HEIGHT))
  | OUpdateFrame len => unit_ (update_frame k len)
  | OUpdatePartial len x y w h => unit_ (update_partial_frame k len x y w h)
  | ODisplay => unit_ display_frame
  | OUpdateAndDisplay len => unit_ (update_and_display_frame k len)
  | OClear => unit_ clear_frame
  | OSetLut r => unit_ (set_lut r)
  | OWaitIdle => unit_ wait_until_idle
  | OUpdateOld len => unit_ (update_old_frame k len)
  | OUpdateNew len => unit_ (update_new_frame k len)
  | ODisplayNew => unit_ display_new_frame
  | OUpdateAndDisplayNew len => unit_ (update_and_display_new_frame k len)
  | OUpdatePartialOld len x y w h => unit_ (update_partial_old_frame k len x y w h)
  | OUpdatePartialNew len x y w h => unit_ (update_partial_new_frame k len x y w h)
  | OClearPartial x y w h => unit_ (clear_partial_frame x y w h)
  | OShiftDisplay x y w h => unit_ (shift_display x y w h)
  | _ => None
  end.

Definition drv (ft : feat) : driver :=
  mkDriver WIDTH HEIGHT true (mkD cWhite 0 false false 0 None) init exec.
End Epd4in2.

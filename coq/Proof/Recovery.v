(** * Recovery: the recovery clause of C04 checked on all 30 configurations (kernel computation). *)
From Coq Require Import List NArith Bool.
From EPD Require Import Iface Ops Panels Spec.PSpec Spec.Specs Spec.Verdict Spec.Known Spec.Recover Proof.AllPanels.
Import ListNotations.

Lemma recovery_sweep : forallb (fun c => p_recover_ok (fst c) (spec_of (snd c)) (Rof c)) cfgs = true.
Proof. vm_compute. reflexivity. Qed.

Theorem recovery_all : forall c, In c cfgs -> p_recover_ok (fst c) (spec_of (snd c)) (Rof c) = true.
Proof. intros c Hc. pose proof recovery_sweep as S. rewrite forallb_forall in S. exact (S c Hc). Qed.

(** After a failure at ANY SPI transfer of ANY call of ANY macro step of the alphabet (setting changes
    included), issued in ANY state of the closed reachable set: [wake_up; update_frame; display_frame]
    ends with the same addressing / power registers, image burst and refresh as on the driver on which
    the same macro step completed - and wake_up begins with a hardware reset. *)
Theorem recovery_spec : forall c, In c cfgs ->
  forall s m d d1, In s (Rof c) -> In m (ps_alpha (spec_of (snd c))) ->
  macro_done (iD (fst c) (spec_of (snd c))) (iPP (fst c) (spec_of (snd c))) (iisig (fst c) (spec_of (snd c)))
             (ilr (fst c) (spec_of (snd c)) 0) (ilr (fst c) (spec_of (snd c)) 1) (icref (fst c) (spec_of (snd c))) s m = Some d1 ->
  In d (macro_fields (iD (fst c) (spec_of (snd c))) (iPP (fst c) (spec_of (snd c))) (iisig (fst c) (spec_of (snd c)))
                     (ilr (fst c) (spec_of (snd c)) 0) (ilr (fst c) (spec_of (snd c)) 1) (icref (fst c) (spec_of (snd c))) s m) ->
  pair_ok (iD (fst c) (spec_of (snd c))) (iPP (fst c) (spec_of (snd c))) (d, d1) = true.
Proof.
  intros c Hc s m d d1 Hs Hm Hdone Hd.
  exact (recover_ok_spec _ _ _ _ _ _ _ (Rof c) (recovery_all c Hc) s m d d1 Hs Hm Hdone Hd).
Qed.

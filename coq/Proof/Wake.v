(** * Wake: wake_up forgets whatever state the controller was in (C08).

    On every configuration and in every state of the closed reachable set, the transport calls of
    wake_up begin with a hardware reset (after busy polls / delays at most).  The controller
    specification returns to its power-on state at a reset, so the controller state after wake_up is a
    function of the driver's fields alone: it is the same from EVERY prior controller state - deep
    sleep, a half-received frame, a shrunken window, anything. *)
From Coq Require Import List NArith Bool.
From EPD Require Import Iface Ops Ctl.Ctl Panels Spec.PSpec Spec.Specs Spec.Sys Spec.Verdict Spec.Recover Spec.Known Proof.AllPanels Proof.History Proof.Book.
Import ListNotations.
Open Scope N_scope.

(** the transport calls of wake_up issued with driver fields [d] *)
Definition wake_calls (ft : feat) (p : panel) (d : dstate) : option (list icall) :=
  match d_exec (driver_of ft p) 1 OWakeUp with
  | Some m => match m d with (Some _, _, t) => Some (calls t) | _ => None end
  | None => None
  end.

Definition wake_resets (ft : feat) (p : panel) (s : vstate) : bool :=
  match wake_calls ft p (v_d s) with Some ic => starts_with_reset ic | None => false end.

Lemma wake_resets_sweep : forallb (fun c => forallb (wake_resets (fst c) (snd c)) (Rof c)) cfgs = true.
Proof. vm_compute. reflexivity. Qed.

(** After every history, wake_up succeeds, begins with a hardware reset, and the controller state it
    leaves is the same from every prior controller state [c], [c']. *)
Theorem wake_up_forgets : forall c, In c cfgs ->
  exists s0, fst (p_new (fst c) (spec_of (snd c))) = Some s0 /\
  forall h, valid_history (snd c) h ->
  exists ic, wake_calls (fst c) (snd c) (v_d (p_run (fst c) (spec_of (snd c)) s0 h)) = Some ic /\
             starts_with_reset ic = true /\
             forall cp c1 c2, fst (ccall cp c1 ic) = fst (ccall cp c2 ic).
Proof.
  intros c Hc. pose proof wake_resets_sweep as S. rewrite forallb_forall in S. specialize (S c Hc).
  destruct (invariant_after_every_history (wake_resets (fst c) (snd c)) c Hc S) as (s0 & E & H).
  exists s0. split; [exact E|]. intros h Hh. specialize (H h Hh). unfold wake_resets in H.
  destruct (wake_calls (fst c) (snd c) (v_d (p_run (fst c) (spec_of (snd c)) s0 h))) as [ic|]; [|discriminate].
  exists ic. split; [reflexivity|]. split; [exact H|]. intros cp c1 c2. now apply ccall_forgets.
Qed.

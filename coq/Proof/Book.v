(** * Book: invariants of the closed reachable sets that relate the driver's own bookkeeping to the
    controller state, lifted to every history (C09: "the driver's own bookkeeping of the panel's power
    state never diverges from the controller's"). *)
From Coq Require Import List NArith Bool.
From EPD Require Import Iface Ops Ctl.Ctl Panels Reach Spec.PSpec Spec.Specs Spec.Oracle Spec.Verdict Spec.Known Proof.AllPanels Proof.History.
Import ListNotations.
Open Scope N_scope.

(** every history ends in a state of the closed set *)
Theorem history_in_closed_set : forall c, In c cfgs ->
  exists s0, fst (p_new (fst c) (spec_of (snd c))) = Some s0 /\
  forall h, valid_history (snd c) h -> In (p_run (fst c) (spec_of (snd c)) s0 h) (Rof c).
Proof.
  intros c Hc. pose proof (all_ok c Hc) as OK. destruct c as [ft p]. cbn [fst snd] in *.
  unfold p_ok, panel_ok in OK. unfold p_new.
  destruct (fst (v_new (iD ft (spec_of p)) (iPP ft (spec_of p)) (iisig ft (spec_of p)))) as [s0|] eqn:E0; [|discriminate].
  exists s0. split; [reflexivity|]. intros h Hh.
  apply andb_prop in OK as [OK _]. apply andb_prop in OK as [OK _]. apply andb_prop in OK as [Hin Hcl].
  assert (In0 : In s0 (Rof (ft, p))).
  { rewrite existsb_exists in Hin. destruct Hin as (r & Hr & Er). destruct (vstate_eq_dec s0 r); [now subst|discriminate]. }
  unfold p_run, vrun. eapply closed_reach; [exact In0|exact Hcl|exact Hh].
Qed.

(** an invariant checked on the closed set holds after every history *)
Theorem invariant_after_every_history (inv : vstate -> bool) : forall c, In c cfgs ->
  forallb inv (Rof c) = true ->
  exists s0, fst (p_new (fst c) (spec_of (snd c))) = Some s0 /\
  forall h, valid_history (snd c) h -> inv (p_run (fst c) (spec_of (snd c)) s0 h) = true.
Proof.
  intros c Hc Hall. destruct (history_in_closed_set c Hc) as (s0 & E & H). exists s0. split; [exact E|].
  intros h Hh. rewrite forallb_forall in Hall. apply Hall. now apply H.
Qed.

(** epd1in02 keeps a cached power flag [is_turned_on]; it equals the controller model's power state at
    every call boundary *)
Definition power_flag_agrees (s : vstate) : bool := Bool.eqb (is_on (v_d s)) (c_on (o_c (v_o s))).
Definition c1in02 : feat * panel := (mkFeat false false, P1in02).
Lemma c1in02_in : In c1in02 cfgs.
Proof. unfold cfgs, c1in02. cbn [In]. now left. Qed.
Lemma power_flag_sweep : forallb power_flag_agrees (Rof c1in02) = true.
Proof. vm_compute. reflexivity. Qed.

Theorem power_flag_never_diverges :
  exists s0, fst (p_new (fst c1in02) (spec_of (snd c1in02))) = Some s0 /\
  forall h, valid_history (snd c1in02) h ->
    is_on (v_d (p_run (fst c1in02) (spec_of (snd c1in02)) s0 h)) = c_on (o_c (v_o (p_run (fst c1in02) (spec_of (snd c1in02)) s0 h))).
Proof.
  destruct (invariant_after_every_history power_flag_agrees c1in02 c1in02_in power_flag_sweep) as (s0 & E & H).
  exists s0. split; [exact E|]. intros h Hh. specialize (H h Hh). unfold power_flag_agrees in H.
  now apply Bool.eqb_prop in H.
Qed.

(** the drivers without a power flag never set the field *)
Definition flag_unused (s : vstate) : bool := negb (is_on (v_d s)).
Lemma flag_unused_sweep : forallb (fun c => match snd c with P1in02 => true | _ => forallb flag_unused (Rof c) end) cfgs = true.
Proof. vm_compute. reflexivity. Qed.

(** ** C12: no driver but the 2.9in D keeps a reference to a caller's buffer between calls *)
Definition keeps_no_buffer (s : vstate) : bool := match old (v_d s) with None => true | Some _ => false end.
Lemma no_buffer_sweep : forallb (fun c => match snd c with P2in9d => true | _ => forallb keeps_no_buffer (Rof c) end) cfgs = true.
Proof. vm_compute. reflexivity. Qed.
Theorem no_buffer_reference_kept : forall c, In c cfgs -> snd c <> P2in9d ->
  exists s0, fst (p_new (fst c) (spec_of (snd c))) = Some s0 /\
  forall h, valid_history (snd c) h -> old (v_d (p_run (fst c) (spec_of (snd c)) s0 h)) = None.
Proof.
  intros c Hc Hne. pose proof no_buffer_sweep as S. rewrite forallb_forall in S. specialize (S c Hc).
  assert (Hall : forallb keeps_no_buffer (Rof c) = true) by (destruct (snd c); try exact S; contradiction).
  destruct (invariant_after_every_history keeps_no_buffer c Hc Hall) as (s0 & E & H).
  exists s0. split; [exact E|]. intros h Hh. specialize (H h Hh). unfold keeps_no_buffer in H.
  destruct (old (v_d (p_run (fst c) (spec_of (snd c)) s0 h))); [discriminate|reflexivity].
Qed.
(** the 2.9in D does: the retained reference is reachable (the known finding) *)
Lemma buffer_reference_kept_2in9d : existsb (fun s => negb (keeps_no_buffer s)) (Rof (mkFeat false false, P2in9d)) = true.
Proof. vm_compute. reflexivity. Qed.

(** ** C17: on the drivers that persist the selected refresh mode, the driver's [refresh] field equals the
    mode last selected through set_lut(Some _), after every history *)
Definition sel_sticky (s : vstate) : bool := match o_sel (v_o s) with Some r => refresh (v_d s) =? r | None => true end.
Definition sticky_cfgs : list (feat * panel) :=
  [(mkFeat false false, P1in54); (mkFeat false true, P1in54); (mkFeat false false, P1in54_v2);
   (mkFeat false false, P2in9); (mkFeat false true, P2in9); (mkFeat false false, P4in2)].
Lemma sticky_sweep : forallb (fun c => forallb sel_sticky (Rof c)) sticky_cfgs = true.
Proof. vm_compute. reflexivity. Qed.
Theorem selected_mode_is_sticky : forall c, In c sticky_cfgs ->
  In c cfgs /\
  exists s0, fst (p_new (fst c) (spec_of (snd c))) = Some s0 /\
  forall h, valid_history (snd c) h -> forall r,
    o_sel (v_o (p_run (fst c) (spec_of (snd c)) s0 h)) = Some r -> refresh (v_d (p_run (fst c) (spec_of (snd c)) s0 h)) = r.
Proof.
  intros c Hc.
  assert (Hin : In c cfgs).
  { unfold sticky_cfgs in Hc. cbn [In] in Hc. unfold cfgs. cbn [In].
    repeat (destruct Hc as [<-|Hc]; [tauto|]). contradiction. }
  split; [exact Hin|].
  pose proof sticky_sweep as S. rewrite forallb_forall in S. specialize (S c Hc).
  destruct (invariant_after_every_history sel_sticky c Hin S) as (s0 & E & H).
  exists s0. split; [exact E|]. intros h Hh r Hr. specialize (H h Hh). unfold sel_sticky in H. rewrite Hr in H.
  now apply N.eqb_eq in H.
Qed.

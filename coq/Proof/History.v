(** * History: the verdicts of all configurations, lifted to every history of any length.

    [Spec/Verdict.v] proves, for one configuration, that a closed set [R] with only listed failures
    makes every probe after every history fail only listed clauses.  Here that is instantiated for
    the 30 configurations of [Proof/AllPanels.v], and specialised per property. *)
From Coq Require Import List NArith Bool.
From EPD Require Import Iface Ops Panels Spec.PSpec Spec.Specs Spec.Verdict Spec.Known Proof.AllPanels.
Import ListNotations.
Open Scope N_scope.

(** A protocol-respecting history: any finite sequence of macro steps of the panel's alphabet. *)
Definition valid_history (p : panel) (h : list (list op)) : Prop :=
  Forall (fun m => In m (ps_alpha (spec_of p))) h.

(** the failures the observer reports for macro step [m] issued after history [h] (from a freshly
    constructed driver whose observer state is [s0]) *)
Definition fails_after (ft : feat) (p : panel) (s0 : vstate) (h : list (list op)) (m : list op) : list fail :=
  snd (p_macro ft (spec_of p) 1 (p_run ft (spec_of p) s0 h) m).

Theorem history_verdict : forall c, In c cfgs ->
  exists s0, fst (p_new (fst c) (spec_of (snd c))) = Some s0 /\
  (forall f, In f (snd (p_new (fst c) (spec_of (snd c)))) -> In f (known (fst c) (snd c))) /\
  (forall h, valid_history (snd c) h -> forall m, In m (ps_alpha (spec_of (snd c))) ->
     forall f, In f (fails_after (fst c) (snd c) s0 h m) -> In f (known (fst c) (snd c))).
Proof.
  intros c Hc. pose proof (all_ok c Hc) as OK.
  destruct c as [ft p]. cbn [fst snd] in *.
  unfold p_ok in OK.
  destruct (fst (p_new ft (spec_of p))) as [s0|] eqn:E0.
  - exists s0. split; [reflexivity|].
    unfold p_new in E0.
    pose proof (verdict_sound (iD ft (spec_of p)) (iPP ft (spec_of p)) (iisig ft (spec_of p))
                  (ilr ft (spec_of p) 0) (ilr ft (spec_of p) 1) (icref ft (spec_of p)) (ialpha (spec_of p))
                  (Rof (ft, p)) (known ft p) s0 E0 OK) as [H1 H2].
    split; [exact H1|]. intros h Hh m Hm f Hf. exact (H2 h Hh m Hm f Hf).
  - exfalso. unfold panel_ok in OK. unfold p_new in E0. rewrite E0 in OK. discriminate.
Qed.

(** every listed finding is really observed (no stale entry): at construction, or by some macro step
    from some state of the closed set *)
Theorem findings_witnessed : forall c, In c cfgs -> forall f, In f (known (fst c) (snd c)) ->
  In f (snd (p_new (fst c) (spec_of (snd c)))) \/
  exists s m, In s (Rof c) /\ In m (ps_alpha (spec_of (snd c))) /\
              In f (snd (p_macro (fst c) (spec_of (snd c)) 1 s m)).
Proof.
  intros c Hc f Hf. pose proof (all_ok c Hc) as OK. destruct c as [ft p]. cbn [fst snd] in *.
  exact (verdict_exact _ _ _ _ _ _ _ _ _ OK f Hf).
Qed.

(** ** per property *)
Lemma known_for_In prop ft p f : In f (known ft p) -> fprop f = prop -> In f (known_for prop ft p).
Proof. intros H E. unfold known_for. apply filter_In. split; [assumption|]. now apply N.eqb_eq. Qed.

(** After every history, a macro step violates property [prop] only in the listed ways. *)
Theorem property_histories (prop : N) : forall c, In c cfgs ->
  exists s0, fst (p_new (fst c) (spec_of (snd c))) = Some s0 /\
  (forall f, In f (snd (p_new (fst c) (spec_of (snd c)))) -> fprop f = prop -> In f (known_for prop (fst c) (snd c))) /\
  (forall h, valid_history (snd c) h -> forall m, In m (ps_alpha (spec_of (snd c))) ->
     forall f, In f (fails_after (fst c) (snd c) s0 h m) -> fprop f = prop -> In f (known_for prop (fst c) (snd c))).
Proof.
  intros c Hc. destruct (history_verdict c Hc) as (s0 & E & H1 & H2). exists s0. split; [exact E|]. split.
  - intros f Hf Ep. apply known_for_In; auto.
  - intros h Hh m Hm f Hf Ep. apply known_for_In; [|assumption]. eapply H2; eassumption.
Qed.

(** On a configuration without listed findings for [prop], the property holds after every history. *)
Corollary property_holds (prop : N) : forall c, In c cfgs -> known_for prop (fst c) (snd c) = [] ->
  exists s0, fst (p_new (fst c) (spec_of (snd c))) = Some s0 /\
  (forall f, In f (snd (p_new (fst c) (spec_of (snd c)))) -> fprop f <> prop) /\
  (forall h, valid_history (snd c) h -> forall m, In m (ps_alpha (spec_of (snd c))) ->
     forall f, In f (fails_after (fst c) (snd c) s0 h m) -> fprop f <> prop).
Proof.
  intros c Hc K. destruct (property_histories prop c Hc) as (s0 & E & H1 & H2). exists s0. split; [exact E|]. split.
  - intros f Hf Ep. specialize (H1 f Hf Ep). rewrite K in H1. contradiction.
  - intros h Hh m Hm f Hf Ep. specialize (H2 h Hh m Hm f Hf Ep). rewrite K in H2. contradiction.
Qed.

(** the configurations on which [prop] has no listed finding *)
Definition clean (prop : N) : list (feat * panel) :=
  filter (fun c => match known_for prop (fst c) (snd c) with [] => true | _ => false end) cfgs.

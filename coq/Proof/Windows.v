(** * Windows: C06 for ALL windows (universally quantified x y w h) on the partial entry points
    of the UC-type panels where the property holds.

    For every byte-aligned window inside the panel, every buffer of the window's size, every
    driver-field state and every idle controller state (no frame open, not in deep sleep), the
    transport calls of the driver MODEL (Drv/*.v), fed to the controller SPECIFICATION (Ctl/Ctl.v),
    produce effects on which [Checks.chk_c06] reports nothing: the one data run per written plane is
    addressed by the requested window (partial flag, x/8, (x+w)/8-1, y, y+h-1), has w/8*h bytes, is
    the caller's buffer (or a uniform fill for the clear entry points), and nothing is stray. *)
From Coq Require Import List NArith ZArith Bool Lia ZifyBool ZifyN.
From EPD Require Import Iface Ops Ctl.Ctl Spec.PSpec Spec.Checks Spec.Sys Spec.Specs Spec.Oracle Panels
  Drv.Luts Drv.Epd4in2 Drv.Epd1in02 Drv.Epd2in7 Drv.Epd2in7b.
Import ListNotations.
Open Scope N_scope.
Ltac Zify.zify_post_hook ::= Z.div_mod_to_equations.

Lemma u8_small a : a < 256 -> u8 a = a.
Proof. unfold u8. intros. apply N.mod_small. assumption. Qed.

Lemma shr8 a : shr a 8 = a / 256.
Proof. unfold shr. rewrite N.shiftr_div_pow2. reflexivity. Qed.

Lemma band_ff a : band a 0xff = a mod 256.
Proof. unfold band. change 255 with (N.ones 8). rewrite N.land_ones. reflexivity. Qed.

Lemma band_f8 a : a < 256 -> a mod 8 = 0 -> band a 0xf8 = a.
Proof.
  intros Ha Hm. unfold band.
  assert (E : N.land a 255 = a).
  { change 255 with (N.ones 8). rewrite N.land_ones. apply N.mod_small. exact Ha. }
  assert (Z : N.land a 7 = 0).
  { change 7 with (N.ones 3). rewrite N.land_ones. exact Hm. }
  rewrite <- E at 2. change 255 with (N.lor 248 7).
  rewrite N.land_lor_distr_r, Z, N.lor_0_r. reflexivity.
Qed.

Lemma bor_7 a : a mod 8 = 7 -> bor a 7 = a.
Proof.
  intros Hm. unfold bor.
  assert (Ea : a = 8 * (a / 8) + 7) by lia.
  assert (Z : N.land (8 * (a / 8)) 7 = 0).
  { change 7 with (N.ones 3). rewrite N.land_ones. change (2 ^ 3) with 8. lia. }
  assert (Eb : 8 * (a / 8) + 7 = N.lor (8 * (a / 8)) 7).
  { rewrite N.add_nocarry_lxor by exact Z. apply N.lxor_lor. exact Z. }
  rewrite Ea, Eb, <- N.lor_assoc. reflexivity.
Qed.

Lemma be16_bytes a : a < 65536 -> be16 (u8 (shr a 8)) (u8 a) = a.
Proof. intros. rewrite shr8. unfold be16, u8. lia. Qed.


(** ** driver-side helpers *)
Definition lit1 (b : N) : item := ICall (IData (DLit [b])).
Definition dl (b : N) : icall := IData (DLit [b]).

Ltac mrun :=
  cbv [bind ret emit get modify panic assert cmd data data_e cmd_with_data cmd_with_data_e data_x_times wait_idle
       wait_idle_cmd reset data_each delay_ms delay_us chk32 add32 mul32 sub32 when_ app fst snd negb].

Definition aligned_in (W H x y w h : N) : Prop :=
  x mod 8 = 0 /\ w mod 8 = 0 /\ 0 < w /\ 0 < h /\ x + w <= W /\ y + h <= H.
(** the controller has no frame open and is not in deep sleep *)
Definition idle (c : cstate) : Prop := c_cur c = None /\ c_deep c = false.
(** the area a UC data run must be written under to fill the window (x, y, w, h) *)
Definition win_area (x y w h : N) : area := mkArea true (x / 8) ((x + w) / 8 - 1) y (y + h - 1).
(** the controller is in partial mode with its partial-window registers describing (x, y, w, h) *)
Definition win_programmed (c : cstate) (x y w h : N) : Prop :=
  c_partial c = true /\ mkArea true (c_px0 c) (c_px1 c) (c_py0 c) (c_py1 c) = win_area x y w h.

Ltac idle_destruct c H :=
  let Hc := fresh "Hcur" in let Hd := fresh "Hdeep" in
  destruct H as [Hc Hd];
  destruct c as [cur0 np0 par0 segs0 snap0 entry0 xs0 xe0 ys0 ye0 xc0 yc0 upd20 partial0 px00 px10 py00 py10
                 resw0 resh0 deep0 on0 pending0 seen0 last0 tainted0];
  cbv [c_cur c_deep] in Hc, Hd; subst cur0 deep0.

(** ** chk_c06 by parts *)
Definition isb (e : effect) : bool := match burst_cmd e with Some _ => true | None => false end.
Definition patterns (es : list effect) : list clause :=
  flat_map (fun e => match e with EPattern c _ _ _ => [ClOtherPlane c] | _ => [] end) es.
Definition burst_ok (P : pspec) (x y w h : N) (b : effect) : Prop :=
  forall c, burst_cmd b = Some c ->
    window_geometry P x y w h b = [] /\
    segslen (burst_segs b) = w / 8 * h * (rowbytes P c / cp_rowbytes (ps_cp P)).

Lemma list_eqb_refl (l : list N) :
  (fix eqb (x y : list N) := match x, y with [], [] => true | p :: r, q :: s => (p =? q) && eqb r s | _, _ => false end) l l = true.
Proof. induction l as [|a l IH]; [reflexivity|]. rewrite N.eqb_refl. exact IH. Qed.

Lemma dexp_eqb_refl e : dexp_eqb e e = true.
Proof.
  destruct e; unfold dexp_eqb.
  - apply list_eqb_refl.
  - rewrite !N.eqb_refl. reflexivity.
  - rewrite !N.eqb_refl. reflexivity.
Qed.
Lemma seg_eqb_refl s : seg_eqb s s = true.
Proof.
  destruct s as [e|g e|v n]; unfold seg_eqb.
  - apply dexp_eqb_refl.
  - rewrite dexp_eqb_refl. destruct g; reflexivity.
  - rewrite !N.eqb_refl. reflexivity.
Qed.
Lemma segs_eqb_refl l : segs_eqb l l = true.
Proof. induction l as [|a l IH]; [reflexivity|]. cbn [segs_eqb]. rewrite seg_eqb_refl. exact IH. Qed.
Lemma sym_eq_refl l : sm_eq sym l l = true.
Proof. unfold sym, sm_eq. apply segs_eqb_refl. Qed.

Lemma flat_map_nil {A B} (f : A -> list B) l : Forall (fun a => f a = []) l -> flat_map f l = [].
Proof. induction 1 as [|a l Ha _ IH]; [reflexivity|]. cbn [flat_map]. rewrite Ha, IH. reflexivity. Qed.

Lemma chk_c06_intro P k (hb : bool) len x y w h es :
  filter isb es <> [] ->
  Forall (burst_ok P x y w h) (filter isb es) ->
  (if hb then exists b g, In b (filter isb es) /\ In g [BId; BNot; BExp2; BExp4] /\
                          burst_segs b = expected_segs k (mkTarget 0 0 g 0 len)
   else Forall (fun b => exists v, sm_uniform sym (burst_segs b) = Some v) (filter isb es)) ->
  chk_stray es = [] -> patterns es = [] ->
  chk_c06 P sym k hb len x y w h es = [].
Proof.
  intros Hne Hok Hpay Hstray Hpat.
  unfold chk_c06. change (filter _ es) with (filter isb es).
  fold (patterns es). rewrite Hstray, Hpat.
  set (bs := filter isb es) in *.
  assert (E1 : match bs with [] => [ClNoBurst 0] | _ :: _ => [] end = []).
  { destruct bs; [congruence | reflexivity]. }
  rewrite E1. clear E1.
  rewrite flat_map_nil.
  2:{ eapply Forall_impl; [|exact Hok]. intros b Hb. destruct (burst_cmd b) as [c|] eqn:Ec; [|reflexivity].
      destruct (Hb c Ec) as [Hg Hl]. rewrite Hg, Hl, N.eqb_refl. reflexivity. }
  destruct hb.
  - destruct Hpay as (b & g & Hb & Hg & Hs).
    assert (E : existsb (fun b0 => existsb (fun g0 => sm_eq sym (burst_segs b0) (expected_segs k (mkTarget 0 0 g0 0 len))) [BId; BNot; BExp2; BExp4]) bs = true).
    { apply existsb_exists. exists b. split; [exact Hb|]. apply existsb_exists. exists g. split; [exact Hg|].
      rewrite Hs. apply sym_eq_refl. }
    rewrite E. reflexivity.
  - rewrite flat_map_nil; [reflexivity|].
    eapply Forall_impl; [|exact Hpay]. intros b [v Hv]. rewrite Hv. reflexivity.
Qed.

Lemma burst_ok_uc P x y w h c pl segs :
  rowbytes P c / cp_rowbytes (ps_cp P) = 1 -> segslen segs = w / 8 * h ->
  burst_ok P x y w h (EBurstUc c pl (win_area x y w h) segs).
Proof.
  intros Hr Hs c' Hc. cbv [burst_cmd] in Hc. injection Hc as <-. split.
  - cbv [window_geometry win_area a_partial a_x0 a_x1 a_y0 a_y1]. rewrite !N.eqb_refl. reflexivity.
  - cbv [burst_segs]. rewrite Hr, Hs, N.mul_1_r. reflexivity.
Qed.

Lemma sym_uniform_fill v n : n <> 0 -> sm_uniform sym [SFill v n] = Some v.
Proof.
  intros Hn. cbv [sm_uniform sym sym_uniform nonempty filter seglen].
  destruct (N.eqb_spec n 0) as [E|E]; [contradiction|]. reflexivity.
Qed.

(** ** one API call of the model, run through the controller specification, passes [chk_c06] *)
Definition payload_ok (k : N) (hb : bool) (len : N) (bs : list effect) : Prop :=
  if hb then exists b g, In b bs /\ In g [BId; BNot; BExp2; BExp4] /\
                         burst_segs b = expected_segs k (mkTarget 0 0 g 0 len)
  else Forall (fun b => exists v, sm_uniform sym (burst_segs b) = Some v) bs.

(** [m] run on driver fields [d] succeeds with fields [d'] and transport calls [t]; the controller,
    started in [c], ends in [c'] with effects [es]; [chk_c06] has nothing to report on [es], the data
    runs among [es] are exactly [bursts], and no data byte went astray *)
Definition c06_call (P : pspec) (m : M unit) (k : N) (hb : bool) (len x y w h : N)
           (d : dstate) (c : cstate) (bursts : list effect) (d' : dstate) (c' : cstate) : Prop :=
  exists t es,
    m d = (Some tt, d', t) /\
    ccall (ps_cp P) c (calls t) = (c', es) /\
    chk_c06 P sym k hb len x y w h es = [] /\
    filter isb es = bursts /\ chk_stray es = [].

Lemma c06_call_intro P m k hb len x y w h d c bs d' items ic :
  m d = (Some tt, d', items) -> calls items = ic ->
  filter isb (snd (ccall (ps_cp P) c ic)) = bs ->
  chk_stray (snd (ccall (ps_cp P) c ic)) = [] ->
  patterns (snd (ccall (ps_cp P) c ic)) = [] ->
  bs <> [] -> Forall (burst_ok P x y w h) bs -> payload_ok k hb len bs ->
  c06_call P m k hb len x y w h d c bs d' (fst (ccall (ps_cp P) c ic)).
Proof.
  intros Hm Hic Hb Hs Hp Hne Hok Hpay.
  exists items, (snd (ccall (ps_cp P) c ic)). rewrite Hic.
  split; [exact Hm|]. split; [apply surjective_pairing|]. split; [|split; assumption].
  apply chk_c06_intro; rewrite ?Hb; assumption.
Qed.

(** the same call seen through [Sys.sys_op] *)
Lemma c06_call_sys_op ft P m k hb len x y w h d c bs d' c' o :
  d_exec (drv_of ft P) k o = unit_ m ->
  c06_call P m k hb len x y w h d c bs d' c' ->
  exists es ic, sys_op ft P k (mkSys d c) o = OpOk (mkSys d' c') es ic /\
                chk_c06 P sym k hb len x y w h es = [] /\ filter isb es = bs.
Proof.
  intros He (t & es & Hm & Hc & Hk & Hb & _). exists es, (calls t). split; [|split; assumption].
  unfold sys_op. rewrite He. cbv [unit_ bind ret y_d y_c]. rewrite Hm, app_nil_r, Hc. reflexivity.
Qed.

Ltac one_burst_ok Hlen :=
  constructor; [|constructor]; apply burst_ok_uc; [reflexivity|];
  cbv [segslen fold_left seglen dlen bwidth]; rewrite ?Hlen; lia.
Ltac payload_buf g :=
  eexists; exists g; split; [left; reflexivity|]; split; [cbv [In]; tauto|]; reflexivity.

(** * epd4in2 (UC8176/IL0398-type, nine-byte window block of command 0x90) *)
Definition cp4 := ps_cp spec_4in2.
Definition wb_4in2 (x y w h : N) : list N :=
  let e := band x 0xf8 + w - 1 in let ye := y + h - 1 in
  [u8 (shr x 8); u8 (band x 0xf8); u8 (shr e 8); u8 (bor e 7); u8 (shr y 8); u8 y; u8 (shr ye 8); u8 ye; 1].
Definition area9 (b0 b1 b2 b3 b4 b5 b6 b7 : N) : area :=
  mkArea true (be16 b0 b1 / 8) (be16 b2 b3 / 8) (be16 b4 b5) (be16 b6 b7).

(** byte-level window lemma: the nine bytes decode (big endian) to origin and inclusive end *)
Lemma wb_4in2_decode x y w h :
  aligned_in 400 300 x y w h -> x < 256 ->
  match wb_4in2 x y w h with
  | [b0; b1; b2; b3; b4; b5; b6; b7; b8] =>
      be16 b0 b1 = x /\ be16 b2 b3 = x + w - 1 /\ be16 b4 b5 = y /\ be16 b6 b7 = y + h - 1 /\ b8 = 1
  | _ => False
  end.
Proof.
  intros (Hx & Hw & Hw0 & Hh0 & Hxw & Hyh) Hx8. cbv [wb_4in2].
  rewrite (band_f8 x Hx8 Hx).
  rewrite (bor_7 (x + w - 1)) by lia.
  rewrite (u8_small x) by lia.
  rewrite !be16_bytes by lia.
  rewrite shr8. replace (x / 256) with 0 by lia.
  repeat split.
Qed.

Lemma area9_4in2 x y w h :
  aligned_in 400 300 x y w h -> x < 256 ->
  match wb_4in2 x y w h with
  | [b0; b1; b2; b3; b4; b5; b6; b7; b8] => area9 b0 b1 b2 b3 b4 b5 b6 b7 = win_area x y w h
  | _ => False
  end.
Proof.
  intros A Hx8. pose proof (wb_4in2_decode x y w h A Hx8) as D.
  destruct A as (Hx & Hw & Hw0 & Hh0 & Hxw & Hyh).
  cbv [wb_4in2] in *. destruct D as (D1 & D2 & D3 & D4 & _).
  unfold area9, win_area. rewrite D1, D2, D3, D4. f_equal. lia.
Qed.

Lemma shift_display_run x y w h d :
  aligned_in 400 300 x y w h -> x < 256 ->
  Epd4in2.shift_display x y w h d = (Some tt, d, map lit1 (wb_4in2 x y w h)).
Proof.
  intros (Hx & Hw & Hw0 & Hh0 & Hxw & Hyh) Hx8.
  assert (H1 : (band x 0xf8 + w <? u32max) = true) by (rewrite (band_f8 x Hx8 Hx); apply N.ltb_lt; unfold u32max; lia).
  assert (H2 : (1 <=? band x 0xf8 + w) = true) by (rewrite (band_f8 x Hx8 Hx); apply N.leb_le; lia).
  assert (H3 : (y + h <? u32max) = true) by (apply N.ltb_lt; unfold u32max; lia).
  assert (H4 : (1 <=? y + h) = true) by (apply N.leb_le; lia).
  cbv [Epd4in2.shift_display Epd4in2.send_data]. mrun.
  rewrite H1, H2, H3, H4. reflexivity.
Qed.

Lemma size_check_4in2 len w h d :
  w <= 400 -> h <= 300 ->
  Epd4in2.buffer_size_check len w h d = (Some (negb (len mod u32max =? w / 8 * h)), d, []).
Proof.
  intros Hw Hh.
  assert (H0 : (w / 8 * h <? u32max) = true) by (apply N.ltb_lt; unfold u32max; nia).
  cbv [Epd4in2.buffer_size_check]. mrun. rewrite H0. reflexivity.
Qed.


(** *** update_partial_frame *)
Lemma upf_4in2_run k len x y w h d :
  aligned_in 400 300 x y w h -> x < 256 ->
  Epd4in2.update_partial_frame k len x y w h d =
    (Some tt, d, [ICall (IWait true); ICall (ICmd 0x91); ICall (ICmd 0x90)] ++ map lit1 (wb_4in2 x y w h) ++
                 [ICall (ICmd 0x13); ICall (IData (DArg k 0 0 len)); ICall (ICmd 0x92)]).
Proof.
  intros (Hx & Hw & Hw0 & Hh0 & Hxw & Hyh) Hx8.
  assert (H0 : (w / 8 * h <? u32max) = true) by (apply N.ltb_lt; unfold u32max; nia).
  assert (H1 : (band x 0xf8 + w <? u32max) = true) by (rewrite (band_f8 x Hx8 Hx); apply N.ltb_lt; unfold u32max; lia).
  assert (H2 : (1 <=? band x 0xf8 + w) = true) by (rewrite (band_f8 x Hx8 Hx); apply N.leb_le; lia).
  assert (H3 : (y + h <? u32max) = true) by (apply N.ltb_lt; unfold u32max; lia).
  assert (H4 : (1 <=? y + h) = true) by (apply N.leb_le; lia).
  cbv [Epd4in2.update_partial_frame Epd4in2.buffer_size_check Epd4in2.send_data Epd4in2.command
       Epd4in2.wait_until_idle Epd4in2.IS_BUSY_LOW]. mrun.
  rewrite H0, H1, H2, H3, H4. reflexivity.
Qed.

Lemma ctl_4in2_upf k len b0 b1 b2 b3 b4 b5 b6 b7 b8 c : idle c ->
  let r := ccall cp4 c ([IWait true; ICmd 0x91; ICmd 0x90] ++ map dl [b0;b1;b2;b3;b4;b5;b6;b7;b8] ++
                        [ICmd 0x13; IData (DArg k 0 0 len); ICmd 0x92]) in
  filter isb (snd r) = [EBurstUc 0x13 P2 (area9 b0 b1 b2 b3 b4 b5 b6 b7) [SData (DArg k 0 0 len)]]
  /\ chk_stray (snd r) = [] /\ patterns (snd r) = []
  /\ c_partial (fst r) = false /\ idle (fst r).
Proof. intros I. idle_destruct c I. repeat split. Qed.

Theorem epd4in2_update_partial_frame_window k len x y w h c d :
  aligned_in 400 300 x y w h -> x < 256 -> len = w / 8 * h -> idle c ->
  exists c', c06_call spec_4in2 (Epd4in2.update_partial_frame k len x y w h) k true len x y w h d c
                      [EBurstUc 0x13 P2 (win_area x y w h) [SData (DArg k 0 0 len)]] d c'
             /\ idle c' /\ c_partial c' = false.
Proof.
  intros A Hx8 Hlen I.
  pose proof (area9_4in2 x y w h A Hx8) as AR. cbv [wb_4in2] in AR.
  lazymatch type of AR with area9 ?b0 ?b1 ?b2 ?b3 ?b4 ?b5 ?b6 ?b7 = _ =>
    pose proof (ctl_4in2_upf k len b0 b1 b2 b3 b4 b5 b6 b7 1 c I) as R end.
  cbv zeta in R. rewrite AR in R. destruct R as (Rb & Rs & Rp & Rpart & Rid).
  eexists. split; [|split; [exact Rid | exact Rpart]].
  eapply c06_call_intro; [apply (upf_4in2_run k len x y w h d A Hx8) | reflexivity | exact Rb | exact Rs | exact Rp | discriminate | | ].
  - one_burst_ok Hlen.
  - payload_buf BId.
Qed.

(** *** QuickRefresh: update_partial_old_frame, update_partial_new_frame, clear_partial_frame *)
Ltac arith_4in2 x y w h Hx Hx8 :=
  assert (H0 : (w / 8 * h <? u32max) = true) by (apply N.ltb_lt; unfold u32max; nia);
  assert (H1 : (band x 0xf8 + w <? u32max) = true) by (rewrite (band_f8 x Hx8 Hx); apply N.ltb_lt; unfold u32max; lia);
  assert (H2 : (1 <=? band x 0xf8 + w) = true) by (rewrite (band_f8 x Hx8 Hx); apply N.leb_le; lia);
  assert (H3 : (y + h <? u32max) = true) by (apply N.ltb_lt; unfold u32max; lia);
  assert (H4 : (1 <=? y + h) = true) by (apply N.leb_le; lia).

Lemma upof_4in2_run k len x y w h d :
  aligned_in 400 300 x y w h -> x < 256 ->
  Epd4in2.update_partial_old_frame k len x y w h d =
    (Some tt, d, [ICall (IWait true); ICall (ICmd 0x91); ICall (ICmd 0x90)] ++ map lit1 (wb_4in2 x y w h) ++
                 [ICall (ICmd 0x10); ICall (IData (DArg k 0 0 len))]).
Proof.
  intros (Hx & Hw & Hw0 & Hh0 & Hxw & Hyh) Hx8. arith_4in2 x y w h Hx Hx8.
  cbv [Epd4in2.update_partial_old_frame Epd4in2.shift_display Epd4in2.buffer_size_check Epd4in2.send_data
       Epd4in2.command Epd4in2.wait_until_idle Epd4in2.IS_BUSY_LOW]. mrun.
  rewrite H0, H1, H2, H3, H4. reflexivity.
Qed.

Lemma upnf_4in2_run k len x y w h d :
  aligned_in 400 300 x y w h -> x < 256 ->
  Epd4in2.update_partial_new_frame k len x y w h d =
    (Some tt, d, [ICall (IWait true); ICall (ICmd 0x90)] ++ map lit1 (wb_4in2 x y w h) ++
                 [ICall (ICmd 0x13); ICall (IData (DArg k 0 0 len)); ICall (ICmd 0x92)]).
Proof.
  intros (Hx & Hw & Hw0 & Hh0 & Hxw & Hyh) Hx8. arith_4in2 x y w h Hx Hx8.
  cbv [Epd4in2.update_partial_new_frame Epd4in2.shift_display Epd4in2.buffer_size_check Epd4in2.send_data
       Epd4in2.command Epd4in2.wait_until_idle Epd4in2.IS_BUSY_LOW]. mrun.
  rewrite H0, H1, H2, H3, H4. reflexivity.
Qed.

Definition fill_4in2 (d : dstate) : N := Epd4in2.get_byte_value (bg d).

Lemma cpf_4in2_run x y w h d :
  aligned_in 400 300 x y w h -> x < 256 ->
  Epd4in2.clear_partial_frame x y w h d =
    (Some tt, d, [ICall (IWait true); ICall (ICmd 0x61)] ++ map lit1 [1; 144; 1; 44] ++
                 [ICall (ICmd 0x91); ICall (ICmd 0x90)] ++ map lit1 (wb_4in2 x y w h) ++
                 [ICall (ICmd 0x10); ICall (IDataX (fill_4in2 d) (w / 8 * h));
                  ICall (ICmd 0x13); ICall (IDataX (fill_4in2 d) (w / 8 * h)); ICall (ICmd 0x92)]).
Proof.
  intros (Hx & Hw & Hw0 & Hh0 & Hxw & Hyh) Hx8. arith_4in2 x y w h Hx Hx8.
  cbv [Epd4in2.clear_partial_frame Epd4in2.shift_display Epd4in2.send_resolution Epd4in2.send_data
       Epd4in2.command Epd4in2.wait_until_idle Epd4in2.IS_BUSY_LOW]. mrun.
  rewrite H0, H1, H2, H3, H4. reflexivity.
Qed.

Lemma ctl_4in2_upof k len b0 b1 b2 b3 b4 b5 b6 b7 b8 c : idle c ->
  let r := ccall cp4 c ([IWait true; ICmd 0x91; ICmd 0x90] ++ map dl [b0;b1;b2;b3;b4;b5;b6;b7;b8] ++
                        [ICmd 0x10; IData (DArg k 0 0 len)]) in
  filter isb (snd r) = [EBurstUc 0x10 P1 (area9 b0 b1 b2 b3 b4 b5 b6 b7) [SData (DArg k 0 0 len)]]
  /\ chk_stray (snd r) = [] /\ patterns (snd r) = []
  /\ c_partial (fst r) = true
  /\ mkArea true (c_px0 (fst r)) (c_px1 (fst r)) (c_py0 (fst r)) (c_py1 (fst r)) = area9 b0 b1 b2 b3 b4 b5 b6 b7
  /\ idle (fst r).
Proof. intros I. idle_destruct c I. repeat split. Qed.

Lemma ctl_4in2_upnf k len b0 b1 b2 b3 b4 b5 b6 b7 b8 c : idle c -> c_partial c = true ->
  let r := ccall cp4 c ([IWait true; ICmd 0x90] ++ map dl [b0;b1;b2;b3;b4;b5;b6;b7;b8] ++
                        [ICmd 0x13; IData (DArg k 0 0 len); ICmd 0x92]) in
  filter isb (snd r) = [EBurstUc 0x13 P2 (area9 b0 b1 b2 b3 b4 b5 b6 b7) [SData (DArg k 0 0 len)]]
  /\ chk_stray (snd r) = [] /\ patterns (snd r) = []
  /\ c_partial (fst r) = false /\ idle (fst r).
Proof. intros I Hp. idle_destruct c I. cbv [c_partial] in Hp. subst partial0. repeat split. Qed.

Lemma ctl_4in2_cpf v1 n1 v2 n2 b0 b1 b2 b3 b4 b5 b6 b7 b8 c : idle c ->
  let r := ccall cp4 c ([IWait true; ICmd 0x61] ++ map dl [1; 144; 1; 44] ++ [ICmd 0x91; ICmd 0x90] ++
                        map dl [b0;b1;b2;b3;b4;b5;b6;b7;b8] ++
                        [ICmd 0x10; IDataX v1 n1; ICmd 0x13; IDataX v2 n2; ICmd 0x92]) in
  filter isb (snd r) = [EBurstUc 0x10 P1 (area9 b0 b1 b2 b3 b4 b5 b6 b7) [SFill v1 n1];
                        EBurstUc 0x13 P2 (area9 b0 b1 b2 b3 b4 b5 b6 b7) [SFill v2 n2]]
  /\ chk_stray (snd r) = [] /\ patterns (snd r) = []
  /\ c_partial (fst r) = false /\ idle (fst r).
Proof. intros I. idle_destruct c I. repeat split. Qed.

Theorem epd4in2_update_partial_old_frame_window k len x y w h c d :
  aligned_in 400 300 x y w h -> x < 256 -> len = w / 8 * h -> idle c ->
  exists c', c06_call spec_4in2 (Epd4in2.update_partial_old_frame k len x y w h) k true len x y w h d c
                      [EBurstUc 0x10 P1 (win_area x y w h) [SData (DArg k 0 0 len)]] d c'
             /\ idle c' /\ win_programmed c' x y w h.
Proof.
  intros A Hx8 Hlen I.
  pose proof (area9_4in2 x y w h A Hx8) as AR. cbv [wb_4in2] in AR.
  lazymatch type of AR with area9 ?b0 ?b1 ?b2 ?b3 ?b4 ?b5 ?b6 ?b7 = _ =>
    pose proof (ctl_4in2_upof k len b0 b1 b2 b3 b4 b5 b6 b7 1 c I) as R end.
  cbv zeta in R. rewrite AR in R. destruct R as (Rb & Rs & Rp & Rpart & Rwin & Rid).
  eexists. split; [|split; [exact Rid | split; [exact Rpart | exact Rwin]]].
  eapply c06_call_intro; [apply (upof_4in2_run k len x y w h d A Hx8) | reflexivity | exact Rb | exact Rs | exact Rp | discriminate | | ].
  - one_burst_ok Hlen.
  - payload_buf BId.
Qed.

(** the new-image half relies on the partial mode the old-image half has entered (it does not send 0x91) *)
Theorem epd4in2_update_partial_new_frame_window k len x y w h c d :
  aligned_in 400 300 x y w h -> x < 256 -> len = w / 8 * h -> idle c -> c_partial c = true ->
  exists c', c06_call spec_4in2 (Epd4in2.update_partial_new_frame k len x y w h) k true len x y w h d c
                      [EBurstUc 0x13 P2 (win_area x y w h) [SData (DArg k 0 0 len)]] d c'
             /\ idle c' /\ c_partial c' = false.
Proof.
  intros A Hx8 Hlen I Hpart.
  pose proof (area9_4in2 x y w h A Hx8) as AR. cbv [wb_4in2] in AR.
  lazymatch type of AR with area9 ?b0 ?b1 ?b2 ?b3 ?b4 ?b5 ?b6 ?b7 = _ =>
    pose proof (ctl_4in2_upnf k len b0 b1 b2 b3 b4 b5 b6 b7 1 c I Hpart) as R end.
  cbv zeta in R. rewrite AR in R. destruct R as (Rb & Rs & Rp & Rpart & Rid).
  eexists. split; [|split; [exact Rid | exact Rpart]].
  eapply c06_call_intro; [apply (upnf_4in2_run k len x y w h d A Hx8) | reflexivity | exact Rb | exact Rs | exact Rp | discriminate | | ].
  - one_burst_ok Hlen.
  - payload_buf BId.
Qed.

(** the documented pair: old image then new image of the same window (call indices k1, k2) *)
Theorem epd4in2_partial_pair_window k1 k2 len x y w h c d :
  aligned_in 400 300 x y w h -> x < 256 -> len = w / 8 * h -> idle c ->
  exists c1 c2,
    c06_call spec_4in2 (Epd4in2.update_partial_old_frame k1 len x y w h) k1 true len x y w h d c
             [EBurstUc 0x10 P1 (win_area x y w h) [SData (DArg k1 0 0 len)]] d c1 /\
    c06_call spec_4in2 (Epd4in2.update_partial_new_frame k2 len x y w h) k2 true len x y w h d c1
             [EBurstUc 0x13 P2 (win_area x y w h) [SData (DArg k2 0 0 len)]] d c2 /\
    idle c2 /\ c_partial c2 = false.
Proof.
  intros A Hx8 Hlen I.
  destruct (epd4in2_update_partial_old_frame_window k1 len x y w h c d A Hx8 Hlen I) as (c1 & H1 & I1 & P1 & _).
  destruct (epd4in2_update_partial_new_frame_window k2 len x y w h c1 d A Hx8 Hlen I1 P1) as (c2 & H2 & I2 & P2).
  exists c1, c2. auto.
Qed.

Theorem epd4in2_clear_partial_frame_window k x y w h c d :
  aligned_in 400 300 x y w h -> x < 256 -> idle c ->
  exists c', c06_call spec_4in2 (Epd4in2.clear_partial_frame x y w h) k false 0 x y w h d c
                      [EBurstUc 0x10 P1 (win_area x y w h) [SFill (fill_4in2 d) (w / 8 * h)];
                       EBurstUc 0x13 P2 (win_area x y w h) [SFill (fill_4in2 d) (w / 8 * h)]] d c'
             /\ idle c' /\ c_partial c' = false.
Proof.
  intros A Hx8 I.
  pose proof (area9_4in2 x y w h A Hx8) as AR. cbv [wb_4in2] in AR.
  lazymatch type of AR with area9 ?b0 ?b1 ?b2 ?b3 ?b4 ?b5 ?b6 ?b7 = _ =>
    pose proof (ctl_4in2_cpf (fill_4in2 d) (w / 8 * h) (fill_4in2 d) (w / 8 * h) b0 b1 b2 b3 b4 b5 b6 b7 1 c I) as R end.
  cbv zeta in R. rewrite AR in R. destruct R as (Rb & Rs & Rp & Rpart & Rid).
  eexists. split; [|split; [exact Rid | exact Rpart]].
  assert (Hn : w / 8 * h <> 0) by (destruct A as (Hx & Hw & Hw0 & Hh0 & Hxw & Hyh); nia).
  eapply c06_call_intro; [apply (cpf_4in2_run x y w h d A Hx8) | reflexivity | exact Rb | exact Rs | exact Rp | discriminate | | ].
  - constructor; [|constructor; [|constructor]]; (apply burst_ok_uc; [reflexivity|]; cbv [segslen fold_left seglen]; lia).
  - constructor; [|constructor; [|constructor]]; eexists; apply sym_uniform_fill; exact Hn.
Qed.

(** *** the known finding: for x >= 256 bit 8 of x is lost in the window end; witness x = 264 *)
Definition epd4in2_update_partial_frame_window_any_x_stmt : Prop :=
  forall k len x y w h c d,
    aligned_in 400 300 x y w h -> len = w / 8 * h -> idle c ->
    exists t d' c' es,
      Epd4in2.update_partial_frame k len x y w h d = (Some tt, d', t) /\
      ccall (ps_cp spec_4in2) c (calls t) = (c', es) /\
      chk_c06 spec_4in2 sym k true len x y w h es = [].

Lemma epd4in2_update_partial_frame_window_any_x_refuted : ~ epd4in2_update_partial_frame_window_any_x_stmt.
Proof.
  intros S.
  destruct (S 1 1 264 0 8 1 (por (ps_cp spec_4in2)) d0) as (t & d' & c' & es & Hm & Hc & Hk).
  - repeat split; try reflexivity; intros E; discriminate E.
  - reflexivity.
  - split; reflexivity.
  - vm_compute in Hm. injection Hm as _ <-. vm_compute in Hc. injection Hc as _ <-. vm_compute in Hk. discriminate Hk.
Qed.

(** what the model does program for that window: field 2 (the window end column) is wrong *)
Lemma epd4in2_update_partial_frame_x264 :
  match Epd4in2.update_partial_frame 1 1 264 0 8 1 d0 with
  | (Some _, _, t) => chk_c06 spec_4in2 sym 1 true 1 264 0 8 1 (snd (ccall (ps_cp spec_4in2) (por (ps_cp spec_4in2)) (calls t)))
  | _ => []
  end = [ClWindow 2].
Proof. vm_compute. reflexivity. Qed.

(** * epd1in02 (UC8175-type, five-byte window block of command 0x90: one byte per field) *)
Definition cp1 := ps_cp spec_1in02.
Definition wb_1in02 (x y w h : N) : list N := [u8 x; u8 (x + w - 1); u8 y; u8 (y + h - 1); 0].
Definition area5 (b0 b1 b2 b3 : N) : area := mkArea true (b0 / 8) (b1 / 8) b2 b3.

(** byte-level window lemma *)
Lemma wb_1in02_decode x y w h :
  aligned_in 80 128 x y w h ->
  wb_1in02 x y w h = [x; x + w - 1; y; y + h - 1; 0].
Proof.
  intros (Hx & Hw & Hw0 & Hh0 & Hxw & Hyh). cbv [wb_1in02].
  rewrite !u8_small by lia. reflexivity.
Qed.

Lemma area5_1in02 x y w h :
  aligned_in 80 128 x y w h ->
  match wb_1in02 x y w h with
  | [b0; b1; b2; b3; b4] => area5 b0 b1 b2 b3 = win_area x y w h
  | _ => False
  end.
Proof.
  intros A. rewrite (wb_1in02_decode x y w h A). destruct A as (Hx & Hw & Hw0 & Hh0 & Hxw & Hyh).
  unfold area5, win_area. f_equal. lia.
Qed.

(** what [set_partial_mode] / [set_full_mode] send, depending on the driver's refresh_mode field *)
Definition pm_items_1in02 (d : dstate) : list item :=
  if refresh d =? 1 then []
  else [ICall (ICmd 0x91);
        ICall (ICmd 0x23); ICall (IData (DLit epd1in02_LUT_PARTIAL_UPDATE_WHITE));
        ICall (ICmd 0x24); ICall (IData (DLit epd1in02_LUT_PARTIAL_UPDATE_BLACK));
        ISet (set_refresh 1 d)].
Definition pm_d_1in02 (d : dstate) : dstate := if refresh d =? 1 then d else set_refresh 1 d.
Definition fm_items_1in02 (d : dstate) : list item :=
  if refresh d =? 0 then []
  else [ICall (ICmd 0x92);
        ICall (ICmd 0x23); ICall (IData (DLit epd1in02_LUT_FULL_UPDATE_WHITE));
        ICall (ICmd 0x24); ICall (IData (DLit epd1in02_LUT_FULL_UPDATE_BLACK));
        ISet (set_refresh 0 d)].
Definition fm_d_1in02 (d : dstate) : dstate := if refresh d =? 0 then d else set_refresh 0 d.

Ltac arith_1in02 x y w h :=
  assert (H1 : (x + w <? u32max) = true) by (apply N.ltb_lt; unfold u32max; lia);
  assert (H2 : (x + w <=? 80) = true) by (apply N.leb_le; lia);
  assert (H3 : (y + h <? u32max) = true) by (apply N.ltb_lt; unfold u32max; lia);
  assert (H4 : (y + h <=? 128) = true) by (apply N.leb_le; lia);
  assert (H5 : (x mod 8 =? 0) = true) by (apply N.eqb_eq; lia);
  assert (H6 : (w mod 8 =? 0) = true) by (apply N.eqb_eq; lia);
  assert (H7 : (1 <=? x + w) = true) by (apply N.leb_le; lia);
  assert (H8 : (1 <=? y + h) = true) by (apply N.leb_le; lia).

Lemma upof_1in02_run k len x y w h d :
  aligned_in 80 128 x y w h -> len = w / 8 * h ->
  Epd1in02.update_partial_old_frame k len x y w h d =
    (Some tt, pm_d_1in02 d,
     pm_items_1in02 d ++ [ICall (ICmd 0x90); ICall (IData (DLit (wb_1in02 x y w h)));
                          ICall (ICmd 0x10); ICall (IData (DArg k 0 0 len))]).
Proof.
  intros (Hx & Hw & Hw0 & Hh0 & Hxw & Hyh) Hlen. arith_1in02 x y w h.
  assert (H9 : ((w + 7) / 8 * h =? len) = true) by (apply N.eqb_eq; rewrite Hlen; f_equal; lia).
  cbv [Epd1in02.update_partial_old_frame Epd1in02.is_buffer_size_ok Epd1in02.buffer_len Epd1in02.set_partial_mode
       Epd1in02.set_partial_window Epd1in02.is_window_size_ok Epd1in02.set_lut Epd1in02.command
       Epd1in02.WIDTH Epd1in02.HEIGHT pm_d_1in02 pm_items_1in02 wb_1in02].
  rewrite H9. destruct (refresh d =? 1) eqn:Er; mrun; rewrite ?Er; cbv [negb]; cbv beta iota;
    rewrite H1, H2, H3, H4, H5, H6, H7, H8; reflexivity.
Qed.

Lemma upnf_1in02_run k len x y w h d :
  aligned_in 80 128 x y w h -> len = w / 8 * h ->
  Epd1in02.update_partial_new_frame k len x y w h d =
    (Some tt, d, [ICall (ICmd 0x13); ICall (IData (DArg k 0 0 len))]).
Proof.
  intros (Hx & Hw & Hw0 & Hh0 & Hxw & Hyh) Hlen.
  assert (H9 : ((w + 7) / 8 * h =? len) = true) by (apply N.eqb_eq; rewrite Hlen; f_equal; lia).
  cbv [Epd1in02.update_partial_new_frame Epd1in02.is_buffer_size_ok Epd1in02.buffer_len].
  rewrite H9. reflexivity.
Qed.

Definition fill_1in02 (d : dstate) : N := Epd1in02.get_byte_value (bg d).

Lemma cpf_1in02_run x y w h d :
  aligned_in 80 128 x y w h ->
  Epd1in02.clear_partial_frame x y w h d =
    (Some tt, fm_d_1in02 d,
     [ICall (IWait true)] ++ fm_items_1in02 d ++
     [ICall (ICmd 0x91); ICall (ICmd 0x90); ICall (IData (DLit (wb_1in02 x y w h)));
      ICall (ICmd 0x10); ICall (IDataX (Epd1in02.not8 (fill_1in02 d)) (w / 8 * h));
      ICall (ICmd 0x13); ICall (IDataX (fill_1in02 d) (w / 8 * h)); ICall (ICmd 0x92)]).
Proof.
  intros (Hx & Hw & Hw0 & Hh0 & Hxw & Hyh). arith_1in02 x y w h.
  assert (H9 : (w + 7) / 8 * h mod u32max = w / 8 * h).
  { replace ((w + 7) / 8) with (w / 8) by lia. apply N.mod_small. unfold u32max. nia. }
  cbv [Epd1in02.clear_partial_frame Epd1in02.buffer_len Epd1in02.set_full_mode
       Epd1in02.set_partial_window Epd1in02.is_window_size_ok Epd1in02.set_lut Epd1in02.command
       Epd1in02.wait_until_idle Epd1in02.IS_BUSY_LOW
       Epd1in02.WIDTH Epd1in02.HEIGHT fm_d_1in02 fm_items_1in02 wb_1in02 fill_1in02].
  rewrite H9. destruct (refresh d =? 0) eqn:Er; mrun; rewrite ?Er; cbv [negb]; cbv beta iota;
    rewrite H1, H2, H3, H4, H5, H6, H7, H8; reflexivity.
Qed.

Definition pm_calls_1in02 (sent : bool) : list icall :=
  if sent then [ICmd 0x91; ICmd 0x23; IData (DLit epd1in02_LUT_PARTIAL_UPDATE_WHITE);
                ICmd 0x24; IData (DLit epd1in02_LUT_PARTIAL_UPDATE_BLACK)] else [].
Definition fm_calls_1in02 (sent : bool) : list icall :=
  if sent then [ICmd 0x92; ICmd 0x23; IData (DLit epd1in02_LUT_FULL_UPDATE_WHITE);
                ICmd 0x24; IData (DLit epd1in02_LUT_FULL_UPDATE_BLACK)] else [].

Lemma pm_calls_1in02_ok d : calls (pm_items_1in02 d) = pm_calls_1in02 (negb (refresh d =? 1)).
Proof. unfold pm_items_1in02. destruct (refresh d =? 1); reflexivity. Qed.
Lemma fm_calls_1in02_ok d : calls (fm_items_1in02 d) = fm_calls_1in02 (negb (refresh d =? 0)).
Proof. unfold fm_items_1in02. destruct (refresh d =? 0); reflexivity. Qed.

Lemma calls_app a b : calls (a ++ b) = calls a ++ calls b.
Proof. induction a as [|i a IH]; [reflexivity|]. destruct i; cbn [calls app]; rewrite IH; reflexivity. Qed.

(** old image: partial mode is entered here (0x91 sent) or was entered before (the driver's
    refresh_mode field says Quick and the controller is in partial mode) *)
Lemma ctl_1in02_upof k len b0 b1 b2 b3 b4 sent c : idle c -> (sent = false -> c_partial c = true) ->
  let r := ccall cp1 c (pm_calls_1in02 sent ++ [ICmd 0x90; IData (DLit [b0;b1;b2;b3;b4]); ICmd 0x10; IData (DArg k 0 0 len)]) in
  filter isb (snd r) = [EBurstUc 0x10 P1 (area5 b0 b1 b2 b3) [SData (DArg k 0 0 len)]]
  /\ chk_stray (snd r) = [] /\ patterns (snd r) = []
  /\ c_partial (fst r) = true
  /\ mkArea true (c_px0 (fst r)) (c_px1 (fst r)) (c_py0 (fst r)) (c_py1 (fst r)) = area5 b0 b1 b2 b3
  /\ idle (fst r).
Proof.
  intros I Hp. idle_destruct c I. cbv [c_partial] in Hp.
  destruct sent; [|rewrite (Hp eq_refl)]; destruct pending0; destruct len; repeat split.
Qed.

Lemma ctl_1in02_upnf k len c : idle c -> c_partial c = true ->
  let r := ccall cp1 c [ICmd 0x13; IData (DArg k 0 0 len)] in
  filter isb (snd r) = [EBurstUc 0x13 P2 (mkArea true (c_px0 c) (c_px1 c) (c_py0 c) (c_py1 c)) [SData (DArg k 0 0 len)]]
  /\ chk_stray (snd r) = [] /\ patterns (snd r) = []
  /\ c_partial (fst r) = true
  /\ mkArea true (c_px0 (fst r)) (c_px1 (fst r)) (c_py0 (fst r)) (c_py1 (fst r)) = mkArea true (c_px0 c) (c_px1 c) (c_py0 c) (c_py1 c)
  /\ idle (fst r).
Proof.
  intros I Hp. idle_destruct c I. cbv [c_partial] in Hp. subst partial0.
  destruct pending0; destruct len; repeat split.
Qed.

Lemma ctl_1in02_cpf v1 n1 v2 n2 b0 b1 b2 b3 b4 sent c : idle c ->
  let r := ccall cp1 c ([IWait true] ++ fm_calls_1in02 sent ++
                        [ICmd 0x91; ICmd 0x90; IData (DLit [b0;b1;b2;b3;b4]);
                         ICmd 0x10; IDataX v1 n1; ICmd 0x13; IDataX v2 n2; ICmd 0x92]) in
  filter isb (snd r) = [EBurstUc 0x10 P1 (area5 b0 b1 b2 b3) [SFill v1 n1];
                        EBurstUc 0x13 P2 (area5 b0 b1 b2 b3) [SFill v2 n2]]
  /\ chk_stray (snd r) = [] /\ patterns (snd r) = []
  /\ c_partial (fst r) = false /\ idle (fst r).
Proof. intros I. idle_destruct c I. destruct sent; repeat split. Qed.

(** the driver's refresh_mode field agrees with the controller's partial flag as far as the
    old-image half needs it: if the driver believes it is in Quick mode it does not send 0x91 again *)
Definition quick_agrees (d : dstate) (c : cstate) : Prop := refresh d = 1 -> c_partial c = true.

Theorem epd1in02_update_partial_old_frame_window k len x y w h c d :
  aligned_in 80 128 x y w h -> len = w / 8 * h -> idle c -> quick_agrees d c ->
  exists d' c', c06_call spec_1in02 (Epd1in02.update_partial_old_frame k len x y w h) k true len x y w h d c
                      [EBurstUc 0x10 P1 (win_area x y w h) [SData (DArg k 0 0 len)]] d' c'
             /\ idle c' /\ win_programmed c' x y w h /\ refresh d' = 1.
Proof.
  intros A Hlen I Q.
  pose proof (area5_1in02 x y w h A) as AR. cbv [wb_1in02] in AR.
  assert (Hs : negb (refresh d =? 1) = false -> c_partial c = true).
  { intros E. apply Q. apply N.eqb_eq. destruct (refresh d =? 1); [reflexivity | discriminate E]. }
  lazymatch type of AR with area5 ?b0 ?b1 ?b2 ?b3 = _ =>
    pose proof (ctl_1in02_upof k len b0 b1 b2 b3 0 (negb (refresh d =? 1)) c I Hs) as R end.
  cbv zeta in R. rewrite AR in R. destruct R as (Rb & Rs & Rp & Rpart & Rwin & Rid).
  eexists. eexists. split; [|split; [exact Rid | split; [split; [exact Rpart | exact Rwin] | ]]].
  - eapply c06_call_intro; [apply (upof_1in02_run k len x y w h d A Hlen) | | exact Rb | exact Rs | exact Rp | discriminate | | ].
    + rewrite calls_app, pm_calls_1in02_ok. reflexivity.
    + one_burst_ok Hlen.
    + payload_buf BId.
  - unfold pm_d_1in02. destruct (refresh d =? 1) eqn:Er; [apply N.eqb_eq; exact Er | reflexivity].
Qed.

(** the new-image half sends no window of its own: it fills the window the old-image half programmed *)
Theorem epd1in02_update_partial_new_frame_window k len x y w h c d :
  aligned_in 80 128 x y w h -> len = w / 8 * h -> idle c -> win_programmed c x y w h ->
  exists c', c06_call spec_1in02 (Epd1in02.update_partial_new_frame k len x y w h) k true len x y w h d c
                      [EBurstUc 0x13 P2 (win_area x y w h) [SData (DArg k 0 0 len)]] d c'
             /\ idle c' /\ win_programmed c' x y w h.
Proof.
  intros A Hlen I [Hpart Hwin].
  pose proof (ctl_1in02_upnf k len c I Hpart) as R.
  cbv zeta in R. rewrite Hwin in R. destruct R as (Rb & Rs & Rp & Rpart & Rwin & Rid).
  eexists. split; [|split; [exact Rid | split; [exact Rpart | exact Rwin]]].
  eapply c06_call_intro; [apply (upnf_1in02_run k len x y w h d A Hlen) | reflexivity | exact Rb | exact Rs | exact Rp | discriminate | | ].
  - one_burst_ok Hlen.
  - payload_buf BId.
Qed.

Theorem epd1in02_partial_pair_window k1 k2 len x y w h c d :
  aligned_in 80 128 x y w h -> len = w / 8 * h -> idle c -> quick_agrees d c ->
  exists d1 c1 c2,
    c06_call spec_1in02 (Epd1in02.update_partial_old_frame k1 len x y w h) k1 true len x y w h d c
             [EBurstUc 0x10 P1 (win_area x y w h) [SData (DArg k1 0 0 len)]] d1 c1 /\
    c06_call spec_1in02 (Epd1in02.update_partial_new_frame k2 len x y w h) k2 true len x y w h d1 c1
             [EBurstUc 0x13 P2 (win_area x y w h) [SData (DArg k2 0 0 len)]] d1 c2 /\
    idle c2 /\ win_programmed c2 x y w h /\ quick_agrees d1 c2.
Proof.
  intros A Hlen I Q.
  destruct (epd1in02_update_partial_old_frame_window k1 len x y w h c d A Hlen I Q) as (d1 & c1 & H1 & I1 & W1 & R1).
  destruct (epd1in02_update_partial_new_frame_window k2 len x y w h c1 d1 A Hlen I1 W1) as (c2 & H2 & I2 & W2).
  exists d1, c1, c2. split; [exact H1|]. split; [exact H2|]. split; [exact I2|]. split; [exact W2|].
  intros _. apply W2.
Qed.

Theorem epd1in02_clear_partial_frame_window k x y w h c d :
  aligned_in 80 128 x y w h -> idle c ->
  exists d' c', c06_call spec_1in02 (Epd1in02.clear_partial_frame x y w h) k false 0 x y w h d c
                      [EBurstUc 0x10 P1 (win_area x y w h) [SFill (Epd1in02.not8 (fill_1in02 d)) (w / 8 * h)];
                       EBurstUc 0x13 P2 (win_area x y w h) [SFill (fill_1in02 d) (w / 8 * h)]] d' c'
             /\ idle c' /\ c_partial c' = false /\ refresh d' = 0.
Proof.
  intros A I.
  pose proof (area5_1in02 x y w h A) as AR. cbv [wb_1in02] in AR.
  lazymatch type of AR with area5 ?b0 ?b1 ?b2 ?b3 = _ =>
    pose proof (ctl_1in02_cpf (Epd1in02.not8 (fill_1in02 d)) (w / 8 * h) (fill_1in02 d) (w / 8 * h)
                              b0 b1 b2 b3 0 (negb (refresh d =? 0)) c I) as R end.
  cbv zeta in R. rewrite AR in R. destruct R as (Rb & Rs & Rp & Rpart & Rid).
  assert (Hn : w / 8 * h <> 0) by (destruct A as (Hx & Hw & Hw0 & Hh0 & Hxw & Hyh); nia).
  eexists. eexists. split; [|split; [exact Rid | split; [exact Rpart | ]]].
  - eapply c06_call_intro; [apply (cpf_1in02_run x y w h d A) | | exact Rb | exact Rs | exact Rp | discriminate | | ].
    + rewrite !calls_app, fm_calls_1in02_ok. reflexivity.
    + constructor; [|constructor; [|constructor]]; (apply burst_ok_uc; [reflexivity|]; cbv [segslen fold_left seglen]; lia).
    + constructor; [|constructor; [|constructor]]; eexists; apply sym_uniform_fill; exact Hn.
  - unfold fm_d_1in02. destruct (refresh d =? 0) eqn:Er; [apply N.eqb_eq; exact Er | reflexivity].
Qed.

(** * epd2in7 / epd2in7b (partial data commands 0x14 / 0x15: eight bytes x, y, w, l then the pixels) *)
Definition cp27 := ps_cp spec_2in7.
Definition cp27b := ps_cp spec_2in7b.
Definition wb_2in7 (x y w h : N) : list N :=
  [u8 (shr x 8); u8 (band x 0xf8); u8 (shr y 8); u8 (band y 0xff);
   u8 (shr w 8); u8 (band w 0xf8); u8 (shr h 8); u8 (band h 0xff)].
Definition area8 (b0 b1 b2 b3 b4 b5 b6 b7 : N) : area :=
  let x := be16 b0 b1 in let y := be16 b2 b3 in let w := be16 b4 b5 in let l := be16 b6 b7 in
  mkArea true (x / 8) ((x + w) / 8 - 1) y (y + l - 1).

(** byte-level window lemma: the eight bytes decode (big endian) to x, y, w, h *)
Lemma wb_2in7_decode x y w h :
  aligned_in 176 264 x y w h ->
  match wb_2in7 x y w h with
  | [b0; b1; b2; b3; b4; b5; b6; b7] => be16 b0 b1 = x /\ be16 b2 b3 = y /\ be16 b4 b5 = w /\ be16 b6 b7 = h
  | _ => False
  end.
Proof.
  intros (Hx & Hw & Hw0 & Hh0 & Hxw & Hyh). cbv [wb_2in7].
  rewrite (band_f8 x) by lia. rewrite (band_f8 w) by lia. rewrite !band_ff, !shr8.
  unfold be16, u8. repeat split; lia.
Qed.

Lemma area8_2in7 x y w h :
  aligned_in 176 264 x y w h ->
  match wb_2in7 x y w h with
  | [b0; b1; b2; b3; b4; b5; b6; b7] => area8 b0 b1 b2 b3 b4 b5 b6 b7 = win_area x y w h
  | _ => False
  end.
Proof.
  intros A. pose proof (wb_2in7_decode x y w h A) as D. cbv [wb_2in7] in *.
  destruct D as (D1 & D2 & D3 & D4). unfold area8. rewrite D1, D2, D3, D4. reflexivity.
Qed.

Lemma upf_2in7_run k len x y w h d :
  Epd2in7.update_partial_frame k len x y w h d =
    (Some tt, d, [ICall (ICmd 0x14)] ++ map lit1 (wb_2in7 x y w h) ++ [ICall (IWait true); ICall (IData (DArg k 0 0 len))]).
Proof. reflexivity. Qed.

Lemma send_window_2in7b_run x y w h d :
  Epd2in7b.send_window x y w h d = (Some tt, d, map lit1 (wb_2in7 x y w h)).
Proof. reflexivity. Qed.

Definition each_not (k len : N) : icall := IDataEach BNot 1%positive (DArg k 0 0 len).

Lemma upf_2in7b_run k len x y w h d :
  Epd2in7b.update_partial_frame k len x y w h d =
    (Some tt, d, [ICall (ICmd 0x14)] ++ map lit1 (wb_2in7 x y w h) ++
                 [ICall (IWait true); ICall (each_not k len); ICall (ICmd 0x11)]).
Proof. reflexivity. Qed.
Lemma upaf_2in7b_run k len x y w h d :
  Epd2in7b.update_partial_achromatic_frame k len x y w h d =
    (Some tt, d, [ICall (ICmd 0x14)] ++ map lit1 (wb_2in7 x y w h) ++ [ICall (IWait true); ICall (each_not k len)]).
Proof. reflexivity. Qed.
Lemma upcf_2in7b_run k len x y w h d :
  Epd2in7b.update_partial_chromatic_frame k len x y w h d =
    (Some tt, d, [ICall (ICmd 0x15)] ++ map lit1 (wb_2in7 x y w h) ++ [ICall (IWait true); ICall (each_not k len)]).
Proof. reflexivity. Qed.

Lemma ctl_2in7_upf k len b0 b1 b2 b3 b4 b5 b6 b7 c : idle c ->
  let r := ccall cp27 c ([ICmd 0x14] ++ map dl [b0;b1;b2;b3;b4;b5;b6;b7] ++ [IWait true; IData (DArg k 0 0 len)]) in
  filter isb (snd r) = [EBurstUc 0x14 P1 (area8 b0 b1 b2 b3 b4 b5 b6 b7) [SData (DArg k 0 0 len)]]
  /\ chk_stray (snd r) = [] /\ patterns (snd r) = [] /\ idle (fst r).
Proof. intros I. idle_destruct c I. destruct pending0; repeat split. Qed.

Lemma ctl_2in7b_upf k len b0 b1 b2 b3 b4 b5 b6 b7 c : idle c ->
  let r := ccall cp27b c ([ICmd 0x14] ++ map dl [b0;b1;b2;b3;b4;b5;b6;b7] ++ [IWait true; each_not k len; ICmd 0x11]) in
  filter isb (snd r) = [EBurstUc 0x14 P1 (area8 b0 b1 b2 b3 b4 b5 b6 b7) [SEach BNot (DArg k 0 0 len)]]
  /\ chk_stray (snd r) = [] /\ patterns (snd r) = [] /\ idle (fst r).
Proof. intros I. idle_destruct c I. destruct pending0; repeat split. Qed.

Lemma ctl_2in7b_upxf (cmd : N) k len b0 b1 b2 b3 b4 b5 b6 b7 c : idle c -> cmd = 0x14 \/ cmd = 0x15 ->
  let r := ccall cp27b c ([ICmd cmd] ++ map dl [b0;b1;b2;b3;b4;b5;b6;b7] ++ [IWait true; each_not k len]) in
  filter isb (snd r) = [EBurstUc cmd (if cmd =? 0x14 then P1 else P2) (area8 b0 b1 b2 b3 b4 b5 b6 b7) [SEach BNot (DArg k 0 0 len)]]
  /\ chk_stray (snd r) = [] /\ patterns (snd r) = [] /\ idle (fst r).
Proof. intros I [-> | ->]; idle_destruct c I; destruct pending0; repeat split. Qed.

Theorem epd2in7_update_partial_frame_window k len x y w h c d :
  aligned_in 176 264 x y w h -> len = w / 8 * h -> idle c ->
  exists c', c06_call spec_2in7 (Epd2in7.update_partial_frame k len x y w h) k true len x y w h d c
                      [EBurstUc 0x14 P1 (win_area x y w h) [SData (DArg k 0 0 len)]] d c'
             /\ idle c'.
Proof.
  intros A Hlen I.
  pose proof (area8_2in7 x y w h A) as AR. cbv [wb_2in7] in AR.
  lazymatch type of AR with area8 ?b0 ?b1 ?b2 ?b3 ?b4 ?b5 ?b6 ?b7 = _ =>
    pose proof (ctl_2in7_upf k len b0 b1 b2 b3 b4 b5 b6 b7 c I) as R end.
  cbv zeta in R. rewrite AR in R. destruct R as (Rb & Rs & Rp & Rid).
  eexists. split; [|exact Rid].
  eapply c06_call_intro; [apply (upf_2in7_run k len x y w h d) | reflexivity | exact Rb | exact Rs | exact Rp | discriminate | | ].
  - one_burst_ok Hlen.
  - payload_buf BId.
Qed.

Theorem epd2in7b_update_partial_frame_window k len x y w h c d :
  aligned_in 176 264 x y w h -> len = w / 8 * h -> idle c ->
  exists c', c06_call spec_2in7b (Epd2in7b.update_partial_frame k len x y w h) k true len x y w h d c
                      [EBurstUc 0x14 P1 (win_area x y w h) [SEach BNot (DArg k 0 0 len)]] d c'
             /\ idle c'.
Proof.
  intros A Hlen I.
  pose proof (area8_2in7 x y w h A) as AR. cbv [wb_2in7] in AR.
  lazymatch type of AR with area8 ?b0 ?b1 ?b2 ?b3 ?b4 ?b5 ?b6 ?b7 = _ =>
    pose proof (ctl_2in7b_upf k len b0 b1 b2 b3 b4 b5 b6 b7 c I) as R end.
  cbv zeta in R. rewrite AR in R. destruct R as (Rb & Rs & Rp & Rid).
  eexists. split; [|exact Rid].
  eapply c06_call_intro; [apply (upf_2in7b_run k len x y w h d) | reflexivity | exact Rb | exact Rs | exact Rp | discriminate | | ].
  - one_burst_ok Hlen.
  - payload_buf BNot.
Qed.

Theorem epd2in7b_update_partial_achromatic_frame_window k len x y w h c d :
  aligned_in 176 264 x y w h -> len = w / 8 * h -> idle c ->
  exists c', c06_call spec_2in7b (Epd2in7b.update_partial_achromatic_frame k len x y w h) k true len x y w h d c
                      [EBurstUc 0x14 P1 (win_area x y w h) [SEach BNot (DArg k 0 0 len)]] d c'
             /\ idle c'.
Proof.
  intros A Hlen I.
  pose proof (area8_2in7 x y w h A) as AR. cbv [wb_2in7] in AR.
  lazymatch type of AR with area8 ?b0 ?b1 ?b2 ?b3 ?b4 ?b5 ?b6 ?b7 = _ =>
    pose proof (ctl_2in7b_upxf 0x14 k len b0 b1 b2 b3 b4 b5 b6 b7 c I (or_introl eq_refl)) as R end.
  cbv zeta in R. rewrite AR in R. destruct R as (Rb & Rs & Rp & Rid).
  eexists. split; [|exact Rid].
  eapply c06_call_intro; [apply (upaf_2in7b_run k len x y w h d) | reflexivity | exact Rb | exact Rs | exact Rp | discriminate | | ].
  - one_burst_ok Hlen.
  - payload_buf BNot.
Qed.

Theorem epd2in7b_update_partial_chromatic_frame_window k len x y w h c d :
  aligned_in 176 264 x y w h -> len = w / 8 * h -> idle c ->
  exists c', c06_call spec_2in7b (Epd2in7b.update_partial_chromatic_frame k len x y w h) k true len x y w h d c
                      [EBurstUc 0x15 P2 (win_area x y w h) [SEach BNot (DArg k 0 0 len)]] d c'
             /\ idle c'.
Proof.
  intros A Hlen I.
  pose proof (area8_2in7 x y w h A) as AR. cbv [wb_2in7] in AR.
  lazymatch type of AR with area8 ?b0 ?b1 ?b2 ?b3 ?b4 ?b5 ?b6 ?b7 = _ =>
    pose proof (ctl_2in7b_upxf 0x15 k len b0 b1 b2 b3 b4 b5 b6 b7 c I (or_intror eq_refl)) as R end.
  cbv zeta in R. rewrite AR in R. destruct R as (Rb & Rs & Rp & Rid).
  eexists. split; [|exact Rid].
  eapply c06_call_intro; [apply (upcf_2in7b_run k len x y w h d) | reflexivity | exact Rb | exact Rs | exact Rp | discriminate | | ].
  - one_burst_ok Hlen.
  - payload_buf BNot.
Qed.

(** * The same results in the vocabulary of Spec/Sys.v and Spec/Oracle.v: one [sys_op] step from ANY
      system state whose controller is idle, under the oracle's own precondition [aligned_inside] *)
Lemma aligned_inside_in P x y w h :
  aligned_inside P x y w h = true <-> aligned_in (cp_W (ps_cp P)) (cp_H (ps_cp P)) x y w h.
Proof.
  unfold aligned_inside, aligned_in. rewrite !andb_true_iff, !N.eqb_eq, !N.ltb_lt, !N.leb_le. tauto.
Qed.

(** [sys_op] succeeds and [chk_c06] has nothing to report on its effects *)
Definition sys_c06_ok (ft : feat) (P : pspec) (k : N) (s : sys) (o : op) (hb : bool) (len x y w h : N) (s' : sys) : Prop :=
  exists es ic, sys_op ft P k s o = OpOk s' es ic /\ chk_c06 P sym k hb len x y w h es = [].

Lemma sys_c06_ok_intro ft P m k hb len x y w h d c bs d' c' o :
  d_exec (drv_of ft P) k o = unit_ m ->
  c06_call P m k hb len x y w h d c bs d' c' ->
  sys_c06_ok ft P k (mkSys d c) o hb len x y w h (mkSys d' c').
Proof.
  intros He Hc. destruct (c06_call_sys_op ft P m k hb len x y w h d c bs d' c' o He Hc) as (es & ic & H1 & H2 & _).
  exists es, ic. split; assumption.
Qed.

Theorem epd4in2_sys_update_partial ft k len x y w h s :
  aligned_inside spec_4in2 x y w h = true -> x < 256 -> len = w / 8 * h -> idle (y_c s) ->
  exists s', sys_c06_ok ft spec_4in2 k s (OUpdatePartial len x y w h) true len x y w h s'
             /\ idle (y_c s') /\ c_partial (y_c s') = false.
Proof.
  intros A Hx Hl I. apply aligned_inside_in in A. destruct s as [d c]. cbn [y_c] in *.
  destruct (epd4in2_update_partial_frame_window k len x y w h c d A Hx Hl I) as (c' & H & I' & P').
  exists (mkSys d c'). split; [|split; assumption]. eapply sys_c06_ok_intro; [reflexivity | exact H].
Qed.

Theorem epd4in2_sys_partial_pair ft k1 k2 len x y w h s :
  aligned_inside spec_4in2 x y w h = true -> x < 256 -> len = w / 8 * h -> idle (y_c s) ->
  exists s1 s2,
    sys_c06_ok ft spec_4in2 k1 s (OUpdatePartialOld len x y w h) true len x y w h s1 /\
    sys_c06_ok ft spec_4in2 k2 s1 (OUpdatePartialNew len x y w h) true len x y w h s2 /\
    idle (y_c s2) /\ c_partial (y_c s2) = false.
Proof.
  intros A Hx Hl I. apply aligned_inside_in in A. destruct s as [d c]. cbn [y_c] in *.
  destruct (epd4in2_partial_pair_window k1 k2 len x y w h c d A Hx Hl I) as (c1 & c2 & H1 & H2 & I2 & P2).
  exists (mkSys d c1), (mkSys d c2). split; [|split; [|split; assumption]].
  - eapply sys_c06_ok_intro; [reflexivity | exact H1].
  - eapply sys_c06_ok_intro; [reflexivity | exact H2].
Qed.

Theorem epd4in2_sys_clear_partial ft k x y w h s :
  aligned_inside spec_4in2 x y w h = true -> x < 256 -> idle (y_c s) ->
  exists s', sys_c06_ok ft spec_4in2 k s (OClearPartial x y w h) false 0 x y w h s'
             /\ idle (y_c s') /\ c_partial (y_c s') = false.
Proof.
  intros A Hx I. apply aligned_inside_in in A. destruct s as [d c]. cbn [y_c] in *.
  destruct (epd4in2_clear_partial_frame_window k x y w h c d A Hx I) as (c' & H & I' & P').
  exists (mkSys d c'). split; [|split; assumption]. eapply sys_c06_ok_intro; [reflexivity | exact H].
Qed.

Theorem epd1in02_sys_partial_pair ft k1 k2 len x y w h s :
  aligned_inside spec_1in02 x y w h = true -> len = w / 8 * h -> idle (y_c s) -> quick_agrees (y_d s) (y_c s) ->
  exists s1 s2,
    sys_c06_ok ft spec_1in02 k1 s (OUpdatePartialOld len x y w h) true len x y w h s1 /\
    sys_c06_ok ft spec_1in02 k2 s1 (OUpdatePartialNew len x y w h) true len x y w h s2 /\
    idle (y_c s2) /\ quick_agrees (y_d s2) (y_c s2).
Proof.
  intros A Hl I Q. apply aligned_inside_in in A. destruct s as [d c]. cbn [y_c y_d] in *.
  destruct (epd1in02_partial_pair_window k1 k2 len x y w h c d A Hl I Q) as (d1 & c1 & c2 & H1 & H2 & I2 & _ & Q2).
  exists (mkSys d1 c1), (mkSys d1 c2). split; [|split; [|split; assumption]].
  - eapply sys_c06_ok_intro; [reflexivity | exact H1].
  - eapply sys_c06_ok_intro; [reflexivity | exact H2].
Qed.

Theorem epd1in02_sys_clear_partial ft k x y w h s :
  aligned_inside spec_1in02 x y w h = true -> idle (y_c s) ->
  exists s', sys_c06_ok ft spec_1in02 k s (OClearPartial x y w h) false 0 x y w h s'
             /\ idle (y_c s') /\ quick_agrees (y_d s') (y_c s').
Proof.
  intros A I. apply aligned_inside_in in A. destruct s as [d c]. cbn [y_c] in *.
  destruct (epd1in02_clear_partial_frame_window k x y w h c d A I) as (d' & c' & H & I' & P' & R').
  exists (mkSys d' c'). split; [|split; [assumption|]].
  - eapply sys_c06_ok_intro; [reflexivity | exact H].
  - cbn [y_d y_c]. intros E. rewrite R' in E. discriminate E.
Qed.

Theorem epd2in7_sys_update_partial ft k len x y w h s :
  aligned_inside spec_2in7 x y w h = true -> len = w / 8 * h -> idle (y_c s) ->
  exists s', sys_c06_ok ft spec_2in7 k s (OUpdatePartial len x y w h) true len x y w h s' /\ idle (y_c s').
Proof.
  intros A Hl I. apply aligned_inside_in in A. destruct s as [d c]. cbn [y_c] in *.
  destruct (epd2in7_update_partial_frame_window k len x y w h c d A Hl I) as (c' & H & I').
  exists (mkSys d c'). split; [|assumption]. eapply sys_c06_ok_intro; [reflexivity | exact H].
Qed.

Theorem epd2in7b_sys_update_partial ft k len x y w h s (o : op) :
  o = OUpdatePartial len x y w h \/ o = OUpdatePartialAchromatic len x y w h \/ o = OUpdatePartialChromatic len x y w h ->
  aligned_inside spec_2in7b x y w h = true -> len = w / 8 * h -> idle (y_c s) ->
  exists s', sys_c06_ok ft spec_2in7b k s o true len x y w h s' /\ idle (y_c s').
Proof.
  intros Ho A Hl I. apply aligned_inside_in in A. destruct s as [d c]. cbn [y_c] in *.
  destruct Ho as [-> | [-> | ->]].
  - destruct (epd2in7b_update_partial_frame_window k len x y w h c d A Hl I) as (c' & H & I').
    exists (mkSys d c'). split; [|assumption]. eapply sys_c06_ok_intro; [reflexivity | exact H].
  - destruct (epd2in7b_update_partial_achromatic_frame_window k len x y w h c d A Hl I) as (c' & H & I').
    exists (mkSys d c'). split; [|assumption]. eapply sys_c06_ok_intro; [reflexivity | exact H].
  - destruct (epd2in7b_update_partial_chromatic_frame_window k len x y w h c d A Hl I) as (c' & H & I').
    exists (mkSys d c'). split; [|assumption]. eapply sys_c06_ok_intro; [reflexivity | exact H].
Qed.

(** * Enc: small supporting lemmas for the Properties files (pixel encodings, buffer environments,
    per-property corollaries of the history theorems). *)
From Coq Require Import List NArith Bool Lia.
From EPD Require Import Iface Ops Hal Panels Ctl.Ctl Spec.PSpec Spec.Checks Spec.Specs Spec.Verdict Spec.Known
     Proof.AllPanels Proof.History.
Import ListNotations.
Open Scope N_scope.

(** ** pixel encodings *)
(** the 8 bits of a byte, most significant first *)
Definition bits8 (b : N) : list bool := map (fun k => N.testbit b k) [7; 6; 5; 4; 3; 2; 1; 0].
Definition bits_of (l : list N) : list bool := flat_map bits8 l.

Definition list_bool_eqb (a b : list bool) : bool :=
  (fix go a b := match a, b with
                 | [], [] => true
                 | x :: r, y :: s => Bool.eqb x y && go r s
                 | _, _ => false
                 end) a b.
Lemma list_bool_eqb_eq a b : list_bool_eqb a b = true -> a = b.
Proof.
  revert b. induction a as [|x r IH]; destruct b as [|y s]; cbn; try discriminate; [reflexivity|].
  intros H. apply andb_prop in H as [H1 H2]. apply Bool.eqb_prop in H1. subst y. f_equal. now apply IH.
Qed.

Definition bytes256 : list N := map N.of_nat (seq 0 256).
Lemma in_bytes256 b : b < 256 -> In b bytes256.
Proof.
  intros H. unfold bytes256. apply in_map_iff. exists (N.to_nat b). split; [apply N2Nat.id|].
  apply in_seq. lia.
Qed.

Definition enc_ok (b : N) : bool :=
  list_bool_eqb (bits_of (bapply BNot b)) (map negb (bits8 b)) &&
  list_bool_eqb (bits_of (bapply BExp2 b)) (flat_map (fun x => [x; x]) (bits8 b)) &&
  list_bool_eqb (bits_of (bapply BExp4 b)) (flat_map (fun x => [false; false; x; x]) (bits8 b)) &&
  list_bool_eqb (bits_of (bapply BId b)) (bits8 b).

Lemma enc_sweep : forallb enc_ok bytes256 = true.
Proof. vm_compute. reflexivity. Qed.

(** for all 256 byte values: the complement flips every pixel bit; the 2-bpp expansion doubles every
    pixel bit in place (MSB first, two output bytes); the 4-bpp expansion turns every pixel bit into
    the nibble 0b0011 / 0b0000 (four output bytes, high nibble first); the identity sends the byte *)
Theorem encodings_faithful : forall b, b < 256 ->
  bits_of (bapply BNot b) = map negb (bits8 b) /\
  bits_of (bapply BExp2 b) = flat_map (fun x => [x; x]) (bits8 b) /\
  bits_of (bapply BExp4 b) = flat_map (fun x => [false; false; x; x]) (bits8 b) /\
  bits_of (bapply BId b) = bits8 b.
Proof.
  intros b Hb. pose proof enc_sweep as S. rewrite forallb_forall in S. specialize (S b (in_bytes256 b Hb)).
  unfold enc_ok in S. apply andb_prop in S as [S S4]. apply andb_prop in S as [S S3]. apply andb_prop in S as [S1 S2].
  repeat split; now apply list_bool_eqb_eq.
Qed.

(** ** buffer environments (C12) *)
Lemma map_nseq_ext (f g : N -> N) : (forall i, f i = g i) -> forall n s, map f (nseq s n) = map g (nseq s n).
Proof. intros E. induction n as [|n IH]; intros s; cbn [nseq map]; [reflexivity|]. now rewrite E, IH. Qed.

Theorem den_own : forall rho1 rho2 k e,
  (forall a i, rho1 k a i = rho2 k a i) -> dexp_calls e = [] \/ dexp_calls e = [k] -> den rho1 e = den rho2 e.
Proof.
  intros rho1 rho2 k e E H. destruct e as [l|c a off len|v n]; cbn [den]; try reflexivity.
  cbn [dexp_calls] in H. destruct H as [H|H]; [discriminate|]. injection H as ->.
  apply map_nseq_ext. intros i. apply E.
Qed.

(** ** per-property corollaries *)
Theorem findings_for_witnessed (prop : N) : forall c, In c cfgs -> forall f, In f (known_for prop (fst c) (snd c)) ->
  In f (snd (p_new (fst c) (spec_of (snd c)))) \/
  exists s m, In s (Rof c) /\ In m (ps_alpha (spec_of (snd c))) /\
              In f (snd (p_macro (fst c) (spec_of (snd c)) 1 s m)).
Proof.
  intros c Hc f Hf. unfold known_for in Hf. apply filter_In in Hf. destruct Hf as [Hf _].
  exact (findings_witnessed c Hc f Hf).
Qed.

Lemma alphabets_nonempty : forallb (fun c => match ps_alpha (spec_of (snd c)) with [] => false | _ => true end) cfgs = true.
Proof. vm_compute. reflexivity. Qed.

Theorem cfgs_nonvacuous : Forall (fun c => ps_alpha (spec_of (snd c)) <> [] /\
                                   exists s0, fst (p_new (fst c) (spec_of (snd c))) = Some s0) cfgs.
Proof.
  apply Forall_forall. intros c Hc. split.
  - pose proof alphabets_nonempty as A. rewrite forallb_forall in A. specialize (A c Hc).
    destruct (ps_alpha (spec_of (snd c))); [discriminate|discriminate].
  - destruct (history_verdict c Hc) as (s0 & E & _). exists s0. exact E.
Qed.

(** * Havoc: C02 in "havoc" form - a full-frame update is correct from EVERY controller state an
    earlier call could have left, with the numeric registers universally quantified.

    Properties/C02.v establishes C02 over the finite history alphabets (concrete windows).  Here the
    controller state the full-frame entry point starts from is universally quantified: for the
    SSD-type panels whose full-frame entry points re-program RAM window and address counter, EVERY
    value of the window registers, counters, update-control register, pending flag, seen list, last
    command and taint flag; for the UC-type panels every idle state outside partial mode whose
    resolution register is as init leaves it.  The transport calls of the driver MODEL (Drv/*.v), fed
    to the controller SPECIFICATION (Ctl/Ctl.v), produce effects on which [Checks.chk_c01] (resp.
    [Checks.chk_c07] for clear_frame) reports nothing. *)
From Coq Require Import List NArith ZArith Bool Lia ZifyBool ZifyN.
From EPD Require Import Iface Ops Ctl.Ctl Spec.PSpec Spec.Checks Spec.Sys Spec.Specs Spec.Oracle Panels
  Drv.Luts Drv.Epd1in54 Drv.Epd1in54_v2 Drv.Epd2in9 Drv.Epd2in13_v2 Drv.Epd2in7_v2
  Drv.Epd4in2 Drv.Epd1in02 Drv.Epd2in7 Drv.Epd2in9b_v4 Drv.Epd2in9_v2 Proof.Windows.
Import ListNotations.
Open Scope N_scope.
Ltac Zify.zify_post_hook ::= Z.div_mod_to_equations.

(** ** hypotheses on the controller state *)
(** SSD-type: no frame open, not in deep sleep, data entry mode X+ Y+ (programmed by init, changed by
    no operation).  EVERYTHING else - window, counters, update control, pending flag, seen list,
    last command, taint - is arbitrary. *)
Definition ssd_havoc (c : cstate) : Prop := c_cur c = None /\ c_deep c = false /\ c_entry c = 3.

(** the geometry "from the panel origin over the whole panel" and the registers describing it *)
Definition full_geom (P : pspec) : geom :=
  mkGeom 3 0 (cp_rowbytes (ps_cp P) - 1) 0 (cp_H (ps_cp P) - 1) 0 0.
Definition full_window (P : pspec) (c : cstate) : Prop := geom_of c = full_geom P.

Ltac c_destruct c :=
  destruct c as [cur0 np0 par0 segs0 snap0 entry0 xs0 xe0 ys0 ye0 xc0 yc0 upd20 partial0 px00 px10 py00 py10
                 resw0 resh0 deep0 on0 pending0 seen0 last0 tainted0].
Ltac havoc_destruct c H :=
  let Hc := fresh "Hcur" in let Hd := fresh "Hdeep" in let He := fresh "Hent" in
  destruct H as (Hc & Hd & He);
  destruct c as [cur0 np0 par0 segs0 snap0 entry0 xs0 xe0 ys0 ye0 xc0 yc0 upd20 partial0 px00 px10 py00 py10
                 resw0 resh0 deep0 on0 pending0 seen0 last0 tainted0];
  cbv [c_cur c_deep c_entry] in Hc, Hd, He; subst cur0 deep0 entry0.

(** ** chk_c01 by parts *)
Definition target_ok (P : pspec) (k : N) (bs : list effect) (t : target) : Prop :=
  exists b, filter (is_burst_for (t_cmd t)) bs = [b] /\ full_geometry P b = true /\
            segslen (burst_segs b) = plane_size P (t_cmd t) /\ burst_segs b = expected_segs k t.
Definition other_ok (P : pspec) (k : N) (ts : list target) (b : effect) : Prop :=
  chk_other P sym k ts b = [].

Lemma filter_burst_for c es : filter (is_burst_for c) es = filter (is_burst_for c) (filter isb es).
Proof.
  induction es as [|e es IH]; [reflexivity|].
  destruct e; cbn [filter isb burst_cmd is_burst_for]; try exact IH; rewrite IH; reflexivity.
Qed.

Lemma others_from_bursts P k ts es :
  patterns es = [] -> Forall (other_ok P k ts) (filter isb es) -> Forall (other_ok P k ts) es.
Proof.
  induction es as [|e es IH]; intros Hp Hb; [constructor|].
  destruct e; cbn [filter isb burst_cmd patterns flat_map app] in Hp, Hb; try discriminate Hp;
    try (constructor; [reflexivity | exact (IH Hp Hb)]);
    (inversion Hb; subst; constructor; [assumption | apply IH; assumption]).
Qed.

Lemma chk_c01_intro P k en es :
  Forall (target_ok P k (filter isb es)) (en_targets en) ->
  Forall (other_ok P k (en_targets en)) (filter isb es) ->
  patterns es = [] ->
  refreshes es = en_refresh en ->
  chk_c01 P sym k en es = [].
Proof.
  intros Ht Ho Hp Hr. unfold chk_c01.
  rewrite (flat_map_nil (chk_target P sym k es)).
  2:{ eapply Forall_impl; [|exact Ht]. intros t (b & Hf & Hg & Hl & Hs). unfold chk_target.
      rewrite filter_burst_for, Hf, Hg, Hl, N.eqb_refl, Hs, sym_eq_refl. reflexivity. }
  rewrite (flat_map_nil (chk_other P sym k (en_targets en))) by (apply others_from_bursts; assumption).
  rewrite Hr, N.eqb_refl. reflexivity.
Qed.

(** a second plane written by the call with a complete copy of a target image *)
Lemma other_ok_copy P k ts b t :
  In t ts -> (exists c, burst_cmd b = Some c /\ segslen (burst_segs b) = plane_size P c) ->
  (match b with EPattern _ _ _ _ => False | _ => True end) ->
  full_geometry P b = true -> burst_segs b = expected_segs k t ->
  other_ok P k ts b.
Proof.
  intros Hin (c & Hc & Hl) Hp Hg Hs. unfold other_ok, chk_other.
  destruct b; try contradiction; try discriminate Hc; rewrite Hc;
    (destruct (existsb (fun t0 => t_cmd t0 =? c) ts); [reflexivity|]);
    rewrite Hg, Hl, N.eqb_refl; cbn [andb];
    (destruct (sm_uniform sym _); [reflexivity|]);
    (replace (existsb _ ts) with true; [reflexivity|]);
    symmetry; apply existsb_exists; exists t; (split; [exact Hin|]); rewrite Hs; apply sym_eq_refl.
Qed.

(** ** one API call of the model, run through the controller specification, passes [chk_c01] *)
(** [m] run on driver fields [d] succeeds with fields [d'] and transport calls [t]; the controller,
    started in [c], ends in [c'] with effects [es]; [chk_c01] has nothing to report on [es] for the
    entry [en], the data runs among [es] are exactly [bursts], and no data byte went astray *)
Definition c01_call (P : pspec) (m : M unit) (k : N) (en : entry)
           (d : dstate) (c : cstate) (bursts : list effect) (d' : dstate) (c' : cstate) : Prop :=
  exists t es,
    m d = (Some tt, d', t) /\
    ccall (ps_cp P) c (calls t) = (c', es) /\
    chk_c01 P sym k en es = [] /\
    filter isb es = bursts /\ chk_stray es = [].

Lemma c01_call_intro P m k en d c d' items ic bs :
  m d = (Some tt, d', items) -> calls items = ic ->
  filter isb (snd (ccall (ps_cp P) c ic)) = bs ->
  refreshes (snd (ccall (ps_cp P) c ic)) = en_refresh en ->
  chk_stray (snd (ccall (ps_cp P) c ic)) = [] ->
  patterns (snd (ccall (ps_cp P) c ic)) = [] ->
  Forall (target_ok P k bs) (en_targets en) ->
  Forall (other_ok P k (en_targets en)) bs ->
  c01_call P m k en d c bs d' (fst (ccall (ps_cp P) c ic)).
Proof.
  intros Hm Hic Hb Hr Hs Hp Ht Ho. exists items, (snd (ccall (ps_cp P) c ic)). rewrite Hic.
  split; [exact Hm|]. split; [apply surjective_pairing|].
  split; [apply chk_c01_intro; rewrite ?Hb; assumption|]. split; [exact Hb | exact Hs].
Qed.

(** the same call seen through [Sys.sys_op] *)
Definition sys_c01_ok (ft : feat) (P : pspec) (k : N) (s : sys) (en : entry) (bursts : list effect) (s' : sys) : Prop :=
  exists es ic, sys_op ft P k s (en_op en) = OpOk s' es ic /\ chk_c01 P sym k en es = [] /\
                filter isb es = bursts /\ chk_stray es = [].

Lemma sys_c01_ok_intro ft P m k en d c bs d' c' :
  d_exec (drv_of ft P) k (en_op en) = unit_ m ->
  c01_call P m k en d c bs d' c' ->
  sys_c01_ok ft P k (mkSys d c) en bs (mkSys d' c').
Proof.
  intros He (t & es & Hm & Hc & Hk & Hb & Hs). exists es, (calls t). split; [|split; [|split]; assumption].
  unfold sys_op. rewrite He. cbv [unit_ bind ret y_d y_c]. rewrite Hm, app_nil_r, Hc. reflexivity.
Qed.

(** ** chk_c07 by parts *)
Definition wr (e : effect) : bool := match written_cmd e with Some _ => true | None => false end.

Lemma wr_isb es : patterns es = [] -> filter wr es = filter isb es.
Proof.
  induction es as [|e es IH]; intros Hp; [reflexivity|].
  destruct e; cbn [filter wr written_cmd isb burst_cmd patterns flat_map app] in *; try discriminate Hp;
    rewrite (IH Hp); reflexivity.
Qed.
Lemma wr_isb_idem es : filter wr (filter isb es) = filter isb es.
Proof.
  induction es as [|e es IH]; [reflexivity|].
  destruct e; cbn [filter wr written_cmd isb burst_cmd]; rewrite ?IH; reflexivity.
Qed.

Lemma chk_c07_bursts P primary fill es :
  patterns es = [] -> chk_c07 P sym primary fill es = chk_c07 P sym primary fill (filter isb es).
Proof.
  intros Hp. unfold chk_c07. change (fun e => match written_cmd e with Some _ => true | None => false end) with wr.
  rewrite wr_isb_idem, (wr_isb es Hp). reflexivity.
Qed.

Definition c07_call (P : pspec) (m : M unit) (primary : N) (fill : option N)
           (d : dstate) (c : cstate) (bursts : list effect) (d' : dstate) (c' : cstate) : Prop :=
  exists t es,
    m d = (Some tt, d', t) /\
    ccall (ps_cp P) c (calls t) = (c', es) /\
    chk_c07 P sym primary fill es = [] /\
    filter isb es = bursts /\ chk_stray es = [] /\ patterns es = [].

Lemma c07_call_intro P m primary fill d c d' items ic bs :
  m d = (Some tt, d', items) -> calls items = ic ->
  filter isb (snd (ccall (ps_cp P) c ic)) = bs ->
  chk_stray (snd (ccall (ps_cp P) c ic)) = [] ->
  patterns (snd (ccall (ps_cp P) c ic)) = [] ->
  chk_c07 P sym primary fill bs = [] ->
  c07_call P m primary fill d c bs d' (fst (ccall (ps_cp P) c ic)).
Proof.
  intros Hm Hic Hb Hs Hp Hk. exists items, (snd (ccall (ps_cp P) c ic)). rewrite Hic.
  split; [exact Hm|]. split; [apply surjective_pairing|].
  split; [rewrite chk_c07_bursts, Hb by exact Hp; exact Hk|]. split; [exact Hb | split; [exact Hs | exact Hp]].
Qed.

Definition sys_c07_ok (ft : feat) (P : pspec) (k : N) (s : sys) (primary : N) (bursts : list effect) (s' : sys) : Prop :=
  exists es ic, sys_op ft P k s OClear = OpOk s' es ic /\
                chk_c07 P sym primary (colour_byte P (bg (y_d s))) es = [] /\
                filter isb es = bursts /\ chk_stray es = [].

Lemma sys_c07_ok_intro ft P m k primary d c bs d' c' :
  d_exec (drv_of ft P) k OClear = unit_ m ->
  c07_call P m primary (colour_byte P (bg d)) d c bs d' c' ->
  sys_c07_ok ft P k (mkSys d c) primary bs (mkSys d' c').
Proof.
  intros He (t & es & Hm & Hc & Hk & Hb & Hs & _). exists es, (calls t). split; [|split; [|split]; assumption].
  unfold sys_op. rewrite He. cbv [unit_ bind ret y_d y_c]. rewrite Hm, app_nil_r, Hc. reflexivity.
Qed.

(** black/white panels: the byte of a uniform frame and the byte clear_frame sends *)
Definition bw_fill (bg : N) : N := if bg =? cWhite then 0xff else 0x00.

(** ** entries and data runs *)
Definition en_uf (len cmd : N) : entry := mkEntry (OUpdateFrame len) [mkTarget 0 cmd BId 0 len] 0.
Definition en_ud (len cmd : N) : entry := mkEntry (OUpdateAndDisplay len) [mkTarget 0 cmd BId 0 len] 1.
Definition ssd_buf (P : pspec) (cmd : N) (pl : plane) (k len : N) : effect :=
  EBurstSsd cmd pl (full_geom P) [SData (DArg k 0 0 len)].
Definition ssd_fill (P : pspec) (cmd : N) (pl : plane) (v n : N) : effect :=
  EBurstSsd cmd pl (full_geom P) [SFill v n].

(** ** tactics: everything below is "destruct the records so that projections compute; the numeric
    registers stay variables; conversion does the rest" *)
Ltac d_destruct d :=
  destruct d as [bg0 refresh0 ison0 ispartial0 sleepmode0 old0].
Ltac solve_target := eexists; split; [reflexivity|]; split; [reflexivity|]; split; reflexivity.
Ltac solve_other :=
  first [ reflexivity
        | eapply other_ok_copy; [left; reflexivity | eexists; split; reflexivity | exact I | reflexivity | reflexivity] ].
Ltac solve_forall tac := repeat (apply Forall_cons; [tac|]); apply Forall_nil.
Ltac c01_solve :=
  eexists; split;
  [ eapply c01_call_intro;
    [ reflexivity | reflexivity | reflexivity | reflexivity | reflexivity | reflexivity
    | solve_forall solve_target | solve_forall solve_other ]
  | split; [repeat split | reflexivity] ].
Ltac c07_solve :=
  eexists; split;
  [ eapply c07_call_intro;
    [ reflexivity | reflexivity | reflexivity | reflexivity | reflexivity | vm_compute; reflexivity ]
  | split; [repeat split | reflexivity] ].
(** case analysis on the shape of a background-colour value: 0, 1, other *)
Ltac bg_cases b := destruct b as [|[?p|?p|]].
(** case analysis on the shape of a refresh-mode value: 0 (Full), other *)
Ltac rf_cases r := destruct r as [|?p].

(** * epd1in54 (both values of [f_alt]: the feature only selects a waveform table) *)
Theorem epd1in54_update_frame_havoc k c d :
  ssd_havoc c ->
  exists c', c01_call spec_1in54 (Epd1in54.update_frame k 5000) k (en_uf 5000 0x24) d c
                      [ssd_buf spec_1in54 0x24 P1 k 5000] d c'
             /\ ssd_havoc c' /\ full_window spec_1in54 c'.
Proof. intros I. havoc_destruct c I. c01_solve. Qed.

Theorem epd1in54_update_and_display_frame_havoc k c d :
  ssd_havoc c ->
  exists c', c01_call spec_1in54 (Epd1in54.update_frame k 5000 ;; Epd1in54.display_frame) k (en_ud 5000 0x24) d c
                      [ssd_buf spec_1in54 0x24 P1 k 5000] d c'
             /\ ssd_havoc c' /\ full_window spec_1in54 c'.
Proof. intros I. havoc_destruct c I. c01_solve. Qed.

Theorem epd1in54_clear_frame_havoc c d :
  ssd_havoc c ->
  exists c', c07_call spec_1in54 Epd1in54.clear_frame 0x24 (colour_byte spec_1in54 (bg d)) d c
                      [ssd_fill spec_1in54 0x24 P1 (bw_fill (bg d)) 5000] d c'
             /\ ssd_havoc c' /\ full_window spec_1in54 c'.
Proof. intros I. havoc_destruct c I. d_destruct d. bg_cases bg0; c07_solve. Qed.

(** * epd1in54_v2 *)
Theorem epd1in54_v2_update_frame_havoc k c d :
  ssd_havoc c ->
  exists c', c01_call spec_1in54_v2 (Epd1in54_v2.update_frame k 5000) k (en_uf 5000 0x24) d c
                      [ssd_buf spec_1in54_v2 0x24 P1 k 5000] d c'
             /\ ssd_havoc c' /\ full_window spec_1in54_v2 c'.
Proof. intros I. havoc_destruct c I. c01_solve. Qed.

(** [display_frame] programs the update-control register only for the two values of the RefreshLut
    enum; the field can hold nothing else in the implementation (type invariant) *)
Definition refresh_enum (d : dstate) : Prop := refresh d = 0 \/ refresh d = 1.

Theorem epd1in54_v2_update_and_display_frame_havoc k c d :
  ssd_havoc c -> refresh_enum d ->
  exists c', c01_call spec_1in54_v2 (Epd1in54_v2.update_and_display_frame k 5000) k (en_ud 5000 0x24) d c
                      [ssd_buf spec_1in54_v2 0x24 P1 k 5000] d c'
             /\ ssd_havoc c' /\ full_window spec_1in54_v2 c'.
Proof.
  intros I R. havoc_destruct c I. d_destruct d. cbv [refresh_enum refresh] in R.
  destruct R as [-> | ->]; c01_solve.
Qed.

(** the second plane (0x26) is filled without re-programming the counter: it relies on the counter
    having wrapped to the window origin after exactly one plane of data *)
Theorem epd1in54_v2_clear_frame_havoc c d :
  ssd_havoc c ->
  exists c', c07_call spec_1in54_v2 Epd1in54_v2.clear_frame 0x24 (colour_byte spec_1in54_v2 (bg d)) d c
                      [ssd_fill spec_1in54_v2 0x24 P1 (bw_fill (bg d)) 5000;
                       ssd_fill spec_1in54_v2 0x26 P2 (bw_fill (bg d)) 5000] d c'
             /\ ssd_havoc c' /\ full_window spec_1in54_v2 c'.
Proof. intros I. havoc_destruct c I. d_destruct d. bg_cases bg0; c07_solve. Qed.

(** * epd2in9 (both values of [f_alt]) *)
Theorem epd2in9_update_frame_havoc k c d :
  ssd_havoc c ->
  exists c', c01_call spec_2in9 (Epd2in9.update_frame k 4736) k (en_uf 4736 0x24) d c
                      [ssd_buf spec_2in9 0x24 P1 k 4736] d c'
             /\ ssd_havoc c' /\ full_window spec_2in9 c'.
Proof. intros I. havoc_destruct c I. c01_solve. Qed.

Theorem epd2in9_update_and_display_frame_havoc k c d :
  ssd_havoc c ->
  exists c', c01_call spec_2in9 (Epd2in9.update_and_display_frame k 4736) k (en_ud 4736 0x24) d c
                      [ssd_buf spec_2in9 0x24 P1 k 4736] d c'
             /\ ssd_havoc c' /\ full_window spec_2in9 c'.
Proof. intros I. havoc_destruct c I. c01_solve. Qed.

Theorem epd2in9_clear_frame_havoc c d :
  ssd_havoc c ->
  exists c', c07_call spec_2in9 Epd2in9.clear_frame 0x24 (colour_byte spec_2in9 (bg d)) d c
                      [ssd_fill spec_2in9 0x24 P1 (bw_fill (bg d)) 4736] d c'
             /\ ssd_havoc c' /\ full_window spec_2in9 c'.
Proof. intros I. havoc_destruct c I. d_destruct d. bg_cases bg0; c07_solve. Qed.

(** * epd2in7_v2 *)
Theorem epd2in7_v2_update_frame_havoc k c d :
  ssd_havoc c ->
  exists c', c01_call spec_2in7_v2 (Epd2in7_v2.update_frame k 5808) k (en_uf 5808 0x24) d c
                      [ssd_buf spec_2in7_v2 0x24 P1 k 5808] d c'
             /\ ssd_havoc c' /\ full_window spec_2in7_v2 c'.
Proof. intros I. havoc_destruct c I. c01_solve. Qed.

Theorem epd2in7_v2_update_and_display_frame_havoc k c d :
  ssd_havoc c -> refresh_enum d ->
  exists c', c01_call spec_2in7_v2 (Epd2in7_v2.update_and_display_frame k 5808) k (en_ud 5808 0x24) d c
                      [ssd_buf spec_2in7_v2 0x24 P1 k 5808] d c'
             /\ ssd_havoc c' /\ full_window spec_2in7_v2 c'.
Proof.
  intros I R. havoc_destruct c I. d_destruct d. cbv [refresh_enum refresh] in R.
  destruct R as [-> | ->]; c01_solve.
Qed.

Theorem epd2in7_v2_clear_frame_havoc c d :
  ssd_havoc c ->
  exists c', c07_call spec_2in7_v2 Epd2in7_v2.clear_frame 0x24 (colour_byte spec_2in7_v2 (bg d)) d c
                      [ssd_fill spec_2in7_v2 0x24 P1 (bw_fill (bg d)) 5808] d c'
             /\ ssd_havoc c' /\ full_window spec_2in7_v2 c'.
Proof. intros I. havoc_destruct c I. d_destruct d. bg_cases bg0; c07_solve. Qed.

(** * epd2in13_v2 (both values of [f_v2]: the feature only selects the waveform tables) *)
(** In Full mode ([refresh d = 0]) the image is written to both planes, each after re-programming
    window and counter; in any other mode (Quick) only to the black/white plane. *)
Definition bursts_2in13_v2 (k r : N) : list effect :=
  if r =? 0 then [ssd_buf spec_2in13_v2 0x24 P1 k 4000; ssd_buf spec_2in13_v2 0x26 P2 k 4000]
  else [ssd_buf spec_2in13_v2 0x24 P1 k 4000].

Theorem epd2in13_v2_update_frame_havoc k c d :
  ssd_havoc c ->
  exists c', c01_call spec_2in13_v2 (Epd2in13_v2.update_frame k 4000) k (en_uf 4000 0x24) d c
                      (bursts_2in13_v2 k (refresh d)) d c'
             /\ ssd_havoc c' /\ full_window spec_2in13_v2 c'.
Proof. intros I. havoc_destruct c I. d_destruct d. rf_cases refresh0; c01_solve. Qed.

(** update_and_display_frame: in Full mode both planes then the refresh; in Quick mode the
    black/white plane, the refresh, then the base plane ([set_partial_base_buffer]) *)
Definition bursts_ud_2in13_v2 (k r : N) : list effect :=
  if (r =? 0) || (r =? 1) then [ssd_buf spec_2in13_v2 0x24 P1 k 4000; ssd_buf spec_2in13_v2 0x26 P2 k 4000]
  else [ssd_buf spec_2in13_v2 0x24 P1 k 4000].

Theorem epd2in13_v2_update_and_display_frame_havoc k c d :
  ssd_havoc c ->
  exists c', c01_call spec_2in13_v2 (Epd2in13_v2.update_and_display_frame k 4000) k (en_ud 4000 0x24) d c
                      (bursts_ud_2in13_v2 k (refresh d)) d c'
             /\ ssd_havoc c' /\ full_window spec_2in13_v2 c'.
Proof. intros I. havoc_destruct c I. d_destruct d. destruct refresh0 as [|[p|p|]]; c01_solve. Qed.

Definition fills_2in13_v2 (v r : N) : list effect :=
  if r =? 0 then [ssd_fill spec_2in13_v2 0x24 P1 v 4000; ssd_fill spec_2in13_v2 0x26 P2 v 4000]
  else [ssd_fill spec_2in13_v2 0x24 P1 v 4000].

Theorem epd2in13_v2_clear_frame_havoc c d :
  ssd_havoc c ->
  exists c', c07_call spec_2in13_v2 Epd2in13_v2.clear_frame 0x24 (colour_byte spec_2in13_v2 (bg d)) d c
                      (fills_2in13_v2 (bw_fill (bg d)) (refresh d)) d c'
             /\ ssd_havoc c' /\ full_window spec_2in13_v2 c'.
Proof. intros I. havoc_destruct c I. d_destruct d. rf_cases refresh0; bg_cases bg0; c07_solve. Qed.

(** * SSD-type panels: the same results as one [Sys.sys_op] step from ANY system state *)
Ltac sys_c01_lift thm :=
  let I0 := fresh "I" in
  intros I0; match goal with s : sys |- _ => destruct s as [?d ?c] end; cbn [y_c y_d] in *;
  match goal with
  | J : ssd_havoc ?c |- context [mkSys ?d ?c] =>
      let c' := fresh "c'" in let H := fresh "H" in let I' := fresh "I'" in let W' := fresh "W'" in
      destruct (thm c d J) as (c' & H & I' & W');
      exists (mkSys d c'); split;
      [ eapply sys_c01_ok_intro; [reflexivity | exact H]
      | split; [first [left; reflexivity | right; left; reflexivity] | split; [exact I' | exact W']] ]
  end.
Ltac sys_c07_lift thm :=
  let I0 := fresh "I" in
  intros I0; match goal with s : sys |- _ => destruct s as [?d ?c] end; cbn [y_c y_d] in *;
  match goal with
  | J : ssd_havoc ?c |- context [mkSys ?d ?c] =>
      let c' := fresh "c'" in let H := fresh "H" in let I' := fresh "I'" in let W' := fresh "W'" in
      destruct (thm c d J) as (c' & H & I' & W');
      exists (mkSys d c'); split;
      [ eapply sys_c07_ok_intro; [reflexivity | exact H] | split; [exact I' | exact W'] ]
  end.

Theorem epd1in54_sys_update_frame ft k s :
  ssd_havoc (y_c s) ->
  exists s', sys_c01_ok ft spec_1in54 k s (en_uf 5000 0x24) [ssd_buf spec_1in54 0x24 P1 k 5000] s'
             /\ In (en_uf 5000 0x24) (ps_entries spec_1in54)
             /\ ssd_havoc (y_c s') /\ full_window spec_1in54 (y_c s').
Proof. sys_c01_lift (epd1in54_update_frame_havoc k). Qed.
Theorem epd1in54_sys_update_and_display_frame ft k s :
  ssd_havoc (y_c s) ->
  exists s', sys_c01_ok ft spec_1in54 k s (en_ud 5000 0x24) [ssd_buf spec_1in54 0x24 P1 k 5000] s'
             /\ In (en_ud 5000 0x24) (ps_entries spec_1in54)
             /\ ssd_havoc (y_c s') /\ full_window spec_1in54 (y_c s').
Proof. sys_c01_lift (epd1in54_update_and_display_frame_havoc k). Qed.
Theorem epd1in54_sys_clear_frame ft k s :
  ssd_havoc (y_c s) ->
  exists s', sys_c07_ok ft spec_1in54 k s 0x24 [ssd_fill spec_1in54 0x24 P1 (bw_fill (bg (y_d s))) 5000] s'
             /\ ssd_havoc (y_c s') /\ full_window spec_1in54 (y_c s').
Proof. sys_c07_lift epd1in54_clear_frame_havoc. Qed.

Theorem epd1in54_v2_sys_update_frame ft k s :
  ssd_havoc (y_c s) ->
  exists s', sys_c01_ok ft spec_1in54_v2 k s (en_uf 5000 0x24) [ssd_buf spec_1in54_v2 0x24 P1 k 5000] s'
             /\ In (en_uf 5000 0x24) (ps_entries spec_1in54_v2)
             /\ ssd_havoc (y_c s') /\ full_window spec_1in54_v2 (y_c s').
Proof. sys_c01_lift (epd1in54_v2_update_frame_havoc k). Qed.
Theorem epd1in54_v2_sys_update_and_display_frame ft k s :
  ssd_havoc (y_c s) -> refresh_enum (y_d s) ->
  exists s', sys_c01_ok ft spec_1in54_v2 k s (en_ud 5000 0x24) [ssd_buf spec_1in54_v2 0x24 P1 k 5000] s'
             /\ In (en_ud 5000 0x24) (ps_entries spec_1in54_v2)
             /\ ssd_havoc (y_c s') /\ full_window spec_1in54_v2 (y_c s').
Proof.
  destruct s as [d c]. cbn [y_c y_d]. intros I R.
  destruct (epd1in54_v2_update_and_display_frame_havoc k c d I R) as (c' & H & I' & W').
  exists (mkSys d c'). split; [eapply sys_c01_ok_intro; [reflexivity | exact H]|].
  split; [right; left; reflexivity | split; assumption].
Qed.
Theorem epd1in54_v2_sys_clear_frame ft k s :
  ssd_havoc (y_c s) ->
  exists s', sys_c07_ok ft spec_1in54_v2 k s 0x24
                        [ssd_fill spec_1in54_v2 0x24 P1 (bw_fill (bg (y_d s))) 5000;
                         ssd_fill spec_1in54_v2 0x26 P2 (bw_fill (bg (y_d s))) 5000] s'
             /\ ssd_havoc (y_c s') /\ full_window spec_1in54_v2 (y_c s').
Proof. sys_c07_lift epd1in54_v2_clear_frame_havoc. Qed.

Theorem epd2in9_sys_update_frame ft k s :
  ssd_havoc (y_c s) ->
  exists s', sys_c01_ok ft spec_2in9 k s (en_uf 4736 0x24) [ssd_buf spec_2in9 0x24 P1 k 4736] s'
             /\ In (en_uf 4736 0x24) (ps_entries spec_2in9)
             /\ ssd_havoc (y_c s') /\ full_window spec_2in9 (y_c s').
Proof. sys_c01_lift (epd2in9_update_frame_havoc k). Qed.
Theorem epd2in9_sys_update_and_display_frame ft k s :
  ssd_havoc (y_c s) ->
  exists s', sys_c01_ok ft spec_2in9 k s (en_ud 4736 0x24) [ssd_buf spec_2in9 0x24 P1 k 4736] s'
             /\ In (en_ud 4736 0x24) (ps_entries spec_2in9)
             /\ ssd_havoc (y_c s') /\ full_window spec_2in9 (y_c s').
Proof. sys_c01_lift (epd2in9_update_and_display_frame_havoc k). Qed.
Theorem epd2in9_sys_clear_frame ft k s :
  ssd_havoc (y_c s) ->
  exists s', sys_c07_ok ft spec_2in9 k s 0x24 [ssd_fill spec_2in9 0x24 P1 (bw_fill (bg (y_d s))) 4736] s'
             /\ ssd_havoc (y_c s') /\ full_window spec_2in9 (y_c s').
Proof. sys_c07_lift epd2in9_clear_frame_havoc. Qed.

Theorem epd2in7_v2_sys_update_frame ft k s :
  ssd_havoc (y_c s) ->
  exists s', sys_c01_ok ft spec_2in7_v2 k s (en_uf 5808 0x24) [ssd_buf spec_2in7_v2 0x24 P1 k 5808] s'
             /\ In (en_uf 5808 0x24) (ps_entries spec_2in7_v2)
             /\ ssd_havoc (y_c s') /\ full_window spec_2in7_v2 (y_c s').
Proof. sys_c01_lift (epd2in7_v2_update_frame_havoc k). Qed.
Theorem epd2in7_v2_sys_update_and_display_frame ft k s :
  ssd_havoc (y_c s) -> refresh_enum (y_d s) ->
  exists s', sys_c01_ok ft spec_2in7_v2 k s (en_ud 5808 0x24) [ssd_buf spec_2in7_v2 0x24 P1 k 5808] s'
             /\ In (en_ud 5808 0x24) (ps_entries spec_2in7_v2)
             /\ ssd_havoc (y_c s') /\ full_window spec_2in7_v2 (y_c s').
Proof.
  destruct s as [d c]. cbn [y_c y_d]. intros I R.
  destruct (epd2in7_v2_update_and_display_frame_havoc k c d I R) as (c' & H & I' & W').
  exists (mkSys d c'). split; [eapply sys_c01_ok_intro; [reflexivity | exact H]|].
  split; [right; left; reflexivity | split; assumption].
Qed.
Theorem epd2in7_v2_sys_clear_frame ft k s :
  ssd_havoc (y_c s) ->
  exists s', sys_c07_ok ft spec_2in7_v2 k s 0x24 [ssd_fill spec_2in7_v2 0x24 P1 (bw_fill (bg (y_d s))) 5808] s'
             /\ ssd_havoc (y_c s') /\ full_window spec_2in7_v2 (y_c s').
Proof. sys_c07_lift epd2in7_v2_clear_frame_havoc. Qed.

Theorem epd2in13_v2_sys_update_frame ft k s :
  ssd_havoc (y_c s) ->
  exists s', sys_c01_ok ft spec_2in13_v2 k s (en_uf 4000 0x24) (bursts_2in13_v2 k (refresh (y_d s))) s'
             /\ In (en_uf 4000 0x24) (ps_entries spec_2in13_v2)
             /\ ssd_havoc (y_c s') /\ full_window spec_2in13_v2 (y_c s').
Proof. sys_c01_lift (epd2in13_v2_update_frame_havoc k). Qed.
Theorem epd2in13_v2_sys_update_and_display_frame ft k s :
  ssd_havoc (y_c s) ->
  exists s', sys_c01_ok ft spec_2in13_v2 k s (en_ud 4000 0x24) (bursts_ud_2in13_v2 k (refresh (y_d s))) s'
             /\ In (en_ud 4000 0x24) (ps_entries spec_2in13_v2)
             /\ ssd_havoc (y_c s') /\ full_window spec_2in13_v2 (y_c s').
Proof. sys_c01_lift (epd2in13_v2_update_and_display_frame_havoc k). Qed.
Theorem epd2in13_v2_sys_clear_frame ft k s :
  ssd_havoc (y_c s) ->
  exists s', sys_c07_ok ft spec_2in13_v2 k s 0x24 (fills_2in13_v2 (bw_fill (bg (y_d s))) (refresh (y_d s))) s'
             /\ ssd_havoc (y_c s') /\ full_window spec_2in13_v2 (y_c s').
Proof. sys_c07_lift epd2in13_v2_clear_frame_havoc. Qed.

(** * "the same image as the same update on a freshly constructed driver" *)
(** the freshly constructed system satisfies the hypothesis, with driver fields in Full mode *)
Definition fresh_ok (ft : feat) (P : pspec) : Prop :=
  exists s0 e ic, sys_new ft P = Some (s0, e, ic) /\ ssd_havoc (y_c s0) /\ refresh (y_d s0) = 0.
Ltac fresh_solve ft :=
  destruct ft as [[] []]; unfold fresh_ok; vm_compute; do 3 eexists; (split; [reflexivity | repeat split]).
Lemma fresh_1in54 ft : fresh_ok ft spec_1in54. Proof. fresh_solve ft. Qed.
Lemma fresh_1in54_v2 ft : fresh_ok ft spec_1in54_v2. Proof. fresh_solve ft. Qed.
Lemma fresh_2in9 ft : fresh_ok ft spec_2in9. Proof. fresh_solve ft. Qed.
Lemma fresh_2in7_v2 ft : fresh_ok ft spec_2in7_v2. Proof. fresh_solve ft. Qed.
Lemma fresh_2in13_v2 ft : fresh_ok ft spec_2in13_v2. Proof. fresh_solve ft. Qed.

(** [update_frame] from system state [s] and from the freshly constructed system [s0] produce the
    same data runs [bs], both pass [chk_c01], and leave the same window / counter registers *)
Definition same_as_fresh (ft : feat) (P : pspec) (k : N) (s : sys) (en : entry) (bs : list effect) : Prop :=
  exists s0 e0 ic0 s' s0',
    sys_new ft P = Some (s0, e0, ic0) /\
    sys_c01_ok ft P k s en bs s' /\ sys_c01_ok ft P k s0 en bs s0' /\
    geom_of (y_c s') = geom_of (y_c s0').

Ltac same_as_fresh_solve fresh thm :=
  match goal with
  | I : ssd_havoc (y_c ?s) |- same_as_fresh ?ft ?P ?k ?s _ _ =>
      let s0 := fresh "s0" in let e0 := fresh "e0" in let ic0 := fresh "ic0" in
      let E := fresh "E" in let I0 := fresh "I0" in let R0 := fresh "R0" in
      destruct (fresh ft) as (s0 & e0 & ic0 & E & I0 & R0);
      let s1 := fresh "s1" in let H1 := fresh "H1" in let W1 := fresh "W1" in
      let s2 := fresh "s2" in let H2 := fresh "H2" in let W2 := fresh "W2" in
      destruct (thm ft k s I) as (s1 & H1 & _ & _ & W1);
      destruct (thm ft k s0 I0) as (s2 & H2 & _ & _ & W2);
      exists s0, e0, ic0, s1, s2; split; [exact E|]; split; [exact H1|]; split;
      [ try rewrite R0 in H2; exact H2 | unfold full_window in W1, W2; rewrite W1, W2; reflexivity ]
  end.

Theorem epd1in54_update_frame_same_as_fresh ft k s :
  ssd_havoc (y_c s) -> same_as_fresh ft spec_1in54 k s (en_uf 5000 0x24) [ssd_buf spec_1in54 0x24 P1 k 5000].
Proof. intros I. same_as_fresh_solve fresh_1in54 epd1in54_sys_update_frame. Qed.
Theorem epd1in54_v2_update_frame_same_as_fresh ft k s :
  ssd_havoc (y_c s) -> same_as_fresh ft spec_1in54_v2 k s (en_uf 5000 0x24) [ssd_buf spec_1in54_v2 0x24 P1 k 5000].
Proof. intros I. same_as_fresh_solve fresh_1in54_v2 epd1in54_v2_sys_update_frame. Qed.
Theorem epd2in9_update_frame_same_as_fresh ft k s :
  ssd_havoc (y_c s) -> same_as_fresh ft spec_2in9 k s (en_uf 4736 0x24) [ssd_buf spec_2in9 0x24 P1 k 4736].
Proof. intros I. same_as_fresh_solve fresh_2in9 epd2in9_sys_update_frame. Qed.
Theorem epd2in7_v2_update_frame_same_as_fresh ft k s :
  ssd_havoc (y_c s) -> same_as_fresh ft spec_2in7_v2 k s (en_uf 5808 0x24) [ssd_buf spec_2in7_v2 0x24 P1 k 5808].
Proof. intros I. same_as_fresh_solve fresh_2in7_v2 epd2in7_v2_sys_update_frame. Qed.
(** epd2in13_v2: the fresh driver is in Full mode; with the driver in Full mode the data runs agree *)
Theorem epd2in13_v2_update_frame_same_as_fresh ft k s :
  ssd_havoc (y_c s) -> refresh (y_d s) = 0 ->
  same_as_fresh ft spec_2in13_v2 k s (en_uf 4000 0x24) (bursts_2in13_v2 k 0).
Proof.
  intros I R. destruct (fresh_2in13_v2 ft) as (s0 & e0 & ic0 & E & I0 & R0).
  destruct (epd2in13_v2_sys_update_frame ft k s I) as (s1 & H1 & _ & _ & W1).
  destruct (epd2in13_v2_sys_update_frame ft k s0 I0) as (s2 & H2 & _ & _ & W2).
  rewrite R in H1. rewrite R0 in H2.
  exists s0, e0, ic0, s1, s2. split; [exact E|]. split; [exact H1|]. split; [exact H2|].
  unfold full_window in W1, W2. rewrite W1, W2. reflexivity.
Qed.
(** ... and in any other mode the black/white plane (the documented target) still receives the same run *)
Theorem epd2in13_v2_update_frame_target_plane k r :
  filter (is_burst_for 0x24) (bursts_2in13_v2 k r) = [ssd_buf spec_2in13_v2 0x24 P1 k 4000].
Proof. unfold bursts_2in13_v2. destruct (r =? 0); reflexivity. Qed.

(** * UC-type panels *)
(** the full resolution area a data-start stream is written under outside partial mode *)
Definition full_area (P : pspec) : area :=
  mkArea false 0 (cp_rowbytes (ps_cp P) - 1) 0 (cp_H (ps_cp P) - 1).
(** the resolution register is as init leaves it: the panel height (0x61 sent) or the POR value 0,
    which selects the panel's native resolution (epd2in7 never sends 0x61) *)
Definition uc_full_res (P : pspec) (c : cstate) : Prop := c_resh c = cp_H (ps_cp P) \/ c_resh c = 0.
(** no frame open, not in deep sleep, not in partial mode, resolution as init leaves it; everything
    else (partial-window registers, power, pending flag, seen list, ...) arbitrary *)
Definition uc_havoc (P : pspec) (c : cstate) : Prop := idle c /\ c_partial c = false /\ uc_full_res P c.
Definition uc_buf (P : pspec) (cmd : N) (pl : plane) (k len : N) : effect :=
  EBurstUc cmd pl (full_area P) [SData (DArg k 0 0 len)].
Definition uc_fill (P : pspec) (cmd : N) (pl : plane) (v n : N) : effect :=
  EBurstUc cmd pl (full_area P) [SFill v n].

Ltac uc_destruct c H :=
  let Hc := fresh "Hcur" in let Hd := fresh "Hdeep" in let Hp := fresh "Hpart" in let Hr := fresh "Hres" in
  destruct H as ((Hc & Hd) & Hp & Hr);
  destruct c as [cur0 np0 par0 segs0 snap0 entry0 xs0 xe0 ys0 ye0 xc0 yc0 upd20 partial0 px00 px10 py00 py10
                 resw0 resh0 deep0 on0 pending0 seen0 last0 tainted0];
  cbv [c_cur c_deep c_partial] in Hc, Hd, Hp; subst cur0 deep0 partial0;
  cbv in Hr; destruct Hr as [Hr | Hr]; subst resh0.
Ltac uc_final := split; [split; reflexivity | split; [reflexivity | first [left; reflexivity | right; reflexivity]]].
Ltac c01_solve_uc :=
  eexists; split;
  [ eapply c01_call_intro;
    [ reflexivity | reflexivity | reflexivity | reflexivity | reflexivity | reflexivity
    | solve_forall solve_target | solve_forall solve_other ]
  | ].
Ltac c07_solve_uc :=
  eexists; split;
  [ eapply c07_call_intro;
    [ reflexivity | reflexivity | reflexivity | reflexivity | reflexivity | vm_compute; reflexivity ]
  | ].

(** ** epd4in2 *)
Theorem epd4in2_update_frame_havoc k c d :
  uc_havoc spec_4in2 c ->
  exists c', c01_call spec_4in2 (Epd4in2.update_frame k 15000) k (en_uf 15000 0x13) d c
                      [uc_fill spec_4in2 0x10 P1 (fill_4in2 d) 15000; uc_buf spec_4in2 0x13 P2 k 15000] d c'
             /\ uc_havoc spec_4in2 c'.
Proof. intros H. uc_destruct c H; c01_solve_uc; uc_final. Qed.

Theorem epd4in2_update_and_display_frame_havoc k c d :
  uc_havoc spec_4in2 c ->
  exists c', c01_call spec_4in2 (Epd4in2.update_and_display_frame k 15000) k (en_ud 15000 0x13) d c
                      [uc_fill spec_4in2 0x10 P1 (fill_4in2 d) 15000; uc_buf spec_4in2 0x13 P2 k 15000] d c'
             /\ uc_havoc spec_4in2 c'.
Proof. intros H. uc_destruct c H; c01_solve_uc; uc_final. Qed.

(** clear_frame re-sends the resolution itself: any idle state outside partial mode will do *)
Theorem epd4in2_clear_frame_havoc c d :
  idle c -> c_partial c = false ->
  exists c', c07_call spec_4in2 Epd4in2.clear_frame 0x13 (colour_byte spec_4in2 (bg d)) d c
                      [uc_fill spec_4in2 0x10 P1 (fill_4in2 d) 15000; uc_fill spec_4in2 0x13 P2 (fill_4in2 d) 15000] d c'
             /\ uc_havoc spec_4in2 c'.
Proof.
  intros I Hp. idle_destruct c I. cbv [c_partial] in Hp. subst partial0. d_destruct d.
  bg_cases bg0; c07_solve_uc; uc_final.
Qed.

(** ** epd1in02: [update_frame] calls [set_full_mode], which leaves partial mode (0x92) only when the
    driver's refresh_mode field is not Full: the field must not claim Full while the controller is
    in partial mode *)
Definition full_agrees (d : dstate) (c : cstate) : Prop := refresh d = 0 -> c_partial c = false.

Theorem epd1in02_update_frame_havoc k c d :
  idle c -> uc_full_res spec_1in02 c -> full_agrees d c ->
  exists c', c01_call spec_1in02 (Epd1in02.update_frame k 1280) k (en_uf 1280 0x13) d c
                      [uc_fill spec_1in02 0x10 P1 (fill_1in02 d) 1280; uc_buf spec_1in02 0x13 P2 k 1280]
                      (fm_d_1in02 d) c'
             /\ uc_havoc spec_1in02 c' /\ refresh (fm_d_1in02 d) = 0.
Proof.
  intros I R F. idle_destruct c I. d_destruct d. cbv in R. cbv [full_agrees refresh c_partial] in F.
  destruct R as [R | R]; subst resh0; rf_cases refresh0; try (rewrite (F eq_refl));
    c01_solve_uc; (split; [uc_final | reflexivity]).
Qed.

Theorem epd1in02_clear_frame_havoc c d :
  idle c -> uc_full_res spec_1in02 c -> full_agrees d c ->
  exists c', c07_call spec_1in02 Epd1in02.clear_frame 0x13 (colour_byte spec_1in02 (bg d)) d c
                      [uc_fill spec_1in02 0x10 P1 (Epd1in02.not8 (fill_1in02 d)) 1280;
                       uc_fill spec_1in02 0x13 P2 (fill_1in02 d) 1280]
                      (fm_d_1in02 d) c'
             /\ uc_havoc spec_1in02 c' /\ refresh (fm_d_1in02 d) = 0.
Proof.
  intros I R F. idle_destruct c I. d_destruct d. cbv in R. cbv [full_agrees refresh c_partial] in F.
  destruct R as [R | R]; subst resh0; rf_cases refresh0; try (rewrite (F eq_refl)); bg_cases bg0;
    c07_solve_uc; (split; [uc_final | reflexivity]).
Qed.

(** ** epd2in7 *)
Definition fill_2in7 (d : dstate) : N := Epd2in7.get_byte_value (bg d).

Theorem epd2in7_update_frame_havoc k c d :
  uc_havoc spec_2in7 c ->
  exists c', c01_call spec_2in7 (Epd2in7.update_frame k 5808) k (en_uf 5808 0x13) d c
                      [uc_fill spec_2in7 0x10 P1 (fill_2in7 d) 5808; uc_buf spec_2in7 0x13 P2 k 5808] d c'
             /\ uc_havoc spec_2in7 c'.
Proof. intros H. uc_destruct c H; destruct pending0; c01_solve_uc; uc_final. Qed.

Theorem epd2in7_update_and_display_frame_havoc k c d :
  uc_havoc spec_2in7 c ->
  exists c', c01_call spec_2in7 (Epd2in7.update_and_display_frame k 5808) k (en_ud 5808 0x13) d c
                      [uc_fill spec_2in7 0x10 P1 (fill_2in7 d) 5808; uc_buf spec_2in7 0x13 P2 k 5808] d c'
             /\ uc_havoc spec_2in7 c'.
Proof. intros H. uc_destruct c H; destruct pending0; c01_solve_uc; uc_final. Qed.

Theorem epd2in7_clear_frame_havoc c d :
  uc_havoc spec_2in7 c ->
  exists c', c07_call spec_2in7 Epd2in7.clear_frame 0x13 (colour_byte spec_2in7 (bg d)) d c
                      [uc_fill spec_2in7 0x10 P1 (fill_2in7 d) 5808; uc_fill spec_2in7 0x13 P2 (fill_2in7 d) 5808] d c'
             /\ uc_havoc spec_2in7 c'.
Proof. intros H. uc_destruct c H; d_destruct d; bg_cases bg0; c07_solve_uc; uc_final. Qed.

(** * C06w + C02w: a partial update of ANY aligned window, then a full-frame update *)
(** the final controller state of a [c06_call] is the one [ccall] computes *)
Lemma c06_call_final P m k hb len x y w h d c bs d' c' items :
  c06_call P m k hb len x y w h d c bs d' c' -> m d = (Some tt, d', items) ->
  c' = fst (ccall (ps_cp P) c (calls items)).
Proof.
  intros (t & es & Hm & Hc & _) Hm'. rewrite Hm' in Hm. injection Hm as Ht. subst t. rewrite Hc. reflexivity.
Qed.
Lemma calls_lit1 l : calls (map lit1 l) = map dl l.
Proof. induction l as [|a l IH]; [reflexivity|]. cbn [map calls lit1]. rewrite IH. reflexivity. Qed.

(** the partial entry points do not touch the resolution register *)
Lemma ctl_4in2_upf_res k len b0 b1 b2 b3 b4 b5 b6 b7 b8 c : idle c ->
  c_resh (fst (ccall cp4 c ([IWait true; ICmd 0x91; ICmd 0x90] ++ map dl [b0;b1;b2;b3;b4;b5;b6;b7;b8] ++
                            [ICmd 0x13; IData (DArg k 0 0 len); ICmd 0x92]))) = c_resh c.
Proof. intros I. idle_destruct c I. reflexivity. Qed.
Lemma ctl_4in2_upof_res k len b0 b1 b2 b3 b4 b5 b6 b7 b8 c : idle c ->
  c_resh (fst (ccall cp4 c ([IWait true; ICmd 0x91; ICmd 0x90] ++ map dl [b0;b1;b2;b3;b4;b5;b6;b7;b8] ++
                            [ICmd 0x10; IData (DArg k 0 0 len)]))) = c_resh c.
Proof. intros I. idle_destruct c I. reflexivity. Qed.
Lemma ctl_4in2_upnf_res k len b0 b1 b2 b3 b4 b5 b6 b7 b8 c : idle c ->
  c_resh (fst (ccall cp4 c ([IWait true; ICmd 0x90] ++ map dl [b0;b1;b2;b3;b4;b5;b6;b7;b8] ++
                            [ICmd 0x13; IData (DArg k 0 0 len); ICmd 0x92]))) = c_resh c.
Proof. intros I. idle_destruct c I. reflexivity. Qed.
Lemma ctl_4in2_cpf_res v1 n1 v2 n2 b0 b1 b2 b3 b4 b5 b6 b7 b8 c : idle c ->
  c_resh (fst (ccall cp4 c ([IWait true; ICmd 0x61] ++ map dl [1; 144; 1; 44] ++ [ICmd 0x91; ICmd 0x90] ++
                            map dl [b0;b1;b2;b3;b4;b5;b6;b7;b8] ++
                            [ICmd 0x10; IDataX v1 n1; ICmd 0x13; IDataX v2 n2; ICmd 0x92]))) = 300.
Proof. intros I. idle_destruct c I. reflexivity. Qed.

Theorem epd4in2_update_partial_frame_keeps_res k len x y w h c d c' bs :
  aligned_in 400 300 x y w h -> x < 256 -> idle c ->
  c06_call spec_4in2 (Epd4in2.update_partial_frame k len x y w h) k true len x y w h d c bs d c' ->
  c_resh c' = c_resh c.
Proof.
  intros A Hx8 I H.
  rewrite (c06_call_final _ _ _ _ _ _ _ _ _ _ _ _ _ _ _ H (upf_4in2_run k len x y w h d A Hx8)).
  rewrite !calls_app, calls_lit1. cbv [wb_4in2]. apply ctl_4in2_upf_res. exact I.
Qed.
Theorem epd4in2_update_partial_old_frame_keeps_res k len x y w h c d c' bs :
  aligned_in 400 300 x y w h -> x < 256 -> idle c ->
  c06_call spec_4in2 (Epd4in2.update_partial_old_frame k len x y w h) k true len x y w h d c bs d c' ->
  c_resh c' = c_resh c.
Proof.
  intros A Hx8 I H.
  rewrite (c06_call_final _ _ _ _ _ _ _ _ _ _ _ _ _ _ _ H (upof_4in2_run k len x y w h d A Hx8)).
  rewrite !calls_app, calls_lit1. cbv [wb_4in2]. apply ctl_4in2_upof_res. exact I.
Qed.
Theorem epd4in2_update_partial_new_frame_keeps_res k len x y w h c d c' bs :
  aligned_in 400 300 x y w h -> x < 256 -> idle c ->
  c06_call spec_4in2 (Epd4in2.update_partial_new_frame k len x y w h) k true len x y w h d c bs d c' ->
  c_resh c' = c_resh c.
Proof.
  intros A Hx8 I H.
  rewrite (c06_call_final _ _ _ _ _ _ _ _ _ _ _ _ _ _ _ H (upnf_4in2_run k len x y w h d A Hx8)).
  rewrite !calls_app, calls_lit1. cbv [wb_4in2]. apply ctl_4in2_upnf_res. exact I.
Qed.
Theorem epd4in2_clear_partial_frame_sets_res k x y w h c d c' bs :
  aligned_in 400 300 x y w h -> x < 256 -> idle c ->
  c06_call spec_4in2 (Epd4in2.clear_partial_frame x y w h) k false 0 x y w h d c bs d c' ->
  c_resh c' = 300.
Proof.
  intros A Hx8 I H.
  rewrite (c06_call_final _ _ _ _ _ _ _ _ _ _ _ _ _ _ _ H (cpf_4in2_run x y w h d A Hx8)).
  rewrite !calls_app, !calls_lit1. cbv [wb_4in2]. apply ctl_4in2_cpf_res. exact I.
Qed.

Lemma uc_full_res_eq P c c' : c_resh c' = c_resh c -> uc_full_res P c -> uc_full_res P c'.
Proof. unfold uc_full_res. intros ->. tauto. Qed.

(** for ALL aligned windows (x < 256): update_partial_frame then update_frame, from any idle state
    (in or out of partial mode: the partial update sends PartialIn and PartialOut itself) *)
Theorem epd4in2_partial_then_full k1 k2 len x y w h c d :
  aligned_in 400 300 x y w h -> x < 256 -> len = w / 8 * h -> idle c -> uc_full_res spec_4in2 c ->
  exists c1 c2,
    c06_call spec_4in2 (Epd4in2.update_partial_frame k1 len x y w h) k1 true len x y w h d c
             [EBurstUc 0x13 P2 (win_area x y w h) [SData (DArg k1 0 0 len)]] d c1 /\
    c01_call spec_4in2 (Epd4in2.update_frame k2 15000) k2 (en_uf 15000 0x13) d c1
             [uc_fill spec_4in2 0x10 P1 (fill_4in2 d) 15000; uc_buf spec_4in2 0x13 P2 k2 15000] d c2 /\
    uc_havoc spec_4in2 c2.
Proof.
  intros A Hx8 Hlen I R.
  destruct (epd4in2_update_partial_frame_window k1 len x y w h c d A Hx8 Hlen I) as (c1 & H1 & I1 & P1).
  pose proof (epd4in2_update_partial_frame_keeps_res _ _ _ _ _ _ _ _ _ _ A Hx8 I H1) as E1.
  destruct (epd4in2_update_frame_havoc k2 c1 d) as (c2 & H2 & U2).
  { split; [exact I1|]. split; [exact P1|]. exact (uc_full_res_eq _ _ _ E1 R). }
  exists c1, c2. auto.
Qed.

(** the QuickRefresh pair (old image, new image) of any aligned window, then update_frame *)
Theorem epd4in2_partial_pair_then_full k1 k2 k3 len x y w h c d :
  aligned_in 400 300 x y w h -> x < 256 -> len = w / 8 * h -> idle c -> uc_full_res spec_4in2 c ->
  exists c1 c2 c3,
    c06_call spec_4in2 (Epd4in2.update_partial_old_frame k1 len x y w h) k1 true len x y w h d c
             [EBurstUc 0x10 P1 (win_area x y w h) [SData (DArg k1 0 0 len)]] d c1 /\
    c06_call spec_4in2 (Epd4in2.update_partial_new_frame k2 len x y w h) k2 true len x y w h d c1
             [EBurstUc 0x13 P2 (win_area x y w h) [SData (DArg k2 0 0 len)]] d c2 /\
    c01_call spec_4in2 (Epd4in2.update_frame k3 15000) k3 (en_uf 15000 0x13) d c2
             [uc_fill spec_4in2 0x10 P1 (fill_4in2 d) 15000; uc_buf spec_4in2 0x13 P2 k3 15000] d c3 /\
    uc_havoc spec_4in2 c3.
Proof.
  intros A Hx8 Hlen I R.
  destruct (epd4in2_update_partial_old_frame_window k1 len x y w h c d A Hx8 Hlen I) as (c1 & H1 & I1 & P1 & _).
  pose proof (epd4in2_update_partial_old_frame_keeps_res _ _ _ _ _ _ _ _ _ _ A Hx8 I H1) as E1.
  destruct (epd4in2_update_partial_new_frame_window k2 len x y w h c1 d A Hx8 Hlen I1 P1) as (c2 & H2 & I2 & P2).
  pose proof (epd4in2_update_partial_new_frame_keeps_res _ _ _ _ _ _ _ _ _ _ A Hx8 I1 H2) as E2.
  destruct (epd4in2_update_frame_havoc k3 c2 d) as (c3 & H3 & U3).
  { split; [exact I2|]. split; [exact P2|]. apply (uc_full_res_eq _ _ _ E2). exact (uc_full_res_eq _ _ _ E1 R). }
  exists c1, c2, c3. auto.
Qed.

(** clear_partial_frame of any aligned window, then update_frame: from ANY idle state (the clear
    re-sends the resolution) *)
Theorem epd4in2_clear_partial_then_full k1 k2 x y w h c d :
  aligned_in 400 300 x y w h -> x < 256 -> idle c ->
  exists c1 c2,
    c06_call spec_4in2 (Epd4in2.clear_partial_frame x y w h) k1 false 0 x y w h d c
             [EBurstUc 0x10 P1 (win_area x y w h) [SFill (fill_4in2 d) (w / 8 * h)];
              EBurstUc 0x13 P2 (win_area x y w h) [SFill (fill_4in2 d) (w / 8 * h)]] d c1 /\
    c01_call spec_4in2 (Epd4in2.update_frame k2 15000) k2 (en_uf 15000 0x13) d c1
             [uc_fill spec_4in2 0x10 P1 (fill_4in2 d) 15000; uc_buf spec_4in2 0x13 P2 k2 15000] d c2 /\
    uc_havoc spec_4in2 c2.
Proof.
  intros A Hx8 I.
  destruct (epd4in2_clear_partial_frame_window k1 x y w h c d A Hx8 I) as (c1 & H1 & I1 & P1).
  pose proof (epd4in2_clear_partial_frame_sets_res _ _ _ _ _ _ _ _ _ A Hx8 I H1) as E1.
  destruct (epd4in2_update_frame_havoc k2 c1 d) as (c2 & H2 & U2).
  { split; [exact I1|]. split; [exact P1|]. left. exact E1. }
  exists c1, c2. auto.
Qed.

(** ** epd1in02 *)
Lemma c06_call_final' P m k hb len x y w h d c bs d' c' d'' items :
  c06_call P m k hb len x y w h d c bs d' c' -> m d = (Some tt, d'', items) ->
  d' = d'' /\ c' = fst (ccall (ps_cp P) c (calls items)).
Proof.
  intros (t & es & Hm & Hc & _) Hm'. rewrite Hm' in Hm. injection Hm as Hd Ht. subst t d''.
  rewrite Hc. split; reflexivity.
Qed.

Lemma ctl_1in02_upof_res k len b0 b1 b2 b3 b4 sent c : idle c ->
  c_resh (fst (ccall cp1 c (pm_calls_1in02 sent ++ [ICmd 0x90; IData (DLit [b0;b1;b2;b3;b4]); ICmd 0x10; IData (DArg k 0 0 len)])))
  = c_resh c.
Proof. intros I. idle_destruct c I. destruct sent; reflexivity. Qed.
Lemma ctl_1in02_upnf_res k len c : idle c ->
  c_resh (fst (ccall cp1 c [ICmd 0x13; IData (DArg k 0 0 len)])) = c_resh c.
Proof. intros I. idle_destruct c I. reflexivity. Qed.
Lemma ctl_1in02_cpf_res v1 n1 v2 n2 b0 b1 b2 b3 b4 sent c : idle c ->
  c_resh (fst (ccall cp1 c ([IWait true] ++ fm_calls_1in02 sent ++
                            [ICmd 0x91; ICmd 0x90; IData (DLit [b0;b1;b2;b3;b4]);
                             ICmd 0x10; IDataX v1 n1; ICmd 0x13; IDataX v2 n2; ICmd 0x92]))) = c_resh c.
Proof. intros I. idle_destruct c I. destruct sent; reflexivity. Qed.

Theorem epd1in02_update_partial_old_frame_keeps_res k len x y w h c d d' c' bs :
  aligned_in 80 128 x y w h -> len = w / 8 * h -> idle c ->
  c06_call spec_1in02 (Epd1in02.update_partial_old_frame k len x y w h) k true len x y w h d c bs d' c' ->
  c_resh c' = c_resh c.
Proof.
  intros A Hlen I H.
  destruct (c06_call_final' _ _ _ _ _ _ _ _ _ _ _ _ _ _ _ _ H (upof_1in02_run k len x y w h d A Hlen)) as [_ ->].
  rewrite calls_app, pm_calls_1in02_ok. cbv [wb_1in02 calls]. apply ctl_1in02_upof_res. exact I.
Qed.
Theorem epd1in02_update_partial_new_frame_keeps_res k len x y w h c d c' bs :
  aligned_in 80 128 x y w h -> len = w / 8 * h -> idle c ->
  c06_call spec_1in02 (Epd1in02.update_partial_new_frame k len x y w h) k true len x y w h d c bs d c' ->
  c_resh c' = c_resh c.
Proof.
  intros A Hlen I H.
  destruct (c06_call_final' _ _ _ _ _ _ _ _ _ _ _ _ _ _ _ _ H (upnf_1in02_run k len x y w h d A Hlen)) as [_ ->].
  cbv [calls]. apply ctl_1in02_upnf_res. exact I.
Qed.
Theorem epd1in02_clear_partial_frame_keeps_res k x y w h c d d' c' bs :
  aligned_in 80 128 x y w h -> idle c ->
  c06_call spec_1in02 (Epd1in02.clear_partial_frame x y w h) k false 0 x y w h d c bs d' c' ->
  c_resh c' = c_resh c.
Proof.
  intros A I H.
  destruct (c06_call_final' _ _ _ _ _ _ _ _ _ _ _ _ _ _ _ _ H (cpf_1in02_run x y w h d A)) as [_ ->].
  rewrite !calls_app, fm_calls_1in02_ok. cbv [wb_1in02 calls]. apply ctl_1in02_cpf_res. exact I.
Qed.

(** the QuickRefresh pair of any aligned window, then update_frame (which leaves partial mode because
    the pair has set the driver's refresh_mode field to Quick) *)
Theorem epd1in02_partial_pair_then_full k1 k2 k3 len x y w h c d :
  aligned_in 80 128 x y w h -> len = w / 8 * h -> idle c -> quick_agrees d c -> uc_full_res spec_1in02 c ->
  exists d1 c1 c2 c3,
    c06_call spec_1in02 (Epd1in02.update_partial_old_frame k1 len x y w h) k1 true len x y w h d c
             [EBurstUc 0x10 P1 (win_area x y w h) [SData (DArg k1 0 0 len)]] d1 c1 /\
    c06_call spec_1in02 (Epd1in02.update_partial_new_frame k2 len x y w h) k2 true len x y w h d1 c1
             [EBurstUc 0x13 P2 (win_area x y w h) [SData (DArg k2 0 0 len)]] d1 c2 /\
    c01_call spec_1in02 (Epd1in02.update_frame k3 1280) k3 (en_uf 1280 0x13) d1 c2
             [uc_fill spec_1in02 0x10 P1 (fill_1in02 d1) 1280; uc_buf spec_1in02 0x13 P2 k3 1280] (fm_d_1in02 d1) c3 /\
    uc_havoc spec_1in02 c3 /\ refresh (fm_d_1in02 d1) = 0.
Proof.
  intros A Hlen I Q R.
  destruct (epd1in02_update_partial_old_frame_window k1 len x y w h c d A Hlen I Q) as (d1 & c1 & H1 & I1 & W1 & R1).
  pose proof (epd1in02_update_partial_old_frame_keeps_res _ _ _ _ _ _ _ _ _ _ _ A Hlen I H1) as E1.
  destruct (epd1in02_update_partial_new_frame_window k2 len x y w h c1 d1 A Hlen I1 W1) as (c2 & H2 & I2 & W2).
  pose proof (epd1in02_update_partial_new_frame_keeps_res _ _ _ _ _ _ _ _ _ _ A Hlen I1 H2) as E2.
  destruct (epd1in02_update_frame_havoc k3 c2 d1 I2) as (c3 & H3 & U3 & R3).
  { apply (uc_full_res_eq _ _ _ E2). exact (uc_full_res_eq _ _ _ E1 R). }
  { intros E. rewrite R1 in E. discriminate E. }
  exists d1, c1, c2, c3. auto.
Qed.

Theorem epd1in02_clear_partial_then_full k1 k2 x y w h c d :
  aligned_in 80 128 x y w h -> idle c -> uc_full_res spec_1in02 c ->
  exists d1 c1 c2,
    c06_call spec_1in02 (Epd1in02.clear_partial_frame x y w h) k1 false 0 x y w h d c
             [EBurstUc 0x10 P1 (win_area x y w h) [SFill (Epd1in02.not8 (fill_1in02 d)) (w / 8 * h)];
              EBurstUc 0x13 P2 (win_area x y w h) [SFill (fill_1in02 d) (w / 8 * h)]] d1 c1 /\
    c01_call spec_1in02 (Epd1in02.update_frame k2 1280) k2 (en_uf 1280 0x13) d1 c1
             [uc_fill spec_1in02 0x10 P1 (fill_1in02 d1) 1280; uc_buf spec_1in02 0x13 P2 k2 1280] (fm_d_1in02 d1) c2 /\
    uc_havoc spec_1in02 c2 /\ refresh (fm_d_1in02 d1) = 0.
Proof.
  intros A I R.
  destruct (epd1in02_clear_partial_frame_window k1 x y w h c d A I) as (d1 & c1 & H1 & I1 & P1 & R1).
  pose proof (epd1in02_clear_partial_frame_keeps_res _ _ _ _ _ _ _ _ _ _ A I H1) as E1.
  destruct (epd1in02_update_frame_havoc k2 c1 d1 I1) as (c2 & H2 & U2 & R2).
  { exact (uc_full_res_eq _ _ _ E1 R). }
  { intros _. exact P1. }
  exists d1, c1, c2. auto.
Qed.

(** ** epd2in7: partial data (0x14) touches neither partial flag nor resolution *)
Lemma ctl_2in7_upf_res k len b0 b1 b2 b3 b4 b5 b6 b7 c : idle c ->
  let r := ccall cp27 c ([ICmd 0x14] ++ map dl [b0;b1;b2;b3;b4;b5;b6;b7] ++ [IWait true; IData (DArg k 0 0 len)]) in
  c_resh (fst r) = c_resh c /\ c_partial (fst r) = c_partial c.
Proof. intros I. idle_destruct c I. split; reflexivity. Qed.

Theorem epd2in7_partial_then_full k1 k2 len x y w h c d :
  aligned_in 176 264 x y w h -> len = w / 8 * h -> uc_havoc spec_2in7 c ->
  exists c1 c2,
    c06_call spec_2in7 (Epd2in7.update_partial_frame k1 len x y w h) k1 true len x y w h d c
             [EBurstUc 0x14 P1 (win_area x y w h) [SData (DArg k1 0 0 len)]] d c1 /\
    c01_call spec_2in7 (Epd2in7.update_frame k2 5808) k2 (en_uf 5808 0x13) d c1
             [uc_fill spec_2in7 0x10 P1 (fill_2in7 d) 5808; uc_buf spec_2in7 0x13 P2 k2 5808] d c2 /\
    uc_havoc spec_2in7 c2.
Proof.
  intros A Hlen (I & P & R).
  destruct (epd2in7_update_partial_frame_window k1 len x y w h c d A Hlen I) as (c1 & H1 & I1).
  assert (E : c_resh c1 = c_resh c /\ c_partial c1 = c_partial c).
  { rewrite (c06_call_final _ _ _ _ _ _ _ _ _ _ _ _ _ _ _ H1 (upf_2in7_run k1 len x y w h d)).
    rewrite !calls_app, calls_lit1. cbv [wb_2in7]. apply ctl_2in7_upf_res. exact I. }
  destruct E as [E1 E2].
  destruct (epd2in7_update_frame_havoc k2 c1 d) as (c2 & H2 & U2).
  { split; [exact I1|]. split; [rewrite E2; exact P|]. exact (uc_full_res_eq _ _ _ E1 R). }
  exists c1, c2. auto.
Qed.

(** * concrete states: the system after construction and a macro step (used as non-vacuity and
      refutation witnesses) *)
Definition ft0 : feat := mkFeat false false.
Definition after_ops (P : pspec) (ops : list op) : option sys :=
  match sys_new ft0 P with
  | Some (s0, _, _) => match sys_macro ft0 P s0 ops with Some (s, _) => Some s | None => None end
  | None => None
  end.
Definition c_after (P : pspec) (ops : list op) : cstate :=
  match after_ops P ops with Some s => y_c s | None => por (ps_cp P) end.
Definition d_after (P : pspec) (ops : list op) : dstate :=
  match after_ops P ops with Some s => y_d s | None => d0 end.

(** * Refutations: drivers whose full-frame update does NOT re-program window and counter *)
(** epd2in9b_v4: [update_frame] sends 0x24 <image> 0x26 <zeros> and nothing else *)
Definition epd2in9b_v4_update_frame_havoc_stmt : Prop :=
  forall k c d, ssd_havoc c ->
    exists t d' c' es,
      Epd2in9b_v4.update_frame (DArg k 0 0 4736) d = (Some tt, d', t) /\
      ccall (ps_cp spec_2in9b_v4) c (calls t) = (c', es) /\
      chk_c01 spec_2in9b_v4 sym k (en_uf 4736 0x24) es = [].

Lemma epd2in9b_v4_update_frame_havoc_refuted : ~ epd2in9b_v4_update_frame_havoc_stmt.
Proof.
  intros S.
  destruct (S 1 (c_after spec_2in9b_v4 [OUpdatePartial 16 8 4 64 2]) d0) as (t & d' & c' & es & Hm & Hc & Hk).
  - vm_compute. repeat split.
  - vm_compute in Hm. injection Hm as _ <-. vm_compute in Hc. injection Hc as _ <-. vm_compute in Hk. discriminate Hk.
Qed.

(** the witness is the state the documented update_partial_frame (16 bytes at (8,4), 64 x 2) leaves:
    window columns 1..8, rows 4..5, counter at its origin; the image lands in that window and so does
    the zero fill of the red plane *)
Lemma epd2in9b_v4_update_frame_after_partial :
  let c := c_after spec_2in9b_v4 [OUpdatePartial 16 8 4 64 2] in
  ssd_havoc c /\ geom_of c = mkGeom 3 1 8 4 5 1 4 /\
  match Epd2in9b_v4.update_frame (DArg 1 0 0 4736) d0 with
  | (Some _, _, t) => chk_c01 spec_2in9b_v4 sym 1 (en_uf 4736 0x24) (snd (ccall (ps_cp spec_2in9b_v4) c (calls t)))
  | _ => []
  end = [ClGeometry 0x24; ClOtherPlane 0x26].
Proof. vm_compute. repeat split. Qed.

(** epd2in9_v2: [update_frame] is wait, 0x24 <image> *)
Definition epd2in9_v2_update_frame_havoc_stmt : Prop :=
  forall k c d, ssd_havoc c ->
    exists t d' c' es,
      Epd2in9_v2.update_frame k 4736 d = (Some tt, d', t) /\
      ccall (ps_cp spec_2in9_v2) c (calls t) = (c', es) /\
      chk_c01 spec_2in9_v2 sym k (en_uf 4736 0x24) es = [].

Lemma epd2in9_v2_update_frame_havoc_refuted : ~ epd2in9_v2_update_frame_havoc_stmt.
Proof.
  intros S.
  destruct (S 1 (c_after spec_2in9_v2 [OUpdatePartial 16 8 4 64 2]) d0) as (t & d' & c' & es & Hm & Hc & Hk).
  - vm_compute. repeat split.
  - vm_compute in Hm. injection Hm as _ <-. vm_compute in Hc. injection Hc as _ <-. vm_compute in Hk. discriminate Hk.
Qed.

Lemma epd2in9_v2_update_frame_after_partial :
  let c := c_after spec_2in9_v2 [OUpdatePartial 16 8 4 64 2] in
  ssd_havoc c /\ geom_of c = mkGeom 3 1 9 4 6 6 6 /\
  match Epd2in9_v2.update_frame 1 4736 d0 with
  | (Some _, _, t) => chk_c01 spec_2in9_v2 sym 1 (en_uf 4736 0x24) (snd (ccall (ps_cp spec_2in9_v2) c (calls t)))
  | _ => []
  end = [ClGeometry 0x24].
Proof. vm_compute. repeat split. Qed.

(** the hypothesis [c_partial c = false] of the epd4in2 theorem is necessary: update_frame does not
    send PartialOut.  Witness: the state between the two halves of the QuickRefresh pair (old image
    sent, new image not yet: partial mode on) *)
Definition epd4in2_update_frame_any_partial_stmt : Prop :=
  forall k c d, idle c -> uc_full_res spec_4in2 c ->
    exists t d' c' es,
      Epd4in2.update_frame k 15000 d = (Some tt, d', t) /\
      ccall (ps_cp spec_4in2) c (calls t) = (c', es) /\
      chk_c01 spec_4in2 sym k (en_uf 15000 0x13) es = [].

Lemma epd4in2_update_frame_any_partial_refuted : ~ epd4in2_update_frame_any_partial_stmt.
Proof.
  intros S.
  destruct (S 1 (c_after spec_4in2 [OUpdatePartialOld 16 8 4 64 2]) d0) as (t & d' & c' & es & Hm & Hc & Hk).
  - vm_compute. repeat split.
  - vm_compute. left. reflexivity.
  - vm_compute in Hm. injection Hm as _ <-. vm_compute in Hc. injection Hc as _ <-. vm_compute in Hk. discriminate Hk.
Qed.

(** likewise [c_entry c = 3] for the SSD-type panels: update_frame does not send the data entry mode
    (0x11); with entry mode 0 the geometry clause fails.  Witness: a state differing from POR only in
    the entry-mode register *)
Definition epd1in54_update_frame_any_entry_stmt : Prop :=
  forall k c d, idle c ->
    exists t d' c' es,
      Epd1in54.update_frame k 5000 d = (Some tt, d', t) /\
      ccall (ps_cp spec_1in54) c (calls t) = (c', es) /\
      chk_c01 spec_1in54 sym k (en_uf 5000 0x24) es = [].

Lemma epd1in54_update_frame_any_entry_refuted : ~ epd1in54_update_frame_any_entry_stmt.
Proof.
  intros S.
  destruct (S 1 (fst (ccall (ps_cp spec_1in54) (por (ps_cp spec_1in54)) [ICmd 0x11; IData (DLit [0])])) d0)
    as (t & d' & c' & es & Hm & Hc & Hk).
  - vm_compute. repeat split.
  - vm_compute in Hm. injection Hm as _ <-. vm_compute in Hc. injection Hc as _ <-. vm_compute in Hk. discriminate Hk.
Qed.

(** * UC-type panels: the same results as [Sys.sys_op] steps *)
Theorem epd4in2_sys_update_frame ft k s :
  uc_havoc spec_4in2 (y_c s) ->
  exists s', sys_c01_ok ft spec_4in2 k s (en_uf 15000 0x13)
                        [uc_fill spec_4in2 0x10 P1 (fill_4in2 (y_d s)) 15000; uc_buf spec_4in2 0x13 P2 k 15000] s'
             /\ In (en_uf 15000 0x13) (ps_entries spec_4in2) /\ uc_havoc spec_4in2 (y_c s').
Proof.
  destruct s as [d c]. cbn [y_c y_d]. intros U.
  destruct (epd4in2_update_frame_havoc k c d U) as (c' & H & U').
  exists (mkSys d c'). split; [eapply sys_c01_ok_intro; [reflexivity | exact H]|].
  split; [left; reflexivity | exact U'].
Qed.

Theorem epd1in02_sys_update_frame ft k s :
  idle (y_c s) -> uc_full_res spec_1in02 (y_c s) -> full_agrees (y_d s) (y_c s) ->
  exists s', sys_c01_ok ft spec_1in02 k s (en_uf 1280 0x13)
                        [uc_fill spec_1in02 0x10 P1 (fill_1in02 (y_d s)) 1280; uc_buf spec_1in02 0x13 P2 k 1280] s'
             /\ In (en_uf 1280 0x13) (ps_entries spec_1in02)
             /\ uc_havoc spec_1in02 (y_c s') /\ full_agrees (y_d s') (y_c s') /\ quick_agrees (y_d s') (y_c s').
Proof.
  destruct s as [d c]. cbn [y_c y_d]. intros I R F.
  destruct (epd1in02_update_frame_havoc k c d I R F) as (c' & H & U' & R').
  exists (mkSys (fm_d_1in02 d) c'). split; [eapply sys_c01_ok_intro; [reflexivity | exact H]|].
  split; [left; reflexivity|]. split; [exact U'|]. cbn [y_c y_d]. split.
  - intros _. apply U'.
  - intros E. rewrite R' in E. discriminate E.
Qed.

Theorem epd2in7_sys_update_frame ft k s :
  uc_havoc spec_2in7 (y_c s) ->
  exists s', sys_c01_ok ft spec_2in7 k s (en_uf 5808 0x13)
                        [uc_fill spec_2in7 0x10 P1 (fill_2in7 (y_d s)) 5808; uc_buf spec_2in7 0x13 P2 k 5808] s'
             /\ In (en_uf 5808 0x13) (ps_entries spec_2in7) /\ uc_havoc spec_2in7 (y_c s').
Proof.
  destruct s as [d c]. cbn [y_c y_d]. intros U.
  destruct (epd2in7_update_frame_havoc k c d U) as (c' & H & U').
  exists (mkSys d c'). split; [eapply sys_c01_ok_intro; [reflexivity | exact H]|].
  split; [left; reflexivity | exact U'].
Qed.

(** under the oracle's precondition [aligned_inside]: OUpdatePartial of any aligned window, then
    OUpdateFrame *)
Theorem epd4in2_sys_partial_then_full ft k1 k2 len x y w h s :
  aligned_inside spec_4in2 x y w h = true -> x < 256 -> len = w / 8 * h ->
  idle (y_c s) -> uc_full_res spec_4in2 (y_c s) ->
  exists s1 s2,
    sys_c06_ok ft spec_4in2 k1 s (OUpdatePartial len x y w h) true len x y w h s1 /\
    sys_c01_ok ft spec_4in2 k2 s1 (en_uf 15000 0x13)
               [uc_fill spec_4in2 0x10 P1 (fill_4in2 (y_d s)) 15000; uc_buf spec_4in2 0x13 P2 k2 15000] s2 /\
    uc_havoc spec_4in2 (y_c s2).
Proof.
  intros A Hx Hl I R. apply aligned_inside_in in A. destruct s as [d c]. cbn [y_c y_d] in *.
  destruct (epd4in2_partial_then_full k1 k2 len x y w h c d A Hx Hl I R) as (c1 & c2 & H1 & H2 & U2).
  exists (mkSys d c1), (mkSys d c2). split; [|split; [|exact U2]].
  - eapply sys_c06_ok_intro; [reflexivity | exact H1].
  - eapply sys_c01_ok_intro; [reflexivity | exact H2].
Qed.

(** * what the data runs named in the SSD theorems are: the run of the panel's documented
      [OUpdateFrame] entry, addressed from the origin over the full panel, one plane long, carrying
      exactly the caller's buffer *)
Definition run_is_full_frame (P : pspec) (k len : N) : Prop :=
  In (en_uf len 0x24) (ps_entries P) /\ In (en_ud len 0x24) (ps_entries P) /\ ps_frame P = len /\
  full_geometry P (ssd_buf P 0x24 P1 k len) = true /\
  segslen (burst_segs (ssd_buf P 0x24 P1 k len)) = plane_size P 0x24 /\
  burst_segs (ssd_buf P 0x24 P1 k len) = [SData (DArg k 0 0 len)].
Lemma ssd_runs_are_full_frame k :
  run_is_full_frame spec_1in54 k 5000 /\ run_is_full_frame spec_1in54_v2 k 5000 /\
  run_is_full_frame spec_2in9 k 4736 /\ run_is_full_frame spec_2in7_v2 k 5808 /\
  run_is_full_frame spec_2in13_v2 k 4000.
Proof. unfold run_is_full_frame. repeat split; first [left; reflexivity | right; left; reflexivity]. Qed.

(** decidable forms of the hypotheses (for checking them on concrete state sets) *)
Definition idleb (c : cstate) : bool := match c_cur c with None => true | Some _ => false end && negb (c_deep c).
Definition ssd_havocb (c : cstate) : bool := idleb c && (c_entry c =? 3).
Definition uc_full_resb (P : pspec) (c : cstate) : bool := (c_resh c =? cp_H (ps_cp P)) || (c_resh c =? 0).
Definition uc_havocb (P : pspec) (c : cstate) : bool := idleb c && negb (c_partial c) && uc_full_resb P c.
Definition full_agreesb (d : dstate) (c : cstate) : bool := negb (refresh d =? 0) || negb (c_partial c).
Definition quick_agreesb (d : dstate) (c : cstate) : bool := negb (refresh d =? 1) || c_partial c.

Lemma idleb_ok c : idleb c = true -> idle c.
Proof. unfold idleb, idle. destruct (c_cur c); [discriminate|]. destruct (c_deep c); [discriminate|]. split; reflexivity. Qed.
Lemma ssd_havocb_ok c : ssd_havocb c = true -> ssd_havoc c.
Proof.
  unfold ssd_havocb, ssd_havoc. intros H. apply andb_prop in H. destruct H as [H1 H2].
  destruct (idleb_ok c H1) as [A B]. apply N.eqb_eq in H2. auto.
Qed.
Lemma uc_full_resb_ok P c : uc_full_resb P c = true -> uc_full_res P c.
Proof. unfold uc_full_resb, uc_full_res. intros H. apply orb_prop in H. destruct H as [H|H]; apply N.eqb_eq in H; auto. Qed.
Lemma uc_havocb_ok P c : uc_havocb P c = true -> uc_havoc P c.
Proof.
  unfold uc_havocb, uc_havoc. intros H. apply andb_prop in H. destruct H as [H H3]. apply andb_prop in H. destruct H as [H1 H2].
  split; [exact (idleb_ok c H1)|]. split; [destruct (c_partial c); [discriminate H2 | reflexivity] | exact (uc_full_resb_ok P c H3)].
Qed.
Lemma full_agreesb_ok d c : full_agreesb d c = true -> full_agrees d c.
Proof. unfold full_agreesb, full_agrees. intros H E. rewrite E in H. change (0 =? 0) with true in H. cbv [negb orb] in H. destruct (c_partial c); [discriminate H | reflexivity]. Qed.
Lemma quick_agreesb_ok d c : quick_agreesb d c = true -> quick_agrees d c.
Proof. unfold quick_agreesb, quick_agrees. intros H E. rewrite E in H. exact H. Qed.

(** * WindowsHist: the all-window theorems of Proof/Windows2.v after EVERY history.

    Proof/Windows2.v characterises, for every aligned in-panel window, what a partial entry point
    programs and which C06 clauses it fails - as single-call theorems under a hypothesis on the
    controller state the call starts from ([ssd_havoc] / [idle]).  Here that hypothesis is discharged:
    it is checked on every state of the closed reachable set of the configuration ([Rof], kernel
    computation) and therefore holds after every protocol-respecting history of any length
    ([Book.invariant_after_every_history]).  The composed theorems quantify over the history AND the
    window: "after any history, a partial update of ANY aligned window fails exactly these clauses". *)
From Coq Require Import List NArith Bool.
From EPD Require Import Iface Ops Ctl.Ctl Panels Reach Spec.PSpec Spec.Checks Spec.Sys Spec.Specs Spec.Oracle
  Spec.Verdict Spec.Known Proof.AllPanels Proof.History Proof.Book Proof.Windows Proof.Havoc Proof.Windows2.
Import ListNotations.
Open Scope N_scope.

(** the (driver fields, controller state) pair a history ends in *)
Definition sys_of (s : vstate) : sys := mkSys (v_d s) (o_c (v_o s)).
Definition end_of (c : feat * panel) (s0 : vstate) (h : list (list op)) : sys :=
  sys_of (p_run (fst c) (spec_of (snd c)) s0 h).

Definition f00 : feat := mkFeat false false.
Definition ssd_cfgs : list (feat * panel) :=
  [(f00, P1in54); (mkFeat false true, P1in54); (f00, P1in54_v2); (f00, P2in9); (mkFeat false true, P2in9);
   (f00, P2in13_v2); (mkFeat true false, P2in13_v2); (f00, P2in7_v2); (f00, P2in9_v2); (f00, P2in66b)].
Definition uc_cfgs : list (feat * panel) :=
  [(f00, P4in2); (f00, P5in83b_v2); (f00, P7in5b_v2); (f00, P2in9d); (f00, P1in02); (f00, P2in7); (f00, P2in7b)].

Lemma ssd_cfgs_in : forall c, In c ssd_cfgs -> In c cfgs.
Proof. intros c H. repeat (destruct H as [<-|H]; [cbn; tauto|]). contradiction. Qed.
Lemma uc_cfgs_in : forall c, In c uc_cfgs -> In c cfgs.
Proof. intros c H. repeat (destruct H as [<-|H]; [cbn; tauto|]). contradiction. Qed.

Definition ssd_inv (s : vstate) : bool := ssd_havocb (o_c (v_o s)).
Definition idle_inv (s : vstate) : bool := idleb (o_c (v_o s)).

Lemma ssd_sweep : forallb (fun c => forallb ssd_inv (Rof c)) ssd_cfgs = true.
Proof. vm_compute. reflexivity. Qed.
Lemma uc_sweep : forallb (fun c => forallb idle_inv (Rof c)) uc_cfgs = true.
Proof. vm_compute. reflexivity. Qed.

Theorem ssd_havoc_after_every_history : forall c, In c ssd_cfgs ->
  exists s0, fst (p_new (fst c) (spec_of (snd c))) = Some s0 /\
  forall h, valid_history (snd c) h -> ssd_havoc (y_c (end_of c s0 h)).
Proof.
  intros c Hc. pose proof ssd_sweep as SW. rewrite forallb_forall in SW. specialize (SW c Hc).
  destruct (invariant_after_every_history ssd_inv c (ssd_cfgs_in c Hc) SW) as (s0 & E & H).
  exists s0. split; [exact E|]. intros h Hh. apply ssd_havocb_ok. exact (H h Hh).
Qed.

Theorem idle_after_every_history : forall c, In c uc_cfgs ->
  exists s0, fst (p_new (fst c) (spec_of (snd c))) = Some s0 /\
  forall h, valid_history (snd c) h -> idle (y_c (end_of c s0 h)).
Proof.
  intros c Hc. pose proof uc_sweep as SW. rewrite forallb_forall in SW. specialize (SW c Hc).
  destruct (invariant_after_every_history idle_inv c (uc_cfgs_in c Hc) SW) as (s0 & E & H).
  exists s0. split; [exact E|]. intros h Hh. apply idleb_ok. exact (H h Hh).
Qed.

(** ** composed statements: history and window both universally quantified *)
Definition after_history (c : feat * panel) (Q : sys -> Prop) : Prop :=
  exists s0, fst (p_new (fst c) (spec_of (snd c))) = Some s0 /\
  forall h, valid_history (snd c) h -> Q (end_of c s0 h).

Lemma after_history_ssd c (Q : sys -> Prop) : In c ssd_cfgs ->
  (forall s, ssd_havoc (y_c s) -> Q s) -> after_history c Q.
Proof.
  intros Hc HQ. destruct (ssd_havoc_after_every_history c Hc) as (s0 & E & H).
  exists s0. split; [exact E|]. intros h Hh. apply HQ. exact (H h Hh).
Qed.
Lemma after_history_uc c (Q : sys -> Prop) : In c uc_cfgs ->
  (forall s, idle (y_c s) -> Q s) -> after_history c Q.
Proof.
  intros Hc HQ. destruct (idle_after_every_history c Hc) as (s0 & E & H).
  exists s0. split; [exact E|]. intros h Hh. apply HQ. exact (H h Hh).
Qed.

(** type-A SSD: exclusive window ends for every window, after every history *)
Definition typeA_partial (ft : feat) (P : pspec) (s : sys) : Prop :=
  forall k len x y w h, aligned_inside P x y w h = true -> len = w / 8 * h ->
  exists s', sys_c06x ft P k s (OUpdatePartial len x y w h) true len x y w h [ClWindow 2; ClWindow 4] s' /\ ssd_havoc (y_c s').

Theorem epd1in54_partial_after_every_history : forall ft, In (ft, P1in54) ssd_cfgs ->
  after_history (ft, P1in54) (typeA_partial ft spec_1in54).
Proof.
  intros ft Hc. apply after_history_ssd; [exact Hc|]. intros s I k len x y w h A L.
  exact (epd1in54_sys_update_partial_class ft k len x y w h s A L I).
Qed.
Theorem epd1in54_v2_partial_after_every_history :
  after_history (f00, P1in54_v2) (typeA_partial f00 spec_1in54_v2).
Proof.
  apply after_history_ssd; [cbn; tauto|]. intros s I k len x y w h A L.
  exact (epd1in54_v2_sys_update_partial_class f00 k len x y w h s A L I).
Qed.
Theorem epd2in9_partial_after_every_history : forall ft, In (ft, P2in9) ssd_cfgs ->
  after_history (ft, P2in9) (typeA_partial ft spec_2in9).
Proof.
  intros ft Hc. apply after_history_ssd; [exact Hc|]. intros s I k len x y w h A L.
  exact (epd2in9_sys_update_partial_class ft k len x y w h s A L I).
Qed.

Definition partial_2in13_v2 (ft : feat) (s : sys) : Prop :=
  forall k len x y w h, aligned_inside spec_2in13_v2 x y w h = true -> len = w / 8 * h -> refresh (y_d s) = 0 ->
  exists s', sys_c06x ft spec_2in13_v2 k s (OUpdatePartial len x y w h) true len x y w h
                      [ClWindow 2; ClWindow 4; ClWindow 2; ClWindow 4] s' /\ ssd_havoc (y_c s').
Theorem epd2in13_v2_partial_after_every_history : forall ft, In (ft, P2in13_v2) ssd_cfgs ->
  after_history (ft, P2in13_v2) (partial_2in13_v2 ft).
Proof.
  intros ft Hc. apply after_history_ssd; [exact Hc|]. intros s I k len x y w h A L R.
  exact (epd2in13_v2_sys_update_partial_class ft k len x y w h s A L R I).
Qed.

(** epd2in9_v2 / epd2in7_v2: additionally the pixel-unit X counter *)
Definition px_partial (ft : feat) (P : pspec) (s : sys) : Prop :=
  forall k len x y w h, aligned_inside P x y w h = true -> len = w / 8 * h ->
  exists s', sys_c06x ft P k s (OUpdatePartial len x y w h) true len x y w h (px_clauses x) s' /\ ssd_havoc (y_c s') /\
             (w < 7 * x -> c_tainted (y_c s') = true).
Theorem epd2in9_v2_partial_after_every_history :
  after_history (f00, P2in9_v2) (px_partial f00 spec_2in9_v2).
Proof.
  apply after_history_ssd; [cbn; tauto|]. intros s I k len x y w h A L.
  exact (epd2in9_v2_sys_update_partial_class f00 k len x y w h s A L I).
Qed.
Theorem epd2in7_v2_partial_after_every_history :
  after_history (f00, P2in7_v2) (px_partial f00 spec_2in7_v2).
Proof.
  apply after_history_ssd; [cbn; tauto|]. intros s I k len x y w h A L.
  exact (epd2in7_v2_sys_update_partial_class f00 k len x y w h s A L I).
Qed.

Definition zz_partial (s : sys) : Prop :=
  forall k len x y w h, aligned_inside spec_2in66b x y w h = true -> len = w / 8 * h ->
  exists s', sys_c06x f00 spec_2in66b k s (OUpdatePartial len x y w h) true len x y w h (zz_clauses x y) s' /\ ssd_havoc (y_c s') /\
             (x <> 0 \/ y <> 0 -> c_tainted (y_c s') = true).
Theorem epd2in66b_partial_after_every_history : after_history (f00, P2in66b) zz_partial.
Proof.
  apply after_history_ssd; [cbn; tauto|]. intros s I k len x y w h A L.
  exact (epd2in66b_sys_update_partial_class f00 k len x y w h s A L I).
Qed.

(** UC-type *)
Definition partial_5in83b (s : sys) : Prop :=
  forall k len x y w h, aligned_inside spec_5in83b_v2 x y w h = true -> len = w / 8 * h ->
  exists s', sys_c06x f00 spec_5in83b_v2 k s (OUpdatePartial len x y w h) true len x y w h
                      (clauses_5in83b x w ++ clauses_5in83b x w) s' /\ idle (y_c s').
Theorem epd5in83b_v2_partial_after_every_history : after_history (f00, P5in83b_v2) partial_5in83b.
Proof.
  apply after_history_uc; [cbn; tauto|]. intros s I k len x y w h A L.
  exact (epd5in83b_v2_sys_update_partial_class f00 k len x y w h s A L I).
Qed.

Definition partial_4in2 (s : sys) : Prop :=
  forall k len x y w h o, o = OUpdatePartial len x y w h \/ o = OUpdatePartialOld len x y w h ->
  aligned_inside spec_4in2 x y w h = true -> len = w / 8 * h ->
  exists s', sys_c06x f00 spec_4in2 k s o true len x y w h (clauses_4in2 x) s' /\ idle (y_c s').
Theorem epd4in2_partial_after_every_history : after_history (f00, P4in2) partial_4in2.
Proof.
  apply after_history_uc; [cbn; tauto|]. intros s I k len x y w h o O A L.
  exact (epd4in2_sys_partial_class f00 k len x y w h s o O A L I).
Qed.

Definition partial_7in5b (s : sys) : Prop :=
  forall k len x y w h, aligned_inside spec_7in5b_v2 x y w h = true -> len = w / 8 * h ->
  exists s', sys_c06x f00 spec_7in5b_v2 k s (OUpdatePartial2 len x y w h) true len x y w h (clauses_7in5b len) s' /\ idle (y_c s').
Theorem epd7in5b_v2_partial_after_every_history : after_history (f00, P7in5b_v2) partial_7in5b.
Proof.
  apply after_history_uc; [cbn; tauto|]. intros s I k len x y w h A L.
  exact (epd7in5b_v2_sys_update_partial2_class f00 k len x y w h s A L I).
Qed.

Definition partial_2in9d (s : sys) : Prop :=
  forall k len x y w h, aligned_inside spec_2in9d x y w h = true -> len = w / 8 * h ->
  ((y + h - 1) mod 256 <> 0 ->
   exists s', sys_c06x f00 spec_2in9d k s (OUpdatePartial len x y w h) true len x y w h (clauses_2in9d w h (y_d s)) s'
              /\ idle (y_c s') /\ old (y_d s') = Some (k, 0, len)) /\
  ((y + h - 1) mod 256 = 0 -> sys_op f00 spec_2in9d k s (OUpdatePartial len x y w h) = OpPanic).
Theorem epd2in9d_partial_after_every_history : after_history (f00, P2in9d) partial_2in9d.
Proof.
  apply after_history_uc; [cbn; tauto|]. intros s I k len x y w h A L. split.
  - intros M. exact (epd2in9d_sys_update_partial_class f00 k len x y w h s A M L I).
  - intros M. exact (epd2in9d_sys_update_partial_panics f00 k len x y w h s A M).
Qed.


(** ** the POSITIVE all-window theorems of Proof/Windows.v after every history: C06 HOLDS for every
    aligned window ([sys_c06_ok]: [chk_c06 = []]) *)
Definition ok_4in2 (s : sys) : Prop :=
  forall k len x y w h, aligned_inside spec_4in2 x y w h = true -> x < 256 -> len = w / 8 * h ->
  (exists s', sys_c06_ok f00 spec_4in2 k s (OUpdatePartial len x y w h) true len x y w h s'
              /\ idle (y_c s') /\ c_partial (y_c s') = false) /\
  (exists s', sys_c06_ok f00 spec_4in2 k s (OClearPartial x y w h) false 0 x y w h s'
              /\ idle (y_c s') /\ c_partial (y_c s') = false).
Theorem epd4in2_windows_ok_after_every_history : after_history (f00, P4in2) ok_4in2.
Proof.
  apply after_history_uc; [cbn; tauto|]. intros s I k len x y w h A X L. split.
  - exact (epd4in2_sys_update_partial f00 k len x y w h s A X L I).
  - exact (epd4in2_sys_clear_partial f00 k x y w h s A X I).
Qed.

Definition ok_1in02 (s : sys) : Prop :=
  forall k x y w h, aligned_inside spec_1in02 x y w h = true ->
  exists s', sys_c06_ok f00 spec_1in02 k s (OClearPartial x y w h) false 0 x y w h s'
             /\ idle (y_c s') /\ quick_agrees (y_d s') (y_c s').
Theorem epd1in02_windows_ok_after_every_history : after_history (f00, P1in02) ok_1in02.
Proof.
  apply after_history_uc; [cbn; tauto|]. intros s I k x y w h A.
  exact (epd1in02_sys_clear_partial f00 k x y w h s A I).
Qed.

Definition ok_2in7 (s : sys) : Prop :=
  forall k len x y w h, aligned_inside spec_2in7 x y w h = true -> len = w / 8 * h ->
  exists s', sys_c06_ok f00 spec_2in7 k s (OUpdatePartial len x y w h) true len x y w h s' /\ idle (y_c s').
Theorem epd2in7_windows_ok_after_every_history : after_history (f00, P2in7) ok_2in7.
Proof.
  apply after_history_uc; [cbn; tauto|]. intros s I k len x y w h A L.
  exact (epd2in7_sys_update_partial f00 k len x y w h s A L I).
Qed.

Definition ok_2in7b (s : sys) : Prop :=
  forall k len x y w h o,
  o = OUpdatePartial len x y w h \/ o = OUpdatePartialAchromatic len x y w h \/ o = OUpdatePartialChromatic len x y w h ->
  aligned_inside spec_2in7b x y w h = true -> len = w / 8 * h ->
  exists s', sys_c06_ok f00 spec_2in7b k s o true len x y w h s' /\ idle (y_c s').
Theorem epd2in7b_windows_ok_after_every_history : after_history (f00, P2in7b) ok_2in7b.
Proof.
  apply after_history_uc; [cbn; tauto|]. intros s I k len x y w h o O A L.
  exact (epd2in7b_sys_update_partial f00 k len x y w h s o O A L I).
Qed.

(** non-vacuity: there are histories, and aligned windows *)
Example histories_exist : valid_history P1in54 [] /\ aligned_inside spec_1in54 8 3 16 5 = true.
Proof. split; [constructor | reflexivity]. Qed.

(** * Pixel: from "the plane receives the buffer bytes in order from the origin over the full panel"
    (what C01/C02 establish per call) to "pixel (x,y) of the drawing is column x, row y of the plane".

    The controller specification stores the i-th byte of a data run at the address its counter has
    after i bytes ([Ctl.advance]); the frame buffer stores pixel (x,y) in bit [7 - x mod 8] of byte
    [x/8 + y * ceil(W/8)] ([Pure/GraphicsProofs.byte_of], C03).  For a run that starts at the origin of
    a window covering exactly [R = ceil(W/8)] byte columns and [H] rows these two maps agree. *)
From Coq Require Import List NArith ZArith Bool Lia ZifyBool ZifyN.
From EPD Require Import Iface Ctl.Ctl Pure.Graphics Pure.GraphicsProofs.
Import ListNotations.
Open Scope N_scope.
Ltac Zify.zify_post_hook ::= Z.div_mod_to_equations.

(** full-panel geometry in entry mode 3 (X+, Y+), as [Checks.full_geometry] demands *)
Definition full_geom (R H : N) : geom := mkGeom 3 0 (R - 1) 0 (H - 1) 0 0.

(** the address of the i-th byte of a run written under the full-panel geometry is (i mod R, i / R) *)
Lemma full_run_address R H i : 0 < R -> 0 < H -> i < R * H ->
  advance (full_geom R H) i = Some (i mod R, i / R).
Proof.
  intros HR HH Hi. unfold advance, full_geom. cbn [g_entry]. replace (3 =? 3) with true by reflexivity.
  unfold advance3. cbn [g_entry g_xs g_xe g_ys g_ye g_xc g_yc].
  replace (3 =? 3) with true by reflexivity.
  replace (0 <=? 0) with true by reflexivity.
  replace (0 <=? R - 1) with true by (symmetry; apply N.leb_le; lia).
  replace (0 <=? H - 1) with true by (symmetry; apply N.leb_le; lia).
  cbn [andb].
  replace (R - 1 - 0 + 1) with R by lia. replace (H - 1 - 0 + 1) with H by lia.
  replace ((0 - 0) * R + (0 - 0) + i) with i by lia.
  rewrite (N.mod_small i (R * H)) by assumption. now rewrite !N.add_0_l.
Qed.

(** after the whole plane (R*H bytes) the counter is back at the origin: a second full-frame run written
    without re-programming the counter lands at the same addresses *)
Lemma full_run_wraps R H : 0 < R -> 0 < H -> advance (full_geom R H) (R * H) = Some (0, 0).
Proof.
  intros HR HH. unfold advance, full_geom. cbn [g_entry]. replace (3 =? 3) with true by reflexivity.
  unfold advance3. cbn [g_entry g_xs g_xe g_ys g_ye g_xc g_yc].
  replace (3 =? 3) with true by reflexivity.
  replace (0 <=? 0) with true by reflexivity.
  replace (0 <=? R - 1) with true by (symmetry; apply N.leb_le; lia).
  replace (0 <=? H - 1) with true by (symmetry; apply N.leb_le; lia).
  cbn [andb].
  replace (R - 1 - 0 + 1) with R by lia. replace (H - 1 - 0 + 1) with H by lia.
  replace ((0 - 0) * R + (0 - 0) + R * H) with (R * H) by lia.
  rewrite N.mod_same by lia. rewrite N.mod_0_l, N.div_0_l by lia. reflexivity.
Qed.

(** End to end: the frame-buffer byte that holds pixel (x,y) (C03: [byte_of W x y], bit [7 - x mod 8])
    is the byte the controller stores at byte column x/8, row y - so pixel (x,y) of the drawing is
    column x, row y of the plane, in the same bit position. *)
Theorem pixel_lands_at_its_place W H x y : x < W -> y < H ->
  let R := line_bytes W 1 in
  byte_of W x y < R * H /\
  advance (full_geom R H) (byte_of W x y) = Some (x / 8, y).
Proof.
  intros Hx Hy R.
  assert (HR : 0 < R) by (unfold R, line_bytes; lia).
  assert (Hb : byte_of W x y < R * H).
  { pose proof (byte_of_lt W H x y Hx Hy) as B. unfold R. lia. }
  split; [exact Hb|].
  rewrite full_run_address by (try assumption; lia).
  unfold byte_of. fold R.
  assert (Hx8 : x / 8 < R) by (unfold R, line_bytes; lia).
  f_equal. f_equal.
  - rewrite N.mod_add by lia. now apply N.mod_small.
  - rewrite N.div_add by lia. rewrite (N.div_small (x / 8) R) by assumption. lia.
Qed.

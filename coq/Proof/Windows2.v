(** * Windows2: the CLASSES of the known C06 findings as theorems.

    Proof/Windows.v proves C06 for ALL windows on the partial entry points where the property holds.
    Here, for the remaining partial entry points (whose models carry known defects), the window is
    again universally quantified and the theorems say exactly WHAT each defective entry point programs:
    for every byte-aligned window inside the panel, every buffer of the window's size, every
    driver-field state and every controller state an earlier call could have left ([ssd_havoc] /
    [idle]), the transport calls of the driver MODEL (Drv/*.v), fed to the controller SPECIFICATION
    (Ctl/Ctl.v), produce exactly the stated data runs (geometry, length, payload), and
    [Checks.chk_c06] reports exactly the stated clause list. *)
From Coq Require Import List NArith ZArith Bool Lia ZifyBool ZifyN.
From EPD Require Import Iface Ops Ctl.Ctl Spec.PSpec Spec.Checks Spec.Sys Spec.Specs Spec.Oracle Panels
  Drv.Luts Drv.Epd1in54 Drv.Epd1in54_v2 Drv.Epd2in9 Drv.Epd2in13_v2 Drv.Epd2in9_v2 Drv.Epd2in7_v2 Drv.Epd2in66b
  Drv.Epd5in83b_v2 Drv.Epd4in2 Drv.Epd7in5b_v2 Drv.Epd2in9d Proof.Windows Proof.Havoc.
Import ListNotations.
Open Scope N_scope.
Ltac Zify.zify_post_hook ::= Z.div_mod_to_equations.
Arguments N.add : simpl never.
Arguments N.sub : simpl never.
Arguments N.mul : simpl never.
Arguments N.div : simpl never.
Arguments N.modulo : simpl never.
Arguments N.ltb : simpl never.
Arguments N.leb : simpl never.
Arguments N.eqb : simpl never.
Arguments N.land : simpl never.
Arguments N.lor : simpl never.
Arguments N.shiftr : simpl never.
Arguments N.shiftl : simpl never.

(** ** small arithmetic *)
Lemma shr3 a : shr a 3 = a / 8.
Proof. unfold shr. rewrite N.shiftr_div_pow2. reflexivity. Qed.

Lemma le16_bytes a : a < 65536 -> le16 (u8 a) (u8 (shr a 8)) = a.
Proof. intros. rewrite shr8. unfold le16, u8. lia. Qed.

Lemma eqb_false a b : a <> b -> (a =? b) = false.
Proof. intros. apply N.eqb_neq. assumption. Qed.

(** ** [chk_c06] by parts, as an EQUATION (Windows.v has the [= []] direction only) *)
(** a data run that carries the caller's whole buffer, unencoded, on a plane with the panel's row pitch *)
Definition buf_run (P : pspec) (k len : N) (b : effect) : Prop :=
  exists c, burst_cmd b = Some c /\ rowbytes P c / cp_rowbytes (ps_cp P) = 1 /\
            burst_segs b = [SData (DArg k 0 0 len)].

Lemma flat_map_geometry P k len x y w h bs :
  len = w / 8 * h -> Forall (buf_run P k len) bs ->
  flat_map (fun b => match burst_cmd b with
                     | None => []
                     | Some c => window_geometry P x y w h b ++
                         (if segslen (burst_segs b) =? w / 8 * h * (rowbytes P c / cp_rowbytes (ps_cp P)) then []
                          else [ClLength c (segslen (burst_segs b))])
                     end) bs
  = flat_map (window_geometry P x y w h) bs.
Proof.
  intros Hlen F. induction F as [|b bs (c & Hc & Hr & Hs) _ IH]; [reflexivity|].
  cbn [flat_map]. rewrite IH, Hc, Hr, Hs.
  replace (segslen [SData (DArg k 0 0 len)] =? w / 8 * h * 1) with true.
  - rewrite app_nil_r. reflexivity.
  - symmetry. apply N.eqb_eq. cbv [segslen fold_left seglen dlen]. lia.
Qed.

(** when every data run of the call carries the caller's buffer, has the window's size and nothing is
    stray, [chk_c06] reports exactly the geometry clauses of the runs *)
Lemma chk_c06_geometry P k len x y w h es bs :
  filter isb es = bs -> bs <> [] -> chk_stray es = [] -> patterns es = [] ->
  Forall (buf_run P k len) bs -> len = w / 8 * h ->
  chk_c06 P sym k true len x y w h es = flat_map (window_geometry P x y w h) bs.
Proof.
  intros Hb Hne Hs Hp F Hlen. unfold chk_c06. change (filter _ es) with (filter isb es).
  fold (patterns es). rewrite Hs, Hp, Hb, !app_nil_r.
  rewrite (flat_map_geometry P k len x y w h bs Hlen F).
  assert (E : existsb (fun b0 => existsb (fun g0 => sm_eq sym (burst_segs b0) (expected_segs k (mkTarget 0 0 g0 0 len)))
                                         [BId; BNot; BExp2; BExp4]) bs = true).
  { destruct bs as [|b bs']; [congruence|]. destruct (Forall_inv F) as (c & _ & _ & Hseg).
    cbn [existsb]. rewrite Hseg. replace (sm_eq sym _ (expected_segs k (mkTarget 0 0 BId 0 len))) with true; [reflexivity|].
    symmetry. apply sym_eq_refl. }
  rewrite E. destruct bs; [congruence|]. rewrite app_nil_r. reflexivity.
Qed.

(** ** SSD-type window geometry: what [window_geometry] reports on a run with geometry [g] *)
(** the geometry the type-A partial entry points program: correct origin and counter, but the window
    END registers hold the EXCLUSIVE end (x + w) / 8, y + h *)
Definition geom_over (x y w h : N) : geom := mkGeom 3 (x / 8) ((x + w) / 8) y (y + h) (x / 8) y.
(** the geometry the property asks for *)
Definition geom_req (x y w h : N) : geom := mkGeom 3 (x / 8) ((x + w) / 8 - 1) y (y + h - 1) (x / 8) y.

Lemma wg_req P x y w h c pl segs :
  window_geometry P x y w h (EBurstSsd c pl (geom_req x y w h) segs) = [].
Proof. cbv [window_geometry geom_req g_entry g_xs g_xe g_ys g_ye g_xc g_yc]. rewrite !N.eqb_refl. reflexivity. Qed.

Lemma wg_over W H P x y w h c pl segs :
  aligned_in W H x y w h ->
  window_geometry P x y w h (EBurstSsd c pl (geom_over x y w h) segs) = [ClWindow 2; ClWindow 4].
Proof.
  intros (Hx & Hw & Hw0 & Hh0 & Hxw & Hyh).
  cbv [window_geometry geom_over g_entry g_xs g_xe g_ys g_ye g_xc g_yc]. rewrite !N.eqb_refl.
  rewrite (eqb_false ((x + w) / 8) ((x + w) / 8 - 1)) by lia.
  rewrite (eqb_false (y + h) (y + h - 1)) by lia. reflexivity.
Qed.

(** ** where the bytes of a run go: the counter stepping of [Ctl.advance3] in closed form *)
(** counter at the window origin: byte [i] of the run lands in column xs + i mod W', row ys + i / W',
    W' = xe - xs + 1 the PROGRAMMED row pitch *)
Lemma advance3_origin X XE Y YE i :
  X <= XE -> Y <= YE -> i < (XE - X + 1) * (YE - Y + 1) ->
  advance3 (mkGeom 3 X XE Y YE X Y) i = Some (X + i mod (XE - X + 1), Y + i / (XE - X + 1)).
Proof.
  intros HX HY Hi. cbv [advance3 g_entry g_xs g_xe g_ys g_ye g_xc g_yc].
  replace (3 =? 3) with true by reflexivity.
  rewrite (proj2 (N.leb_le X X)) by lia. rewrite (proj2 (N.leb_le X XE)) by lia.
  rewrite (proj2 (N.leb_le Y Y)) by lia. rewrite (proj2 (N.leb_le Y YE)) by lia.
  cbv [andb]. replace ((Y - Y) * (XE - X + 1) + (X - X) + i) with i by lia.
  rewrite (N.mod_small i) by exact Hi. reflexivity.
Qed.

(** the window programmed by the type-A partial entry points holds (w/8+1)*(h+1) cells but receives
    w/8*h bytes: byte [i] of the caller's buffer lands at column x/8 + i mod (w/8+1), row y + i / (w/8+1) *)
Lemma over_cell W H x y w h i :
  aligned_in W H x y w h -> i <= w / 8 * h ->
  advance3 (geom_over x y w h) i = Some (x / 8 + i mod (w / 8 + 1), y + i / (w / 8 + 1)).
Proof.
  intros (Hx & Hw & Hw0 & Hh0 & Hxw & Hyh) Hi. unfold geom_over.
  assert (E : (x + w) / 8 - x / 8 + 1 = w / 8 + 1) by lia.
  rewrite advance3_origin; [rewrite E; reflexivity | lia | lia |].
  rewrite E. replace (y + h - y + 1) with (h + 1) by lia.
  clear E Hx Hw Hw0 Hxw. generalize dependent (w / 8). intros B Hi.
  apply N.le_lt_trans with (B * h); [exact Hi|]. rewrite N.mul_add_distr_r, N.mul_add_distr_l. lia.
Qed.

(** the cell the property asks byte [i] to land in (row by row through the requested window) *)
Definition req_cell (x y w h i : N) : N * N := (x / 8 + i mod (w / 8), y + i / (w / 8)).

(** the first row is placed correctly; EVERY byte after the first row lands in a wrong cell *)
Lemma over_cell_first_row W H x y w h i :
  aligned_in W H x y w h -> i < w / 8 ->
  advance3 (geom_over x y w h) i = Some (req_cell x y w h i).
Proof.
  intros A Hi. pose proof A as (Hx & Hw & Hw0 & Hh0 & Hxw & Hyh).
  rewrite (over_cell W H x y w h i A) by nia. unfold req_cell.
  rewrite (N.mod_small i (w / 8 + 1)), (N.mod_small i (w / 8)) by lia.
  rewrite (N.div_small i (w / 8 + 1)), (N.div_small i (w / 8)) by lia. reflexivity.
Qed.

Lemma over_cell_shifted W H x y w h i :
  aligned_in W H x y w h -> w / 8 <= i -> i < w / 8 * h ->
  advance3 (geom_over x y w h) i <> Some (req_cell x y w h i).
Proof.
  intros A Hlo Hhi. pose proof A as (Hx & Hw & Hw0 & Hh0 & Hxw & Hyh).
  assert (Wp : 0 < w / 8) by lia.
  rewrite (over_cell W H x y w h i A) by lia. unfold req_cell. intros E. injection E as R Q.
  apply N.add_cancel_l in R, Q.
  clear A Hx Hw Hw0 Hh0 Hxw Hyh Hhi. generalize dependent (w / 8). intros B Hlo Wp R Q.
  assert (Bn : B <> 0) by (intros Z; rewrite Z in Wp; discriminate Wp).
  assert (Bn1 : B + 1 <> 0) by (intros Z; destruct B; discriminate Z).
  pose proof (N.div_mod i B Bn) as D1.
  pose proof (N.div_mod i (B + 1) Bn1) as D2.
  rewrite Q, R in D2. rewrite D1 in D2 at 1.
  rewrite N.mul_add_distr_r, N.mul_1_l in D2.
  assert (Z : i / B = 0).
  { generalize dependent (i / B). generalize dependent (i mod B). clear. intros r q E. lia. }
  apply N.div_small_iff in Z; [|exact Bn]. apply N.lt_nge in Z. exact (Z Hlo).
Qed.

(** ** one API call of the model through the controller specification: what [chk_c06] reports *)
(** as [Windows.c06_call], with the clause list [cl] that [chk_c06] reports instead of [[]] *)
Definition c06x_call (P : pspec) (m : M unit) (k : N) (hb : bool) (len x y w h : N)
           (d : dstate) (c : cstate) (bursts : list effect) (cl : list clause) (d' : dstate) (c' : cstate) : Prop :=
  exists t es,
    m d = (Some tt, d', t) /\
    ccall (ps_cp P) c (calls t) = (c', es) /\
    chk_c06 P sym k hb len x y w h es = cl /\
    filter isb es = bursts /\ chk_stray es = [].

Lemma c06x_call_intro P m k len x y w h d c bs cl d' items ic :
  m d = (Some tt, d', items) -> calls items = ic ->
  filter isb (snd (ccall (ps_cp P) c ic)) = bs ->
  chk_stray (snd (ccall (ps_cp P) c ic)) = [] ->
  patterns (snd (ccall (ps_cp P) c ic)) = [] ->
  bs <> [] -> Forall (buf_run P k len) bs -> len = w / 8 * h ->
  flat_map (window_geometry P x y w h) bs = cl ->
  c06x_call P m k true len x y w h d c bs cl d' (fst (ccall (ps_cp P) c ic)).
Proof.
  intros Hm Hic Hb Hs Hp Hne F Hlen Hcl.
  exists items, (snd (ccall (ps_cp P) c ic)). rewrite Hic.
  split; [exact Hm|]. split; [apply surjective_pairing|]. split; [|split; assumption].
  rewrite (chk_c06_geometry P k len x y w h _ bs Hb Hne Hs Hp F Hlen). exact Hcl.
Qed.

(** the same call seen through [Sys.sys_op]: the call returns normally and [chk_c06] reports [cl] *)
Definition sys_c06x (ft : feat) (P : pspec) (k : N) (s : sys) (o : op) (hb : bool) (len x y w h : N)
           (cl : list clause) (s' : sys) : Prop :=
  exists es ic, sys_op ft P k s o = OpOk s' es ic /\ chk_c06 P sym k hb len x y w h es = cl.

Lemma sys_c06x_intro ft P m k hb len x y w h d c bs cl d' c' o :
  d_exec (drv_of ft P) k o = unit_ m ->
  c06x_call P m k hb len x y w h d c bs cl d' c' ->
  sys_c06x ft P k (mkSys d c) o hb len x y w h cl (mkSys d' c').
Proof.
  intros He (t & es & Hm & Hc & Hk & _ & _). exists es, (calls t). split; [|exact Hk].
  unfold sys_op. rewrite He. cbv [unit_ bind ret y_d y_c]. rewrite Hm, app_nil_r, Hc. reflexivity.
Qed.

(** * 1. Type-A SSD panels: epd1in54, epd1in54_v2, epd2in9, epd2in13_v2 *)
(** byte-level window lemma: the register bytes decode (little endian, byte columns) to the origin
    and to the EXCLUSIVE end *)
Lemma ssdA_bytes x y w h :
  x + w < 2048 -> y + h < 65536 ->
  u8 (shr x 3) = x / 8 /\ u8 (shr (x + w) 3) = (x + w) / 8 /\
  le16 (u8 y) (u8 (shr y 8)) = y /\ le16 (u8 (y + h)) (u8 (shr (y + h) 8)) = y + h.
Proof.
  intros Hx Hy. rewrite !shr3, !le16_bytes by lia. rewrite !u8_small by lia. repeat split.
Qed.

Ltac close_cases :=
  match goal with |- context [advance3 ?g ?n] => destruct (advance3 g n) as [[? ?]|] end;
  [| match goal with |- context [match ?a with 0 => true | N.pos _ => false end] => destruct a end ].

(** *** generic facts about [Ctl.crun] / [Ctl.close] / [Ctl.ccall] *)
Lemma crun_app p s l1 l2 :
  crun p s (l1 ++ l2) = let '(s1, e1) := crun p s l1 in let '(s2, e2) := crun p s1 l2 in (s2, e1 ++ e2).
Proof.
  revert s. induction l1 as [|i l1 IH]; intros s.
  - cbn [app crun]. destruct (crun p s l2). reflexivity.
  - cbn [app crun]. destruct (cstep p s i) as [s1 e1]. rewrite IH.
    destruct (crun p s1 l1) as [s2 e2]. destruct (crun p s2 l2) as [s3 e3]. rewrite app_assoc. reflexivity.
Qed.

Lemma latch_cur p s c par : c_cur (latch p s c par) = c_cur s.
Proof.
  unfold latch. destruct (cp_fam p);
    repeat (match goal with |- context [if ?b then _ else _] => destruct b end); reflexivity.
Qed.

Lemma close_cur p s : c_cur (fst (close p s)) = None.
Proof.
  unfold close. destruct (c_cur s) as [c|] eqn:E; [|exact E].
  destruct (plane_of p c).
  - destruct (cp_fam p).
    + cbn [fst]. destruct (advance _ _) as [[? ?]|]; [reflexivity|]. destruct (_ =? 0); reflexivity.
    + destruct ((c =? 20) || (c =? 21)); [destruct (take_lits _ _) as [[? ?]|]|]; reflexivity.
  - destruct (match cp_fam p with Ssd => _ | Uc => false end); [reflexivity|].
    destruct (if cp_deep07 p then c =? 7 else c =? 16); cbn [fst upd_flags c_cur]; rewrite ?latch_cur; reflexivity.
Qed.

Lemma close_closed p s : c_cur s = None -> close p s = (s, []).
Proof. intros E. unfold close. rewrite E. reflexivity. Qed.

(** a command arriving with a frame open = the frame closed, then the command *)
Lemma cstep_cmd_close p s c :
  cstep p s (ICmd c) =
  let '(s1, e1) := close p s in let '(s2, e2) := cstep p s1 (ICmd c) in (s2, e1 ++ e2).
Proof.
  pose proof (close_cur p s) as Hc. cbn [cstep]. destruct (close p s) as [s1 e1]. cbn [fst] in Hc.
  rewrite (close_closed p s1 Hc).
  repeat (match goal with |- context [if ?b then _ else _] => destruct b end);
    cbn [app]; rewrite ?app_nil_r; reflexivity.
Qed.

(** a call sequence cut in front of a command: the command closes the open frame, exactly as the
    end of an API call does *)
Lemma ccall_split p s l1 c l2 :
  ccall p s (l1 ++ ICmd c :: l2) =
  let '(s1, e1) := ccall p s l1 in let '(s2, e2) := ccall p s1 (ICmd c :: l2) in (s2, e1 ++ e2).
Proof.
  unfold ccall. rewrite crun_app. destruct (crun p s l1) as [s1 e1].
  cbn [crun]. rewrite (cstep_cmd_close p s1 c).
  destruct (close p s1) as [s1' e1']. destruct (cstep p s1' (ICmd c)) as [s2 e2].
  destruct (crun p s2 l2) as [s3 e3]. destruct (close p s3) as [s4 e4].
  rewrite <- !app_assoc. reflexivity.
Qed.

Lemma calls_icall l : calls (map ICall l) = l.
Proof. induction l as [|a l IH]; [reflexivity|]. cbn [map calls]. rewrite IH. reflexivity. Qed.

Lemma filter_isb_app a b : filter isb (a ++ b) = filter isb a ++ filter isb b.
Proof. apply filter_app. Qed.
Lemma chk_stray_app a b : chk_stray (a ++ b) = chk_stray a ++ chk_stray b.
Proof. unfold chk_stray. apply flat_map_app. Qed.
Lemma patterns_app a b : patterns (a ++ b) = patterns a ++ patterns b.
Proof. unfold patterns. apply flat_map_app. Qed.

(** *** the controller side of one window / counter / RAM block, for ARBITRARY register bytes and
    from ANY state an earlier call could have left ([ssd_havoc]): one data run, addressed by what
    the bytes decode to; the registers afterwards *)
Definition ssdA_block (a0 a1 b0 b1 b2 b3 c0 e0 e1 cmd k len : N) : list icall :=
  [ICmd 0x44; IData (DLit [a0; a1]); ICmd 0x45; IData (DLit [b0; b1; b2; b3]); IWait false;
   ICmd 0x4E; IData (DLit [c0]); ICmd 0x4F; IData (DLit [e0; e1]); ICmd cmd; IData (DArg k 0 0 len)].
Definition ssdA_panels : list pspec :=
  [spec_1in54; spec_1in54_v2; spec_2in9; spec_2in13_v2; spec_2in9_v2; spec_2in7_v2; spec_2in66b].
Definition ssdA_pres : list (list icall) := [[]; [IWait false]; [IWait false; IWait false]].
Definition plane_cmd (cmd : N) : plane := if cmd =? 0x24 then P1 else P2.

(** the window and entry-mode registers describe [g]; the counter is where [advance3] puts it; if the
    counter was outside the window ([advance3] undefined) the controller specification gives up on
    where the bytes went: counters unknown (65535), state tainted *)
Definition ssd_after (c : cstate) (g : geom) (n : N) : Prop :=
  c_entry c = g_entry g /\ c_xs c = g_xs g /\ c_xe c = g_xe g /\ c_ys c = g_ys g /\ c_ye c = g_ye g /\
  (forall xc yc, advance3 g n = Some (xc, yc) -> c_xc c = xc /\ c_yc c = yc) /\
  (advance3 g n = None -> n <> 0 -> c_xc c = 65535 /\ c_yc c = 65535 /\ c_tainted c = true).

Lemma ctl_ssdA P pre a0 a1 b0 b1 b2 b3 c0 e0 e1 cmd k len c :
  In P ssdA_panels -> In pre ssdA_pres -> cmd = 0x24 \/ cmd = 0x26 -> ssd_havoc c ->
  let g := mkGeom 3 a0 a1 (le16 b0 b1) (le16 b2 b3) c0 (le16 e0 e1) in
  let r := ccall (ps_cp P) c (pre ++ ssdA_block a0 a1 b0 b1 b2 b3 c0 e0 e1 cmd k len) in
  filter isb (snd r) = [EBurstSsd cmd (plane_cmd cmd) g [SData (DArg k 0 0 len)]]
  /\ chk_stray (snd r) = [] /\ patterns (snd r) = []
  /\ ssd_havoc (fst r) /\ ssd_after (fst r) g len.
Proof.
  intros HP Hpre Hcmd I. havoc_destruct c I.
  cbv [ssdA_panels ssdA_pres In] in HP, Hpre.
  repeat (destruct HP as [<- | HP]; [|]); try contradiction;
    repeat (destruct Hpre as [<- | Hpre]; [|]); try contradiction;
    destruct Hcmd as [-> | ->];
    (split; [reflexivity|]; split; [reflexivity|]; split; [reflexivity|]);
    cbv -[advance3 insert le16]; close_cases;
    (split; [split; [reflexivity | split; reflexivity]|]); do 5 (split; [reflexivity|]);
    (split; [intros xc yc E; first [discriminate E | injection E as <- <-; split; reflexivity]
            |intros E Hn; first [discriminate E | contradiction | repeat split]]).
Qed.

(** *** what [window_geometry] reports on a run whose window END registers hold the exclusive end and
    whose counter is (xc, yc): fields 2 and 4 always; 5 / 6 iff the counter is not the window origin *)
Definition geom_xc (x y w h xc yc : N) : geom := mkGeom 3 (x / 8) ((x + w) / 8) y (y + h) xc yc.
Definition over_clauses (x y xc yc : N) : list clause :=
  [ClWindow 2; ClWindow 4] ++ (if xc =? x / 8 then [] else [ClWindow 5]) ++ (if yc =? y then [] else [ClWindow 6]).

Lemma wg_xc W H P x y w h xc yc c pl segs :
  aligned_in W H x y w h ->
  window_geometry P x y w h (EBurstSsd c pl (geom_xc x y w h xc yc) segs) = over_clauses x y xc yc.
Proof.
  intros (Hx & Hw & Hw0 & Hh0 & Hxw & Hyh).
  cbv [window_geometry geom_xc over_clauses g_entry g_xs g_xe g_ys g_ye g_xc g_yc]. rewrite !N.eqb_refl.
  rewrite (eqb_false ((x + w) / 8) ((x + w) / 8 - 1)) by lia.
  rewrite (eqb_false (y + h) (y + h - 1)) by lia. reflexivity.
Qed.

Lemma rowbytes_ssdA P : In P ssdA_panels -> rowbytes P 0x24 / cp_rowbytes (ps_cp P) = 1 /\ rowbytes P 0x26 / cp_rowbytes (ps_cp P) = 1.
Proof.
  intros HP. cbv [ssdA_panels In] in HP.
  repeat (destruct HP as [<- | HP]; [split; reflexivity|]). contradiction.
Qed.

(** the class lemma: a model whose calls are one window / counter / RAM block with bytes decoding to
    origin, EXCLUSIVE end and counter (xc, y) *)
Lemma ssdA_class P pre (m : M unit) k len x y w h c d a0 a1 b0 b1 b2 b3 c0 e0 e1 xc :
  In P ssdA_panels -> In pre ssdA_pres ->
  aligned_in (cp_W (ps_cp P)) (cp_H (ps_cp P)) x y w h -> len = w / 8 * h -> ssd_havoc c ->
  m d = (Some tt, d, map ICall (pre ++ ssdA_block a0 a1 b0 b1 b2 b3 c0 e0 e1 0x24 k len)) ->
  a0 = x / 8 -> a1 = (x + w) / 8 -> le16 b0 b1 = y -> le16 b2 b3 = y + h -> c0 = xc -> le16 e0 e1 = y ->
  exists c', c06x_call P m k true len x y w h d c
                       [EBurstSsd 0x24 P1 (geom_xc x y w h xc y) [SData (DArg k 0 0 len)]]
                       (over_clauses x y xc y) d c'
             /\ ssd_havoc c' /\ ssd_after c' (geom_xc x y w h xc y) len.
Proof.
  intros HP Hpre A Hlen I Hm E0 E1 E2 E3 E4 E5. subst a0 a1 c0.
  pose proof (ctl_ssdA P pre (x / 8) ((x + w) / 8) b0 b1 b2 b3 xc e0 e1 0x24 k len c HP Hpre (or_introl eq_refl) I) as R.
  cbv zeta in R. rewrite E2, E3, E5 in R. fold (geom_xc x y w h xc y) in R.
  destruct R as (Rb & Rs & Rp & Rh & Ra).
  eexists. split; [|split; [exact Rh | exact Ra]].
  eapply c06x_call_intro; [exact Hm | apply calls_icall | | | | discriminate | | exact Hlen | ].
  - exact Rb.
  - exact Rs.
  - exact Rp.
  - constructor; [|constructor]. exists 0x24. split; [reflexivity|]. split; [apply (rowbytes_ssdA P HP) | reflexivity].
  - cbn [flat_map]. rewrite app_nil_r. apply (wg_xc _ _ P x y w h xc y 0x24 (plane_cmd 0x24) _ A).
Qed.

(** the registers after the call, in closed form, when the counter was programmed to the window origin *)
Lemma ssd_after_over W H x y w h c :
  aligned_in W H x y w h -> ssd_havoc c -> ssd_after c (geom_over x y w h) (w / 8 * h) ->
  geom_of c = mkGeom 3 (x / 8) ((x + w) / 8) y (y + h)
                     (x / 8 + (w / 8 * h) mod (w / 8 + 1)) (y + (w / 8 * h) / (w / 8 + 1)).
Proof.
  intros A _ (E0 & E1 & E2 & E3 & E4 & E5 & _).
  destruct (E5 _ _ (over_cell W H x y w h (w / 8 * h) A (N.le_refl _))) as [E6 E7].
  unfold geom_of. rewrite E0, E1, E2, E3, E4, E6, E7. reflexivity.
Qed.

Ltac arith_ssdA x y w h :=
  assert (H1 : (x + w <? u32max) = true) by (apply N.ltb_lt; unfold u32max; lia);
  assert (H2 : (y + h <? u32max) = true) by (apply N.ltb_lt; unfold u32max; lia);
  assert (H3 : (x <? x + w) = true) by (apply N.ltb_lt; lia);
  assert (H4 : (y <? y + h) = true) by (apply N.ltb_lt; lia).

(** the conclusion shared by the four type-A panels *)
Definition typeA_class (P : pspec) (m : M unit) (k len x y w h : N) (d : dstate) (c : cstate) : Prop :=
  exists c', c06x_call P m k true len x y w h d c
                       [EBurstSsd 0x24 P1 (geom_over x y w h) [SData (DArg k 0 0 len)]]
                       [ClWindow 2; ClWindow 4] d c'
             /\ ssd_havoc c'
             /\ geom_of c' = mkGeom 3 (x / 8) ((x + w) / 8) y (y + h)
                                    (x / 8 + len mod (w / 8 + 1)) (y + len / (w / 8 + 1)).

Lemma typeA_class_intro P pre (m : M unit) k len x y w h c d :
  In P ssdA_panels -> In pre ssdA_pres -> cp_W (ps_cp P) < 2048 -> cp_H (ps_cp P) < 65536 ->
  aligned_in (cp_W (ps_cp P)) (cp_H (ps_cp P)) x y w h -> len = w / 8 * h -> ssd_havoc c ->
  m d = (Some tt, d, map ICall (pre ++ ssdA_block (u8 (shr x 3)) (u8 (shr (x + w) 3)) (u8 y) (u8 (shr y 8))
                                   (u8 (y + h)) (u8 (shr (y + h) 8)) (u8 (shr x 3)) (u8 y) (u8 (shr y 8)) 0x24 k len)) ->
  typeA_class P m k len x y w h d c.
Proof.
  intros HP Hpre HW HH A Hlen I Hm. pose proof A as (Hx & Hw & Hw0 & Hh0 & Hxw & Hyh).
  destruct (ssdA_bytes x y w h ltac:(lia) ltac:(lia)) as (B0 & B1 & B2 & B3).
  destruct (ssdA_class P pre m k len x y w h c d _ _ _ _ _ _ _ _ _ (x / 8) HP Hpre A Hlen I Hm B0 B1 B2 B3 B0 B2)
    as (c' & Hc & Hh & Ha).
  change (geom_xc x y w h (x / 8) y) with (geom_over x y w h) in *.
  assert (Ecl : over_clauses x y (x / 8) y = [ClWindow 2; ClWindow 4]) by (unfold over_clauses; rewrite !N.eqb_refl; reflexivity).
  rewrite Ecl in Hc.
  exists c'. split; [exact Hc|]. split; [exact Hh|]. subst len. exact (ssd_after_over _ _ x y w h c' A Hh Ha).
Qed.

(** *** epd1in54 (both values of [f_alt]: the entry point does not depend on the feature) *)
Lemma upf_1in54_run k len x y w h d :
  aligned_in 200 200 x y w h ->
  Epd1in54.update_partial_frame k len x y w h d =
    (Some tt, d, map ICall ([IWait false; IWait false] ++
       ssdA_block (u8 (shr x 3)) (u8 (shr (x + w) 3)) (u8 y) (u8 (shr y 8)) (u8 (y + h)) (u8 (shr (y + h) 8))
                  (u8 (shr x 3)) (u8 y) (u8 (shr y 8)) 0x24 k len)).
Proof.
  intros (Hx & Hw & Hw0 & Hh0 & Hxw & Hyh). arith_ssdA x y w h.
  cbv [Epd1in54.update_partial_frame Epd1in54.set_ram_area Epd1in54.set_ram_counter Epd1in54.wait_until_idle
       Epd1in54.IS_BUSY_LOW]. mrun. rewrite H1, H2, H3, H4. reflexivity.
Qed.

Theorem epd1in54_update_partial_frame_class k len x y w h c d :
  aligned_in 200 200 x y w h -> len = w / 8 * h -> ssd_havoc c ->
  typeA_class spec_1in54 (Epd1in54.update_partial_frame k len x y w h) k len x y w h d c.
Proof.
  intros A Hlen I.
  apply (typeA_class_intro spec_1in54 [IWait false; IWait false]); try assumption;
    [cbv [ssdA_panels In]; tauto | cbv [ssdA_pres In]; tauto | reflexivity | reflexivity | exact (upf_1in54_run k len x y w h d A)].
Qed.

(** *** epd1in54_v2 *)
Lemma upf_1in54_v2_run k len x y w h d :
  aligned_in 200 200 x y w h ->
  Epd1in54_v2.update_partial_frame k len x y w h d =
    (Some tt, d, map ICall ([IWait false; IWait false] ++
       ssdA_block (u8 (shr x 3)) (u8 (shr (x + w) 3)) (u8 y) (u8 (shr y 8)) (u8 (y + h)) (u8 (shr (y + h) 8))
                  (u8 (shr x 3)) (u8 y) (u8 (shr y 8)) 0x24 k len)).
Proof.
  intros (Hx & Hw & Hw0 & Hh0 & Hxw & Hyh). arith_ssdA x y w h.
  cbv [Epd1in54_v2.update_partial_frame Epd1in54_v2.set_ram_area Epd1in54_v2.set_ram_counter Epd1in54_v2.wait_until_idle
       Epd1in54_v2.IS_BUSY_LOW]. mrun. rewrite H1, H2, H3, H4. reflexivity.
Qed.

Theorem epd1in54_v2_update_partial_frame_class k len x y w h c d :
  aligned_in 200 200 x y w h -> len = w / 8 * h -> ssd_havoc c ->
  typeA_class spec_1in54_v2 (Epd1in54_v2.update_partial_frame k len x y w h) k len x y w h d c.
Proof.
  intros A Hlen I.
  apply (typeA_class_intro spec_1in54_v2 [IWait false; IWait false]); try assumption;
    [cbv [ssdA_panels In]; tauto | cbv [ssdA_pres In]; tauto | reflexivity | reflexivity | exact (upf_1in54_v2_run k len x y w h d A)].
Qed.

(** *** epd2in9 (both values of [f_alt]) *)
Lemma upf_2in9_run k len x y w h d :
  aligned_in 128 296 x y w h ->
  Epd2in9.update_partial_frame k len x y w h d =
    (Some tt, d, map ICall ([IWait false] ++
       ssdA_block (u8 (shr x 3)) (u8 (shr (x + w) 3)) (u8 y) (u8 (shr y 8)) (u8 (y + h)) (u8 (shr (y + h) 8))
                  (u8 (shr x 3)) (u8 y) (u8 (shr y 8)) 0x24 k len)).
Proof.
  intros (Hx & Hw & Hw0 & Hh0 & Hxw & Hyh). arith_ssdA x y w h.
  cbv [Epd2in9.update_partial_frame Epd2in9.set_ram_area Epd2in9.set_ram_counter Epd2in9.wait_until_idle
       Epd2in9.IS_BUSY_LOW]. mrun. rewrite H1, H2, H3, H4. reflexivity.
Qed.

Theorem epd2in9_update_partial_frame_class k len x y w h c d :
  aligned_in 128 296 x y w h -> len = w / 8 * h -> ssd_havoc c ->
  typeA_class spec_2in9 (Epd2in9.update_partial_frame k len x y w h) k len x y w h d c.
Proof.
  intros A Hlen I.
  apply (typeA_class_intro spec_2in9 [IWait false]); try assumption;
    [cbv [ssdA_panels In]; tauto | cbv [ssdA_pres In]; tauto | reflexivity | reflexivity | exact (upf_2in9_run k len x y w h d A)].
Qed.

(** *** epd2in13_v2 (both values of [f_v2]; Full mode): the window / counter / RAM block twice, the
    second time for the 0x26 plane *)
Lemma ctl_ssdA2 P a0 a1 b0 b1 b2 b3 c0 e0 e1 k len c :
  In P ssdA_panels -> ssd_havoc c ->
  let g := mkGeom 3 a0 a1 (le16 b0 b1) (le16 b2 b3) c0 (le16 e0 e1) in
  let r := ccall (ps_cp P) c (ssdA_block a0 a1 b0 b1 b2 b3 c0 e0 e1 0x24 k len ++
                              ssdA_block a0 a1 b0 b1 b2 b3 c0 e0 e1 0x26 k len) in
  filter isb (snd r) = [EBurstSsd 0x24 P1 g [SData (DArg k 0 0 len)]; EBurstSsd 0x26 P2 g [SData (DArg k 0 0 len)]]
  /\ chk_stray (snd r) = [] /\ patterns (snd r) = []
  /\ ssd_havoc (fst r) /\ ssd_after (fst r) g len.
Proof.
  intros HP I g.
  assert (Hpre : In [] ssdA_pres) by (left; reflexivity).
  pose proof (ctl_ssdA P [] a0 a1 b0 b1 b2 b3 c0 e0 e1 0x24 k len c HP Hpre (or_introl eq_refl) I) as R1.
  cbv zeta in R1. fold g in R1. change ([] ++ ?l) with l in R1.
  match goal with |- context [?l1 ++ ssdA_block ?a ?b ?c ?d ?e ?f ?g ?h ?i 0x26 k len] =>
    match eval cbv [ssdA_block] in (ssdA_block a b c d e f g h i 0x26 k len) with
    | ICmd 0x44 :: ?tl => change (l1 ++ ssdA_block a b c d e f g h i 0x26 k len) with (l1 ++ ICmd 0x44 :: tl)
    end
  end.
  rewrite ccall_split.
  destruct (ccall (ps_cp P) c (ssdA_block a0 a1 b0 b1 b2 b3 c0 e0 e1 36 k len)) as [s1 es1].
  cbn [fst snd] in R1. destruct R1 as (Rb1 & Rs1 & Rp1 & Rh1 & _).
  pose proof (ctl_ssdA P [] a0 a1 b0 b1 b2 b3 c0 e0 e1 0x26 k len s1 HP Hpre (or_intror eq_refl) Rh1) as R2.
  cbv zeta in R2. fold g in R2. change ([] ++ ?l) with l in R2. unfold ssdA_block in R2.
  match type of R2 with context [ccall ?p ?s ?l] => destruct (ccall p s l) as [s2 es2] end.
  cbn [fst snd] in R2 |- *. destruct R2 as (Rb2 & Rs2 & Rp2 & Rh2 & Ra2).
  rewrite filter_isb_app, chk_stray_app, patterns_app, Rb1, Rb2, Rs1, Rs2, Rp1, Rp2.
  do 3 (split; [reflexivity|]). split; [exact Rh2 | exact Ra2].
Qed.

Lemma upf_2in13_v2_run k len x y w h d :
  aligned_in 122 250 x y w h -> len = w / 8 * h -> refresh d = 0 ->
  Epd2in13_v2.update_partial_frame k len x y w h d =
    (Some tt, d, map ICall (
       ssdA_block (u8 (shr x 3)) (u8 (shr (x + w) 3)) (u8 y) (u8 (shr y 8)) (u8 (y + h)) (u8 (shr (y + h) 8))
                  (u8 (shr x 3)) (u8 y) (u8 (shr y 8)) 0x24 k len ++
       ssdA_block (u8 (shr x 3)) (u8 (shr (x + w) 3)) (u8 y) (u8 (shr y 8)) (u8 (y + h)) (u8 (shr (y + h) 8))
                  (u8 (shr x 3)) (u8 y) (u8 (shr y 8)) 0x26 k len)).
Proof.
  intros (Hx & Hw & Hw0 & Hh0 & Hxw & Hyh) Hlen Hr. arith_ssdA x y w h.
  assert (H5 : (w * h <? u32max) = true) by (apply N.ltb_lt; unfold u32max; nia).
  assert (H6 : (w * h / 8 =? len) = true).
  { apply N.eqb_eq. rewrite Hlen. assert (Ew : w = 8 * (w / 8)) by lia. rewrite Ew at 1.
    replace (8 * (w / 8) * h) with (w / 8 * h * 8) by ring. apply N.div_mul. discriminate. }
  assert (H7 : (refresh d =? 0) = true) by (apply N.eqb_eq; exact Hr).
  cbv [Epd2in13_v2.update_partial_frame Epd2in13_v2.set_ram_area Epd2in13_v2.set_ram_address_counters
       Epd2in13_v2.wait_until_idle Epd2in13_v2.IS_BUSY_LOW].
  do 4 (mrun; cbv beta iota; rewrite ?H5, ?H6, ?H7, ?H1, ?H2). reflexivity.
Qed.

Definition typeA2_class (P : pspec) (m : M unit) (k len x y w h : N) (d : dstate) (c : cstate) : Prop :=
  exists c', c06x_call P m k true len x y w h d c
                       [EBurstSsd 0x24 P1 (geom_over x y w h) [SData (DArg k 0 0 len)];
                        EBurstSsd 0x26 P2 (geom_over x y w h) [SData (DArg k 0 0 len)]]
                       [ClWindow 2; ClWindow 4; ClWindow 2; ClWindow 4] d c'
             /\ ssd_havoc c'
             /\ geom_of c' = mkGeom 3 (x / 8) ((x + w) / 8) y (y + h)
                                    (x / 8 + len mod (w / 8 + 1)) (y + len / (w / 8 + 1)).

Theorem epd2in13_v2_update_partial_frame_class k len x y w h c d :
  aligned_in 122 250 x y w h -> len = w / 8 * h -> refresh d = 0 -> ssd_havoc c ->
  typeA2_class spec_2in13_v2 (Epd2in13_v2.update_partial_frame k len x y w h) k len x y w h d c.
Proof.
  intros A Hlen Hr I. pose proof A as (Hx & Hw & Hw0 & Hh0 & Hxw & Hyh).
  destruct (ssdA_bytes x y w h ltac:(lia) ltac:(lia)) as (B0 & B1 & B2 & B3).
  assert (HP : In spec_2in13_v2 ssdA_panels) by (cbv [ssdA_panels In]; tauto).
  pose proof (ctl_ssdA2 spec_2in13_v2 (u8 (shr x 3)) (u8 (shr (x + w) 3)) (u8 y) (u8 (shr y 8)) (u8 (y + h)) (u8 (shr (y + h) 8))
                        (u8 (shr x 3)) (u8 y) (u8 (shr y 8)) k len c HP I) as R.
  cbv zeta in R.
  match type of R with context [ccall _ c ?l] => remember l as ic eqn:Eic end.
  rewrite B0, B1, B2, B3 in R. subst ic.
  fold (geom_over x y w h) in R. destruct R as (Rb & Rs & Rp & Rh & Ra).
  eexists. split; [|split; [exact Rh | subst len; exact (ssd_after_over _ _ x y w h _ A Rh Ra)]].
  eapply c06x_call_intro; [exact (upf_2in13_v2_run k len x y w h d A Hlen Hr) | apply calls_icall | exact Rb | exact Rs | exact Rp
                          | discriminate | | exact Hlen | ].
  - constructor; [|constructor; [|constructor]].
    + exists 0x24. split; [reflexivity|]. split; reflexivity.
    + exists 0x26. split; [reflexivity|]. split; reflexivity.
  - cbn [flat_map]. rewrite !(wg_over _ _ _ x y w h _ _ _ A). reflexivity.
Qed.

(** outside Full mode the entry point refuses (assert on the refresh mode) for every window *)
Lemma epd2in13_v2_update_partial_frame_quick_panics k len x y w h d :
  aligned_in 122 250 x y w h -> len = w / 8 * h -> refresh d <> 0 ->
  Epd2in13_v2.update_partial_frame k len x y w h d = (None, d, [IPanic]).
Proof.
  intros (Hx & Hw & Hw0 & Hh0 & Hxw & Hyh) Hlen Hr.
  assert (H5 : (w * h <? u32max) = true) by (apply N.ltb_lt; unfold u32max; nia).
  assert (H6 : (w * h / 8 =? len) = true).
  { apply N.eqb_eq. rewrite Hlen. assert (Ew : w = 8 * (w / 8)) by lia. rewrite Ew at 1.
    replace (8 * (w / 8) * h) with (w / 8 * h * 8) by ring. apply N.div_mul. discriminate. }
  assert (H7 : (refresh d =? 0) = false) by (apply N.eqb_neq; exact Hr).
  cbv [Epd2in13_v2.update_partial_frame].
  do 3 (mrun; cbv beta iota; rewrite ?H5, ?H6, ?H7). reflexivity.
Qed.

(** *** the four type-A panels as one [Sys.sys_op] step under the oracle's precondition *)
Lemma typeA_sys ft P m k len x y w h s :
  d_exec (drv_of ft P) k (OUpdatePartial len x y w h) = unit_ m ->
  typeA_class P m k len x y w h (y_d s) (y_c s) ->
  exists s', sys_c06x ft P k s (OUpdatePartial len x y w h) true len x y w h [ClWindow 2; ClWindow 4] s' /\ ssd_havoc (y_c s').
Proof.
  intros He (c' & Hc & Hh & _). destruct s as [d c]. cbn [y_d y_c] in *.
  exists (mkSys d c'). split; [|exact Hh]. eapply sys_c06x_intro; [exact He | exact Hc].
Qed.

Theorem epd1in54_sys_update_partial_class ft k len x y w h s :
  aligned_inside spec_1in54 x y w h = true -> len = w / 8 * h -> ssd_havoc (y_c s) ->
  exists s', sys_c06x ft spec_1in54 k s (OUpdatePartial len x y w h) true len x y w h [ClWindow 2; ClWindow 4] s' /\ ssd_havoc (y_c s').
Proof.
  intros A Hl I. apply aligned_inside_in in A.
  eapply typeA_sys; [reflexivity | exact (epd1in54_update_partial_frame_class k len x y w h _ _ A Hl I)].
Qed.
Theorem epd1in54_v2_sys_update_partial_class ft k len x y w h s :
  aligned_inside spec_1in54_v2 x y w h = true -> len = w / 8 * h -> ssd_havoc (y_c s) ->
  exists s', sys_c06x ft spec_1in54_v2 k s (OUpdatePartial len x y w h) true len x y w h [ClWindow 2; ClWindow 4] s' /\ ssd_havoc (y_c s').
Proof.
  intros A Hl I. apply aligned_inside_in in A.
  eapply typeA_sys; [reflexivity | exact (epd1in54_v2_update_partial_frame_class k len x y w h _ _ A Hl I)].
Qed.
Theorem epd2in9_sys_update_partial_class ft k len x y w h s :
  aligned_inside spec_2in9 x y w h = true -> len = w / 8 * h -> ssd_havoc (y_c s) ->
  exists s', sys_c06x ft spec_2in9 k s (OUpdatePartial len x y w h) true len x y w h [ClWindow 2; ClWindow 4] s' /\ ssd_havoc (y_c s').
Proof.
  intros A Hl I. apply aligned_inside_in in A.
  eapply typeA_sys; [reflexivity | exact (epd2in9_update_partial_frame_class k len x y w h _ _ A Hl I)].
Qed.
Theorem epd2in13_v2_sys_update_partial_class ft k len x y w h s :
  aligned_inside spec_2in13_v2 x y w h = true -> len = w / 8 * h -> refresh (y_d s) = 0 -> ssd_havoc (y_c s) ->
  exists s', sys_c06x ft spec_2in13_v2 k s (OUpdatePartial len x y w h) true len x y w h
                      [ClWindow 2; ClWindow 4; ClWindow 2; ClWindow 4] s' /\ ssd_havoc (y_c s').
Proof.
  intros A Hl Hr I. apply aligned_inside_in in A. destruct s as [d c]. cbn [y_d y_c] in *.
  destruct (epd2in13_v2_update_partial_frame_class k len x y w h c d A Hl Hr I) as (c' & Hc & Hh & _).
  exists (mkSys d c'). split; [|exact Hh]. eapply sys_c06x_intro; [reflexivity | exact Hc].
Qed.

(** * 2. epd2in9_v2 / epd2in7_v2: exclusive window end AND the X counter in pixel units *)
(** *** [advance3] when the counter is not the window origin *)
Lemma advance3_none g n :
  g_xc g < g_xs g \/ g_xe g < g_xc g \/ g_yc g < g_ys g \/ g_ye g < g_yc g -> advance3 g n = None.
Proof.
  intros Hc. unfold advance3.
  destruct Hc as [Hc | [Hc | [Hc | Hc]]]; apply N.leb_gt in Hc; rewrite Hc, ?andb_false_r; reflexivity.
Qed.

Lemma advance3_row0 X XE Y YE XC n :
  X <= XC -> XC <= XE -> Y <= YE ->
  advance3 (mkGeom 3 X XE Y YE XC Y) n =
    Some (X + ((XC - X + n) mod ((XE - X + 1) * (YE - Y + 1))) mod (XE - X + 1),
          Y + ((XC - X + n) mod ((XE - X + 1) * (YE - Y + 1))) / (XE - X + 1)).
Proof.
  intros H1 H2 H3. cbv [advance3 g_entry g_xs g_xe g_ys g_ye g_xc g_yc].
  replace (3 =? 3) with true by reflexivity.
  rewrite (proj2 (N.leb_le X XC)) by lia. rewrite (proj2 (N.leb_le XC XE)) by lia.
  rewrite (proj2 (N.leb_le Y Y)) by lia. rewrite (proj2 (N.leb_le Y YE)) by lia.
  cbv [andb]. replace ((Y - Y) * (XE - X + 1) + (XC - X) + n) with (XC - X + n) by lia. reflexivity.
Qed.

(** the geometry these two panels program: window as the type-A panels, X counter = x (pixels) *)
Definition geom_px (x y w h : N) : geom := geom_xc x y w h x y.
Definition px_clauses (x : N) : list clause := [ClWindow 2; ClWindow 4] ++ (if x =? 0 then [] else [ClWindow 5]).

Lemma over_clauses_px W H x y w h : aligned_in W H x y w h -> over_clauses x y x y = px_clauses x.
Proof.
  intros (Hx & Hw & Hw0 & Hh0 & Hxw & Hyh). unfold over_clauses, px_clauses. rewrite N.eqb_refl, app_nil_r.
  destruct (N.eqb_spec x 0) as [E|E].
  - rewrite (proj2 (N.eqb_eq x (x / 8))) by lia. reflexivity.
  - rewrite (eqb_false x (x / 8)) by lia. reflexivity.
Qed.

(** the pixel-unit counter x lies inside the programmed byte-column window x/8 .. (x+w)/8 iff 7x <= w *)
Lemma px_counter_outside W H x y w h n :
  aligned_in W H x y w h -> w < 7 * x -> advance3 (geom_px x y w h) n = None.
Proof.
  intros (Hx & Hw & Hw0 & Hh0 & Hxw & Hyh) Hc. apply advance3_none.
  cbv [geom_px geom_xc g_xc g_xs g_xe g_yc g_ys g_ye]. right. left. lia.
Qed.
Lemma px_counter_inside W H x y w h n :
  aligned_in W H x y w h -> 7 * x <= w ->
  advance3 (geom_px x y w h) n =
    Some (x / 8 + ((x - x / 8 + n) mod ((w / 8 + 1) * (h + 1))) mod (w / 8 + 1),
          y + ((x - x / 8 + n) mod ((w / 8 + 1) * (h + 1))) / (w / 8 + 1)).
Proof.
  intros (Hx & Hw & Hw0 & Hh0 & Hxw & Hyh) Hc. unfold geom_px, geom_xc.
  rewrite advance3_row0 by lia.
  replace ((x + w) / 8 - x / 8 + 1) with (w / 8 + 1) by lia. replace (y + h - y + 1) with (h + 1) by lia. reflexivity.
Qed.
(** ... and it is the right counter iff x = 0 *)
Lemma px_counter_right W H x y w h :
  aligned_in W H x y w h -> (geom_px x y w h = geom_over x y w h <-> x = 0).
Proof.
  intros (Hx & Hw & Hw0 & Hh0 & Hxw & Hyh). unfold geom_px, geom_xc, geom_over. split.
  - intros E. injection E as E. lia.
  - intros ->. reflexivity.
Qed.

Definition px_class (P : pspec) (m : M unit) (k len x y w h : N) (d : dstate) (c : cstate) : Prop :=
  exists c', c06x_call P m k true len x y w h d c
                       [EBurstSsd 0x24 P1 (geom_px x y w h) [SData (DArg k 0 0 len)]] (px_clauses x) d c'
             /\ ssd_havoc c'
             /\ c_xs c' = x / 8 /\ c_xe c' = (x + w) / 8 /\ c_ys c' = y /\ c_ye c' = y + h
             /\ (7 * x <= w ->
                 c_xc c' = x / 8 + ((x - x / 8 + len) mod ((w / 8 + 1) * (h + 1))) mod (w / 8 + 1) /\
                 c_yc c' = y + ((x - x / 8 + len) mod ((w / 8 + 1) * (h + 1))) / (w / 8 + 1))
             /\ (w < 7 * x -> c_xc c' = 65535 /\ c_yc c' = 65535 /\ c_tainted c' = true).

Lemma px_class_intro P pre (m : M unit) k len x y w h c d b0 b1 b2 b3 e0 e1 :
  In P ssdA_panels -> In pre ssdA_pres -> cp_W (ps_cp P) < 256 ->
  aligned_in (cp_W (ps_cp P)) (cp_H (ps_cp P)) x y w h -> len = w / 8 * h -> ssd_havoc c ->
  le16 b0 b1 = y -> le16 b2 b3 = y + h -> le16 e0 e1 = y ->
  m d = (Some tt, d, map ICall (pre ++ ssdA_block (u8 (shr x 3)) (u8 (shr (x + w) 3)) b0 b1 b2 b3 x e0 e1 0x24 k len)) ->
  px_class P m k len x y w h d c.
Proof.
  intros HP Hpre HW A Hlen I B2 B3 B4 Hm. pose proof A as (Hx & Hw & Hw0 & Hh0 & Hxw & Hyh).
  assert (B0 : u8 (shr x 3) = x / 8) by (rewrite shr3; apply u8_small; lia).
  assert (B1 : u8 (shr (x + w) 3) = (x + w) / 8) by (rewrite shr3; apply u8_small; lia).
  destruct (ssdA_class P pre m k len x y w h c d _ _ _ _ _ _ _ _ _ x HP Hpre A Hlen I Hm B0 B1 B2 B3 eq_refl B4)
    as (c' & Hc & Hh & Ha).
  rewrite (over_clauses_px _ _ x y w h A) in Hc. fold (geom_px x y w h) in Hc, Ha.
  destruct Ha as (_ & E1 & E2 & E3 & E4 & E5 & E6).
  exists c'. split; [exact Hc|]. split; [exact Hh|]. do 4 (split; [assumption|]). split.
  - intros Hin. apply E5. apply (px_counter_inside _ _ x y w h len A Hin).
  - intros Hout. apply E6; [apply (px_counter_outside _ _ x y w h len A Hout) | subst len; nia].
Qed.

(** *** epd2in9_v2 *)
Lemma upf_2in9_v2_run k len x y w h d :
  aligned_in 128 296 x y w h ->
  Epd2in9_v2.update_partial_frame k len x y w h d =
    (Some tt, d, map ICall ([IWait false] ++
       ssdA_block (u8 (shr x 3)) (u8 (shr (x + w) 3)) (u8 y) (u8 (shr y 8)) (u8 (y + h)) (u8 (shr (y + h) 8))
                  (u8 x) (u8 y) (u8 (shr y 8)) 0x24 k len)).
Proof.
  intros (Hx & Hw & Hw0 & Hh0 & Hxw & Hyh). arith_ssdA x y w h.
  cbv [Epd2in9_v2.update_partial_frame Epd2in9_v2.set_ram_area Epd2in9_v2.set_ram_counter Epd2in9_v2.wait_until_idle
       Epd2in9_v2.IS_BUSY_LOW]. mrun. rewrite H1, H2, H3, H4. reflexivity.
Qed.

Theorem epd2in9_v2_update_partial_frame_class k len x y w h c d :
  aligned_in 128 296 x y w h -> len = w / 8 * h -> ssd_havoc c ->
  px_class spec_2in9_v2 (Epd2in9_v2.update_partial_frame k len x y w h) k len x y w h d c.
Proof.
  intros A Hlen I. pose proof A as (Hx & Hw & Hw0 & Hh0 & Hxw & Hyh).
  destruct (ssdA_bytes x y w h ltac:(lia) ltac:(lia)) as (_ & _ & B2 & B3).
  pose proof (upf_2in9_v2_run k len x y w h d A) as Hm. rewrite (u8_small x) in Hm by lia.
  eapply (px_class_intro spec_2in9_v2 [IWait false]); try eassumption;
    [cbv [ssdA_panels In]; tauto | cbv [ssdA_pres In]; tauto | reflexivity].
Qed.

(** *** epd2in7_v2 *)
Lemma band_1 a : band a 1 = a mod 2.
Proof. unfold band. change 1 with (N.ones 1) at 1. rewrite N.land_ones. reflexivity. Qed.

Lemma le16_9bit a : a < 512 -> le16 (u8 (band a 0xFF)) (u8 (band (shr a 8) 0x01)) = a.
Proof. intros. rewrite band_ff, band_1, shr8. unfold le16, u8. lia. Qed.

Lemma upf_2in7_v2_run k len x y w h d :
  aligned_in 176 264 x y w h ->
  Epd2in7_v2.update_partial_frame k len x y w h d =
    (Some tt, d, map ICall ([IWait false] ++
       ssdA_block (u8 (shr x 3)) (u8 (shr (x + w) 3))
                  (u8 (band y 0xFF)) (u8 (band (shr y 8) 0x01)) (u8 (band (y + h) 0xFF)) (u8 (band (shr (y + h) 8) 0x01))
                  (u8 (band x 0xFF)) (u8 (band y 0xFF)) (u8 (band (shr y 8) 0x01)) 0x24 k len)).
Proof.
  intros (Hx & Hw & Hw0 & Hh0 & Hxw & Hyh). arith_ssdA x y w h.
  cbv [Epd2in7_v2.update_partial_frame Epd2in7_v2.set_ram_area Epd2in7_v2.set_ram_counter Epd2in7_v2.wait_until_idle
       Epd2in7_v2.IS_BUSY_LOW]. mrun. rewrite H1, H2, H3, H4. reflexivity.
Qed.

Theorem epd2in7_v2_update_partial_frame_class k len x y w h c d :
  aligned_in 176 264 x y w h -> len = w / 8 * h -> ssd_havoc c ->
  px_class spec_2in7_v2 (Epd2in7_v2.update_partial_frame k len x y w h) k len x y w h d c.
Proof.
  intros A Hlen I. pose proof A as (Hx & Hw & Hw0 & Hh0 & Hxw & Hyh).
  pose proof (upf_2in7_v2_run k len x y w h d A) as Hm.
  assert (Ex : u8 (band x 0xFF) = x) by (rewrite band_ff; unfold u8; lia). rewrite Ex in Hm.
  eapply (px_class_intro spec_2in7_v2 [IWait false]); try exact Hm; try assumption;
    [cbv [ssdA_panels In]; tauto | cbv [ssdA_pres In]; tauto | reflexivity | apply le16_9bit; lia | apply le16_9bit; lia | apply le16_9bit; lia].
Qed.

Lemma px_sys ft P m k len x y w h s :
  d_exec (drv_of ft P) k (OUpdatePartial len x y w h) = unit_ m ->
  px_class P m k len x y w h (y_d s) (y_c s) ->
  exists s', sys_c06x ft P k s (OUpdatePartial len x y w h) true len x y w h (px_clauses x) s' /\ ssd_havoc (y_c s') /\
             (w < 7 * x -> c_tainted (y_c s') = true).
Proof.
  intros He (c' & Hc & Hh & _ & _ & _ & _ & _ & Ht). destruct s as [d c]. cbn [y_d y_c] in *.
  exists (mkSys d c'). split; [|split; [exact Hh | intros Ho; apply (Ht Ho)]]. eapply sys_c06x_intro; [exact He | exact Hc].
Qed.

Theorem epd2in9_v2_sys_update_partial_class ft k len x y w h s :
  aligned_inside spec_2in9_v2 x y w h = true -> len = w / 8 * h -> ssd_havoc (y_c s) ->
  exists s', sys_c06x ft spec_2in9_v2 k s (OUpdatePartial len x y w h) true len x y w h (px_clauses x) s' /\ ssd_havoc (y_c s') /\
             (w < 7 * x -> c_tainted (y_c s') = true).
Proof.
  intros A Hl I. apply aligned_inside_in in A.
  eapply px_sys; [reflexivity | exact (epd2in9_v2_update_partial_frame_class k len x y w h _ _ A Hl I)].
Qed.
Theorem epd2in7_v2_sys_update_partial_class ft k len x y w h s :
  aligned_inside spec_2in7_v2 x y w h = true -> len = w / 8 * h -> ssd_havoc (y_c s) ->
  exists s', sys_c06x ft spec_2in7_v2 k s (OUpdatePartial len x y w h) true len x y w h (px_clauses x) s' /\ ssd_havoc (y_c s') /\
             (w < 7 * x -> c_tainted (y_c s') = true).
Proof.
  intros A Hl I. apply aligned_inside_in in A.
  eapply px_sys; [reflexivity | exact (epd2in7_v2_update_partial_frame_class k len x y w h _ _ A Hl I)].
Qed.

(** * 3. epd2in66b: exclusive window end AND the cursor moved back to (0, 0) before the data *)
Definition c66_head (a0 a1 b0 b1 b2 b3 c0 e0 e1 z0 z1 z2 k len : N) : list icall :=
  [ICmd 0x44; IData (DLit [a0; a1]); ICmd 0x45; IData (DLit [b0; b1; b2; b3]);
   ICmd 0x4e; IData (DLit [c0]); ICmd 0x4f; IData (DLit [e0; e1]);
   ICmd 0x4e; IData (DLit [z0]); ICmd 0x4f; IData (DLit [z1; z2]);
   ICmd 0x24; IData (DArg k 0 0 len)].
Definition c66_tail (f0 f1 g0 g1 g2 g3 : N) : list icall :=
  [ICmd 0x44; IData (DLit [f0; f1]); ICmd 0x45; IData (DLit [g0; g1; g2; g3])].

Lemma ctl_2in66b_head a0 a1 b0 b1 b2 b3 c0 e0 e1 z0 z1 z2 k len c :
  ssd_havoc c ->
  let g := mkGeom 3 a0 a1 (le16 b0 b1) (le16 b2 b3) z0 (le16 z1 z2) in
  let r := ccall (ps_cp spec_2in66b) c (c66_head a0 a1 b0 b1 b2 b3 c0 e0 e1 z0 z1 z2 k len) in
  filter isb (snd r) = [EBurstSsd 0x24 P1 g [SData (DArg k 0 0 len)]]
  /\ chk_stray (snd r) = [] /\ patterns (snd r) = []
  /\ ssd_havoc (fst r) /\ ssd_after (fst r) g len.
Proof.
  intros I. havoc_destruct c I.
  destruct pending0; [destruct len|];
    (split; [reflexivity|]; split; [reflexivity|]; split; [reflexivity|]);
    cbv -[advance3 insert le16];
    (match goal with |- context [advance3 ?g ?n] => destruct (advance3 g n) as [[? ?]|] end;
     [| try match goal with |- context [match ?a with 0 => true | N.pos _ => false end] => destruct a end ]);
    (split; [split; [reflexivity | split; reflexivity]|]); do 5 (split; [reflexivity|]);
    (split; [intros xc yc E; first [discriminate E | injection E as <- <-; split; reflexivity]
            |intros E Hn; first [discriminate E | contradiction | repeat split]]).
Qed.

(** re-programming the window afterwards moves neither the counter nor the taint *)
Lemma ctl_2in66b_tail f0 f1 g0 g1 g2 g3 c :
  ssd_havoc c ->
  let r := ccall (ps_cp spec_2in66b) c (c66_tail f0 f1 g0 g1 g2 g3) in
  filter isb (snd r) = [] /\ chk_stray (snd r) = [] /\ patterns (snd r) = []
  /\ ssd_havoc (fst r)
  /\ c_xs (fst r) = f0 /\ c_xe (fst r) = f1 /\ c_ys (fst r) = le16 g0 g1 /\ c_ye (fst r) = le16 g2 g3
  /\ c_xc (fst r) = c_xc c /\ c_yc (fst r) = c_yc c /\ c_tainted (fst r) = c_tainted c.
Proof. intros I. havoc_destruct c I. repeat split. Qed.

Definition geom_00 (x y w h : N) : geom := geom_xc x y w h 0 0.
Definition zz_clauses (x y : N) : list clause :=
  [ClWindow 2; ClWindow 4] ++ (if x =? 0 then [] else [ClWindow 5]) ++ (if y =? 0 then [] else [ClWindow 6]).

Lemma over_clauses_00 W H x y w h : aligned_in W H x y w h -> over_clauses x y 0 0 = zz_clauses x y.
Proof.
  intros (Hx & Hw & Hw0 & Hh0 & Hxw & Hyh). unfold over_clauses, zz_clauses. rewrite (N.eqb_sym 0 y).
  destruct (N.eqb_spec x 0) as [E|E].
  - rewrite (proj2 (N.eqb_eq 0 (x / 8))) by lia. reflexivity.
  - rewrite (eqb_false 0 (x / 8)) by lia. reflexivity.
Qed.

(** the counter (0, 0) is outside the programmed window unless x = 0 and y = 0 *)
Lemma zz_counter_outside W H x y w h n :
  aligned_in W H x y w h -> x <> 0 \/ y <> 0 -> advance3 (geom_00 x y w h) n = None.
Proof.
  intros (Hx & Hw & Hw0 & Hh0 & Hxw & Hyh) Hc. apply advance3_none.
  cbv [geom_00 geom_xc g_xc g_xs g_xe g_yc g_ys g_ye]. destruct Hc as [Hc | Hc]; [left; lia | right; right; left; lia].
Qed.
Lemma zz_counter_right x y w h : x = 0 -> y = 0 -> geom_00 x y w h = geom_over x y w h.
Proof. intros -> ->. reflexivity. Qed.

Lemma band_1f a : band a 0x1f = a mod 32.
Proof. unfold band. change 31 with (N.ones 5). rewrite N.land_ones. reflexivity. Qed.

Lemma upf_2in66b_run k len x y w h d :
  aligned_in 152 296 x y w h ->
  Epd2in66b.update_partial_frame k len x y w h d =
    (Some tt, d, map ICall (
       c66_head (u8 (band (shr x 3) 0x1f)) (u8 (band (shr (x + w) 3) 0x1f))
                (u8 (band y 0xff)) (u8 (band (shr y 8) 0x01)) (u8 (band (y + h) 0xff)) (u8 (band (shr (y + h) 8) 0x01))
                (u8 (band (shr x 3) 0x1f)) (u8 (band y 0xff)) (u8 (band (shr y 8) 0x01))
                (u8 (band (shr 0 3) 0x1f)) (u8 (band 0 0xff)) (u8 (band (shr 0 8) 0x01)) k len ++
       c66_tail (u8 (band (shr 0 3) 0x1f)) (u8 (band (shr 152 3) 0x1f))
                (u8 (band 0 0xff)) (u8 (band (shr 0 8) 0x01)) (u8 (band 296 0xff)) (u8 (band (shr 296 8) 0x01)))).
Proof.
  intros (Hx & Hw & Hw0 & Hh0 & Hxw & Hyh).
  assert (H1 : (x + w <? u32max) = true) by (apply N.ltb_lt; unfold u32max; lia).
  assert (H2 : (y + h <? u32max) = true) by (apply N.ltb_lt; unfold u32max; lia).
  cbv [Epd2in66b.update_partial_frame Epd2in66b.set_display_window Epd2in66b.set_cursor Epd2in66b.update_achromatic_frame
       Epd2in66b.WIDTH Epd2in66b.HEIGHT]. mrun. rewrite H1, H2. reflexivity.
Qed.

Definition zz_class (P : pspec) (m : M unit) (k len x y w h : N) (d : dstate) (c : cstate) : Prop :=
  exists c', c06x_call P m k true len x y w h d c
                       [EBurstSsd 0x24 P1 (geom_00 x y w h) [SData (DArg k 0 0 len)]] (zz_clauses x y) d c'
             /\ ssd_havoc c'
             /\ (x <> 0 \/ y <> 0 -> c_xc c' = 65535 /\ c_yc c' = 65535 /\ c_tainted c' = true)
             /\ (x = 0 -> y = 0 -> c_xc c' = len mod (w / 8 + 1) /\ c_yc c' = len / (w / 8 + 1))
             (* the window the entry point leaves behind: "full panel", again with exclusive ends *)
             /\ c_xs c' = 0 /\ c_xe c' = 19 /\ c_ys c' = 0 /\ c_ye c' = 296.

Theorem epd2in66b_update_partial_frame_class k len x y w h c d :
  aligned_in 152 296 x y w h -> len = w / 8 * h -> ssd_havoc c ->
  zz_class spec_2in66b (Epd2in66b.update_partial_frame k len x y w h) k len x y w h d c.
Proof.
  intros A Hlen I. pose proof A as (Hx & Hw & Hw0 & Hh0 & Hxw & Hyh).
  assert (B0 : u8 (band (shr x 3) 0x1f) = x / 8) by (rewrite band_1f, shr3; unfold u8; lia).
  assert (B1 : u8 (band (shr (x + w) 3) 0x1f) = (x + w) / 8) by (rewrite band_1f, shr3; unfold u8; lia).
  pose proof (le16_9bit y ltac:(lia)) as B2. pose proof (le16_9bit (y + h) ltac:(lia)) as B3.
  pose proof (upf_2in66b_run k len x y w h d A) as Hm.
  match type of Hm with _ = (_, _, map ICall (c66_head ?a0 ?a1 ?b0 ?b1 ?b2 ?b3 ?c0 ?e0 ?e1 ?z0 ?z1 ?z2 _ _ ++ c66_tail ?f0 ?f1 ?g0 ?g1 ?g2 ?g3)) =>
    pose proof (ctl_2in66b_head a0 a1 b0 b1 b2 b3 c0 e0 e1 z0 z1 z2 k len c I) as R1;
    set (hd := c66_head a0 a1 b0 b1 b2 b3 c0 e0 e1 z0 z1 z2 k len) in *;
    set (tl := c66_tail f0 f1 g0 g1 g2 g3) in *
  end.
  cbv zeta in R1. rewrite B0, B1, B2, B3 in R1.
  change (u8 (band (shr 0 3) 31)) with 0 in R1. change (le16 (u8 (band 0 255)) (u8 (band (shr 0 8) 1))) with 0 in R1.
  fold (geom_xc x y w h 0 0) in R1. fold (geom_00 x y w h) in R1.
  assert (Etl : tl = ICmd 0x44 :: List.tl tl) by reflexivity.
  assert (Ecall : ccall (ps_cp spec_2in66b) c (hd ++ tl) =
                  let '(s1, e1) := ccall (ps_cp spec_2in66b) c hd in
                  let '(s2, e2) := ccall (ps_cp spec_2in66b) s1 tl in (s2, e1 ++ e2)).
  { rewrite Etl at 1. rewrite ccall_split. rewrite <- Etl. reflexivity. }
  destruct (ccall (ps_cp spec_2in66b) c hd) as [s1 es1] eqn:E1. cbn [fst snd] in R1.
  destruct R1 as (Rb1 & Rs1 & Rp1 & Rh1 & Ra1).
  pose proof (ctl_2in66b_tail _ _ _ _ _ _ s1 Rh1 : let r := ccall (ps_cp spec_2in66b) s1 tl in _) as R2. cbv zeta in R2.
  destruct (ccall (ps_cp spec_2in66b) s1 tl) as [s2 es2] eqn:E2. cbn [fst snd] in R2.
  destruct R2 as (Rb2 & Rs2 & Rp2 & Rh2 & F0 & F1 & F2 & F3 & F4 & F5 & F6).
  assert (Eic : calls (map ICall (hd ++ tl)) = hd ++ tl) by apply calls_icall.
  exists s2. split; [|split; [exact Rh2|split; [|split]]].
    + exists (map ICall (hd ++ tl)), (es1 ++ es2). split; [exact Hm|]. rewrite Eic. split; [exact Ecall|].
      assert (Fb : filter isb (es1 ++ es2) = [EBurstSsd 0x24 P1 (geom_00 x y w h) [SData (DArg k 0 0 len)]])
        by (rewrite filter_isb_app, Rb1, Rb2; reflexivity).
      assert (Fs : chk_stray (es1 ++ es2) = []) by (rewrite chk_stray_app, Rs1, Rs2; reflexivity).
      assert (Fp : patterns (es1 ++ es2) = []) by (rewrite patterns_app, Rp1, Rp2; reflexivity).
      split; [|split; assumption].
      rewrite (chk_c06_geometry spec_2in66b k len x y w h _ _ Fb ltac:(discriminate) Fs Fp); [| |exact Hlen].
      * cbn [flat_map]. rewrite app_nil_r. unfold geom_00. rewrite (wg_xc _ _ _ x y w h 0 0 _ _ _ A).
        apply (over_clauses_00 _ _ x y w h A).
      * constructor; [|constructor]. exists 0x24. split; [reflexivity|]. split; reflexivity.
    + intros Ho. rewrite F4, F5, F6. destruct Ra1 as (_ & _ & _ & _ & _ & _ & T).
      apply T; [apply (zz_counter_outside _ _ x y w h len A Ho) | subst len; nia].
    + intros Zx Zy. rewrite F4, F5. destruct Ra1 as (_ & _ & _ & _ & _ & T & _).
      rewrite (zz_counter_right x y w h Zx Zy) in T.
      pose proof (over_cell _ _ x y w h len A ltac:(subst len; apply N.le_refl)) as Ec. rewrite Zx, Zy in Ec.
      rewrite Zx, Zy in T. destruct (T _ _ Ec) as [T1 T2]. rewrite T1, T2. split; reflexivity.
    + rewrite F0, F1, F2, F3. repeat split.
Qed.

Theorem epd2in66b_sys_update_partial_class ft k len x y w h s :
  aligned_inside spec_2in66b x y w h = true -> len = w / 8 * h -> ssd_havoc (y_c s) ->
  exists s', sys_c06x ft spec_2in66b k s (OUpdatePartial len x y w h) true len x y w h (zz_clauses x y) s' /\ ssd_havoc (y_c s') /\
             (x <> 0 \/ y <> 0 -> c_tainted (y_c s') = true).
Proof.
  intros A Hl I. apply aligned_inside_in in A. destruct s as [d c]. cbn [y_d y_c] in *.
  destruct (epd2in66b_update_partial_frame_class k len x y w h c d A Hl I) as (c' & Hc & Hh & Ht & _).
  exists (mkSys d c'). split; [|split; [exact Hh | intros Ho; apply (Ht Ho)]]. eapply sys_c06x_intro; [reflexivity | exact Hc].
Qed.

(** * 4. UC-type panels with encoding defects *)
(** [chk_c06] looks at the data runs only, once nothing is stray and no pattern fill was issued *)
Lemma filter_isb_idem es : filter isb (filter isb es) = filter isb es.
Proof.
  induction es as [|e es IH]; [reflexivity|]. cbn [filter]. destruct (isb e) eqn:E; [|exact IH].
  cbn [filter]. rewrite E, IH. reflexivity.
Qed.
Lemma chk_stray_bursts es : chk_stray (filter isb es) = [].
Proof.
  induction es as [|e es IH]; [reflexivity|]. destruct e; cbn [filter isb burst_cmd]; try exact IH; exact IH.
Qed.
Lemma patterns_bursts es : patterns (filter isb es) = [].
Proof.
  induction es as [|e es IH]; [reflexivity|]. destruct e; cbn [filter isb burst_cmd]; try exact IH; exact IH.
Qed.
Lemma chk_c06_by_bursts P k hb len x y w h es :
  chk_stray es = [] -> patterns es = [] ->
  chk_c06 P sym k hb len x y w h es = chk_c06 P sym k hb len x y w h (filter isb es).
Proof.
  intros Hs Hp. unfold chk_c06. change (filter (fun e => match burst_cmd e with Some _ => true | None => false end)) with (filter isb).
  fold (patterns es). fold (patterns (filter isb es)).
  rewrite filter_isb_idem, Hs, Hp, chk_stray_bursts, patterns_bursts. reflexivity.
Qed.

(** the general form of [chk_c06_geometry]: every run has the window's size and ONE of them carries the buffer *)
Definition len_run (P : pspec) (w h : N) (b : effect) : Prop :=
  exists c, burst_cmd b = Some c /\ segslen (burst_segs b) = w / 8 * h * (rowbytes P c / cp_rowbytes (ps_cp P)).

Lemma chk_c06_geometry_gen P k len x y w h es bs :
  filter isb es = bs -> chk_stray es = [] -> patterns es = [] ->
  Forall (len_run P w h) bs -> (exists b, In b bs /\ burst_segs b = [SData (DArg k 0 0 len)]) ->
  chk_c06 P sym k true len x y w h es = flat_map (window_geometry P x y w h) bs.
Proof.
  intros Hb Hs Hp F (b0 & Hin & Hseg). unfold chk_c06. change (filter _ es) with (filter isb es).
  fold (patterns es). rewrite Hs, Hp, Hb, !app_nil_r.
  assert (E : existsb (fun b0 => existsb (fun g0 => sm_eq sym (burst_segs b0) (expected_segs k (mkTarget 0 0 g0 0 len)))
                                         [BId; BNot; BExp2; BExp4]) bs = true).
  { apply existsb_exists. exists b0. split; [exact Hin|]. apply existsb_exists. exists BId. split; [left; reflexivity|].
    rewrite Hseg. apply sym_eq_refl. }
  rewrite E, app_nil_r. destruct bs as [|b1 bs']; [contradiction|]. cbn [app].
  clear Hb Hin E. induction F as [|b bs (c & Hc & Hl) _ IH]; [reflexivity|].
  cbn [flat_map]. rewrite IH, Hc, Hl, N.eqb_refl, app_nil_r. reflexivity.
Qed.

(** what [window_geometry] reports on a UC run written under partial-window area (p0, p1, q0, q1) *)
Lemma wg_uc P x y w h c pl p0 p1 q0 q1 segs :
  window_geometry P x y w h (EBurstUc c pl (mkArea true p0 p1 q0 q1) segs) =
  (if p0 =? x / 8 then [] else [ClWindow 1]) ++ (if p1 =? (x + w) / 8 - 1 then [] else [ClWindow 2]) ++
  (if q0 =? y then [] else [ClWindow 3]) ++ (if q1 =? y + h - 1 then [] else [ClWindow 4]).
Proof. reflexivity. Qed.

Lemma shr6 a : shr a 6 = a / 64.
Proof. unfold shr. rewrite N.shiftr_div_pow2. reflexivity. Qed.
Lemma shr5 a : shr a 5 = a / 32.
Proof. unfold shr. rewrite N.shiftr_div_pow2. reflexivity. Qed.
Lemma shl3 a : shl a 3 = a * 8.
Proof. unfold shl. rewrite N.shiftl_mul_pow2. reflexivity. Qed.
Lemma band_7 a : band a 7 = a mod 8.
Proof. unfold band. change 7 with (N.ones 3). rewrite N.land_ones. reflexivity. Qed.

(** ** epd5in83b_v2 update_partial_frame: HRST / HRED bit packing *)
(** closed form of the horizontal bounds the controller ends up with (byte columns) *)
Definition hrst_5in83b (x : N) : N := if x <? 256 then x / 8 else x / 8 - 32.
Definition hred_5in83b (x w : N) : N := if x + w <? 512 then 0 else 32.
Definition area_5in83b (x y w h : N) : area := mkArea true (hrst_5in83b x) (hred_5in83b x w) y (y + h).
Definition clauses_5in83b (x w : N) : list clause :=
  (if x <? 256 then [] else [ClWindow 1]) ++ (if (x =? 0) && (w =? 8) then [] else [ClWindow 2]) ++ [ClWindow 4].

Definition wb_5in83b (x y w h : N) : list N :=
  [shr (u8 (x / 8)) 6; u8 (shl (x / 8) 3); shr (u8 ((x + w) / 8)) 6; band (u8 (shl ((x + w) / 8) 3)) 7;
   u8 (shr y 8); u8 y; u8 (shr (y + h) 8); u8 (y + h); 1].

(** byte-level window lemma *)
Lemma wb_5in83b_decode x y w h :
  aligned_in 648 480 x y w h ->
  match wb_5in83b x y w h with
  | [b0; b1; b2; b3; b4; b5; b6; b7; b8] =>
      be16 b0 b1 / 8 = hrst_5in83b x /\ be16 b2 b3 / 8 = hred_5in83b x w /\ be16 b4 b5 = y /\ be16 b6 b7 = y + h
  | _ => False
  end.
Proof.
  intros (Hx & Hw & Hw0 & Hh0 & Hxw & Hyh). cbv [wb_5in83b hrst_5in83b hred_5in83b].
  rewrite !shr6, !shl3, band_7, !be16_bytes by lia. unfold be16, u8.
  destruct (N.ltb_spec x 256); destruct (N.ltb_spec (x + w) 512); repeat split; lia.
Qed.

Lemma area9_5in83b x y w h :
  aligned_in 648 480 x y w h ->
  match wb_5in83b x y w h with
  | [b0; b1; b2; b3; b4; b5; b6; b7; b8] => area9 b0 b1 b2 b3 b4 b5 b6 b7 = area_5in83b x y w h
  | _ => False
  end.
Proof.
  intros A. pose proof (wb_5in83b_decode x y w h A) as D. cbv [wb_5in83b] in *.
  destruct D as (D1 & D2 & D3 & D4). unfold area9, area_5in83b. rewrite D1, D2, D3, D4. reflexivity.
Qed.

(** the programmed horizontal start is the requested one iff x < 256; the end iff x = 0 and w = 8;
    the vertical end never *)
Lemma wg_5in83b P x y w h c pl segs :
  aligned_in 648 480 x y w h ->
  window_geometry P x y w h (EBurstUc c pl (area_5in83b x y w h) segs) = clauses_5in83b x w.
Proof.
  intros (Hx & Hw & Hw0 & Hh0 & Hxw & Hyh). unfold area_5in83b. rewrite wg_uc. unfold clauses_5in83b, hrst_5in83b, hred_5in83b.
  rewrite N.eqb_refl, (eqb_false (y + h) (y + h - 1)) by lia. cbn [app].
  f_equal.
  - destruct (N.ltb_spec x 256); [rewrite N.eqb_refl; reflexivity | rewrite eqb_false by lia; reflexivity].
  - f_equal. destruct (N.eqb_spec x 0) as [E0|E0]; destruct (N.eqb_spec w 8) as [E8|E8]; cbn [andb];
      destruct (N.ltb_spec (x + w) 512);
      first [ rewrite (proj2 (N.eqb_eq _ _)) by lia; reflexivity | rewrite eqb_false by lia; reflexivity ].
Qed.

Lemma mul_div8 w h : w mod 8 = 0 -> w * h / 8 = w / 8 * h.
Proof.
  intros Hw. assert (Ew : w = 8 * (w / 8)) by lia. rewrite Ew at 1.
  replace (8 * (w / 8) * h) with (w / 8 * h * 8) by ring. apply N.div_mul. discriminate.
Qed.

Lemma upf_5in83b_run k len x y w h d :
  aligned_in 648 480 x y w h ->
  Epd5in83b_v2.update_partial_frame k len x y w h d =
    (Some tt, d, [ICall (IWait true); ICall (ICmd 0x91); ICall (ICmd 0x90); ICall (IData (DLit (wb_5in83b x y w h)));
                  ICall (ICmd 0x10); ICall (IData (DArg k 0 0 len));
                  ICall (ICmd 0x13); ICall (IDataX 0 (w / 8 * h)); ICall (ICmd 0x12); ICall (IWait true); ICall (ICmd 0x92)]).
Proof.
  intros (Hx & Hw & Hw0 & Hh0 & Hxw & Hyh).
  assert (H0 : (w / 8 * h <? u32max) = true) by (apply N.ltb_lt; unfold u32max; nia).
  assert (H1 : (x + w <? u32max) = true) by (apply N.ltb_lt; unfold u32max; lia).
  assert (H2 : (y + h <? u32max) = true) by (apply N.ltb_lt; unfold u32max; lia).
  assert (H3 : (w * h <? u32max) = true) by (apply N.ltb_lt; unfold u32max; nia).
  cbv [Epd5in83b_v2.update_partial_frame Epd5in83b_v2.wait_until_idle Epd5in83b_v2.IS_BUSY_LOW wb_5in83b]. mrun.
  rewrite H0, H1, H2, H3, (mul_div8 w h Hw). reflexivity.
Qed.

Lemma ctl_5in83b_upf k len v n b0 b1 b2 b3 b4 b5 b6 b7 b8 c : idle c ->
  let r := ccall (ps_cp spec_5in83b_v2) c
                 [IWait true; ICmd 0x91; ICmd 0x90; IData (DLit [b0;b1;b2;b3;b4;b5;b6;b7;b8]);
                  ICmd 0x10; IData (DArg k 0 0 len); ICmd 0x13; IDataX v n; ICmd 0x12; IWait true; ICmd 0x92] in
  filter isb (snd r) = [EBurstUc 0x10 P1 (area9 b0 b1 b2 b3 b4 b5 b6 b7) [SData (DArg k 0 0 len)];
                        EBurstUc 0x13 P2 (area9 b0 b1 b2 b3 b4 b5 b6 b7) [SFill v n]]
  /\ chk_stray (snd r) = [] /\ patterns (snd r) = []
  /\ c_partial (fst r) = false /\ idle (fst r).
Proof. intros I. idle_destruct c I. repeat split. Qed.

Theorem epd5in83b_v2_update_partial_frame_class k len x y w h c d :
  aligned_in 648 480 x y w h -> len = w / 8 * h -> idle c ->
  exists c', c06x_call spec_5in83b_v2 (Epd5in83b_v2.update_partial_frame k len x y w h) k true len x y w h d c
                       [EBurstUc 0x10 P1 (area_5in83b x y w h) [SData (DArg k 0 0 len)];
                        EBurstUc 0x13 P2 (area_5in83b x y w h) [SFill 0 (w / 8 * h)]]
                       (clauses_5in83b x w ++ clauses_5in83b x w) d c'
             /\ idle c' /\ c_partial c' = false.
Proof.
  intros A Hlen I. pose proof A as (Hx & Hw & Hw0 & Hh0 & Hxw & Hyh).
  pose proof (area9_5in83b x y w h A) as AR. cbv [wb_5in83b] in AR.
  lazymatch type of AR with area9 ?b0 ?b1 ?b2 ?b3 ?b4 ?b5 ?b6 ?b7 = _ =>
    pose proof (ctl_5in83b_upf k len 0 (w / 8 * h) b0 b1 b2 b3 b4 b5 b6 b7 1 c I) as R end.
  cbv zeta in R. rewrite AR in R. destruct R as (Rb & Rs & Rp & Rpart & Rid).
  eexists. split; [|split; [exact Rid | exact Rpart]].
  eexists. eexists. split; [apply (upf_5in83b_run k len x y w h d A)|]. split; [apply surjective_pairing|].
  split; [|split; [exact Rb | exact Rs]].
  rewrite (chk_c06_geometry_gen spec_5in83b_v2 k len x y w h _ _ Rb Rs Rp).
  - cbn [flat_map]. rewrite !(wg_5in83b _ x y w h _ _ _ A), app_nil_r. reflexivity.
  - constructor; [|constructor; [|constructor]].
    + exists 0x10. split; [reflexivity|]. cbv [burst_segs segslen fold_left seglen dlen]. change (rowbytes _ _ / _) with 1. lia.
    + exists 0x13. split; [reflexivity|]. cbv [burst_segs segslen fold_left seglen dlen]. change (rowbytes _ _ / _) with 1. lia.
  - eexists. split; [left; reflexivity | reflexivity].
Qed.

(** no aligned window is programmed as requested (the vertical end is always one row too far); the
    horizontal bounds alone are right exactly for x = 0, w = 8 *)
Lemma clauses_5in83b_never_empty x w : clauses_5in83b x w <> [].
Proof. unfold clauses_5in83b. destruct (x <? 256); destruct ((x =? 0) && (w =? 8)); discriminate. Qed.
Lemma clauses_5in83b_horizontal_ok x w : clauses_5in83b x w = [ClWindow 4] <-> (x = 0 /\ w = 8).
Proof.
  unfold clauses_5in83b. split.
  - destruct (N.ltb_spec x 256); destruct (N.eqb_spec x 0); destruct (N.eqb_spec w 8); cbn [andb app]; intros E;
      try discriminate E; try lia.
  - intros [-> ->]. reflexivity.
Qed.

Theorem epd5in83b_v2_sys_update_partial_class ft k len x y w h s :
  aligned_inside spec_5in83b_v2 x y w h = true -> len = w / 8 * h -> idle (y_c s) ->
  exists s', sys_c06x ft spec_5in83b_v2 k s (OUpdatePartial len x y w h) true len x y w h
                      (clauses_5in83b x w ++ clauses_5in83b x w) s' /\ idle (y_c s').
Proof.
  intros A Hl I. apply aligned_inside_in in A. destruct s as [d c]. cbn [y_d y_c] in *.
  destruct (epd5in83b_v2_update_partial_frame_class k len x y w h c d A Hl I) as (c' & Hc & Hi & _).
  exists (mkSys d c'). split; [|exact Hi]. eapply sys_c06x_intro; [reflexivity | exact Hc].
Qed.

(** ** epd4in2 for EVERY aligned x (Windows.v: x < 256): HRED is computed from [x land 0xf8] *)
Lemma band_f8_gen a : a mod 8 = 0 -> band a 0xf8 = a mod 256.
Proof.
  intros Hm. unfold band.
  assert (E : N.land a 255 = a mod 256) by (change 255 with (N.ones 8); rewrite N.land_ones; reflexivity).
  assert (Z : N.land a 7 = 0) by (change 7 with (N.ones 3); rewrite N.land_ones; exact Hm).
  rewrite <- E. change 255 with (N.lor 248 7). rewrite N.land_lor_distr_r, Z, N.lor_0_r. reflexivity.
Qed.

(** the area the controller ends up with: HRED = ((x mod 256) + w) / 8 - 1 *)
Definition area_4in2 (x y w h : N) : area := mkArea true (x / 8) ((x mod 256 + w) / 8 - 1) y (y + h - 1).
Definition clauses_4in2 (x : N) : list clause := if x <? 256 then [] else [ClWindow 2].

Lemma area_4in2_lo x y w h : x < 256 -> area_4in2 x y w h = win_area x y w h.
Proof. intros Hx. unfold area_4in2, win_area. rewrite (N.mod_small x 256) by exact Hx. reflexivity. Qed.
(** for x >= 256: HRED = (x + w) / 8 - 33, which is below HRST = x / 8 *)
Lemma area_4in2_hi x y w h :
  aligned_in 400 300 x y w h -> 256 <= x ->
  area_4in2 x y w h = mkArea true (x / 8) ((x + w) / 8 - 33) y (y + h - 1) /\ (x + w) / 8 - 33 < x / 8.
Proof.
  intros (Hx & Hw & Hw0 & Hh0 & Hxw & Hyh) Hhi. unfold area_4in2. split; [f_equal|]; lia.
Qed.

Lemma wb_4in2_decode_gen x y w h :
  aligned_in 400 300 x y w h ->
  match wb_4in2 x y w h with
  | [b0; b1; b2; b3; b4; b5; b6; b7; b8] => area9 b0 b1 b2 b3 b4 b5 b6 b7 = area_4in2 x y w h
  | _ => False
  end.
Proof.
  intros (Hx & Hw & Hw0 & Hh0 & Hxw & Hyh). cbv [wb_4in2]. rewrite (band_f8_gen x Hx).
  rewrite (bor_7 (x mod 256 + w - 1)) by lia.
  unfold area9, area_4in2. rewrite !be16_bytes by lia.
  replace (be16 (u8 (shr x 8)) (u8 (x mod 256))) with x by (rewrite shr8; unfold be16, u8; lia).
  f_equal. lia.
Qed.

Lemma wg_4in2 P x y w h c pl segs :
  aligned_in 400 300 x y w h ->
  window_geometry P x y w h (EBurstUc c pl (area_4in2 x y w h) segs) = clauses_4in2 x.
Proof.
  intros (Hx & Hw & Hw0 & Hh0 & Hxw & Hyh). unfold area_4in2. rewrite wg_uc, !N.eqb_refl. unfold clauses_4in2.
  destruct (N.ltb_spec x 256).
  - rewrite (N.mod_small x 256) by assumption. rewrite N.eqb_refl. reflexivity.
  - rewrite eqb_false by lia. reflexivity.
Qed.

Ltac arith_4in2_gen x y w h Hx :=
  assert (H0 : (w / 8 * h <? u32max) = true) by (apply N.ltb_lt; unfold u32max; nia);
  assert (H1 : (band x 0xf8 + w <? u32max) = true) by (rewrite (band_f8_gen x Hx); apply N.ltb_lt; unfold u32max; lia);
  assert (H2 : (1 <=? band x 0xf8 + w) = true) by (rewrite (band_f8_gen x Hx); apply N.leb_le; lia);
  assert (H3 : (y + h <? u32max) = true) by (apply N.ltb_lt; unfold u32max; lia);
  assert (H4 : (1 <=? y + h) = true) by (apply N.leb_le; lia).

Lemma upf_4in2_run_gen k len x y w h d :
  aligned_in 400 300 x y w h ->
  Epd4in2.update_partial_frame k len x y w h d =
    (Some tt, d, [ICall (IWait true); ICall (ICmd 0x91); ICall (ICmd 0x90)] ++ map lit1 (wb_4in2 x y w h) ++
                 [ICall (ICmd 0x13); ICall (IData (DArg k 0 0 len)); ICall (ICmd 0x92)]).
Proof.
  intros (Hx & Hw & Hw0 & Hh0 & Hxw & Hyh). arith_4in2_gen x y w h Hx.
  cbv [Epd4in2.update_partial_frame Epd4in2.buffer_size_check Epd4in2.send_data Epd4in2.command
       Epd4in2.wait_until_idle Epd4in2.IS_BUSY_LOW]. mrun.
  rewrite H0, H1, H2, H3, H4. reflexivity.
Qed.
Lemma upof_4in2_run_gen k len x y w h d :
  aligned_in 400 300 x y w h ->
  Epd4in2.update_partial_old_frame k len x y w h d =
    (Some tt, d, [ICall (IWait true); ICall (ICmd 0x91); ICall (ICmd 0x90)] ++ map lit1 (wb_4in2 x y w h) ++
                 [ICall (ICmd 0x10); ICall (IData (DArg k 0 0 len))]).
Proof.
  intros (Hx & Hw & Hw0 & Hh0 & Hxw & Hyh). arith_4in2_gen x y w h Hx.
  cbv [Epd4in2.update_partial_old_frame Epd4in2.shift_display Epd4in2.buffer_size_check Epd4in2.send_data
       Epd4in2.command Epd4in2.wait_until_idle Epd4in2.IS_BUSY_LOW]. mrun.
  rewrite H0, H1, H2, H3, H4. reflexivity.
Qed.
Lemma upnf_4in2_run_gen k len x y w h d :
  aligned_in 400 300 x y w h ->
  Epd4in2.update_partial_new_frame k len x y w h d =
    (Some tt, d, [ICall (IWait true); ICall (ICmd 0x90)] ++ map lit1 (wb_4in2 x y w h) ++
                 [ICall (ICmd 0x13); ICall (IData (DArg k 0 0 len)); ICall (ICmd 0x92)]).
Proof.
  intros (Hx & Hw & Hw0 & Hh0 & Hxw & Hyh). arith_4in2_gen x y w h Hx.
  cbv [Epd4in2.update_partial_new_frame Epd4in2.shift_display Epd4in2.buffer_size_check Epd4in2.send_data
       Epd4in2.command Epd4in2.wait_until_idle Epd4in2.IS_BUSY_LOW]. mrun.
  rewrite H0, H1, H2, H3, H4. reflexivity.
Qed.
Lemma cpf_4in2_run_gen x y w h d :
  aligned_in 400 300 x y w h ->
  Epd4in2.clear_partial_frame x y w h d =
    (Some tt, d, [ICall (IWait true); ICall (ICmd 0x61)] ++ map lit1 [1; 144; 1; 44] ++
                 [ICall (ICmd 0x91); ICall (ICmd 0x90)] ++ map lit1 (wb_4in2 x y w h) ++
                 [ICall (ICmd 0x10); ICall (IDataX (fill_4in2 d) (w / 8 * h));
                  ICall (ICmd 0x13); ICall (IDataX (fill_4in2 d) (w / 8 * h)); ICall (ICmd 0x92)]).
Proof.
  intros (Hx & Hw & Hw0 & Hh0 & Hxw & Hyh). arith_4in2_gen x y w h Hx.
  cbv [Epd4in2.clear_partial_frame Epd4in2.shift_display Epd4in2.send_resolution Epd4in2.send_data
       Epd4in2.command Epd4in2.wait_until_idle Epd4in2.IS_BUSY_LOW]. mrun.
  rewrite H0, H1, H2, H3, H4. reflexivity.
Qed.

(** [chk_c06] for a clear entry point (no buffer): every run has the window's size and is a uniform fill *)
Lemma chk_c06_geometry_fill P k x y w h es bs :
  filter isb es = bs -> bs <> [] -> chk_stray es = [] -> patterns es = [] ->
  Forall (len_run P w h) bs -> Forall (fun b => exists v, sm_uniform sym (burst_segs b) = Some v) bs ->
  chk_c06 P sym k false 0 x y w h es = flat_map (window_geometry P x y w h) bs.
Proof.
  intros Hb Hne Hs Hp F U. unfold chk_c06. change (filter _ es) with (filter isb es).
  fold (patterns es). rewrite Hs, Hp, Hb, !app_nil_r.
  rewrite (flat_map_nil (fun b => match sm_uniform sym (burst_segs b) with Some _ => [] | None => _ end)).
  2:{ eapply Forall_impl; [|exact U]. intros b [v Hv]. rewrite Hv. reflexivity. }
  rewrite app_nil_r. destruct bs as [|b1 bs']; [congruence|]. cbn [app].
  clear Hb Hne U. induction F as [|b bs (c & Hc & Hl) _ IH]; [reflexivity|].
  cbn [flat_map]. rewrite IH, Hc, Hl, N.eqb_refl, app_nil_r. reflexivity.
Qed.

Ltac len_run_uc Hlen c :=
  exists c; split; [reflexivity|]; cbv [burst_segs segslen fold_left seglen dlen]; change (rowbytes _ _ / _) with 1; rewrite ?Hlen; lia.

(** the four partial entry points, for EVERY aligned window: the run is written under [area_4in2] and
    [chk_c06] reports [ClWindow 2] exactly when x >= 256 *)
Theorem epd4in2_update_partial_frame_class k len x y w h c d :
  aligned_in 400 300 x y w h -> len = w / 8 * h -> idle c ->
  exists c', c06x_call spec_4in2 (Epd4in2.update_partial_frame k len x y w h) k true len x y w h d c
                       [EBurstUc 0x13 P2 (area_4in2 x y w h) [SData (DArg k 0 0 len)]] (clauses_4in2 x) d c'
             /\ idle c' /\ c_partial c' = false.
Proof.
  intros A Hlen I.
  pose proof (wb_4in2_decode_gen x y w h A) as AR. cbv [wb_4in2] in AR.
  lazymatch type of AR with area9 ?b0 ?b1 ?b2 ?b3 ?b4 ?b5 ?b6 ?b7 = _ =>
    pose proof (ctl_4in2_upf k len b0 b1 b2 b3 b4 b5 b6 b7 1 c I) as R end.
  cbv zeta in R. rewrite AR in R. destruct R as (Rb & Rs & Rp & Rpart & Rid).
  eexists. split; [|split; [exact Rid | exact Rpart]].
  eexists. eexists. split; [apply (upf_4in2_run_gen k len x y w h d A)|]. split; [apply surjective_pairing|].
  split; [|split; [exact Rb | exact Rs]].
  rewrite (chk_c06_geometry_gen spec_4in2 k len x y w h _ _ Rb Rs Rp).
  - cbn [flat_map]. rewrite (wg_4in2 _ x y w h _ _ _ A), app_nil_r. reflexivity.
  - constructor; [|constructor]. len_run_uc Hlen 0x13.
  - eexists. split; [left; reflexivity | reflexivity].
Qed.

Theorem epd4in2_update_partial_old_frame_class k len x y w h c d :
  aligned_in 400 300 x y w h -> len = w / 8 * h -> idle c ->
  exists c', c06x_call spec_4in2 (Epd4in2.update_partial_old_frame k len x y w h) k true len x y w h d c
                       [EBurstUc 0x10 P1 (area_4in2 x y w h) [SData (DArg k 0 0 len)]] (clauses_4in2 x) d c'
             /\ idle c' /\ c_partial c' = true
             /\ mkArea true (c_px0 c') (c_px1 c') (c_py0 c') (c_py1 c') = area_4in2 x y w h.
Proof.
  intros A Hlen I.
  pose proof (wb_4in2_decode_gen x y w h A) as AR. cbv [wb_4in2] in AR.
  lazymatch type of AR with area9 ?b0 ?b1 ?b2 ?b3 ?b4 ?b5 ?b6 ?b7 = _ =>
    pose proof (ctl_4in2_upof k len b0 b1 b2 b3 b4 b5 b6 b7 1 c I) as R end.
  cbv zeta in R. rewrite AR in R. destruct R as (Rb & Rs & Rp & Rpart & Rwin & Rid).
  eexists. split; [|split; [exact Rid | split; [exact Rpart | exact Rwin]]].
  eexists. eexists. split; [apply (upof_4in2_run_gen k len x y w h d A)|]. split; [apply surjective_pairing|].
  split; [|split; [exact Rb | exact Rs]].
  rewrite (chk_c06_geometry_gen spec_4in2 k len x y w h _ _ Rb Rs Rp).
  - cbn [flat_map]. rewrite (wg_4in2 _ x y w h _ _ _ A), app_nil_r. reflexivity.
  - constructor; [|constructor]. len_run_uc Hlen 0x10.
  - eexists. split; [left; reflexivity | reflexivity].
Qed.

Theorem epd4in2_update_partial_new_frame_class k len x y w h c d :
  aligned_in 400 300 x y w h -> len = w / 8 * h -> idle c -> c_partial c = true ->
  exists c', c06x_call spec_4in2 (Epd4in2.update_partial_new_frame k len x y w h) k true len x y w h d c
                       [EBurstUc 0x13 P2 (area_4in2 x y w h) [SData (DArg k 0 0 len)]] (clauses_4in2 x) d c'
             /\ idle c' /\ c_partial c' = false.
Proof.
  intros A Hlen I Hpart.
  pose proof (wb_4in2_decode_gen x y w h A) as AR. cbv [wb_4in2] in AR.
  lazymatch type of AR with area9 ?b0 ?b1 ?b2 ?b3 ?b4 ?b5 ?b6 ?b7 = _ =>
    pose proof (ctl_4in2_upnf k len b0 b1 b2 b3 b4 b5 b6 b7 1 c I Hpart) as R end.
  cbv zeta in R. rewrite AR in R. destruct R as (Rb & Rs & Rp & Rpart & Rid).
  eexists. split; [|split; [exact Rid | exact Rpart]].
  eexists. eexists. split; [apply (upnf_4in2_run_gen k len x y w h d A)|]. split; [apply surjective_pairing|].
  split; [|split; [exact Rb | exact Rs]].
  rewrite (chk_c06_geometry_gen spec_4in2 k len x y w h _ _ Rb Rs Rp).
  - cbn [flat_map]. rewrite (wg_4in2 _ x y w h _ _ _ A), app_nil_r. reflexivity.
  - constructor; [|constructor]. len_run_uc Hlen 0x13.
  - eexists. split; [left; reflexivity | reflexivity].
Qed.

Theorem epd4in2_clear_partial_frame_class k x y w h c d :
  aligned_in 400 300 x y w h -> idle c ->
  exists c', c06x_call spec_4in2 (Epd4in2.clear_partial_frame x y w h) k false 0 x y w h d c
                       [EBurstUc 0x10 P1 (area_4in2 x y w h) [SFill (fill_4in2 d) (w / 8 * h)];
                        EBurstUc 0x13 P2 (area_4in2 x y w h) [SFill (fill_4in2 d) (w / 8 * h)]]
                       (clauses_4in2 x ++ clauses_4in2 x) d c'
             /\ idle c' /\ c_partial c' = false.
Proof.
  intros A I.
  pose proof (wb_4in2_decode_gen x y w h A) as AR. cbv [wb_4in2] in AR.
  lazymatch type of AR with area9 ?b0 ?b1 ?b2 ?b3 ?b4 ?b5 ?b6 ?b7 = _ =>
    pose proof (ctl_4in2_cpf (fill_4in2 d) (w / 8 * h) (fill_4in2 d) (w / 8 * h) b0 b1 b2 b3 b4 b5 b6 b7 1 c I) as R end.
  cbv zeta in R. rewrite AR in R. destruct R as (Rb & Rs & Rp & Rpart & Rid).
  assert (Hn : w / 8 * h <> 0) by (destruct A as (Hx & Hw & Hw0 & Hh0 & Hxw & Hyh); nia).
  eexists. split; [|split; [exact Rid | exact Rpart]].
  eexists. eexists. split; [apply (cpf_4in2_run_gen x y w h d A)|]. split; [apply surjective_pairing|].
  split; [|split; [exact Rb | exact Rs]].
  rewrite (chk_c06_geometry_fill spec_4in2 k x y w h _ _ Rb ltac:(discriminate) Rs Rp).
  - cbn [flat_map]. rewrite !(wg_4in2 _ x y w h _ _ _ A), app_nil_r. reflexivity.
  - constructor; [|constructor; [|constructor]]; [len_run_uc Hn 0x10 | len_run_uc Hn 0x13].
  - constructor; [|constructor; [|constructor]]; eexists; apply sym_uniform_fill; exact Hn.
Qed.

(** the finding's class: [ClWindow 2] for EVERY aligned window with x >= 256, nothing for x < 256 *)
Lemma clauses_4in2_hi x : 256 <= x -> clauses_4in2 x = [ClWindow 2].
Proof. intros H. unfold clauses_4in2. destruct (N.ltb_spec x 256); [lia | reflexivity]. Qed.
Lemma clauses_4in2_lo x : x < 256 -> clauses_4in2 x = [].
Proof. intros H. unfold clauses_4in2. destruct (N.ltb_spec x 256); [reflexivity | lia]. Qed.

Theorem epd4in2_sys_partial_class ft k len x y w h s (o : op) :
  o = OUpdatePartial len x y w h \/ o = OUpdatePartialOld len x y w h ->
  aligned_inside spec_4in2 x y w h = true -> len = w / 8 * h -> idle (y_c s) ->
  exists s', sys_c06x ft spec_4in2 k s o true len x y w h (clauses_4in2 x) s' /\ idle (y_c s').
Proof.
  intros Ho A Hl I. apply aligned_inside_in in A. destruct s as [d c]. cbn [y_d y_c] in *. destruct Ho as [-> | ->].
  - destruct (epd4in2_update_partial_frame_class k len x y w h c d A Hl I) as (c' & Hc & Hi & _).
    exists (mkSys d c'). split; [|exact Hi]. eapply sys_c06x_intro; [reflexivity | exact Hc].
  - destruct (epd4in2_update_partial_old_frame_class k len x y w h c d A Hl I) as (c' & Hc & Hi & _).
    exists (mkSys d c'). split; [|exact Hi]. eapply sys_c06x_intro; [reflexivity | exact Hc].
Qed.

(** ** epd7in5b_v2 update_partial_frame2: the window registers are RIGHT for every window, but each
    plane receives half of the buffer *)
Lemma bor_0_7 a : a mod 8 = 0 -> bor a 7 = a + 7.
Proof.
  intros Hm. unfold bor.
  assert (Z : N.land a 7 = 0) by (change 7 with (N.ones 3); rewrite N.land_ones; exact Hm).
  rewrite N.add_nocarry_lxor by exact Z. symmetry. apply N.lxor_lor. exact Z.
Qed.

Definition wb_7in5b (x y w h : N) : list N :=
  let xe := (x + w) / 8 - 1 in let ye := y + h - 1 in
  [shr (u8 (x / 8)) 5; u8 (shl (x / 8) 3); shr (u8 xe) 5; bor (u8 (shl xe 3)) 7;
   u8 (shr y 8); u8 y; u8 (shr ye 8); u8 ye; 1].

(** byte-level window lemma: the nine bytes decode to origin and INCLUSIVE end, for every aligned window *)
Lemma wb_7in5b_decode x y w h :
  aligned_in 800 480 x y w h ->
  match wb_7in5b x y w h with
  | [b0; b1; b2; b3; b4; b5; b6; b7; b8] =>
      be16 b0 b1 = x /\ be16 b2 b3 = x + w - 1 /\ be16 b4 b5 = y /\ be16 b6 b7 = y + h - 1 /\ b8 = 1
  | _ => False
  end.
Proof.
  intros (Hx & Hw & Hw0 & Hh0 & Hxw & Hyh). cbv [wb_7in5b].
  rewrite !shr5, !shl3, !be16_bytes by lia.
  rewrite (bor_0_7 (u8 (((x + w) / 8 - 1) * 8))) by (unfold u8; lia).
  unfold be16, u8. repeat split; lia.
Qed.

Lemma area9_7in5b x y w h :
  aligned_in 800 480 x y w h ->
  match wb_7in5b x y w h with
  | [b0; b1; b2; b3; b4; b5; b6; b7; b8] => area9 b0 b1 b2 b3 b4 b5 b6 b7 = win_area x y w h
  | _ => False
  end.
Proof.
  intros A. pose proof (wb_7in5b_decode x y w h A) as D. destruct A as (Hx & Hw & Hw0 & Hh0 & Hxw & Hyh).
  cbv [wb_7in5b] in *. destruct D as (D1 & D2 & D3 & D4 & _).
  unfold area9, win_area. rewrite D1, D2, D3, D4. f_equal. lia.
Qed.

Lemma upf2_7in5b_run k len x y w h d :
  aligned_in 800 480 x y w h ->
  Epd7in5b_v2.update_partial_frame2 k len x y w h d =
    (Some tt, d, [ICall (IWaitCmd true 0x71); ICall (ICmd 0x91); ICall (ICmd 0x90); ICall (IData (DLit (wb_7in5b x y w h)));
                  ICall (ICmd 0x10); ICall (IData (DArg k 0 0 (len / 2)));
                  ICall (ICmd 0x13); ICall (IData (DArg k 0 (len / 2) (len - len / 2)));
                  ICall (ICmd 0x12); ICall (IWaitCmd true 0x71); ICall (ICmd 0x92)]).
Proof.
  intros (Hx & Hw & Hw0 & Hh0 & Hxw & Hyh).
  assert (H0 : (w / 8 * h <? u32max) = true) by (apply N.ltb_lt; unfold u32max; nia).
  assert (H1 : (x + w <? u32max) = true) by (apply N.ltb_lt; unfold u32max; lia).
  assert (H2 : (1 <=? (x + w) / 8) = true) by (apply N.leb_le; lia).
  assert (H3 : (y + h <? u32max) = true) by (apply N.ltb_lt; unfold u32max; lia).
  assert (H4 : (1 <=? y + h) = true) by (apply N.leb_le; lia).
  cbv [Epd7in5b_v2.update_partial_frame2 Epd7in5b_v2.wait_until_idle Epd7in5b_v2.IS_BUSY_LOW wb_7in5b]. mrun.
  rewrite H0, H1, H2, H3, H4. reflexivity.
Qed.

Lemma ctl_7in5b_upf2 e1 e2 b0 b1 b2 b3 b4 b5 b6 b7 b8 c : idle c ->
  let r := ccall (ps_cp spec_7in5b_v2) c
                 [IWaitCmd true 0x71; ICmd 0x91; ICmd 0x90; IData (DLit [b0;b1;b2;b3;b4;b5;b6;b7;b8]);
                  ICmd 0x10; IData e1; ICmd 0x13; IData e2; ICmd 0x12; IWaitCmd true 0x71; ICmd 0x92] in
  filter isb (snd r) = [EBurstUc 0x10 P1 (area9 b0 b1 b2 b3 b4 b5 b6 b7) [SData e1];
                        EBurstUc 0x13 P2 (area9 b0 b1 b2 b3 b4 b5 b6 b7) [SData e2]]
  /\ chk_stray (snd r) = [] /\ patterns (snd r) = []
  /\ c_partial (fst r) = false /\ idle (fst r).
Proof. intros I. idle_destruct c I. repeat split. Qed.

Lemma wg_win_area P x y w h c pl segs : window_geometry P x y w h (EBurstUc c pl (win_area x y w h) segs) = [].
Proof. cbv [window_geometry win_area a_partial a_x0 a_x1 a_y0 a_y1]. rewrite !N.eqb_refl. reflexivity. Qed.

(** a run that is a slice of the caller's buffer other than the whole buffer does not count as the buffer *)
Lemma payload_DArg k a o n len :
  len <> 0 -> (n = 0 \/ a <> 0 \/ o <> 0 \/ n <> len) ->
  existsb (fun g => sm_eq sym [SData (DArg k a o n)] (expected_segs k (mkTarget 0 0 g 0 len))) [BId; BNot; BExp2; BExp4] = false.
Proof.
  intros Hl Hc.
  cbv [existsb expected_segs t_enc t_arg t_off t_len sm_eq sym nonempty filter seglen dlen bwidth].
  rewrite (eqb_false len 0 Hl), (eqb_false (1 * len) 0), (eqb_false (2 * len) 0), (eqb_false (4 * len) 0) by lia.
  cbv [negb]. destruct (N.eqb_spec n 0) as [E|E]; cbv [segs_eqb seg_eqb dexp_eqb]; [reflexivity|].
  rewrite N.eqb_refl.
  destruct Hc as [Hc|[Hc|[Hc|Hc]]];
    [contradiction | rewrite (eqb_false a 0 Hc) | rewrite (eqb_false o 0 Hc) | rewrite (eqb_false n len Hc)];
    destruct (a =? 0); destruct (o =? 0); destruct (n =? len); reflexivity.
Qed.
Lemma payload_whole k len :
  existsb (fun g => sm_eq sym [SData (DArg k 0 0 len)] (expected_segs k (mkTarget 0 0 g 0 len))) [BId; BNot; BExp2; BExp4] = true.
Proof.
  cbn [existsb]. replace (sm_eq sym _ (expected_segs k (mkTarget 0 0 BId 0 len))) with true; [reflexivity|].
  symmetry. apply sym_eq_refl.
Qed.

Definition clauses_7in5b (len : N) : list clause :=
  if len =? 1 then [ClLength 0x10 0] else [ClLength 0x10 (len / 2); ClLength 0x13 (len - len / 2); ClPayload 0].

Lemma existsb_two {A} (f : A -> bool) a b : existsb f [a; b] = f a || f b.
Proof. cbn [existsb]. rewrite orb_false_r. reflexivity. Qed.

Lemma chk_c06_halves k len x y w h :
  len = w / 8 * h -> len <> 0 ->
  chk_c06 spec_7in5b_v2 sym k true len x y w h
          [EBurstUc 0x10 P1 (win_area x y w h) [SData (DArg k 0 0 (len / 2))];
           EBurstUc 0x13 P2 (win_area x y w h) [SData (DArg k 0 (len / 2) (len - len / 2))]] = clauses_7in5b len.
Proof.
  intros Hlen Hn. unfold chk_c06, clauses_7in5b.
  cbn [filter burst_cmd flat_map chk_stray burst_segs app]. rewrite !wg_win_area.
  cbv [segslen fold_left seglen dlen]. change (rowbytes spec_7in5b_v2 16 / cp_rowbytes (ps_cp spec_7in5b_v2)) with 1.
  change (rowbytes spec_7in5b_v2 19 / cp_rowbytes (ps_cp spec_7in5b_v2)) with 1. rewrite <- Hlen.
  rewrite (eqb_false (0 + len / 2) (len * 1)) by lia. rewrite existsb_two. cbn [app burst_segs].
  rewrite (payload_DArg k 0 0 (len / 2) len Hn) by (right; right; right; lia).
  destruct (N.eqb_spec len 1) as [E1|E1].
  - rewrite E1. change (1 / 2) with 0. change (1 - 0) with 1. rewrite (payload_whole k 1). reflexivity.
  - rewrite (eqb_false (0 + (len - len / 2)) (len * 1)) by lia.
    rewrite (payload_DArg k 0 (len / 2) (len - len / 2) len Hn) by (right; right; left; lia).
    replace (0 + len / 2) with (len / 2) by lia. replace (0 + (len - len / 2)) with (len - len / 2) by lia. reflexivity.
Qed.

Theorem epd7in5b_v2_update_partial_frame2_class k len x y w h c d :
  aligned_in 800 480 x y w h -> len = w / 8 * h -> idle c ->
  exists c', c06x_call spec_7in5b_v2 (Epd7in5b_v2.update_partial_frame2 k len x y w h) k true len x y w h d c
                       [EBurstUc 0x10 P1 (win_area x y w h) [SData (DArg k 0 0 (len / 2))];
                        EBurstUc 0x13 P2 (win_area x y w h) [SData (DArg k 0 (len / 2) (len - len / 2))]]
                       (clauses_7in5b len) d c'
             /\ idle c' /\ c_partial c' = false.
Proof.
  intros A Hlen I.
  pose proof (area9_7in5b x y w h A) as AR. cbv [wb_7in5b] in AR.
  lazymatch type of AR with area9 ?b0 ?b1 ?b2 ?b3 ?b4 ?b5 ?b6 ?b7 = _ =>
    pose proof (ctl_7in5b_upf2 (DArg k 0 0 (len / 2)) (DArg k 0 (len / 2) (len - len / 2)) b0 b1 b2 b3 b4 b5 b6 b7 1 c I) as R end.
  cbv zeta in R. rewrite AR in R. destruct R as (Rb & Rs & Rp & Rpart & Rid).
  assert (Hn : len <> 0) by (destruct A as (Hx & Hw & Hw0 & Hh0 & Hxw & Hyh); subst len; nia).
  eexists. split; [|split; [exact Rid | exact Rpart]].
  eexists. eexists. split; [apply (upf2_7in5b_run k len x y w h d A)|]. split; [apply surjective_pairing|].
  split; [|split; [exact Rb | exact Rs]].
  rewrite (chk_c06_by_bursts _ _ _ _ _ _ _ _ _ Rs Rp), Rb. apply (chk_c06_halves k len x y w h Hlen Hn).
Qed.

(** every window: a wrong-length clause for the 0x10 plane; nothing about the window registers *)
Lemma clauses_7in5b_length len : In (ClLength 0x10 (len / 2)) (clauses_7in5b len).
Proof.
  unfold clauses_7in5b. destruct (N.eqb_spec len 1) as [->|_]; left; reflexivity.
Qed.
Lemma clauses_7in5b_no_window len f : ~ In (ClWindow f) (clauses_7in5b len).
Proof.
  unfold clauses_7in5b. destruct (len =? 1); cbn [In]; intros H;
    repeat (destruct H as [H|H]; [discriminate H|]); exact H.
Qed.

Theorem epd7in5b_v2_sys_update_partial2_class ft k len x y w h s :
  aligned_inside spec_7in5b_v2 x y w h = true -> len = w / 8 * h -> idle (y_c s) ->
  exists s', sys_c06x ft spec_7in5b_v2 k s (OUpdatePartial2 len x y w h) true len x y w h (clauses_7in5b len) s' /\ idle (y_c s').
Proof.
  intros A Hl I. apply aligned_inside_in in A. destruct s as [d c]. cbn [y_d y_c] in *.
  destruct (epd7in5b_v2_update_partial_frame2_class k len x y w h c d A Hl I) as (c' & Hc & Hi & _).
  exists (mkSys d c'). split; [|exact Hi]. eapply sys_c06x_intro; [reflexivity | exact Hc].
Qed.

(** ** epd2in9d update_partial_frame: vertical end (y+h-1) mod 256 - 1, underflow panic, retained old slice *)
Definition part_reg_items : list item := snd (Epd2in9d.set_part_reg d0).
Lemma set_part_reg_run d : Epd2in9d.set_part_reg d = (Some tt, d, part_reg_items).
Proof. reflexivity. Qed.

(** what the entry point does first, depending on the driver's is_partial_refresh field *)
Definition pre_items_2in9d (d : dstate) : list item :=
  if is_partial d then [] else part_reg_items ++ [ISet (set_partial true d)].
Definition pre_d_2in9d (d : dstate) : dstate := if is_partial d then d else set_partial true d.
Definition old_len (d : dstate) : N := dlen (Epd2in9d.old_data d).

Definition wb_2in9d (x y w h : N) : list N :=
  [u8 (x - x mod 8); u8 (x - x mod 8 + w - 1 - 1); u8 (y / 256); u8 (y mod 256);
   u8 ((y + h - 1) / 256); u8 ((y + h - 1) mod 256 - 1); 0x28].

Definition win_items_2in9d (x y w h : N) : list item :=
  [ICall (ICmd 0x91); ICall (ICmd 0x90)] ++ map lit1 (wb_2in9d x y w h).

(** the panic condition, exactly: the call returns normally iff (y + h - 1) mod 256 <> 0 *)
Lemma upf_2in9d_run k len x y w h d :
  aligned_in 128 296 x y w h -> (y + h - 1) mod 256 <> 0 ->
  Epd2in9d.update_partial_frame k len x y w h d =
    (Some tt, set_old (Some (k, 0, len)) (pre_d_2in9d d),
     pre_items_2in9d d ++ win_items_2in9d x y w h ++
     [ICall (ICmd 0x10); ICall (IData (Epd2in9d.old_data d)); ICall (ICmd 0x13); ICall (IData (DArg k 0 0 len));
      ISet (set_old (Some (k, 0, len)) (pre_d_2in9d d))]).
Proof.
  intros (Hx & Hw & Hw0 & Hh0 & Hxw & Hyh) Hm.
  assert (H1 : (x - x mod 8 + w <? u32max) = true) by (apply N.ltb_lt; unfold u32max; lia).
  assert (H2 : (1 <=? x - x mod 8 + w) = true) by (apply N.leb_le; lia).
  assert (H3 : (1 <=? x - x mod 8 + w - 1) = true) by (apply N.leb_le; lia).
  assert (H4 : (y + h <? u32max) = true) by (apply N.ltb_lt; unfold u32max; lia).
  assert (H5 : (1 <=? y + h) = true) by (apply N.leb_le; lia).
  assert (H6 : (1 <=? (y + h - 1) mod 256) = true) by (apply N.leb_le; lia).
  cbv [Epd2in9d.update_partial_frame pre_items_2in9d pre_d_2in9d win_items_2in9d wb_2in9d].
  destruct d as [bg0 refresh0 ison0 [|] sleepmode0 old0].
  - do 3 (mrun; cbv beta iota; rewrite ?H1, ?H2, ?H3, ?H4, ?H5, ?H6). reflexivity.
  - do 3 (mrun; cbv beta iota; rewrite ?set_part_reg_run, ?H1, ?H2, ?H3, ?H4, ?H5, ?H6). reflexivity.
Qed.

Lemma upf_2in9d_panics k len x y w h d :
  aligned_in 128 296 x y w h -> (y + h - 1) mod 256 = 0 ->
  fst (fst (Epd2in9d.update_partial_frame k len x y w h d)) = None /\
  snd (fst (Epd2in9d.update_partial_frame k len x y w h d)) = pre_d_2in9d d.
Proof.
  intros (Hx & Hw & Hw0 & Hh0 & Hxw & Hyh) Hm.
  assert (H1 : (x - x mod 8 + w <? u32max) = true) by (apply N.ltb_lt; unfold u32max; lia).
  assert (H2 : (1 <=? x - x mod 8 + w) = true) by (apply N.leb_le; lia).
  assert (H3 : (1 <=? x - x mod 8 + w - 1) = true) by (apply N.leb_le; lia).
  assert (H4 : (y + h <? u32max) = true) by (apply N.ltb_lt; unfold u32max; lia).
  assert (H5 : (1 <=? y + h) = true) by (apply N.leb_le; lia).
  assert (H6 : (1 <=? (y + h - 1) mod 256) = false) by (rewrite Hm; reflexivity).
  cbv [Epd2in9d.update_partial_frame pre_d_2in9d].
  destruct d as [bg0 refresh0 ison0 [|] sleepmode0 old0].
  - do 3 (mrun; cbv beta iota; rewrite ?H1, ?H2, ?H3, ?H4, ?H5, ?H6). split; reflexivity.
  - do 3 (mrun; cbv beta iota; rewrite ?set_part_reg_run, ?H1, ?H2, ?H3, ?H4, ?H5, ?H6). split; reflexivity.
Qed.

Definition cp29d := ps_cp spec_2in9d.
Definition pre_calls_2in9d (sent : bool) : list icall := if sent then calls part_reg_items else [].
Lemma pre_calls_2in9d_ok d : calls (pre_items_2in9d d) = pre_calls_2in9d (negb (is_partial d)).
Proof. unfold pre_items_2in9d, pre_calls_2in9d. destruct (is_partial d); [reflexivity|]. rewrite calls_app. cbn [calls]. apply app_nil_r. Qed.

(** the window block (after the re-initialisation [set_part_reg], if the driver sends it): no data
    run; the controller is in partial mode with the window the seven bytes decode to *)
Lemma ctl_2in9d_window sent b0 b1 b2 b3 b4 b5 b6 c : idle c ->
  let r := ccall cp29d c (pre_calls_2in9d sent ++ [ICmd 0x91; ICmd 0x90] ++ map dl [b0; b1; b2; b3; b4; b5; b6]) in
  filter isb (snd r) = [] /\ chk_stray (snd r) = [] /\ patterns (snd r) = []
  /\ idle (fst r) /\ c_partial (fst r) = true
  /\ mkArea true (c_px0 (fst r)) (c_px1 (fst r)) (c_py0 (fst r)) (c_py1 (fst r)) = mkArea true (b0 / 8) (b1 / 8) (be16 b2 b3) (be16 b4 b5).
Proof. intros I. idle_destruct c I. destruct sent; repeat split. Qed.

(** one data-start command with its data, in partial mode: one run under the partial window *)
Lemma ctl_2in9d_plane (cmd : N) e c : cmd = 0x10 \/ cmd = 0x13 -> idle c -> c_partial c = true ->
  let r := ccall cp29d c [ICmd cmd; IData e] in
  filter isb (snd r) = [EBurstUc cmd (if cmd =? 0x10 then P1 else P2) (mkArea true (c_px0 c) (c_px1 c) (c_py0 c) (c_py1 c)) [SData e]]
  /\ chk_stray (snd r) = [] /\ patterns (snd r) = []
  /\ idle (fst r) /\ c_partial (fst r) = true
  /\ mkArea true (c_px0 (fst r)) (c_px1 (fst r)) (c_py0 (fst r)) (c_py1 (fst r)) = mkArea true (c_px0 c) (c_px1 c) (c_py0 c) (c_py1 c).
Proof.
  intros Hc I Hp. idle_destruct c I. cbv [c_partial] in Hp. subst partial0.
  destruct Hc as [-> | ->]; (destruct pending0; [cbv -[dlen]; destruct (dlen e)|]); repeat split.
Qed.

Lemma ctl_2in9d_upf sent b0 b1 b2 b3 b4 b5 b6 e1 e2 c : idle c ->
  let A := mkArea true (b0 / 8) (b1 / 8) (be16 b2 b3) (be16 b4 b5) in
  let r := ccall cp29d c (pre_calls_2in9d sent ++ ([ICmd 0x91; ICmd 0x90] ++ map dl [b0; b1; b2; b3; b4; b5; b6]) ++
                          [ICmd 0x10; IData e1; ICmd 0x13; IData e2]) in
  filter isb (snd r) = [EBurstUc 0x10 P1 A [SData e1]; EBurstUc 0x13 P2 A [SData e2]]
  /\ chk_stray (snd r) = [] /\ patterns (snd r) = []
  /\ idle (fst r) /\ c_partial (fst r) = true.
Proof.
  intros I A.
  pose proof (ctl_2in9d_window sent b0 b1 b2 b3 b4 b5 b6 c I) as R0. cbv zeta in R0.
  set (W := pre_calls_2in9d sent ++ [ICmd 0x91; ICmd 0x90] ++ map dl [b0; b1; b2; b3; b4; b5; b6]) in *.
  assert (E : pre_calls_2in9d sent ++ ([ICmd 0x91; ICmd 0x90] ++ map dl [b0; b1; b2; b3; b4; b5; b6]) ++
              [ICmd 0x10; IData e1; ICmd 0x13; IData e2] = W ++ ICmd 0x10 :: [IData e1; ICmd 0x13; IData e2])
    by (unfold W; rewrite <- !app_assoc; reflexivity).
  rewrite E. clear E. rewrite ccall_split.
  destruct (ccall cp29d c W) as [s0 es0]. cbn [fst snd] in R0. destruct R0 as (Rb0 & Rs0 & Rp0 & Ri0 & Rpart0 & Rw0).
  change (ICmd 0x10 :: [IData e1; ICmd 0x13; IData e2]) with ([ICmd 0x10; IData e1] ++ ICmd 0x13 :: [IData e2]).
  rewrite ccall_split.
  pose proof (ctl_2in9d_plane 0x10 e1 s0 (or_introl eq_refl) Ri0 Rpart0) as R1. cbv zeta in R1.
  destruct (ccall cp29d s0 [ICmd 0x10; IData e1]) as [s1 es1]. cbn [fst snd] in R1.
  destruct R1 as (Rb1 & Rs1 & Rp1 & Ri1 & Rpart1 & Rw1).
  pose proof (ctl_2in9d_plane 0x13 e2 s1 (or_intror eq_refl) Ri1 Rpart1) as R2. cbv zeta in R2.
  destruct (ccall cp29d s1 [ICmd 0x13; IData e2]) as [s2 es2]. cbn [fst snd] in R2 |- *.
  destruct R2 as (Rb2 & Rs2 & Rp2 & Ri2 & Rpart2 & Rw2).
  rewrite !filter_isb_app, !chk_stray_app, !patterns_app, Rb0, Rb1, Rb2, Rs0, Rs1, Rs2, Rp0, Rp1, Rp2.
  rewrite Rw1, Rw0. fold A. change (16 =? 16) with true. change (19 =? 16) with false. cbn [app].
  do 3 (split; [reflexivity|]). split; assumption.
Qed.

Definition area_2in9d (x y w h : N) : area := mkArea true (x / 8) ((x + w) / 8 - 1) y (y + h - 2).
Definition clauses_2in9d (w h : N) (d : dstate) : list clause :=
  [ClWindow 4] ++ (if old_len d =? w / 8 * h then [] else [ClLength 0x10 (old_len d)]) ++ [ClWindow 4].

(** byte-level window lemma: origin and horizontal end decode as requested, the vertical end to y+h-2 *)
Lemma wb_2in9d_decode x y w h :
  aligned_in 128 296 x y w h -> (y + h - 1) mod 256 <> 0 ->
  match wb_2in9d x y w h with
  | [b0; b1; b2; b3; b4; b5; b6] =>
      mkArea true (b0 / 8) (b1 / 8) (be16 b2 b3) (be16 b4 b5) = area_2in9d x y w h
  | _ => False
  end.
Proof.
  intros (Hx & Hw & Hw0 & Hh0 & Hxw & Hyh) Hm. cbv [wb_2in9d area_2in9d]. unfold be16, u8. f_equal; lia.
Qed.

Lemma wg_2in9d P x y w h c pl segs :
  aligned_in 128 296 x y w h -> (y + h - 1) mod 256 <> 0 ->
  window_geometry P x y w h (EBurstUc c pl (area_2in9d x y w h) segs) = [ClWindow 4].
Proof.
  intros (Hx & Hw & Hw0 & Hh0 & Hxw & Hyh) Hm. unfold area_2in9d. rewrite wg_uc, !N.eqb_refl.
  rewrite (eqb_false (y + h - 2) (y + h - 1)) by lia. reflexivity.
Qed.

Lemma chk_c06_2in9d k len x y w h e1 :
  aligned_in 128 296 x y w h -> (y + h - 1) mod 256 <> 0 -> len = w / 8 * h ->
  chk_c06 spec_2in9d sym k true len x y w h
          [EBurstUc 0x10 P1 (area_2in9d x y w h) [SData e1];
           EBurstUc 0x13 P2 (area_2in9d x y w h) [SData (DArg k 0 0 len)]] =
  [ClWindow 4] ++ (if dlen e1 =? w / 8 * h then [] else [ClLength 0x10 (dlen e1)]) ++ [ClWindow 4].
Proof.
  intros A Hm Hlen. unfold chk_c06.
  cbn [filter burst_cmd flat_map chk_stray burst_segs app]. rewrite !(wg_2in9d _ x y w h _ _ _ A Hm).
  cbv [segslen fold_left seglen dlen]. fold (dlen e1).
  change (rowbytes spec_2in9d 16 / cp_rowbytes (ps_cp spec_2in9d)) with 1.
  change (rowbytes spec_2in9d 19 / cp_rowbytes (ps_cp spec_2in9d)) with 1. rewrite <- Hlen.
  rewrite existsb_two. cbn [burst_segs]. rewrite (payload_whole k len), orb_true_r.
  replace (0 + len =? len * 1) with true by (symmetry; apply N.eqb_eq; lia).
  replace (0 + dlen e1) with (dlen e1) by lia. replace (len * 1) with len by lia.
  cbn [app]. rewrite !app_nil_r. reflexivity.
Qed.

Theorem epd2in9d_update_partial_frame_class k len x y w h c d :
  aligned_in 128 296 x y w h -> (y + h - 1) mod 256 <> 0 -> len = w / 8 * h -> idle c ->
  exists d' c', c06x_call spec_2in9d (Epd2in9d.update_partial_frame k len x y w h) k true len x y w h d c
                       [EBurstUc 0x10 P1 (area_2in9d x y w h) [SData (Epd2in9d.old_data d)];
                        EBurstUc 0x13 P2 (area_2in9d x y w h) [SData (DArg k 0 0 len)]]
                       (clauses_2in9d w h d) d' c'
             /\ idle c' /\ c_partial c' = true
             /\ old d' = Some (k, 0, len) /\ is_partial d' = true.
Proof.
  intros A Hm Hlen I.
  pose proof (wb_2in9d_decode x y w h A Hm) as AR. cbv [wb_2in9d] in AR.
  lazymatch type of AR with mkArea true (?b0 / 8) (?b1 / 8) (be16 ?b2 ?b3) (be16 ?b4 ?b5) = _ =>
    pose proof (ctl_2in9d_upf (negb (is_partial d)) b0 b1 b2 b3 b4 b5 0x28 (Epd2in9d.old_data d) (DArg k 0 0 len) c I) as R end.
  cbv zeta in R. rewrite AR in R. destruct R as (Rb & Rs & Rp & Rid & Rpart).
  eexists. eexists. split; [|split; [exact Rid | split; [exact Rpart|]]].
  - eexists. eexists. split; [apply (upf_2in9d_run k len x y w h d A Hm)|].
    assert (Ec : calls (pre_items_2in9d d ++ win_items_2in9d x y w h ++
                        [ICall (ICmd 0x10); ICall (IData (Epd2in9d.old_data d)); ICall (ICmd 0x13); ICall (IData (DArg k 0 0 len));
                         ISet (set_old (Some (k, 0, len)) (pre_d_2in9d d))]) =
                 pre_calls_2in9d (negb (is_partial d)) ++ ([ICmd 0x91; ICmd 0x90] ++ map dl (wb_2in9d x y w h)) ++
                 [ICmd 0x10; IData (Epd2in9d.old_data d); ICmd 0x13; IData (DArg k 0 0 len)]).
    { rewrite !calls_app, pre_calls_2in9d_ok. unfold win_items_2in9d. rewrite calls_app, calls_lit1. reflexivity. }
    rewrite Ec. unfold wb_2in9d. split; [apply surjective_pairing|]. split; [|split; [exact Rb | exact Rs]].
    rewrite (chk_c06_by_bursts _ _ _ _ _ _ _ _ _ Rs Rp), Rb. apply (chk_c06_2in9d k len x y w h _ A Hm Hlen).
  - unfold pre_d_2in9d. destruct d as [bg0 refresh0 ison0 [|] sleepmode0 old0]; split; reflexivity.
Qed.

(** the retained slice: after the call the driver holds the buffer of THIS call; a second partial
    update of a window of the same size is then free of the wrong-length clause, any other size is not *)
Lemma clauses_2in9d_retained w h d :
  clauses_2in9d w h d = [ClWindow 4; ClWindow 4] <-> old_len d = w / 8 * h.
Proof.
  unfold clauses_2in9d. destruct (N.eqb_spec (old_len d) (w / 8 * h)) as [E|E]; cbn [app]; split; intros H; try assumption; try reflexivity.
  - discriminate H.
  - contradiction.
Qed.
Lemma old_len_fresh d : old d = None -> old_len d = 0.
Proof. unfold old_len, Epd2in9d.old_data. intros ->. reflexivity. Qed.
Lemma old_len_some d c a l : old d = Some (c, a, l) -> old_len d = l.
Proof. unfold old_len, Epd2in9d.old_data. intros ->. reflexivity. Qed.

Theorem epd2in9d_sys_update_partial_class ft k len x y w h s :
  aligned_inside spec_2in9d x y w h = true -> (y + h - 1) mod 256 <> 0 -> len = w / 8 * h -> idle (y_c s) ->
  exists s', sys_c06x ft spec_2in9d k s (OUpdatePartial len x y w h) true len x y w h (clauses_2in9d w h (y_d s)) s'
             /\ idle (y_c s') /\ old (y_d s') = Some (k, 0, len).
Proof.
  intros A Hm Hl I. apply aligned_inside_in in A. destruct s as [d c]. cbn [y_d y_c] in *.
  destruct (epd2in9d_update_partial_frame_class k len x y w h c d A Hm Hl I) as (d' & c' & Hc & Hi & _ & Ho & _).
  exists (mkSys d' c'). split; [|split; [exact Hi | exact Ho]]. eapply sys_c06x_intro; [reflexivity | exact Hc].
Qed.

(** ... and when (y + h - 1) mod 256 = 0 the call panics (u8 underflow), for every such window *)
Theorem epd2in9d_sys_update_partial_panics ft k len x y w h s :
  aligned_inside spec_2in9d x y w h = true -> (y + h - 1) mod 256 = 0 ->
  sys_op ft spec_2in9d k s (OUpdatePartial len x y w h) = OpPanic.
Proof.
  intros A Hm. apply aligned_inside_in in A. destruct s as [d c].
  destruct (upf_2in9d_panics k len x y w h d A Hm) as [Hp _].
  unfold sys_op. change (d_exec (drv_of ft spec_2in9d) k (OUpdatePartial len x y w h)) with (unit_ (Epd2in9d.update_partial_frame k len x y w h)).
  cbv [unit_ bind y_d]. destruct (Epd2in9d.update_partial_frame k len x y w h d) as [[r d1] t]. cbn [fst] in Hp. subst r. reflexivity.
Qed.

(** sizes of the closed reachable sets (reported in the evidence files; no logical role) *)
From Coq Require Import List NArith.
From EPD Require Import Ops Panels Spec.PSpec Spec.Specs Spec.Verdict Proof.AllPanels.
Import ListNotations.
Eval vm_compute in map (fun c => (N.of_nat (length (Rof c)), N.of_nat (length (ps_alpha (spec_of (snd c)))))) cfgs.

(** * Panels: registry of the 27 trait-driver models *)
From Coq Require Import List NArith Bool.
From EPD Require Import Iface Ops.
Import ListNotations.
From EPD Require Drv.Epd1in02.
From EPD Require Drv.Epd1in54.
From EPD Require Drv.Epd1in54_v2.
From EPD Require Drv.Epd1in54b.
From EPD Require Drv.Epd1in54c.
From EPD Require Drv.Epd2in13_v2.
From EPD Require Drv.Epd2in13b_v4.
From EPD Require Drv.Epd2in13bc.
From EPD Require Drv.Epd2in66b.
From EPD Require Drv.Epd2in7.
From EPD Require Drv.Epd2in7_v2.
From EPD Require Drv.Epd2in7b.
From EPD Require Drv.Epd2in9.
From EPD Require Drv.Epd2in9_v2.
From EPD Require Drv.Epd2in9b_v4.
From EPD Require Drv.Epd2in9bc.
From EPD Require Drv.Epd2in9d.
From EPD Require Drv.Epd3in7.
From EPD Require Drv.Epd4in2.
From EPD Require Drv.Epd5in65f.
From EPD Require Drv.Epd5in83_v2.
From EPD Require Drv.Epd5in83b_v2.
From EPD Require Drv.Epd7in3f.
From EPD Require Drv.Epd7in5.
From EPD Require Drv.Epd7in5_hd.
From EPD Require Drv.Epd7in5_v2.
From EPD Require Drv.Epd7in5b_v2.

Inductive panel :=
| P1in02
| P1in54
| P1in54_v2
| P1in54b
| P1in54c
| P2in13_v2
| P2in13b_v4
| P2in13bc
| P2in66b
| P2in7
| P2in7_v2
| P2in7b
| P2in9
| P2in9_v2
| P2in9b_v4
| P2in9bc
| P2in9d
| P3in7
| P4in2
| P5in65f
| P5in83_v2
| P5in83b_v2
| P7in3f
| P7in5
| P7in5_hd
| P7in5_v2
| P7in5b_v2.

Definition all_panels : list panel :=
  [P1in02; P1in54; P1in54_v2; P1in54b; P1in54c; P2in13_v2; P2in13b_v4; P2in13bc; P2in66b; P2in7; P2in7_v2; P2in7b; P2in9; P2in9_v2; P2in9b_v4; P2in9bc; P2in9d; P3in7; P4in2; P5in65f; P5in83_v2; P5in83b_v2; P7in3f; P7in5; P7in5_hd; P7in5_v2; P7in5b_v2]%list.

Definition driver_of (ft : feat) (p : panel) : driver :=
  match p with
  | P1in02 => Drv.Epd1in02.Epd1in02.drv ft
  | P1in54 => Drv.Epd1in54.Epd1in54.drv ft
  | P1in54_v2 => Drv.Epd1in54_v2.Epd1in54_v2.drv ft
  | P1in54b => Drv.Epd1in54b.Epd1in54b.drv ft
  | P1in54c => Drv.Epd1in54c.Epd1in54c.drv ft
  | P2in13_v2 => Drv.Epd2in13_v2.Epd2in13_v2.drv ft
  | P2in13b_v4 => Drv.Epd2in13b_v4.Epd2in13b_v4.drv ft
  | P2in13bc => Drv.Epd2in13bc.Epd2in13bc.drv ft
  | P2in66b => Drv.Epd2in66b.Epd2in66b.drv ft
  | P2in7 => Drv.Epd2in7.Epd2in7.drv ft
  | P2in7_v2 => Drv.Epd2in7_v2.Epd2in7_v2.drv ft
  | P2in7b => Drv.Epd2in7b.Epd2in7b.drv ft
  | P2in9 => Drv.Epd2in9.Epd2in9.drv ft
  | P2in9_v2 => Drv.Epd2in9_v2.Epd2in9_v2.drv ft
  | P2in9b_v4 => Drv.Epd2in9b_v4.Epd2in9b_v4.drv ft
  | P2in9bc => Drv.Epd2in9bc.Epd2in9bc.drv ft
  | P2in9d => Drv.Epd2in9d.Epd2in9d.drv ft
  | P3in7 => Drv.Epd3in7.Epd3in7.drv ft
  | P4in2 => Drv.Epd4in2.Epd4in2.drv ft
  | P5in65f => Drv.Epd5in65f.Epd5in65f.drv ft
  | P5in83_v2 => Drv.Epd5in83_v2.Epd5in83_v2.drv ft
  | P5in83b_v2 => Drv.Epd5in83b_v2.Epd5in83b_v2.drv ft
  | P7in3f => Drv.Epd7in3f.Epd7in3f.drv ft
  | P7in5 => Drv.Epd7in5.Epd7in5.drv ft
  | P7in5_hd => Drv.Epd7in5_hd.Epd7in5_hd.drv ft
  | P7in5_v2 => Drv.Epd7in5_v2.Epd7in5_v2.drv ft
  | P7in5b_v2 => Drv.Epd7in5b_v2.Epd7in5b_v2.drv ft
  end.

(** * Sys: a driver model wired to its controller model *)
From Coq Require Import List NArith Bool.
From EPD Require Import Iface Ops Ctl.Ctl Spec.PSpec Spec.Checks Panels.
Import ListNotations.
Open Scope N_scope.

Record sys := mkSys { y_d : dstate; y_c : cstate }.

Definition drv_of (ft : feat) (P : pspec) : driver := driver_of ft (ps_panel P).

(** the constructor: (system, effects, transport calls); None = [new] panicked *)
Definition sys_new (ft : feat) (P : pspec) : option (sys * list effect * list icall) :=
  let D := drv_of ft P in
  match d_new D (d_init D) with
  | (Some _, d1, t) =>
      let '(c1, e) := ccall (ps_cp P) (por (ps_cp P)) (calls t) in Some (mkSys d1 c1, e, calls t)
  | (None, _, _) => None
  end.

Inductive opres := OpOk (s : sys) (es : list effect) (ic : list icall) | OpPanic | OpUnsupported.

(** one API call with call index [k] *)
Definition sys_op (ft : feat) (P : pspec) (k : N) (s : sys) (o : op) : opres :=
  match d_exec (drv_of ft P) k o with
  | None => OpUnsupported
  | Some m =>
      match m (y_d s) with
      | (Some _, d1, t) =>
          let '(c1, e) := ccall (ps_cp P) (y_c s) (calls t) in OpOk (mkSys d1 c1) e (calls t)
      | (None, _, _) => OpPanic
      end
  end.

(** a macro step (list of ops) of the history alphabet, all with call index 0 *)
Fixpoint sys_macro (ft : feat) (P : pspec) (s : sys) (m : list op) : option (sys * list effect) :=
  match m with
  | [] => Some (s, [])
  | o :: r =>
      match sys_op ft P 0 s o with
      | OpOk s1 e1 _ =>
          match sys_macro ft P s1 r with Some (s2, e2) => Some (s2, e1 ++ e2) | None => None end
      | _ => None
      end
  end.

(** ** symbolic payload semantics: syntactic equality (hence equality for every buffer content) *)
Definition dexp_eqb (a b : dexp) : bool :=
  match a, b with
  | DLit x, DLit y => (fix eqb (x y : list N) := match x, y with [], [] => true | p :: r, q :: s => (p =? q) && eqb r s | _, _ => false end) x y
  | DArg c1 a1 o1 l1, DArg c2 a2 o2 l2 => (c1 =? c2) && (a1 =? a2) && (o1 =? o2) && (l1 =? l2)
  | DRep v1 n1, DRep v2 n2 => (v1 =? v2) && (n1 =? n2)
  | _, _ => false
  end.
Definition bytefn_eqb (a b : bytefn) : bool :=
  match a, b with BId, BId | BNot, BNot | BExp2, BExp2 | BExp4, BExp4 => true | _, _ => false end.
Definition seg_eqb (a b : seg) : bool :=
  match a, b with
  | SData x, SData y => dexp_eqb x y
  | SEach g x, SEach h y => bytefn_eqb g h && dexp_eqb x y
  | SFill v n, SFill w m => (v =? w) && (n =? m)
  | _, _ => false
  end.
Fixpoint segs_eqb (a b : list seg) : bool :=
  match a, b with
  | [], [] => true
  | x :: r, y :: s => seg_eqb x y && segs_eqb r s
  | _, _ => false
  end.
(** drop empty segments before comparing *)
Definition nonempty (l : list seg) : list seg := filter (fun s => negb (seglen s =? 0)) l.
Definition sym_uniform (l : list seg) : option N :=
  match nonempty l with
  | [SFill v _] => Some v
  | [SData (DRep v _)] => Some v
  | [SData (DLit (v :: r))] => if forallb (N.eqb v) r then Some v else None
  | _ => None
  end.
Definition sym : sem := mkSem (fun a b => segs_eqb (nonempty a) (nonempty b)) sym_uniform.

(** ** C01 evaluated on the model: every documented entry point from a freshly constructed driver *)
Definition c01_panel (ft : feat) (P : pspec) : list (N * list clause) :=
  match sys_new ft P with
  | None => [(0, [ClPanic])]
  | Some (s0, _, _) =>
      map (fun '(i, en) =>
             (i, match sys_op ft P 1 s0 (en_op en) with
                 | OpOk _ es _ => chk_c01 P sym 1 en es
                 | _ => [ClPanic]
                 end))
          (combine (map N.of_nat (seq 0 (length (ps_entries P)))) (ps_entries P))
  end.

(** * Recover: the recovery clause of C04 on the models.

    A failed call leaves the driver's fields at the value they had at some point of the call's item
    trace (before the call, or after one of its field assignments), and the controller in whatever
    state the truncated command stream produced.  The recovery suffix is
    [wake_up; update_frame F; display_frame].  We show, per configuration:
    (i) wake_up starts with a hardware reset from every such field valuation, so the controller
        state after the suffix does not depend on what the failed call left behind (generic lemma
        [suffix_forgets]);
    (ii) for every state [s] of the closed reachable set, every macro step [m] and every field
        valuation [d] a call of [m] can be interrupted in, the suffix run from [d] leaves the
        controller registers, power state and image burst equal to those of the same suffix on the
        driver on which [m] completed without a failure.  By kernel computation. *)
From Coq Require Import List NArith Bool.
From EPD Require Import Iface Ops Ctl.Ctl Spec.PSpec Spec.Checks Spec.Sys Spec.Hist Spec.Oracle Spec.Verdict Panels.
Import ListNotations.
Open Scope N_scope.

(** field valuations at which a call with item trace [t], entered with fields [d], can stop: the fields in force
    at each transport call that performs SPI transfers (a failure happens at a transfer; busy waits, delays and
    the reset cannot fail) *)
Definition can_fail (i : icall) : bool :=
  match i with ICmd _ | IData _ | IDataEach _ _ _ | IDataX _ _ | IWaitCmd _ _ => true | _ => false end.
Fixpoint fields_at_transfers (d : dstate) (t : list item) : list dstate :=
  match t with
  | [] => []
  | ISet d' :: r => fields_at_transfers d' r
  | ICall i :: r => (if can_fail i then [d] else []) ++ fields_at_transfers d r
  | IPanic :: _ => []
  end.
Definition fields_of_trace (d : dstate) (t : list item) : list dstate := fields_at_transfers d t.

Definition is_setting (o : op) : bool :=
  match o with OSetLut _ | OSetRefresh _ | OSetBg _ | OSetBorder _ => true | _ => false end.

(** the call's first transport call that is not a busy wait / delay is a hardware reset *)
Fixpoint starts_with_reset (ic : list icall) : bool :=
  match ic with
  | IWait _ :: r | IDelay _ _ :: r => starts_with_reset r
  | IReset _ _ :: _ => true
  | _ => false
  end.

Section Panel.
Variables (D : driver) (PP : pspec) (isig : list N) (lr0 lr1 : list (N * list N)) (cref : list N) (alpha : list (list op)).

(** one call on (fields, controller): transport calls are fed to the controller model *)
Definition rcall (k : N) (d : dstate) (c : cstate) (o : op) : option (dstate * cstate * list effect * list icall) :=
  match d_exec D k o with
  | None => None
  | Some m =>
      match m d with
      | (Some _, d1, t) => let '(c1, es) := ccall (ps_cp PP) c (calls t) in Some (d1, c1, es, calls t)
      | (None, _, _) => None
      end
  end.

Definition frame_len : N :=
  match ps_entries PP with
  | en :: _ => match en_op en with OUpdateFrame n => n | _ => ps_frame PP end
  | [] => ps_frame PP
  end.

(** the recovery suffix; result: final fields, final controller state, the effects of the
    update_frame and display_frame calls, and whether wake_up began with a hardware reset *)
Definition suffix (d : dstate) (c : cstate) : option (dstate * cstate * list effect * bool) :=
  match rcall 1 d c OWakeUp with
  | Some (d1, c1, _, ic) =>
      match rcall 2 d1 c1 (OUpdateFrame frame_len) with
      | Some (d2, c2, e2, _) =>
          match rcall 3 d2 c2 ODisplay with
          | Some (d3, c3, e3, _) =>
              Some (d3, c3, e2 ++ e3, starts_with_reset ic)
          | None => None
          end
      | None => None
      end
  | None => None
  end.

(** field valuations a macro step issued in state [s] can be interrupted in *)
Fixpoint macro_fields (s : vstate) (m : list op) : list dstate :=
  match m with
  | [] => []
  | o :: r =>
      match d_exec D 0 o with
      | None => macro_fields s r
      | Some f =>
          match f (v_d s) with
          | (_, _, t) =>
              fields_of_trace (v_d s) t ++
              match fst (vop D PP isig lr0 lr1 cref 0 s o) with
              | Some s1 => macro_fields s1 r
              | None => []
              end
          end
      end
  end.

(** the fields after the whole macro step completed (the driver that never failed) *)
Definition macro_done (s : vstate) (m : list op) : option dstate :=
  match fst (vmacro D PP isig lr0 lr1 cref 0 s m) with Some s1 => Some (v_d s1) | None => None end.

Definition dpair_eqb (a b : dstate * dstate) : bool :=
  (if dstate_eq_dec (fst a) (fst b) then true else false) && (if dstate_eq_dec (snd a) (snd b) then true else false).
Definition dedup_pairs (l : list (dstate * dstate)) : list (dstate * dstate) :=
  fold_left (fun acc p => if existsb (dpair_eqb p) acc then acc else p :: acc) l [].

(** all (interrupted fields, never-failed fields) pairs over the closed set, for macro steps that
    change no setting (a failed setting change may or may not have taken effect: no unique reference) *)
Definition pairs (R : list vstate) : list (dstate * dstate) :=
  dedup_pairs (flat_map (fun s =>
    flat_map (fun m => match macro_done s m with
                       | Some d1 => map (fun d => (d, d1)) (macro_fields s m)
                       | None => []
                       end) alpha) R).

Definition effects_eqb (a b : list effect) : bool :=
  (* compare the image bursts and refreshes: command, geometry / area, payload *)
  let key e := match e with
               | EBurstSsd c _ g segs => Some (c, g_xs g, g_xe g, g_ys g, g_ye g, g_xc g, g_yc g, segslen segs, sm_uniform sym segs)
               | EBurstUc c _ ar segs => Some (c, a_x0 ar, a_x1 ar, a_y0 ar, a_y1 ar, 0, if a_partial ar then 1 else 0, segslen segs, sm_uniform sym segs)
               | ERefresh c _ on _ => Some (c, 0, 0, 0, 0, 0, if on then 1 else 0, 0, None)
               | _ => None
               end in
  let ks l := flat_map (fun e => match key e with Some k => [k] | None => [] end) l in
  let fix eqb x y := match x, y with
                     | [], [] => true
                     | (c1, a1, b1, c'1, d1, e1, f1, n1, u1) :: r, (c2, a2, b2, c'2, d2, e2, f2, n2, u2) :: s =>
                         (c1 =? c2) && (a1 =? a2) && (b1 =? b2) && (c'1 =? c'2) && (d1 =? d2) && (e1 =? e2) && (f1 =? f2) && (n1 =? n2) &&
                         (match u1, u2 with Some x, Some y => x =? y | None, None => true | _, _ => false end) && eqb r s
                     | _, _ => false
                     end in
  eqb (ks a) (ks b).

(** same memory-addressing registers and power state *)
Definition cstate_same (a b : cstate) : bool :=
  match reg_diff a b with [] => true | _ => false end && Bool.eqb (c_pending a) (c_pending b).

Definition pair_ok (p : dstate * dstate) : bool :=
  match suffix (fst p) (por (ps_cp PP)), suffix (snd p) (por (ps_cp PP)) with
  | Some (_, c1, e1, r1), Some (_, c2, e2, r2) => r1 && r2 && cstate_same c1 c2 && effects_eqb e1 e2
  | _, _ => false
  end.

Definition recover_ok (R : list vstate) : bool := forallb pair_ok (pairs R).

End Panel.

(** ** the reset at the start of wake_up forgets the controller state *)
Lemma crun_reset_forgets p c c' a b l : fst (crun p c (IReset a b :: l)) = fst (crun p c' (IReset a b :: l)).
Proof.
  cbn [crun]. destruct (cstep p c (IReset a b)) as [s1 e1] eqn:E1. destruct (cstep p c' (IReset a b)) as [s1' e1'] eqn:E1'.
  assert (s1 = por p) by (apply (f_equal fst) in E1; cbn [cstep] in E1; destruct (close p c); exact (eq_sym E1)).
  assert (s1' = por p) by (apply (f_equal fst) in E1'; cbn [cstep] in E1'; destruct (close p c'); exact (eq_sym E1')).
  subst. destruct (crun p (por p) l). reflexivity.
Qed.

Lemma crun_forgets p : forall ic c c', starts_with_reset ic = true -> fst (crun p c ic) = fst (crun p c' ic).
Proof.
  induction ic as [|i r IH]; intros c c' S; [discriminate|].
  destruct i as [ | | | |bl| |a b|u n]; try discriminate.
  - cbn [starts_with_reset] in S. cbn [crun].
    destruct (cstep p c (IWait bl)) as [s1 e1]. destruct (cstep p c' (IWait bl)) as [s1' e1'].
    specialize (IH s1 s1' S). destruct (crun p s1 r). destruct (crun p s1' r). exact IH.
  - apply crun_reset_forgets.
  - cbn [starts_with_reset] in S. cbn [crun].
    destruct (cstep p c (IDelay u n)) as [s1 e1]. destruct (cstep p c' (IDelay u n)) as [s1' e1'].
    specialize (IH s1 s1' S). destruct (crun p s1 r). destruct (crun p s1' r). exact IH.
Qed.

Lemma ccall_forgets p ic c c' : starts_with_reset ic = true -> fst (ccall p c ic) = fst (ccall p c' ic).
Proof.
  intros S. unfold ccall. pose proof (crun_forgets p ic c c' S) as H.
  destruct (crun p c ic) as [s1 e1]. destruct (crun p c' ic) as [s1' e1'].
  cbn [fst] in H. subst s1'. destruct (close p s1). reflexivity.
Qed.

(** If wake_up begins with a hardware reset (possibly after busy waits), the fields, controller state
    and image effects after the recovery suffix are the same from EVERY controller state the failed
    call may have left. *)
Theorem suffix_forgets D PP d c c' r r' :
  suffix D PP d c = Some r -> suffix D PP d c' = Some r' -> snd r = true ->
  fst (fst (fst r)) = fst (fst (fst r')) /\ snd (fst (fst r)) = snd (fst (fst r')) /\ snd (fst r) = snd (fst r').
Proof.
  unfold suffix, rcall. destruct (d_exec D 1 OWakeUp) as [m|]; [|discriminate].
  destruct (m d) as [[[v|] d1] t]; [|discriminate].
  destruct (starts_with_reset (calls t)) eqn:S.
  - pose proof (ccall_forgets (ps_cp PP) (calls t) c c' S) as F.
    destruct (ccall (ps_cp PP) c (calls t)) as [c1 es1]. destruct (ccall (ps_cp PP) c' (calls t)) as [c1' es1'].
    cbn [fst] in F. subst c1'.
    destruct (d_exec D 2 (OUpdateFrame (frame_len PP))) as [m2|]; [|discriminate].
    destruct (m2 d1) as [[[v2|] d2] t2]; [|discriminate].
    destruct (ccall (ps_cp PP) c1 (calls t2)) as [c2 e2].
    destruct (d_exec D 3 ODisplay) as [m3|]; [|discriminate].
    destruct (m3 d2) as [[[v3|] d3] t3]; [|discriminate].
    destruct (ccall (ps_cp PP) c2 (calls t3)) as [c3 e3].
    intros [= <-] [= <-] _. cbn [fst snd]. auto.
  - destruct (ccall (ps_cp PP) c (calls t)) as [c1 es1]. destruct (ccall (ps_cp PP) c' (calls t)) as [c1' es1'].
    destruct (d_exec D 2 (OUpdateFrame (frame_len PP))) as [m2|]; [|discriminate].
    destruct (m2 d1) as [[[v2|] d2] t2]; [|discriminate].
    destruct (ccall (ps_cp PP) c1 (calls t2)) as [c2 e2]. destruct (ccall (ps_cp PP) c1' (calls t2)) as [c2' e2'].
    destruct (d_exec D 3 ODisplay) as [m3|]; [|discriminate].
    destruct (m3 d2) as [[[v3|] d3] t3]; [|discriminate].
    destruct (ccall (ps_cp PP) c2 (calls t3)) as [c3 e3]. destruct (ccall (ps_cp PP) c2' (calls t3)) as [c3' e3'].
    intros [= <-] _ H. cbn [snd] in H. rewrite S in H. discriminate H.
Qed.

(** instantiation *)
Definition p_recover_ok (ft : feat) (P0 : pspec) (R : list vstate) : bool :=
  recover_ok (iD ft P0) (iPP ft P0) (iisig ft P0) (ilr ft P0 0) (ilr ft P0 1) (icref ft P0) (ialpha P0) R.
Definition p_pairs (ft : feat) (P0 : pspec) (R : list vstate) :=
  pairs (iD ft P0) (iPP ft P0) (iisig ft P0) (ilr ft P0 0) (ilr ft P0 1) (icref ft P0) (ialpha P0) R.

(** ** what [recover_ok] means *)
Section Meaning.
Variables (D : driver) (PP : pspec) (isig : list N) (lr0 lr1 : list (N * list N)) (cref : list N) (alpha : list (list op)).

Lemma dpair_eqb_eq a b : dpair_eqb a b = true -> a = b.
Proof.
  unfold dpair_eqb. destruct a as [a1 a2], b as [b1 b2]. cbn [fst snd].
  destruct (dstate_eq_dec a1 b1); [|discriminate]. destruct (dstate_eq_dec a2 b2); [|discriminate]. now subst.
Qed.

Lemma dedup_pairs_in l : forall p, In p l -> In p (dedup_pairs l).
Proof.
  unfold dedup_pairs.
  assert (G : forall l acc p, In p l \/ In p acc ->
            In p (fold_left (fun acc p => if existsb (dpair_eqb p) acc then acc else p :: acc) l acc)).
  { induction l0 as [|x r IH]; intros acc p [H|H]; cbn [fold_left]; try contradiction; [exact H| |].
    - destruct H as [->|H].
      + apply IH. right. destruct (existsb (dpair_eqb p) acc) eqn:E.
        * apply existsb_exists in E. destruct E as (q & Hq & Eq). apply dpair_eqb_eq in Eq. now subst.
        * now left.
      + apply IH. now left.
    - apply IH. right. destruct (existsb (dpair_eqb x) acc); [assumption|now right]. }
  intros p H. apply G. now left.
Qed.

(** For every state of the set, every macro step and every field valuation a call of that step can be
    interrupted in (the fields in force at any of its SPI-transferring transport calls): wake_up begins with
    a hardware reset, and the recovery suffix ends with the same addressing/power registers and the same
    image burst and refresh as on the driver on which the same macro step completed without a failure. *)
Theorem recover_ok_spec R : recover_ok D PP isig lr0 lr1 cref alpha R = true ->
  forall s m d d1, In s R -> In m alpha -> macro_done D PP isig lr0 lr1 cref s m = Some d1 ->
  In d (macro_fields D PP isig lr0 lr1 cref s m) -> pair_ok D PP (d, d1) = true.
Proof.
  intros OK s m d d1 Hs Hm Hdone Hd. unfold recover_ok in OK. rewrite forallb_forall in OK. apply OK.
  unfold pairs. apply dedup_pairs_in. apply in_flat_map. exists s. split; [assumption|].
  apply in_flat_map. exists m. split; [assumption|]. rewrite Hdone. apply in_map_iff. exists d. now split.
Qed.
End Meaning.

(** * Oracle: which checks apply to which API call, as one function shared by the theorems (on the
    model's transport calls) and by the run-time oracle (on calls reconstructed from real traces). *)
From Coq Require Import List NArith Bool.
From EPD Require Import Iface Ops Ctl.Ctl Spec.PSpec Spec.Checks Spec.Sys Spec.Hist Panels.
Import ListNotations.
Open Scope N_scope.

Definition op_eq_dec : forall a b : op, {a = b} + {a <> b}.
Proof. decide equality; try apply N.eq_dec; try apply optN_eq_dec. Defined.

(** observer state: controller + what the history selected *)
Record ostate := mkO {
  o_c : cstate;
  o_bg : N;                   (* background colour last set *)
  o_sel : option N;           (* refresh mode last selected *)
  o_ref : cstate;             (* controller right after construction *)
  o_dirty : bool;             (* a setting that init honours was changed since construction *)
  o_n : N;                    (* 0 right after construction, 1 once a call has been observed *)
  o_upd : bool                (* a full-frame image has been sent since construction / the last wake-up *)
}.

(** the byte a frame uniformly painted in colour [c] holds in the primary plane.  Seven-colour
    panels: the nibble pair; black/white: 0x00/0xFF; the chromatic colour of a three-colour type:
    no expectation (its black/white-plane bit depends on the buffer type's BWRBIT) *)
Definition colour_byte (P : pspec) (c : N) : option N :=
  match length (ps_colors P) with
  | 8%nat => Some (c * 16 + c)
  | _ => if c =? 1 then Some 255 else if c =? 0 then Some 0 else None
  end.
Definition enc_byte (g : bytefn) (v : N) : N := hd 0 (bapply g v).

Definition primary (P : pspec) : option target :=
  match ps_entries P with
  | en :: _ => match en_targets en with t :: _ => Some t | [] => None end
  | [] => None
  end.

(** the tables the model uploads when mode [r] is selected on a fresh driver (the reference) *)
Definition lut_ref (ft : feat) (P : pspec) (r : N) : list (N * list N) :=
  match sys_new ft P with
  | Some (s0, _, _) =>
      match sys_op ft P 1 s0 (OSetLut (Some r)) with
      | OpOk _ es _ => luts_of es
      | _ => []
      end
  | None => []
  end.
(** the planes EVERY clear_frame writes: the planes written by clear_frame on a freshly constructed
    controller under each valuation of the driver fields that select a mode (refresh mode, partial
    flag) - a driver may deliberately leave a plane alone in one mode (epd2in13_v2 keeps its base image in
    quick mode), so only planes written in all modes are demanded of every clear *)
Definition clear_planes (ft : feat) (P : pspec) (s0 : sys) (d : dstate) : option (list N) :=
  match sys_op ft P 1 (mkSys d (y_c s0)) OClear with
  | OpOk _ es _ => Some (flat_map (fun e => match written_cmd e with Some c => [c] | None => [] end) es)
  | _ => None
  end.
Definition clear_ref (ft : feat) (P : pspec) : list N :=
  match sys_new ft P with
  | Some (s0, _, _) =>
      let d0 := y_d s0 in
      let variants := [d0; set_refresh 1 d0; set_refresh 0 d0; set_partial true d0; set_partial true (set_refresh 1 d0)] in
      match clear_planes ft P s0 d0 with
      | Some base =>
          filter (fun c => forallb (fun d => match clear_planes ft P s0 d with
                                             | Some l => existsb (N.eqb c) l
                                             | None => true
                                             end) variants) base
      | None => []
      end
  | None => []
  end.

Definition luts_eqb (a b : list (N * list N)) : bool :=
  (fix go a b := match a, b with
                 | [], [] => true
                 | (c, x) :: r, (d, y) :: s =>
                     (c =? d) && (fix eqb (x y : list N) := match x, y with [], [] => true | p :: r, q :: s => (p =? q) && eqb r s | _, _ => false end) x y && go r s
                 | _, _ => false
                 end) a b.

Definition aligned_inside (P : pspec) (x y w h : N) : bool :=
  (x mod 8 =? 0) && (w mod 8 =? 0) && (0 <? w) && (0 <? h) && (x + w <=? cp_W (ps_cp P)) && (y + h <=? cp_H (ps_cp P)).

(** codes of the partial entry points *)
Definition partial_kind (o : op) : option (N * bool * N * N * N * N * N) :=   (* kind, has buffer, len, x y w h *)
  match o with
  | OUpdatePartial len x y w h => Some (1, true, len, x, y, w, h)
  | OUpdatePartialOld len x y w h => Some (2, true, len, x, y, w, h)
  | OUpdatePartialNew len x y w h => Some (3, true, len, x, y, w, h)
  | OClearPartial x y w h => Some (4, false, 0, x, y, w, h)
  | OUpdatePartial2 len x y w h => Some (5, true, len, x, y, w, h)
  | OUpdatePartialAchromatic len x y w h => Some (6, true, len, x, y, w, h)
  | OUpdatePartialChromatic len x y w h => Some (7, true, len, x, y, w, h)
  | _ => None
  end.

(** does the panel's alphabet contain this kind of partial entry point? *)
Definition has_partial (P : pspec) (kind : N) : bool :=
  existsb (fun m => existsb (fun o => match partial_kind o with Some (k, _, _, _, _, _, _) => k =? kind | None => false end) m)
          (ps_alpha P).

Definition tag (p : N) (l : list clause) : list (N * clause) := map (pair p) l.

(** Check one API call [o] (call index [k]) that made transport calls [ic], from observer state
    [os].  [lref r] = reference tables of mode r; [isig] = init signature.
    Returns the new observer state and the violated (property number, clause) pairs. *)
Definition observe (P : pspec) (sm : sem) (lref : N -> list (N * list N)) (isig : list N) (cref : list N)
           (k : N) (os : ostate) (o : op) (ic : list icall) : ostate * list (N * clause) :=
  let '(c1, es) := ccall (ps_cp P) (o_c os) ic in
  let full_prop := if o_n os =? 0 then 1 else 2 in     (* C01 on a fresh driver, C02 after a history *)
  let per_kind :=
    match find (fun en => if op_eq_dec (en_op en) o then true else false) (ps_entries P) with
    | Some en => tag full_prop (chk_c01 P sm k en es)
    | None =>
        match o with
        | ODisplay =>
            (* "a display call THEN triggers exactly one refresh": the count is claimed once an image
               has been sent since the last (re)initialisation; "sends no image data" always *)
            tag 1 (if o_upd os then chk_display es
                   else flat_map (fun e => match burst_cmd e with Some c => [ClOtherPlane c] | None => [] end) es)
        | OClear =>
            match primary P with
            | Some t => tag 7 (chk_c07 P sm (t_cmd t) (option_map (enc_byte (t_enc t)) (colour_byte P (o_bg os))) es ++
                               flat_map (fun c => if existsb (writes_plane c) es then [] else [ClNoBurst c]) cref)
            | None => []
            end
        | OSleep => tag 8 (chk_sleep P es)
        | OWakeUp =>
            tag 8 (chk_wake_reset ic) ++ tag 11 (chk_reset_first ic) ++
            (if o_dirty os then [] else tag 8 (reg_diff c1 (o_ref os))) ++
            (match lref 0 with
             | [] => []
             | _ => match luts_of es with
                    | [] => []       (* this driver's init uploads no tables: nothing to re-upload *)
                    | l => if luts_eqb l (lref (match o_sel os with Some r => r | None => 0 end)) then []
                           else [(17, ClLutTable (fst (hd (0, []) l)))]
                    end
             end)
        | OSetLut (Some r) =>
            (match lref r with
             | [] => []
             | t => if luts_eqb (luts_of es) t then [] else [(17, match luts_of es with [] => ClNoLut | (c, _) :: _ => ClLutTable c end)]
             end)
        | OSetLut None =>
            (match lref 0 with
             | [] => []
             | _ => let r := match o_sel os with Some r => r | None => 0 end in
                    if luts_eqb (luts_of es) (lref r) then []
                    else [(17, match luts_of es with [] => ClNoLut | (c, _) :: _ => ClLutTable c end)]
             end)
        | _ =>
            match partial_kind o with
            | Some (kind, hb, len, x, y, w, h) =>
                if has_partial P kind && aligned_inside P x y w h && (negb hb || (len =? w / 8 * h))
                then tag 6 (chk_c06 P sm k hb len x y w h es) else []
            | None => []
            end
        end
    end in
  let fails := per_kind ++ tag 5 (chk_c05 es) ++ tag 9 (chk_c09 isig es) ++ tag 18 (chk_c18 P es) ++
               tag 11 (chk_resets ic) ++ tag 12 (chk_c12 k ic) in
  let bg' := match o with OSetBg c => c | _ => o_bg os end in
  let sel' := sel_of (o_sel os) [o] in
  let dirty' := o_dirty os || match o with OSetLut (Some _) | OSetRefresh _ => true | _ => false end in
  let upd' := match o with
              | OWakeUp => false
              | OClear => true
              | _ => if existsb (fun en => if op_eq_dec (en_op en) o then true else false) (ps_entries P) then true else o_upd os
              end in
  (mkO c1 bg' sel' (o_ref os) dirty' 1 upd', fails).

(** the constructor: start of an observation *)
Definition observe_new (P : pspec) (isig : list N) (bg0 : N) (ic : list icall) : ostate * list (N * clause) :=
  let '(c1, es) := ccall (ps_cp P) (por (ps_cp P)) ic in
  (mkO c1 bg0 None c1 false 0 false,
   tag 5 (chk_c05 es) ++ tag 18 (chk_c18 P es) ++ tag 11 (chk_reset_first ic) ++ tag 11 (chk_resets ic)).

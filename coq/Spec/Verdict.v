(** * Verdict: the per-panel history verdict.

    The observer of Spec/Oracle.v (controller model + every per-call property check) is run on the
    MODEL's transport calls over the whole reachable set of (driver fields, observer state) under
    the panel's history alphabet.  The same observer is run, extracted, on the calls reconstructed
    from the implementation's real traces (ocaml/orc.ml); so a line of the run-time oracle and an
    entry of a verdict mean the same thing.

    A failure is a tuple of numbers (property, site, clause code, a, b): site = [op_code] of the API
    call whose traffic violates the clause. *)
From Coq Require Import List NArith Bool.
From EPD Require Import Iface Ops Ctl.Ctl Spec.PSpec Spec.Checks Spec.Sys Spec.Hist Spec.Oracle Reach Panels.
Import ListNotations.
Open Scope N_scope.

Definition fail := (N * N * N * N * N)%type.

Definition fail_eq_dec : forall a b : fail, {a = b} + {a <> b}.
Proof. repeat decide equality. Defined.

(** numeric code of a clause (constructor number, two arguments) — the names live in tools/codes.py *)
Definition clause_code (c : clause) : N * N * N :=
  match c with
  | ClPanic => (0, 0, 0)
  | ClNoBurst c => (1, c, 0)
  | ClManyBursts c => (2, c, 0)
  | ClGeometry c => (3, c, 0)
  | ClLength c g => (4, c, g)
  | ClPayload c => (5, c, 0)
  | ClOtherPlane c => (6, c, 0)
  | ClRefreshCount n => (7, n, 0)
  | ClFillValue c v => (8, c, v)
  | ClNotUniform c => (9, c, 0)
  | ClStray n => (10, n, 0)
  | ClUndefined c => (11, c, 0)
  | ClBlock c g => (12, c, g)
  | ClNonLiteral c => (13, c, 0)
  | ClTainted => (14, 0, 0)
  | ClRamWhileBusy c => (15, c, 0)
  | ClRefreshWhileBusy => (16, 0, 0)
  | ClWaitPolarity => (17, 0, 0)
  | ClRefreshUnpowered => (18, 0, 0)
  | ClRefreshUninit m => (19, m, 0)
  | ClRefreshAsleep => (20, 0, 0)
  | ClNoDeepSleep => (21, 0, 0)
  | ClSleepNotLast => (22, 0, 0)
  | ClNoReset => (23, 0, 0)
  | ClResetTiming => (24, 0, 0)
  | ClRegisters f => (25, f, 0)
  | ClGeomReg c => (26, c, 0)
  | ClRetained c => (27, c, 0)
  | ClWindow f => (28, f, 0)
  | ClLutTable c => (29, c, 0)
  | ClNoLut => (30, 0, 0)
  | ClNoResetPulse => (31, 0, 0)
  end.

(** numeric code of the API method (its arguments dropped) — names in tools/codes.py *)
Definition op_code (o : op) : N :=
  match o with
  | OSleep => 1 | OWakeUp => 2 | OSetBg _ => 3 | OGetBg => 4 | OWidth => 5 | OHeight => 6
  | OUpdateFrame _ => 7 | OUpdatePartial _ _ _ _ _ => 8 | ODisplay => 9 | OUpdateAndDisplay _ => 10
  | OClear => 11 | OSetLut _ => 12 | OWaitIdle => 13
  | OUpdateColor _ _ => 14 | OUpdateAchromatic _ => 15 | OUpdateChromatic _ => 16
  | OUpdateOld _ => 17 | OUpdateNew _ => 18 | ODisplayNew => 19 | OUpdateAndDisplayNew _ => 20
  | OUpdatePartialOld _ _ _ _ _ => 21 | OUpdatePartialNew _ _ _ _ _ => 22 | OClearPartial _ _ _ _ => 23
  | OSetPartialBase _ => 24 | OSetRefresh _ => 25 | OSetBorder _ => 26 | ODisplayPartial _ _ _ _ => 27
  | OUpdatePartialAchromatic _ _ _ _ _ => 28 | OUpdatePartialChromatic _ _ _ _ _ => 29
  | OUpdateAndDisplayBase _ _ => 30 | ODisplayFramePartial => 31 | OShiftDisplay _ _ _ _ => 32
  | OShow7Block => 33 | OUpdatePartial2 _ _ _ _ _ => 34
  end.
Definition new_code : N := 0.     (* site of the constructor *)

(** property a panic inside a protocol-respecting call is charged to *)
Definition prop_of_op (o : op) : N :=
  match o with
  | OSleep | OWakeUp => 8
  | OClear => 7
  | OSetLut _ | OSetRefresh _ => 17
  | OUpdatePartial _ _ _ _ _ | OUpdatePartialOld _ _ _ _ _ | OUpdatePartialNew _ _ _ _ _ | OClearPartial _ _ _ _
  | OUpdatePartial2 _ _ _ _ _ | OUpdatePartialAchromatic _ _ _ _ _ | OUpdatePartialChromatic _ _ _ _ _
  | ODisplayPartial _ _ _ _ => 6
  | _ => 2
  end.

Definition mkfail (p : N) (o : N) (c : clause) : fail :=
  let '(k, a, b) := clause_code c in (p, o, k, a, b).

Record vstate := mkV { v_d : dstate; v_o : ostate }.

Definition ostate_eq_dec : forall a b : ostate, {a = b} + {a <> b}.
Proof. decide equality; try apply N.eq_dec; try apply bool_dec; try apply optN_eq_dec; apply cstate_eq_dec. Defined.
Definition vstate_eq_dec : forall a b : vstate, {a = b} + {a <> b}.
Proof. decide equality; [apply ostate_eq_dec|apply dstate_eq_dec]. Defined.

Definition vkey (s : vstate) : N :=
  hkey (mkH (mkSys (v_d s) (o_c (v_o s))) (o_sel (v_o s))) + 89 * o_bg (v_o s) + (if o_dirty (v_o s) then 97 else 0) + 101 * o_n (v_o s).

(** The section variables are VALUES computed once per panel (under [vm_compute] an argument is
    evaluated before the call): the driver model, the specification with the tracked-command list
    filled in, the init signature, the reference waveform tables of both modes and the alphabet. *)
Section Panel.
Variables (D : driver) (PP : pspec) (isig : list N) (lr0 lr1 : list (N * list N)) (cref : list N) (alpha : list (list op)).

Definition lref (r : N) : list (N * list N) := if r =? 0 then lr0 else if r =? 1 then lr1 else [].

(** construction *)
Definition v_new : option vstate * list fail :=
  match d_new D (d_init D) with
  | (Some _, d1, t) =>
      let '(o1, fs) := observe_new PP isig (bg (d_init D)) (calls t) in
      (Some (mkV d1 o1), map (fun '(p, c) => mkfail p new_code c) fs)
  | (None, _, _) => (None, [mkfail 11 new_code ClPanic])
  end.

(** one API call with call index [k]: the successor state (None: the call panicked) and the
    failures the observer reports for it *)
Definition vop (k : N) (s : vstate) (o : op) : option vstate * list fail :=
  match d_exec D k o with
  | None => (Some s, [])
  | Some m =>
      match m (v_d s) with
      | (Some _, d1, t) =>
          let '(o1, fs) := observe PP sym lref isig cref k (v_o s) o (calls t) in
          (Some (mkV d1 o1), map (fun '(p, c) => mkfail p (op_code o) c) fs)
      | (None, _, [IPanic]) =>
          (* the call is REFUSED: it panics before touching the bus or the driver's fields
             (unimplemented!() bodies, documented argument / mode assertions): the step is not
             enabled in this state and nothing is charged *)
          (None, [])
      | (None, _, _) => (None, [mkfail (prop_of_op o) (op_code o) ClPanic])
      end
  end.

Fixpoint vmacro (k : N) (s : vstate) (m : list op) : option vstate * list fail :=
  match m with
  | [] => (Some s, [])
  | o :: r =>
      match vop k s o with
      | (Some s1, f1) => let '(s2, f2) := vmacro k s1 r in (s2, f1 ++ f2)
      | (None, f1) => (None, f1)
      end
  end.

(** history steps run with call index 0, probes with call index 1 (so that bytes of a buffer
    borrowed by an earlier call are distinguishable from the probe's own, C12) *)
Definition vstep (s : vstate) (m : list op) : option vstate := fst (vmacro 0 s m).

Definition vreach (fuel : nat) : list vstate :=
  match fst v_new with
  | Some s0 => explore0 vstate (list op) vstate_eq_dec vstep alpha vkey fuel s0
  | None => []
  end.

Definition vclosed (R : list vstate) : bool := closed vstate (list op) vstate_eq_dec vstep alpha vkey R.

Definition probe_fails (s : vstate) : list fail := flat_map (fun m => snd (vmacro 1 s m)) alpha.
Definition all_fails (R : list vstate) : list fail := snd v_new ++ flat_map probe_fails R.

Definition failb (a b : fail) : bool := if fail_eq_dec a b then true else false.
Definition inb (f : fail) (l : list fail) : bool := existsb (failb f) l.
Definition inclb (a b : list fail) : bool := forallb (fun f => inb f b) a.

Definition dedup (l : list fail) : list fail := fold_left (fun acc f => if inb f acc then acc else f :: acc) l [].

(** the verdict: [R] contains the initial state and is closed under the alphabet, every failure
    observed from any state of [R] is listed in [known], and every listed failure is observed
    (no stale entry) *)
Definition panel_ok (R : list vstate) (known : list fail) : bool :=
  match fst v_new with
  | Some s0 =>
      existsb (fun r => if vstate_eq_dec s0 r then true else false) R && vclosed R &&
      inclb (all_fails R) known && inclb known (all_fails R)
  | None => false
  end.

Definition vrun (s : vstate) (h : list (list op)) : vstate := run vstate (list op) vstep s h.

Lemma inb_In f l : inb f l = true -> In f l.
Proof.
  unfold inb. rewrite existsb_exists. intros (g & Hg & E). unfold failb in E.
  destruct (fail_eq_dec f g); [now subst|discriminate].
Qed.
Lemma In_inb f l : In f l -> inb f l = true.
Proof.
  intros H. unfold inb. rewrite existsb_exists. exists f. split; [assumption|].
  unfold failb. destruct (fail_eq_dec f f); [reflexivity|contradiction].
Qed.
Lemma inclb_incl a b : inclb a b = true -> forall f, In f a -> In f b.
Proof. unfold inclb. rewrite forallb_forall. intros H f Hf. apply inb_In. now apply H. Qed.

(** Soundness of the verdict: after EVERY history over the alphabet (any length), every call of
    every macro of the alphabet violates only listed clauses; construction likewise. *)
Theorem verdict_sound R known s0 : fst v_new = Some s0 -> panel_ok R known = true ->
  (forall f, In f (snd v_new) -> In f known) /\
  forall h, Forall (fun m => In m alpha) h ->
  forall m, In m alpha -> forall f, In f (snd (vmacro 1 (vrun s0 h) m)) -> In f known.
Proof.
  intros E0 OK. unfold panel_ok in OK. rewrite E0 in OK.
  apply andb_prop in OK as [OK Hk2]. apply andb_prop in OK as [OK Hk1]. apply andb_prop in OK as [Hin Hcl].
  assert (In0 : In s0 R).
  { rewrite existsb_exists in Hin. destruct Hin as (r & Hr & Er). destruct (vstate_eq_dec s0 r); [now subst|discriminate]. }
  pose proof (inclb_incl _ _ Hk1) as Hall. split.
  - intros f Hf. apply Hall. unfold all_fails. apply in_or_app. now left.
  - intros h Hh m Hm f Hf. apply Hall. unfold all_fails. apply in_or_app. right.
    apply in_flat_map. exists (vrun s0 h). split.
    + unfold vrun. eapply closed_reach; eassumption.
    + unfold probe_fails. apply in_flat_map. exists m. split; assumption.
Qed.

(** every listed failure really occurs: from some state of [R] (or at construction) *)
Theorem verdict_exact R known : panel_ok R known = true ->
  forall f, In f known -> In f (snd v_new) \/ exists s m, In s R /\ In m alpha /\ In f (snd (vmacro 1 s m)).
Proof.
  intros OK f Hf. unfold panel_ok in OK. destruct (fst v_new); [|discriminate].
  apply andb_prop in OK as [_ Hk2]. pose proof (inclb_incl _ _ Hk2 f Hf) as H.
  unfold all_fails in H. apply in_app_or in H as [H|H]; [now left|right].
  apply in_flat_map in H as (s & Hs & H). unfold probe_fails in H. apply in_flat_map in H as (m & Hm & H). eauto.
Qed.

End Panel.

(** ** Instantiation for a panel specification and a feature set *)
Section Inst.
Variables (ft : feat) (P0 : pspec).
Definition iD : driver := drv_of ft P0.
Definition iPP : pspec := Hist.P ft P0.
Definition iisig : list N := init_sig ft P0.
Definition ilr (r : N) := lut_ref ft iPP r.
Definition ialpha : list (list op) := ps_alpha P0.
Definition icref : list N := clear_ref ft iPP.
Definition p_new := v_new iD iPP iisig.
Definition p_reach (fuel : nat) := vreach iD iPP iisig (ilr 0) (ilr 1) icref ialpha fuel.
Definition p_closed (R : list vstate) := vclosed iD iPP iisig (ilr 0) (ilr 1) icref ialpha R.
Definition p_fails (R : list vstate) := all_fails iD iPP iisig (ilr 0) (ilr 1) icref ialpha R.
Definition p_distinct (R : list vstate) := dedup (all_fails iD iPP iisig (ilr 0) (ilr 1) icref ialpha R).
Definition p_ok (R : list vstate) (known : list fail) := panel_ok iD iPP iisig (ilr 0) (ilr 1) icref ialpha R known.
Definition p_macro (k : N) (s : vstate) (m : list op) := vmacro iD iPP iisig (ilr 0) (ilr 1) icref k s m.
Definition p_run (s : vstate) (h : list (list op)) := vrun iD iPP iisig (ilr 0) (ilr 1) icref s h.
End Inst.

(** * Checks: the properties as decidable checks on what ONE API call does to the controller.

    Every check is a function of the controller state before the call, the operation (for the
    expectation) and the transport calls the call made.  The same functions are used
      (i)  inside Coq, on the model's symbolic transport calls (theorems, all buffer contents), and
      (ii) extracted, on the calls reconstructed from the implementation's real traces (oracle).
    What differs is how data payloads are compared: [sem]. *)
From Coq Require Import List NArith Bool.
From EPD Require Import Iface Ops Ctl.Ctl Spec.PSpec.
Import ListNotations.
Open Scope N_scope.

(** payload comparison: symbolic (syntactic, valid for every buffer content) or concrete *)
Record sem := mkSem {
  sm_eq : list seg -> list seg -> bool;        (* same bytes *)
  sm_uniform : list seg -> option N            (* all bytes equal to one value: that value *)
}.

(** clauses a call can violate *)
Inductive clause :=
| ClPanic                         (* the call panicked *)
| ClNoBurst (c : N)               (* the documented plane was not written *)
| ClManyBursts (c : N)            (* ... or written by more than one data run *)
| ClGeometry (c : N)              (* data run not addressed from the panel origin over the full panel *)
| ClLength (c : N) (got : N)      (* data run does not have the plane's size *)
| ClPayload (c : N)               (* payload is not the caller's buffer under the panel's encoding *)
| ClOtherPlane (c : N)            (* another plane is written partially / non-uniformly / with other data *)
| ClRefreshCount (n : N)          (* wrong number of refresh triggers *)
| ClFillValue (c : N) (v : N)     (* uniform fill with a value that is not the background's *)
| ClNotUniform (c : N)
| ClStray (n : N)                 (* data bytes sent with no command frame open *)
| ClUndefined (c : N)             (* command byte the family does not define *)
| ClBlock (c : N) (got : N)       (* block-carrying command with an incomplete / overlong block *)
| ClNonLiteral (c : N)
| ClTainted
| ClRamWhileBusy (c : N)          (* image data while the refresh the driver started is signalled busy *)
| ClRefreshWhileBusy              (* another refresh trigger while busy *)
| ClWaitPolarity                  (* busy line read with the wrong polarity *)
| ClRefreshUnpowered              (* refresh trigger with the controller powered off *)
| ClRefreshUninit (missing : N)   (* refresh trigger although init command [missing] was not sent since the reset *)
| ClRefreshAsleep
| ClNoDeepSleep                   (* sleep did not end with a valid deep-sleep command *)
| ClSleepNotLast                  (* something was sent after the deep-sleep command *)
| ClNoReset                       (* wake-up does not start with a hardware reset *)
| ClNoResetPulse                  (* construction / wake-up contain no hardware reset at all *)
| ClResetTiming                   (* zero-length reset pulse or settle time *)
| ClRegisters (field : N)         (* controller registers after wake-up differ from construction *)
| ClGeomReg (c : N)               (* resolution / full-window / driver-output register does not describe W x H *)
| ClRetained (call : N)           (* transmits bytes of a buffer borrowed by an earlier call *)
| ClWindow (field : N)            (* programmed partial window differs from the requested one *)
| ClLutTable (c : N)              (* uploaded table is not the selected mode's table *)
| ClNoLut.

(** ** helpers on effects *)
Definition is_burst_for (c : N) (e : effect) : bool :=
  match e with EBurstSsd c' _ _ _ | EBurstUc c' _ _ _ => c' =? c | _ => false end.

Definition burst_cmd (e : effect) : option N :=
  match e with EBurstSsd c _ _ _ | EBurstUc c _ _ _ => Some c | _ => None end.
Definition burst_segs (e : effect) : list seg :=
  match e with EBurstSsd _ _ _ s | EBurstUc _ _ _ s => s | _ => [] end.

(** the geometry of a burst is "from the panel origin over the whole panel" *)
Definition full_geometry (P : pspec) (e : effect) : bool :=
  let cp := ps_cp P in
  match e with
  | EBurstSsd c _ g _ =>
      let R := rowbytes P c in
      if g_entry g =? 3 then
        (g_xs g =? 0) && (g_xe g =? R - 1) && (g_ys g =? 0) && (g_ye g =? cp_H cp - 1) &&
        (g_xc g =? 0) && (g_yc g =? 0)
      else if g_entry g =? 1 then
        (* 7.5in HD: Y-decrement scan as set up by its vendor-derived init.  The row map of this scan
           (a 688-row Y window for a 528-row panel) is UNVERIFIED, so nothing is required of the row
           the burst starts at; only the window the init programmed and the column start *)
        (g_xs g =? 0) && (g_xe g =? R - 1) && (g_ys g =? 687) && (g_ye g =? 0) && (g_xc g =? 0)
      else false
  | EBurstUc c _ a _ =>
      (* the full resolution, or a partial window that is exactly the whole panel *)
      (a_x0 a =? 0) && (a_x1 a =? cp_rowbytes cp - 1) && (a_y0 a =? 0) && (a_y1 a =? cp_H cp - 1)
  | _ => false
  end.

Definition plane_size (P : pspec) (c : N) : N := rowbytes P c * cp_H (ps_cp P).

Definition refreshes (es : list effect) : N :=
  N.of_nat (length (filter (fun e => match e with ERefresh _ _ _ _ => true | _ => false end) es)).

Definition expected_segs (k : N) (t : target) : list seg :=
  match t_enc t with
  | BId => [SData (DArg k (t_arg t) (t_off t) (t_len t))]
  | g => [SEach g (DArg k (t_arg t) (t_off t) (t_len t))]
  end.

(** ** C01 / C02: a full-frame entry point delivers the image *)
Definition chk_target (P : pspec) (sm : sem) (k : N) (es : list effect) (t : target) : list clause :=
  match filter (is_burst_for (t_cmd t)) es with
  | [] => [ClNoBurst (t_cmd t)]
  | [b] =>
      (if full_geometry P b then [] else [ClGeometry (t_cmd t)]) ++
      (if segslen (burst_segs b) =? plane_size P (t_cmd t) then [] else [ClLength (t_cmd t) (segslen (burst_segs b))]) ++
      (if sm_eq sm (burst_segs b) (expected_segs k t) then [] else [ClPayload (t_cmd t)])
  | _ => [ClManyBursts (t_cmd t)]
  end.

(** SSD16xx auto-write pattern parameter: bits 6:4 step height (8 << k rows), bits 2:0 step width (8 << k pixels),
    bit 7 the first step's value.  The plane is filled uniformly iff one step covers the whole panel. *)
Definition pattern_uniform (P : pspec) (v : N) : bool :=
  (cp_H (ps_cp P) <=? N.shiftl 8 ((v / 16) mod 8)) && (cp_W (ps_cp P) <=? N.shiftl 8 (v mod 8)).

(** any other plane written by the call: a complete uniform fill or a complete copy of a target image *)
Definition chk_other (P : pspec) (sm : sem) (k : N) (ts : list target) (b : effect) : list clause :=
  match b with
  | EPattern c pl g v =>
      (* SSD pattern fill: over the window it is issued under, which must be the full panel; uniform iff one
         pattern step covers the panel (step height 8 << v[6:4] rows, step width 8 << v[2:0] pixels) *)
      if (g_xs g =? 0) && (g_xe g =? cp_rowbytes (ps_cp P) - 1) && (g_ys g =? 0) && (g_ye g =? cp_H (ps_cp P) - 1) &&
         pattern_uniform P v
      then [] else [ClOtherPlane c]
  | _ =>
  match burst_cmd b with
  | None => []
  | Some c =>
      if existsb (fun t => t_cmd t =? c) ts then []
      else if full_geometry P b && (segslen (burst_segs b) =? plane_size P c) &&
              (match sm_uniform sm (burst_segs b) with
               | Some _ => true
               | None => existsb (fun t => sm_eq sm (burst_segs b) (expected_segs k t)) ts
               end)
           then [] else [ClOtherPlane c]
  end
  end.

Definition chk_c01 (P : pspec) (sm : sem) (k : N) (en : entry) (es : list effect) : list clause :=
  flat_map (chk_target P sm k es) (en_targets en) ++
  flat_map (chk_other P sm k (en_targets en)) es ++
  (if refreshes es =? en_refresh en then [] else [ClRefreshCount (refreshes es)]).

(** display_frame: exactly one refresh trigger, no image data *)
Definition chk_display (es : list effect) : list clause :=
  (if refreshes es =? 1 then [] else [ClRefreshCount (refreshes es)]) ++
  flat_map (fun e => match burst_cmd e with Some c => [ClOtherPlane c] | None => [] end) es.

(** ** C07: clear_frame *)
(** [fill c] = the byte a uniform frame of the current background produces in the plane written by
    command [c] (None: no expectation on the value, only uniformity) *)
Definition pattern_cmd (pl : plane) : N := match pl with P1 => 0x24 | P2 => 0x26 end.
Definition full_pattern (P : pspec) (g : geom) : bool :=
  (g_xs g =? 0) && (g_xe g =? cp_rowbytes (ps_cp P) - 1) && (g_ys g =? 0) && (g_ye g =? cp_H (ps_cp P) - 1).
(** plane commands written by the call: data runs, and SSD pattern fills (which write the plane the
    pattern command addresses, uniformly, over the current window) *)
Definition writes_plane (c : N) (e : effect) : bool :=
  match e with
  | EBurstSsd c' _ _ _ | EBurstUc c' _ _ _ => c' =? c
  | EPattern _ pl _ _ => pattern_cmd pl =? c
  | _ => false
  end.
Definition written_cmd (e : effect) : option N :=
  match e with
  | EBurstSsd c _ _ _ | EBurstUc c _ _ _ => Some c
  | EPattern _ pl _ _ => Some (pattern_cmd pl)
  | _ => None
  end.
Definition chk_c07 (P : pspec) (sm : sem) (primary : N) (fill : option N) (es : list effect) : list clause :=
  let bs := filter (fun e => match written_cmd e with Some _ => true | None => false end) es in
  (if existsb (writes_plane primary) bs then [] else [ClNoBurst primary]) ++
  flat_map (fun b =>
    match written_cmd b with
    | None => []
    | Some c =>
        (if Nat.eqb (length (filter (writes_plane c) bs)) 1 then [] else [ClManyBursts c]) ++
        match b with
        | EPattern _ _ g v =>
            (if full_pattern P g then [] else [ClGeometry c]) ++
            (if pattern_uniform P v then [] else [ClNotUniform c])
            (* the fill value of a pattern is a phase bit, not a byte: only uniformity is claimed *)
        | _ =>
            (if full_geometry P b then [] else [ClGeometry c]) ++
            (if segslen (burst_segs b) =? plane_size P c then [] else [ClLength c (segslen (burst_segs b))]) ++
            (match sm_uniform sm (burst_segs b) with
             | None => [ClNotUniform c]
             | Some v => if c =? primary then
                           match fill with Some f => if v =? f then [] else [ClFillValue c v] | None => [] end
                         else []
             end)
        end
    end) bs.

(** ** C18: protocol conformance of everything a call sends *)
Definition geom_reg_ok (P : pspec) (c : N) (par : list N) : bool :=
  let cp := ps_cp P in
  let b := nth0 par in
  match cp_fam cp with
  | Uc =>
      if c =? 0x61 then
        if cp_res_len cp =? 4 then (be16 (b 0%nat) (b 1%nat) =? cp_W cp) && (be16 (b 2%nat) (b 3%nat) =? cp_H cp)
        else if cp_res_len cp =? 3 then (b 0%nat =? cp_W cp) && (be16 (b 1%nat) (b 2%nat) =? cp_H cp)
        else (* 1in02: two one-byte fields; order unverified: accept either *)
          ((b 0%nat =? cp_W cp) && (b 1%nat =? cp_H cp)) || ((b 0%nat =? cp_H cp) && (b 1%nat =? cp_W cp))
      else true
  | Ssd =>
      if (c =? 0x01) && negb (cp_x16 cp) then le16 (b 0%nat) (b 1%nat mod 2) + 1 =? cp_H cp     (* MUX = gate lines - 1; the 16-bit-X chips (3.7in, 7.5in HD) scan more gates than the panel has rows in their vendor sequences: unverified, not checked *)
      else true
  end.

Definition chk_c18 (P : pspec) (es : list effect) : list clause :=
  flat_map (fun e =>
    match e with
    | EUndefined c => [ClUndefined c]
    | EBlock c n => [ClBlock c n]
    | ENonLiteral c => [ClNonLiteral c]
    | EReg c par => if geom_reg_ok P c par then [] else [ClGeomReg c]
    | _ => []
    end) es.

(** ** C05 (a, b): no image traffic / refresh while the driver's own refresh is busy; polarity *)
Definition chk_c05 (es : list effect) : list clause :=
  flat_map (fun e =>
    match e with
    | ERamWhileBusy c => [ClRamWhileBusy c]
    | ERefresh _ _ _ true => [ClRefreshWhileBusy]
    | EWaitPolarity _ => [ClWaitPolarity]
    | _ => []
    end) es.

(** ** C09: refresh reaches an initialised, powered controller *)
Definition chk_c09 (init_sig : list N) (es : list effect) : list clause :=
  flat_map (fun e =>
    match e with
    | ERefresh _ seen powered _ =>
        (if powered then [] else [ClRefreshUnpowered]) ++
        (match filter (fun c => negb (mem c seen)) init_sig with
         | [] => []
         | m :: _ => [ClRefreshUninit m]
         end)
    | EIgnored c => []
    | _ => []
    end) es.

(** ** C08 *)
Definition chk_sleep (P : pspec) (es : list effect) : list clause :=
  match rev es with
  | EDeepSleep true :: _ => []
  | _ => if existsb (fun e => match e with EDeepSleep true => true | _ => false end) es
         then [ClSleepNotLast] else [ClNoDeepSleep]
  end.

Definition has_reset (ic : list icall) : bool := existsb (fun i => match i with IReset _ _ => true | _ => false end) ic.
Definition chk_wake_reset (ic : list icall) : list clause :=
  match ic with
  | IReset a b :: _ => if (0 <? a) && (0 <? b) then [] else [ClResetTiming]
  | _ => if has_reset ic then [ClNoReset] else [ClNoResetPulse]
  end.

(** registers that define geometry, power and data path (waveforms excluded) *)
Definition reg_diff (a b : cstate) : list clause :=
  (if c_entry a =? c_entry b then [] else [ClRegisters 1]) ++
  (if (c_xs a =? c_xs b) && (c_xe a =? c_xe b) then [] else [ClRegisters 2]) ++
  (if (c_ys a =? c_ys b) && (c_ye a =? c_ye b) then [] else [ClRegisters 3]) ++
  (if (c_xc a =? c_xc b) && (c_yc a =? c_yc b) then [] else [ClRegisters 4]) ++
  (if Bool.eqb (c_partial a) (c_partial b) then [] else [ClRegisters 5]) ++
  (if (c_resw a =? c_resw b) && (c_resh a =? c_resh b) then [] else [ClRegisters 6]) ++
  (if Bool.eqb (c_on a) (c_on b) then [] else [ClRegisters 7]) ++
  (if Bool.eqb (c_deep a) (c_deep b) then [] else [ClRegisters 8]) ++
  (if (fix eqb (x y : list N) := match x, y with [] , [] => true | p :: r, q :: s => (p =? q) && eqb r s | _, _ => false end) (c_seen a) (c_seen b)
   then [] else [ClRegisters 9]).

(** ** C12 *)
Fixpoint dexp_calls (e : dexp) : list N := match e with DArg c _ _ _ => [c] | _ => [] end.
Definition icall_calls (i : icall) : list N :=
  match i with IData e | IDataEach _ _ e => dexp_calls e | _ => [] end.
Definition chk_c12 (k : N) (ic : list icall) : list clause :=
  flat_map (fun i => flat_map (fun c => if c =? k then [] else [ClRetained c]) (icall_calls i)) ic.

(** ** generic *)
Definition chk_stray (es : list effect) : list clause :=
  flat_map (fun e => match e with EStray _ n => [ClStray n] | _ => [] end) es.

(** ** C06: a partial update programs exactly the requested window and fills it once *)
Definition window_geometry (P : pspec) (x y w h : N) (e : effect) : list clause :=
  let x0 := x / 8 in let x1 := (x + w) / 8 - 1 in let y0 := y in let y1 := y + h - 1 in
  match e with
  | EBurstSsd c _ g _ =>
      (if g_entry g =? 3 then [] else [ClWindow 0]) ++
      (if g_xs g =? x0 then [] else [ClWindow 1]) ++ (if g_xe g =? x1 then [] else [ClWindow 2]) ++
      (if g_ys g =? y0 then [] else [ClWindow 3]) ++ (if g_ye g =? y1 then [] else [ClWindow 4]) ++
      (if g_xc g =? x0 then [] else [ClWindow 5]) ++ (if g_yc g =? y0 then [] else [ClWindow 6])
  | EBurstUc c _ a _ =>
      (if a_partial a then [] else [ClWindow 0]) ++
      (if a_x0 a =? x0 then [] else [ClWindow 1]) ++ (if a_x1 a =? x1 then [] else [ClWindow 2]) ++
      (if a_y0 a =? y0 then [] else [ClWindow 3]) ++ (if a_y1 a =? y1 then [] else [ClWindow 4])
  | _ => []
  end.

Definition chk_c06 (P : pspec) (sm : sem) (k : N) (has_buf : bool) (len x y w h : N) (es : list effect) : list clause :=
  let bs := filter (fun e => match burst_cmd e with Some _ => true | None => false end) es in
  (match bs with [] => [ClNoBurst 0] | _ => [] end) ++
  flat_map (fun b =>
    match burst_cmd b with
    | None => []
    | Some c =>
        window_geometry P x y w h b ++
        (let want := (w / 8) * h * (rowbytes P c / cp_rowbytes (ps_cp P)) in
         if segslen (burst_segs b) =? want then [] else [ClLength c (segslen (burst_segs b))])
    end) bs ++
  (if has_buf then
     if existsb (fun b => existsb (fun g => sm_eq sm (burst_segs b)
                                              (expected_segs k (mkTarget 0 0 g 0 len))) [BId; BNot; BExp2; BExp4]) bs
     then [] else [ClPayload 0]
   else flat_map (fun b => match sm_uniform sm (burst_segs b) with
                           | Some _ => []
                           | None => match burst_cmd b with Some c => [ClNotUniform c] | None => [] end
                           end) bs) ++
  chk_stray es ++
  flat_map (fun e => match e with EPattern c _ _ _ => [ClOtherPlane c] | _ => [] end) es.

(** ** C11: construction / wake-up send no SPI byte before their hardware reset (busy polls and delays may
    precede it; a status-command wait is SPI traffic) *)
Fixpoint chk_reset_first (ic : list icall) : list clause :=
  match ic with
  | IReset _ _ :: _ => []
  | IWait _ :: r | IDelay _ _ :: r => chk_reset_first r
  | [] => [ClNoResetPulse]
  | _ => [ClNoReset]
  end.

(** ** C11: every hardware reset of a call has a non-zero low time and a non-zero preceding high time *)
Definition chk_resets (ic : list icall) : list clause :=
  flat_map (fun i => match i with IReset a b => if (0 <? a) && (0 <? b) then [] else [ClResetTiming] | _ => [] end) ic.

(** ** C17: the waveform tables a call uploads *)
Definition luts_of (es : list effect) : list (N * list N) :=
  flat_map (fun e => match e with ELut c bytes => [(c, bytes)] | _ => [] end) es.

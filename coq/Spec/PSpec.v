(** * PSpec: the shape of a per-panel specification record *)
From Coq Require Import List NArith Bool.
From EPD Require Import Iface Ops Ctl.Ctl Panels.
Import ListNotations.
Open Scope N_scope.

(** a slice of caller buffer [t_arg] that a full-frame entry point is documented to deliver, under
    encoding [t_enc], into the plane written by command [t_cmd] *)
Record target := mkTarget { t_arg : N; t_cmd : N; t_enc : bytefn; t_off : N; t_len : N }.
Record entry := mkEntry { en_op : op; en_targets : list target; en_refresh : N }.

Record pspec := mkPS {
  ps_panel : panel;
  ps_cp : cparams;
  ps_frame : N;                     (* length of the panel's own frame buffer (one plane) *)
  ps_rows : list (N * N);           (* RAM command -> bytes per row on the wire *)
  ps_colors : list N;               (* colour codes of the panel's colour type *)
  ps_entries : list entry;          (* documented full-frame entry points *)
  ps_alpha : list (list op)         (* macro steps of the history alphabet (protocol-respecting) *)
}.

Definition rowbytes (P : pspec) (c : N) : N :=
  match find (fun e => fst e =? c) (ps_rows P) with Some (_, r) => r | None => 0 end.

(** * Hist: histories.  The reachable set of (driver fields, controller state, last selected mode)
    under a panel's macro alphabet, and the per-state / per-transition checks evaluated on it. *)
From Coq Require Import List NArith Bool.
From EPD Require Import Iface Ops Ctl.Ctl Spec.PSpec Spec.Checks Spec.Sys Reach Panels.
Import ListNotations.
Open Scope N_scope.

(** ghost: the refresh mode last selected through set_lut(Some _) / set_refresh *)
Record hsys := mkH { h_s : sys; h_sel : option N }.

Definition dexp_eq_dec : forall a b : dexp, {a = b} + {a <> b}.
Proof. decide equality; try apply N.eq_dec; try apply (list_eq_dec N.eq_dec). Defined.
Definition bytefn_eq_dec : forall a b : bytefn, {a = b} + {a <> b}.
Proof. decide equality. Defined.
Definition seg_eq_dec : forall a b : seg, {a = b} + {a <> b}.
Proof. decide equality; try apply N.eq_dec; try apply dexp_eq_dec; try apply bytefn_eq_dec. Defined.
Definition geom_eq_dec : forall a b : geom, {a = b} + {a <> b}.
Proof. decide equality; apply N.eq_dec. Defined.
Definition optN_eq_dec : forall a b : option N, {a = b} + {a <> b}.
Proof. decide equality; apply N.eq_dec. Defined.
Definition cstate_eq_dec : forall a b : cstate, {a = b} + {a <> b}.
Proof.
  decide equality; try apply N.eq_dec; try apply bool_dec; try apply geom_eq_dec; try apply optN_eq_dec;
    try apply (list_eq_dec N.eq_dec); try apply (list_eq_dec seg_eq_dec).
Defined.
Definition dstate_eq_dec : forall a b : dstate, {a = b} + {a <> b}.
Proof.
  decide equality; try apply N.eq_dec; try apply bool_dec.
  decide equality. decide equality; try apply N.eq_dec. decide equality; apply N.eq_dec.
Defined.
Definition sys_eq_dec : forall a b : sys, {a = b} + {a <> b}.
Proof. decide equality; [apply cstate_eq_dec|apply dstate_eq_dec]. Defined.
Definition hsys_eq_dec : forall a b : hsys, {a = b} + {a <> b}.
Proof. decide equality; [apply optN_eq_dec|apply sys_eq_dec]. Defined.

Definition sel_of (sel : option N) (m : list op) : option N :=
  fold_left (fun acc o => match o with
                          | OSetLut (Some r) => Some r
                          | OSetRefresh r => Some r
                          | _ => acc
                          end) m sel.

(** a cheap fingerprint of a state (speeds up membership tests; no logical role) *)
Definition hkey (s : hsys) : N :=
  let c := y_c (h_s s) in let d := y_d (h_s s) in
  ((c_xs c + 3 * c_xe c + 7 * c_ys c + 11 * c_ye c + 13 * c_xc c + 17 * c_yc c + 19 * c_upd2 c +
             23 * c_px0 c + 29 * c_px1 c + 31 * c_py0 c + 37 * c_py1 c + 41 * bg d + 43 * refresh d +
             47 * N.of_nat (length (c_seen c)) + match c_last c with Some x => 53 * x | None => 0 end +
             (if c_on c then 59 else 0) + (if c_partial c then 61 else 0) + (if c_pending c then 67 else 0) +
             (if c_deep c then 71 else 0) + (if is_on d then 73 else 0) + (if is_partial d then 79 else 0) +
             match h_sel s with Some x => 83 * (x + 1) | None => 0 end)).

Section Panel.
Variables (ft : feat) (P0 : pspec).

(** the init signature for C09: configuration commands that [new] sends (RAM / refresh excluded) *)
Definition init_sig : list N :=
  match sys_new ft P0 with
  | Some (s0, _, _) => filter (fun c => negb (mem c (cp_refresh (ps_cp P0)))) (c_seen (y_c s0))
  | None => []
  end.
(** from here on the controller records only the init-signature commands in [c_seen] *)
Definition P : pspec :=
  mkPS (ps_panel P0) (with_track (ps_cp P0) (Some init_sig)) (ps_frame P0) (ps_rows P0) (ps_colors P0)
       (ps_entries P0) (ps_alpha P0).

Definition hstep (s : hsys) (m : list op) : option hsys :=
  match sys_macro ft P (h_s s) m with
  | Some (s1, _) => Some (mkH s1 (sel_of (h_sel s) m))
  | None => None
  end.

Definition h0 : option hsys :=
  match sys_new ft P with Some (s0, _, _) => Some (mkH s0 None) | None => None end.

Definition reach_set (fuel : nat) : list hsys :=
  match h0 with
  | Some s0 => explore0 hsys (list op) hsys_eq_dec hstep (ps_alpha P) hkey fuel s0
  | None => []
  end.

Definition reach_closed (R : list hsys) : bool := closed hsys (list op) hsys_eq_dec hstep (ps_alpha P) hkey R.

(** ** checks on every transition (state, macro) *)
Definition trans_clauses (chk : list effect -> list clause) (R : list hsys) : list (N * N * list clause) :=
  flat_map (fun '(i, s) =>
    flat_map (fun '(j, m) =>
      match sys_macro ft P (h_s s) m with
      | Some (_, es) => match chk es with [] => [] | cl => [(i, j, cl)] end
      | None => []
      end) (combine (map N.of_nat (seq 0 (length (ps_alpha P)))) (ps_alpha P)))
    (combine (map N.of_nat (seq 0 (length R))) R).

Definition c05_report R := trans_clauses chk_c05 R.
Definition c09_report R := trans_clauses (chk_c09 init_sig) R.
Definition c18_report R := trans_clauses (fun es => chk_c18 P es ++ chk_stray es) R.

(** ** probes from every reachable state *)
Definition probe_clauses (probe : hsys -> list (N * list clause)) (R : list hsys) : list (N * N * list clause) :=
  flat_map (fun '(i, s) => flat_map (fun '(j, cl) => match cl with [] => [] | _ => [(i, j, cl)] end) (probe s))
           (combine (map N.of_nat (seq 0 (length R))) R).

(** C02: every documented entry point, as a probe with call index 1 *)
Definition c02_probe (s : hsys) : list (N * list clause) :=
  map (fun '(i, en) =>
         (i, match sys_op ft P 1 (h_s s) (en_op en) with
             | OpOk _ es _ => chk_c01 P sym 1 en es
             | _ => [ClPanic]
             end))
      (combine (map N.of_nat (seq 0 (length (ps_entries P)))) (ps_entries P)).
Definition c02_report R := probe_clauses c02_probe R.

(** display_frame probe: exactly one refresh, no data *)
Definition disp_probe (s : hsys) : list (N * list clause) :=
  [(0, match sys_op ft P 1 (h_s s) ODisplay with OpOk _ es _ => chk_display es | _ => [ClPanic] end)].

(** C12: every macro as a probe with call index 1 (history ran with call index 0) *)
Definition c12_probe (s : hsys) : list (N * list clause) :=
  map (fun '(j, m) =>
         (j, match m with
             | o :: _ => match sys_op ft P 1 (h_s s) o with OpOk _ _ ic => chk_c12 1 ic | _ => [] end
             | [] => []
             end))
      (combine (map N.of_nat (seq 0 (length (ps_alpha P)))) (ps_alpha P)).
Definition c12_report R := probe_clauses c12_probe R.

End Panel.

(** Per-panel SPECIFICATION records (tools/gen_specs.py; reviewed by hand).  Trusted: see DESIGN.md 9. *)
From Coq Require Import List NArith Bool.
From EPD Require Import Iface Ops Ctl.Ctl Spec.PSpec Panels.
Import ListNotations.
Open Scope N_scope.

Definition spec_1in02 : pspec :=
  mkPS P1in02
    (mkCP Uc 80 128 10 false 0 0 [(16, P1); (19, P2)] [18] true true [2; 4; 18] true 2 5
      [0; 1; 2; 3; 4; 6; 7; 16; 17; 18; 19; 32; 33; 34; 35; 36; 37; 42; 48; 64; 65; 80; 81; 96; 97; 101; 112; 113; 114; 128; 129; 130; 144; 145; 146; 160; 161; 162; 165; 224; 227; 229]
      [(97, [2]); (144, [5]); (7, [1])] None false)
    1280 [(16, 10); (19, 10)] [0; 1]
    [mkEntry (OUpdateFrame 1280) [mkTarget 0 19 BId 0 1280] 0;
     mkEntry (OUpdateAndDisplay 1280) [mkTarget 0 19 BId 0 1280] 1;
     mkEntry (OUpdateOld 1280) [mkTarget 0 16 BId 0 1280] 0;
     mkEntry (OUpdateNew 1280) [mkTarget 0 19 BId 0 1280] 0]
    [[OSetBg 0];
     [OSetBg 1];
     [OSetLut None];
     [OSetLut (Some 0)];
     [OSetLut (Some 1)];
     [OUpdateFrame 1280];
     [ODisplay];
     [OUpdateAndDisplay 1280];
     [OClear];
     [OWaitIdle];
     [OSleep; OWakeUp];
     [OWakeUp];
     [OUpdateOld 1280; OUpdateNew 1280];
     [OUpdatePartialOld 16 8 4 64 2; OUpdatePartialNew 16 8 4 64 2];
     [OClearPartial 8 4 64 2];
     [OUpdatePartialOld 1 72 127 8 1; OUpdatePartialNew 1 72 127 8 1];
     [OClearPartial 72 127 8 1]].

Definition spec_1in54 : pspec :=
  mkPS P1in54
    (mkCP Ssd 200 200 25 false 29 319 [(36, P1); (38, P2)] [32] false false [18; 32; 70; 71] false 4 9
      [1; 3; 4; 12; 15; 16; 17; 18; 24; 26; 27; 32; 33; 34; 36; 38; 44; 50; 55; 58; 59; 60; 63; 68; 69; 70; 71; 78; 79; 127; 255]
      [(1, [3]); (16, [1]); (17, [1]); (33, [1; 2]); (34, [1]); (68, [2]); (69, [4]); (78, [1]); (79, [2])] None false)
    5000 [(36, 25); (38, 25)] [0; 1]
    [mkEntry (OUpdateFrame 5000) [mkTarget 0 36 BId 0 5000] 0;
     mkEntry (OUpdateAndDisplay 5000) [mkTarget 0 36 BId 0 5000] 1]
    [[OSetBg 0];
     [OSetBg 1];
     [OSetLut None];
     [OSetLut (Some 0)];
     [OSetLut (Some 1)];
     [OUpdateFrame 5000];
     [ODisplay];
     [OUpdateAndDisplay 5000];
     [OClear];
     [OWaitIdle];
     [OSleep; OWakeUp];
     [OWakeUp];
     [OUpdatePartial 16 8 4 64 2];
     [OUpdatePartial 1 0 0 8 1];
     [OUpdatePartial 1 192 199 8 1];
     [OUpdatePartial 3 16 197 8 3]].

Definition spec_1in54_v2 : pspec :=
  mkPS P1in54_v2
    (mkCP Ssd 200 200 25 false 24 199 [(36, P1); (38, P2)] [32] false false [18; 32; 70; 71] false 4 9
      [1; 3; 4; 12; 15; 16; 17; 18; 24; 26; 27; 32; 33; 34; 36; 38; 44; 50; 55; 58; 59; 60; 63; 68; 69; 70; 71; 78; 79; 127; 255]
      [(1, [3]); (16, [1]); (17, [1]); (33, [1; 2]); (34, [1]); (68, [2]); (69, [4]); (78, [1]); (79, [2])] None false)
    5000 [(36, 25); (38, 25)] [0; 1]
    [mkEntry (OUpdateFrame 5000) [mkTarget 0 36 BId 0 5000] 0;
     mkEntry (OUpdateAndDisplay 5000) [mkTarget 0 36 BId 0 5000] 1]
    [[OSetBg 0];
     [OSetBg 1];
     [OSetLut None];
     [OSetLut (Some 0)];
     [OSetLut (Some 1)];
     [OUpdateFrame 5000];
     [ODisplay];
     [OUpdateAndDisplay 5000];
     [OClear];
     [OWaitIdle];
     [OSleep; OWakeUp];
     [OWakeUp];
     [OUpdatePartial 16 8 4 64 2];
     [OUpdatePartial 1 0 0 8 1];
     [OUpdatePartial 1 192 199 8 1];
     [OUpdatePartial 3 16 197 8 3]].

Definition spec_1in54b : pspec :=
  mkPS P1in54b
    (mkCP Uc 200 200 25 false 0 0 [(16, P1); (19, P2)] [18] true true [2; 4; 18] true 3 9
      [0; 1; 2; 3; 4; 6; 7; 16; 17; 18; 19; 32; 33; 34; 35; 36; 37; 38; 39; 48; 64; 65; 80; 96; 97; 101; 113; 130; 144; 145; 146; 224; 227; 229]
      [(97, [3]); (144, [9]); (7, [1])] None false)
    5000 [(16, 50); (19, 25)] [0; 1]
    [mkEntry (OUpdateFrame 5000) [mkTarget 0 16 BExp2 0 5000] 0;
     mkEntry (OUpdateAndDisplay 5000) [mkTarget 0 16 BExp2 0 5000] 1;
     mkEntry (OUpdateColor 5000 5000) [mkTarget 0 16 BExp2 0 5000; mkTarget 1 19 BId 0 5000] 0;
     mkEntry (OUpdateAchromatic 5000) [mkTarget 0 16 BExp2 0 5000] 0;
     mkEntry (OUpdateChromatic 5000) [mkTarget 0 19 BId 0 5000] 0]
    [[OSetBg 0];
     [OSetBg 1];
     [OSetLut None];
     [OSetLut (Some 0)];
     [OSetLut (Some 1)];
     [OUpdateFrame 5000];
     [ODisplay];
     [OUpdateAndDisplay 5000];
     [OClear];
     [OWaitIdle];
     [OSleep; OWakeUp];
     [OWakeUp];
     [OUpdateColor 5000 5000];
     [OUpdateAchromatic 5000; OUpdateChromatic 5000]].

Definition spec_1in54c : pspec :=
  mkPS P1in54c
    (mkCP Uc 152 152 19 false 0 0 [(16, P1); (19, P2)] [18] true true [2; 4; 18] true 3 9
      [0; 1; 2; 3; 4; 6; 7; 16; 17; 18; 19; 32; 33; 34; 35; 36; 37; 48; 64; 65; 80; 96; 97; 101; 113; 130; 144; 145; 146; 224; 227; 229]
      [(97, [3]); (144, [9]); (7, [1])] None false)
    2888 [(16, 19); (19, 19)] [0; 1]
    [mkEntry (OUpdateFrame 2888) [mkTarget 0 16 BId 0 2888] 0;
     mkEntry (OUpdateAndDisplay 2888) [mkTarget 0 16 BId 0 2888] 1;
     mkEntry (OUpdateColor 2888 2888) [mkTarget 0 16 BId 0 2888; mkTarget 1 19 BId 0 2888] 0;
     mkEntry (OUpdateAchromatic 2888) [mkTarget 0 16 BId 0 2888] 0;
     mkEntry (OUpdateChromatic 2888) [mkTarget 0 19 BId 0 2888] 0]
    [[OSetBg 0];
     [OSetBg 1];
     [OSetLut None];
     [OSetLut (Some 0)];
     [OSetLut (Some 1)];
     [OUpdateFrame 2888];
     [ODisplay];
     [OUpdateAndDisplay 2888];
     [OClear];
     [OWaitIdle];
     [OSleep; OWakeUp];
     [OWakeUp];
     [OUpdateColor 2888 2888];
     [OUpdateAchromatic 2888; OUpdateChromatic 2888]].

Definition spec_2in13_v2 : pspec :=
  mkPS P2in13_v2
    (mkCP Ssd 122 250 16 false 19 295 [(36, P1); (38, P2)] [32] false false [18; 32; 70; 71] false 4 9
      [0; 1; 3; 4; 12; 15; 16; 17; 18; 20; 21; 24; 26; 27; 28; 32; 33; 34; 36; 38; 39; 40; 41; 42; 44; 45; 47; 48; 49; 50; 54; 55; 58; 59; 60; 63; 65; 68; 69; 70; 71; 78; 79; 116; 126; 127; 255]
      [(1, [3]); (16, [1]); (17, [1]); (33, [1; 2]); (34, [1]); (68, [2]); (69, [4]); (78, [1]); (79, [2])] None false)
    4000 [(36, 16); (38, 16)] [0; 1]
    [mkEntry (OUpdateFrame 4000) [mkTarget 0 36 BId 0 4000] 0;
     mkEntry (OUpdateAndDisplay 4000) [mkTarget 0 36 BId 0 4000] 1;
     mkEntry (OSetPartialBase 4000) [mkTarget 0 38 BId 0 4000] 0]
    [[OSetBg 0];
     [OSetBg 1];
     [OSetLut None];
     [OSetLut (Some 0)];
     [OSetLut (Some 1)];
     [OUpdateFrame 4000];
     [ODisplay];
     [OUpdateAndDisplay 4000];
     [OClear];
     [OWaitIdle];
     [OSleep; OWakeUp];
     [OWakeUp];
     [OUpdatePartial 16 8 4 64 2];
     [OUpdatePartial 1 0 0 8 1];
     [OUpdatePartial 1 112 249 8 1];
     [OUpdatePartial 3 16 247 8 3];
     [OSetPartialBase 4000];
     [OSetRefresh 1];
     [OSetRefresh 0]].

Definition spec_2in13b_v4 : pspec :=
  mkPS P2in13b_v4
    (mkCP Ssd 122 250 16 false 21 295 [(36, P1); (38, P2)] [32] false false [18; 32; 70; 71] false 4 9
      [0; 1; 3; 4; 12; 15; 16; 17; 18; 24; 26; 27; 32; 33; 34; 36; 38; 44; 47; 50; 55; 58; 59; 60; 63; 68; 69; 70; 71; 78; 79; 127; 255]
      [(1, [3]); (16, [1]); (17, [1]); (33, [1; 2]); (34, [1]); (68, [2]); (69, [4]); (78, [1]); (79, [2])] None false)
    4000 [(36, 16); (38, 16)] [0; 1; 2]
    [mkEntry (OUpdateFrame 4000) [mkTarget 0 36 BId 0 4000] 0;
     mkEntry (OUpdateAndDisplay 4000) [mkTarget 0 36 BId 0 4000] 1;
     mkEntry (OUpdateColor 4000 4000) [mkTarget 0 36 BId 0 4000; mkTarget 1 38 BId 0 4000] 0;
     mkEntry (OUpdateAchromatic 4000) [mkTarget 0 36 BId 0 4000] 0;
     mkEntry (OUpdateChromatic 4000) [mkTarget 0 38 BId 0 4000] 0]
    [[OSetBg 0];
     [OSetBg 1];
     [OSetBg 2];
     [OUpdateFrame 4000];
     [ODisplay];
     [OUpdateAndDisplay 4000];
     [OClear];
     [OWaitIdle];
     [OSleep; OWakeUp];
     [OWakeUp];
     [OUpdateColor 4000 4000];
     [OUpdateAchromatic 4000; OUpdateChromatic 4000]].

Definition spec_2in13bc : pspec :=
  mkPS P2in13bc
    (mkCP Uc 104 212 13 false 0 0 [(16, P1); (19, P2)] [18] true true [2; 4; 18] true 3 9
      [0; 1; 2; 3; 4; 6; 7; 16; 17; 18; 19; 32; 33; 34; 35; 36; 37; 48; 64; 65; 80; 96; 97; 101; 113; 130; 144; 145; 146; 224; 227; 229]
      [(97, [3]); (144, [9]); (7, [1])] None false)
    2756 [(16, 13); (19, 13)] [0; 1; 2]
    [mkEntry (OUpdateFrame 2756) [mkTarget 0 16 BId 0 2756] 0;
     mkEntry (OUpdateAndDisplay 2756) [mkTarget 0 16 BId 0 2756] 1;
     mkEntry (OUpdateColor 2756 2756) [mkTarget 0 16 BId 0 2756; mkTarget 1 19 BId 0 2756] 0;
     mkEntry (OUpdateAchromatic 2756) [mkTarget 0 16 BId 0 2756] 0;
     mkEntry (OUpdateChromatic 2756) [mkTarget 0 19 BId 0 2756] 0]
    [[OSetBg 0];
     [OSetBg 1];
     [OSetBg 2];
     [OSetLut None];
     [OSetLut (Some 0)];
     [OSetLut (Some 1)];
     [OUpdateFrame 2756];
     [ODisplay];
     [OUpdateAndDisplay 2756];
     [OClear];
     [OWaitIdle];
     [OSleep; OWakeUp];
     [OWakeUp];
     [OUpdateColor 2756 2756];
     [OUpdateAchromatic 2756; OUpdateChromatic 2756];
     [OSetBorder 0];
     [OSetBorder 1];
     [OSetBorder 2]].

Definition spec_2in66b : pspec :=
  mkPS P2in66b
    (mkCP Ssd 152 296 19 false 21 295 [(36, P1); (38, P2)] [32] false false [18; 32; 70; 71] false 4 9
      [0; 1; 2; 3; 4; 8; 9; 10; 12; 15; 16; 17; 18; 20; 21; 24; 26; 27; 28; 32; 33; 34; 36; 38; 39; 40; 41; 42; 43; 44; 45; 46; 47; 48; 49; 50; 52; 53; 54; 55; 56; 57; 58; 59; 60; 63; 65; 68; 69; 70; 71; 78; 79; 116; 126; 127; 128; 255]
      [(1, [3]); (16, [1]); (17, [1]); (33, [1; 2]); (34, [1]); (68, [2]); (69, [4]); (78, [1]); (79, [2])] None false)
    5624 [(36, 19); (38, 19)] [0; 1; 2]
    [mkEntry (OUpdateFrame 5624) [mkTarget 0 36 BId 0 5624] 0;
     mkEntry (OUpdateAndDisplay 5624) [mkTarget 0 36 BId 0 5624] 1;
     mkEntry (OUpdateColor 5624 5624) [mkTarget 0 36 BId 0 5624; mkTarget 1 38 BId 0 5624] 0;
     mkEntry (OUpdateAchromatic 5624) [mkTarget 0 36 BId 0 5624] 0;
     mkEntry (OUpdateChromatic 5624) [mkTarget 0 38 BId 0 5624] 0]
    [[OSetBg 0];
     [OSetBg 1];
     [OSetBg 2];
     [OSetLut None];
     [OSetLut (Some 0)];
     [OSetLut (Some 1)];
     [OUpdateFrame 5624];
     [ODisplay];
     [OUpdateAndDisplay 5624];
     [OClear];
     [OWaitIdle];
     [OSleep; OWakeUp];
     [OWakeUp];
     [OUpdatePartial 16 8 4 64 2];
     [OUpdatePartial 1 0 0 8 1];
     [OUpdatePartial 1 144 295 8 1];
     [OUpdatePartial 3 16 293 8 3];
     [OUpdateColor 5624 5624];
     [OUpdateAchromatic 5624; OUpdateChromatic 5624]].

Definition spec_2in7 : pspec :=
  mkPS P2in7
    (mkCP Uc 176 264 22 false 0 0 [(16, P1); (19, P2); (20, P1); (21, P2)] [18] true true [2; 4; 18] true 4 9
      [0; 1; 2; 3; 4; 5; 6; 7; 16; 17; 18; 19; 20; 21; 22; 32; 33; 34; 35; 36; 37; 48; 64; 65; 66; 67; 80; 81; 96; 97; 98; 101; 113; 128; 129; 130; 144; 145; 146; 160; 161; 162; 165; 224; 227; 229; 248]
      [(97, [4]); (144, [9]); (7, [1])] None false)
    5808 [(16, 22); (19, 22); (20, 22); (21, 22)] [0; 1]
    [mkEntry (OUpdateFrame 5808) [mkTarget 0 19 BId 0 5808] 0;
     mkEntry (OUpdateAndDisplay 5808) [mkTarget 0 19 BId 0 5808] 1]
    [[OSetBg 0];
     [OSetBg 1];
     [OSetLut None];
     [OSetLut (Some 0)];
     [OSetLut (Some 1)];
     [OUpdateFrame 5808];
     [ODisplay];
     [OUpdateAndDisplay 5808];
     [OClear];
     [OWaitIdle];
     [OSleep; OWakeUp];
     [OWakeUp];
     [OUpdatePartial 16 8 4 64 2];
     [OUpdatePartial 1 0 0 8 1];
     [OUpdatePartial 1 168 263 8 1];
     [OUpdatePartial 3 16 261 8 3]].

Definition spec_2in7_v2 : pspec :=
  mkPS P2in7_v2
    (mkCP Ssd 176 264 22 false 21 295 [(36, P1); (38, P2)] [32] false false [18; 32; 70; 71] false 4 9
      [1; 3; 4; 12; 15; 16; 17; 18; 24; 26; 27; 32; 33; 34; 36; 38; 44; 50; 55; 58; 59; 60; 63; 68; 69; 70; 71; 78; 79; 127; 255]
      [(1, [3]); (16, [1]); (17, [1]); (33, [1; 2]); (34, [1]); (68, [2]); (69, [4]); (78, [1]); (79, [2])] None false)
    5808 [(36, 22); (38, 22)] [0; 1]
    [mkEntry (OUpdateFrame 5808) [mkTarget 0 36 BId 0 5808] 0;
     mkEntry (OUpdateAndDisplay 5808) [mkTarget 0 36 BId 0 5808] 1]
    [[OSetBg 0];
     [OSetBg 1];
     [OSetLut None];
     [OSetLut (Some 0)];
     [OSetLut (Some 1)];
     [OUpdateFrame 5808];
     [ODisplay];
     [OUpdateAndDisplay 5808];
     [OClear];
     [OWaitIdle];
     [OSleep; OWakeUp];
     [OWakeUp];
     [OUpdatePartial 16 8 4 64 2];
     [OUpdatePartial 1 0 0 8 1];
     [OUpdatePartial 1 168 263 8 1];
     [OUpdatePartial 3 16 261 8 3]].

Definition spec_2in7b : pspec :=
  mkPS P2in7b
    (mkCP Uc 176 264 22 false 0 0 [(16, P1); (19, P2); (20, P1); (21, P2)] [18] true true [2; 4; 18] true 4 9
      [0; 1; 2; 3; 4; 5; 6; 7; 16; 17; 18; 19; 20; 21; 22; 32; 33; 34; 35; 36; 37; 48; 64; 65; 66; 67; 80; 81; 96; 97; 98; 101; 113; 128; 129; 130; 144; 145; 146; 160; 161; 162; 165; 224; 227; 229; 248]
      [(97, [4]); (144, [9]); (7, [1])] None false)
    5808 [(16, 22); (19, 22); (20, 22); (21, 22)] [0; 1]
    [mkEntry (OUpdateFrame 5808) [mkTarget 0 16 BNot 0 5808] 0;
     mkEntry (OUpdateAndDisplay 5808) [mkTarget 0 16 BNot 0 5808] 1;
     mkEntry (OUpdateColor 5808 5808) [mkTarget 0 16 BNot 0 5808; mkTarget 1 19 BNot 0 5808] 0;
     mkEntry (OUpdateAchromatic 5808) [mkTarget 0 16 BNot 0 5808] 0;
     mkEntry (OUpdateChromatic 5808) [mkTarget 0 19 BNot 0 5808] 0]
    [[OSetBg 0];
     [OSetBg 1];
     [OSetLut None];
     [OSetLut (Some 0)];
     [OSetLut (Some 1)];
     [OUpdateFrame 5808];
     [ODisplay];
     [OUpdateAndDisplay 5808];
     [OClear];
     [OWaitIdle];
     [OSleep; OWakeUp];
     [OWakeUp];
     [OUpdatePartial 16 8 4 64 2];
     [OUpdatePartial 1 0 0 8 1];
     [OUpdatePartial 1 168 263 8 1];
     [OUpdatePartial 3 16 261 8 3];
     [OUpdateColor 5808 5808];
     [OUpdateAchromatic 5808; OUpdateChromatic 5808];
     [ODisplayPartial 8 4 64 2];
     [ODisplayPartial 0 0 8 1];
     [ODisplayPartial 168 263 8 1];
     [OUpdatePartialAchromatic 16 8 4 64 2];
     [OUpdatePartialAchromatic 1 0 0 8 1];
     [OUpdatePartialAchromatic 1 168 263 8 1];
     [OUpdatePartialChromatic 16 8 4 64 2];
     [OUpdatePartialChromatic 1 0 0 8 1];
     [OUpdatePartialChromatic 1 168 263 8 1]].

Definition spec_2in9 : pspec :=
  mkPS P2in9
    (mkCP Ssd 128 296 16 false 29 319 [(36, P1); (38, P2)] [32] false false [18; 32; 70; 71] false 4 9
      [1; 3; 4; 12; 15; 16; 17; 18; 24; 26; 27; 32; 33; 34; 36; 38; 44; 50; 55; 58; 59; 60; 63; 68; 69; 70; 71; 78; 79; 127; 255]
      [(1, [3]); (16, [1]); (17, [1]); (33, [1; 2]); (34, [1]); (68, [2]); (69, [4]); (78, [1]); (79, [2])] None false)
    4736 [(36, 16); (38, 16)] [0; 1]
    [mkEntry (OUpdateFrame 4736) [mkTarget 0 36 BId 0 4736] 0;
     mkEntry (OUpdateAndDisplay 4736) [mkTarget 0 36 BId 0 4736] 1]
    [[OSetBg 0];
     [OSetBg 1];
     [OSetLut None];
     [OSetLut (Some 0)];
     [OSetLut (Some 1)];
     [OUpdateFrame 4736];
     [ODisplay];
     [OUpdateAndDisplay 4736];
     [OClear];
     [OWaitIdle];
     [OSleep; OWakeUp];
     [OWakeUp];
     [OUpdatePartial 16 8 4 64 2];
     [OUpdatePartial 1 0 0 8 1];
     [OUpdatePartial 1 120 295 8 1];
     [OUpdatePartial 3 16 293 8 3]].

Definition spec_2in9_v2 : pspec :=
  mkPS P2in9_v2
    (mkCP Ssd 128 296 16 false 21 295 [(36, P1); (38, P2)] [32] false false [18; 32; 70; 71] false 4 9
      [1; 3; 4; 12; 15; 16; 17; 18; 24; 26; 27; 32; 33; 34; 36; 38; 44; 50; 55; 58; 59; 60; 63; 68; 69; 70; 71; 78; 79; 127; 255]
      [(1, [3]); (16, [1]); (17, [1]); (33, [1; 2]); (34, [1]); (68, [2]); (69, [4]); (78, [1]); (79, [2])] None false)
    4736 [(36, 16); (38, 16)] [0; 1]
    [mkEntry (OUpdateFrame 4736) [mkTarget 0 36 BId 0 4736] 0;
     mkEntry (OUpdateAndDisplay 4736) [mkTarget 0 36 BId 0 4736] 1;
     mkEntry (OUpdateOld 4736) [mkTarget 0 38 BId 0 4736] 0;
     mkEntry (OUpdateNew 4736) [mkTarget 0 36 BId 0 4736] 0;
     mkEntry (OUpdateAndDisplayNew 4736) [mkTarget 0 36 BId 0 4736] 1]
    [[OSetBg 0];
     [OSetBg 1];
     [OSetLut None];
     [OSetLut (Some 0)];
     [OSetLut (Some 1)];
     [OUpdateFrame 4736];
     [ODisplay];
     [OUpdateAndDisplay 4736];
     [OClear];
     [OWaitIdle];
     [OSleep; OWakeUp];
     [OWakeUp];
     [OUpdatePartial 16 8 4 64 2];
     [OUpdatePartial 1 120 295 8 1];
     [OUpdateOld 4736; OUpdateNew 4736];
     [ODisplayNew];
     [OUpdateAndDisplayNew 4736]].

Definition spec_2in9b_v4 : pspec :=
  mkPS P2in9b_v4
    (mkCP Ssd 128 296 16 false 21 295 [(36, P1); (38, P2)] [32] false false [18; 32; 70; 71] false 4 9
      [1; 3; 4; 12; 15; 16; 17; 18; 24; 26; 27; 32; 33; 34; 36; 38; 44; 50; 55; 58; 59; 60; 63; 68; 69; 70; 71; 78; 79; 127; 255]
      [(1, [3]); (16, [1]); (17, [1]); (33, [1; 2]); (34, [1]); (68, [2]); (69, [4]); (78, [1]); (79, [2])] None false)
    4736 [(36, 16); (38, 16)] [0; 1; 2]
    [mkEntry (OUpdateFrame 4736) [mkTarget 0 36 BId 0 4736] 0;
     mkEntry (OUpdateAndDisplay 4736) [mkTarget 0 36 BId 0 4736] 1;
     mkEntry (OUpdateColor 4736 4736) [mkTarget 0 36 BId 0 4736; mkTarget 1 38 BId 0 4736] 0;
     mkEntry (OUpdateAchromatic 4736) [mkTarget 0 36 BId 0 4736] 0;
     mkEntry (OUpdateChromatic 4736) [mkTarget 0 38 BId 0 4736] 0]
    [[OSetBg 0];
     [OSetBg 1];
     [OSetBg 2];
     [OSetLut None];
     [OSetLut (Some 0)];
     [OSetLut (Some 1)];
     [OUpdateFrame 4736];
     [ODisplay];
     [OUpdateAndDisplay 4736];
     [OClear];
     [OWaitIdle];
     [OSleep; OWakeUp];
     [OWakeUp];
     [OUpdatePartial 16 8 4 64 2];
     [OUpdatePartial 1 120 295 8 1];
     [OUpdateColor 4736 4736];
     [OUpdateAchromatic 4736; OUpdateChromatic 4736];
     [OUpdateAndDisplayBase 4736 (Some 4736)];
     [OUpdateAndDisplayBase 4736 None];
     [ODisplayFramePartial]].

Definition spec_2in9bc : pspec :=
  mkPS P2in9bc
    (mkCP Uc 128 296 16 false 0 0 [(16, P1); (19, P2)] [18] true true [2; 4; 18] true 3 9
      [0; 1; 2; 3; 4; 6; 7; 16; 17; 18; 19; 32; 33; 34; 35; 36; 37; 48; 64; 65; 80; 96; 97; 101; 113; 130; 144; 145; 146; 224; 227; 229]
      [(97, [3]); (144, [9]); (7, [1])] None false)
    4736 [(16, 16); (19, 16)] [0; 1]
    [mkEntry (OUpdateFrame 4736) [mkTarget 0 16 BId 0 4736] 0;
     mkEntry (OUpdateAndDisplay 4736) [mkTarget 0 16 BId 0 4736] 1;
     mkEntry (OUpdateColor 4736 4736) [mkTarget 0 16 BId 0 4736; mkTarget 1 19 BId 0 4736] 0;
     mkEntry (OUpdateAchromatic 4736) [mkTarget 0 16 BId 0 4736] 0;
     mkEntry (OUpdateChromatic 4736) [mkTarget 0 19 BId 0 4736] 0]
    [[OSetBg 0];
     [OSetBg 1];
     [OSetLut None];
     [OSetLut (Some 0)];
     [OSetLut (Some 1)];
     [OUpdateFrame 4736];
     [ODisplay];
     [OUpdateAndDisplay 4736];
     [OClear];
     [OWaitIdle];
     [OSleep; OWakeUp];
     [OWakeUp];
     [OUpdateColor 4736 4736];
     [OUpdateAchromatic 4736; OUpdateChromatic 4736];
     [OSetBorder 0];
     [OSetBorder 1];
     [OSetBorder 2]].

Definition spec_2in9d : pspec :=
  mkPS P2in9d
    (mkCP Uc 128 296 16 false 0 0 [(16, P1); (19, P2)] [18] true true [2; 4; 18] false 3 7
      [0; 1; 2; 3; 4; 5; 6; 7; 16; 17; 18; 19; 32; 33; 34; 35; 36; 37; 48; 64; 65; 66; 67; 80; 81; 96; 97; 101; 112; 113; 128; 129; 130; 144; 145; 146; 160; 161; 162; 165; 224; 227; 229]
      [(97, [3]); (144, [7]); (7, [1])] None false)
    4736 [(16, 16); (19, 16)] [0; 1]
    [mkEntry (OUpdateFrame 4736) [mkTarget 0 19 BId 0 4736] 0;
     mkEntry (OUpdateAndDisplay 4736) [mkTarget 0 19 BId 0 4736] 1]
    [[OSetBg 0];
     [OSetBg 1];
     [OSetLut None];
     [OSetLut (Some 0)];
     [OSetLut (Some 1)];
     [OUpdateFrame 4736];
     [ODisplay];
     [OUpdateAndDisplay 4736];
     [OClear];
     [OWaitIdle];
     [OSleep; OWakeUp];
     [OWakeUp];
     [OUpdatePartial 16 8 4 64 2];
     [OUpdatePartial 1 120 295 8 1]].

Definition spec_3in7 : pspec :=
  mkPS P3in7
    (mkCP Ssd 280 480 35 true 59 479 [(36, P1); (38, P2)] [32] true false [18; 32; 70; 71] false 4 9
      [1; 2; 3; 4; 7; 12; 15; 16; 17; 18; 24; 26; 27; 32; 33; 34; 36; 38; 44; 50; 55; 58; 59; 60; 63; 68; 69; 70; 71; 78; 79; 80; 127; 255]
      [(1, [3]); (16, [1]); (17, [1]); (33, [1; 2]); (34, [1]); (68, [4]); (69, [4]); (78, [2]); (79, [2]); (7, [1])] None false)
    16800 [(36, 35); (38, 35)] [0; 1]
    [mkEntry (OUpdateFrame 16800) [mkTarget 0 36 BId 0 16800] 0;
     mkEntry (OUpdateAndDisplay 16800) [mkTarget 0 36 BId 0 16800] 1]
    [[OSetBg 0];
     [OSetBg 1];
     [OSetLut None];
     [OSetLut (Some 0)];
     [OSetLut (Some 1)];
     [OUpdateFrame 16800];
     [ODisplay];
     [OUpdateAndDisplay 16800];
     [OClear];
     [OWaitIdle];
     [OSleep; OWakeUp];
     [OWakeUp]].

Definition spec_4in2 : pspec :=
  mkPS P4in2
    (mkCP Uc 400 300 50 false 0 0 [(16, P1); (19, P2)] [18] true true [2; 4; 18] true 4 9
      [0; 1; 2; 3; 4; 5; 6; 7; 16; 17; 18; 19; 32; 33; 34; 35; 36; 37; 48; 64; 65; 66; 67; 80; 81; 96; 97; 101; 112; 113; 128; 129; 130; 144; 145; 146; 160; 161; 162; 165; 224; 227; 229]
      [(97, [4]); (144, [9]); (7, [1])] None false)
    15000 [(16, 50); (19, 50)] [0; 1]
    [mkEntry (OUpdateFrame 15000) [mkTarget 0 19 BId 0 15000] 0;
     mkEntry (OUpdateAndDisplay 15000) [mkTarget 0 19 BId 0 15000] 1;
     mkEntry (OUpdateOld 15000) [mkTarget 0 16 BId 0 15000] 0;
     mkEntry (OUpdateNew 15000) [mkTarget 0 19 BId 0 15000] 0;
     mkEntry (OUpdateAndDisplayNew 15000) [mkTarget 0 19 BId 0 15000] 1]
    [[OSetBg 0];
     [OSetBg 1];
     [OSetLut None];
     [OSetLut (Some 0)];
     [OSetLut (Some 1)];
     [OUpdateFrame 15000];
     [ODisplay];
     [OUpdateAndDisplay 15000];
     [OClear];
     [OWaitIdle];
     [OSleep; OWakeUp];
     [OWakeUp];
     [OUpdatePartial 16 8 4 64 2];
     [OUpdatePartial 1 0 0 8 1];
     [OUpdatePartial 1 392 299 8 1];
     [OUpdatePartial 3 16 297 8 3];
     [OUpdateOld 15000; OUpdateNew 15000];
     [ODisplayNew];
     [OUpdateAndDisplayNew 15000];
     [OUpdatePartialOld 16 8 4 64 2; OUpdatePartialNew 16 8 4 64 2];
     [OClearPartial 8 4 64 2];
     [OUpdatePartialOld 1 0 0 8 1; OUpdatePartialNew 1 0 0 8 1];
     [OClearPartial 0 0 8 1];
     [OUpdatePartialOld 1 392 299 8 1; OUpdatePartialNew 1 392 299 8 1];
     [OClearPartial 392 299 8 1];
     [OUpdatePartialOld 3 16 297 8 3; OUpdatePartialNew 3 16 297 8 3];
     [OClearPartial 16 297 8 3]].

Definition spec_5in65f : pspec :=
  mkPS P5in65f
    (mkCP Uc 600 448 75 false 0 0 [(16, P1)] [18] true true [2; 4; 18] true 4 9
      [0; 1; 2; 3; 4; 6; 7; 16; 17; 18; 19; 32; 33; 34; 35; 36; 37; 38; 39; 40; 41; 48; 64; 65; 66; 67; 80; 81; 96; 97; 101; 112; 113; 128; 129; 130; 144; 145; 146; 165; 224; 227; 229]
      [(97, [4]); (144, [9]); (7, [1])] None true)
    134400 [(16, 300)] [0; 1; 2; 3; 4; 5; 6; 7]
    [mkEntry (OUpdateFrame 134400) [mkTarget 0 16 BId 0 134400] 0;
     mkEntry (OUpdateAndDisplay 134400) [mkTarget 0 16 BId 0 134400] 1]
    [[OSetBg 0];
     [OSetBg 1];
     [OSetBg 2];
     [OSetBg 3];
     [OSetBg 4];
     [OSetBg 5];
     [OSetBg 6];
     [OSetBg 7];
     [OUpdateFrame 134400];
     [ODisplay];
     [OUpdateAndDisplay 134400];
     [OClear];
     [OWaitIdle];
     [OSleep; OWakeUp];
     [OWakeUp]].

Definition spec_5in83_v2 : pspec :=
  mkPS P5in83_v2
    (mkCP Uc 648 480 81 false 0 0 [(16, P1); (19, P2)] [18] true true [2; 4; 18] true 4 9
      [0; 1; 2; 3; 4; 6; 7; 16; 17; 18; 19; 21; 32; 33; 34; 35; 36; 37; 48; 64; 65; 66; 67; 80; 81; 96; 97; 101; 112; 113; 128; 129; 130; 144; 145; 146; 165; 224; 227; 229]
      [(97, [4]); (144, [9]); (7, [1])] None false)
    38880 [(16, 81); (19, 81)] [0; 1]
    [mkEntry (OUpdateFrame 38880) [mkTarget 0 19 BId 0 38880] 0;
     mkEntry (OUpdateAndDisplay 38880) [mkTarget 0 19 BId 0 38880] 1]
    [[OSetBg 0];
     [OSetBg 1];
     [OUpdateFrame 38880];
     [ODisplay];
     [OUpdateAndDisplay 38880];
     [OClear];
     [OWaitIdle];
     [OSleep; OWakeUp];
     [OWakeUp]].

Definition spec_5in83b_v2 : pspec :=
  mkPS P5in83b_v2
    (mkCP Uc 648 480 81 false 0 0 [(16, P1); (19, P2)] [18] true true [2; 4; 18] true 4 9
      [0; 1; 2; 3; 4; 6; 7; 16; 17; 18; 19; 21; 32; 33; 34; 35; 36; 37; 48; 64; 65; 66; 67; 80; 81; 96; 97; 101; 112; 113; 128; 129; 130; 144; 145; 146; 165; 224; 227; 229]
      [(97, [4]); (144, [9]); (7, [1])] None false)
    38880 [(16, 81); (19, 81)] [0; 1]
    [mkEntry (OUpdateFrame 38880) [mkTarget 0 16 BId 0 38880] 0;
     mkEntry (OUpdateAndDisplay 38880) [mkTarget 0 16 BId 0 38880] 1;
     mkEntry (OUpdateColor 38880 38880) [mkTarget 0 16 BId 0 38880; mkTarget 1 19 BId 0 38880] 0;
     mkEntry (OUpdateAchromatic 38880) [mkTarget 0 16 BId 0 38880] 0;
     mkEntry (OUpdateChromatic 38880) [mkTarget 0 19 BId 0 38880] 0]
    [[OSetBg 0];
     [OSetBg 1];
     [OUpdateFrame 38880];
     [ODisplay];
     [OUpdateAndDisplay 38880];
     [OClear];
     [OWaitIdle];
     [OSleep; OWakeUp];
     [OWakeUp];
     [OUpdatePartial 16 8 4 64 2];
     [OUpdatePartial 1 0 0 8 1];
     [OUpdatePartial 1 640 479 8 1];
     [OUpdatePartial 3 16 477 8 3];
     [OUpdateColor 38880 38880];
     [OUpdateAchromatic 38880; OUpdateChromatic 38880]].

Definition spec_7in3f : pspec :=
  mkPS P7in3f
    (mkCP Uc 800 480 100 false 0 0 [(16, P1)] [18] true true [2; 4; 18] true 4 9
      [0; 1; 2; 3; 4; 5; 6; 7; 8; 16; 17; 18; 19; 32; 33; 34; 35; 36; 37; 48; 64; 65; 80; 96; 97; 101; 113; 130; 132; 134; 144; 145; 146; 170; 224; 227; 229; 230]
      [(97, [4]); (144, [9]); (7, [1])] None false)
    192000 [(16, 400)] [0; 1; 2; 3; 4; 5; 6; 7]
    [mkEntry (OUpdateFrame 192000) [mkTarget 0 16 BId 0 192000] 0;
     mkEntry (OUpdateAndDisplay 192000) [mkTarget 0 16 BId 0 192000] 1]
    [[OSetBg 0];
     [OSetBg 1];
     [OSetBg 2];
     [OSetBg 3];
     [OSetBg 4];
     [OSetBg 5];
     [OSetBg 6];
     [OSetBg 7];
     [OUpdateFrame 192000];
     [ODisplay];
     [OUpdateAndDisplay 192000];
     [OClear];
     [OWaitIdle];
     [OSleep; OWakeUp];
     [OWakeUp];
     [OShow7Block]].

Definition spec_7in5 : pspec :=
  mkPS P7in5
    (mkCP Uc 640 384 80 false 0 0 [(16, P1)] [18] true true [2; 4; 18] true 4 9
      [0; 1; 2; 3; 4; 6; 7; 16; 17; 18; 19; 32; 33; 34; 35; 36; 37; 38; 39; 40; 41; 48; 64; 65; 66; 67; 80; 81; 96; 97; 101; 112; 113; 128; 129; 130; 144; 145; 146; 165; 224; 227; 229]
      [(97, [4]); (144, [9]); (7, [1])] None false)
    30720 [(16, 320)] [0; 1]
    [mkEntry (OUpdateFrame 30720) [mkTarget 0 16 BExp4 0 30720] 0;
     mkEntry (OUpdateAndDisplay 30720) [mkTarget 0 16 BExp4 0 30720] 1]
    [[OSetBg 0];
     [OSetBg 1];
     [OUpdateFrame 30720];
     [ODisplay];
     [OUpdateAndDisplay 30720];
     [OClear];
     [OWaitIdle];
     [OSleep; OWakeUp];
     [OWakeUp]].

Definition spec_7in5_hd : pspec :=
  mkPS P7in5_hd
    (mkCP Ssd 880 528 110 true 119 679 [(36, P1); (38, P2)] [32] false false [18; 32; 70; 71] false 4 9
      [1; 3; 4; 12; 15; 16; 17; 18; 20; 21; 24; 26; 27; 28; 32; 33; 34; 36; 38; 39; 40; 41; 42; 43; 44; 45; 50; 52; 53; 54; 55; 56; 58; 59; 60; 63; 65; 68; 69; 70; 71; 78; 79; 127; 255]
      [(1, [3]); (16, [1]); (17, [1]); (33, [1; 2]); (34, [1]); (68, [4]); (69, [4]); (78, [2]); (79, [2])] None false)
    58080 [(36, 110); (38, 110)] [0; 1]
    [mkEntry (OUpdateFrame 58080) [mkTarget 0 36 BId 0 58080] 0;
     mkEntry (OUpdateAndDisplay 58080) [mkTarget 0 36 BId 0 58080] 1]
    [[OSetBg 0];
     [OSetBg 1];
     [OUpdateFrame 58080];
     [ODisplay];
     [OUpdateAndDisplay 58080];
     [OClear];
     [OWaitIdle];
     [OSleep; OWakeUp];
     [OWakeUp]].

Definition spec_7in5_v2 : pspec :=
  mkPS P7in5_v2
    (mkCP Uc 800 480 100 false 0 0 [(16, P1); (19, P2)] [18] true true [2; 4; 18] true 4 9
      [0; 1; 2; 3; 4; 6; 7; 16; 17; 18; 19; 21; 32; 33; 34; 35; 36; 37; 38; 39; 40; 41; 48; 64; 65; 66; 67; 80; 81; 96; 97; 101; 112; 113; 128; 129; 130; 144; 145; 146; 165; 224; 227; 229]
      [(97, [4]); (144, [9]); (7, [1])] None false)
    48000 [(16, 100); (19, 100)] [0; 1]
    [mkEntry (OUpdateFrame 48000) [mkTarget 0 19 BId 0 48000] 0;
     mkEntry (OUpdateAndDisplay 48000) [mkTarget 0 19 BId 0 48000] 1]
    [[OSetBg 0];
     [OSetBg 1];
     [OUpdateFrame 48000];
     [ODisplay];
     [OUpdateAndDisplay 48000];
     [OClear];
     [OWaitIdle];
     [OSleep; OWakeUp];
     [OWakeUp]].

Definition spec_7in5b_v2 : pspec :=
  mkPS P7in5b_v2
    (mkCP Uc 800 480 100 false 0 0 [(16, P1); (19, P2)] [18] true true [2; 4; 18] true 4 9
      [0; 1; 2; 3; 4; 6; 7; 16; 17; 18; 19; 21; 32; 33; 34; 35; 36; 37; 38; 39; 40; 41; 42; 43; 48; 64; 65; 66; 67; 80; 81; 96; 97; 101; 112; 113; 128; 129; 130; 144; 145; 146; 162; 165; 224; 227; 229]
      [(97, [4]); (144, [9]); (7, [1])] None false)
    48000 [(16, 100); (19, 100)] [0; 1; 2]
    [mkEntry (OUpdateFrame 96000) [mkTarget 0 16 BId 0 48000; mkTarget 0 19 BId 48000 48000] 0;
     mkEntry (OUpdateAndDisplay 96000) [mkTarget 0 16 BId 0 48000; mkTarget 0 19 BId 48000 48000] 1;
     mkEntry (OUpdateColor 48000 48000) [mkTarget 0 16 BId 0 48000; mkTarget 1 19 BId 0 48000] 0;
     mkEntry (OUpdateAchromatic 48000) [mkTarget 0 16 BId 0 48000] 0;
     mkEntry (OUpdateChromatic 48000) [mkTarget 0 19 BId 0 48000] 0]
    [[OSetBg 0];
     [OSetBg 1];
     [OSetBg 2];
     [OUpdateFrame 96000];
     [ODisplay];
     [OUpdateAndDisplay 96000];
     [OClear];
     [OWaitIdle];
     [OSleep; OWakeUp];
     [OWakeUp];
     [OUpdateColor 48000 48000];
     [OUpdateAchromatic 48000; OUpdateChromatic 48000];
     [OUpdatePartial2 16 8 4 64 2];
     [OUpdatePartial2 1 0 0 8 1];
     [OUpdatePartial2 1 792 479 8 1]].

Definition spec_of (p : panel) : pspec :=
  match p with
  | P1in02 => spec_1in02
  | P1in54 => spec_1in54
  | P1in54_v2 => spec_1in54_v2
  | P1in54b => spec_1in54b
  | P1in54c => spec_1in54c
  | P2in13_v2 => spec_2in13_v2
  | P2in13b_v4 => spec_2in13b_v4
  | P2in13bc => spec_2in13bc
  | P2in66b => spec_2in66b
  | P2in7 => spec_2in7
  | P2in7_v2 => spec_2in7_v2
  | P2in7b => spec_2in7b
  | P2in9 => spec_2in9
  | P2in9_v2 => spec_2in9_v2
  | P2in9b_v4 => spec_2in9b_v4
  | P2in9bc => spec_2in9bc
  | P2in9d => spec_2in9d
  | P3in7 => spec_3in7
  | P4in2 => spec_4in2
  | P5in65f => spec_5in65f
  | P5in83_v2 => spec_5in83_v2
  | P5in83b_v2 => spec_5in83b_v2
  | P7in3f => spec_7in3f
  | P7in5 => spec_7in5
  | P7in5_hd => spec_7in5_hd
  | P7in5_v2 => spec_7in5_v2
  | P7in5b_v2 => spec_7in5b_v2
  end.

(** * Iface: transport-level calls, data expressions and the driver monad.

    L1 of DESIGN.md.  A driver operation is modelled as a pure function producing a list of
    [item]s: transport calls ([icall]) interleaved with updates of the driver's own fields
    ([ISet]) and an explicit [IPanic] marker.  Everything that depends on the outside world
    (busy line, SPI faults) is applied afterwards by [Hal.expand]. *)
From Coq Require Import List NArith Bool.
Import ListNotations.
Open Scope N_scope.

(** ** Per-byte functions applied by some drivers to caller buffers *)
Inductive bytefn := BId | BNot | BExp2 | BExp4.

Definition bit (b : N) (k : N) : bool := N.testbit b k.

(** epd1in54b [expand_bits]: every bit of the byte doubled, MSB first, two bytes *)
Definition exp2 (b : N) : list N :=
  let d k := if bit b k then 3 else 0 in
  [ d 7 * 64 + d 6 * 16 + d 5 * 4 + d 4 ; d 3 * 64 + d 2 * 16 + d 1 * 4 + d 0 ].

(** epd7in5 4-bpp expansion: two pixels per output byte, 0x3 per set bit *)
Definition exp4 (b : N) : list N :=
  let d k := if bit b k then 3 else 0 in
  [ d 7 * 16 + d 6 ; d 5 * 16 + d 4 ; d 3 * 16 + d 2 ; d 1 * 16 + d 0 ].

Definition bapply (g : bytefn) (b : N) : list N :=
  match g with
  | BId => [b]
  | BNot => [255 - (b mod 256)]
  | BExp2 => exp2 b
  | BExp4 => exp4 b
  end.

Definition bwidth (g : bytefn) : N :=
  match g with BId | BNot => 1 | BExp2 => 2 | BExp4 => 4 end.

(** ** Data expressions: runs of bytes, symbolic in the caller's buffers *)
Inductive dexp :=
| DLit (l : list N)                 (* literal bytes: parameters, tables *)
| DArg (call arg off len : N)       (* bytes off..off+len-1 of argument [arg] of API call number [call] *)
| DRep (v n : N).                   (* n copies of v, sent through [data] (an array literal) *)

Definition dlen (e : dexp) : N :=
  match e with
  | DLit l => N.of_nat (length l)
  | DArg _ _ _ len => len
  | DRep _ n => n
  end.

Inductive dunit := Dns | Dus | Dms.

(** ** Transport calls = the methods of [DisplayInterface] plus direct delays *)
Inductive icall :=
| ICmd (c : N)                            (* interface.cmd *)
| IData (e : dexp)                        (* one interface.data call *)
| IDataEach (g : bytefn) (grp : positive) (e : dexp)
      (* for every byte b of e: the bytes [bapply g b] go out in data calls of [grp] bytes each *)
| IDataX (v n : N)                        (* interface.data_x_times *)
| IWait (busy_low : bool)                 (* interface.wait_until_idle *)
| IWaitCmd (busy_low : bool) (c : N)      (* interface.wait_until_idle_with_cmd *)
| IReset (initial_us dur_us : N)          (* interface.reset *)
| IDelay (u : dunit) (n : N).             (* delay.delay_xx called by the driver itself *)

(** ** The driver's own fields (union over all 27 trait drivers) *)
Record dstate := mkD {
  bg : N;            (* background / colour field, colour code *)
  refresh : N;       (* RefreshLut: 0 = Full, 1 = Quick *)
  is_on : bool;      (* epd1in02 is_turned_on *)
  is_partial : bool; (* epd2in9d is_partial_refresh *)
  sleep_mode : N;    (* epd2in13_v2 sleep_mode *)
  old : option (N * N * N)   (* epd2in9d old_data: (call, arg, len) of the retained slice; None = empty *)
}.

Definition set_bg (c : N) (s : dstate) := mkD c (refresh s) (is_on s) (is_partial s) (sleep_mode s) (old s).
Definition set_refresh (r : N) (s : dstate) := mkD (bg s) r (is_on s) (is_partial s) (sleep_mode s) (old s).
Definition set_on (b : bool) (s : dstate) := mkD (bg s) (refresh s) b (is_partial s) (sleep_mode s) (old s).
Definition set_partial (b : bool) (s : dstate) := mkD (bg s) (refresh s) (is_on s) b (sleep_mode s) (old s).
Definition set_old (o : option (N*N*N)) (s : dstate) := mkD (bg s) (refresh s) (is_on s) (is_partial s) (sleep_mode s) o.

Inductive item :=
| ICall (i : icall)
| ISet (s : dstate)     (* the driver's fields now have this value *)
| IPanic.               (* assert!/panic!/unimplemented!/index out of range/overflow (debug) *)

(** ** The driver monad: state + writer + panic *)
Definition M (A : Type) := dstate -> (option A * dstate * list item).

Definition ret {A} (a : A) : M A := fun s => (Some a, s, []).
Definition bind {A B} (m : M A) (f : A -> M B) : M B := fun s =>
  match m s with
  | (Some a, s1, t1) =>
      match f a s1 with (r, s2, t2) => (r, s2, t1 ++ t2) end
  | (None, s1, t1) => (None, s1, t1)
  end.
Definition emit (i : icall) : M unit := fun s => (Some tt, s, [ICall i]).
Definition get : M dstate := fun s => (Some s, s, []).
Definition modify (f : dstate -> dstate) : M unit := fun s => (Some tt, f s, [ISet (f s)]).
Definition panic {A} : M A := fun s => (None, s, [IPanic]).
Definition assert (b : bool) : M unit := if b then ret tt else panic.

Declare Scope m_scope.
Delimit Scope m_scope with M.
Notation "x <- m ;; k" := (bind m (fun x => k)) (at level 61, m at next level, right associativity) : m_scope.
Notation "m ;; k" := (bind m (fun _ => k)) (at level 61, right associativity) : m_scope.
Open Scope m_scope.

Fixpoint forM {A} (l : list A) (f : A -> M unit) : M unit :=
  match l with [] => ret tt | a :: r => f a ;; forM r f end.
Fixpoint repeatM (n : nat) (m : M unit) : M unit :=
  match n with O => ret tt | S k => m ;; repeatM k m end.
Definition when_ (b : bool) (m : M unit) : M unit := if b then m else ret tt.

(** transport helpers, named after interface.rs *)
Definition cmd (c : N) : M unit := emit (ICmd c).
Definition data (l : list N) : M unit := emit (IData (DLit l)).
Definition data_e (e : dexp) : M unit := emit (IData e).
Definition cmd_with_data (c : N) (l : list N) : M unit := cmd c ;; data l.
Definition cmd_with_data_e (c : N) (e : dexp) : M unit := cmd c ;; data_e e.
Definition data_x_times (v n : N) : M unit := emit (IDataX v n).
Definition wait_idle (busy_low : bool) : M unit := emit (IWait busy_low).
Definition wait_idle_cmd (busy_low : bool) (c : N) : M unit := emit (IWaitCmd busy_low c).
Definition reset (a b : N) : M unit := emit (IReset a b).
(** [grp] is the size of each data call, at least 1 *)
Definition data_each (g : bytefn) (grp : N) (e : dexp) : M unit :=
  emit (IDataEach g (N.succ_pos (N.pred grp)) e).
Definition delay_ms (n : N) : M unit := emit (IDelay Dms n).
Definition delay_us (n : N) : M unit := emit (IDelay Dus n).

(** checked u32 arithmetic (debug build: overflow panics) *)
Definition u32max : N := 4294967296.
Definition chk32 (x : N) : M N := if x <? u32max then ret x else panic.
Definition add32 (a b : N) : M N := chk32 (a + b).
Definition mul32 (a b : N) : M N := chk32 (a * b).
Definition sub32 (a b : N) : M N := if b <=? a then ret (a - b) else panic.
Definition bor (x m : N) : N := N.lor x m.
Definition shl (x k : N) : N := N.shiftl x k.
Definition u8 (x : N) : N := x mod 256.
Definition shr (x k : N) : N := N.shiftr x k.
Definition band (x m : N) : N := N.land x m.

(** colour codes shared with the scripts *)
Definition cBlack : N := 0.
Definition cWhite : N := 1.
Definition cChromatic : N := 2.   (* TriColor::Chromatic; OctColor uses its nibble 0..7 *)

(** Results an operation can return to the caller besides unit *)
Inductive rval := RUnit | RNum (n : N) | RColor (c : N) | RUnsupported.

(** running an operation: items, final fields, result ([None] = panicked) *)
Definition run {A} (m : M A) (s : dstate) : option A * dstate * list item := m s.

Fixpoint calls (t : list item) : list icall :=
  match t with
  | [] => []
  | ICall i :: r => i :: calls r
  | _ :: r => calls r
  end.

(** * Run: executing API calls of a driver model against a world (used by the extracted oracle
      and by the history theorems) *)
From Coq Require Import List NArith Bool.
From EPD Require Import Iface Ops Hal.
Import ListNotations.
Open Scope N_scope.

(** result of one API call as the harness prints it *)
Inductive callres := CROk (v : rval) | CRErr | CRPanic | CRUnsupported | CRDiverged.

Definition set_fault (f : option N) (w : world) : world := mkW (w_busy w) f (w_rst w).

(** One API call on an existing driver. *)
Definition call (D : driver) (cfg : icfg) (rho : env) (k : N) (o : op) (fault : option N)
           (d : dstate) (w : world) : callres * dstate * world * list hal :=
  match d_exec D k o with
  | None => (CRUnsupported, d, w, [])
  | Some m =>
      match m d with
      | (r, _, t) =>
          match expand cfg rho t d (set_fault fault w) with
          | (OOk, w1, d1, evs) =>
              (match r with Some v => CROk v | None => CRPanic end, d1, set_fault None w1, evs)
          | (OErr, w1, d1, evs) => (CRErr, d1, set_fault None w1, evs)
          | (OPanic, w1, d1, evs) => (CRPanic, d1, set_fault None w1, evs)
          | (ODiverged, w1, d1, evs) => (CRDiverged, d1, set_fault None w1, evs)
          end
      end
  end.

(** The constructor.  Returns [None] for the driver when [new] fails. *)
Definition construct (D : driver) (cfg : icfg) (rho : env) (fault : option N) (w : world)
  : callres * option dstate * world * list hal :=
  match d_new D (d_init D) with
  | (r, _, t) =>
      match expand cfg rho t (d_init D) (set_fault fault w) with
      | (OOk, w1, d1, evs) =>
          (match r with Some _ => CROk RUnit | None => CRPanic end,
           match r with Some _ => Some d1 | None => None end, set_fault None w1, evs)
      | (OErr, w1, _, evs) => (CRErr, None, set_fault None w1, evs)
      | (OPanic, w1, _, evs) => (CRPanic, None, set_fault None w1, evs)
      | (ODiverged, w1, _, evs) => (CRDiverged, None, set_fault None w1, evs)
      end
  end.

(** Fault-free, world-independent view: the transport calls of an operation. *)
Definition icalls_of (D : driver) (k : N) (o : op) (d : dstate) : option (list icall * dstate * bool) :=
  match d_exec D k o with
  | None => None
  | Some m => match m d with (r, d', t) => Some (calls t, d', match r with Some _ => true | None => false end) end
  end.

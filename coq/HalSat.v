(** * HalSat: a small program logic for the H actions of Hal.v

    [hsat a Q]: from every world [w] and accumulator, action [a] returns an outcome [o], a world
    [w'] and pushes new events [evs] (given here in chronological order) such that [Q w o w' evs]. *)
From Coq Require Import List NArith Bool Lia.
From EPD Require Import Iface Hal.
Import ListNotations.
Open Scope N_scope.

Definition post := world -> outcome -> world -> list hal -> Prop.

Definition hsat (a : H) (Q : post) : Prop :=
  forall w acc, exists o w' evs, a w acc = (o, w', rev evs ++ acc) /\ Q w o w' evs.

Lemma hsat_weaken a (Q Q' : post) : hsat a Q -> (forall w o w' e, Q w o w' e -> Q' w o w' e) -> hsat a Q'.
Proof. intros H I w acc. destruct (H w acc) as (o & w' & e & E & HQ). eauto 6. Qed.

Lemma hsat_conj a (Q1 Q2 : post) : hsat a Q1 -> hsat a Q2 -> hsat a (fun w o w' e => Q1 w o w' e /\ Q2 w o w' e).
Proof.
  intros H1 H2 w acc. destruct (H1 w acc) as (o & w' & e & E & HQ). destruct (H2 w acc) as (o2 & w2 & e2 & E2 & HQ2).
  rewrite E in E2. injection E2 as <- <- E2. apply app_inv_tail in E2.
  apply (f_equal (@rev hal)) in E2. rewrite !rev_involutive in E2. subst e2. eauto 8.
Qed.

Lemma hsat_ret : hsat hret (fun w o w' e => o = OOk /\ w' = w /\ e = []).
Proof. intros w acc. exists OOk, w, []. auto. Qed.

Lemma hsat_ev x : hsat (hev x) (fun w o w' e => o = OOk /\ w' = w /\ e = [x]).
Proof. intros w acc. exists OOk, w, [x]. auto. Qed.

(** sequencing: either the first part stopped, or both ran *)
Definition seq_post (Qa Qb : post) : post := fun w o w' e =>
  (o <> OOk /\ Qa w o w' e) \/
  (exists w1 e1 e2, Qa w OOk w1 e1 /\ Qb w1 o w' e2 /\ e = e1 ++ e2).

Lemma hsat_seq a b Qa Qb : hsat a Qa -> hsat b Qb -> hsat (hseq a b) (seq_post Qa Qb).
Proof.
  intros Ha Hb w acc. unfold hseq. destruct (Ha w acc) as (o & w1 & e1 & E & HQ). rewrite E.
  destruct o.
  - destruct (Hb w1 (rev e1 ++ acc)) as (o2 & w2 & e2 & E2 & HQ2). rewrite E2.
    exists o2, w2, (e1 ++ e2). split.
    + now rewrite rev_app_distr, app_assoc.
    + right. eauto 8.
  - exists OErr, w1, e1. split; [reflexivity|]. left. split; [discriminate|assumption].
  - exists OPanic, w1, e1. split; [reflexivity|]. left. split; [discriminate|assumption].
  - exists ODiverged, w1, e1. split; [reflexivity|]. left. split; [discriminate|assumption].
Qed.

(** An invariant-style rule: a postcondition [Q] that is "sequentially closed" *)
Definition seq_closed (Q : post) : Prop :=
  (forall w, Q w OOk w []) /\
  (forall w w1 o w' e1 e2, Q w OOk w1 e1 -> Q w1 o w' e2 -> Q w o w' (e1 ++ e2)).

Lemma hsat_seq_closed a b Q : seq_closed Q -> hsat a Q -> hsat b Q -> hsat (hseq a b) Q.
Proof.
  intros [_ C] Ha Hb. eapply hsat_weaken; [exact (hsat_seq a b Q Q Ha Hb)|].
  intros w o w' e [[_ H]|(w1 & e1 & e2 & H1 & H2 & ->)]; [assumption|]. eapply C; eassumption.
Qed.

Lemma hsat_ret_closed Q : seq_closed Q -> hsat hret Q.
Proof. intros [R _]. eapply hsat_weaken; [exact hsat_ret|]. intros w o w' e (-> & -> & ->). apply R. Qed.

Lemma hsat_list_closed l Q : seq_closed Q -> Forall (fun a => hsat a Q) l -> hsat (hseq_list l) Q.
Proof.
  intros C F. induction F as [|a r Ha _ IH]; cbn [hseq_list].
  - now apply hsat_ret_closed.
  - now apply hsat_seq_closed.
Qed.

Lemma hsat_is_busy bl k Q :
  seq_closed Q ->
  (forall w lvl b', poll_level (w_busy w) = (lvl, b') ->
     Q w OOk (mkW b' (w_fault w) (w_rst w)) [HPoll bl (if bl then negb lvl else lvl)]) ->
  (forall ans, hsat (k ans) Q) ->
  hsat (if_is_busy bl k) Q.
Proof.
  intros [_ C] HP Hk w acc. unfold if_is_busy.
  destruct (poll_level (w_busy w)) as [lvl b'] eqn:E.
  set (ans := if bl then negb lvl else lvl).
  destruct (Hk ans (mkW b' (w_fault w) (w_rst w)) (HPoll bl ans :: acc)) as (o & w' & e & E2 & HQ).
  exists o, w', (HPoll bl ans :: e). split.
  - rewrite E2. cbn [rev]. now rewrite <- app_assoc.
  - change (HPoll bl ans :: e) with ([HPoll bl ans] ++ e). eapply C; [|exact HQ]. now apply HP.
Qed.

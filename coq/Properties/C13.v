(** C13 Buffer sizing: shipped buffer types and run-time buffers match the panel planes.
    Nothing but statements, each closed by [exact <lemma>]; non-vacuity examples; assumptions.

    Model (Pure/Graphics.v): [buffer_len] (lib.rs), [line_bytes], [buffer_size] and [var_new_ok]
    ([VarDisplay::buffer_size] / [VarDisplay::new]), [nbuf] = BUFFER_COUNT, [bpp] =
    BITS_PER_PIXEL_PER_BUFFER, [aliases] = the 27 shipped [Display] aliases with their BYTECOUNT.
    [(n + 7) / 8] is written out; it is the least number of bytes holding [n] bits. *)
From Coq Require Import List NArith ZArith Bool Lia.
From EPD Require Import Ops Panels Pure.Color Pure.Graphics Pure.GraphicsProofs Pure.GraphicsProofs2
                        Pure.SizingProofs Pure.Aliases.
Import ListNotations.
Open Scope N_scope.

(** ** rounding up: [(n + 7) / 8] is the ceiling of n / 8 *)
Theorem C13_ceil8_least : forall n,
  n <= 8 * ((n + 7) / 8) /\ forall k, n <= 8 * k -> (n + 7) / 8 <= k.
Proof. exact ceil8_least. Qed.

Theorem C13_ceil8_padding : forall n, 8 * ((n + 7) / 8) < n + 8.
Proof. exact ceil8_padding. Qed.

(** ** buffer_len: rows times padded bytes per row *)
Theorem C13_buffer_len_exact : forall w h, buffer_len w h = h * ((w + 7) / 8).
Proof. exact buffer_len_spec. Qed.

Theorem C13_buffer_len_holds_all_pixels : forall w h, w * h <= 8 * buffer_len w h.
Proof. exact buffer_len_holds. Qed.

Theorem C13_buffer_len_only_row_padding : forall w h, 8 * buffer_len w h < (w + 8) * h \/ h = 0.
Proof. exact buffer_len_padding. Qed.

(** ** run-time buffers: planes times rows times padded bytes per row *)
Theorem C13_buffer_size_exact : forall t w h,
  buffer_size t w h = nbuf t * h * ((w * bpp t + 7) / 8).
Proof. exact buffer_size_spec. Qed.

Theorem C13_row_padding_minimal : forall t w,
  w * bpp t <= 8 * line_bytes w (bpp t) /\ 8 * line_bytes w (bpp t) < w * bpp t + 8 /\
  forall k, w * bpp t <= 8 * k -> line_bytes w (bpp t) <= k.
Proof. exact row_padding_minimal. Qed.

Theorem C13_buffer_size_zero : forall t w h, buffer_size t w h = 0 <-> w = 0 \/ h = 0.
Proof. exact buffer_size_zero. Qed.

(** tricolour: two halves of equal length, each one two-level plane *)
Theorem C13_tri_halves : forall w h,
  buffer_size CtTri w h / 2 = buffer_size CtColor w h /\
  2 * (buffer_size CtTri w h / 2) = buffer_size CtTri w h /\
  buffer_size CtTri w h / 2 = buffer_len w h.
Proof. exact tri_halves. Qed.

(** ** VarDisplay::new accepts exactly when the slice can hold every plane *)
Theorem C13_var_new_accepts_iff : forall t w h n,
  var_new_ok t w h n = true <-> buffer_size t w h <= n.
Proof. exact var_new_ok_iff. Qed.

Theorem C13_var_new_rejects_iff : forall t w h n,
  var_new_ok t w h n = false <-> n < buffer_size t w h.
Proof. exact var_new_rejects_iff. Qed.

(** ** every pixel of the geometry can be drawn inside the exposed [buffer_size] bytes *)
Theorem C13_every_pixel_drawable : forall w h bwrbit c x y,
  (Z.of_N w <= i32max)%Z -> (Z.of_N h <= i32max)%Z -> x < w -> y < h ->
  exists l, set_pixel (buffer_size (ctype_of c) w h) w h Rot0 bwrbit c (Z.of_N x) (Z.of_N y) = SpWrites l /\
            l <> [] /\ Forall (fun wr => w_idx wr < buffer_size (ctype_of c) w h) l.
Proof. exact every_pixel_drawable. Qed.

Theorem C13_accepted_buffer_drawable : forall t w h n bwrbit c x y,
  (Z.of_N w <= i32max)%Z -> (Z.of_N h <= i32max)%Z ->
  var_new_ok t w h n = true -> ctype_of c = t -> x < w -> y < h ->
  exists l, set_pixel (buffer_size t w h) w h Rot0 bwrbit c (Z.of_N x) (Z.of_N y) = SpWrites l /\
            l <> [] /\ Forall (fun wr => w_idx wr < buffer_size t w h /\ w_idx wr < n) l.
Proof. exact accepted_drawable. Qed.

(** tightness: the last pixel writes the last byte, so no smaller slice would do *)
Theorem C13_last_pixel_last_byte : forall w h bwrbit c,
  (Z.of_N w <= i32max)%Z -> (Z.of_N h <= i32max)%Z -> 0 < w -> 0 < h ->
  exists l wr,
    set_pixel (buffer_size (ctype_of c) w h) w h Rot0 bwrbit c (Z.of_N (w - 1)) (Z.of_N (h - 1)) = SpWrites l /\
    In wr l /\ w_idx wr = buffer_size (ctype_of c) w h - 1.
Proof. exact last_pixel_last_byte. Qed.

(** ** the 27 shipped buffer types *)
Theorem C13_aliases :
  Forall (fun a =>
            a_bytes a = nbuf (a_ct a) * a_h a * ((a_w a * bpp (a_ct a) + 7) / 8) /\
            a_bytes a = buffer_size (a_ct a) (a_w a) (a_h a) /\
            (a_ct a = CtTri ->
               a_bytes a / 2 = buffer_len (a_w a) (a_h a) /\ 2 * (a_bytes a / 2) = a_bytes a))
         aliases.
Proof. exact aliases_size_ok. Qed.

Theorem C13_aliases_count : length aliases = 27%nat.
Proof. exact aliases_count. Qed.

(** ** non-vacuity: concrete non-trivial instances (width 122 is no multiple of 8) *)
Example C13_witness_sizes :
  buffer_len 122 250 = 4000 /\ buffer_size CtColor 122 250 = 4000 /\
  buffer_size CtTri 122 250 = 8000 /\ buffer_size CtOct 121 250 = 15250 /\
  122 <= 8 * 16 /\ ~ 122 <= 8 * 15 /\
  var_new_ok CtTri 122 250 8000 = true /\ var_new_ok CtTri 122 250 7999 = false /\
  buffer_size CtTri 122 250 <= 8000 /\ 7999 < buffer_size CtTri 122 250.
Proof. vm_compute. repeat split; try reflexivity; try discriminate. intros Hc. now apply Hc. Qed.

Example C13_witness_drawable :
  (Z.of_N 122 <= i32max)%Z /\ (Z.of_N 250 <= i32max)%Z /\ 121 < 122 /\ 249 < 250 /\ 0 < 122 /\ 0 < 250 /\
  var_new_ok CtTri 122 250 8000 = true /\ ctype_of (ATri TChromatic) = CtTri /\
  set_pixel (buffer_size CtTri 122 250) 122 250 Rot0 false (ATri TChromatic) (Z.of_N 121) (Z.of_N 249) =
    SpWrites [mkWrite 3999 191 64; mkWrite 7999 191 64].
Proof. unfold i32max. repeat split; try reflexivity; lia. Qed.

Example C13_witness_tri_alias :
  In (mkAlias 122 250 false (buffer_len 122 250 * 2) CtTri) aliases /\
  a_ct (mkAlias 122 250 false (buffer_len 122 250 * 2) CtTri) = CtTri.
Proof. split; [|reflexivity]. unfold aliases. cbn [In]. do 6 right. left. reflexivity. Qed.

(** "Every shipped panel buffer type has exactly the dimensions its driver reports": the k-th alias of
    [Pure/Aliases.v] has the WIDTH and HEIGHT that the k-th driver model returns from width() / height(), for
    all 27 drivers and every feature set.  (The driver models' WIDTH / HEIGHT are tied to the crate by the
    width / height calls of the correspondence scripts, the alias constants by the sizing queries.) *)
Definition alias_matches_driver (ft : feat) : bool :=
  (Nat.eqb (length aliases) (length all_panels)) &&
  forallb (fun ap => (a_w (fst ap) =? d_W (driver_of ft (snd ap))) && (a_h (fst ap) =? d_H (driver_of ft (snd ap))))
          (combine aliases all_panels).
Theorem C13_alias_dimensions_are_the_drivers : forall v2 alt, alias_matches_driver (mkFeat v2 alt) = true.
Proof. intros [|] [|]; vm_compute; reflexivity. Qed.

Print Assumptions C13_ceil8_least.
Print Assumptions C13_ceil8_padding.
Print Assumptions C13_buffer_len_exact.
Print Assumptions C13_buffer_len_holds_all_pixels.
Print Assumptions C13_buffer_len_only_row_padding.
Print Assumptions C13_buffer_size_exact.
Print Assumptions C13_row_padding_minimal.
Print Assumptions C13_buffer_size_zero.
Print Assumptions C13_tri_halves.
Print Assumptions C13_var_new_accepts_iff.
Print Assumptions C13_var_new_rejects_iff.
Print Assumptions C13_every_pixel_drawable.
Print Assumptions C13_accepted_buffer_drawable.
Print Assumptions C13_last_pixel_last_byte.
Print Assumptions C13_aliases.
Print Assumptions C13_aliases_count.
Print Assumptions C13_alias_dimensions_are_the_drivers.

(** C03 Frame-buffer pixel addressing: rotation, bounds and bit layout.
    Nothing but statements, each closed by [exact <lemma>]; non-vacuity examples; assumptions.

    Model: [set_pixel blen w h rot bwrbit c px py] (Pure/Graphics.v) with [blen] the length of the
    slice the buffer accessor exposes, [buffer_size (ctype_of c) w h]; [w h] any unrotated size up
    to [i32max] (also widths that are no multiple of 8), [px py] any i32 point.
    [logical_in rot w h px py]: the point is inside the rotated size [size rot w h].
    [phys rot w h px py]: the physical pixel the rotation maps an in-bounds point to.
    [get_bit b base w x y] / [get_nib b w x y]: reading pixel (x, y) back from a buffer.
    [apply_writes b l]: the buffer after the byte updates [l] ([b] arbitrary, bytes < 256). *)
From Coq Require Import List NArith ZArith Bool Lia.
From EPD Require Import Pure.Color Pure.Graphics Pure.GraphicsProofs Pure.GraphicsProofs2 Pure.Aliases.
Import ListNotations.
Open Scope N_scope.

(** ** T4 the reported size swaps width and height exactly for 90 and 270 degrees, and the bounds
    test of drawing is membership in that size *)
Theorem C03_size : forall rot w h,
  size rot w h = match rot with Rot0 | Rot180 => (w, h) | Rot90 | Rot270 => (h, w) end.
Proof. exact size_spec. Qed.

Theorem C03_bounds_are_rotated_size : forall rot w h px py,
  logical_in rot w h px py <->
  (0 <= px < Z.of_N (fst (size rot w h)) /\ 0 <= py < Z.of_N (snd (size rot w h)))%Z.
Proof. exact logical_in_size. Qed.

(** ** T2 a point outside the rotated bounds changes nothing (any slice length, any colour) *)
Theorem C03_out_of_bounds_ignored : forall w h,
  (Z.of_N w <= i32max)%Z -> (Z.of_N h <= i32max)%Z ->
  forall rot bwrbit c blen px py, in_i32 px -> in_i32 py ->
  ~ logical_in rot w h px py ->
  set_pixel blen w h rot bwrbit c px py = SpIgnored.
Proof. exact set_pixel_out. Qed.

(** ** T3 drawing never panics and never leaves the slice *)
Theorem C03_in_bounds_writes_in_slice : forall w h rot bwrbit c px py,
  (Z.of_N w <= i32max)%Z -> (Z.of_N h <= i32max)%Z ->
  logical_in rot w h px py ->
  exists l, set_pixel (buffer_size (ctype_of c) w h) w h rot bwrbit c px py = SpWrites l /\
            Forall (fun wr => w_idx wr < buffer_size (ctype_of c) w h) l.
Proof. exact set_pixel_in_writes. Qed.

Theorem C03_every_point_ignored_or_in_slice : forall w h rot bwrbit c px py,
  (Z.of_N w <= i32max)%Z -> (Z.of_N h <= i32max)%Z -> in_i32 px -> in_i32 py ->
  set_pixel (buffer_size (ctype_of c) w h) w h rot bwrbit c px py = SpIgnored \/
  exists l, set_pixel (buffer_size (ctype_of c) w h) w h rot bwrbit c px py = SpWrites l /\
            Forall (fun wr => w_idx wr < buffer_size (ctype_of c) w h) l.
Proof. exact set_pixel_total. Qed.

Theorem C03_never_panics : forall w h rot bwrbit c px py,
  (Z.of_N w <= i32max)%Z -> (Z.of_N h <= i32max)%Z -> in_i32 px -> in_i32 py ->
  set_pixel (buffer_size (ctype_of c) w h) w h rot bwrbit c px py <> SpPanic.
Proof. exact set_pixel_no_panic. Qed.

(** ** the rotation image: [phys] is what the wrapping i32 arithmetic of the code computes, it
    lands inside w x h, and logical -> physical is a bijection between the rotated size and w x h *)
Theorem C03_phys_definition : forall rot w h px py,
  phys rot w h px py =
  match rot with
  | Rot0 => (Z.to_N px, Z.to_N py)
  | Rot90 => (Z.to_N (Z.of_N w - 1 - py), Z.to_N px)
  | Rot180 => (Z.to_N (Z.of_N w - 1 - px), Z.to_N (Z.of_N h - 1 - py))
  | Rot270 => (Z.to_N py, Z.to_N (Z.of_N h - 1 - px))
  end.
Proof. reflexivity. Qed.

Theorem C03_rotation_image : forall rot w h px py x y,
  (Z.of_N w <= i32max)%Z -> (Z.of_N h <= i32max)%Z ->
  logical_in rot w h px py -> phys rot w h px py = (x, y) ->
  rotate rot w h px py = (Z.of_N x, Z.of_N y) /\ x < w /\ y < h.
Proof. exact phys_rotate. Qed.

Theorem C03_rotation_injective : forall rot w h px py qx qy,
  logical_in rot w h px py -> logical_in rot w h qx qy ->
  phys rot w h px py = phys rot w h qx qy -> px = qx /\ py = qy.
Proof. exact phys_inj. Qed.

Theorem C03_rotation_surjective : forall rot w h x y, x < w -> y < h ->
  exists px py, logical_in rot w h px py /\ phys rot w h px py = (x, y) /\
    forall qx qy, logical_in rot w h qx qy -> phys rot w h qx qy = (x, y) -> qx = px /\ qy = py.
Proof. exact phys_surj. Qed.

Theorem C03_code_rotation_injective : forall rot w h px py qx qy,
  (Z.of_N w <= i32max)%Z -> (Z.of_N h <= i32max)%Z ->
  logical_in rot w h px py -> logical_in rot w h qx qy ->
  rotate rot w h px py = rotate rot w h qx qy -> px = qx /\ py = qy.
Proof. exact rotate_inj. Qed.

(** ** T1 exact effect, two-level colour: one bit per pixel, bit [7 - x mod 8] of byte
    [x / 8 + y * ceil(w / 8)]; White = 1, Black = 0 *)
Theorem C03_color_encoding : enc_color White = true /\ enc_color Black = false.
Proof. split; reflexivity. Qed.

Theorem C03_color_exact : forall w h rot bwrbit c px py x y (b : buf),
  (Z.of_N w <= i32max)%Z -> (Z.of_N h <= i32max)%Z ->
  logical_in rot w h px py -> phys rot w h px py = (x, y) -> (forall i, b i < 256) ->
  exists l, set_pixel (buffer_size CtColor w h) w h rot bwrbit (AColor c) px py = SpWrites l /\
    let b' := apply_writes b l in
    (forall x' y', x' < w -> y' < h ->
       get_bit b' 0 w x' y' = if (x' =? x) && (y' =? y) then enc_color c else get_bit b 0 w x' y') /\
    (forall i, i <> byte_of w x y -> b' i = b i) /\
    (forall k, k <> 7 - x mod 8 ->
       N.testbit (b' (byte_of w x y)) k = N.testbit (b (byte_of w x y)) k) /\
    (forall i, b' i < 256).
Proof. exact color_exact. Qed.

(** ** T1 exact effect, tricolour: two planes, black/white at base 0 and chromatic at base
    [blen / 2]; the pair is (black/white plane bit, chromatic plane bit) *)
Theorem C03_tri_encoding :
  (forall bwrbit, enc_tri TBlack bwrbit = (false, false)) /\
  (forall bwrbit, enc_tri TWhite bwrbit = (true, false)) /\
  enc_tri TChromatic true = (false, true) /\
  enc_tri TChromatic false = (true, true).
Proof. exact enc_tri_table. Qed.

Theorem C03_tri_encoding_is_bitmask : forall c bwrbit pos,
  bitmask_tri c bwrbit pos =
  (not8 (bitpos pos),
   (if fst (enc_tri c bwrbit) then bitpos pos else 0) +
   256 * (if snd (enc_tri c bwrbit) then bitpos pos else 0)).
Proof. exact bitmask_tri_enc. Qed.

Theorem C03_tri_exact : forall w h rot bwrbit c px py x y (b : buf),
  (Z.of_N w <= i32max)%Z -> (Z.of_N h <= i32max)%Z ->
  logical_in rot w h px py -> phys rot w h px py = (x, y) -> (forall i, b i < 256) ->
  let blen := buffer_size CtTri w h in
  exists l, set_pixel blen w h rot bwrbit (ATri c) px py = SpWrites l /\
    let b' := apply_writes b l in
    (forall x' y', x' < w -> y' < h ->
       get_bit b' 0 w x' y' =
         (if (x' =? x) && (y' =? y) then fst (enc_tri c bwrbit) else get_bit b 0 w x' y') /\
       get_bit b' (blen / 2) w x' y' =
         (if (x' =? x) && (y' =? y) then snd (enc_tri c bwrbit) else get_bit b (blen / 2) w x' y')) /\
    (forall i, i <> byte_of w x y -> i <> blen / 2 + byte_of w x y -> b' i = b i) /\
    (forall k, k <> 7 - x mod 8 ->
       N.testbit (b' (byte_of w x y)) k = N.testbit (b (byte_of w x y)) k /\
       N.testbit (b' (blen / 2 + byte_of w x y)) k = N.testbit (b (blen / 2 + byte_of w x y)) k) /\
    (forall i, b' i < 256).
Proof. exact tri_exact. Qed.

(** ** T1 exact effect, seven-colour: 4 bits per pixel, high nibble for even x, byte
    [x / 2 + y * ceil(w / 2)] *)
Theorem C03_oct_exact : forall w h rot bwrbit c px py x y (b : buf),
  (Z.of_N w <= i32max)%Z -> (Z.of_N h <= i32max)%Z ->
  logical_in rot w h px py -> phys rot w h px py = (x, y) -> (forall i, b i < 256) ->
  exists l, set_pixel (buffer_size CtOct w h) w h rot bwrbit (AOct c) px py = SpWrites l /\
    let b' := apply_writes b l in
    (forall x' y', x' < w -> y' < h ->
       get_nib b' w x' y' = if (x' =? x) && (y' =? y) then get_nibble c else get_nib b w x' y') /\
    (forall i, i <> nib_of w x y -> b' i = b i) /\
    (if x mod 2 =? 0 then b' (nib_of w x y) mod 16 = b (nib_of w x y) mod 16
     else b' (nib_of w x y) / 16 = b (nib_of w x y) / 16) /\
    (forall i, b' i < 256).
Proof. exact oct_exact. Qed.

(** ** the 27 shipped buffer types: their BYTECOUNT is the slice length the general theorems
    speak about and their sizes are in range, so every theorem above applies to each of them *)
Theorem C03_aliases :
  Forall (fun a => a_bytes a = buffer_size (a_ct a) (a_w a) (a_h a) /\
                   (Z.of_N (a_w a) <= i32max)%Z /\ (Z.of_N (a_h a) <= i32max)%Z /\
                   0 < a_w a /\ 0 < a_h a) aliases.
Proof. exact aliases_ok. Qed.

Theorem C03_aliases_count : length aliases = 27%nat.
Proof. exact aliases_count. Qed.

Theorem C03_alias_drawing : forall a, In a aliases ->
  forall rot c px py, ctype_of c = a_ct a -> in_i32 px -> in_i32 py ->
  (~ logical_in rot (a_w a) (a_h a) px py ->
     set_pixel (a_bytes a) (a_w a) (a_h a) rot (a_bwr a) c px py = SpIgnored) /\
  (logical_in rot (a_w a) (a_h a) px py ->
     exists l, set_pixel (a_bytes a) (a_w a) (a_h a) rot (a_bwr a) c px py = SpWrites l /\
               Forall (fun wr => w_idx wr < a_bytes a) l).
Proof. exact alias_set_pixel_total. Qed.

(** ** non-vacuity: the hypotheses are met by concrete non-trivial instances
    (122 x 250: a width that is no multiple of 8; rotation by 90 degrees) *)
Example C03_witness_in_bounds :
  (Z.of_N 122 <= i32max)%Z /\ (Z.of_N 250 <= i32max)%Z /\ in_i32 3 /\ in_i32 5 /\
  logical_in Rot90 122 250 3 5 /\ phys Rot90 122 250 3 5 = (116, 3) /\
  116 < 122 /\ 3 < 250 /\ (forall i, (fun _ : N => 0) i < 256).
Proof. unfold in_i32, i32min, i32max, logical_in. cbn [size phys]. repeat split; try reflexivity; lia. Qed.

Example C03_witness_in_bounds_effect :
  set_pixel (buffer_size CtColor 122 250) 122 250 Rot90 false (AColor White) 3 5 =
    SpWrites [mkWrite 62 247 8] /\
  set_pixel (buffer_size CtTri 122 250) 122 250 Rot90 false (ATri TChromatic) 3 5 =
    SpWrites [mkWrite 62 247 8; mkWrite 4062 247 8] /\
  set_pixel (buffer_size CtTri 122 250) 122 250 Rot90 true (ATri TChromatic) 3 5 =
    SpWrites [mkWrite 62 247 0; mkWrite 4062 247 8] /\
  set_pixel (buffer_size CtOct 121 250) 121 250 Rot90 false (AOct OOrange) 3 5 =
    SpWrites [mkWrite 240 240 6].
Proof. vm_compute. repeat split. Qed.

Example C03_witness_out_of_bounds :
  in_i32 250 /\ in_i32 0 /\ ~ logical_in Rot90 122 250 250 0 /\
  in_i32 i32min /\ in_i32 i32max /\ ~ logical_in Rot180 122 250 i32min i32max /\
  set_pixel (buffer_size CtTri 122 250) 122 250 Rot180 true (ATri TChromatic) i32min i32max = SpIgnored.
Proof.
  unfold in_i32, i32min, i32max, logical_in. cbn [size].
  repeat split; try reflexivity; lia.
Qed.

Example C03_witness_alias :
  In (mkAlias 122 250 false (buffer_len 122 250 * 2) CtTri) aliases /\
  ctype_of (ATri TChromatic) = CtTri.
Proof. split; [|reflexivity]. unfold aliases. cbn [In]. do 6 right. left. reflexivity. Qed.

Print Assumptions C03_size.
Print Assumptions C03_bounds_are_rotated_size.
Print Assumptions C03_out_of_bounds_ignored.
Print Assumptions C03_in_bounds_writes_in_slice.
Print Assumptions C03_every_point_ignored_or_in_slice.
Print Assumptions C03_never_panics.
Print Assumptions C03_phys_definition.
Print Assumptions C03_rotation_image.
Print Assumptions C03_rotation_injective.
Print Assumptions C03_rotation_surjective.
Print Assumptions C03_code_rotation_injective.
Print Assumptions C03_color_encoding.
Print Assumptions C03_color_exact.
Print Assumptions C03_tri_encoding.
Print Assumptions C03_tri_encoding_is_bitmask.
Print Assumptions C03_tri_exact.
Print Assumptions C03_oct_exact.
Print Assumptions C03_aliases.
Print Assumptions C03_aliases_count.
Print Assumptions C03_alias_drawing.

(** C04 SPI failures are reported fail-stop and the driver stays recoverable.
    Statements only; every proof is [exact <lemma>] or a one-line case analysis of a definition.

    (a) fail-stop is a theorem about [Hal.expand] (the transcription of src/interface.rs) for ALL
    item lists - hence for every operation of every driver model, every buffer content, every busy
    behaviour - and EVERY failure index k.  For the 12.48in driver the analogous theorem is
    [C15_fail_stop] (Properties/C15.v).
    (b) recovery, on the models: for each of the 30 configurations, for EVERY state of the closed
    reachable set (hence after every history), EVERY macro step of the alphabet (setting changes
    included) and EVERY field valuation a call of that step can be interrupted in (the driver fields
    in force at any of its SPI-transferring transport calls): wake_up begins with a hardware reset
    (after busy polls at most), so by [C04_recovery_forgets] the controller ends in the same state
    whatever the truncated call left behind, and [wake_up; update_frame; display_frame] ends with the
    same addressing / power registers, the same image burst and the same refresh as on the driver on
    which the same macro step completed without a failure ([C04_recovery]).  The 12.48in driver's
    recovery is [C15_recovery_after_error].  The same comparison (against the same case run without
    the fault) is made at run time on the real crate for every fault case. *)
From Coq Require Import List NArith Bool.
From EPD Require Import Iface Ops Hal HalSat HalProofs Run Ctl.Ctl Panels Spec.PSpec Spec.Specs Spec.Verdict Spec.Recover Proof.AllPanels Proof.Recovery.
Import ListNotations.
Open Scope N_scope.

(** With the k-th transfer of the call set to fail: either the call makes at most k transfers and is
    unaffected, or it returns exactly the SPI error, the failing transfer is the LAST HAL event of the
    call (no further transfer, no further pin or delay activity) and exactly k transfers succeeded
    before it.  Without an injected fault no transfer fails and the call does not return an error. *)
Theorem C04_fail_stop : forall cfg rho t d w,
  match expand cfg rho t d w with (o, w', _, evs) =>
    match w_fault w with
    | None => o <> OErr /\ no_fail evs /\ w_fault w' = None
    | Some k =>
        (o = OErr /\ w_fault w' = None /\ exists pre l, evs = pre ++ [HSpi l false] /\ no_fail pre /\ nxfer pre = k)
        \/ (o <> OErr /\ no_fail evs /\ nxfer evs <= k /\ w_fault w' = Some (k - nxfer evs))
    end
  end.
Proof. exact expand_failstop. Qed.

(** A constructor whose initialisation fails returns the error and NO driver. *)
Theorem C04_new_fails_without_driver : forall D cfg rho f w r od w' evs,
  construct D cfg rho f w = (r, od, w', evs) -> r = CRErr -> od = None.
Proof.
  intros D cfg rho f w r od w' evs. unfold construct.
  destruct (d_new D (d_init D)) as [[r0 d0] t]. destruct (expand cfg rho t (d_init D) (set_fault f w)) as [[[o w1] d1] e].
  destruct o; destruct r0; intros [= <- <- <- <-]; congruence.
Qed.

(** A failed call returns [CRErr] (never a panic caused by the failure): the result of [Run.call] is
    [CRErr] exactly when the expansion stopped at a failing transfer. *)
Theorem C04_call_result : forall D cfg rho k o f d w m r0 d0 t out w1 d1 evs,
  d_exec D k o = Some m -> m d = (r0, d0, t) -> expand cfg rho t d (set_fault f w) = (out, w1, d1, evs) ->
  fst (fst (fst (call D cfg rho k o f d w))) = match out with
                                               | OOk => match r0 with Some v => CROk v | None => CRPanic end
                                               | OErr => CRErr | OPanic => CRPanic | ODiverged => CRDiverged
                                               end.
Proof.
  intros D cfg rho k o f d w m r0 d0 t out w1 d1 evs E1 E2 E3. unfold call. rewrite E1, E2, E3.
  destruct out; reflexivity.
Qed.

(** The hardware reset at the start of wake_up makes the controller model forget whatever a
    truncated call left behind: its state afterwards is the power-on state, for EVERY prior state. *)
Theorem C04_reset_forgets_controller_state : forall p s a b, fst (cstep p s (IReset a b)) = por p.
Proof. intros p s a b. cbn [cstep]. destruct (close p s). reflexivity. Qed.

(** If wake_up begins with a hardware reset (possibly after busy waits), the driver fields, the controller
    state and the image effects after [wake_up; update_frame; display_frame] are the same from EVERY
    controller state the failed call may have left behind. *)
Theorem C04_recovery_forgets : forall D PP d c c' r r',
  suffix D PP d c = Some r -> suffix D PP d c' = Some r' -> snd r = true ->
  fst (fst (fst r)) = fst (fst (fst r')) /\ snd (fst (fst r)) = snd (fst (fst r')) /\ snd (fst r) = snd (fst r').
Proof. exact suffix_forgets. Qed.

(** Recovery after a failure at any SPI transfer of any call of any macro step, in any reachable state:
    [pair_ok (d, d1)] = the suffix from the interrupted fields [d] and from the fields [d1] of the driver
    on which the macro step completed both succeed, both begin with a reset, and end with equal
    addressing / power registers ([Checks.reg_diff] empty, same pending flag) and equal image bursts and
    refreshes. *)
Theorem C04_recovery : forall c, In c cfgs ->
  forall s m d d1, In s (Rof c) -> In m (ps_alpha (spec_of (snd c))) ->
  macro_done (iD (fst c) (spec_of (snd c))) (iPP (fst c) (spec_of (snd c))) (iisig (fst c) (spec_of (snd c)))
             (ilr (fst c) (spec_of (snd c)) 0) (ilr (fst c) (spec_of (snd c)) 1) (icref (fst c) (spec_of (snd c))) s m = Some d1 ->
  In d (macro_fields (iD (fst c) (spec_of (snd c))) (iPP (fst c) (spec_of (snd c))) (iisig (fst c) (spec_of (snd c)))
                     (ilr (fst c) (spec_of (snd c)) 0) (ilr (fst c) (spec_of (snd c)) 1) (icref (fst c) (spec_of (snd c))) s m) ->
  pair_ok (iD (fst c) (spec_of (snd c))) (iPP (fst c) (spec_of (snd c))) (d, d1) = true.
Proof. exact recovery_spec. Qed.

(** non-vacuity: a concrete call with its second transfer failing stops there *)
Example C04_witness :
  match expand (mkCfg true 0) (fun _ _ _ => 0) [ICall (ICmd 1); ICall (IData (DLit [2; 3])); ICall (ICmd 4)]
               (mkD 1 0 false false 0 None) (mkW (BStream [] true) (Some 1) None) with
  | (o, _, _, evs) => o = OErr /\ evs = [HDc false; HSpi [1] true; HDc true; HSpi [2] false]
  end.
Proof. vm_compute. split; reflexivity. Qed.

Print Assumptions C04_fail_stop.
Print Assumptions C04_new_fails_without_driver.
Print Assumptions C04_call_result.
Print Assumptions C04_reset_forgets_controller_state.
Print Assumptions C04_recovery_forgets.
Print Assumptions C04_recovery.
